import Libp2pModel.Proofs.C07All
import Libp2pModel.Common.Machine
/-!
# C07 — property theorems

All theorems are about `reach n ops`: the model state after an ARBITRARY sequence of operations
(`connect`, `close`, `disconnect`, remote close, `emit` of arbitrary behaviour command bursts,
single `poll_next_event` calls with arbitrary oracle values) from the initial state with
`notify_handler_buffer_size = n`, i.e. for every schedule of emissions, back-pressure and closes.
`handlers` are all connection handlers that ever existed (established now, or closed and archived).
`k.got` is the list of events handler `k` received through `on_behaviour_event`, in order; every
event carries the target that was captured when the behaviour emitted it.
-/
namespace C07

def reach (n : Nat) (ops : List Op) : State := Machine.exec step (State.init n) ops

def State.handlers (s : State) : List Conn := s.conns ++ s.gone

theorem inv_reach (n : Nat) (ops : List Op) : Inv (reach n ops) :=
  Machine.invariant_of_step step Inv (fun _ o h => h.step o) ops _ (Inv.init n)

theorem inv2_reach (n : Nat) (ops : List Op) : Inv2 (reach n ops) :=
  Machine.invariant_of_step step Inv2 (fun _ o h => h.step o) ops _ (Inv2.init n)

theorem got_sub_seq (k : Conn) : ∀ e ∈ k.got, e ∈ k.seq := fun _ he => List.mem_append_left _ he

/-- **One(c) is delivered only to c.** Whatever a handler received with target `One c` was
received by the handler of connection `c`. (At most once per handler: `fifo`.) -/
theorem one_targeted_partial (n : Nat) (ops : List Op) :
    ∀ k ∈ (reach n ops).handlers, ∀ e ∈ k.got, ∀ c, e.tgt = .one c → k.id = c := by
  intro k hk e he c hc
  have := ((inv_reach n ops).conns k hk).tgt e (got_sub_seq k e he)
  rw [hc] at this; exact this

/-- **Any goes to a member of the id list captured at emission.** -/
theorem any_member (n : Nat) (ops : List Op) :
    ∀ k ∈ (reach n ops).handlers, ∀ e ∈ k.got, ∀ ids, e.tgt = .any ids → k.id ∈ ids := by
  intro k hk e he ids hc
  have := ((inv_reach n ops).conns k hk).tgt e (got_sub_seq k e he)
  rw [hc] at this; exact this

/-- the list captured for `NotifyHandler::Any` is exactly the peer's established connections at the
moment `handle_behaviour_event` runs (connections established later are not in it), and the event is
stamped with the establishment clock of that moment -/
theorem any_captured_at_emission (s : State) (p n : Nat) (ch : Option Nat) :
    (handleBeh s (.any p n ch)).pending =
      some ⟨⟨n, .any ((s.conns.filter (·.peer == p)).map (·.id)), s.clock⟩,
            .any ((s.conns.filter (·.peer == p)).map (·.id)), ch⟩ := rfl

/-- `spawn_connection` stamps the new connection with the establishment clock and advances it;
the connection id was fixed long before (when the dial was built / the inbound connection accepted) -/
theorem established_stamp (s : State) (m : PendMsg) (bad : Bool) (h : m.ok = true) :
    (reportPending s m bad).1.conns = s.conns ++ [({ id := m.id, peer := m.peer, estAt := s.clock } : Conn)] ∧
    (reportPending s m bad).1.clock = s.clock + 1 := by
  unfold reportPending; simp [h]

/-- **An `Any` event is only delivered to a connection that was established when it was emitted**:
the receiving handler's connection id is in the id list captured at emission, AND that connection's
establishment strictly precedes the emission on the model's establishment clock — for every
history, with connection ids allocated at dial/accept time in any order relative to establishment
(a connection with a smaller id may be established later). -/
theorem any_delivered_only_to_captured (n : Nat) (ops : List Op) :
    ∀ k ∈ (reach n ops).handlers, ∀ e ∈ k.got, ∀ ids, e.tgt = .any ids →
      k.id ∈ ids ∧ k.estAt < e.emitAt := by
  intro k hk e he ids ht
  exact ⟨any_member n ops k hk e he ids ht,
    (inv2_reach n ops).time.seqT k hk e (got_sub_seq k e he) ids ht⟩

/-- the same for what is still queued: nothing queued for a handler was emitted before its
connection was established -/
theorem any_queued_only_for_captured (n : Nat) (ops : List Op) :
    ∀ k ∈ (reach n ops).handlers, ∀ e ∈ Cmd.notes k.q, ∀ ids, e.tgt = .any ids →
      k.id ∈ ids ∧ k.estAt < e.emitAt := by
  intro k hk e he ids ht
  have hs : e ∈ k.seq := List.mem_append_right _ he
  refine ⟨?_, (inv2_reach n ops).time.seqT k hk e hs ids ht⟩
  have := ((inv_reach n ops).conns k hk).tgt e hs
  rw [ht] at this; exact this

/-- **FIFO.** The numbers a handler received are strictly increasing; numbers are assigned in the
order the behaviour emits, so every handler sees a subsequence of the emission order, each event
at most once. -/
theorem fifo (n : Nat) (ops : List Op) :
    ∀ k ∈ (reach n ops).handlers, (k.got.map (·.n)).Pairwise (· < ·) := by
  intro k hk
  have := ((inv_reach n ops).conns k hk).sorted
  unfold Conn.seq at this
  rw [List.map_append, List.pairwise_append] at this
  exact this.1

/-- …and what is still queued for a handler continues that order: nothing queued can overtake. -/
theorem fifo_queue (n : Nat) (ops : List Op) :
    ∀ k ∈ (reach n ops).handlers, ((k.got ++ Cmd.notes k.q).map (·.n)).Pairwise (· < ·) :=
  fun k hk => ((inv_reach n ops).conns k hk).sorted

/-- **An event is dropped only when its target(s) are closing or absent.** Every drop record —
`notify_one` / `notify_any` giving up, or a queue discarded by the task — lists no target that was
established, not closing and not closed at that moment (for `Any`: among the ids the pending event
still carried; `any_lost_only_if_all_captured_dead` is the same over ALL captured ids). -/
theorem loss_only_if_closing (n : Nat) (ops : List Op) :
    ∀ d ∈ (reach n ops).dropped, d.live = [] :=
  (inv_reach n ops).drops

/-- **Nothing is lost inside a command queue** (repaired code): whenever a connection task runs it
hands every queued event to the handler; no `NotifyHandler` command ever sits behind a `Close`. -/
theorem queued_is_delivered (n : Nat) (ops : List Op) :
    ∀ k ∈ (reach n ops).handlers, k.runTask.2.2 = [] ∧ k.runTask.1.got = k.got ++ k.runTask.2.1 := by
  intro k hk
  have h := (inv_reach n ops).conns k hk
  exact ⟨h.runTask.2, ((runTask_spec k).2.2 h.nac).2.2.2⟩

/-- `notify_any` removes an id from the pending list only when that connection is absent, closing
or closed at that moment; all ids it keeps were in the list before. -/
theorem prune_only_dead (s s' : State) (p : Pending) (ids : List Nat) (hc : p.cur = .any ids)
    (h : deliverPending s p = (s', true)) :
    ∃ ids', s'.pending = some { p with cur := .any ids' } ∧ (∀ id ∈ ids', id ∈ ids) ∧
      ∀ id ∈ ids, id ∉ ids' → s.isLiveId id = false := by
  unfold deliverPending at h
  rw [hc] at h
  simp only at h
  split at h
  · simp at h
  · rename_i hready
    split at h
    · simp at h
    · simp only [Prod.mk.injEq, and_true] at h
      refine ⟨_, by rw [← h], fun id hid => (List.mem_filter.1 hid).1, ?_⟩
      intro id hid hnot
      cases hl : s.isLiveId id with
      | false => rfl
      | true =>
        exfalso
        rcases live_status hl with h1 | h1
        · have : id ∈ ids.filter (fun id => s.status id == some .ok) := List.mem_filter.2 ⟨hid, by simp [h1]⟩
          rw [hready] at this; cases this
        · exact hnot (List.mem_filter.2 ⟨hid, by simp [h1]⟩)

/-- **Global uniqueness** (the statement that was only monitored before): over all handlers that ever
existed and the drop records, no event number occurs twice — an event is received by at most one
handler, at most once, and never both received and dropped. -/
def full_statement : Prop :=
  ∀ (n : Nat) (ops : List Op),
    let s := reach n ops
    ((s.handlers.flatMap (fun k => k.got.map (·.n))) ++ s.dropped.map (·.e.n)).Nodup

/-- **Conservation.** After any history every event number issued so far (`< nextEv`) is in exactly
one place — not yet sent (behaviour queue / `pending_handler_event`), received by or queued for
exactly one handler, or recorded as dropped — and no other number is anywhere. -/
theorem conservation (n : Nat) (ops : List Op) (k : Nat) :
    (reach n ops).cnt k = if k < (reach n ops).nextEv then 1 else 0 :=
  (inv2_reach n ops).uniq k

theorem count_got_le_toks (x : Nat) (cs : List Conn) :
    (cs.flatMap (fun k => k.got.map (·.n))).count x ≤ (toks cs).count x := by
  induction cs with
  | nil => simp [toks]
  | cons a r ih =>
    simp only [toks, List.flatMap_cons, List.count_append, Conn.tok, Conn.seq, List.map_append] at ih ⊢
    omega

theorem full_statement_proved : full_statement := by
  intro n ops
  simp only
  rw [List.nodup_iff_count]
  intro x
  have h := conservation n ops x
  have h1 := count_got_le_toks x (reach n ops).conns
  have h2 := count_got_le_toks x (reach n ops).gone
  simp only [State.cnt] at h
  simp only [State.handlers, List.flatMap_append, List.count_append]
  split at h <;> omega

/-- Connection ids are never reused: "the handler of connection `c`" is unambiguous. -/
theorem handler_ids_nodup (n : Nat) (ops : List Op) :
    (cids (reach n ops).conns ++ cids (reach n ops).gone).Nodup := by
  rw [List.nodup_iff_count]
  intro id
  have := (inv2_reach n ops).ids.uniq id
  simp only [State.allIds, List.count_append] at this ⊢
  omega

/-- **One(c): only to c, at most once, by one handler** — `one_targeted_partial` plus global
uniqueness plus unambiguous connection ids. -/
theorem one_targeted (n : Nat) (ops : List Op) :
    (∀ k ∈ (reach n ops).handlers, ∀ e ∈ k.got, ∀ c, e.tgt = .one c → k.id = c) ∧
    ((reach n ops).handlers.flatMap (fun k => k.got.map (·.n))).Nodup ∧
    (cids (reach n ops).conns ++ cids (reach n ops).gone).Nodup :=
  ⟨one_targeted_partial n ops, (List.nodup_append.1 (full_statement_proved n ops)).1, handler_ids_nodup n ops⟩

/-- what a drop record's `liveAll` is: the captured targets (for `Any`: ALL ids captured at emission,
also those `notify_any` pruned from the pending list earlier) that are established, not closing
and not closed in the state in which the event is dropped -/
theorem dropNote_liveAll (s : State) (e : Note) (cur : Target) :
    (s.dropNote e cur).dropped = s.dropped ++ [⟨e, s.liveIds cur, s.liveIds e.tgt⟩] := rfl

/-- **Any: exactly one unless all captured connections are closing/gone** (strong form). An event is
dropped only in a state where NONE of the connections captured at emission — including the ids pruned
earlier — is established, not closing and not closed.  (With `conservation`: an `Any` event that has
left the behaviour and is not dropped is queued for or received by exactly one handler, a member of
the captured list by `any_member`, and `queued_is_delivered` hands it over when the task runs.) -/
theorem any_lost_only_if_all_captured_dead (n : Nat) (ops : List Op) :
    ∀ d ∈ (reach n ops).dropped, d.liveAll = [] :=
  (inv2_reach n ops).strong.dropsAll

/-- while an `Any` event is pending, every captured id that was pruned from its candidate list is
(still) absent, closing or closed — closing is permanent and ids are never reused -/
theorem pruned_stay_dead (n : Nat) (ops : List Op) (p : Pending) (ids0 cur : List Nat)
    (hp : (reach n ops).pending = some p) (ht : p.e.tgt = .any ids0) (hc : p.cur = .any cur) :
    (∀ id ∈ cur, id ∈ ids0) ∧ ∀ id ∈ ids0, id ∉ cur → (reach n ops).isLiveId id = false := by
  refine ⟨?_, (inv2_reach n ops).strong.pruned p ids0 cur hp ht hc⟩
  have := (inv_reach n ops).pend p hp
  simp only [pendOK, hc] at this
  obtain ⟨ids1, h1, h2⟩ := this
  rw [ht] at h1; cases h1; exact h2

/-- non-vacuity of the strong clause: connections 0, 1 (peer 1) are full, an `Any` event is pending
with candidates [0, 1]; connection 2 to the same peer is established afterwards; connection 0 is
closed → pruned (pending list [1], captured list still [0, 1]); connection 1 is closed → the event
is dropped with no live captured target, and connection 2 (not captured) never gets it. -/
example :
    let ops : List Op := [.connect 1, .connect 1, .connect 1, .poll none, .poll (some 0), .poll (some 1),
      .emit [.one 0, .one 1, .any 1 none], .poll (some 2), .close 0, .poll none]
    let s1 := Machine.exec step (State.init 1) ops
    let s2 := Machine.exec step (State.init 1) (ops ++ [.close 1, .poll (some 0)])
    s1.pending.map (fun p => (p.e.n, p.e.tgt, p.cur)) = some (2, .any [0, 1], .any [1]) ∧
    s2.dropped.map (fun d => (d.e.n, d.live, d.liveAll)) = [(2, [], [])] ∧
    s2.handlers.map (fun k => (k.id, k.got.map (·.n))) = [(1, [1]), (2, []), (0, [0])] ∧
    s2.isLiveId 2 = true ∧ s2.bad = false := by
  decide +kernel

/-! ### the code as found (`fixed = false`): an `Any` event is lost although a healthy connection exists -/

def buggyRun : State :=
  Machine.exec step (State.init 3 false)
    [.connect 1, .connect 1, .poll none, .poll (some 0), .poll (some 1), .poll none,
     .emit [.closeOne 0, .any 1 (some 0)], .poll none]

/-- Two connections 0 and 1 to peer 1; the behaviour emits `CloseConnection::One(0)` and then
`NotifyHandler::Any`: the unrepaired `notify_any` may pick connection 0 (its channel is still open,
the `Close` command is merely queued), the task drops the event when it serves `Close` — although
connection 1 was established, not closing and ready. -/
theorem any_sent_to_closing_buggy_counterexample :
    buggyRun.dropped.map (fun d => (d.e.n, d.live)) = [(0, [1])] ∧
    buggyRun.handlers.map (fun k => (k.id, k.got.length)) = [(0, 0), (1, 0)] := by
  decide +kernel

/-- the same schedule on the repaired code delivers the event to connection 1 -/
theorem any_sent_to_closing_fixed :
    let s := Machine.exec step (State.init 3 true)
      [.connect 1, .connect 1, .poll none, .poll (some 0), .poll (some 1), .poll none,
       .emit [.closeOne 0, .any 1 (some 1)], .poll none]
    s.dropped = [] ∧ s.handlers.map (fun k => (k.id, k.got.map (·.n))) = [(0, []), (1, [0])] ∧ s.bad = false := by
  decide +kernel

/-! ### non-vacuity: back-pressure, a pending `One`, and a drop do occur -/

example :
    let s := Machine.exec step (State.init 1 true)
      [.connect 1, .poll none, .poll (some 0), .emit [.one 0, .one 0, .one 0], .poll none]
    s.pending.isSome = true ∧ s.handlers.map (fun k => k.got.map (·.n)) = [[0]] := by
  decide +kernel

example :
    let s := Machine.exec step (State.init 1 true)
      [.connect 1, .poll none, .poll (some 0), .emit [.one 0, .one 0, .one 0], .poll none, .close 0,
       .poll none, .poll none]
    s.dropped.map (·.e.n) = [1, 2] ∧ s.handlers.map (fun k => k.got.map (·.n)) = [[0]] := by
  decide +kernel

/-- non-vacuity of `any_delivered_only_to_captured` where ids and establishment order disagree:
connection 0 is dialled first (id 0) but completes last; connection 1 (id 1, same peer) is established
and full when the `Any` event is emitted, so the event is parked; then connection 0 gets established —
lower id, same peer, empty queue — and the event still waits for connection 1. -/
example :
    let ops : List Op := [.dial 1, .connect 1, .poll none, .poll (some 1), .poll none, .resolve 0 1, .poll none,
      .emit [.one 1, .any 1 (some 1)], .poll (some 0)]
    let s1 := Machine.exec step (State.init 1) ops
    let s2 := Machine.exec step (State.init 1) (ops ++ [.poll none, .poll none])
    s1.pending.map (fun p => (p.e.n, p.e.tgt, p.e.emitAt)) = some (1, .any [1], 1) ∧
    s1.conns.map (fun k => (k.id, k.estAt, k.q.length)) = [(1, 0, 1), (0, 1, 0)] ∧
    s2.conns.map (fun k => (k.id, k.estAt, k.got.map (fun e => (e.n, e.emitAt)))) = [(1, 0, [(0, 1), (1, 1)]), (0, 1, [])] ∧
    s2.bad = false ∧ s2.dropped = [] := by
  decide +kernel

end C07

#print axioms C07.inv_reach
#print axioms C07.any_delivered_only_to_captured
#print axioms C07.any_queued_only_for_captured
#print axioms C07.established_stamp
#print axioms C07.inv2_reach
#print axioms C07.conservation
#print axioms C07.full_statement_proved
#print axioms C07.handler_ids_nodup
#print axioms C07.one_targeted
#print axioms C07.any_lost_only_if_all_captured_dead
#print axioms C07.pruned_stay_dead
#print axioms C07.one_targeted_partial
#print axioms C07.any_member
#print axioms C07.any_captured_at_emission
#print axioms C07.fifo
#print axioms C07.fifo_queue
#print axioms C07.loss_only_if_closing
#print axioms C07.queued_is_delivered
#print axioms C07.prune_only_dead
#print axioms C07.any_sent_to_closing_buggy_counterexample
#print axioms C07.any_sent_to_closing_fixed
