import Libp2pModel.Proofs.C07Inv
import Libp2pModel.Common.Machine
/-!
# C07 — property theorems

All theorems are about `reach n ops`: the model state after an ARBITRARY sequence of operations
(`connect`, `close`, `disconnect`, remote close, `emit` of arbitrary behaviour command bursts,
single `poll_next_event` calls with arbitrary oracle values) from the initial state with
`notify_handler_buffer_size = n`, i.e. for every schedule of emissions, back-pressure and closes.
`handlers` are all connection handlers that ever existed (established now, or closed and archived).
`k.got` is the list of events handler `k` received through `on_behaviour_event`, in order; every
event carries the target that was captured when the behaviour emitted it.
-/
namespace C07

def reach (n : Nat) (ops : List Op) : State := Machine.exec step (State.init n) ops

def State.handlers (s : State) : List Conn := s.conns ++ s.gone

theorem inv_reach (n : Nat) (ops : List Op) : Inv (reach n ops) :=
  Machine.invariant_of_step step Inv (fun _ o h => h.step o) ops _ (Inv.init n)

theorem got_sub_seq (k : Conn) : ∀ e ∈ k.got, e ∈ k.seq := fun _ he => List.mem_append_left _ he

/-- **One(c) is delivered only to c.** Whatever a handler received with target `One c` was
received by the handler of connection `c`. (At most once per handler: `fifo`.) -/
theorem one_targeted_partial (n : Nat) (ops : List Op) :
    ∀ k ∈ (reach n ops).handlers, ∀ e ∈ k.got, ∀ c, e.tgt = .one c → k.id = c := by
  intro k hk e he c hc
  have := ((inv_reach n ops).conns k hk).tgt e (got_sub_seq k e he)
  rw [hc] at this; exact this

/-- **Any goes to a member of the id list captured at emission.** -/
theorem any_member (n : Nat) (ops : List Op) :
    ∀ k ∈ (reach n ops).handlers, ∀ e ∈ k.got, ∀ ids, e.tgt = .any ids → k.id ∈ ids := by
  intro k hk e he ids hc
  have := ((inv_reach n ops).conns k hk).tgt e (got_sub_seq k e he)
  rw [hc] at this; exact this

/-- the list captured for `NotifyHandler::Any` is exactly the peer's established connections at the
moment `handle_behaviour_event` runs (connections established later are not in it) -/
theorem any_captured_at_emission (s : State) (p n : Nat) (ch : Option Nat) :
    (handleBeh s (.any p n ch)).pending =
      some ⟨⟨n, .any ((s.conns.filter (·.peer == p)).map (·.id))⟩,
            .any ((s.conns.filter (·.peer == p)).map (·.id)), ch⟩ := rfl

/-- **FIFO.** The numbers a handler received are strictly increasing; numbers are assigned in the
order the behaviour emits, so every handler sees a subsequence of the emission order, each event
at most once. -/
theorem fifo (n : Nat) (ops : List Op) :
    ∀ k ∈ (reach n ops).handlers, (k.got.map (·.n)).Pairwise (· < ·) := by
  intro k hk
  have := ((inv_reach n ops).conns k hk).sorted
  unfold Conn.seq at this
  rw [List.map_append, List.pairwise_append] at this
  exact this.1

/-- …and what is still queued for a handler continues that order: nothing queued can overtake. -/
theorem fifo_queue (n : Nat) (ops : List Op) :
    ∀ k ∈ (reach n ops).handlers, ((k.got ++ Cmd.notes k.q).map (·.n)).Pairwise (· < ·) :=
  fun k hk => ((inv_reach n ops).conns k hk).sorted

/-- **An event is dropped only when its target(s) are closing or absent.** Every drop record —
`notify_one` / `notify_any` giving up, or a queue discarded by the task — lists no target that was
established, not closing and not closed at that moment (for `Any`: among the ids the pending event
still carried; see `prune_only_dead` for the ids removed earlier). -/
theorem loss_only_if_closing (n : Nat) (ops : List Op) :
    ∀ d ∈ (reach n ops).dropped, d.live = [] :=
  (inv_reach n ops).drops

/-- **Nothing is lost inside a command queue** (repaired code): whenever a connection task runs it
hands every queued event to the handler; no `NotifyHandler` command ever sits behind a `Close`. -/
theorem queued_is_delivered (n : Nat) (ops : List Op) :
    ∀ k ∈ (reach n ops).handlers, k.runTask.2.2 = [] ∧ k.runTask.1.got = k.got ++ k.runTask.2.1 := by
  intro k hk
  have h := (inv_reach n ops).conns k hk
  exact ⟨h.runTask.2, ((runTask_spec k).2.2 h.nac).2.2.2⟩

/-- `notify_any` removes an id from the pending list only when that connection is absent, closing
or closed at that moment; all ids it keeps were in the list before. -/
theorem prune_only_dead (s s' : State) (p : Pending) (ids : List Nat) (hc : p.cur = .any ids)
    (h : deliverPending s p = (s', true)) :
    ∃ ids', s'.pending = some { p with cur := .any ids' } ∧ (∀ id ∈ ids', id ∈ ids) ∧
      ∀ id ∈ ids, id ∉ ids' → s.isLiveId id = false := by
  unfold deliverPending at h
  rw [hc] at h
  simp only at h
  split at h
  · simp at h
  · rename_i hready
    split at h
    · simp at h
    · simp only [Prod.mk.injEq, and_true] at h
      refine ⟨_, by rw [← h], fun id hid => (List.mem_filter.1 hid).1, ?_⟩
      intro id hid hnot
      cases hl : s.isLiveId id with
      | false => rfl
      | true =>
        exfalso
        rcases live_status hl with h1 | h1
        · have : id ∈ ids.filter (fun id => s.status id == some .ok) := List.mem_filter.2 ⟨hid, by simp [h1]⟩
          rw [hready] at this; cases this
        · exact hnot (List.mem_filter.2 ⟨hid, by simp [h1]⟩)

/-- The full C07 statement also needs *global* uniqueness: an event number never appears in the
`got` lists of two different handlers (nor both in a `got` list and in `dropped`).  This
conservation law is stated here and checked on every correspondence run (the Spec's
`deliver_twice` / `drop_twice` clauses) but is not proved. -/
def full_statement : Prop :=
  ∀ (n : Nat) (ops : List Op),
    let s := reach n ops
    ((s.handlers.flatMap (fun k => k.got.map (·.n))) ++ s.dropped.map (·.e.n)).Nodup

/-! ### the code as found (`fixed = false`): an `Any` event is lost although a healthy connection exists -/

def buggyRun : State :=
  Machine.exec step (State.init 3 false)
    [.connect 1, .connect 1, .poll none, .poll (some 0), .poll (some 1), .poll none,
     .emit [.closeOne 0, .any 1 (some 0)], .poll none]

/-- Two connections 0 and 1 to peer 1; the behaviour emits `CloseConnection::One(0)` and then
`NotifyHandler::Any`: the unrepaired `notify_any` may pick connection 0 (its channel is still open,
the `Close` command is merely queued), the task drops the event when it serves `Close` — although
connection 1 was established, not closing and ready. -/
theorem any_sent_to_closing_buggy_counterexample :
    buggyRun.dropped.map (fun d => (d.e.n, d.live)) = [(0, [1])] ∧
    buggyRun.handlers.map (fun k => (k.id, k.got.length)) = [(0, 0), (1, 0)] := by
  decide +kernel

/-- the same schedule on the repaired code delivers the event to connection 1 -/
theorem any_sent_to_closing_fixed :
    let s := Machine.exec step (State.init 3 true)
      [.connect 1, .connect 1, .poll none, .poll (some 0), .poll (some 1), .poll none,
       .emit [.closeOne 0, .any 1 (some 1)], .poll none]
    s.dropped = [] ∧ s.handlers.map (fun k => (k.id, k.got.map (·.n))) = [(0, []), (1, [0])] ∧ s.bad = false := by
  decide +kernel

/-! ### non-vacuity: back-pressure, a pending `One`, and a drop do occur -/

example :
    let s := Machine.exec step (State.init 1 true)
      [.connect 1, .poll none, .poll (some 0), .emit [.one 0, .one 0, .one 0], .poll none]
    s.pending.isSome = true ∧ s.handlers.map (fun k => k.got.map (·.n)) = [[0]] := by
  decide +kernel

example :
    let s := Machine.exec step (State.init 1 true)
      [.connect 1, .poll none, .poll (some 0), .emit [.one 0, .one 0, .one 0], .poll none, .close 0,
       .poll none, .poll none]
    s.dropped.map (·.e.n) = [1, 2] ∧ s.handlers.map (fun k => k.got.map (·.n)) = [[0]] := by
  decide +kernel

end C07

#print axioms C07.inv_reach
#print axioms C07.one_targeted_partial
#print axioms C07.any_member
#print axioms C07.any_captured_at_emission
#print axioms C07.fifo
#print axioms C07.fifo_queue
#print axioms C07.loss_only_if_closing
#print axioms C07.queued_is_delivered
#print axioms C07.prune_only_dead
#print axioms C07.any_sent_to_closing_buggy_counterexample
#print axioms C07.any_sent_to_closing_fixed
