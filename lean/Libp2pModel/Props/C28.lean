import Libp2pModel.Model.C28
import Libp2pModel.Proofs.C28Inv
/-!
# C28 — theorems

*Property*: at every point, each mesh member is a connected gossipsub peer subscribed to the topic
and not an explicit peer. The node never adds to a mesh (by heartbeat, subscription or accepted
GRAFT) a peer that is backed off for that topic, has negative score or is explicit, and refuses a
GRAFT when the topic's mesh already has `mesh_n_high` peers.

The theorems are about the code AS REPAIRED (`findings/C28-graft-from-floodsub.fix.diff`):
`handle_graft` ignores peers that have not negotiated a gossipsub protocol.
-/
namespace C28

/-- **Inv28 for all histories**: from the initial state, after every op sequence (any scores, any
admissible random choices, any times), every mesh member is a connected gossipsub peer subscribed to
the topic and not explicit; every fanout peer is a connected gossipsub subscriber. Side condition
(`OkRun`): `add_explicit_peer` is only applied to peers that are in no mesh. -/
theorem inv (c : Cfg) (hb slack : Nat) (ops : List TOp) (h : OkRun (init c hb slack) ops) :
    Inv (exec (init c hb slack) ops) :=
  inv_exec ops _ (inv_init c hb slack) h

/-- the same, spelled out -/
theorem mesh_members_eligible (c : Cfg) (hb slack : Nat) (ops : List TOp) (h : OkRun (init c hb slack) ops)
    (t : Nat) (m : List Nat) (hm : (exec (init c hb slack) ops).mesh t = some m) (p : Nat) (hp : p ∈ m) :
    (∃ pd, (exec (init c hb slack) ops).peers p = some pd ∧ pd.gossip = true ∧ t ∈ pd.topics)
      ∧ p ∉ (exec (init c hb slack) ops).explicit :=
  (inv c hb slack ops h).mesh t m hm p hp

/-- one step from ANY state satisfying the invariant -/
theorem inv_preserved (s : State) (o : TOp) (h : Inv s) (hok : okOp s o) : Inv (step s o).1 :=
  inv_step s o h hok

/-! ## GRAFT received -/

/-- **A GRAFT into a full mesh is refused**: the mesh is unchanged and the topic is answered with PRUNE. -/
theorem graft_refused_when_full (s : State) (now : Nat) (bz : Bool) (p t : Nat) (m : List Nat)
    (hm : s.mesh t = some m) (hp : m.contains p = false) (hfull : m.length ≥ s.cfg.meshHigh) :
    (graftTopic s now bz p t).1 = s ∧ (graftTopic s now bz p t).2.1 = [t] := by
  unfold graftTopic
  simp only [hm, hp, Bool.false_eq_true, ↓reduceIte]
  split
  · exact ⟨rfl, rfl⟩
  · split
    · exact ⟨rfl, rfl⟩
    · simp

/-- **A GRAFT inside the backoff window** (`get_backoff_time > now`, no slack) leaves the mesh
unchanged and is answered with PRUNE. -/
theorem graft_penalised_in_backoff (s : State) (now : Nat) (bz : Bool) (p t : Nat) (m : List Nat)
    (hm : s.mesh t = some m) (hp : m.contains p = false) (hbo : backedOffNow s t p now = true) :
    (graftTopic s now bz p t).1 = s ∧ (graftTopic s now bz p t).2.1 = [t] := by
  have hp' : p ∉ m := by simpa using hp
  unfold graftTopic
  simp [hm, hp', hbo]

/-- **An accepted GRAFT**: if `handle_graft`'s loop adds `p` to `mesh t`, then `p` was not backed off
(without slack), its score was not negative and the mesh had fewer than `mesh_n_high` members. -/
theorem graft_adds_only_eligible (s : State) (now : Nat) (bz : Bool) (p t : Nat)
    (hnot : inMesh s t p = false) (hadd : inMesh (graftTopic s now bz p t).1 t p = true) :
    backedOffNow s t p now = false ∧ bz = false ∧ ∃ m, s.mesh t = some m ∧ m.length < s.cfg.meshHigh := by
  unfold graftTopic at hadd
  cases hm : s.mesh t with
  | none => simp [hm, hnot] at hadd
  | some m =>
    simp only [hm] at hadd
    split at hadd
    · rw [hnot] at hadd; cases hadd
    · split at hadd
      · rw [hnot] at hadd; cases hadd
      · rename_i hbo
        split at hadd
        · rw [hnot] at hadd; cases hadd
        · rename_i hbz
          split at hadd
          · rw [hnot] at hadd; cases hadd
          · rename_i hlen
            refine ⟨by simpa using hbo, by simpa using hbz, m, rfl, by omega⟩

/-- **`handle_graft` (repaired) ignores a peer that has not negotiated gossipsub**: nothing changes. -/
theorem graft_from_non_gossipsub_ignored (s : State) (now : Nat) (sc : Nat → Int) (p : Nat) (ts : List Nat)
    (pd : Peer) (hpd : s.peers p = some pd) (hk : pd.gossip = false) :
    (recvGraftG fixed s now sc p ts).1 = s := by
  simp [recvGraftG, hpd, hk, fixed]

/-- explicit peers are never grafted by a GRAFT: only their topic set is updated -/
theorem graft_from_explicit_ignored (s : State) (now : Nat) (sc : Nat → Int) (p : Nat) (ts : List Nat)
    (pd : Peer) (hpd : s.peers p = some pd) (hk : pd.gossip = true) (hex : s.explicit.contains p = true) :
    (recvGraftG fixed s now sc p ts).1.mesh = s.mesh := by
  have h1 : (setTopics s p (fun cur => insAll cur ts)).explicit = s.explicit := (setTopics_mesh s p _).2.1
  simp only [recvGraftG, hpd, hk, fixed, Bool.not_true, Bool.and_false, Bool.false_eq_true, ↓reduceIte, h1, hex]
  exact (setTopics_mesh s p _).1

/-! ## subscription-triggered graft -/

/-- **Subscription graft**: if the `Subscribe` arm of `handle_received_subscriptions` grafts the
peer, it is not explicit, speaks gossipsub, has a non-negative score, is not backed off (with slack)
and the mesh had fewer than `mesh_n_low` members. -/
theorem subscription_graft_only_eligible (s : State) (sc : Nat → Int) (p t : Nat)
    (hg : (subscribeArm s sc p t).2 = [t]) :
    p ∉ s.explicit ∧ 0 ≤ sc p ∧ backedOffSlack (setTopics s p (fun ts => ins ts t)) t p = false
      ∧ (∃ pd, (setTopics s p (fun ts => ins ts t)).peers p = some pd ∧ pd.gossip = true)
      ∧ ∃ m, s.mesh t = some m ∧ m.length < s.cfg.meshLow := by
  have hs := setTopics_mesh s p (fun ts => ins ts t)
  unfold subscribeArm at hg
  simp only at hg
  cases hp : (setTopics s p (fun ts => ins ts t)).peers p with
  | none => simp [hp] at hg
  | some pd =>
    simp only [hp] at hg
    split at hg
    · rename_i hc
      simp only [Bool.and_eq_true, Bool.not_eq_eq_eq_not, Bool.not_true, List.contains_eq_mem,
        decide_eq_false_iff_not] at hc
      cases hmt : (setTopics s p (fun ts => ins ts t)).mesh t with
      | none => simp [hmt] at hg
      | some m =>
        simp only [hmt] at hg
        split at hg
        · rename_i hl
          simp only [Bool.and_eq_true, decide_eq_true_eq] at hl
          have hcfg : (setTopics s p (fun ts => ins ts t)).cfg = s.cfg := by
            unfold setTopics; cases s.peers p <;> rfl
          refine ⟨by rw [← hs.2.1]; exact hc.1.1.1, by omega, hc.2, ⟨pd, rfl, hc.1.1.2⟩, m, by rw [← hs.1]; exact hmt, ?_⟩
          rw [← hcfg]; exact hl.1
        · simp at hg
    · simp at hg

/-! ## join -/

/-- **`join`**: every peer `subscribe` puts into the new mesh is not explicit, has a non-negative
score and is not backed off (with slack). -/
theorem join_adds_only_eligible (s : State) (sc : Nat → Int) (t : Nat) (final : List Nat)
    (hnew : s.mesh t = none) (m : List Nat) (hm : (subscribe s sc t final).1.mesh t = some m) :
    ∀ p ∈ m, joinOk s sc t p = true := by
  unfold subscribe at hm
  simp only [hnew] at hm
  have hfan : ∀ q ∈ joinFromFan s sc t, joinOk s sc t q = true := by
    intro q hq
    unfold joinFromFan at hq
    cases hf : s.fanout t with
    | none => simp [hf] at hq
    | some f =>
      simp only [hf] at hq
      exact (fromFan_ok f _ _ q hq).2
  split at hm
  · split at hm
    · rename_i hv
      simp only [notify, setF_same, Option.some.injEq] at hm
      subst hm
      intro p hp
      rcases List.mem_append.1 hp with hp | hp
      · exact hfan p hp
      · obtain ⟨pd, _, _, _, hok⟩ := mem_poolOf (validChoice_sub hv p hp)
        simp only [Bool.and_eq_true] at hok
        exact hok.2
    · rw [hnew] at hm; cases hm
  · simp only [notify, setF_same, Option.some.injEq] at hm
    subst hm
    exact hfan

/-! ## heartbeat -/

theorem getD_nonneg (l : List Int) (h : ∀ x ∈ l, 0 ≤ x) (i : Nat) : 0 ≤ l.getD i 0 := by
  rw [List.getD_eq_getElem?_getD]
  cases hi : l[i]? with
  | none => simp
  | some x => simpa using h x (List.mem_of_getElem? hi)

/-- the median of non-negative scores is non-negative -/
theorem median2_nonneg (sc : Nat → Int) (m : List Nat) (h : ∀ p ∈ m, 0 ≤ sc p) : 0 ≤ median2 sc m := by
  have hs : ∀ x ∈ (m.map sc).mergeSort (fun a b => a ≤ b), 0 ≤ x := by
    intro x hx
    obtain ⟨p, hp, rfl⟩ := List.mem_map.1 (List.mem_mergeSort.1 hx)
    exact h p hp
  unfold median2
  simp only
  split
  · have a := getD_nonneg _ hs (((m.map sc).mergeSort (fun a b => a ≤ b)).length / 2 - 1)
    have b := getD_nonneg _ hs (((m.map sc).mergeSort (fun a b => a ≤ b)).length / 2)
    omega
  · have b := getD_nonneg _ hs (((m.map sc).mergeSort (fun a b => a ≤ b)).length / 2)
    omega

/-- **Heartbeat**: every peer one topic's mesh maintenance grafts (too few peers, too few outbound
peers, opportunistic grafting) is not explicit, not backed off (with slack, after the backoff
storage's own heartbeat), not yet a member, and has a non-negative score. -/
theorem heartbeat_adds_only_eligible (s : State) (sc : Nat → Int) (t : Nat) (m final : List Nat) (r : HbTopic)
    (h : hbTopic s sc t m final = some r) :
    ∀ q ∈ r.graft, (PeerOK s t q ∧ q ∉ s.explicit) ∧ backedOffSlack s t q = false ∧ 0 ≤ sc q := by
  unfold hbTopic at h
  obtain ⟨a, _, ha⟩ := List.exists_of_findSome?_eq_some h
  obtain ⟨h1, h2, h3, _, hg, _⟩ := hbTry_some ha
  intro q hq
  rw [hg] at hq
  rcases List.mem_append.1 hq with hq | hq
  · rcases List.mem_append.1 hq with hq | hq
    · have := pool1_ok (stepOk_sub h1 q hq)
      exact ⟨this.1, this.2.1, this.2.2.2⟩
    · have := pool2_ok (stepOk_sub h2 q hq)
      exact ⟨this.1, this.2.1, this.2.2.2⟩
  · have h3' := pool3_ok (stepOk_sub h3 q hq)
    refine ⟨h3'.1, h3'.2.1, ?_⟩
    -- opportunistic grafting takes peers above the median of a mesh whose scores are all ≥ 0
    have hlt := h3'.2.2.2
    have hpos : 0 < 2 * sc q := by
      refine Int.lt_of_le_of_lt (median2_nonneg sc _ ?_) hlt
      intro p hp
      rcases List.mem_append.1 hp with hp | hp
      · have hp1 := (List.mem_filter.1 hp).1
        rcases List.mem_append.1 hp1 with hp0 | hp0
        · have := (List.mem_filter.1 hp0).2
          simp only [Bool.not_eq_eq_eq_not, Bool.not_true, decide_eq_false_iff_not] at this
          omega
        · exact (pool1_ok (stepOk_sub h1 p hp0)).2.2.2
      · exact (pool2_ok (stepOk_sub h2 p hp)).2.2.2
    omega

/-! ## the tree before the repair -/

/-- topic 0 subscribed (empty mesh), peer 4 connected but only floodsub (no gossipsub protocol negotiated) -/
def cexState : State :=
  { init { meshN := 1, meshLow := 1, meshHigh := 2, outMin := 0, pruneBackoff := 10, unsubBackoff := 3,
           scoring := false, oppTicks := 60, oppPeers := 2, oppThr2 := 10 } 1000000000 1 with
    peers := fun p => if p = 4 then some { gossip := false, outbound := false, conns := [40], topics := [] } else none
    mesh := fun t => if t = 0 then some [] else none }

/-- **Counterexample for the tree before the repair** (`handle_graft` did not look at the peer's
protocol; confirmed on the implementation, `corpus/C28/graft-from-floodsub.case`): a GRAFT from a
connected peer that has not negotiated gossipsub puts it into the mesh (and its handler is told
`JoinedMesh`), so a mesh member is not a gossipsub peer. The repaired code ignores the GRAFT. -/
theorem graft_from_floodsub_buggy_counterexample :
    (recvGraftG ⟨false, true⟩ cexState 0 (fun _ => 0) 4 [0]).1.mesh 0 = some [4]
    ∧ (recvGraftG ⟨false, true⟩ cexState 0 (fun _ => 0) 4 [0]).2.notifs = [(4, 40, true)]
    ∧ (recvGraftG fixed cexState 0 (fun _ => 0) 4 [0]).1.mesh 0 = some [] := by
  refine ⟨by decide, by decide, by decide⟩

/-! ## the Spec accepts the model -/

/-- the invariant clause of the executable Spec holds on every state satisfying `Inv` whose
connected peers, mesh members and topics lie in the driver's universes (peers rendered as the
implementation prints them) -/
theorem spec_inv_accepts_model (s : State) (h : MeshOK s) (t : Nat) (m : List Nat) (hm : s.mesh t = some m)
    (p : Nat) (hp : p ∈ m) (peers : List Spec.IPeer)
    (hpeers : ∀ q pd, s.peers q = some pd → { id := q, gossip := pd.gossip, topics := pd.topics : Spec.IPeer } ∈ peers) :
    Spec.memberOk peers s.explicit t p = true := by
  obtain ⟨⟨pd, hpd, hg, ht⟩, hex⟩ := h t m hm p hp
  simp only [Spec.memberOk, Bool.and_eq_true, List.any_eq_true, beq_iff_eq, List.contains_eq_mem,
    decide_eq_true_eq, Bool.not_eq_eq_eq_not, Bool.not_true, decide_eq_false_iff_not]
  exact ⟨⟨_, hpeers p pd hpd, ⟨rfl, hg⟩, ht⟩, hex⟩

/-! ## non-vacuity -/

example : OkRun (init cexState.cfg 1000000000 1) [] := trivial
example : inMesh cexState 0 4 = false := by decide

end C28

#print axioms C28.inv
#print axioms C28.mesh_members_eligible
#print axioms C28.inv_preserved
#print axioms C28.graft_refused_when_full
#print axioms C28.graft_penalised_in_backoff
#print axioms C28.graft_adds_only_eligible
#print axioms C28.graft_from_non_gossipsub_ignored
#print axioms C28.graft_from_explicit_ignored
#print axioms C28.subscription_graft_only_eligible
#print axioms C28.join_adds_only_eligible
#print axioms C28.heartbeat_adds_only_eligible
#print axioms C28.median2_nonneg
#print axioms C28.graft_from_floodsub_buggy_counterexample
#print axioms C28.spec_inv_accepts_model
