import Libp2pModel.Model.C34
/-!
# C34 — theorems

Property (properties.jsonl): every `Config` returned by `ConfigBuilder::build` satisfies
`mesh_outbound_min ≤ mesh_n_low ≤ mesh_n ≤ mesh_n_high` and `2·mesh_outbound_min ≤ mesh_n` for the
default and every per-topic mesh parameter set, `history_gossip ≤ history_length` and
`max_transmit_size ≥ 100`; consequently a behaviour built from an accepted config never panics in
`heartbeat` for any set of peers.

`build` is the model of the REPAIRED function (finding C34-build-validates-only-sized-topics);
`buildBuggy` is the function as it was, kept for the counterexample theorems.
-/
namespace C34

deriving instance DecidableEq for Except

/-! ## `build` -/

theorem buildTail_ok {b : Builder} {c : Config} (h : buildTail b = .ok c) :
    c = b ∧ b.histGossip ≤ b.histLen ∧ b.ubMillis ≠ 0 ∧ b.invalidProtocol = false := by
  unfold buildTail at h
  split at h
  · cases h
  · split at h
    · cases h
    · split at h
      · cases h
      · injection h with h
        subst h
        refine ⟨rfl, by omega, by assumption, by simp_all⟩

theorem ordered_half_valid (p : Params) (h1 : p.ordered = true) (h2 : ¬ p.outMin > p.n / 2) : p.valid := by
  unfold Params.ordered at h1
  unfold Params.valid
  simp only [Bool.and_eq_true, decide_eq_true_eq] at h1
  omega

theorem valid_ordered_half (p : Params) (h : p.valid) : p.ordered = true ∧ ¬ p.outMin > p.n / 2 := by
  unfold Params.valid at h
  unfold Params.ordered
  simp only [Bool.and_eq_true, decide_eq_true_eq]
  omega

/-- **C34.build_sound** — whatever the builder state (so: after every sequence of setter calls),
a config returned by `build` is the builder's config and is valid: the default and EVERY
per-topic parameter set satisfy the inequalities, `history_gossip ≤ history_length`, the default
and every per-topic `max_transmit_size` is at least 100. -/
theorem build_sound (b : Builder) (c : Config) (h : build b = .ok c) : c = b ∧ c.valid := by
  unfold build at h
  split at h
  · cases h
  · rename_i hm
    split at h
    · cases h
    · rename_i ho
      split at h
      · cases h
      · rename_i hh
        obtain ⟨rfl, hg, _, _⟩ := buildTail_ok h
        refine ⟨rfl, ?_⟩
        simp only [Bool.or_eq_true, decide_eq_true_eq, List.any_eq_true, not_or, not_exists, not_and,
          Bool.not_eq_true'] at hm ho hh
        simp only [Builder.paramSets, List.mem_cons, List.mem_map] at ho hh
        have hvalid : ∀ p, (p = c.dflt ∨ ∃ e ∈ c.topics, e.2 = p) → p.valid := by
          intro p hp
          have h1 := ho p hp
          have h2 := hh p hp
          apply ordered_half_valid p
          · simpa using h1
          · simpa using h2
        refine ⟨hvalid _ (Or.inl rfl), fun e he => hvalid _ (Or.inr ⟨e, he, rfl⟩), hg, by omega, ?_⟩
        intro e he
        have := hm.2 e he
        simp at this
        omega

/-- the same, spelled out for builder call sequences of any length -/
theorem build_sound_sequences (l : List Setter) (c : Config)
    (h : build (Builder.init.applyAll l) = .ok c) : c.valid :=
  (build_sound _ c h).2

/-- **C34.build_ok_iff** — `build` accepts exactly the valid builder states with a non-zero
unsubscribe backoff and a well-formed protocol id (nothing valid is rejected). -/
theorem build_ok_iff (b : Builder) :
    build b = .ok b ↔ (Config.valid b ∧ b.ubMillis ≠ 0 ∧ b.invalidProtocol = false) := by
  constructor
  · intro h
    have hs := build_sound b b h
    unfold build at h
    split at h
    · cases h
    · split at h
      · cases h
      · split at h
        · cases h
        · obtain ⟨_, _, h3, h4⟩ := buildTail_ok h
          exact ⟨hs.2, h3, h4⟩
  · rintro ⟨⟨hd, ht, hg, hm, hmt⟩, hu, hp⟩
    unfold build
    have h1 : ¬ ((decide (b.mts < 100) || b.mtsT.any (fun e => decide (e.2 < 100))) = true) := by
      simp only [Bool.or_eq_true, decide_eq_true_eq, List.any_eq_true, not_or, not_exists, not_and]
      refine ⟨by omega, fun e he => ?_⟩
      have := hmt e he
      omega
    have hall : ∀ p ∈ b.paramSets, p.valid := by
      intro p hp
      simp only [Builder.paramSets, List.mem_cons, List.mem_map] at hp
      rcases hp with rfl | ⟨e, he, rfl⟩
      · exact hd
      · exact ht e he
    have h2 : ¬ (b.paramSets.any (fun p => !p.ordered) = true) := by
      simp only [List.any_eq_true, not_exists, not_and, Bool.not_eq_true']
      intro p hp
      simpa using (valid_ordered_half p (hall p hp)).1
    have h3 : ¬ (b.paramSets.any (fun p => decide (p.outMin > p.n / 2)) = true) := by
      simp only [List.any_eq_true, not_exists, not_and, decide_eq_true_eq]
      intro p hp
      exact (valid_ordered_half p (hall p hp)).2
    rw [if_neg h1, if_neg h2, if_neg h3]
    unfold buildTail
    rw [if_neg (by omega), if_neg hu, if_neg (by simp [hp])]

/-! ## heartbeat: no panic under a valid parameter set -/

theorem isPanic_bind {α β : Type} (r : Res α) (f : α → Res β) :
    (r.bind f).isPanic = true → r.isPanic = true ∨ ∃ a, r = .ok a ∧ (f a).isPanic = true := by
  cases r with
  | ok a => intro h; exact Or.inr ⟨a, rfl, h⟩
  | panic m => intro _; exact Or.inl rfl
  | badOracle w => intro h; simp [Res.bind, Res.isPanic] at h

theorem csub_ok {a b : Nat} (h : b ≤ a) : csub a b = .ok (a - b) := by simp [csub, h]

theorem idx_ok {i len : Nat} (h : i < len) : idx i len = .ok () := by simp [idx, h]

/-- "mesh low": with `mesh_n_low ≤ mesh_n` the subtraction `mesh_n - peers.len()` cannot underflow -/
theorem step2_no_panic (P : Params) (hP : P.low ≤ P.n) (o : Obs) (x2 : Nat) :
    (step2 P o x2).isPanic = false := by
  unfold step2
  simp only
  split
  · rename_i hlt
    rw [csub_ok (by omega)]
    simp only [Res.bind]
    split <;> rfl
  · rfl

/-- the removal loop never panics: `outbound -= 1` runs only when `outbound > mesh_outbound_min ≥ 0` -/
theorem removeLoop_no_panic (outMin excess : Nat) (l : List Bool) (inb ob removed : Nat) :
    (removeLoop outMin excess l inb ob removed).isPanic = false := by
  induction l generalizing inb ob removed with
  | nil => rfl
  | cons f fs ih =>
    unfold removeLoop
    split
    · rfl
    · split
      · split
        · exact ih _ _ _
        · rw [csub_ok (by omega)]
          exact ih _ _ _
      · exact ih _ _ _

theorem retainGuard_ok (len retain : Nat) : retainGuard len retain = .ok () := by
  unfold retainGuard
  split
  · rw [csub_ok (by omega)]
    simp only [Res.bind]
    exact idx_ok (by omega)
  · rfl

/-- "mesh high": with `mesh_n ≤ mesh_n_high` the subtraction `peers.len() - mesh_n` cannot underflow -/
theorem step3_no_panic (P : Params) (hP : P.n ≤ P.high) (retain inb ob : Nat) (order : List Bool) :
    (step3 P retain inb ob order).isPanic = false := by
  unfold step3
  simp only
  split
  · rename_i hge
    rw [csub_ok (by omega), retainGuard_ok]
    simp only [Res.bind]
    split
    · exact removeLoop_no_panic _ _ _ _ _ _
    · rfl
  · rfl

/-- the outbound top-up never panics, whatever the parameters (the subtraction is guarded) -/
theorem step4_no_panic (P : Params) (inb ob cOut : Nat) : (step4 P inb ob cOut).isPanic = false := by
  unfold step4
  split
  · split
    · rw [csub_ok (by omega)]; rfl
    · rfl
  · rfl

/-- the median index arithmetic of opportunistic grafting never panics, whatever the parameters -/
theorem step5_no_panic (opp : Bool) (ogp pool inb ob : Nat) (orc : Orc) :
    (step5 opp ogp pool inb ob orc).isPanic = false := by
  unfold step5
  simp only
  split
  · rename_i h
    have hlen : inb + ob > 1 := h.2
    split
    · rename_i he
      rw [csub_ok (by omega)]
      simp only [Res.bind]
      rw [idx_ok (by omega)]
      simp only
      rw [idx_ok (by omega)]
      simp only
      split
      · split <;> rfl
      · rfl
    · rw [idx_ok (by omega)]
      simp only [Res.bind]
      split
      · split <;> rfl
      · rfl
  · rfl

/-- **per-topic totality**: if `mesh_n_low ≤ mesh_n ≤ mesh_n_high`, one mesh-maintenance iteration
does not panic — for every mesh, every candidate set, every score distribution and every outcome
of the random choices (also choices the validation would reject). -/
theorem hbTopic_total (P : Params) (h1 : P.low ≤ P.n) (h2 : P.n ≤ P.high) (h : HbCfg) (o : Obs) (orc : Orc) :
    (hbTopic P h o orc).isPanic = false := by
  cases hp : (hbTopic P h o orc).isPanic with
  | false => rfl
  | true =>
    exfalso
    unfold hbTopic at hp
    rcases isPanic_bind _ _ hp with h' | ⟨⟨i, ob, ci, co⟩, _, hp⟩
    · rw [step2_no_panic P h1] at h'; cases h'
    · rcases isPanic_bind _ _ hp with h' | ⟨⟨i, ob⟩, _, hp⟩
      · rw [step3_no_panic P h2] at h'; cases h'
      · rcases isPanic_bind _ _ hp with h' | ⟨⟨i, ob⟩, _, hp⟩
        · rw [step4_no_panic] at h'; cases h'
        · rw [step5_no_panic] at hp; cases hp

theorem lookup_mem {α : Type} (l : List (Nat × α)) (t : Nat) (v : α) (h : lookup l t = some v) :
    ∃ e ∈ l, e.2 = v := by
  induction l with
  | nil => simp [lookup] at h
  | cons e r ih =>
    obtain ⟨k, p⟩ := e
    unfold lookup at h
    split at h
    · injection h with h; exact ⟨(k, p), by simp, h⟩
    · obtain ⟨e, he, hv⟩ := ih h
      exact ⟨e, by simp [he], hv⟩

/-- the parameter set the heartbeat uses for ANY topic (own entry or fallback) is valid -/
theorem paramsFor_valid (c : Config) (hc : c.valid) (t : Nat) : (c.paramsFor t).valid := by
  unfold Builder.paramsFor
  cases hl : lookup c.topics t with
  | none => exact hc.1
  | some p =>
    obtain ⟨e, he, rfl⟩ := lookup_mem _ _ _ hl
    exact hc.2.1 e he

theorem hbTopics_total (c : Config) (hc : c.valid) (h : HbCfg) (blocks : List (Nat × Obs × Orc)) :
    (hbTopics c h blocks).isPanic = false := by
  induction blocks with
  | nil => rfl
  | cons b r ih =>
    obtain ⟨t, o, orc⟩ := b
    have hv := paramsFor_valid c hc t
    have h1 := hbTopic_total (c.paramsFor t) hv.2.1 hv.2.2.1 h o orc
    unfold hbTopics
    cases ha : hbTopic (c.paramsFor t) h o orc <;> cases hb : hbTopics c h r <;>
      simp_all [Res.isPanic]

/-- **C34.heartbeat_total** — a valid config never makes the heartbeat panic: for every list of
mesh topics (with or without an own parameter entry), every peer population per topic, every
score distribution, every outcome of the random choices, and every value of `retain_scores`,
`opportunistic_graft_peers` and of the opportunistic-graft tick. -/
theorem heartbeat_total (c : Config) (hc : c.valid) (h : HbCfg) (blocks : List (Nat × Obs × Orc)) :
    (heartbeat c h blocks).isPanic = false := by
  have h1 := hbTopics_total c hc h blocks
  have h2 : (gossipSlice c blocks.length).isPanic = false := by
    unfold gossipSlice
    split
    · rfl
    · rw [if_pos hc.2.2.1]; rfl
  unfold heartbeat
  cases ha : hbTopics c h blocks <;> cases hb : gossipSlice c blocks.length <;>
    simp_all [Res.isPanic]

/-- **C34.accepted_never_panics** — THE property, both halves chained: a config returned by
`build` (for any builder state, i.e. after any sequence of setter calls) is valid and its
heartbeats never panic. -/
theorem accepted_never_panics (b : Builder) (c : Config) (hb : build b = .ok c)
    (h : HbCfg) (blocks : List (Nat × Obs × Orc)) :
    c.valid ∧ (heartbeat c h blocks).isPanic = false :=
  ⟨(build_sound b c hb).2, heartbeat_total c (build_sound b c hb).2 h blocks⟩

/-- **C34.heartbeat_panics_if_invalid** — validity matters: each of the three orderings the
heartbeat relies on has a witness where the heartbeat panics when it is violated
(`mesh_n < mesh_n_low` with a mesh of 7; `mesh_n_high < mesh_n` with a mesh of 4;
`history_length < history_gossip` with any mesh topic). -/
theorem heartbeat_panics_if_invalid :
    (heartbeat (Builder.init.apply (.low 100)) ⟨4, false, 2⟩
        [(0, ⟨7, 0, 0, 0, 0, 7⟩, ⟨0, [], false, 0, 0⟩)]).isPanic = true ∧
    (heartbeat (Builder.init.apply (.high 3)) ⟨4, false, 2⟩
        [(0, ⟨1, 2, 0, 0, 0, 9⟩, ⟨0, [], false, 0, 0⟩)]).isPanic = true ∧
    (heartbeat ((Builder.init.apply (.histLen 2))) ⟨4, false, 2⟩
        [(0, ⟨0, 0, 0, 0, 0, 0⟩, ⟨0, [], false, 0, 0⟩)]).isPanic = true := by
  refine ⟨by decide, by decide, by decide⟩

/-! ## the defect of the unrepaired `build` -/

/-- **C34.build_validates_only_sized_topics_buggy_counterexample** — the pre-fix `build` accepts
`ConfigBuilder::default().mesh_n_high(3)` (default parameter set 6/5/3/2: `mesh_n > mesh_n_high`),
`…max_transmit_size(1)`, `…mesh_outbound_min(6)` and a per-topic `mesh_n_low = 100`: none is valid,
and the heartbeat of a behaviour built from the first one panics with three mesh peers. -/
theorem build_validates_only_sized_topics_buggy_counterexample :
    (buildBuggy (Builder.init.apply (.high 3)) = .ok (Builder.init.apply (.high 3)) ∧
      ¬ Config.valid (Builder.init.apply (.high 3)) ∧
      (heartbeat (Builder.init.apply (.high 3)) ⟨4, false, 2⟩
        [(0, ⟨1, 2, 0, 0, 0, 9⟩, ⟨0, [], false, 0, 0⟩)]).isPanic = true) ∧
    (buildBuggy (Builder.init.apply (.mts 1)) = .ok (Builder.init.apply (.mts 1)) ∧
      ¬ Config.valid (Builder.init.apply (.mts 1))) ∧
    (buildBuggy (Builder.init.apply (.out 6)) = .ok (Builder.init.apply (.out 6)) ∧
      ¬ Config.valid (Builder.init.apply (.out 6))) ∧
    (buildBuggy (Builder.init.apply (.lowT 0 100)) = .ok (Builder.init.apply (.lowT 0 100)) ∧
      ¬ Config.valid (Builder.init.apply (.lowT 0 100))) := by
  refine ⟨⟨by decide, ?_, by decide⟩, ⟨by decide, ?_⟩, ⟨by decide, ?_⟩, ⟨by decide, ?_⟩⟩
  · intro h; exact absurd h.1 (by decide)
  · intro h; exact absurd h.2.2.2.1 (by decide)
  · intro h; exact absurd h.1 (by decide)
  · intro h; exact absurd (h.2.1 (0, ⟨6, 100, 12, 2⟩) (by decide)) (by decide)

/-- the repaired `build` rejects all four -/
theorem build_rejects_counterexamples :
    build (Builder.init.apply (.high 3)) = .error .MeshParametersInvalid ∧
    build (Builder.init.apply (.mts 1)) = .error .MaxTransmissionSizeTooSmall ∧
    build (Builder.init.apply (.out 6)) = .error .MeshParametersInvalid ∧
    build (Builder.init.apply (.out 4)) = .error .MeshOutboundInvalid ∧
    build (Builder.init.apply (.lowT 0 100)) = .error .MeshParametersInvalid := by
  refine ⟨by decide, by decide, by decide, by decide, by decide⟩

/-! ## the Spec accepts the model (so `impl = model` ⇒ Spec holds on impl), and means what it says -/

theorem lookup_getD_valid (c : Config) (hc : c.valid) (t : Nat) : (c.paramsFor t).valid :=
  paramsFor_valid c hc t

theorem mtsFor_ge (c : Config) (hc : c.valid) (t : Nat) : 100 ≤ c.mtsFor t := by
  unfold Builder.mtsFor
  cases hl : lookup c.mtsT t with
  | none => exact hc.2.2.2.1
  | some v =>
    obtain ⟨e, he, rfl⟩ := lookup_mem _ _ _ hl
    exact hc.2.2.2.2 e he

/-- **C34.spec_build** — the Spec accepts what the model's `build` returns, for every alphabet of
topics the getters are read for -/
theorem spec_build (b : Builder) (c : Config) (h : build b = .ok c) (alphabet : List Nat) :
    specBuild (c.getters alphabet) = true := by
  have hc := (build_sound b c h).2
  unfold specBuild Builder.getters
  simp only [Bool.and_eq_true, decide_eq_true_eq, List.all_eq_true, List.mem_map]
  refine ⟨⟨⟨⟨hc.1, ?_⟩, hc.2.2.1⟩, hc.2.2.2.1⟩, ?_⟩
  · rintro p ⟨t, _, rfl⟩
    exact paramsFor_valid c hc t
  · rintro s ⟨t, _, rfl⟩
    exact mtsFor_ge c hc t

/-- **C34.spec_build_sound** — a getter record accepted by the Spec satisfies the inequalities of
the property for the default set and for every topic it was read for -/
theorem spec_build_sound (g : Getters) (h : specBuild g = true) :
    g.dflt.valid ∧ (∀ p ∈ g.perTopic, p.valid) ∧ g.histGossip ≤ g.histLen ∧ 100 ≤ g.mts ∧
      (∀ s ∈ g.mtsPerTopic, 100 ≤ s) := by
  unfold specBuild at h
  simp only [Bool.and_eq_true, decide_eq_true_eq, List.all_eq_true] at h
  exact ⟨h.1.1.1.1, h.1.1.1.2, h.1.1.2, h.1.2, h.2⟩

/-- **C34.spec_hb** — the heartbeat Spec (no panic once `build` accepted) holds on the model -/
theorem spec_hb (b : Builder) (c : Config) (hb : build b = .ok c) (h : HbCfg)
    (blocks : List (Nat × Obs × Orc)) : specHb true (heartbeat c h blocks) = true := by
  unfold specHb
  rw [(accepted_never_panics b c hb h blocks).2]
  rfl

/-! non-vacuity -/
example : build Builder.init = .ok Builder.init := by decide
example : Config.valid Builder.init := by
  unfold Config.valid
  refine And.intro (by decide) (And.intro ?_ (And.intro (by decide) (And.intro (by decide) ?_)))
  · intro e he; cases he
  · intro e he; cases he
example : build (Builder.init.applyAll [.cfgT 1 ⟨2, 1, 3, 1⟩, .mtsT 2 100, .n 4, .low 4, .out 2]) =
    .ok (Builder.init.applyAll [.cfgT 1 ⟨2, 1, 3, 1⟩, .mtsT 2 100, .n 4, .low 4, .out 2]) := by decide
/-- a heartbeat that goes through "mesh high" with an outbound floor, on a valid config -/
example : heartbeat (Builder.init.applyAll [.cfgT 0 ⟨2, 1, 3, 1⟩]) ⟨4, true, 2⟩
    [(0, ⟨2, 2, 1, 0, 0, 9⟩, ⟨0, [false, true, true, false], true, 0, 0⟩)] = .ok [(0, 1, 1)] := by rfl

end C34

#print axioms C34.build_sound
#print axioms C34.build_sound_sequences
#print axioms C34.build_ok_iff
#print axioms C34.hbTopic_total
#print axioms C34.heartbeat_total
#print axioms C34.accepted_never_panics
#print axioms C34.heartbeat_panics_if_invalid
#print axioms C34.build_validates_only_sized_topics_buggy_counterexample
#print axioms C34.build_rejects_counterexamples
#print axioms C34.spec_build
#print axioms C34.spec_build_sound
#print axioms C34.spec_hb
