import Libp2pModel.Model.C34
/-!
# C34 — theorems

Property (properties.jsonl): every `Config` returned by `ConfigBuilder::build` satisfies
`mesh_outbound_min ≤ mesh_n_low ≤ mesh_n ≤ mesh_n_high` and `2·mesh_outbound_min ≤ mesh_n` for the
default and every per-topic mesh parameter set, `history_gossip ≤ history_length` and
`max_transmit_size ≥ 100`; consequently a behaviour built from an accepted config never panics in
`heartbeat` for any set of peers.

`build` is the model of `ConfigBuilder::build` AS IT IS.  The unchanged code violates the static half
of the property (known finding C34-build-validates-only-sized-topics, recorded — not repaired,
because the only complete repair invalidates an existing crate test that depends on the defect):
the full statement is kept as `C34.full_statement` and refuted by
`C34.build_validates_only_sized_topics_counterexample`; the strongest true part is proved as
`C34.build_sound_partial`.
-/
namespace C34

/-! ## `build` -/

theorem buildTail_ok {b : Builder} {c : Config} (h : buildTail b = .ok c) :
    c = b ∧ b.histGossip ≤ b.histLen ∧ b.ubMillis ≠ 0 ∧ b.invalidProtocol = false := by
  unfold buildTail at h
  split at h
  · cases h
  · split at h
    · cases h
    · split at h
      · cases h
      · injection h with h
        subst h
        refine ⟨rfl, by omega, by assumption, by simp_all⟩

/-- the loop body passes a topic exactly when its transmit size is ≥ 100 and its parameter set valid -/
theorem topicErr_none_iff (b : Builder) (t : Nat) :
    topicErr b t = none ↔ (100 ≤ b.mtsFor t ∧ (b.paramsFor t).valid) := by
  unfold topicErr Params.valid Params.ordered
  by_cases h1 : b.mtsFor t < 100
  · simp [h1]; omega
  · simp only [h1, ↓reduceIte]
    by_cases h2 : (decide ((b.paramsFor t).outMin ≤ (b.paramsFor t).low) &&
        decide ((b.paramsFor t).low ≤ (b.paramsFor t).n) && decide ((b.paramsFor t).n ≤ (b.paramsFor t).high)) = true
    · simp only [h2, Bool.not_true, Bool.false_eq_true, ↓reduceIte]
      simp only [Bool.and_eq_true, decide_eq_true_eq] at h2
      by_cases h3 : (b.paramsFor t).outMin * 2 > (b.paramsFor t).n
      · simp [h3]; omega
      · simp [h3]; omega
    · simp only [h2, Bool.not_false, ↓reduceIte]
      simp only [Bool.and_eq_true, decide_eq_true_eq] at h2
      simp
      omega

theorem loopErrs_nil_iff (b : Builder) : loopErrs b = [] ↔ ∀ e ∈ b.mtsT, topicErr b e.1 = none := by
  unfold loopErrs
  simp [List.filterMap_eq_nil_iff]

/-- what `build` does check: every topic WITH a `max_transmit_size` entry has a size ≥ 100 and a valid
parameter set (own or default), `history_gossip ≤ history_length`, non-zero backoff, protocol ok -/
def Config.checked (c : Config) : Prop :=
  (∀ e ∈ c.mtsT, 100 ≤ c.mtsFor e.1 ∧ (c.paramsFor e.1).valid) ∧ c.histGossip ≤ c.histLen ∧
  c.ubMillis ≠ 0 ∧ c.invalidProtocol = false

/-- **C34.build_sound_partial** — the strongest true part of "every accepted config is valid" for the
code as it is: for every builder state (hence after every setter sequence) and every iteration
order, a config returned by `build` is the builder's config and satisfies the property's
inequalities FOR EVERY TOPIC THAT HAS A `max_transmit_size` ENTRY, plus `history_gossip ≤
history_length`.  MISSING w.r.t. the full statement: the default parameter set, the default
transmit size, and per-topic parameter sets of topics without a size entry are not validated. -/
theorem build_sound_partial (b : Builder) (o : Option Err) (c : Config) (h : build b o = .ok c) :
    c = b ∧ c.checked := by
  unfold build at h
  cases hl : loopErrs b with
  | cons e es =>
    rw [hl] at h
    simp only at h
    cases o with
    | none => cases h
    | some e' => simp only at h; split at h <;> cases h
  | nil =>
    rw [hl] at h
    simp only at h
    cases ht : buildTail b with
    | error e => rw [ht] at h; cases h
    | ok c' =>
      rw [ht] at h
      simp only [BuildRes.ok.injEq] at h
      subst h
      obtain ⟨rfl, hg, hu, hp⟩ := buildTail_ok ht
      refine ⟨rfl, ?_, hg, hu, hp⟩
      intro e he
      exact (topicErr_none_iff _ _).1 ((loopErrs_nil_iff _).1 hl e he)

/-- **C34.build_ok_iff_partial** — `build` accepts EXACTLY the builder states that pass the checks it
does make (whatever the iteration order) -/
theorem build_ok_iff_partial (b : Builder) (o : Option Err) : build b o = .ok b ↔ Config.checked b := by
  constructor
  · intro h; exact (build_sound_partial b o b h).2
  · rintro ⟨hs, hg, hu, hp⟩
    have hl : loopErrs b = [] := (loopErrs_nil_iff b).2 (fun e he => (topicErr_none_iff _ _).2 (hs e he))
    unfold build
    rw [hl]
    simp only
    unfold buildTail
    rw [if_neg (by omega), if_neg hu, if_neg (by simp [hp])]

/-- THE static half of the property, at full strength — FALSE for the code as it is -/
def full_statement : Prop := ∀ (b : Builder) (o : Option Err) (c : Config), build b o = .ok c → c.valid

/-! ## heartbeat: no panic under a valid parameter set -/

theorem isPanic_bind {α β : Type} (r : Res α) (f : α → Res β) :
    (r.bind f).isPanic = true → r.isPanic = true ∨ ∃ a, r = .ok a ∧ (f a).isPanic = true := by
  cases r with
  | ok a => intro h; exact Or.inr ⟨a, rfl, h⟩
  | panic m => intro _; exact Or.inl rfl
  | badOracle w => intro h; simp [Res.bind, Res.isPanic] at h

theorem csub_ok {a b : Nat} (h : b ≤ a) : csub a b = .ok (a - b) := by simp [csub, h]

theorem idx_ok {i len : Nat} (h : i < len) : idx i len = .ok () := by simp [idx, h]

/-- "mesh low": with `mesh_n_low ≤ mesh_n` the subtraction `mesh_n - peers.len()` cannot underflow -/
theorem step2_no_panic (P : Params) (hP : P.low ≤ P.n) (o : Obs) (x2 : Nat) :
    (step2 P o x2).isPanic = false := by
  unfold step2
  simp only
  split
  · rename_i hlt
    rw [csub_ok (by omega)]
    simp only [Res.bind]
    split <;> rfl
  · rfl

/-- the removal loop never panics: `outbound -= 1` runs only when `outbound > mesh_outbound_min ≥ 0` -/
theorem removeLoop_no_panic (outMin excess : Nat) (l : List Bool) (inb ob removed : Nat) :
    (removeLoop outMin excess l inb ob removed).isPanic = false := by
  induction l generalizing inb ob removed with
  | nil => rfl
  | cons f fs ih =>
    unfold removeLoop
    split
    · rfl
    · split
      · split
        · exact ih _ _ _
        · rw [csub_ok (by omega)]
          exact ih _ _ _
      · exact ih _ _ _

theorem retainGuard_ok (len retain : Nat) : retainGuard len retain = .ok () := by
  unfold retainGuard
  split
  · rw [csub_ok (by omega)]
    simp only [Res.bind]
    exact idx_ok (by omega)
  · rfl

/-- "mesh high": with `mesh_n ≤ mesh_n_high` the subtraction `peers.len() - mesh_n` cannot underflow -/
theorem step3_no_panic (P : Params) (hP : P.n ≤ P.high) (retain inb ob : Nat) (order : List Bool) :
    (step3 P retain inb ob order).isPanic = false := by
  unfold step3
  simp only
  split
  · rename_i hge
    rw [csub_ok (by omega), retainGuard_ok]
    simp only [Res.bind]
    split
    · exact removeLoop_no_panic _ _ _ _ _ _
    · rfl
  · rfl

/-- the outbound top-up never panics, whatever the parameters (the subtraction is guarded) -/
theorem step4_no_panic (P : Params) (inb ob cOut : Nat) : (step4 P inb ob cOut).isPanic = false := by
  unfold step4
  split
  · split
    · rw [csub_ok (by omega)]; rfl
    · rfl
  · rfl

/-- the median index arithmetic of opportunistic grafting never panics, whatever the parameters -/
theorem step5_no_panic (opp : Bool) (ogp pool inb ob : Nat) (orc : Orc) :
    (step5 opp ogp pool inb ob orc).isPanic = false := by
  unfold step5
  simp only
  split
  · rename_i h
    have hlen : inb + ob > 1 := h.2
    split
    · rename_i he
      rw [csub_ok (by omega)]
      simp only [Res.bind]
      rw [idx_ok (by omega)]
      simp only
      rw [idx_ok (by omega)]
      simp only
      split
      · split <;> rfl
      · rfl
    · rw [idx_ok (by omega)]
      simp only [Res.bind]
      split
      · split <;> rfl
      · rfl
  · rfl

/-- **per-topic totality**: if `mesh_n_low ≤ mesh_n ≤ mesh_n_high`, one mesh-maintenance iteration
does not panic — for every mesh, every candidate set, every score distribution and every outcome
of the random choices (also choices the validation would reject). -/
theorem hbTopic_total (P : Params) (h1 : P.low ≤ P.n) (h2 : P.n ≤ P.high) (h : HbCfg) (o : Obs) (orc : Orc) :
    (hbTopic P h o orc).isPanic = false := by
  cases hp : (hbTopic P h o orc).isPanic with
  | false => rfl
  | true =>
    exfalso
    unfold hbTopic at hp
    rcases isPanic_bind _ _ hp with h' | ⟨⟨i, ob, ci, co⟩, _, hp⟩
    · rw [step2_no_panic P h1] at h'; cases h'
    · rcases isPanic_bind _ _ hp with h' | ⟨⟨i, ob⟩, _, hp⟩
      · rw [step3_no_panic P h2] at h'; cases h'
      · rcases isPanic_bind _ _ hp with h' | ⟨⟨i, ob⟩, _, hp⟩
        · rw [step4_no_panic] at h'; cases h'
        · rw [step5_no_panic] at hp; cases hp

/-- **C34.heartbeat_no_underflow_all_populations** — the same, with the peer population spelled out:
for EVERY valid parameter set and EVERY population of a topic — `mIn`/`mOut` inbound/outbound mesh
members with score ≥ 0, `mNeg` members with negative score, `cIn`/`cOut` inbound/outbound candidates
outside the mesh (connected, subscribed, not explicit, not backed off, score ≥ 0), any `pool` — and
every outcome of the random choices, no subtraction of the mesh-maintenance iteration underflows
and no index is out of range. -/
theorem heartbeat_no_underflow_all_populations (P : Params) (hP : P.valid) (h : HbCfg)
    (mIn mOut mNeg cIn cOut pool : Nat) (orc : Orc) :
    (hbTopic P h ⟨mIn, mOut, mNeg, cIn, cOut, pool⟩ orc).isPanic = false :=
  hbTopic_total P hP.2.1 hP.2.2.1 h _ orc

theorem lookup_mem {α : Type} (l : List (Nat × α)) (t : Nat) (v : α) (h : lookup l t = some v) :
    ∃ e ∈ l, e.2 = v := by
  induction l with
  | nil => simp [lookup] at h
  | cons e r ih =>
    obtain ⟨k, p⟩ := e
    unfold lookup at h
    split at h
    · injection h with h; exact ⟨(k, p), by simp, h⟩
    · obtain ⟨e, he, hv⟩ := ih h
      exact ⟨e, by simp [he], hv⟩

/-- the parameter set the heartbeat uses for ANY topic (own entry or fallback) is valid -/
theorem paramsFor_valid (c : Config) (hc : c.valid) (t : Nat) : (c.paramsFor t).valid := by
  unfold Builder.paramsFor
  cases hl : lookup c.topics t with
  | none => exact hc.1
  | some p =>
    obtain ⟨e, he, rfl⟩ := lookup_mem _ _ _ hl
    exact hc.2.1 e he

theorem hbTopics_total (c : Config) (hc : c.valid) (h : HbCfg) (blocks : List (Nat × Obs × Orc)) :
    (hbTopics c h blocks).isPanic = false := by
  induction blocks with
  | nil => rfl
  | cons b r ih =>
    obtain ⟨t, o, orc⟩ := b
    have hv := paramsFor_valid c hc t
    have h1 := hbTopic_total (c.paramsFor t) hv.2.1 hv.2.2.1 h o orc
    unfold hbTopics
    cases ha : hbTopic (c.paramsFor t) h o orc <;> cases hb : hbTopics c h r <;>
      simp_all [Res.isPanic]

/-- **C34.heartbeat_total** — a valid config never makes the heartbeat panic: for every list of
mesh topics (with or without an own parameter entry), every peer population per topic, every
score distribution, every outcome of the random choices, and every value of `retain_scores`,
`opportunistic_graft_peers` and of the opportunistic-graft tick. -/
theorem heartbeat_total (c : Config) (hc : c.valid) (h : HbCfg) (blocks : List (Nat × Obs × Orc)) :
    (heartbeat c h blocks).isPanic = false := by
  have h1 := hbTopics_total c hc h blocks
  have h2 : (gossipSlice c blocks.length).isPanic = false := by
    unfold gossipSlice
    split
    · rfl
    · rw [if_pos hc.2.2.1]; rfl
  unfold heartbeat
  cases ha : hbTopics c h blocks <;> cases hb : gossipSlice c blocks.length <;>
    simp_all [Res.isPanic]

/-- **C34.valid_accepted** — no valid config is rejected: a valid builder state with a non-zero
unsubscribe backoff and a well-formed protocol id builds `Ok` -/
theorem valid_accepted (b : Builder) (o : Option Err) (hv : Config.valid b) (hu : b.ubMillis ≠ 0)
    (hp : b.invalidProtocol = false) : build b o = .ok b := by
  refine (build_ok_iff_partial b o).2 ⟨?_, hv.2.2.1, hu, hp⟩
  intro e _
  refine ⟨?_, paramsFor_valid b hv e.1⟩
  unfold Builder.mtsFor
  cases hl : lookup b.mtsT e.1 with
  | none => exact hv.2.2.2.1
  | some v =>
    obtain ⟨e', he', rfl⟩ := lookup_mem _ _ _ hl
    exact hv.2.2.2.2 e' he'

/-- **C34.accepted_valid_never_panics** — the dynamic half, as far as it is true of the code as it
is: a config returned by `build` that IS valid never makes the heartbeat panic (an accepted
invalid one can: see the counterexample below). -/
theorem accepted_valid_never_panics (b : Builder) (o : Option Err) (c : Config) (_hb : build b o = .ok c)
    (hv : c.valid) (h : HbCfg) (blocks : List (Nat × Obs × Orc)) :
    (heartbeat c h blocks).isPanic = false :=
  heartbeat_total c hv h blocks

/-- **C34.heartbeat_panics_if_invalid** — validity matters: each of the three orderings the
heartbeat relies on has a witness where the heartbeat panics when it is violated
(`mesh_n < mesh_n_low` with a mesh of 7; `mesh_n_high < mesh_n` with a mesh of 4;
`history_length < history_gossip` with any mesh topic). -/
theorem heartbeat_panics_if_invalid :
    (heartbeat (Builder.init.apply (.low 100)) ⟨4, false, 2⟩
        [(0, ⟨7, 0, 0, 0, 0, 7⟩, ⟨0, [], false, 0, 0⟩)]).isPanic = true ∧
    (heartbeat (Builder.init.apply (.high 3)) ⟨4, false, 2⟩
        [(0, ⟨1, 2, 0, 0, 0, 9⟩, ⟨0, [], false, 0, 0⟩)]).isPanic = true ∧
    (heartbeat ((Builder.init.apply (.histLen 2))) ⟨4, false, 2⟩
        [(0, ⟨0, 0, 0, 0, 0, 0⟩, ⟨0, [], false, 0, 0⟩)]).isPanic = true := by
  refine ⟨by decide, by decide, by decide⟩

/-! ## the defect of `build` -/

/-- **C34.build_validates_only_sized_topics_counterexample** — `build` accepts
`ConfigBuilder::default().mesh_n_high(3)` (default parameter set 6/5/3/2: `mesh_n > mesh_n_high`),
`…max_transmit_size(1)`, `…mesh_outbound_min(6)` and a per-topic `mesh_n_low = 100`: none is valid,
and the heartbeat of a behaviour built from the first one panics with three mesh peers. -/
theorem build_validates_only_sized_topics_counterexample :
    (build (Builder.init.apply (.high 3)) none = .ok (Builder.init.apply (.high 3)) ∧
      ¬ Config.valid (Builder.init.apply (.high 3)) ∧
      (heartbeat (Builder.init.apply (.high 3)) ⟨4, false, 2⟩
        [(0, ⟨1, 2, 0, 0, 0, 9⟩, ⟨0, [], false, 0, 0⟩)]).isPanic = true) ∧
    (build (Builder.init.apply (.mts 1)) none = .ok (Builder.init.apply (.mts 1)) ∧
      ¬ Config.valid (Builder.init.apply (.mts 1))) ∧
    (build (Builder.init.apply (.out 6)) none = .ok (Builder.init.apply (.out 6)) ∧
      ¬ Config.valid (Builder.init.apply (.out 6))) ∧
    (build (Builder.init.apply (.lowT 0 100)) none = .ok (Builder.init.apply (.lowT 0 100)) ∧
      ¬ Config.valid (Builder.init.apply (.lowT 0 100))) := by
  refine ⟨⟨by decide, ?_, by decide⟩, ⟨by decide, ?_⟩, ⟨by decide, ?_⟩, ⟨by decide, ?_⟩⟩
  · intro h; exact absurd h.1 (by decide)
  · intro h; exact absurd h.2.2.2.1 (by decide)
  · intro h; exact absurd h.1 (by decide)
  · intro h; exact absurd (h.2.1 (0, ⟨6, 100, 12, 2⟩) (by decide)) (by decide)

/-- the full statement does not hold of the code as it is -/
theorem full_statement_false : ¬ full_statement := by
  intro h
  exact build_validates_only_sized_topics_counterexample.1.2.1
    (h _ none _ build_validates_only_sized_topics_counterexample.1.1)

/-- the same invalid parameter sets ARE rejected once the topic has a `max_transmit_size` entry -/
theorem sized_topics_are_checked :
    build (Builder.init.applyAll [.lowT 0 100, .mtsT 0 200]) (some .MeshParametersInvalid) = .err .MeshParametersInvalid ∧
    build (Builder.init.applyAll [.mtsT 0 99]) (some .MaxTransmissionSizeTooSmall) = .err .MaxTransmissionSizeTooSmall ∧
    build (Builder.init.applyAll [.out 4, .mtsT 1 100]) (some .MeshOutboundInvalid) = .err .MeshOutboundInvalid := by
  refine ⟨by decide, by decide, by decide⟩

/-! ## the Spec accepts the model (so `impl = model` ⇒ Spec holds on impl), and means what it says -/

theorem lookup_getD_valid (c : Config) (hc : c.valid) (t : Nat) : (c.paramsFor t).valid :=
  paramsFor_valid c hc t

theorem mtsFor_ge (c : Config) (hc : c.valid) (t : Nat) : 100 ≤ c.mtsFor t := by
  unfold Builder.mtsFor
  cases hl : lookup c.mtsT t with
  | none => exact hc.2.2.2.1
  | some v =>
    obtain ⟨e, he, rfl⟩ := lookup_mem _ _ _ hl
    exact hc.2.2.2.2 e he

/-- **C34.spec_build_valid** — the Spec accepts every VALID config the model's `build` returns, for
every alphabet of topics the getters are read for -/
theorem spec_build_valid (c : Config) (hc : c.valid) (alphabet : List Nat) :
    specBuild (c.getters alphabet) = true := by
  unfold specBuild Builder.getters
  simp only [Bool.and_eq_true, decide_eq_true_eq, List.all_eq_true, List.mem_map]
  refine ⟨⟨⟨⟨hc.1, ?_⟩, hc.2.2.1⟩, hc.2.2.2.1⟩, ?_⟩
  · rintro p ⟨t, _, rfl⟩
    exact paramsFor_valid c hc t
  · rintro s ⟨t, _, rfl⟩
    exact mtsFor_ge c hc t

/-- a valid accepted config is classified `valid` (Spec verdict `ok`), whatever the builder state -/
theorem classify_valid (b : Builder) (c : Config) (hc : c.valid) (alphabet : List Nat) :
    classify b alphabet (c.getters alphabet) = .valid := by
  unfold classify
  rw [spec_build_valid c hc alphabet]
  rfl

/-- **C34.spec_build_sound** — a getter record accepted by the Spec satisfies the inequalities of
the property for the default set and for every topic it was read for -/
theorem spec_build_sound (g : Getters) (h : specBuild g = true) :
    g.dflt.valid ∧ (∀ p ∈ g.perTopic, p.valid) ∧ g.histGossip ≤ g.histLen ∧ 100 ≤ g.mts ∧
      (∀ s ∈ g.mtsPerTopic, 100 ≤ s) := by
  unfold specBuild at h
  simp only [Bool.and_eq_true, decide_eq_true_eq, List.all_eq_true] at h
  exact ⟨h.1.1.1.1, h.1.1.1.2, h.1.1.2, h.1.2, h.2⟩

/-- **C34.spec_hb** — the heartbeat Spec holds on the model for every valid config -/
theorem spec_hb (c : Config) (hc : c.valid) (h : HbCfg) (blocks : List (Nat × Obs × Orc)) (cls : Option Class) :
    specHbKey cls (heartbeat c h blocks).isPanic = "ok" := by
  rw [heartbeat_total c hc h blocks]
  rfl

/-! non-vacuity -/
example : build Builder.init none = .ok Builder.init := by decide
example : Config.valid Builder.init := by
  unfold Config.valid
  refine And.intro (by decide) (And.intro ?_ (And.intro (by decide) (And.intro (by decide) ?_)))
  · intro e he; cases he
  · intro e he; cases he
example : build (Builder.init.applyAll [.cfgT 1 ⟨2, 1, 3, 1⟩, .mtsT 2 100, .n 4, .low 4, .out 2]) none =
    .ok (Builder.init.applyAll [.cfgT 1 ⟨2, 1, 3, 1⟩, .mtsT 2 100, .n 4, .low 4, .out 2]) := by decide
/-- a heartbeat that goes through "mesh high" with an outbound floor, on a valid config -/
example : heartbeat (Builder.init.applyAll [.cfgT 0 ⟨2, 1, 3, 1⟩]) ⟨4, true, 2⟩
    [(0, ⟨2, 2, 1, 0, 0, 9⟩, ⟨0, [false, true, true, false], true, 0, 0⟩)] = .ok [(0, 1, 1)] := by rfl

end C34

#print axioms C34.build_sound_partial
#print axioms C34.build_ok_iff_partial
#print axioms C34.valid_accepted
#print axioms C34.hbTopic_total
#print axioms C34.heartbeat_total
#print axioms C34.heartbeat_no_underflow_all_populations
#print axioms C34.accepted_valid_never_panics
#print axioms C34.heartbeat_panics_if_invalid
#print axioms C34.build_validates_only_sized_topics_counterexample
#print axioms C34.full_statement_false
#print axioms C34.sized_topics_are_checked
#print axioms C34.spec_build_valid
#print axioms C34.classify_valid
#print axioms C34.spec_build_sound
#print axioms C34.spec_hb
