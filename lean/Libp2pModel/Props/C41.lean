import Libp2pModel.Proofs.C41_Spec
/-!
# C41 — the memory record store behaves like a bounded map: property theorems

All statements are about `C41.step`, the transcription of `MemoryStore`, for **every** operation
sequence (`Machine.exec step (Store.empty loc cfg) ops`, any length), proved by induction through
`Machine.invariant_of_step`.
-/
namespace C41

/-- the store after an arbitrary operation sequence on a fresh `MemoryStore::with_config` -/
def reach (loc : Nat) (cfg : Config) (ops : List Op) : Store :=
  Machine.exec step (Store.empty loc cfg) ops

/-- invariant + the configuration and local id never change -/
def Inv' (loc : Nat) (cfg : Config) (s : Store) : Prop := Inv s ∧ s.cfg = cfg ∧ s.loc = loc

theorem inv'_reach (loc : Nat) (cfg : Config) (ops : List Op) : Inv' loc cfg (reach loc cfg ops) := by
  apply Machine.invariant_of_step step (Inv' loc cfg)
  · intro s o ⟨h, hc, hl⟩
    exact ⟨h.step o, (step_cfg_loc h o).1.trans hc, (step_cfg_loc h o).2.trans hl⟩
  · exact ⟨Inv.empty loc cfg, rfl, rfl⟩

/-- **Invariant of every reachable store** (unique keys, all bounds, providers distinct,
`provided` in sync) -/
theorem inv_reachable (loc : Nat) (cfg : Config) (ops : List Op) : Inv (reach loc cfg ops) :=
  (inv'_reach loc cfg ops).1

/-! ## records: refinement to a map `Key → Option Record` -/

/-- the abstract map: `put` (when it succeeds) replaces, `remove` deletes, `retain` filters;
everything else — in particular a refused `put` — leaves it alone -/
def absStep (m : Nat → Option Record) : Op × Res → (Nat → Option Record)
  | (.put r, .ok) => fun k => if r.key = k then some r else m k
  | (.remove k', _) => fun k => if k' = k then none else m k
  | (.retain f, _) => fun k => (m k).filter (f k)
  | _ => m

/-- the history: every operation with the result the store returned -/
def trace (s : Store) (ops : List Op) : List (Op × Res) := ops.zip (Machine.run step s ops).2

theorem abs_step_sim {s : Store} (h : Inv s) (o : Op) :
    absStep (get s) (o, (step s o).2) = get (step s o).1 := by
  funext k
  cases o with
  | get k' => rfl
  | put r =>
    simp only [step]
    rcases put_cases s r with ⟨_, h1⟩ | ⟨_, _, _, h1⟩ | ⟨_, _, h1⟩
    · rw [h1]; rfl
    · rw [h1]; rfl
    · rw [h1]; simp [absStep, get, aget_aset]
  | remove k' => simp [step, absStep, get, C41.remove, aget_adel]
  | retain f => simp [step, absStep, get, C41.retain, aget_filter _ _ _ h.rkeys]
  | addProvider r =>
    have : (step s (.addProvider r)).1.records = s.records := by
      rcases addProvider_effect h r with ⟨_, h2, _⟩ | ⟨_, h2, _⟩
      · simp [step, h2]
      · exact h2
    simp only [get, this]
    rfl
  | removeProvider k' p =>
    have : (step s (.removeProvider k' p)).1.records = s.records := (removeProvider_effect h k' p).1
    simp only [get, this]
    rfl

theorem refines_map_from (ops : List Op) : ∀ (s : Store), Inv s → ∀ k,
    get (Machine.exec step s ops) k = (trace s ops).foldl absStep (get s) k := by
  induction ops with
  | nil => intro s _ k; rfl
  | cons o os ih =>
    intro s h k
    have := ih (step s o).1 (h.step o) k
    simp only [Machine.exec, List.foldl_cons] at this ⊢
    rw [this]
    simp only [trace, Machine.run, List.zip_cons_cons, List.foldl_cons, abs_step_sim h o]

/-- **Refinement**: after any operation sequence, `get k` is the value of the abstract map
obtained by folding the history — `put` replaces, `remove` deletes. -/
theorem refines_map (loc : Nat) (cfg : Config) (ops : List Op) (k : Nat) :
    get (reach loc cfg ops) k =
      (trace (Store.empty loc cfg) ops).foldl absStep (fun _ => none) k :=
  refines_map_from ops _ (Inv.empty loc cfg) k

/-- an event that leaves the binding `k ↦ r` in place -/
def keeps (k : Nat) (r : Record) : Op × Res → Prop
  | (.put r', .ok) => r'.key ≠ k
  | (.remove k', _) => k' ≠ k
  | (.retain f, _) => f k r = true
  | _ => True

theorem foldl_keeps (k : Nat) (r : Record) (post : List (Op × Res)) :
    ∀ m : Nat → Option Record, m k = some r → (∀ e ∈ post, keeps k r e) →
      post.foldl absStep m k = some r := by
  induction post with
  | nil => intro m hm _; exact hm
  | cons e t ih =>
    intro m hm hk
    simp only [List.foldl_cons]
    apply ih
    · have he := hk e List.mem_cons_self
      obtain ⟨o, out⟩ := e
      cases o with
      | put r' =>
        cases out <;> simp_all [absStep, keeps]
      | remove k' => simp_all [absStep, keeps]
      | retain f => simp_all [absStep, keeps, Option.filter]
      | get _ => exact hm
      | addProvider _ => exact hm
      | removeProvider _ _ => exact hm
    · exact fun e he => hk e (List.mem_cons_of_mem _ he)

/-- **`get` returns the latest successful `put`** not followed by a `remove` of that key (nor by
a later successful `put` of the key, nor by a `retain` that rejects the record). -/
theorem get_latest_put (m0 : Nat → Option Record) (pre post : List (Op × Res)) (r : Record)
    (hpost : ∀ e ∈ post, keeps r.key r e) :
    (pre ++ (.put r, .ok) :: post).foldl absStep m0 r.key = some r := by
  rw [List.foldl_append, List.foldl_cons]
  exact foldl_keeps r.key r post _ (by simp [absStep]) hpost

/-- an event that does not bind `k` -/
def noPut (k : Nat) : Op × Res → Prop
  | (.put r', .ok) => r'.key ≠ k
  | _ => True

/-- **`remove` deletes**: after `remove k`, `get k` is `none` until the next successful `put k`. -/
theorem get_none_after_remove (m0 : Nat → Option Record) (pre post : List (Op × Res)) (k : Nat)
    (out : Res) (hpost : ∀ e ∈ post, noPut k e) :
    (pre ++ (.remove k, out) :: post).foldl absStep m0 k = none := by
  rw [List.foldl_append, List.foldl_cons]
  have : ∀ (post : List (Op × Res)) (m : Nat → Option Record), m k = none →
      (∀ e ∈ post, noPut k e) → post.foldl absStep m k = none := by
    intro post
    induction post with
    | nil => intro m hm _; exact hm
    | cons e t ih =>
      intro m hm hk
      simp only [List.foldl_cons]
      apply ih
      · have he := hk e List.mem_cons_self
        obtain ⟨o, out⟩ := e
        cases o with
        | put r' => cases out <;> simp_all [absStep, noPut]
        | remove k' => simp_all [absStep]
        | retain f => simp_all [absStep, Option.filter]
        | get _ => exact hm
        | addProvider _ => exact hm
        | removeProvider _ _ => exact hm
      · exact fun e he => hk e (List.mem_cons_of_mem _ he)
  exact this post _ (by simp [absStep]) hpost

/-- **Result of `put`**, exactly: `ValueTooLarge` iff the value has `max_value_bytes` or more
bytes; otherwise `MaxRecords` iff the key is new and `max_records` records are stored; otherwise
`Ok` (in particular replacing an existing key always succeeds). A refused `put` changes nothing;
a successful one binds the key and no other. -/
theorem put_result (s : Store) (r : Record) :
    ((put s r).2 = .err .valueTooLarge ↔ r.value.length ≥ s.cfg.maxValueBytes) ∧
    ((put s r).2 = .err .maxRecords ↔
      (r.value.length < s.cfg.maxValueBytes ∧ get s r.key = none ∧
        s.records.length ≥ s.cfg.maxRecords)) ∧
    ((put s r).2 = .ok ↔
      (r.value.length < s.cfg.maxValueBytes ∧
        ((get s r.key).isSome ∨ s.records.length < s.cfg.maxRecords))) ∧
    ((put s r).2 ≠ .ok → (put s r).1 = s) ∧
    ((put s r).2 = .ok → ∀ k, get (put s r).1 k = if r.key = k then some r else get s k) := by
  rcases put_cases s r with ⟨hv, h1⟩ | ⟨hv, hg, hm, h1⟩ | ⟨hv, hc, h1⟩
  · rw [h1]; simp; omega
  · rw [h1]; simp [get, hg]; omega
  · rw [h1]
    refine ⟨?_, ?_, ?_, ?_, ?_⟩
    · simp; omega
    · simp only [reduceCtorEq, false_iff, not_and]
      intro _ hn
      rcases hc with hc | hc
      · simp [get] at hn; simp [hn] at hc
      · omega
    · simp [hv]; exact hc
    · simp
    · intro _ k; simp only [get, aget_aset]

/-- **The number of stored records is the size of the map's domain** (so "`max_records` are
stored" in `put_result` is a statement about the abstract map), and it never exceeds
`max_records`; no stored value has `max_value_bytes` or more bytes. -/
theorem num_records_is_card_of {loc : Nat} {cfg : Config} {s : Store} (h' : Inv' loc cfg s) :
    ∃ keys : List Nat, keys.Nodup ∧ keys.length = s.records.length ∧
      (∀ k, k ∈ keys ↔ (get s k).isSome) ∧ s.records.length ≤ cfg.maxRecords ∧
      ∀ k r, get s k = some r → r.key = k ∧ r.value.length < cfg.maxValueBytes := by
  obtain ⟨h, rfl, rfl⟩ := h'
  refine ⟨s.records.map (·.1), h.rkeys, by simp, ?_, h.rlen, ?_⟩
  · intro k
    constructor
    · intro hk
      obtain ⟨e, he, rfl⟩ := List.mem_map.1 hk
      simp [get, aget_of_mem _ e.1 e.2 h.rkeys he]
    · intro hk
      cases hg : get s k with
      | none => simp [hg] at hk
      | some v => exact mem_keys_of_aget _ _ _ hg
  · intro k r hg
    have hm := aget_some_mem _ _ _ hg
    exact ⟨h.rkey_eq _ hm, h.rval _ hm⟩

theorem num_records_is_card (loc : Nat) (cfg : Config) (ops : List Op) :
    ∃ keys : List Nat, keys.Nodup ∧ keys.length = (reach loc cfg ops).records.length ∧
      (∀ k, k ∈ keys ↔ (get (reach loc cfg ops) k).isSome) ∧
      (reach loc cfg ops).records.length ≤ cfg.maxRecords ∧
      ∀ k r, get (reach loc cfg ops) k = some r → r.key = k ∧ r.value.length < cfg.maxValueBytes :=
  num_records_is_card_of (inv'_reach loc cfg ops)

/-- `records()` lists exactly the values of the map -/
theorem records_exact (loc : Nat) (cfg : Config) (ops : List Op) (r : Record) :
    r ∈ (view (reach loc cfg ops)).records ↔ get (reach loc cfg ops) r.key = some r := by
  have h := inv_reachable loc cfg ops
  simp only [view, List.mem_map]
  constructor
  · rintro ⟨e, he, rfl⟩
    have := h.rkey_eq e he
    rw [this]
    exact aget_of_mem _ e.1 e.2 h.rkeys he
  · intro hg
    exact ⟨(r.key, r), aget_some_mem _ _ _ hg, rfl⟩

/-! ## providers -/

/-- **Provider lists are bounded and duplicate-free**: after any operation sequence every key
lists at most `max_providers_per_key` provider records, all for that key, with pairwise distinct
provider ids; and (if `max_providers_per_key > 0`) no key is associated with an empty list. -/
theorem providers_bounded_of {loc : Nat} {cfg : Config} {s : Store} (h' : Inv' loc cfg s) (k : Nat) :
    (providersOf s k).length ≤ cfg.maxProvidersPerKey ∧
    ((providersOf s k).map (·.provider)).Nodup ∧
    (∀ p ∈ providersOf s k, p.key = k) ∧
    (0 < cfg.maxProvidersPerKey → aget s.providers k ≠ some []) := by
  obtain ⟨h, rfl, rfl⟩ := h'
  have hf := providersOf_facts h k
  refine ⟨hf.1, hf.2, ?_, ?_⟩
  · intro p hp
    unfold providersOf at hp
    cases hg : aget s.providers k with
    | none => simp [hg] at hp
    | some l => simp [hg] at hp; exact (h.entry hg).1 p hp
  · intro hpos hg
    exact h.pnonempty hpos _ (aget_some_mem _ _ _ hg) rfl

theorem providers_bounded (loc : Nat) (cfg : Config) (ops : List Op) (k : Nat) :
    (providersOf (reach loc cfg ops) k).length ≤ cfg.maxProvidersPerKey ∧
    ((providersOf (reach loc cfg ops) k).map (·.provider)).Nodup ∧
    (∀ p ∈ providersOf (reach loc cfg ops) k, p.key = k) ∧
    (0 < cfg.maxProvidersPerKey → aget (reach loc cfg ops).providers k ≠ some []) :=
  providers_bounded_of (inv'_reach loc cfg ops) k

theorem expectAdd_in_place (c : Config) (l : List PRec) (r : PRec)
    (h : ∃ x ∈ l, x.provider = r.provider) : expectAdd c l r = replaceProv l r := by
  have : l.any (fun x => decide (x.provider = r.provider)) = true := by simpa using h
  simp [expectAdd, this]

theorem expectAdd_full (c : Config) (l : List PRec) (r : PRec)
    (h : ∀ x ∈ l, x.provider ≠ r.provider) (hf : l.length ≥ c.maxProvidersPerKey) :
    expectAdd c l r = l := by
  have : l.any (fun x => decide (x.provider = r.provider)) = false := by simpa using h
  simp [expectAdd, this, hf]

theorem expectAdd_append (c : Config) (l : List PRec) (r : PRec)
    (h : ∀ x ∈ l, x.provider ≠ r.provider) (hf : l.length < c.maxProvidersPerKey) :
    expectAdd c l r = l ++ [r] := by
  have : l.any (fun x => decide (x.provider = r.provider)) = false := by simpa using h
  have hf' : ¬ l.length ≥ c.maxProvidersPerKey := by omega
  simp [expectAdd, this, hf']

/-- in-place: every position keeps its record except the one of `r.provider`, which holds `r` -/
theorem replaceProv_getElem? (l : List PRec) (r : PRec) (i : Nat) :
    (replaceProv l r)[i]? = (l[i]?).map (fun x => if x.provider = r.provider then r else x) := by
  simp [replaceProv]

/-- **`add_provider`** in any reachable store: it is refused (`MaxProvidedKeys`, nothing changes)
only for a key without providers when `max_provided_keys` keys have an entry; otherwise it
returns `Ok`, no other key's list changes, and the key's list is `expectAdd`: **re-adding a
provider updates its record in place** (`expectAdd_in_place`, `replaceProv_getElem?`), **a full
list ignores a newcomer** (`expectAdd_full`), otherwise the record is appended
(`expectAdd_append`). -/
theorem add_provider_spec_of {loc : Nat} {cfg : Config} {s : Store} (h' : Inv' loc cfg s) (r : PRec) :
    ((addProvider s r).2 = .err .maxProvidedKeys ∧ (addProvider s r).1 = s ∧
        providersOf s r.key = [] ∧ cfg.maxProvidedKeys = s.providers.length) ∨
    ((addProvider s r).2 = .ok ∧ (addProvider s r).1.records = s.records ∧
      ∀ k', providersOf (addProvider s r).1 k' =
        if r.key = k' then expectAdd cfg (providersOf s r.key) r else providersOf s k') := by
  obtain ⟨h, rfl, rfl⟩ := h'
  rcases addProvider_effect h r with ⟨h1, h2, h3, h4⟩ | ⟨h1, h2, _, _, _, h6⟩
  · exact Or.inl ⟨h1, h2, by simp [providersOf, h3], h4⟩
  · exact Or.inr ⟨h1, h2, h6⟩

theorem add_provider_spec (loc : Nat) (cfg : Config) (ops : List Op) (r : PRec) :
    ((addProvider (reach loc cfg ops) r).2 = .err .maxProvidedKeys ∧
        (addProvider (reach loc cfg ops) r).1 = reach loc cfg ops ∧
        providersOf (reach loc cfg ops) r.key = [] ∧
        cfg.maxProvidedKeys = (reach loc cfg ops).providers.length) ∨
    ((addProvider (reach loc cfg ops) r).2 = .ok ∧
      (addProvider (reach loc cfg ops) r).1.records = (reach loc cfg ops).records ∧
      ∀ k', providersOf (addProvider (reach loc cfg ops) r).1 k' =
        if r.key = k' then expectAdd cfg (providersOf (reach loc cfg ops) r.key) r
        else providersOf (reach loc cfg ops) k') :=
  add_provider_spec_of (inv'_reach loc cfg ops) r

/-- **`remove_provider k p`** in any reachable store: `providers(k)` loses exactly the record of
`p` (order of the others kept), no other key changes, records are untouched, and the key's entry
is dropped rather than left empty. -/
theorem remove_provider_spec (loc : Nat) (cfg : Config) (ops : List Op) (k p : Nat) :
    ∀ s, s = reach loc cfg ops →
    (removeProvider s k p).records = s.records ∧
    (∀ k', providersOf (removeProvider s k p) k' =
      if k = k' then (providersOf s k).filter (fun x => x.provider ≠ p) else providersOf s k') ∧
    aget (removeProvider s k p).providers k ≠ some [] := by
  intro s hs
  have h := inv_reachable loc cfg ops
  rw [← hs] at h
  exact ⟨(removeProvider_effect h k p).1, (removeProvider_effect h k p).2.2.2,
    removeProvider_no_empty _ k p⟩

/-- **`provided()` is exact**: after any operation sequence it contains a record iff that record
is currently listed under its key and its provider is the local node — with its current contents
(addresses, expiry), and without duplicates. -/
theorem provided_exact_of {loc : Nat} {cfg : Config} {s : Store} (h' : Inv' loc cfg s) :
    (∀ r, r ∈ s.provided ↔ (r.provider = loc ∧ r ∈ providersOf s r.key)) ∧ s.provided.Nodup := by
  obtain ⟨h, rfl, rfl⟩ := h'
  refine ⟨h.provided_exact, ?_⟩
  have := h.provided_nodup
  rw [List.nodup_iff_pairwise_ne] at this ⊢
  rw [List.pairwise_map] at this
  exact this.imp (fun hne heq => hne (by rw [heq]))

theorem provided_exact (loc : Nat) (cfg : Config) (ops : List Op) :
    (∀ r, r ∈ (reach loc cfg ops).provided ↔
      (r.provider = loc ∧ r ∈ providersOf (reach loc cfg ops) r.key)) ∧
    (reach loc cfg ops).provided.Nodup :=
  provided_exact_of (inv'_reach loc cfg ops)

/-! ## the executable Spec accepts the model -/

/-- model step paired with the Spec's verdict on it (`none` = accepted) -/
def stepV (cfg : Config) (loc : Nat) (s : Store) (op : Op) : Store × Option String :=
  ((step s op).1, specStep cfg loc (view s) op (step s op).2 (view (step s op).1))

/-- **Spec ⊇ model**: along every run of the model from the empty store, the trace monitor
(`specStep`, the oracle evaluated on the implementation's outputs by the driver) accepts every
step.  Hence "implementation output = model output on this run" implies "Spec holds on the
implementation's outputs". -/
theorem spec_accepts_model (loc : Nat) (cfg : Config) (ops : List Op) :
    ∀ v ∈ (Machine.run (stepV cfg loc) (Store.empty loc cfg) ops).2, v = none := by
  apply Machine.outputs_of_step (stepV cfg loc) (Inv' loc cfg) (· = none)
  · intro s o ⟨h, hc, hl⟩
    exact ⟨h.step o, (step_cfg_loc h o).1.trans hc, (step_cfg_loc h o).2.trans hl⟩
  · intro s o ⟨h, hc, hl⟩
    show specStep cfg loc (view s) o (step s o).2 (view (step s o).1) = none
    rw [← hc, ← hl]
    exact spec_step_model h o
  · exact ⟨Inv.empty loc cfg, rfl, rfl⟩

/-- the monitor's initial state is the view of the empty store -/
theorem view_empty (loc : Nat) (cfg : Config) : view (Store.empty loc cfg) = View.empty := rfl

/-! ## non-vacuity -/

def cfgEx : Config := ⟨1, 2, 1, 1⟩

-- put succeeds, second key refused, replacing succeeds, too large refused, remove frees the slot
example : (Machine.run step (Store.empty 0 cfgEx)
    [.put ⟨1, [7], none, none⟩, .put ⟨2, [], none, none⟩, .put ⟨1, [8], some 3, none⟩,
     .put ⟨1, [1, 2], none, none⟩, .get 1, .remove 1, .put ⟨2, [], none, none⟩, .get 1, .get 2]).2 =
    [.ok, .err .maxRecords, .ok, .err .valueTooLarge, .got (some ⟨1, [8], some 3, none⟩), .unit,
     .ok, .got none, .got (some ⟨2, [], none, none⟩)] := by decide

-- provider list of size 1: newcomer ignored, re-add updates in place, provided() follows
example : (reach 0 cfgEx [.addProvider ⟨5, 0, none, []⟩, .addProvider ⟨5, 3, none, []⟩,
    .addProvider ⟨5, 0, some 9, [4]⟩]).provided = [⟨5, 0, some 9, [4]⟩] := by decide
example : providersOf (reach 0 cfgEx [.addProvider ⟨5, 0, none, []⟩, .addProvider ⟨5, 3, none, []⟩,
    .addProvider ⟨5, 0, some 9, [4]⟩]) 5 = [⟨5, 0, some 9, [4]⟩] := by decide
example : (step (reach 0 cfgEx [.addProvider ⟨5, 0, none, []⟩]) (.addProvider ⟨6, 0, none, []⟩)).2 =
    .err .maxProvidedKeys := by decide

end C41

#print axioms C41.inv_reachable
#print axioms C41.refines_map
#print axioms C41.get_latest_put
#print axioms C41.get_none_after_remove
#print axioms C41.put_result
#print axioms C41.num_records_is_card
#print axioms C41.records_exact
#print axioms C41.providers_bounded
#print axioms C41.expectAdd_in_place
#print axioms C41.expectAdd_full
#print axioms C41.expectAdd_append
#print axioms C41.replaceProv_getElem?
#print axioms C41.add_provider_spec
#print axioms C41.remove_provider_spec
#print axioms C41.provided_exact
#print axioms C41.spec_accepts_model
