import Libp2pModel.Proofs.C55c
/-!
# C55 — property theorems

"For any peer id and address list, the response packets built for a query decode back to exactly the
advertised addresses that fit a single TXT string, all attributed to that peer, and each packet fits
the 9000-byte mDNS limit.  Parsing arbitrary packets never panics."

Inputs of the model: `addrs : List (Maddr × Bytes)` = each advertised address with its textual form
(`Multiaddr::to_string`), `b58` = `peer_id.to_base58()`, `peer` = the peer id bytes, `nm` = the random
alphanumeric peer name (any valid label), `oracle` = `Multiaddr::from_str` (multiaddr crate).
The only hypothesis about the external crate is its own text round trip on the advertised addresses
(`horacle`), checked differentially by the harness.
-/
namespace C55

/-- the advertised addresses that are candidates at all (`addresses.take(65535)`) that fit -/
def goodItems (b58 : Bytes) (addrs : List Item) : List Item :=
  (addrs.take 65535).filter (fun it => fits (txtValue it.2 b58))

theorem expectedAddrs_eq (b58 : Bytes) (addrs : List Item) :
    expectedAddrs b58 addrs = (goodItems b58 addrs).map (·.1) := rfl

/-- `build` = one packet per group of at most `MAX_RECORDS_PER_PACKET` fitting addresses, in order -/
theorem build_eq (id : Nat) (b58 : Bytes) (addrs : List Item) (ttl : Nat) (pn : Bytes) :
    build id b58 (addrs.map (·.2)) ttl pn
      = (finalChunks MAX_RECORDS_PER_PACKET (goodItems b58 addrs)).map
          (fun c => queryResponsePacket id pn
            ((c.map (fun it => txtValue it.2 b58)).map (recordOf pn ttl)) ttl) := by
  have h := buildWith_eq (ι := Item) MAX_RECORDS_PER_PACKET (by decide) appendTxtRecord id b58 ttl pn
    (addrs.map (·.2)) (addrs.take 65535) (fun it => txtValue it.2 b58)
    (fun it => fits (txtValue it.2 b58)) (fun it => recordOf pn ttl (txtValue it.2 b58))
    (by simp [← List.map_take, List.map_map, Function.comp_def])
    (fun it hg => appendTxtRecord_fits pn ttl _ hg)
    (fun it hb => appendTxtRecord_not_fits pn ttl _ hb)
  unfold build
  rw [h]
  simp [goodItems, List.map_map, Function.comp_def]

theorem mem_goodItems {b58 : Bytes} {addrs : List Item} {it : Item} (h : it ∈ goodItems b58 addrs) :
    it ∈ addrs ∧ fits (txtValue it.2 b58) = true := by
  simp only [goodItems, List.mem_filter] at h
  exact ⟨List.mem_of_mem_take h.1, h.2⟩

/-- what the receiving side makes of one built packet -/
theorem parse_group (oracle : Bytes → Option Maddr) (id ttl : Nat) (peer b58 nm : Bytes) (c : List Item)
    (hid : id < 65536) (httl : ttl < 4294967296) (hnm : ValidLabel nm) (hlen : c.length < 65536)
    (hfit : ∀ it ∈ c, fits (txtValue it.2 b58) = true)
    (horacle : ∀ it ∈ c, oracle (it.2 ++ P2P ++ b58) = some (it.1 ++ [.p2p peer])) :
    parsePacket oracle (queryResponsePacket id (labelQname nm)
        ((c.map (fun it => txtValue it.2 b58)).map (recordOf (labelQname nm) ttl)) ttl)
      = .resp (if c = [] then [] else [⟨peer, ttl, c.map (·.1)⟩]) := by
  unfold parsePacket
  rw [parseShape_packet id nm ttl _ hid hnm httl (by simpa using hlen)
    (by intro v hv; simp only [List.mem_map] at hv; obtain ⟨it, hit, rfl⟩ := hv; exact hfit it hit)]
  exact interpret_built oracle id ttl nm peer b58 c horacle

/-- **C55.roundtrip** — for every peer, address list, query id, ttl and peer name: every packet built
is accepted as a response whose peers are all `peer` (with the advertised ttl), and the addresses
decoded from the packets, concatenated in order, are exactly the advertised addresses whose
`dnsaddr=<addr>/p2p/<id>` text fits one TXT character-string (ASCII, encoded length ≤ 255). -/
theorem roundtrip (oracle : Bytes → Option Maddr) (id ttl : Nat) (peer b58 nm : Bytes) (addrs : List Item)
    (hid : id < 65536) (httl : ttl < 4294967296) (hnm : ValidLabel nm)
    (horacle : ∀ it ∈ addrs, fits (txtValue it.2 b58) = true →
      oracle (it.2 ++ P2P ++ b58) = some (it.1 ++ [.p2p peer])) :
    let decoded := (build id b58 (addrs.map (·.2)) ttl (labelQname nm)).map (parsePacket oracle)
    (∀ d ∈ decoded, ∃ peers, d = .resp peers ∧ ∀ p ∈ peers, p.id = peer ∧ p.ttl = ttl) ∧
      decoded.flatMap decodedAddrs = expectedAddrs b58 addrs := by
  intro decoded
  have hgrp : ∀ c ∈ finalChunks MAX_RECORDS_PER_PACKET (goodItems b58 addrs),
      parsePacket oracle (queryResponsePacket id (labelQname nm)
        ((c.map (fun it => txtValue it.2 b58)).map (recordOf (labelQname nm) ttl)) ttl)
      = .resp (if c = [] then [] else [⟨peer, ttl, c.map (·.1)⟩]) := by
    intro c hc
    have hl := finalChunks_length_le MAX_RECORDS_PER_PACKET (by decide) _ c hc
    have hmem := fun it hit => mem_goodItems (mem_of_mem_finalChunks _ _ c hc it hit)
    exact parse_group oracle id ttl peer b58 nm c hid httl hnm
      (Nat.lt_of_le_of_lt hl (by decide))
      (fun it hit => (hmem it hit).2)
      (fun it hit => horacle it (hmem it hit).1 (hmem it hit).2)
  have hdec : decoded = (finalChunks MAX_RECORDS_PER_PACKET (goodItems b58 addrs)).map
      (fun c => ParseRes.resp (if c = [] then [] else [⟨peer, ttl, c.map (·.1)⟩])) := by
    show (build id b58 (addrs.map (·.2)) ttl (labelQname nm)).map (parsePacket oracle) = _
    rw [build_eq, List.map_map]
    apply List.map_congr_left
    intro c hc
    exact hgrp c hc
  refine ⟨?_, ?_⟩
  · intro d hd
    rw [hdec] at hd
    simp only [List.mem_map] at hd
    obtain ⟨c, _, rfl⟩ := hd
    refine ⟨_, rfl, ?_⟩
    intro p hp
    by_cases he : c = []
    · simp [he] at hp
    · simp [he] at hp; subst hp; exact ⟨rfl, rfl⟩
  · rw [hdec, expectedAddrs_eq]
    have hfl : ∀ (l : List (List Item)),
        (l.map (fun c => ParseRes.resp (if c = [] then [] else [⟨peer, ttl, c.map (·.1)⟩]))).flatMap decodedAddrs
          = l.flatten.map (·.1) := by
      intro l
      induction l with
      | nil => rfl
      | cons c l ih =>
        simp only [List.map_cons, List.flatMap_cons, ih, List.flatten_cons, List.map_append]
        by_cases he : c = [] <;> simp [he, decodedAddrs]
    rw [hfl, finalChunks_flatten]

/-- `duration_to_secs` always fits a `u32` -/
theorem durationToSecs_lt (secs nanos : Nat) : durationToSecs secs nanos < 4294967296 := by
  unfold durationToSecs; omega

/-- the same for the whole of `build_query_response` (random peer name = any valid label, any
`Duration`): it never panics, and the Spec clause evaluated by the checker holds of the model. -/
theorem roundtrip_spec (oracle : Bytes → Option Maddr) (id secs nanos : Nat) (peer b58 nm : Bytes)
    (addrs : List Item) (hid : id < 65536) (hnm : ValidLabel nm)
    (horacle : ∀ it ∈ addrs, fits (txtValue it.2 b58) = true →
      oracle (it.2 ++ P2P ++ b58) = some (it.1 ++ [.p2p peer])) :
    ∃ pkts, buildQueryResponse id b58 (addrs.map (·.2)) secs nanos nm = some pkts ∧
      specDecoded peer (expectedAddrs b58 addrs) (pkts.map (parsePacket oracle)) = true := by
  refine ⟨build id b58 (addrs.map (·.2)) (durationToSecs secs nanos) (labelQname nm),
    by simp [buildQueryResponse, appendQname_label nm hnm], ?_⟩
  obtain ⟨h1, h2⟩ := roundtrip oracle id (durationToSecs secs nanos) peer b58 nm addrs hid
    (durationToSecs_lt secs nanos) hnm horacle
  simp only [specDecoded, Bool.and_eq_true, List.all_eq_true, beq_iff_eq]
  refine ⟨?_, h2⟩
  intro d hd
  obtain ⟨peers, rfl, hp⟩ := h1 d hd
  simp only [attributedTo, List.all_eq_true, beq_iff_eq]
  exact fun p hpm => (hp p hpm).1

/-! ### packet size -/

theorem flatten_length_le (l : List Bytes) (B : Nat) (h : ∀ x ∈ l, x.length ≤ B) :
    l.flatten.length ≤ l.length * B := by
  induction l with
  | nil => simp
  | cons x l ih =>
    have h1 := h x (by simp)
    have h2 := ih (fun y hy => h y (by simp [hy]))
    simp only [List.flatten_cons, List.length_append, List.length_cons]
    rw [Nat.add_mul]; omega

theorem recordOf_length_le (pn : Bytes) (ttl : Nat) (v : Bytes) (hfit : fits v = true) :
    (recordOf pn ttl v).length ≤ pn.length + 266 := by
  simp [fits] at hfit
  simp [recordOf, u32be, u16be]; omega

/-- **C55.packet_size** — every packet `build_query_response` emits is at most `MAX_PACKET_SIZE`
(8932) bytes, hence fits the 9000-byte mDNS limit, for every address list, whatever the peer name
(a QNAME of at most 65 bytes: one label of ≤ 63 characters). -/
theorem packet_size (id ttl : Nat) (b58 pn : Bytes) (texts : List Bytes) (hpn : pn.length ≤ 65) :
    ∀ pkt ∈ build id b58 texts ttl pn, pkt.length ≤ MAX_PACKET_SIZE ∧ pkt.length ≤ 9000 := by
  intro pkt hpkt
  have htexts : texts = (texts.map (fun t => (([] : Maddr), t))).map (·.2) := by
    simp [List.map_map, Function.comp_def]
  rw [htexts, build_eq] at hpkt
  simp only [List.mem_map] at hpkt
  obtain ⟨c, hc, rfl⟩ := hpkt
  have hl := finalChunks_length_le MAX_RECORDS_PER_PACKET (by decide) _ c hc
  have hfit : ∀ it ∈ c, fits (txtValue it.2 b58) = true :=
    fun it hit => (mem_goodItems (mem_of_mem_finalChunks _ _ c hc it hit)).2
  have hflat := flatten_length_le ((c.map (fun it => txtValue it.2 b58)).map (recordOf pn ttl)) (pn.length + 266)
    (by
      intro x hx
      simp only [List.mem_map] at hx
      obtain ⟨v, ⟨it, hit, rfl⟩, rfl⟩ := hx
      exact recordOf_length_le pn ttl _ (hfit it hit))
  simp only [List.length_map] at hflat
  have hmax : MAX_RECORDS_PER_PACKET = 26 := by decide
  rw [hmax] at hl
  have hmul : c.length * (pn.length + 266) ≤ 26 * (65 + 266) := Nat.mul_le_mul hl (by omega)
  have : (queryResponsePacket id pn ((c.map (fun it => txtValue it.2 b58)).map (recordOf pn ttl)) ttl).length
      ≤ 8710 := by
    simp only [queryResponsePacket, List.length_append, u16be, u32be, serviceQname, List.length_cons,
      List.length_nil]
    omega
  have h2 : MAX_PACKET_SIZE = 8932 := by decide
  omega

theorem specSize_build (id ttl : Nat) (b58 pn : Bytes) (texts : List Bytes) (hpn : pn.length ≤ 65) :
    specSize (build id b58 texts ttl pn) = true := by
  simp only [specSize, List.all_eq_true, decide_eq_true_eq]
  exact fun pkt h => (packet_size id ttl b58 pn texts hpn pkt h).2

/-! ### TXT well-formedness -/

/-- **C55.txt_wellformed** — every packet built is in the response shape and every TXT record in it
has an rdata that is exactly one `<character-string>`: `len ‖ bytes` with `len = |bytes|` (≤ 255),
owned by the peer name the PTR answer points to. -/
theorem txt_wellformed (id ttl : Nat) (b58 nm : Bytes) (texts : List Bytes)
    (hid : id < 65536) (httl : ttl < 4294967296) (hnm : ValidLabel nm) :
    ∀ pkt ∈ build id b58 texts ttl (labelQname nm), ∃ sh, parseShape pkt = some sh ∧
      sh.ptr = [nm] ∧
      ∀ r ∈ sh.recs, r.owner = [nm] ∧ ∃ s : Bytes, r.rdata = s.length :: s ∧ r.strings = [s] ∧ s.length ≤ 255 := by
  intro pkt hpkt
  have htexts : texts = (texts.map (fun t => (([] : Maddr), t))).map (·.2) := by
    simp [List.map_map, Function.comp_def]
  rw [htexts, build_eq] at hpkt
  simp only [List.mem_map] at hpkt
  obtain ⟨c, hc, rfl⟩ := hpkt
  have hl := finalChunks_length_le MAX_RECORDS_PER_PACKET (by decide) _ c hc
  have hfit : ∀ it ∈ c, fits (txtValue it.2 b58) = true :=
    fun it hit => (mem_goodItems (mem_of_mem_finalChunks _ _ c hc it hit)).2
  refine ⟨_, parseShape_packet id nm ttl _ hid hnm httl
    (by simp only [List.length_map]; exact Nat.lt_of_le_of_lt hl (by decide))
    (by intro v hv; simp only [List.mem_map] at hv; obtain ⟨it, hit, rfl⟩ := hv; exact hfit it hit), rfl, ?_⟩
  intro r hr
  simp only [List.mem_map] at hr
  obtain ⟨v, ⟨it, hit, rfl⟩, rfl⟩ := hr
  refine ⟨rfl, charString (txtValue it.2 b58), rfl, rfl, ?_⟩
  have := hfit it hit
  simp [fits] at this
  exact this.2

theorem specWf_build (id ttl : Nat) (b58 nm : Bytes) (texts : List Bytes)
    (hid : id < 65536) (httl : ttl < 4294967296) (hnm : ValidLabel nm) :
    specWf (build id b58 texts ttl (labelQname nm)) = true := by
  simp only [specWf, List.all_eq_true]
  intro pkt hpkt
  obtain ⟨sh, hsh, _, hrecs⟩ := txt_wellformed id ttl b58 nm texts hid httl hnm pkt hpkt
  rw [hsh]
  simp only [List.all_eq_true]
  intro r hr
  obtain ⟨_, s, hs, _, _⟩ := hrecs r hr
  simp [hs, wellFormedRdata]

/-! ### totality of the receiving side -/

/-- **C55.parse_no_panic** — on arbitrary packet bytes (and whatever `Multiaddr::from_str` answers)
the model of `MdnsResponse::new`/`MdnsPeer::new`/`decode_character_string` never reaches one of the
index/slice panic points (`from[0]`, `&from[1..len-1]`, `&addr[8..]`). -/
theorem parse_no_panic (oracle : Bytes → Option Maddr) (buf : Bytes) : parsePacket oracle buf ≠ .panic := by
  unfold parsePacket
  cases parseShape buf with
  | none => simp
  | some sh =>
    simp only
    unfold interpret
    split
    · simp
    · unfold mdnsPeerNew
      simp only
      cases h : peerFold oracle
          ((sh.recs.filter (fun r => nameEq r.owner sh.ptr)).flatMap (·.strings)) none [] with
      | none => exact absurd h (peerFold_no_panic _ _ _ _)
      | some st =>
        obtain ⟨pid, acc⟩ := st
        cases pid <;> simp

theorem decode_no_panic (src : Bytes) : decodeCharacterString src ≠ .panic :=
  decodeCharacterString_no_panic src

/-! ### the two defects of the unrepaired code -/

/-- pre-fix `append_txt_record` on the value `a b`: the length byte says 3 but 5 bytes (`"a b"`)
follow — the rdata is not a sequence of character-strings. -/
theorem txt_quoted_after_length_buggy_counterexample :
    ∃ r, appendTxtRecordBuggy [] 0 [97, 32, 98] = .ok r ∧
      r.drop 10 = [3, 34, 97, 32, 98, 34] ∧ wellFormedRdata (r.drop 10) = false ∧
      readStrings (r.drop 10) = none := by
  refine ⟨[0, 16, 128, 1, 0, 0, 0, 0, 0, 6, 3, 34, 97, 32, 98, 34], by rfl, by decide, by decide, ?_⟩
  show readStrings [3, 34, 97, 32, 98, 34] = none
  rw [readStrings]
  simp only [List.length_cons, List.length_nil]
  simp only [show (3 < 256 ∧ 3 ≤ 5) by omega, List.drop_succ_cons, List.drop_zero]
  rw [readStrings]
  simp

/-- …while the repaired function writes `5 ‖ "a b"` (quoted) -/
example : appendTxtRecord [] 0 [97, 32, 98] = .ok [0, 16, 128, 1, 0, 0, 0, 0, 0, 6, 5, 34, 97, 32, 98, 34] := by
  rfl

/-- pre-fix `MAX_RECORDS_PER_PACKET` (= 29): 29 addresses whose TXT value has 255 bytes under a
63-character peer name give one packet of 9703 bytes > 9000. -/
theorem packet_over_9000_buggy_counterexample :
    MAX_RECORDS_PER_PACKET_BUGGY = 29 ∧
    ∃ texts pn, pn.length = 65 ∧
      (buildWith MAX_RECORDS_PER_PACKET_BUGGY appendTxtRecord 0 [] texts 0 pn).map List.length = [9703] := by
  refine ⟨by decide, List.replicate 29 (List.replicate 242 97), 63 :: (List.replicate 63 97 ++ [0]), by decide, ?_⟩
  decide +kernel

/-! ### non-vacuity -/

example : ValidLabel [97, 66, 48] := ⟨by simp, by simp, by decide⟩
example : fits (txtValue [47, 105, 112, 52] [81, 109]) = true := by decide
example : fits (txtValue [47, 100, 110, 115, 47, 97, 32, 98] [81, 109]) = true := by decide
example : fits (txtValue [47, 100, 110, 115, 47, 233] [81, 109]) = false := by decide

end C55

#print axioms C55.roundtrip
#print axioms C55.roundtrip_spec
#print axioms C55.packet_size
#print axioms C55.specSize_build
#print axioms C55.txt_wellformed
#print axioms C55.specWf_build
#print axioms C55.parse_no_panic
#print axioms C55.decode_no_panic
#print axioms C55.appendTxtRecord_ok
#print axioms C55.decode_charString
#print axioms C55.appendQname_label
#print axioms C55.txt_quoted_after_length_buggy_counterexample
#print axioms C55.packet_over_9000_buggy_counterexample
