import Libp2pModel.Proofs.SwarmInv
/-!
# C02 — Connection counters and peer views agree with the event history

Statement (properties.jsonl): at every point, `Swarm::is_connected`, `connected_peers`,
`network_info` counters, and the `num_established` / `remaining_established` values carried by
connection events equal what the history of established-and-not-yet-closed connections implies.
Pending counters equal the number of dials and inbound connections not yet resolved.
-/
namespace Swarm.C02
open Swarm

/-! ## counters = sizes of the tables, after every history -/

/-- **Counters**: after every operation history the four `ConnectionCounters` equal the number of
unresolved dials, unresolved inbound connections, and established connections per direction, and
no connection id is in two tables or twice in one. -/
theorem counters_agree (peerIds : List (List Nat)) (ops : List Op) :
    let s := ops.foldl (fun s o => (step s o).1) (State.init peerIds)
    s.cPO = s.pendOut.length ∧ s.cPI = s.pendIn.length ∧
    s.cEO = (s.est.filter (·.out)).length ∧ s.cEI = (s.est.filter (fun e => !e.out)).length ∧
    s.cEO + s.cEI = s.est.length := by
  intro s
  have h := inv_reachable peerIds ops
  refine ⟨h.cPO, h.cPI, h.cEO, h.cEI, ?_⟩
  rw [h.cEO, h.cEI]
  generalize s.est = l
  induction l with
  | nil => rfl
  | cons a t ih => cases ha : a.out <;> simp [List.filter_cons, ha] <;> omega

/-! ## peer views -/

theorem mem_insertSorted (x y : Nat) (l : List Nat) : y ∈ insertSorted x l ↔ y = x ∨ y ∈ l := by
  induction l with
  | nil => simp [insertSorted]
  | cons a t ih =>
    unfold insertSorted
    split
    · simp
    · split
      · rename_i h1 h2; subst h2; simp
      · simp [ih]; constructor
        · rintro (h | h | h) <;> simp [h]
        · rintro (h | h | h) <;> simp [h]

theorem mem_foldl_insert (l : List Est) : ∀ (acc : List Nat) (y : Nat),
    y ∈ l.foldl (fun acc e => insertSorted e.peer acc) acc ↔ y ∈ acc ∨ ∃ e ∈ l, e.peer = y := by
  induction l with
  | nil => intro acc y; simp
  | cons a t ih =>
    intro acc y
    simp only [List.foldl_cons, ih, mem_insertSorted, List.mem_cons]
    constructor
    · rintro ((h | h) | ⟨e, he, hp⟩)
      · exact Or.inr ⟨a, Or.inl rfl, h.symm⟩
      · exact Or.inl h
      · exact Or.inr ⟨e, Or.inr he, hp⟩
    · rintro (h | ⟨e, he | he, hp⟩)
      · exact Or.inl (Or.inr h)
      · subst he; exact Or.inl (Or.inl hp.symm)
      · exact Or.inr ⟨e, he, hp⟩

/-- `connected_peers` / `is_connected` are exactly the peers with at least one established,
not yet closed connection — in every state. -/
theorem peer_views (s : State) (p : Nat) :
    (p ∈ s.connectedPeers ↔ 0 < s.numEst p) ∧ (s.isConnected p = true ↔ 0 < s.numEst p) := by
  have hpos : 0 < s.numEst p ↔ ∃ e ∈ s.est, e.peer = p := by
    unfold State.numEst
    rw [List.length_pos_iff_exists_mem]
    constructor
    · rintro ⟨e, he⟩
      have := List.mem_filter.1 he
      exact ⟨e, this.1, by simpa using this.2⟩
    · rintro ⟨e, he, hp⟩
      exact ⟨e, List.mem_filter.2 ⟨he, by simpa using hp⟩⟩
  constructor
  · unfold State.connectedPeers
    rw [mem_foldl_insert, hpos]; simp
  · rw [hpos]; unfold State.isConnected; simp

/-! ## the values carried by events = the fold of the event history -/

/-- the fold of the event history: `n p` = established-and-not-yet-closed connections of `p` -/
def bump (n : Nat → Nat) (p : Nat) (f : Nat → Nat) : Nat → Nat := fun q => if q = p then f (n q) else n q

/-- Walk a trace, maintaining the history fold `n`, and check every value an event carries:
`ConnectionEstablished.num_established`, `FromSwarm::ConnectionEstablished.other_established`,
`ConnectionClosed.num_established`, `FromSwarm::ConnectionClosed.remaining_established`. -/
def checkNums : (Nat → Nat) → List Ev → Bool × (Nat → Nat)
  | n, [] => (true, n)
  | n, .bEstablished _ p _ other _ :: rest =>
    let r := checkNums n rest
    (decide (other = n p) && r.1, r.2)
  | n, .sEstablished _ p _ num _ :: rest =>
    let r := checkNums (bump n p (· + 1)) rest
    (decide (num = n p + 1) && r.1, r.2)
  | n, .bClosed _ p remaining _ :: rest =>
    let r := checkNums n rest
    (decide (remaining + 1 = n p) && r.1, r.2)
  | n, .sClosed _ p num _ :: rest =>
    let r := checkNums (bump n p (· - 1)) rest
    (decide (num + 1 = n p) && r.1, r.2)
  | n, _ :: rest => checkNums n rest

theorem checkNums_append (a b : List Ev) : ∀ n,
    checkNums n (a ++ b) = ((checkNums n a).1 && (checkNums (checkNums n a).2 b).1, (checkNums (checkNums n a).2 b).2) := by
  induction a with
  | nil => intro n; simp [checkNums]
  | cons e t ih =>
    intro n
    cases e <;> simp [checkNums, ih, Bool.and_assoc]

/-- events that carry no such value and do not change the fold -/
def neutral : Ev → Bool
  | .bEstablished .. | .sEstablished .. | .bClosed .. | .sClosed .. => false
  | _ => true

theorem checkNums_neutral (l : List Ev) (h : ∀ e ∈ l, neutral e = true) : ∀ n, checkNums n l = (true, n) := by
  induction l with
  | nil => intro n; rfl
  | cons e t ih =>
    intro n
    have he := h e List.mem_cons_self
    have ht := ih (fun x hx => h x (List.mem_cons_of_mem _ hx))
    cases e <;> simp [neutral] at he <;> simp [checkNums, ht]

theorem outFail_neutral (id : Nat) (p : Option Nat) (e : DialErr) : ∀ x ∈ outFailEvents id p e, neutral x = true := by
  intro x hx; simp [outFailEvents] at hx; rcases hx with rfl | rfl <;> rfl

theorem inFail_neutral (id : Nat) (p : Option Nat) (e : ListenErr) : ∀ x ∈ inFailEvents id p e, neutral x = true := by
  intro x hx; simp [inFailEvents] at hx; rcases hx with rfl | rfl <;> rfl

/-- what a transition does to the fold -/
def Tracks (s s' : State) (evs : List Ev) : Prop :=
  checkNums s.numEst evs = (true, s'.numEst)

theorem tracks_neutral (s s' : State) (evs : List Ev) (he : s'.est = s.est)
    (h : ∀ e ∈ evs, neutral e = true) : Tracks s s' evs := by
  unfold Tracks
  rw [checkNums_neutral evs h]
  have : s'.numEst = s.numEst := by funext p; simp [State.numEst, he]
  rw [this]

theorem numEst_establish (s : State) (id p : Nat) (o md : Bool) (mk : Nat) (f : List Maddr) :
    (establish s id p o md mk f).1.numEst = bump s.numEst p (· + 1) := by
  funext q
  unfold bump
  simp only [State.numEst, establish, List.filter_append, List.length_append]
  by_cases h : p = q
  · subst h; simp
  · have h' : ¬ q = p := fun hh => h hh.symm
    simp [h, h']

theorem establish_tracks (s : State) (id p : Nat) (o md : Bool) (mk : Nat) (f : List Maddr) :
    Tracks s (establish s id p o md mk f).1 (establish s id p o md mk f).2 := by
  unfold Tracks
  rw [numEst_establish]
  simp [establish, checkNums]

theorem planDials_neutral (s : State) (peer : Option Nat) (r : List Maddr) : ∀ (l : List Maddr) (nd : Nat),
    (planDials s peer r l nd).events.all neutral = true := by
  intro l
  induction l with
  | nil => intro nd; simp [planDials]
  | cons a t ih =>
    intro nd
    unfold planDials
    cases hsx : dialSuffix s peer a with
    | none => simp only; exact ih nd
    | some a' => simp only; split <;> simp [neutral, ih]

theorem dial_neutral (s : State) (v : Bool) (c : Cond) (p : Option Nat) (a : List Maddr) (e : Bool)
    (b : List Maddr) (d : Bool) (r : List Maddr) : (dial s v c p a e b d r).2.2.all neutral = true := by
  unfold dial
  cases dialPeer s p a with
  | none => simp
  | some peer =>
    simp only [dialRejected, dialAccepted]
    (repeat' split) <;> simp [neutral, outFailEvents, planDials_neutral]

theorem dial_tracks (s : State) (v : Bool) (c : Cond) (p : Option Nat) (a : List Maddr) (e : Bool)
    (b : List Maddr) (d : Bool) (r : List Maddr) :
    Tracks s (dial s v c p a e b d r).1 (dial s v c p a e b d r).2.2 :=
  tracks_neutral _ _ _ (dial_frame s v c p a e b d r).1 (List.all_eq_true.1 (dial_neutral s v c p a e b d r))

theorem tracks_trans (s s1 s2 : State) (e1 e2 : List Ev) (h1 : Tracks s s1 e1) (h2 : Tracks s1 s2 e2) :
    Tracks s s2 (e1 ++ e2) := by
  unfold Tracks at *
  rw [checkNums_append, h1]; simp [h2]

theorem tracks_cons_neutral (s s' : State) (e : Ev) (evs : List Ev) (he : neutral e = true)
    (h : Tracks s s' evs) : Tracks s s' (e :: evs) := by
  unfold Tracks at *
  cases e <;> simp [neutral] at he <;> simpa [checkNums] using h

theorem tracks_append_neutral (s s' : State) (evs tl : List Ev) (h : Tracks s s' evs)
    (ht : ∀ e ∈ tl, neutral e = true) : Tracks s s' (evs ++ tl) := by
  unfold Tracks at *
  rw [checkNums_append, h, checkNums_neutral tl ht]
  simp

theorem resolveDial_tracks (s : State) (k p : Nat) (d : Bool) :
    Tracks s (resolveDial s k p d).1 (resolveDial s k p d).2 := by
  unfold resolveDial
  cases findPendOut s.pendOut k with
  | none => exact tracks_neutral _ _ _ rfl (by simp)
  | some pc =>
    simp only
    have hfail : ∀ (pp : Option Nat) (e : DialErr), ∀ x ∈ outFailEvents pc.id pp e ++ [Ev.muxClosed true k], neutral x = true := by
      intro pp e x hx
      rcases List.mem_append.1 hx with h | h
      · exact outFail_neutral _ _ _ x h
      · simp at h; subst h; rfl
    cases checkPeerId pc.peer p (removePendOut s pc.id).localPeer with
    | wrongPeerId => exact tracks_neutral _ _ _ rfl (hfail _ _)
    | localPeerId => exact tracks_neutral _ _ _ rfl (hfail _ _)
    | ok =>
      cases d with
      | true =>
        apply tracks_neutral _ _ _ rfl
        intro x hx
        rcases List.mem_cons.1 hx with rfl | hx
        · rfl
        · exact hfail _ _ x hx
      | false =>
        apply tracks_cons_neutral _ _ _ _ rfl
        have := establish_tracks (removePendOut s pc.id) pc.id p true true k (pc.errors.map (·.1))
        unfold Tracks at this ⊢
        exact this

theorem resolveIn_tracks (s : State) (k p : Nat) (d : Bool) :
    Tracks s (resolveIn s k p d).1 (resolveIn s k p d).2 := by
  unfold resolveIn
  cases s.pendIn.find? (·.k == k) with
  | none => exact tracks_neutral _ _ _ rfl (by simp)
  | some pc =>
    simp only
    have hfail : ∀ (pp : Option Nat) (e : ListenErr), ∀ x ∈ inFailEvents pc.id pp e ++ [Ev.muxClosed false k], neutral x = true := by
      intro pp e x hx
      rcases List.mem_append.1 hx with h | h
      · exact inFail_neutral _ _ _ x h
      · simp at h; subst h; rfl
    cases checkPeerId none p (removePendIn s pc.id).localPeer with
    | wrongPeerId => exact tracks_neutral _ _ _ rfl (by simp)
    | localPeerId => exact tracks_neutral _ _ _ rfl (hfail _ _)
    | ok =>
      cases d with
      | true =>
        apply tracks_neutral _ _ _ rfl
        intro x hx
        rcases List.mem_cons.1 hx with rfl | hx
        · rfl
        · exact hfail _ _ x hx
      | false =>
        apply tracks_cons_neutral _ _ _ _ rfl
        have := establish_tracks (removePendIn s pc.id) pc.id p false false k []
        unfold Tracks at this ⊢
        exact this

theorem failDial_tracks (s : State) (k : Nat) : Tracks s (failDial s k).1 (failDial s k).2 := by
  unfold failDial
  cases findPendOut s.pendOut k with
  | none => exact tracks_neutral _ _ _ rfl (by simp)
  | some pc =>
    simp only
    split
    · exact tracks_neutral _ _ _ rfl (outFail_neutral _ _ _)
    · exact tracks_neutral _ _ _ rfl (by simp)

theorem incoming_tracks (s : State) (d : Bool) : Tracks s (incoming s d).1 (incoming s d).2 := by
  unfold incoming
  simp only
  split
  · apply tracks_neutral _ _ _ rfl
    intro x hx
    rcases List.mem_cons.1 hx with rfl | hx
    · rfl
    · exact inFail_neutral _ _ _ x hx
  · apply tracks_neutral _ _ _ rfl
    intro x hx; simp at hx; rcases hx with rfl | rfl <;> rfl

theorem failIn_tracks (s : State) (k : Nat) : Tracks s (failIn s k).1 (failIn s k).2 := by
  unfold failIn
  cases s.pendIn.find? (·.k == k) with
  | none => exact tracks_neutral _ _ _ rfl (by simp)
  | some pc => exact tracks_neutral _ _ _ rfl (inFail_neutral _ _ _)

/-- closing an established connection: the carried values are the fold after the close -/
theorem closeConn_tracks (s : State) (c : Nat) (g : Bool) (h : Inv s) :
    Tracks s (closeConn s c g).1 (closeConn s c g).2 := by
  unfold closeConn
  cases hf : s.est.find? (·.id == c) with
  | none => exact tracks_neutral _ _ _ rfl (by simp)
  | some e =>
    obtain ⟨hmem, hid⟩ := find?_id_mem (fun x : Est => x.id) s.est c e hf
    simp only
    -- numEst before = numEst after + (1 for the closed connection's peer)
    have hsplit : ∀ q, s.numEst q = ((s.est.filter (·.id != c)).filter (·.peer == q)).length + (if e.peer = q then 1 else 0) := by
      intro q
      have := filter_split s.est c e (fun x => x.peer == q) h.ndE hmem hid
      simpa [State.numEst] using this
    have hnum : (fun q => ((s.est.filter (·.id != c)).filter (·.peer == q)).length) = bump s.numEst e.peer (· - 1) := by
      funext q
      unfold bump
      rw [hsplit q]
      by_cases hq : e.peer = q
      · subst hq; simp
      · have : ¬ q = e.peer := fun hh => hq hh.symm
        simp [hq, this]
    have hpeer := hsplit e.peer
    simp only [↓reduceIte] at hpeer
    -- the state after the close, and its fold
    have hs' : ∀ (ci co : Nat), ({ s with est := s.est.filter (·.id != c), cEO := co, cEI := ci } : State).numEst
        = bump s.numEst e.peer (· - 1) := by
      intro ci co; rw [← hnum]; funext q; rfl
    have hrem : ∀ (ci co : Nat), ({ s with est := s.est.filter (·.id != c), cEO := co, cEI := ci } : State).numEst e.peer + 1
        = s.numEst e.peer := by
      intro ci co; rw [hpeer]; rfl
    have hb : bump s.numEst e.peer (· - 1) e.peer + 1 = s.numEst e.peer := by
      have := hrem 0 0; rw [hs' 0 0] at this; exact this
    unfold Tracks
    cases g
    · simp only [Bool.false_eq_true, ↓reduceIte, List.nil_append, checkNums, Bool.not_false]
      rw [hs']; simp [hb]
    · simp only [↓reduceIte, List.singleton_append, checkNums, Bool.not_true]
      rw [hs']; simp [hb]

theorem closeMany_tracks (cs : List Nat) : ∀ (s : State), Inv s →
    Tracks s (closeMany s cs).1 (closeMany s cs).2 := by
  induction cs with
  | nil => intro s _; exact tracks_neutral _ _ _ rfl (by simp [closeMany])
  | cons c cs ih =>
    intro s h
    simp only [closeMany]
    exact tracks_trans _ _ _ _ _ (closeConn_tracks s c true h) (ih _ (closeConn_inv s c true h))

theorem abortOne_tracks (s : State) (c : Nat) : Tracks s (abortOne s c).1 (abortOne s c).2 := by
  unfold abortOne
  cases s.pendOut.find? (·.id == c) with
  | none => exact tracks_neutral _ _ _ rfl (by simp)
  | some pc => exact tracks_neutral _ _ _ rfl (outFail_neutral _ _ _)

theorem abortMany_tracks (cs : List Nat) : ∀ (s : State), Tracks s (abortMany s cs).1 (abortMany s cs).2 := by
  induction cs with
  | nil => intro s; exact tracks_neutral _ _ _ rfl (by simp [abortMany])
  | cons c cs ih =>
    intro s
    simp only [abortMany]
    exact tracks_trans _ _ _ _ _ (abortOne_tracks s c) (ih _)

theorem disconnect_tracks (s : State) (p : Nat) (o a : List Nat) (r : State × List Ev) (h : Inv s)
    (hd : disconnect s p o a = some r) : Tracks s r.1 r.2 := by
  rw [disconnect_eq s p o a r hd]
  exact tracks_trans _ _ _ _ _ (closeMany_tracks o s h) (abortMany_tracks a _)

/-- **One step**: every `num_established` / `other_established` / `remaining_established` value
carried by an event of the step equals the fold of the event history up to that event, and the
fold after the step is the state's per-peer connection count. -/
theorem step_tracks (s : State) (op : Op) (h : Inv s) : Tracks s (step s op).1 (step s op).2.2 := by
  cases op with
  | dial v c p a e b d r => exact dial_tracks s v c p a e b d r
  | resolve k p d => exact resolveDial_tracks s k p d
  | fail k => exact failDial_tracks s k
  | incoming d => exact incoming_tracks s d
  | resolveIn k p d => exact resolveIn_tracks s k p d
  | failIn k => exact failIn_tracks s k
  | close c => exact closeConn_tracks s c true h
  | disconnect p o a =>
    simp only [step]
    cases hd : disconnect s p o a with
    | none => exact tracks_neutral _ _ _ rfl (by simp)
    | some r => exact disconnect_tracks s p o a r h hd
  | remoteClose c => exact closeConn_tracks s c false h
  | newAddr a =>
    apply tracks_neutral _ _ _ rfl
    intro x hx; simp [step, newAddr] at hx; rcases hx with rfl | rfl <;> rfl
  | expire a =>
    apply tracks_neutral _ _ _ rfl
    intro x hx; simp [step, expireAddr] at hx; rcases hx with rfl | rfl <;> rfl
  | behClose p one o a =>
    simp only [step]
    cases one with
    | some c => exact closeConn_tracks s c true h
    | none =>
      simp only
      cases hd : disconnect s p o a with
      | none => exact tracks_neutral _ _ _ rfl (by simp)
      | some r => exact disconnect_tracks s p o a r h hd

/-- the whole trace of an operation history -/
def trace : State → List Op → List Ev
  | _, [] => []
  | s, o :: os => (step s o).2.2 ++ trace (step s o).1 os

/-- **Every history**: walking the complete event trace from the empty history, every value
carried by every connection event equals the fold of the events before it, and at the end the
fold equals the per-peer count of the connection table (which `peer_views` ties to
`is_connected` / `connected_peers`). -/
theorem event_values_agree_with_history (peerIds : List (List Nat)) (ops : List Op) :
    let s0 := State.init peerIds
    checkNums (fun _ => 0) (trace s0 ops) = (true, (ops.foldl (fun s o => (step s o).1) s0).numEst) := by
  intro s0
  have gen : ∀ (ops : List Op) (s : State), Inv s →
      checkNums s.numEst (trace s ops) = (true, (ops.foldl (fun s o => (step s o).1) s).numEst) := by
    intro ops
    induction ops with
    | nil => intro s _; rfl
    | cons o os ih =>
      intro s h
      simp only [trace, List.foldl_cons]
      rw [checkNums_append, step_tracks s o h]
      simp [ih _ (step_inv s o h)]
  have h0 : s0.numEst = fun _ => 0 := by funext p; simp [s0, State.init, State.numEst]
  rw [← h0]
  exact gen ops s0 (inv_init peerIds)

/-- non-vacuity: two connections to peer 2, one closed: the carried values are 1, 2, then 1 -/
example :
    let s0 := State.init [[0], [1], [2]]
    let ops : List Op := [.incoming false, .incoming false, .resolveIn 0 2 false, .resolveIn 1 2 false, .close 0]
    (trace s0 ops).filterMap (fun e => match e with
      | .sEstablished _ _ _ n _ => some n | .sClosed _ _ n _ => some n | _ => none) = [1, 2, 1] := by decide

end Swarm.C02

#print axioms Swarm.C02.counters_agree
#print axioms Swarm.C02.peer_views
#print axioms Swarm.C02.step_tracks
#print axioms Swarm.C02.event_values_agree_with_history
