import Libp2pModel.Model.C13
/-!
# C13 — property theorems
-/
namespace C13

/-- The property, at full strength, for every pair of addresses: `translate` returns `some r`
exactly when both first components are IP/DNS components, and then `r` is the original with
only its first component swapped for the observed one. -/
theorem translate_iff (orig obs r : Maddr) :
    translate orig obs = some r ↔
      ∃ h t h' t', orig = h :: t ∧ obs = h' :: t' ∧ isHost h = true ∧ isHost h' = true ∧ r = h' :: t := by
  constructor
  · intro hres
    unfold translate at hres
    cases orig with
    | nil => simp at hres
    | cons h t =>
      cases obs with
      | nil => by_cases hh : isHost h <;> simp [hh] at hres
      | cons h' t' =>
        by_cases hh : isHost h <;> by_cases hh' : isHost h' <;> simp [hh, hh'] at hres
        exact ⟨h, t, h', t', rfl, rfl, hh, hh', hres.symm⟩
  · rintro ⟨h, t, h', t', rfl, rfl, hh, hh', rfl⟩
    simp [translate, hh, hh']

/-- Otherwise nothing is returned. -/
theorem translate_none_iff (orig obs : Maddr) :
    translate orig obs = none ↔
      ¬ ∃ h t h' t', orig = h :: t ∧ obs = h' :: t' ∧ isHost h = true ∧ isHost h' = true := by
  constructor
  · intro hn ⟨h, t, h', t', ho, hb, hh, hh'⟩
    subst ho hb
    simp [translate, hh, hh'] at hn
  · intro hne
    cases hr : translate orig obs with
    | none => rfl
    | some r =>
      obtain ⟨h, t, h', t', ho, hb, hh, hh', _⟩ := (translate_iff orig obs r).1 hr
      exact absurd ⟨h, t, h', t', ho, hb, hh, hh'⟩ hne

/-- All components after the first are preserved, and nothing is added or dropped. -/
theorem translate_preserves_tail (orig obs r : Maddr) (h : translate orig obs = some r) :
    r.tail = orig.tail ∧ r.length = orig.length ∧ r.head? = obs.head? := by
  obtain ⟨h0, t, h', t', rfl, rfl, _, _, rfl⟩ := (translate_iff orig obs r).1 h
  simp

/-- The executable Spec (the oracle run on the implementation's outputs) accepts the model. -/
theorem spec_translate (orig obs : Maddr) : spec orig obs (translate orig obs) = true := by
  unfold spec translate
  cases orig with
  | nil => simp
  | cons h t =>
    cases obs with
    | nil => by_cases hh : isHost h <;> simp [hh]
    | cons h' t' => by_cases hh : isHost h <;> by_cases hh' : isHost h' <;> simp [hh, hh']

/-- …and it accepts nothing else: the Spec determines the result uniquely, so an implementation
output accepted by the oracle IS the model's output. -/
theorem spec_unique (orig obs : Maddr) (res : Option Maddr) (h : spec orig obs res = true) :
    res = translate orig obs := by
  unfold spec at h
  unfold translate
  cases orig with
  | nil => cases res <;> simp_all
  | cons h0 t =>
    cases obs with
    | nil => cases res <;> simp_all
    | cons h' t' =>
      cases res with
      | none => by_cases hh : isHost h0 <;> by_cases hh' : isHost h' <;> simp_all
      | some r =>
        cases r with
        | nil => simp_all
        | cons rh rt => by_cases hh : isHost h0 <;> by_cases hh' : isHost h' <;> simp_all


/-! ## algebraic consequences a caller relies on (re-observation by several peers) -/

/-- translating twice against the same observation changes nothing more (idempotent) -/
theorem translate_idem (orig obs r : Maddr) (h : translate orig obs = some r) :
    translate r obs = some r := by
  obtain ⟨h0, t, h', t', rfl, rfl, _, hh', rfl⟩ := (translate_iff _ _ r).1 h
  simp [translate, hh']

/-- last observation wins: a translation of a translation is the translation of the original —
no trace of the intermediate observation survives, in particular none of its tail -/
theorem translate_compose (orig a b r : Maddr) (h : translate orig a = some r) :
    translate r b = translate orig b := by
  obtain ⟨h0, t, h', t', rfl, rfl, hh, hh', rfl⟩ := (translate_iff _ _ r).1 h
  simp [translate, hh, hh']

/-- translating an address against itself is the identity exactly when it starts with a host -/
theorem translate_self (a : Maddr) :
    translate a a = (if (a.head?.map isHost).getD false then some a else none) := by
  cases a with
  | nil => rfl
  | cons h t => cases hh : isHost h <;> simp [translate, hh]

/-- the observed address's own tail (its port, its `/p2p`) never leaks into the result -/
theorem translate_ignores_observed_tail (orig : Maddr) (h' : Proto) (t1 t2 : Maddr) :
    translate orig (h' :: t1) = translate orig (h' :: t2) := by
  cases orig with
  | nil => rfl
  | cons h t => simp [translate]

/-- non-vacuity: a concrete translation that does happen, and one that does not -/
example : translate [.ip4 0x0A000001, .tcp 4001, .p2p [1]] [.dns6 [0x61], .udp 9] =
    some [.dns6 [0x61], .tcp 4001, .p2p [1]] := by decide
example : translate [.tcp 4001] [.ip4 1] = none := by decide
example : translate [.ip4 1, .tcp 2] [.memory 5] = none := by decide

end C13

#print axioms C13.translate_iff
#print axioms C13.translate_none_iff
#print axioms C13.translate_preserves_tail
#print axioms C13.spec_translate
#print axioms C13.spec_unique
#print axioms C13.translate_idem
#print axioms C13.translate_compose
#print axioms C13.translate_self
#print axioms C13.translate_ignores_observed_tail
