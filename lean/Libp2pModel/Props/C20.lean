import Libp2pModel.Proofs.C20
import Mathlib.Data.Nat.Digits.Defs
/-!
# C20 — property theorems (PeerId bytes/base58, inline threshold, key protobuf round trip, totality)

The byte-level theorems live in `Proofs/C20.lean` (import-free); the base58 round trip uses
Mathlib's `Nat.digits` / `Nat.ofDigits` (`Nat.ofDigits_digits`, `Nat.digits_ofDigits`).
SHA-256 is an abstract function; key-type specific validity of key bytes is an abstract parser.
-/
namespace C20

theorem digitsLE_eq (b : Nat) (hb : 2 ≤ b) (n : Nat) : digitsLE b n = Nat.digits b n := by
  induction n using Nat.strong_induction_on with
  | _ n ih =>
    unfold digitsLE
    by_cases h0 : n = 0
    · simp [h0]
    · have hpos : 0 < n := Nat.pos_of_ne_zero h0
      have : ¬ (n = 0 ∨ b < 2) := by omega
      simp only [this, ↓reduceDIte]
      rw [Nat.digits_def' (by omega) hpos, ih (n / b) (Nat.div_lt_self hpos (by omega))]

theorem ofDigitsLE_eq (b : Nat) (l : List Nat) : ofDigitsLE b l = Nat.ofDigits b l := by
  induction l with
  | nil => simp [ofDigitsLE]
  | cons d ds ih => simp [ofDigitsLE, Nat.ofDigits_cons, ih]


theorem digitsLE_ne_nil (b : Nat) (hb : 2 ≤ b) (n : Nat) (hn : n ≠ 0) : digitsLE b n ≠ [] := by
  unfold digitsLE
  have : ¬ (n = 0 ∨ b < 2) := by omega
  simp [this]

theorem digitsLE_zero (b : Nat) : digitsLE b 0 = [] := by unfold digitsLE; simp

theorem digitsLE_getLast (b : Nat) (hb : 2 ≤ b) (n : Nat) :
    ∀ h : digitsLE b n ≠ [], (digitsLE b n).getLast h ≠ 0 := by
  induction n using Nat.strong_induction_on with
  | _ n ih =>
    intro h
    by_cases h0 : n = 0
    · subst h0; exact absurd (digitsLE_zero b) h
    · have hpos : 0 < n := Nat.pos_of_ne_zero h0
      have hne : ¬ (n = 0 ∨ b < 2) := by omega
      have e : digitsLE b n = n % b :: digitsLE b (n / b) := by
        rw [digitsLE]; simp only [hne, ↓reduceDIte]
      by_cases hq : n / b = 0
      · have : digitsLE b n = [n % b] := by rw [e, hq, digitsLE_zero]
        simp only [this, List.getLast_singleton]
        have : n < b := by
          rcases Nat.div_eq_zero_iff.1 hq with h | h <;> omega
        rw [Nat.mod_eq_of_lt this]; exact h0
      · have hne2 := digitsLE_ne_nil b hb (n / b) hq
        have := ih (n / b) (Nat.div_lt_self hpos (by omega)) hne2
        simp only [e, List.getLast_cons hne2]; exact this

theorem digitsLE_lt (b : Nat) (hb : 2 ≤ b) (n : Nat) : ∀ d ∈ digitsLE b n, d < b := by
  intro d hd
  rw [digitsLE_eq b hb] at hd
  exact Nat.digits_lt_base (by omega) hd


theorem tw_append (zs D : List Nat) (hz : ∀ z ∈ zs, z = 0) (hD : ∀ h : D ≠ [], D.head h ≠ 0) :
    (zs ++ D).takeWhile (· == 0) = zs ∧ (zs ++ D).dropWhile (· == 0) = D := by
  induction zs with
  | nil =>
    cases D with
    | nil => simp
    | cons d t =>
      have : d ≠ 0 := hD (by simp)
      simp [this]
  | cons z t ih =>
    have hz0 : z = 0 := hz z (by simp)
    have := ih (fun x hx => hz x (by simp [hx]))
    subst hz0
    simp [this.1, this.2]

theorem tw_all_zero (ds : List Nat) : ∀ z ∈ ds.takeWhile (· == 0), z = 0 := by
  induction ds with
  | nil => simp
  | cons d t ih =>
    intro z hz
    by_cases hd : d = 0
    · subst hd
      simp only [List.takeWhile_cons, beq_self_eq_true, ↓reduceIte, List.mem_cons] at hz
      rcases hz with rfl | hz
      · rfl
      · exact ih z hz
    · simp [hd] at hz

theorem dw_head (ds : List Nat) : ∀ h : ds.dropWhile (· == 0) ≠ [], (ds.dropWhile (· == 0)).head h ≠ 0 := by
  induction ds with
  | nil => intro h; simp at h
  | cons d t ih =>
    intro h
    by_cases hd : d = 0
    · subst hd
      simp only [List.dropWhile_cons, beq_self_eq_true, ↓reduceIte] at h ⊢
      exact ih h
    · simp [hd]

/-- positional notation round trip on big-endian digit strings with leading zeros -/
theorem rebase_rebase (a b : Nat) (ha : 2 ≤ a) (hb : 2 ≤ b) (ds : List Nat) (hds : ∀ d ∈ ds, d < a) :
    rebase b a (rebase a b ds) = ds := by
  have hrest_lt : ∀ d ∈ (ds.dropWhile (· == 0)).reverse, d < a := by
    intro d hd
    exact hds d ((List.dropWhile_sublist _).subset (List.mem_reverse.1 hd))
  have hD : ∀ h : (digitsLE b (ofDigitsLE a (ds.dropWhile (· == 0)).reverse)).reverse ≠ [],
      (digitsLE b (ofDigitsLE a (ds.dropWhile (· == 0)).reverse)).reverse.head h ≠ 0 := by
    intro h
    rw [List.head_reverse]
    exact digitsLE_getLast b hb _ _
  have htw := tw_append _ _ (tw_all_zero ds) hD
  unfold rebase
  simp only [htw.1, htw.2, List.reverse_reverse]
  rw [ofDigitsLE_eq b, digitsLE_eq b hb, Nat.ofDigits_digits, ofDigitsLE_eq a, digitsLE_eq a ha,
    Nat.digits_ofDigits a (by omega) _ hrest_lt, List.reverse_reverse, List.takeWhile_append_dropWhile]
  intro h
  rw [List.getLast_reverse]
  exact dw_head ds _


theorem digitOf_charOf : ∀ d, d < 58 → digitOf (charOf d) = some d := by decide

theorem mapM_digitOf (ds : List Nat) (h : ∀ d ∈ ds, d < 58) : (ds.map charOf).mapM digitOf = some ds := by
  induction ds with
  | nil => rfl
  | cons d t ih =>
    have h1 := digitOf_charOf d (h d (by simp))
    have h2 := ih (fun x hx => h x (by simp [hx]))
    simp [List.mapM_cons, h1, h2]

theorem b58digits_lt (bytes : List Nat) : ∀ d ∈ b58digits bytes, d < 58 := by
  intro d hd
  unfold b58digits rebase at hd
  simp only [List.mem_append, List.mem_reverse] at hd
  rcases hd with hd | hd
  · have := tw_all_zero bytes d hd; omega
  · exact digitsLE_lt 58 (by omega) _ d hd

/-- **base58 round trip**: decoding the base58 text of any byte string gives the byte string back. -/
theorem base58_roundtrip (bytes : List Nat) (hb : ∀ b ∈ bytes, b < 256) :
    b58decode (b58encode bytes) = some bytes := by
  unfold b58decode b58encode
  rw [mapM_digitOf _ (b58digits_lt bytes)]
  simp only [Option.map_some, b58undigits, b58digits]
  rw [rebase_rebase 256 58 (by omega) (by omega) bytes hb]

/-- and through `PeerId`: `from_str (to_base58 p) = p` for every valid peer id -/
theorem peerid_base58_roundtrip (p : Mh) (h : validPeerId p = true) (hd : ∀ b ∈ p.digest, b < 256)
    (hrt : fromBytes (toBytes p) = .ok p) : fromStr (toBase58 p) = .ok p := by
  unfold fromStr toBase58
  have hb : ∀ b ∈ toBytes p, b < 256 := by
    intro b hbm
    have hv : (p.code = 0x12 ∧ p.digest.length ≤ 64) ∨ (p.code = 0 ∧ p.digest.length ≤ 42) := by
      simpa [validPeerId, SHA256, IDENTITY] using h
    simp only [toBytes, mhToBytes, List.mem_append] at hbm
    rcases hbm with (hbm | hbm) | hbm
    · exact Varint.encode_bytes_lt _ b hbm
    · exact Varint.encode_bytes_lt _ b hbm
    · exact hd b hbm
  rw [base58_roundtrip _ hb]
  exact hrt


/-- unconditional form: byte and base58 round trips of every valid peer id -/
theorem peerid_roundtrip (p : Mh) (h : validPeerId p = true) (hd : ∀ b ∈ p.digest, b < 256) :
    fromBytes (toBytes p) = .ok p ∧ fromStr (toBase58 p) = .ok p :=
  ⟨peerid_bytes_roundtrip p h, peerid_base58_roundtrip p h hd (peerid_bytes_roundtrip p h)⟩

/-! ## the executable Spec accepts the model -/

/-- The strict Spec accepts the model on every input EXCEPT the over-long-varint class
(`isOverlong`, the known finding `overlong_varint_accepted`); `peerid_accepts_canonical` shows that
class is the only exception, so the hypothesis excludes nothing else. -/
theorem specFromBytes_model_partial (bs : List Nat) (hb : ∀ b ∈ bs, b < 256)
    (hno : isOverlong bs (fromBytes bs) = false) :
    specFromBytes bs (fromBytes bs) = true := by
  unfold specFromBytes
  unfold isOverlong at hno
  cases h : fromBytes bs with
  | ok p =>
    have h1 := peerid_accepts_only bs p h
    rcases peerid_accepts_canonical bs hb p h with h2 | h2
    · simp [h1, h2]
    · rw [h] at hno
      simp only [h1, Bool.true_and, Bool.and_eq_false_iff, bne_eq_false_iff_eq, decide_eq_false_iff_not] at hno
      rcases hno with hno | hno
      · simp [h1, hno]
      · exact absurd h2 hno
  | error e =>
    match bs with
    | [] => rfl
    | [_] => rfl
    | c :: s :: dig =>
      simp only [Bool.not_eq_true', Bool.and_eq_false_iff, Bool.or_eq_false_iff, beq_eq_false_iff_ne, ne_eq]
      by_cases hv : validPeerId ⟨c, dig⟩ = true
      · by_cases hs : s = dig.length
        · exfalso
          have := peerid_bytes_roundtrip ⟨c, dig⟩ hv
          rw [toBytes_valid _ hv] at this
          simp only at this
          rw [← hs, h] at this
          simp at this
        · simp [hs]
      · simp [hv]

theorem specRoundTrip_model (p : Mh) (h : validPeerId p = true) (hd : ∀ b ∈ p.digest, b < 256) :
    specRoundTrip p (toBytes p) (fromBytes (toBytes p)) (toBase58 p) (fromStr (toBase58 p)) = true := by
  obtain ⟨h1, h2⟩ := peerid_roundtrip p h hd
  simp [specRoundTrip, resIs, h1, h2]

/-! ## non-vacuity -/
example : fromBytes [0x12, 2, 7, 9] = .ok ⟨0x12, [7, 9]⟩ := by decide
example : fromBytes [0x00, 1, 7] = .ok ⟨0, [7]⟩ := by decide
example : fromBytes [0x13, 1, 7] = .error (.unsupportedCode 0x13) := by decide
example : fromBytes [0x12, 2, 7] = .error .invalidMultihash := by decide
/-- the truncation: a 10-byte varint whose high bits are dropped decodes to code 0x12; the strict
Spec rejects it and classifies it as over-long (the known finding) -/
example : fromBytes [0x92, 0x80, 0x80, 0x80, 0x80, 0x80, 0x80, 0x80, 0x80, 0x02, 1, 7] = .ok ⟨0x12, [7]⟩ := by decide
theorem overlong_counterexample :
    let bs := [0x92, 0x80, 0x80, 0x80, 0x80, 0x80, 0x80, 0x80, 0x80, 0x02, 1, 7]
    specFromBytes bs (fromBytes bs) = false ∧ isOverlong bs (fromBytes bs) = true := by
  have h : fromBytes [0x92, 0x80, 0x80, 0x80, 0x80, 0x80, 0x80, 0x80, 0x80, 0x02, 1, 7] = .ok ⟨0x12, [7]⟩ := by decide
  have hv : validPeerId ⟨0x12, [7]⟩ = true := by decide
  have ht := toBytes_valid ⟨0x12, [7]⟩ hv
  simp only [specFromBytes, isOverlong, h, hv, ht]
  decide
example : b58decode (b58encode [0, 0, 1]) = some [0, 0, 1] := base58_roundtrip _ (by decide)
example : decodeKeyMsg (encodeKeyMsg 1 [1, 2, 3]) = some ⟨1, [1, 2, 3]⟩ := keymsg_roundtrip 1 (by decide) _ (by decide)

end C20

#print axioms C20.peerid_bytes_roundtrip
#print axioms C20.peerid_accepts_only
#print axioms C20.peerid_accepts_canonical
#print axioms C20.base58_roundtrip
#print axioms C20.peerid_roundtrip
#print axioms C20.inline_threshold
#print axioms C20.fromPublicKey_valid
#print axioms C20.keymsg_roundtrip
#print axioms C20.key_proto_roundtrip
#print axioms C20.decode_total
#print axioms C20.specFromBytes_model_partial
#print axioms C20.overlong_counterexample
#print axioms C20.specRoundTrip_model
