import Libp2pModel.Proofs.SwarmInv
import Libp2pModel.Model.SwarmLife
/-!
# C01 — Connection lifecycle events are paired and exactly-once

Statement (properties.jsonl): every connection id the Swarm hands out ends in exactly one of
ConnectionEstablished, OutgoingConnectionError or IncomingConnectionError, and a ConnectionClosed is
reported exactly once and only for a connection that was previously reported established. The
NetworkBehaviour sees the same lifecycle through FromSwarm in the same order as the SwarmEvent stream.

Main theorem `lifecycle_accepts_every_history`: the life-cycle monitor `Swarm.Life` (the executable
Spec that the check also runs on the implementation's ordered event log) accepts the ordered
event trace of EVERY operation history of the model, and its status map after the history is
exactly the status of the model's tables.
-/
namespace Swarm.C01
open Swarm Swarm.Life

/-- the life-cycle status of id `c` as recorded in the model's tables -/
def stOf (s : State) (c : Nat) : LSt :=
  if c ∈ idsO s then .pendOut
  else if c ∈ idsI s then .pendIn
  else if c ∈ idsE s then .est
  else if c < s.nextId then .done
  else .fresh

/-- a complete segment: starting with nothing awaited, the monitor accepts `evs` and ends with
nothing awaited, in the status of `s'` -/
def Lives (s s' : State) (evs : List Ev) : Prop :=
  feedAll ⟨stOf s, none⟩ evs = some ⟨stOf s', none⟩

theorem feedAll_append (a b : List Ev) : ∀ m, feedAll m (a ++ b) = (feedAll m a).bind (fun m' => feedAll m' b) := by
  induction a with
  | nil => intro m; simp [feedAll]
  | cons e t ih =>
    intro m
    simp only [List.cons_append, feedAll]
    cases feed m e with
    | none => simp
    | some m' => simp [ih]

theorem lives_trans (s s1 s2 : State) (e1 e2 : List Ev) (h1 : Lives s s1 e1) (h2 : Lives s1 s2 e2) :
    Lives s s2 (e1 ++ e2) := by
  unfold Lives at *
  rw [feedAll_append, h1]; simpa using h2

/-- events the monitor ignores -/
def quiet : Ev → Bool
  | .bPendingOut .. | .bPendingIn .. | .bEstablished .. | .bClosed .. | .bDialFailure .. | .bListenFailure ..
  | .sEstablished .. | .sClosed .. | .sOutgoingError .. | .sIncomingError .. => false
  | _ => true

theorem feed_quiet (m : LM) (e : Ev) (h : quiet e = true) : feed m e = some m := by
  cases e <;> simp [quiet] at h <;> rfl

theorem feedAll_quiet (l : List Ev) (h : l.all quiet = true) : ∀ m, feedAll m l = some m := by
  induction l with
  | nil => intro m; rfl
  | cons e t ih =>
    intro m
    simp only [List.all_cons, Bool.and_eq_true] at h
    simp [feedAll, feed_quiet m e h.1, ih h.2]

theorem lives_quiet (s s' : State) (evs : List Ev) (hs : stOf s' = stOf s) (h : evs.all quiet = true) :
    Lives s s' evs := by
  unfold Lives; rw [feedAll_quiet evs h, hs]

theorem lives_append_quiet (s s' : State) (evs tl : List Ev) (h : Lives s s' evs) (ht : tl.all quiet = true) :
    Lives s s' (evs ++ tl) := by
  unfold Lives at *
  rw [feedAll_append, h]; simp [feedAll_quiet tl ht]

theorem lives_cons_quiet (s s' : State) (e : Ev) (evs : List Ev) (he : quiet e = true) (h : Lives s s' evs) :
    Lives s s' (e :: evs) := by
  unfold Lives at *
  simp [feedAll, feed_quiet _ e he, h]

/-! ### status of the tables after each primitive transition -/

theorem mem_filter_ne {α : Type} (f : α → Nat) (l : List α) (c x : Nat) :
    x ∈ (l.filter (fun y => f y != c)).map f ↔ x ∈ l.map f ∧ x ≠ c := by
  simp only [List.mem_map, List.mem_filter]
  constructor
  · rintro ⟨y, ⟨hy, hne⟩, rfl⟩; exact ⟨⟨y, hy, rfl⟩, by simpa [bne] using hne⟩
  · rintro ⟨⟨y, hy, rfl⟩, hne⟩; exact ⟨y, ⟨hy, by simpa [bne] using hne⟩, rfl⟩

/-- to show `stOf s' = upd (stOf s) c v`: the tables agree away from `c`, and `c` has status `v` -/
theorem stOf_upd (s s' : State) (c : Nat) (v : LSt)
    (hO : ∀ x, x ≠ c → (x ∈ idsO s' ↔ x ∈ idsO s)) (hI : ∀ x, x ≠ c → (x ∈ idsI s' ↔ x ∈ idsI s))
    (hE : ∀ x, x ≠ c → (x ∈ idsE s' ↔ x ∈ idsE s)) (hN : ∀ x, x ≠ c → (x < s'.nextId ↔ x < s.nextId))
    (hc : stOf s' c = v) : stOf s' = upd (stOf s) c v := by
  funext x
  unfold upd
  by_cases hx : x = c
  · subst hx; simp [hc]
  · simp only [hx, ↓reduceIte]
    unfold stOf
    simp only [hO x hx, hI x hx, hE x hx, hN x hx]

theorem stOf_removePendOut (s : State) (c : Nat) (h : Inv s) (hc : c ∈ idsO s) :
    stOf (removePendOut s c) = upd (stOf s) c .done := by
  obtain ⟨_, hO, hI, hE, hlt⟩ := removePendOut_inv s c h hc
  apply stOf_upd
  · intro x hx; unfold idsO removePendOut; simp only; rw [mem_filter_ne]; simp [hx]
  · intro x _; rfl
  · intro x _; rfl
  · intro x _; rfl
  · unfold stOf
    have h2 : c ∉ idsI (removePendOut s c) := hI
    have h3 : c ∉ idsE (removePendOut s c) := hE
    have h4 : c < (removePendOut s c).nextId := hlt
    simp [hO, h2, h3, h4]

theorem stOf_removePendIn (s : State) (c : Nat) (h : Inv s) (hc : c ∈ idsI s) :
    stOf (removePendIn s c) = upd (stOf s) c .done := by
  obtain ⟨_, hI, hO, hE, hlt⟩ := removePendIn_inv s c h hc
  apply stOf_upd
  · intro x _; rfl
  · intro x hx; unfold idsI removePendIn; simp only; rw [mem_filter_ne]; simp [hx]
  · intro x _; rfl
  · intro x _; rfl
  · unfold stOf
    have h1 : c ∉ idsO (removePendIn s c) := hO
    have h3 : c ∉ idsE (removePendIn s c) := hE
    have h4 : c < (removePendIn s c).nextId := hlt
    simp [hI, h1, h3, h4]

theorem stOf_establish (s : State) (id p : Nat) (o md : Bool) (mk : Nat) (f : List Maddr)
    (hO : id ∉ idsO s) (hI : id ∉ idsI s) :
    stOf (establish s id p o md mk f).1 = upd (stOf s) id .est := by
  have hE' : idsE (establish s id p o md mk f).1 = idsE s ++ [id] := by simp [idsE, establish]
  apply stOf_upd
  · intro x _; rfl
  · intro x _; rfl
  · intro x hx; rw [hE']; simp [hx]
  · intro x _; rfl
  · unfold stOf
    have h1 : id ∉ idsO (establish s id p o md mk f).1 := hO
    have h2 : id ∉ idsI (establish s id p o md mk f).1 := hI
    simp [h1, h2, hE']

theorem upd_upd (m : Nat → LSt) (c : Nat) (v w : LSt) : upd (upd m c v) c w = upd m c w := by
  funext x; unfold upd; by_cases h : x = c <;> simp [h]

theorem stOf_mem_O (s : State) (c : Nat) (h : c ∈ idsO s) : stOf s c = .pendOut := by simp [stOf, h]
theorem stOf_mem_I (s : State) (c : Nat) (hs : Inv s) (h : c ∈ idsI s) : stOf s c = .pendIn := by
  have : c ∉ idsO s := fun hO => hs.dOI c hO h
  simp [stOf, h, this]
theorem stOf_mem_E (s : State) (c : Nat) (hs : Inv s) (h : c ∈ idsE s) : stOf s c = .est := by
  have h1 : c ∉ idsO s := fun hO => hs.dOE c hO h
  have h2 : c ∉ idsI s := fun hI => hs.dIE c hI h
  simp [stOf, h, h1, h2]
theorem stOf_fresh (s : State) (hs : Inv s) : stOf s s.nextId = .fresh := by
  have h1 : s.nextId ∉ idsO s := fun hm => Nat.lt_irrefl _ (hs.frO _ hm)
  have h2 : s.nextId ∉ idsI s := fun hm => Nat.lt_irrefl _ (hs.frI _ hm)
  have h3 : s.nextId ∉ idsE s := fun hm => Nat.lt_irrefl _ (hs.frE _ hm)
  simp [stOf, h1, h2, h3]

/-! ### the three event shapes -/

theorem feed_outFail (m : Nat → LSt) (id : Nat) (p : Option Nat) (e : DialErr) (h : m id = .pendOut) :
    feedAll ⟨m, none⟩ (outFailEvents id p e) = some ⟨upd m id .done, none⟩ := by
  simp [outFailEvents, feedAll, feed, h]

theorem feed_inFail (m : Nat → LSt) (id : Nat) (p : Option Nat) (e : ListenErr) (h : m id = .pendIn) :
    feedAll ⟨m, none⟩ (inFailEvents id p e) = some ⟨upd m id .done, none⟩ := by
  simp [inFailEvents, feedAll, feed, h]

theorem feed_establish (m : Nat → LSt) (s : State) (id p : Nat) (o md : Bool) (mk : Nat) (f : List Maddr)
    (h : m id = (if o then .pendOut else .pendIn)) :
    feedAll ⟨m, none⟩ (establish s id p o md mk f).2 = some ⟨upd m id .est, none⟩ := by
  simp [establish, feedAll, feed, h]

/-! ### the primitive transitions -/

theorem resolveDial_lives (s : State) (k p : Nat) (d : Bool) (h : Inv s) :
    Lives s (resolveDial s k p d).1 (resolveDial s k p d).2 := by
  unfold resolveDial
  cases hf : findPendOut s.pendOut k with
  | none => exact lives_quiet _ _ _ rfl rfl
  | some pc =>
    have hmem : pc.id ∈ idsO s := List.mem_map_of_mem (findPendOut_mem _ _ _ hf)
    obtain ⟨hinv, hO, hI, hE, hlt⟩ := removePendOut_inv s pc.id h hmem
    have hst := stOf_removePendOut s pc.id h hmem
    have hpo := stOf_mem_O s pc.id hmem
    simp only
    have hfail : ∀ (pp : Option Nat) (e : DialErr),
        Lives s (removePendOut s pc.id) (outFailEvents pc.id pp e ++ [Ev.muxClosed true k]) := by
      intro pp e
      apply lives_append_quiet _ _ _ _ _ rfl
      unfold Lives; rw [feed_outFail _ _ _ _ hpo, hst]
    cases checkPeerId pc.peer p (removePendOut s pc.id).localPeer with
    | wrongPeerId => exact hfail _ _
    | localPeerId => exact hfail _ _
    | ok =>
      cases d with
      | true => exact lives_cons_quiet _ _ _ _ rfl (hfail _ _)
      | false =>
        apply lives_cons_quiet _ _ _ _ rfl
        unfold Lives
        have h2 := stOf_establish (removePendOut s pc.id) pc.id p true true k (pc.errors.map (·.1)) hO hI
        have h1 := feed_establish (stOf s) (removePendOut s pc.id) pc.id p true true k (pc.errors.map (·.1)) (by simp [hpo])
        show feedAll _ _ = some ⟨stOf (establish (removePendOut s pc.id) pc.id p true true k (pc.errors.map (·.1))).1, none⟩
        rw [h2, hst, upd_upd]
        exact h1

theorem resolveIn_lives (s : State) (k p : Nat) (d : Bool) (h : Inv s) :
    Lives s (resolveIn s k p d).1 (resolveIn s k p d).2 := by
  unfold resolveIn
  cases hf : s.pendIn.find? (·.k == k) with
  | none => exact lives_quiet _ _ _ rfl rfl
  | some pc =>
    have hmem : pc.id ∈ idsI s := List.mem_map_of_mem (List.mem_of_find?_eq_some hf)
    obtain ⟨hinv, hI, hO, hE, hlt⟩ := removePendIn_inv s pc.id h hmem
    have hst := stOf_removePendIn s pc.id h hmem
    have hpi := stOf_mem_I s pc.id h hmem
    simp only
    have hfail : ∀ (pp : Option Nat) (e : ListenErr),
        Lives s (removePendIn s pc.id) (inFailEvents pc.id pp e ++ [Ev.muxClosed false k]) := by
      intro pp e
      apply lives_append_quiet _ _ _ _ _ rfl
      unfold Lives; rw [feed_inFail _ _ _ _ hpi, hst]
    cases hc : checkPeerId none p (removePendIn s pc.id).localPeer with
    | wrongPeerId =>
      exfalso
      revert hc
      unfold checkPeerId
      simp only
      split <;> simp
    | localPeerId => exact hfail _ _
    | ok =>
      cases d with
      | true => exact lives_cons_quiet _ _ _ _ rfl (hfail _ _)
      | false =>
        apply lives_cons_quiet _ _ _ _ rfl
        unfold Lives
        have h2 := stOf_establish (removePendIn s pc.id) pc.id p false false k [] hO hI
        have h1 := feed_establish (stOf s) (removePendIn s pc.id) pc.id p false false k [] (by simp [hpi])
        show feedAll _ _ = some ⟨stOf (establish (removePendIn s pc.id) pc.id p false false k []).1, none⟩
        rw [h2, hst, upd_upd]
        exact h1

theorem failDial_lives (s : State) (k : Nat) (h : Inv s) : Lives s (failDial s k).1 (failDial s k).2 := by
  unfold failDial
  cases hf : findPendOut s.pendOut k with
  | none => exact lives_quiet _ _ _ rfl rfl
  | some pc =>
    have hmem : pc.id ∈ idsO s := List.mem_map_of_mem (findPendOut_mem _ _ _ hf)
    simp only
    split
    · unfold Lives
      rw [feed_outFail _ _ _ _ (stOf_mem_O s pc.id hmem), stOf_removePendOut s pc.id h hmem]
    · apply lives_quiet _ _ _ _ rfl
      -- ids unchanged: only `inflight` / `errors` of one entry change
      have hmap : ∀ (l : List PendingOut) (g : PendingOut → PendingOut), (∀ q, (g q).id = q.id) →
          (l.map g).map (·.id) = l.map (·.id) := by
        intro l g hg; induction l with
        | nil => rfl
        | cons a t ih => simp [hg, ih]
      funext x
      unfold stOf idsO idsI idsE
      simp only
      rw [hmap s.pendOut _ (by intro q; split <;> rfl)]

theorem failIn_lives (s : State) (k : Nat) (h : Inv s) : Lives s (failIn s k).1 (failIn s k).2 := by
  unfold failIn
  cases hf : s.pendIn.find? (·.k == k) with
  | none => exact lives_quiet _ _ _ rfl rfl
  | some pc =>
    have hmem : pc.id ∈ idsI s := List.mem_map_of_mem (List.mem_of_find?_eq_some hf)
    unfold Lives
    rw [feed_inFail _ _ _ _ (stOf_mem_I s pc.id h hmem), stOf_removePendIn s pc.id h hmem]

theorem closeConn_lives (s : State) (c : Nat) (g : Bool) (h : Inv s) :
    Lives s (closeConn s c g).1 (closeConn s c g).2 := by
  unfold closeConn
  cases hf : s.est.find? (·.id == c) with
  | none => exact lives_quiet _ _ _ rfl rfl
  | some e =>
    obtain ⟨hmem, hid⟩ := find?_id_mem (fun x : Est => x.id) s.est c e hf
    have hc : c ∈ idsE s := hid ▸ List.mem_map_of_mem hmem
    have hest := stOf_mem_E s c h hc
    have hst : ∀ (ci co : Nat), stOf ({ s with est := s.est.filter (·.id != c), cEO := co, cEI := ci } : State)
        = upd (stOf s) c .done := by
      intro ci co
      apply stOf_upd
      · intro x _; rfl
      · intro x _; rfl
      · intro x hx; unfold idsE; simp only; rw [mem_filter_ne]; simp [hx]
      · intro x _; rfl
      · unfold stOf
        have h1 : c ∉ idsO s := fun hO => h.dOE c hO hc
        have h2 : c ∉ idsI s := fun hI => h.dIE c hI hc
        have h3 : c ∉ (s.est.filter (·.id != c)).map (·.id) := filter_ne_not_mem (fun x : Est => x.id) s.est c
        have h4 : c < s.nextId := h.frE c hc
        simp only [idsO, idsI, idsE] at h1 h2 ⊢
        simp [h1, h2, h3, h4]
    simp only
    unfold Lives
    rw [hst]
    cases g <;> simp [feedAll, feed, hest]

theorem closeMany_lives (cs : List Nat) : ∀ (s : State), Inv s → Lives s (closeMany s cs).1 (closeMany s cs).2 := by
  induction cs with
  | nil => intro s _; exact lives_quiet _ _ _ rfl rfl
  | cons c cs ih =>
    intro s h
    simp only [closeMany]
    exact lives_trans _ _ _ _ _ (closeConn_lives s c true h) (ih _ (closeConn_inv s c true h))

theorem abortOne_lives (s : State) (c : Nat) (h : Inv s) : Lives s (abortOne s c).1 (abortOne s c).2 := by
  unfold abortOne
  cases hf : s.pendOut.find? (·.id == c) with
  | none => exact lives_quiet _ _ _ rfl rfl
  | some pc =>
    obtain ⟨hmem, hid⟩ := find?_id_mem (fun x : PendingOut => x.id) s.pendOut c pc hf
    have hc : c ∈ idsO s := hid ▸ List.mem_map_of_mem hmem
    unfold Lives
    rw [feed_outFail _ _ _ _ (stOf_mem_O s c hc), stOf_removePendOut s c h hc]

theorem abortMany_lives (cs : List Nat) : ∀ (s : State), Inv s → Lives s (abortMany s cs).1 (abortMany s cs).2 := by
  induction cs with
  | nil => intro s _; exact lives_quiet _ _ _ rfl rfl
  | cons c cs ih =>
    intro s h
    simp only [abortMany]
    exact lives_trans _ _ _ _ _ (abortOne_lives s c h) (ih _ (abortOne_inv s c h))

theorem disconnect_lives (s : State) (p : Nat) (o a : List Nat) (r : State × List Ev) (h : Inv s)
    (hd : disconnect s p o a = some r) : Lives s r.1 r.2 := by
  rw [disconnect_eq s p o a r hd]
  exact lives_trans _ _ _ _ _ (closeMany_lives o s h) (abortMany_lives a _ (closeMany_inv o s h))

/-- an id handed out in this step: `nextId` moves on, the tables do not change -/
theorem stOf_consume (s s' : State) (h : Inv s)
    (h1 : s'.pendOut = s.pendOut) (h2 : s'.pendIn = s.pendIn) (h3 : s'.est = s.est)
    (h4 : s'.nextId = s.nextId + 1) : stOf s' = upd (stOf s) s.nextId .done := by
  have hO : s.nextId ∉ idsO s := fun hm => Nat.lt_irrefl _ (h.frO _ hm)
  have hI : s.nextId ∉ idsI s := fun hm => Nat.lt_irrefl _ (h.frI _ hm)
  have hE : s.nextId ∉ idsE s := fun hm => Nat.lt_irrefl _ (h.frE _ hm)
  apply stOf_upd
  · intro x _; simp [idsO, h1]
  · intro x _; simp [idsI, h2]
  · intro x _; simp [idsE, h3]
  · intro x hx; rw [h4]; omega
  · unfold stOf
    simp only [idsO, idsI, idsE, h1, h2, h3, h4] at hO hI hE ⊢
    simp [hO, hI, hE]


/-- one whole step: the monitor accepts the step's events, and at the end of the step (Swarm idle)
its status map is the status of the new tables -/
def StepOK (s s' : State) (evs : List Ev) : Prop :=
  (feedAll ⟨stOf s, none⟩ evs).bind endStep = some ⟨stOf s', none⟩

theorem stepOK_of_lives (s s' : State) (evs : List Ev) (h : Lives s s' evs) : StepOK s s' evs := by
  unfold StepOK; unfold Lives at h; rw [h]; rfl

theorem planDials_quiet (s : State) (peer : Option Nat) (r : List Maddr) : ∀ (l : List Maddr) (nd : Nat),
    (planDials s peer r l nd).events.all quiet = true := by
  intro l
  induction l with
  | nil => intro nd; simp [planDials]
  | cons a t ih =>
    intro nd
    unfold planDials
    cases hsx : dialSuffix s peer a with
    | none => simp only; exact ih nd
    | some a' => simp only; split <;> simp [quiet, ih]

theorem dialRejected_stepOK (s : State) (v : Bool) (e : DialErr) (peer : Option Nat) (pre : List Ev) (h : Inv s)
    (hpre : pre = [] ∨ ∃ d, pre = [Ev.bPendingOut s.nextId d]) :
    StepOK s (dialRejected s v s.nextId e (pre ++ [Ev.bDialFailure s.nextId peer e])).1
      (dialRejected s v s.nextId e (pre ++ [Ev.bDialFailure s.nextId peer e])).2.2 := by
  unfold StepOK dialRejected
  simp only
  have hcons : stOf ({ s with nextId := s.nextId + 1 } : State) = upd (stOf s) s.nextId .done :=
    stOf_consume s _ h rfl rfl rfl rfl
  rw [hcons]
  have hf := stOf_fresh s h
  rcases hpre with rfl | ⟨d, rfl⟩
  · simp [feedAll, feed, endStep, hf]
  · simp [feedAll, feed, endStep, hf, upd, upd_upd]

theorem dial_stepOK (s : State) (v : Bool) (c : Cond) (p : Option Nat) (a : List Maddr) (e : Bool)
    (b : List Maddr) (d : Bool) (r : List Maddr) (h : Inv s) :
    StepOK s (dial s v c p a e b d r).1 (dial s v c p a e b d r).2.2 := by
  unfold dial
  cases dialPeer s p a with
  | none => exact stepOK_of_lives _ _ _ (lives_quiet _ _ _ rfl rfl)
  | some peer =>
    simp only
    split
    · exact dialRejected_stepOK s v .condFalse peer [] h (Or.inl rfl)
    · split
      · exact dialRejected_stepOK s v .denied peer [Ev.bPendingOut s.nextId true] h (Or.inr ⟨true, rfl⟩)
      · split
        · exact dialRejected_stepOK s v .noAddresses peer [Ev.bPendingOut s.nextId false] h (Or.inr ⟨false, rfl⟩)
        · apply stepOK_of_lives
          unfold dialAccepted
          simp only
          have hf := stOf_fresh s h
          have hq : ∀ (l : List Maddr),
              ((planDials s peer r l s.nextDial).events ++ (if v = true then [Ev.sDialing s.nextId peer] else [])).all quiet = true := by
            intro l
            rw [List.all_append, planDials_quiet]
            cases v <;> simp [quiet]
          split
          · -- every dial future fails at once
            unfold Lives
            have hcons : ∀ nd, stOf ({ s with nextId := s.nextId + 1, nextDial := nd } : State) = upd (stOf s) s.nextId .done :=
              fun nd => stOf_consume s _ h rfl rfl rfl rfl
            rw [hcons]
            simp only [List.cons_append, feedAll, feed, hf, and_self, ↓reduceIte, Option.bind_some]
            rw [feedAll_append, feedAll_quiet _ (hq _)]
            simp only [Option.bind_some]
            rw [feed_outFail _ _ _ _ (by simp [upd]), upd_upd]
          · -- a new pending outgoing connection
            unfold Lives
            simp only [List.cons_append, feedAll, feed, hf, and_self, ↓reduceIte, Option.bind_some]
            rw [feedAll_quiet _ (hq _)]
            congr 2
            symm
            have hO : s.nextId ∉ idsO s := fun hm => Nat.lt_irrefl _ (h.frO _ hm)
            apply stOf_upd
            · intro x hx
              simp only [idsO, List.map_append, List.map_cons, List.map_nil, List.mem_append, List.mem_singleton]
              simp [hx]
            · intro x _; rfl
            · intro x _; rfl
            · intro x hx; show x < s.nextId + 1 ↔ x < s.nextId; omega
            · unfold stOf
              simp [idsO]

theorem incoming_lives (s : State) (d : Bool) (h : Inv s) : Lives s (incoming s d).1 (incoming s d).2 := by
  unfold incoming
  simp only
  have hf := stOf_fresh s h
  split
  · unfold Lives
    have hcons : stOf ({ s with nextId := s.nextId + 1, nextIncoming := s.nextIncoming + 1 } : State)
        = upd (stOf s) s.nextId .done := stOf_consume s _ h rfl rfl rfl rfl
    rw [hcons]
    simp only [feedAll, feed, hf, and_self, ↓reduceIte, Option.bind_some]
    rw [feed_inFail _ _ _ _ (by simp [upd]), upd_upd]
  · unfold Lives
    simp only [feedAll, feed, hf, and_self, ↓reduceIte, Option.bind_some]
    congr 2
    symm
    apply stOf_upd
    · intro x _; rfl
    · intro x hx
      simp only [idsI, List.map_append, List.map_cons, List.map_nil, List.mem_append, List.mem_singleton]
      simp [hx]
    · intro x _; rfl
    · intro x hx; show x < s.nextId + 1 ↔ x < s.nextId; omega
    · unfold stOf
      have hO : s.nextId ∉ s.pendOut.map (·.id) := fun hm => Nat.lt_irrefl _ (h.frO _ hm)
      simp [idsO, idsI, hO]

/-- **One step**: the life-cycle monitor accepts the ordered events of every transition taken from
a state satisfying the bookkeeping invariant, and ends in the status of the new tables. -/
theorem step_lifecycle (s : State) (op : Op) (h : Inv s) : StepOK s (step s op).1 (step s op).2.2 := by
  cases op with
  | dial v c p a e b d r => exact dial_stepOK s v c p a e b d r h
  | resolve k p d => exact stepOK_of_lives _ _ _ (resolveDial_lives s k p d h)
  | fail k => exact stepOK_of_lives _ _ _ (failDial_lives s k h)
  | incoming d => exact stepOK_of_lives _ _ _ (incoming_lives s d h)
  | resolveIn k p d => exact stepOK_of_lives _ _ _ (resolveIn_lives s k p d h)
  | failIn k => exact stepOK_of_lives _ _ _ (failIn_lives s k h)
  | close c => exact stepOK_of_lives _ _ _ (closeConn_lives s c true h)
  | disconnect p o a =>
    simp only [step]
    cases hd : disconnect s p o a with
    | none => exact stepOK_of_lives _ _ _ (lives_quiet _ _ _ rfl rfl)
    | some r => exact stepOK_of_lives _ _ _ (disconnect_lives s p o a r h hd)
  | remoteClose c => exact stepOK_of_lives _ _ _ (closeConn_lives s c false h)
  | newAddr a => exact stepOK_of_lives _ _ _ (lives_quiet _ _ _ rfl rfl)
  | expire a => exact stepOK_of_lives _ _ _ (lives_quiet _ _ _ rfl rfl)
  | behClose p one o a =>
    simp only [step]
    cases one with
    | some c => exact stepOK_of_lives _ _ _ (closeConn_lives s c true h)
    | none =>
      simp only
      cases hd : disconnect s p o a with
      | none => exact stepOK_of_lives _ _ _ (lives_quiet _ _ _ rfl rfl)
      | some r => exact stepOK_of_lives _ _ _ (disconnect_lives s p o a r h hd)

/-- the whole ordered event trace of an operation history -/
def C02trace : State → List Op → List Ev
  | _, [] => []
  | s, o :: os => (step s o).2.2 ++ C02trace (step s o).1 os

/-- run the monitor over a history, step by step (as the check does on the implementation's log) -/
def runLife : LM → State → List Op → Option LM
  | m, _, [] => some m
  | m, s, o :: os => ((feedAll m (step s o).2.2).bind endStep).bind (fun m' => runLife m' (step s o).1 os)

/-- **Every history**: from the empty history (every id fresh) the life-cycle monitor accepts the
ordered event trace of every operation sequence; afterwards an id is `pendOut`/`pendIn`/`est`
exactly when it is in the corresponding table, `done` when it was handed out and is gone, and
`fresh` otherwise.  Hence: each id handed out gets at most one of ConnectionEstablished /
OutgoingConnectionError / IncomingConnectionError (exactly one once it is no longer pending),
ConnectionClosed is reported at most once and only after ConnectionEstablished, and the behaviour
sees the same life cycle in the same order. -/
theorem lifecycle_accepts_every_history (peerIds : List (List Nat)) (ops : List Op) :
    runLife ⟨fun _ => .fresh, none⟩ (State.init peerIds) ops =
      some ⟨stOf (ops.foldl (fun s o => (step s o).1) (State.init peerIds)), none⟩ := by
  have gen : ∀ (ops : List Op) (s : State), Inv s →
      runLife ⟨stOf s, none⟩ s ops = some ⟨stOf (ops.foldl (fun s o => (step s o).1) s), none⟩ := by
    intro ops
    induction ops with
    | nil => intro s _; rfl
    | cons o os ih =>
      intro s h
      simp only [runLife, List.foldl_cons]
      have := step_lifecycle s o h
      unfold StepOK at this
      rw [this]
      exact ih _ (step_inv s o h)
  have h0 : stOf (State.init peerIds) = fun _ => .fresh := by
    funext c; simp [stOf, State.init, idsO, idsI, idsE]
  rw [← h0]
  exact gen ops _ (inv_init peerIds)

/-- the monitor really rejects what the property forbids: a second terminal event, a close without
establishment, a swarm event without the behaviour call -/
example : feedAll ⟨fun _ => .fresh, none⟩
    [.bPendingIn 0 false, .sIncoming 0, .bListenFailure 0 none .transport, .sIncomingError 0 none .transport,
     .bListenFailure 0 none .transport, .sIncomingError 0 none .transport] = none := by decide
example : feedAll ⟨fun _ => .fresh, none⟩ [.bClosed 3 1 0 false, .sClosed 3 1 0 0] = none := by decide
example : feedAll ⟨fun _ => .fresh, none⟩ [.bPendingIn 0 false, .sIncoming 0, .sIncomingError 0 none .transport] = none := by decide

/-- non-vacuity: a history with a dial that is established and closed, and an inbound that fails -/
example :
    let s0 := State.init [[0], [1], [2]]
    let ops : List Op := [.dial false .always (some 2) [[.tcp 1]] false [] false [], .incoming false,
      .resolve 0 2 false, .failIn 0, .close 0]
    (runLife ⟨fun _ => .fresh, none⟩ s0 ops).isSome = true ∧
    stOf (ops.foldl (fun s o => (step s o).1) s0) 0 = .done := by decide

end Swarm.C01

#print axioms Swarm.C01.step_lifecycle
#print axioms Swarm.C01.lifecycle_accepts_every_history
