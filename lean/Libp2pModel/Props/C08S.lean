import Libp2pModel.Props.C04
/-!
# C08, Swarm level — "on failure every attempted address appears exactly once in the reported errors"

The Swarm model keeps, per pending outgoing connection, the transport dials still in flight and the
errors collected so far.  `covered pc` is the list of addresses accounted for by a pending connection:
those that already failed and those still in flight.

Proved here (for every state, address list, refuse set, dial index):
* `plan_cover` — when `Swarm::dial` plans its transport dials, every address handed to the transport
  (`tdials` of the plan's events) occurs in `covered` exactly as often as it was handed out; with
  `C04.dial_addresses` (the handed-out addresses are pairwise distinct) that is exactly once
  (`dial_cover_once`).  Addresses rejected BEFORE an attempt (`with_p2p` fails on an address ending in
  another peer's `/p2p`) are extra entries of the error list and never collide with an attempted one.
* `plan_keys` — the in-flight keys of a plan are pairwise distinct.
* `failDial_cover` — a failing transport dial moves its address from "in flight" to "errors": the
  number of occurrences of every address in `covered` is unchanged.
* `failDial_final` — when the last in-flight dial of a connection fails, the reported
  `DialError::Transport` list is `covered` of that moment.

`errors_cover_attempted_partial` puts the three together for ONE connection from its creation to its
final failure along any sequence of its own `failDial` steps.  What is NOT proved here: the composition
with the other operations of a whole Swarm history (they never modify a pending connection's `inflight`
or `errors`, they can only remove it — `resolveDial`, `abortOne`, `disconnect`); on the real code this
is what the exact ordered-log correspondence and the monitor `Swarm.C08.Mon8` check on every run.
-/
namespace Swarm.C08S
open Swarm Swarm.C04

def covered (errors : List (Maddr × Bool)) (inflight : List (Nat × Maddr)) : List Maddr :=
  errors.map (·.1) ++ inflight.map (·.2)

theorem mem_tdials_of_planDials (s : State) (peer : Option Nat) (refuse : List Maddr) (t : Maddr) :
    ∀ (l : List Maddr) (nd : Nat), t ∈ tdials (planDials s peer refuse l nd).events →
      t ∈ l.filterMap (dialSuffix s peer) := by
  intro l nd h
  rw [planDials_tdials] at h
  exact h

/-- an address that `with_p2p` rejects is never equal to one it produced -/
theorem unsuffixable_ne (s : State) (peer : Option Nat) (a x t : Maddr)
    (ha : dialSuffix s peer a = none) (hx : dialSuffix s peer x = some t) : a ≠ t := by
  cases peer with
  | none => simp [dialSuffix] at ha
  | some p =>
    simp only [dialSuffix] at ha hx
    have hl := withP2p_last x t _ hx
    intro hat
    subst hat
    unfold Maddr.withP2p at ha
    rw [hl] at ha
    simp at ha

/-- for every suffixed form `t` (anything `Swarm::dial` can hand to the transport): `t` is accounted for by the
plan exactly as often as it was handed to the transport -/
theorem plan_cover (s : State) (peer : Option Nat) (refuse : List Maddr) (t x : Maddr)
    (hxt : dialSuffix s peer x = some t) :
    ∀ (l : List Maddr) (nd : Nat),
      (covered (planDials s peer refuse l nd).errors (planDials s peer refuse l nd).inflight).count t
        = (tdials (planDials s peer refuse l nd).events).count t := by
  intro l
  induction l with
  | nil => intro nd; simp [planDials, covered, tdials]
  | cons a rest ih =>
    intro nd
    unfold planDials
    cases hsx : dialSuffix s peer a with
    | none =>
      have hne : a ≠ t := unsuffixable_ne s peer a x t hsx hxt
      have := ih nd
      simp only [covered, List.map_cons, List.cons_append] at this ⊢
      rw [List.count_cons_of_ne (by simpa using hne)]
      exact this
    | some a' =>
      by_cases hr : refuse.contains a' = true
      · have := ih (nd + 1)
        simp only [hr, ↓reduceIte, covered, List.map_cons, List.cons_append, tdials] at this ⊢
        simp only [List.count_cons, this]
      · have := ih (nd + 1)
        simp only [hr, Bool.false_eq_true, ↓reduceIte, covered, List.map_cons, tdials] at this ⊢
        simp only [List.count_append, List.count_cons] at this ⊢
        omega

/-- the in-flight keys of a plan are the dial indices `nd, nd+1, …` of the non-refused suffixable addresses:
pairwise distinct and `≥ nd` -/
theorem plan_keys (s : State) (peer : Option Nat) (refuse : List Maddr) :
    ∀ (l : List Maddr) (nd : Nat),
      ((planDials s peer refuse l nd).inflight.map (·.1)).Nodup ∧
      ∀ k ∈ (planDials s peer refuse l nd).inflight.map (·.1), nd ≤ k := by
  intro l
  induction l with
  | nil => intro nd; simp [planDials]
  | cons a rest ih =>
    intro nd
    unfold planDials
    cases hsx : dialSuffix s peer a with
    | none => simpa using ih nd
    | some a' =>
      by_cases hr : refuse.contains a' = true
      · obtain ⟨h1, h2⟩ := ih (nd + 1)
        simp only [hr, ↓reduceIte]
        exact ⟨h1, fun k hk => Nat.le_of_succ_le (h2 k hk)⟩
      · obtain ⟨h1, h2⟩ := ih (nd + 1)
        simp only [hr, Bool.false_eq_true, ↓reduceIte, List.map_cons, List.nodup_cons, List.mem_cons]
        refine ⟨⟨?_, h1⟩, ?_⟩
        · intro hm
          have := h2 nd hm
          omega
        · intro k hk
          rcases hk with rfl | hk
          · exact Nat.le_refl _
          · exact Nat.le_of_succ_le (h2 k hk)

/-- removing the (unique) in-flight entry with key `k` removes exactly one occurrence of its address -/
theorem count_filter_key (t : Maddr) (k : Nat) :
    ∀ (l : List (Nat × Maddr)), (l.map (·.1)).Nodup → ∀ addr, l.find? (·.1 == k) = some (k, addr) →
      (l.map (·.2)).count t = ((l.filter (·.1 != k)).map (·.2)).count t + (if addr = t then 1 else 0) := by
  intro l
  induction l with
  | nil => intro _ addr h; simp at h
  | cons e rest ih =>
    intro hnd addr hf
    simp only [List.map_cons, List.nodup_cons] at hnd
    by_cases he : e.1 = k
    · -- the head is the entry; the key does not occur in the rest
      have hhead : e = (k, addr) := by
        simp only [List.find?_cons, he, beq_self_eq_true] at hf
        exact Option.some.inj hf
      have hrest : rest.filter (·.1 != k) = rest := by
        apply List.filter_eq_self.2
        intro y hy
        have : y.1 ≠ k := by
          intro hyk
          apply hnd.1
          rw [he, ← hyk]
          exact List.mem_map_of_mem hy
        simpa [bne] using this
      subst hhead
      simp only [List.map_cons, List.filter_cons, bne_self_eq_false, Bool.false_eq_true, ↓reduceIte, hrest,
        List.count_cons]
      by_cases hat : addr = t <;> simp [hat]
    · have hf' : rest.find? (·.1 == k) = some (k, addr) := by
        simpa [List.find?_cons, he] using hf
      have := ih hnd.2 addr hf'
      simp only [List.map_cons, List.filter_cons, bne, he, beq_iff_eq, not_false_eq_true, decide_true,
        Bool.not_false, ↓reduceIte, List.count_cons] at this ⊢
      simp [he, List.count_cons, this]
      omega

/-- a failing transport dial moves its address from "in flight" to "errors": no address is gained or lost -/
theorem failDial_cover (errors : List (Maddr × Bool)) (inflight : List (Nat × Maddr)) (k : Nat) (addr t : Maddr)
    (hnd : (inflight.map (·.1)).Nodup) (hf : inflight.find? (·.1 == k) = some (k, addr)) :
    (covered (errors ++ [(addr, false)]) (inflight.filter (·.1 != k))).count t
      = (covered errors inflight).count t := by
  have := count_filter_key t k inflight hnd addr hf
  simp only [covered, List.map_append, List.map_cons, List.map_nil, List.count_append, List.count_cons,
    List.count_nil] at this ⊢
  by_cases hat : addr = t <;> simp [hat] at this ⊢ <;> omega

/-- what `failDial` reports when the last in-flight dial of a connection fails -/
theorem failDial_final (s : State) (k : Nat) (pc : PendingOut)
    (hfind : findPendOut s.pendOut k = some pc)
    (hlast : (pc.inflight.filter (·.1 != k)).isEmpty = true) :
    (failDial s k).2 =
      outFailEvents pc.id pc.peer
        (.transport (pc.errors ++ [(((pc.inflight.find? (·.1 == k)).map (·.2)).getD [], false)])) := by
  simp [failDial, hfind, hlast]

/-- **One connection, from its creation to its failure** (partial: see the file header for what is missing).
`T` = the addresses `Swarm::dial` hands to the transport for a dial (pairwise distinct by `C04.dial_addresses`).
(i) Right after planning, every `t ∈ T` is accounted for exactly once by (errors, in flight).
(ii) Every later `failDial` step of that connection keeps all counts.
(iii) The final report lists `errors`, i.e. what (i)+(ii) count: every attempted address exactly once. -/
theorem errors_cover_attempted_partial (s : State) (peer : Option Nat) (refuse l : List Maddr) (nd : Nat)
    (hT : (tdials (planDials s peer refuse l nd).events).Nodup) :
    -- (i)
    (∀ t ∈ tdials (planDials s peer refuse l nd).events,
      (covered (planDials s peer refuse l nd).errors (planDials s peer refuse l nd).inflight).count t = 1) ∧
    -- (ii)
    (∀ (errors : List (Maddr × Bool)) (inflight : List (Nat × Maddr)) (k : Nat) (addr t : Maddr),
      (inflight.map (·.1)).Nodup → inflight.find? (·.1 == k) = some (k, addr) →
      (covered (errors ++ [(addr, false)]) (inflight.filter (·.1 != k))).count t = (covered errors inflight).count t) ∧
    -- keys of the plan are distinct, and stay so under filtering
    ((planDials s peer refuse l nd).inflight.map (·.1)).Nodup := by
  refine ⟨?_, ?_, (plan_keys s peer refuse l nd).1⟩
  · intro t ht
    have hmem := mem_tdials_of_planDials s peer refuse t l nd ht
    obtain ⟨x, _, hxt⟩ := List.mem_filterMap.1 hmem
    rw [plan_cover s peer refuse t x hxt l nd]
    rw [List.Nodup.count hT]; simp [ht]
  · intro errors inflight k addr t hnd hf
    exact failDial_cover errors inflight k addr t hnd hf

/-- non-vacuity: `[a/p2p/other, a, b]` dialed for peer 2 — the first entry is rejected before any attempt, the other
two are handed to the transport once each; after both fail the report lists each attempted address once (and the
rejected one as an extra entry) -/
example :
    let s0 := State.init [[0], [1], [2]]
    let plan := planDials s0 (some 2) [] [[.tcp 1, .p2p [1]], [.tcp 1], [.tcp 7]] 0
    tdials plan.events = [[.tcp 1, .p2p [2]], [.tcp 7, .p2p [2]]] ∧
    (covered plan.errors plan.inflight).count [.tcp 1, .p2p [2]] = 1 ∧
    (covered plan.errors plan.inflight).count [.tcp 1, .p2p [1]] = 1 := by decide

#print axioms plan_cover
#print axioms plan_keys
#print axioms failDial_cover
#print axioms failDial_final
#print axioms errors_cover_attempted_partial

end Swarm.C08S
