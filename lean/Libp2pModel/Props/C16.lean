import Libp2pModel.Model.C16
/-!
# C16 — Noise handshake authenticates exactly the remote identity

* `finish_iff`, `finish_sound` — exact characterisation of `State::finish`.
* `inbound_sound`, `outbound_sound` — a completed `upgrade_inbound`/`upgrade_outbound` reports
  `peerId k` where `k` is the key decoded from the identity payload of THIS handshake and the
  payload's non-empty signature verifies under `k` over `STATIC_KEY_DOMAIN ++ remote static DH key`
  of THIS session.
* `missing_key`, `empty_signature`, `wrong_signature` — absent/undecodable key ⇒ `InvalidKey`,
  empty or non-verifying signature ⇒ `BadSignature`.
* `reports_signer` — under the hypothesis structures `CryptoLaws` (EUF-CMA, honest parties sign
  only their own static keys, honest DH secrets are not shared) and `NoiseAuth` (a completed XX
  session's remote static key belongs to the counterparty of this session): the reported identity
  signed the static key of the counterparty, and if it is an honest identity it IS the counterparty.
* `splice_rejected` — identity key of a victim with a signature made for a different static key
  or by a different key ⇒ `BadSignature` (symbolic signatures, `SigLaws`).
* `mitm_never_misreports`, `prologue_mismatch_fails` — in the ideal XX model with an arbitrary
  man-in-the-middle outcome per message, an endpoint that completes reports its true counterparty;
  with differing prologues nobody completes.
* `spec_accepts_model_*` — the executable Spec accepts the model's outputs.
All cryptographic assumptions are hypotheses bundled in structures, never axioms.
-/
namespace C16

/-! ## `finish` -/

/-- the certhash condition of `finish` -/
def certCond {C : Crypto} (st : State C) : Prop :=
  st.isInitiator = true → ∀ expected, st.responderWebtransportCerthashes = some expected →
    ∃ received, st.remoteExtensions = some received ∧ isSubset expected received = true

theorem finish_iff (C : Crypto) (st : State C) (s : SessionEnd) (k : C.IdKey) :
    finish C st s = .ok k ↔
      (∃ dh sig, s.remoteStatic = some dh ∧ dh.length = 32 ∧ s.finished = true ∧
        st.idRemotePubkey = some k ∧ st.dhRemotePubkeySig = some sig ∧
        C.verify k (STATIC_KEY_DOMAIN ++ dh) sig = true) ∧ certCond st := by
  unfold finish intoTransport certCond
  cases hrs : s.remoteStatic with
  | none => simp
  | some dh =>
    by_cases hlen : dh.length = 32
    · cases hfin : s.finished with
      | false => simp [hlen]
      | true =>
        cases hid : st.idRemotePubkey with
        | none => simp [hlen]
        | some idPk =>
          cases hsig : st.dhRemotePubkeySig with
          | none => simp [hlen]
          | some sig =>
            cases hv : C.verify idPk (STATIC_KEY_DOMAIN ++ dh) sig with
            | false =>
              simp [hlen, hv]
              intro h1 h2
              subst h1
              rw [hv] at h2
              exact absurd h2 (by simp)
            | true =>
              cases hini : st.isInitiator with
              | false =>
                simp [hlen, hv]
                intro h; subst h; exact hv
              | true =>
                cases hexp : st.responderWebtransportCerthashes with
                | none =>
                  simp [hlen, hv]
                  intro h; subst h; exact hv
                | some expected =>
                  cases hrec : st.remoteExtensions with
                  | none => simp [hlen, hv]
                  | some received =>
                    cases hsub : isSubset expected received with
                    | false => simp [hlen, hv, hsub]
                    | true =>
                      simp [hlen, hv, hsub]
                      intro h; subst h; exact hv
    · simp [hlen]

/-- **finish_sound**: `finish` succeeds only with the key stored by `recv_identity`, on a
completed session with a 32-byte remote static key, and a signature that verifies under that key
over `STATIC_KEY_DOMAIN ++ remote static key`. -/
theorem finish_sound (C : Crypto) (st : State C) (s : SessionEnd) (k : C.IdKey)
    (h : finish C st s = .ok k) :
    ∃ dh sig, s.remoteStatic = some dh ∧ dh.length = 32 ∧ s.finished = true ∧
      st.idRemotePubkey = some k ∧ st.dhRemotePubkeySig = some sig ∧
      C.verify k (STATIC_KEY_DOMAIN ++ dh) sig = true :=
  ((finish_iff C st s k).1 h).1

/-! ## `recv_identity` and the upgrade flows -/

theorem recvIdentity_ok (C : Crypto) (st st' : State C) (m : Recv)
    (h : recvIdentity C st m = .ok st') :
    ∃ p k, m = .payload p ∧ C.decodeKey p.identityKey = some k ∧ st'.idRemotePubkey = some k ∧
      st'.isInitiator = st.isInitiator ∧
      st'.responderWebtransportCerthashes = st.responderWebtransportCerthashes ∧
      st'.dhRemotePubkeySig =
        (if p.identitySig.isEmpty then st.dhRemotePubkeySig else some p.identitySig) := by
  unfold recvIdentity at h
  cases m with
  | eof => simp [recv] at h
  | err k => simp [recv] at h
  | payload p =>
    simp only [recv] at h
    cases hk : C.decodeKey p.identityKey with
    | none => simp [hk] at h
    | some k =>
      simp only [hk, Except.ok.injEq] at h
      subst h
      refine ⟨p, k, rfl, hk, ?_, ?_, ?_, ?_⟩
      · cases p.extensions <;> (cases hs : p.identitySig.isEmpty <;> simp)
      · cases p.extensions <;> (cases hs : p.identitySig.isEmpty <;> simp)
      · cases p.extensions <;> (cases hs : p.identitySig.isEmpty <;> simp)
      · cases p.extensions <;> (cases hs : p.identitySig.isEmpty <;> simp)

/-- what a successful upgrade guarantees about the identity message `m` of this handshake -/
def Authenticated (C : Crypto) (m : Recv) (s : SessionEnd) (pid : Nat) : Prop :=
  ∃ p k dh, m = .payload p ∧ C.decodeKey p.identityKey = some k ∧ pid = C.peerId k ∧
    s.remoteStatic = some dh ∧ dh.length = 32 ∧ s.finished = true ∧ p.identitySig ≠ [] ∧
    C.verify k (STATIC_KEY_DOMAIN ++ dh) p.identitySig = true

theorem authenticated_of (C : Crypto) (st0 st : State C) (m : Recv) (s : SessionEnd) (k : C.IdKey)
    (h0 : st0.dhRemotePubkeySig = none) (hr : recvIdentity C st0 m = .ok st)
    (hf : finish C st s = .ok k) : Authenticated C m s (C.peerId k) := by
  obtain ⟨p, k', hm, hk, hid, _, _, hsig⟩ := recvIdentity_ok C st0 st m hr
  obtain ⟨dh, sig, hrs, hlen, hfin, hid', hsig', hv⟩ := finish_sound C st s k hf
  rw [hid] at hid'
  have hkk : k' = k := Option.some.inj hid'
  subst hkk
  rw [hsig, h0] at hsig'
  cases hemp : p.identitySig.isEmpty with
  | true => simp [hemp] at hsig'
  | false =>
    simp only [hemp, Bool.false_eq_true, ↓reduceIte, Option.some.injEq] at hsig'
    subst hsig'
    refine ⟨p, k', dh, hm, hk, rfl, hrs, hlen, hfin, ?_, hv⟩
    intro hnil
    rw [hnil] at hemp
    simp at hemp

/-- **inbound_sound**: `upgrade_inbound` returns `Ok(peer)` only if message 3 of THIS handshake
carried a decodable identity key `k` with `peer = peerId k` and a non-empty signature verifying
under `k` over `STATIC_KEY_DOMAIN ++` the initiator's static key of THIS session. -/
theorem inbound_sound (C : Crypto) (ch : Option (List Bytes)) (m1 m3 : Recv) (sendOk : Bool)
    (s : SessionEnd) (pid : Nat) (h : upgradeInbound C ch m1 sendOk m3 s = .ok pid) :
    Authenticated C m3 s pid := by
  unfold upgradeInbound at h
  cases h1 : recvEmpty m1 with
  | error e => simp [h1] at h
  | ok u =>
    cases sendOk with
    | false => simp [h1] at h
    | true =>
      simp only [h1, Bool.not_true, Bool.false_eq_true, ↓reduceIte] at h
      cases h3 : recvIdentity C { isInitiator := false, responderWebtransportCerthashes := ch } m3 with
      | error e => simp [h3] at h
      | ok st =>
        simp only [h3] at h
        cases hf : finish C st s with
        | error e => simp [hf] at h
        | ok k =>
          simp only [hf, Except.ok.injEq] at h
          subst h
          exact authenticated_of C _ st m3 s k rfl h3 hf

/-- **outbound_sound**: the same for `upgrade_outbound` and message 2. -/
theorem outbound_sound (C : Crypto) (ch : Option (List Bytes)) (m2 : Recv) (s1 s3 : Bool)
    (s : SessionEnd) (pid : Nat) (h : upgradeOutbound C ch s1 m2 s3 s = .ok pid) :
    Authenticated C m2 s pid := by
  unfold upgradeOutbound at h
  cases s1 with
  | false => simp at h
  | true =>
    simp only [Bool.not_true, Bool.false_eq_true, ↓reduceIte] at h
    cases h2 : recvIdentity C { isInitiator := true, responderWebtransportCerthashes := ch } m2 with
    | error e => simp [h2] at h
    | ok st =>
      simp only [h2] at h
      cases s3 with
      | false => simp at h
      | true =>
        simp only [Bool.not_true, Bool.false_eq_true, ↓reduceIte] at h
        cases hf : finish C st s with
        | error e => simp [hf] at h
        | ok k =>
          simp only [hf, Except.ok.injEq] at h
          subst h
          exact authenticated_of C _ st m2 s k rfl h2 hf

/-! ## missing fields -/

/-- absent / undecodable identity key ⇒ `InvalidKey` -/
theorem missing_key (C : Crypto) (st : State C) (p : Payload)
    (h : C.decodeKey p.identityKey = none) : recvIdentity C st (.payload p) = .error .invalidKey := by
  simp [recvIdentity, recv, h]

/-- empty signature ⇒ `BadSignature` (on an otherwise complete handshake) -/
theorem empty_signature (C : Crypto) (st0 st : State C) (p : Payload) (s : SessionEnd) (dh : Bytes)
    (h0 : st0.dhRemotePubkeySig = none) (hsig : p.identitySig = [])
    (hr : recvIdentity C st0 (.payload p) = .ok st)
    (hs : s.remoteStatic = some dh) (hl : dh.length = 32) (hf : s.finished = true) :
    finish C st s = .error .badSignature := by
  obtain ⟨p', k, hm, _, hid, _, _, hsg⟩ := recvIdentity_ok C st0 st _ hr
  simp only [Recv.payload.injEq] at hm
  subst hm
  rw [hsig] at hsg
  simp only [List.isEmpty_nil, ↓reduceIte, h0] at hsg
  simp [finish, intoTransport, hs, hl, hf, hid, hsg]

/-- a signature that does not verify under the presented key over THIS session's static key ⇒
`BadSignature` -/
theorem wrong_signature (C : Crypto) (st0 st : State C) (p : Payload) (s : SessionEnd)
    (dh : Bytes) (k : C.IdKey)
    (hk : C.decodeKey p.identityKey = some k)
    (hv : C.verify k (STATIC_KEY_DOMAIN ++ dh) p.identitySig = false)
    (hr : recvIdentity C st0 (.payload p) = .ok st)
    (hs : s.remoteStatic = some dh) (hl : dh.length = 32) (hf : s.finished = true)
    (h0 : st0.dhRemotePubkeySig = none) :
    finish C st s = .error .badSignature := by
  obtain ⟨p', k', hm, hk', hid, _, _, hsg⟩ := recvIdentity_ok C st0 st _ hr
  simp only [Recv.payload.injEq] at hm
  subst hm
  rw [hk] at hk'
  have := Option.some.inj hk'
  subst this
  cases hemp : p.identitySig.isEmpty with
  | true =>
    simp only [hemp, ↓reduceIte, h0] at hsg
    simp [finish, intoTransport, hs, hl, hf, hid, hsg]
  | false =>
    simp only [hemp, Bool.false_eq_true, ↓reduceIte] at hsg
    simp [finish, intoTransport, hs, hl, hf, hid, hsg, hv]

/-! ## cryptographic hypotheses (never axioms) and `reports_signer` -/

/-- the world the handshake runs in -/
structure World (C : Crypto) where
  Principal : Type
  /-- the holder of identity key `k` -/
  owner : C.IdKey → Principal
  /-- the holder of identity key `k` has produced a signature on `m` -/
  Signed : C.IdKey → Bytes → Prop
  /-- principal knows the secret of the DH public key -/
  HoldsDh : Principal → Bytes → Prop
  Honest : Principal → Prop

/-- EUF-CMA and key hygiene of honest parties -/
structure CryptoLaws (C : Crypto) (W : World C) : Prop where
  /-- a verifying signature on `m` under `k` was produced by `k`'s holder on exactly `m` -/
  euf_cma : ∀ k m s, C.verify k m s = true → W.Signed k m
  /-- `Keypair::into_authentic`: an honest identity signs (under the static-key domain) only DH
  keys whose secret it holds -/
  honest_signs_own : ∀ k dh, W.Honest (W.owner k) → W.Signed k (STATIC_KEY_DOMAIN ++ dh) →
    W.HoldsDh (W.owner k) dh
  /-- the DH secret of an honest party is known to nobody else -/
  dh_secret : ∀ P Q dh, W.Honest P → W.HoldsDh P dh → W.HoldsDh Q dh → Q = P

/-- `NoiseXX.auth`: a completed XX session's remote static key is a DH key whose secret the
counterparty of THIS session (the party that derived the same session keys) holds. -/
structure NoiseAuth {C : Crypto} (W : World C) (s : SessionEnd) (counterparty : W.Principal) : Prop where
  auth : ∀ dh, s.finished = true → s.remoteStatic = some dh → W.HoldsDh counterparty dh

/-- **reports_signer**: the peer reported by a completed upgrade is `peerId k` for an identity
key `k` whose holder signed the static key of the counterparty of this session; if that identity
is honest, its holder IS the counterparty (the party the key exchange completed with). -/
theorem reports_signer (C : Crypto) (W : World C) (hC : CryptoLaws C W) (m : Recv) (s : SessionEnd)
    (cp : W.Principal) (hN : NoiseAuth W s cp) (pid : Nat) (h : Authenticated C m s pid) :
    ∃ k dh, pid = C.peerId k ∧ s.remoteStatic = some dh ∧ W.HoldsDh cp dh ∧
      W.Signed k (STATIC_KEY_DOMAIN ++ dh) ∧ (W.Honest (W.owner k) → cp = W.owner k) := by
  obtain ⟨p, k, dh, _, _, hpid, hrs, _, hfin, _, hv⟩ := h
  have hsigned := hC.euf_cma _ _ _ hv
  have hcp := hN.auth dh hfin hrs
  refine ⟨k, dh, hpid, hrs, hcp, hsigned, ?_⟩
  intro hh
  exact hC.dh_secret _ _ dh hh (hC.honest_signs_own k dh hh hsigned) hcp

theorem reports_signer_inbound (C : Crypto) (W : World C) (hC : CryptoLaws C W)
    (ch : Option (List Bytes)) (m1 m3 : Recv) (sendOk : Bool) (s : SessionEnd) (cp : W.Principal)
    (hN : NoiseAuth W s cp) (pid : Nat) (h : upgradeInbound C ch m1 sendOk m3 s = .ok pid) :
    ∃ k dh, pid = C.peerId k ∧ s.remoteStatic = some dh ∧ W.HoldsDh cp dh ∧
      W.Signed k (STATIC_KEY_DOMAIN ++ dh) ∧ (W.Honest (W.owner k) → cp = W.owner k) :=
  reports_signer C W hC m3 s cp hN pid (inbound_sound C ch m1 m3 sendOk s pid h)

theorem reports_signer_outbound (C : Crypto) (W : World C) (hC : CryptoLaws C W)
    (ch : Option (List Bytes)) (m2 : Recv) (s1 s3 : Bool) (s : SessionEnd) (cp : W.Principal)
    (hN : NoiseAuth W s cp) (pid : Nat) (h : upgradeOutbound C ch s1 m2 s3 s = .ok pid) :
    ∃ k dh, pid = C.peerId k ∧ s.remoteStatic = some dh ∧ W.HoldsDh cp dh ∧
      W.Signed k (STATIC_KEY_DOMAIN ++ dh) ∧ (W.Honest (W.owner k) → cp = W.owner k) :=
  reports_signer C W hC m2 s cp hN pid (outbound_sound C ch m2 s1 s3 s pid h)

/-! ## spliced identities -/

/-- symbolic signatures: a signature verifies only under the key and on the message it was made for -/
structure SigLaws (C : Crypto) (sign : C.IdKey → Bytes → Bytes) : Prop where
  binding : ∀ k m k' m', C.verify k m (sign k' m') = true → k = k' ∧ m = m'

/-- **splice_rejected**: the identity key of a victim `v` together with a signature made for a
DIFFERENT static key (e.g. copied from one of `v`'s own handshakes) or made by a DIFFERENT key is
rejected with `BadSignature`. -/
theorem splice_rejected (C : Crypto) (sign : C.IdKey → Bytes → Bytes) (hS : SigLaws C sign)
    (st0 st : State C) (p : Payload) (s : SessionEnd) (dh dh' : Bytes) (v signer : C.IdKey)
    (hk : C.decodeKey p.identityKey = some v)
    (hsig : p.identitySig = sign signer (STATIC_KEY_DOMAIN ++ dh'))
    (hdiff : signer ≠ v ∨ dh' ≠ dh)
    (hr : recvIdentity C st0 (.payload p) = .ok st)
    (hs : s.remoteStatic = some dh) (hl : dh.length = 32) (hf : s.finished = true)
    (h0 : st0.dhRemotePubkeySig = none) :
    finish C st s = .error .badSignature := by
  apply wrong_signature C st0 st p s dh v hk _ hr hs hl hf h0
  cases hv : C.verify v (STATIC_KEY_DOMAIN ++ dh) p.identitySig with
  | false => rfl
  | true =>
    exfalso
    rw [hsig] at hv
    obtain ⟨h1, h2⟩ := hS.binding _ _ _ _ hv
    rcases hdiff with hd | hd
    · exact hd h1.symm
    · exact hd (List.append_cancel_left h2).symm

/-- the symbolic instance satisfies `SigLaws` (non-vacuity) -/
theorem sym_sigLaws : SigLaws Sym symSign where
  binding := by
    intro k m k' m' h
    simp only [Sym, symSign, beq_iff_eq] at h
    obtain ⟨_, h2⟩ := List.cons.inj h
    obtain ⟨h3, h4⟩ := List.cons.inj h2
    exact ⟨h3.symm, h4.symm⟩

/-! ## the hypothesis structures are satisfiable (non-vacuity) -/

/-- a world in which every principal `p` holds static key `symDh p` and signs only that key -/
def exCrypto : Crypto where
  IdKey := Nat
  decodeKey := Sym.decodeKey
  verify k m s := s == symSign k m && m == STATIC_KEY_DOMAIN ++ symDh k
  peerId k := k

def exWorld : World exCrypto where
  Principal := Nat
  owner k := k
  Signed k m := m = STATIC_KEY_DOMAIN ++ symDh k
  HoldsDh p dh := dh = symDh p
  Honest _ := True

theorem symDh_inj (a b : Nat) (h : symDh a = symDh b) : a = b := by
  simp only [symDh] at h
  have := congrArg (fun l => l.head?) h
  simpa using this

example : CryptoLaws exCrypto exWorld where
  euf_cma := by
    intro k m s h
    simp only [exCrypto, Bool.and_eq_true, beq_iff_eq] at h
    exact h.2
  honest_signs_own := by
    intro k dh _ h
    exact List.append_cancel_left h
  dh_secret := by
    intro P Q dh _ h1 h2
    exact symDh_inj Q P (h2.symm.trans h1)

example : NoiseAuth exWorld { remoteStatic := some (symDh 7), finished := true } (7 : Nat) where
  auth := by
    intro dh _ h
    simp only [Option.some.injEq] at h
    exact h.symm

/-! ## ideal XX with a man in the middle -/

theorem honest_outbound (b : Party) :
    upgradeOutbound Sym none true (.payload b.payload) true
      { remoteStatic := some (symDh b.dh), finished := true } = .ok b.id := by
  simp [upgradeOutbound, recvIdentity, recv, Party.payload, honestPayload, Sym, symKey, symSign,
    finish, intoTransport, symDh]

theorem honest_inbound (a : Party) :
    upgradeInbound Sym none (.payload {}) true (.payload a.payload)
      { remoteStatic := some (symDh a.dh), finished := true } = .ok a.id := by
  simp [upgradeInbound, recvEmpty, recvIdentity, recv, Payload.isDefault, Party.payload,
    honestPayload, Sym, symKey, symSign, finish, intoTransport, symDh]

/-- **mitm_never_misreports**: whatever the man in the middle does to the three messages, an
endpoint that completes reports its true counterparty: the dialer `b`, the listener `a`. -/
theorem mitm_never_misreports (a b : Party) (pe : Bool) (s1 s2 s3 : Seen) (rd rl : Res)
    (h : simulate a b pe s1 s2 s3 = some (rd, rl)) :
    (∀ p, rd = .ok p → p = b.id) ∧ (∀ p, rl = .ok p → p = a.id) := by
  unfold simulate at h
  rw [honest_outbound, honest_inbound] at h
  cases s1 with
  | never => simp at h; obtain ⟨rfl, rfl⟩ := h; simp
  | intact =>
    cases s2 <;> cases pe <;> cases s3 <;> simp at h <;> obtain ⟨rfl, rfl⟩ := h <;> simp
  | altered len =>
    by_cases h1 : len < 32
    · simp [h1] at h; obtain ⟨rfl, rfl⟩ := h; simp
    · by_cases h2 : len = 32
      · cases s2 <;> cases s3 <;> simp [h2] at h <;> obtain ⟨rfl, rfl⟩ := h <;> simp
      · simp [h1, h2] at h
  | injected len =>
    by_cases h1 : len < 32
    · simp [h1] at h; obtain ⟨rfl, rfl⟩ := h; simp
    · by_cases h2 : len = 32
      · cases s2 <;> cases s3 <;> simp [h2] at h <;> obtain ⟨rfl, rfl⟩ := h <;> simp
      · simp [h1, h2] at h

/-- **prologue_mismatch_fails**: with differing prologues neither side completes, whatever else
happens on the wire. -/
theorem prologue_mismatch_fails (a b : Party) (s1 s2 s3 : Seen) (rd rl : Res)
    (h : simulate a b false s1 s2 s3 = some (rd, rl)) :
    (∀ p, rd ≠ .ok p) ∧ (∀ p, rl ≠ .ok p) := by
  unfold simulate at h
  cases s1 with
  | never => simp at h; obtain ⟨rfl, rfl⟩ := h; simp
  | intact =>
    cases s2 <;> cases s3 <;> simp at h <;> obtain ⟨rfl, rfl⟩ := h <;> simp
  | altered len =>
    by_cases h1 : len < 32
    · simp [h1] at h; obtain ⟨rfl, rfl⟩ := h; simp
    · by_cases h2 : len = 32
      · cases s2 <;> cases s3 <;> simp [h2] at h <;> obtain ⟨rfl, rfl⟩ := h <;> simp
      · simp [h1, h2] at h
  | injected len =>
    by_cases h1 : len < 32
    · simp [h1] at h; obtain ⟨rfl, rfl⟩ := h; simp
    · by_cases h2 : len = 32
      · cases s2 <;> cases s3 <;> simp [h2] at h <;> obtain ⟨rfl, rfl⟩ := h <;> simp
      · simp [h1, h2] at h

/-- an undisturbed handshake with equal prologues completes on both sides with the right peers -/
theorem honest_completes (a b : Party) :
    simulate a b true .intact .intact .intact = some (.ok b.id, .ok a.id) := by
  unfold simulate
  rw [honest_outbound, honest_inbound]
  simp

/-! ## the Spec accepts the model -/

theorem spec_accepts_model_mitm (a b : Party) (pe : Bool) (s1 s2 s3 : Seen) (rd rl : Res)
    (h : simulate a b pe s1 s2 s3 = some (rd, rl)) :
    specReport b.id rd = true ∧ specReport a.id rl = true := by
  obtain ⟨h1, h2⟩ := mitm_never_misreports a b pe s1 s2 s3 rd rl h
  constructor
  · cases rd with
    | error e => rfl
    | ok p => simp [specReport, h1 p rfl]
  · cases rl with
    | error e => rfl
    | ok p => simp [specReport, h2 p rfl]

/-- a malicious endpoint (static key `dh`) presenting ANY payload: the transcribed
`upgrade_outbound` accepts only as the principal whose key and whose signature over this
session's static key were presented -/
theorem spec_accepts_model_mal_outbound (dh : Nat) (p : Payload) :
    specMal dh p (upgradeOutbound Sym none true (.payload p) true
      { remoteStatic := some (symDh dh), finished := true }) = true := by
  cases h : upgradeOutbound Sym none true (.payload p) true
      { remoteStatic := some (symDh dh), finished := true } with
  | error e => rfl
  | ok pid =>
    obtain ⟨p', k, dh', hm, hk, hpid, hrs, _, _, _, hv⟩ := outbound_sound Sym none _ true true _ pid h
    simp only [Recv.payload.injEq] at hm
    subst hm
    simp only [Option.some.injEq] at hrs
    subst hrs
    simp only [Sym, beq_iff_eq] at hv hpid
    subst hpid
    have hkey : p.identityKey = symKey pid := by
      simp only [Sym] at hk
      split at hk
      · rename_i heq
        simp only [Option.some.injEq] at hk
        rw [heq, hk]; rfl
      · simp at hk
    simp [specMal, hkey, hv]

theorem spec_accepts_model_mal_inbound (dh : Nat) (p : Payload) :
    specMal dh p (upgradeInbound Sym none (.payload {}) true (.payload p)
      { remoteStatic := some (symDh dh), finished := true }) = true := by
  cases h : upgradeInbound Sym none (.payload {}) true (.payload p)
      { remoteStatic := some (symDh dh), finished := true } with
  | error e => rfl
  | ok pid =>
    obtain ⟨p', k, dh', hm, hk, hpid, hrs, _, _, _, hv⟩ := inbound_sound Sym none _ _ true _ pid h
    simp only [Recv.payload.injEq] at hm
    subst hm
    simp only [Option.some.injEq] at hrs
    subst hrs
    simp only [Sym, beq_iff_eq] at hv hpid
    subst hpid
    have hkey : p.identityKey = symKey pid := by
      simp only [Sym] at hk
      split at hk
      · rename_i heq
        simp only [Option.some.injEq] at hk
        rw [heq, hk]; rfl
      · simp at hk
    simp [specMal, hkey, hv]

end C16

#print axioms C16.finish_iff
#print axioms C16.finish_sound
#print axioms C16.inbound_sound
#print axioms C16.outbound_sound
#print axioms C16.missing_key
#print axioms C16.empty_signature
#print axioms C16.wrong_signature
#print axioms C16.reports_signer
#print axioms C16.reports_signer_inbound
#print axioms C16.reports_signer_outbound
#print axioms C16.splice_rejected
#print axioms C16.sym_sigLaws
#print axioms C16.mitm_never_misreports
#print axioms C16.prologue_mismatch_fails
#print axioms C16.honest_completes
#print axioms C16.spec_accepts_model_mitm
#print axioms C16.spec_accepts_model_mal_outbound
#print axioms C16.spec_accepts_model_mal_inbound
