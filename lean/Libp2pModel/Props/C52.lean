import Libp2pModel.Proofs.C52Step
import Libp2pModel.Common.Machine
/-!
# C52 — Connection limits are never exceeded

Statement (properties.jsonl): with the connection-limits behaviour installed, a Swarm never holds
more pending incoming/outgoing, established incoming/outgoing, per-peer or total established
connections than configured, ignoring connections to bypassed peers.

System: `C52.step` = the shared Swarm model run with the verdicts of the transcribed
`connection_limits::Behaviour` (first field of the derived behaviour; a second behaviour — the
probe — may deny as well, arbitrarily), every event of the step fed back into the behaviour.
"Ignoring connections to bypassed peers" is made precise the way the code does it: a dial
started / a connection established while its peer was on the bypass list is exempt (`exDial`,
`exEst`, ghost state); `C52.limits` counts everything else.  The limits are those configured while
the Swarm held no connection (`limTaint = false`): `limits_mut` documents that a new limit is not
enforced against existing connections.
-/
namespace C52
open Swarm

def Inv (cs : CS) : Prop := J cs.sw cs.g cs.limTaint

/-- the composed step in `Machine` shape -/
def mstep (cs : CS) (op : COp) : CS × (Res × List Ev) := step cs op

theorem J_lim_irrelevant {s : State} {g : GL} {t : Bool} (h : J s g t) (b : List Nat) :
    J s { g with lim := { g.lim with bypass := b } } t := by
  obtain ⟨w, x, l⟩ := h
  exact ⟨w, ⟨x.pi, x.po, x.ei, x.eo, x.pp, x.gd, x.ge⟩,
    fun ht => ⟨(l ht).pi, (l ht).po, (l ht).ei, (l ht).eo, (l ht).pp, (l ht).tot⟩⟩

theorem cnt_nil (ex : List Nat) : cnt [] ex = 0 := rfl

theorem step_Inv (cs : CS) (op : COp) (h : Inv cs) : Inv (step cs op).1 := by
  cases op with
  | sw op ov =>
    cases op with
    | dial v c p a e b d r => exact dial_J cs.sw cs.g cs.limTaint v c p a e b d r h
    | resolve k p d => exact resolveDial_J cs.sw cs.g cs.limTaint k p d h
    | fail k => exact failDial_J cs.sw cs.g cs.limTaint k none h
    | incoming d => exact incoming_J cs.sw cs.g cs.limTaint d none h
    | resolveIn k p d => exact resolveIn_J cs.sw cs.g cs.limTaint k p d h
    | failIn k => exact failIn_J cs.sw cs.g cs.limTaint k none h
    | close c => exact closeConn_J cs.sw cs.g cs.limTaint c true none h
    | disconnect p o a =>
      show J (Swarm.step cs.sw (.disconnect p o a)).1 (feedAll none cs.g (Swarm.step cs.sw (.disconnect p o a)).2.2) cs.limTaint
      simp only [Swarm.step]
      cases hd : disconnect cs.sw p o a with
      | none => exact h
      | some r => exact disconnect_J cs.sw cs.g cs.limTaint p o a none r hd h
    | remoteClose c => exact closeConn_J cs.sw cs.g cs.limTaint c false none h
    | newAddr a => exact newAddr_J cs.sw cs.g cs.limTaint a none h
    | expire a => exact expireAddr_J cs.sw cs.g cs.limTaint a none h
    | behClose p one o a =>
      show J (Swarm.step cs.sw (.behClose p one o a)).1 (feedAll none cs.g (Swarm.step cs.sw (.behClose p one o a)).2.2) cs.limTaint
      simp only [Swarm.step]
      cases one with
      | some c => exact closeConn_J cs.sw cs.g cs.limTaint c true none h
      | none =>
        simp only
        cases hd : disconnect cs.sw p o a with
        | none => exact h
        | some r => exact disconnect_J cs.sw cs.g cs.limTaint p o a none r hd h
  | bypass p => exact J_lim_irrelevant h _
  | unbypass p => exact J_lim_irrelevant h _
  | setLimits l =>
    obtain ⟨w, x, _⟩ := h
    refine ⟨w, ⟨x.pi, x.po, x.ei, x.eo, x.pp, x.gd, x.ge⟩, ?_⟩
    intro ht
    have ht' : hasConns cs.sw = false := by
      have : (cs.limTaint || hasConns cs.sw) = false := ht
      cases h1 : cs.limTaint <;> simp_all
    have hpo : cs.sw.pendOut = [] := by
      simp [hasConns, List.isEmpty_iff] at ht'; exact ht'.1.1
    have hpi : cs.sw.pendIn = [] := by
      simp [hasConns, List.isEmpty_iff] at ht'; exact ht'.1.2
    have he : cs.sw.est = [] := by
      simp [hasConns, List.isEmpty_iff] at ht'; exact ht'.2
    have e1 : cs.g.lim.pendIn = [] := by rw [x.pi]; simp [piIds, hpi]
    have e2 : cs.g.lim.pendOut = [] := by rw [x.po]; simp [poIds, hpo]
    have e3 : cs.g.lim.estIn = [] := by rw [x.ei]; simp [he]
    have e4 : cs.g.lim.estOut = [] := by rw [x.eo]; simp [he]
    have e5 : ∀ q, ppGet cs.g.lim.perPeer q = [] := by intro q; rw [x.pp]; simp [he]
    refine ⟨?_, ?_, ?_, ?_, ?_, ?_⟩
    · intro m _; show cs.g.lim.pendIn.length ≤ m; simp [e1]
    · intro m _; show cs.g.lim.pendOut.length ≤ m; simp [e2]
    · intro m _; show cnt cs.g.lim.estIn cs.g.exEst ≤ m; simp [e3, cnt_nil]
    · intro m _; show cnt cs.g.lim.estOut cs.g.exEst ≤ m; simp [e4, cnt_nil]
    · intro m q _; show cnt (ppGet cs.g.lim.perPeer q) cs.g.exEst ≤ m; simp [e5, cnt_nil]
    · intro m _; show cnt cs.g.lim.estIn cs.g.exEst + cnt cs.g.lim.estOut cs.g.exEst ≤ m; simp [e3, e4, cnt_nil]

theorem init_Inv (peerIds : List (List Nat)) (l : Limits) : Inv (CS.init peerIds l) := by
  refine ⟨⟨?_, ?_, ?_, ?_, ?_, ?_, ?_⟩, ⟨rfl, rfl, rfl, rfl, ?_, ?_, ?_⟩, ?_⟩ <;>
    simp [CS.init, State.init, poIds, piIds, eIds, ppGet]
  refine ⟨?_, ?_, ?_, ?_, ?_, ?_⟩ <;> simp [cnt, ppGet]

/-- **Invariant, for every operation history** (dials with or without a known peer, resolutions,
failures, incoming connections, closes, disconnects, remote closes, behaviour-requested closes,
arbitrary denials by a second behaviour, bypass additions/removals, limit changes). -/
theorem invariant (peerIds : List (List Nat)) (l : Limits) (ops : List COp) :
    Inv (Machine.exec mstep (CS.init peerIds l) ops) :=
  Machine.invariant_of_step mstep Inv (fun s o h => step_Inv s o h) ops _ (init_Inv peerIds l)

/-! ## from the invariant to the property -/

theorem within_of (limit : Option Nat) (n : Nat) (h : ∀ m, limit = some m → n ≤ m) : within limit n = true := by
  cases limit with
  | none => rfl
  | some m => simpa [within] using h m rfl

theorem cnt_map_ids (l : List Est) (ex : List Nat) :
    cnt (l.map (·.id)) ex = (l.filter (fun e => !ex.contains e.id)).length := by
  unfold cnt
  rw [List.filter_map, List.length_map]
  rfl

theorem count_split {α : Type} (l : List α) (p1 p2 p3 : α → Bool)
    (h : ∀ x, p3 x = (p1 x || p2 x) ∧ (p1 x && p2 x) = false) :
    (l.filter p1).length + (l.filter p2).length = (l.filter p3).length := by
  induction l with
  | nil => rfl
  | cons a t ih =>
    obtain ⟨h3, h12⟩ := h a
    cases h1 : p1 a <;> cases h2 : p2 a <;>
      simp only [List.filter_cons, h1, h2, h3, Bool.or_false, Bool.or_true, Bool.false_eq_true, ↓reduceIte,
        List.length_cons] <;> simp_all <;> omega

theorem split_count {α : Type} (l : List α) (o q : α → Bool) :
    ((l.filter (fun x => !o x)).filter q).length + ((l.filter o).filter q).length = (l.filter q).length := by
  rw [List.filter_filter, List.filter_filter]
  apply count_split
  intro x
  cases o x <;> cases q x <;> simp

theorem table_pendIn (cs : CS) : cs.table.pendIn.length = cs.sw.pendIn.length := by simp [CS.table]

theorem table_estIn_length (cs : CS) :
    cs.table.estIn.length = cnt ((cs.sw.est.filter (fun e => !e.out)).map (·.id)) cs.g.exEst := by
  simp [CS.table, cnt_map_ids]

theorem table_estOut_length (cs : CS) :
    cs.table.estOut.length = cnt ((cs.sw.est.filter (fun e => e.out)).map (·.id)) cs.g.exEst := by
  simp [CS.table, cnt_map_ids]

theorem perPeerCount_eq (cs : CS) (p : Nat) :
    perPeerCount cs.table p = cnt ((cs.sw.est.filter (fun e => e.peer == p)).map (·.id)) cs.g.exEst := by
  rw [cnt_map_ids]
  simp only [perPeerCount, CS.table, List.filter_map, List.length_map, List.filter_filter]
  apply count_split
  intro x
  simp only [Function.comp]
  cases x.out <;> cases (x.peer == p) <;> cases (cs.g.exEst.contains x.id) <;> simp

/-- **C52.limits** — in every reachable state of Swarm ∥ connection-limits, with the limits
configured while no connection existed, the executable Spec finds no violated clause on the
Swarm's connection tables (exempt = admitted while the peer was on the bypass list): pending
incoming ≤ `max_pending_incoming`, pending outgoing ≤ `max_pending_outgoing`, established
incoming/outgoing ≤ their limits, per peer ≤ `max_established_per_peer`, total ≤
`max_established_total`. -/
theorem limits_of_Inv (cs : CS) (h : Inv cs) (ht : cs.limTaint = false) :
    violations cs.g.lim.limits cs.table = [] := by
  obtain ⟨_, x, l⟩ := h
  have l := l ht
  have h1 : within cs.g.lim.limits.maxPI cs.table.pendIn.length = true := by
    apply within_of; intro m hm
    rw [table_pendIn]; have := l.pi m hm; rw [x.pi] at this; simpa [piIds] using this
  have h2 : within cs.g.lim.limits.maxPO cs.table.pendOut.length = true := by
    apply within_of; intro m hm
    have := l.po m hm; rw [x.po] at this; simpa [CS.table, poIds] using this
  have h3 : within cs.g.lim.limits.maxEI cs.table.estIn.length = true := by
    apply within_of; intro m hm
    rw [table_estIn_length, ← x.ei]; exact l.ei m hm
  have h4 : within cs.g.lim.limits.maxEO cs.table.estOut.length = true := by
    apply within_of; intro m hm
    rw [table_estOut_length, ← x.eo]; exact l.eo m hm
  have h5 : ∀ p, within cs.g.lim.limits.maxPP (perPeerCount cs.table p) = true := by
    intro p; apply within_of; intro m hm
    rw [perPeerCount_eq, ← x.pp]; exact l.pp m p hm
  have h6 : within cs.g.lim.limits.maxTot (cs.table.estIn.length + cs.table.estOut.length) = true := by
    apply within_of; intro m hm
    rw [table_estIn_length, table_estOut_length, ← x.ei, ← x.eo]; exact l.tot m hm
  have h5' : ((cs.table.estIn ++ cs.table.estOut).all fun x => within cs.g.lim.limits.maxPP (perPeerCount cs.table x.2)) = true := by
    apply List.all_eq_true.2; intro y _; exact h5 y.2
  simp [violations, h1, h2, h3, h4, h5', h6]

theorem limits (peerIds : List (List Nat)) (l : Limits) (ops : List COp)
    (ht : (Machine.exec mstep (CS.init peerIds l) ops).limTaint = false) :
    violations (Machine.exec mstep (CS.init peerIds l) ops).g.lim.limits
      (Machine.exec mstep (CS.init peerIds l) ops).table = [] :=
  limits_of_Inv _ (invariant peerIds l ops) ht

theorem limits_explicit_of_Inv (cs : CS) (h : Inv cs) (ht : cs.limTaint = false) :
    (∀ m, cs.g.lim.limits.maxPI = some m → cs.sw.pendIn.length ≤ m) ∧
    (∀ m, cs.g.lim.limits.maxPO = some m → (cs.sw.pendOut.filter (fun pc => !cs.g.exDial.contains pc.id)).length ≤ m) ∧
    (∀ m, cs.g.lim.limits.maxEI = some m → (cs.sw.est.filter (fun e => !e.out && !cs.g.exEst.contains e.id)).length ≤ m) ∧
    (∀ m, cs.g.lim.limits.maxEO = some m → (cs.sw.est.filter (fun e => e.out && !cs.g.exEst.contains e.id)).length ≤ m) ∧
    (∀ m p, cs.g.lim.limits.maxPP = some m → (cs.sw.est.filter (fun e => e.peer == p && !cs.g.exEst.contains e.id)).length ≤ m) ∧
    (∀ m, cs.g.lim.limits.maxTot = some m → (cs.sw.est.filter (fun e => !cs.g.exEst.contains e.id)).length ≤ m) := by
  obtain ⟨_, x, l⟩ := h
  have l := l ht
  refine ⟨?_, ?_, ?_, ?_, ?_, ?_⟩
  · intro m hm; have := l.pi m hm; rw [x.pi] at this; simpa [piIds] using this
  · intro m hm; have := l.po m hm; rw [x.po, poIds, List.filter_map, List.length_map] at this
    exact this
  · intro m hm; have := l.ei m hm; rw [x.ei, cnt_map_ids, List.filter_filter] at this
    rw [show (fun e : Est => !e.out && !cs.g.exEst.contains e.id) = (fun e => !cs.g.exEst.contains e.id && !e.out) from
      funext fun e => Bool.and_comm _ _]
    exact this
  · intro m hm; have := l.eo m hm; rw [x.eo, cnt_map_ids, List.filter_filter] at this
    rw [show (fun e : Est => e.out && !cs.g.exEst.contains e.id) = (fun e => !cs.g.exEst.contains e.id && e.out) from
      funext fun e => Bool.and_comm _ _]
    exact this
  · intro m p hm; have := l.pp m p hm; rw [x.pp, cnt_map_ids, List.filter_filter] at this
    rw [show (fun e : Est => e.peer == p && !cs.g.exEst.contains e.id) = (fun e => !cs.g.exEst.contains e.id && e.peer == p) from
      funext fun e => Bool.and_comm _ _]
    exact this
  · intro m hm
    have := l.tot m hm
    rw [x.ei, x.eo, cnt_map_ids, cnt_map_ids] at this
    have h2 := split_count cs.sw.est (fun e => e.out) (fun e => !cs.g.exEst.contains e.id)
    omega

/-- the clauses of `violations` spelled out as inequalities on the Swarm's tables -/
theorem limits_explicit (peerIds : List (List Nat)) (l : Limits) (ops : List COp)
    (ht : (Machine.exec mstep (CS.init peerIds l) ops).limTaint = false) :
    let cs := Machine.exec mstep (CS.init peerIds l) ops
    (∀ m, cs.g.lim.limits.maxPI = some m → cs.sw.pendIn.length ≤ m) ∧
    (∀ m, cs.g.lim.limits.maxPO = some m → (cs.sw.pendOut.filter (fun pc => !cs.g.exDial.contains pc.id)).length ≤ m) ∧
    (∀ m, cs.g.lim.limits.maxEI = some m → (cs.sw.est.filter (fun e => !e.out && !cs.g.exEst.contains e.id)).length ≤ m) ∧
    (∀ m, cs.g.lim.limits.maxEO = some m → (cs.sw.est.filter (fun e => e.out && !cs.g.exEst.contains e.id)).length ≤ m) ∧
    (∀ m p, cs.g.lim.limits.maxPP = some m → (cs.sw.est.filter (fun e => e.peer == p && !cs.g.exEst.contains e.id)).length ≤ m) ∧
    (∀ m, cs.g.lim.limits.maxTot = some m → (cs.sw.est.filter (fun e => !cs.g.exEst.contains e.id)).length ≤ m) :=
  limits_explicit_of_Inv _ (invariant peerIds l ops) ht

/-- the role-override flag of a dial (`DialOpts::override_role()`) is read by nothing -/
theorem step_ov_irrelevant (cs : CS) (op : Op) (ov ov' : Bool) : step cs (.sw op ov) = step cs (.sw op ov') := rfl

/-- the history with every role-override flag cleared -/
def eraseOv : COp → COp
  | .sw op _ => .sw op false
  | o => o

theorem exec_eraseOv (ops : List COp) : ∀ cs : CS,
    Machine.exec mstep cs (ops.map eraseOv) = Machine.exec mstep cs ops := by
  induction ops with
  | nil => intro cs; rfl
  | cons o os ih =>
    intro cs
    simp only [List.map_cons, Machine.exec, List.foldl_cons] at ih ⊢
    have : (mstep cs (eraseOv o)).1 = (mstep cs o).1 := by cases o <;> rfl
    rw [this]; exact ih _

/-- **C52.limits_hold** — histories in which ANY subset of the dials is made with
`override_role()` (flags arbitrary, on known-peer and address-only dials alike, to bypassed or
non-bypassed peers): the reached state is the one of the flag-free history, no clause of the Spec is
violated, and in particular a role-overridden dialed connection counts as pending OUTGOING while it
is pending and as established OUTGOING once established: `max_pending_outgoing`,
`max_established_outgoing`, `max_established_per_peer` and the total hold with them included. -/
theorem limits_hold (peerIds : List (List Nat)) (l : Limits) (ops : List COp)
    (ht : (Machine.exec mstep (CS.init peerIds l) ops).limTaint = false) :
    let cs := Machine.exec mstep (CS.init peerIds l) ops
    cs = Machine.exec mstep (CS.init peerIds l) (ops.map eraseOv) ∧
    violations cs.g.lim.limits cs.table = [] ∧
    (∀ m, cs.g.lim.limits.maxPO = some m → (cs.sw.pendOut.filter (fun pc => !cs.g.exDial.contains pc.id)).length ≤ m) ∧
    (∀ m, cs.g.lim.limits.maxEO = some m → (cs.sw.est.filter (fun e => e.out && !cs.g.exEst.contains e.id)).length ≤ m) ∧
    (∀ m p, cs.g.lim.limits.maxPP = some m → (cs.sw.est.filter (fun e => e.peer == p && !cs.g.exEst.contains e.id)).length ≤ m) ∧
    (∀ m, cs.g.lim.limits.maxTot = some m → (cs.sw.est.filter (fun e => !cs.g.exEst.contains e.id)).length ≤ m) := by
  have h := limits_explicit_of_Inv _ (invariant peerIds l ops) ht
  exact ⟨(exec_eraseOv ops _).symm, limits peerIds l ops ht, h.2.1, h.2.2.2.1, h.2.2.2.2.1, h.2.2.2.2.2⟩

/-- **C52.bookkeeping_exact** — no leak, for every history: the behaviour's five sets are exactly
the Swarm's tables (pending outgoing: the dials the behaviour was asked to count), so every
denial, failure, abort and close removes the id. -/
theorem bookkeeping_exact (peerIds : List (List Nat)) (l : Limits) (ops : List COp) :
    let cs := Machine.exec mstep (CS.init peerIds l) ops
    cs.g.lim.pendIn = cs.sw.pendIn.map (·.id) ∧
    cs.g.lim.pendOut = (cs.sw.pendOut.map (·.id)).filter (fun c => !cs.g.exDial.contains c) ∧
    cs.g.lim.estIn = (cs.sw.est.filter (fun e => !e.out)).map (·.id) ∧
    cs.g.lim.estOut = (cs.sw.est.filter (fun e => e.out)).map (·.id) ∧
    (∀ p, ppGet cs.g.lim.perPeer p = (cs.sw.est.filter (fun e => e.peer == p)).map (·.id)) := by
  intro cs
  obtain ⟨_, x, _⟩ := invariant peerIds l ops
  exact ⟨x.pi, x.po, x.ei, x.eo, x.pp⟩

/-- the Swarm's connection ids are unique (needed to read list lengths as set sizes) -/
theorem ids_unique (peerIds : List (List Nat)) (l : Limits) (ops : List COp) :
    let cs := Machine.exec mstep (CS.init peerIds l) ops
    (cs.sw.est.map (·.id)).Nodup ∧
    (∀ c ∈ cs.sw.pendOut.map (·.id), c ∉ cs.sw.est.map (·.id)) ∧
    (∀ c ∈ cs.sw.pendIn.map (·.id), c ∉ cs.sw.est.map (·.id)) := by
  intro cs
  obtain ⟨w, _, _⟩ := invariant peerIds l ops
  exact ⟨w.nde, w.dpe, w.die⟩

/-! ## the verdict fed back is the verdict computed: the decision point of a step sees the state
before the step -/

/-- non-vacuity: with `max_established_incoming = 1` the second inbound connection is denied by
the limits behaviour (no probe denial), and a third one from a bypassed peer is admitted -/
example :
    let cs0 := CS.init [[0], [1], [2], [3]] { maxEI := some 1 }
    let ops : List COp := [.sw (.incoming false) false, .sw (.resolveIn 0 1 false) false, .sw (.incoming false) false,
      .sw (.resolveIn 1 2 false) false, .bypass 3, .sw (.incoming false) false, .sw (.resolveIn 2 3 false) false]
    let cs := Machine.exec mstep cs0 ops
    (cs.sw.est.map (·.id), cs.g.lim.estIn, cs.g.exEst, cs.limTaint) = ([0, 2], [0, 2], [2], false) := by
  decide

/-- the pre-fix-style mutant `current > limit` would break the invariant: the model's `checkLimit`
denies exactly at the limit -/
theorem checkLimit_at_limit (m : Nat) : checkLimit (some m) m = true := by simp [checkLimit]

end C52

#print axioms C52.invariant
#print axioms C52.limits
#print axioms C52.limits_explicit
#print axioms C52.limits_hold
#print axioms C52.bookkeeping_exact
#print axioms C52.ids_unique
#print axioms C52.checkLimit_at_limit
