import Libp2pModel.Proofs.C56
/-!
# C56 — property theorems: the WebRTC stream half-close state machine is safe

For every sequence (any length) of local `poll_read / poll_write / poll_flush / poll_close /
poll_close_read` calls and environment moves (inbound frames with FIN / STOP_SENDING / RESET /
no / invalid flag and any payload, EOF, the underlying writer becoming pending / ready / failing):
no panic; reads succeed only while the read half is open, writes only while the write half is
open; once an inbound RESET has been processed every read/write/close/close_read fails with
`ConnectionReset`, forever, and the read buffer is empty.
-/
namespace C56

/-- every state reachable from a fresh stream satisfies the invariant -/
theorem reachable_inv (ops : List Op) : Inv (Machine.exec step init ops) :=
  Machine.invariant_of_step step Inv (fun s o h => (step_inv s o h).1) ops init inv_init

/-- **No panic**: along every op sequence from a fresh stream, no step hits `unreachable!`, a
`debug_assert!`, or `expect("to not close twice")` (nor does a model loop run out of fuel). -/
theorem no_panic (ops : List Op) :
    ∀ out ∈ (Machine.run step init ops).2, out.res.isPanic = false :=
  Machine.outputs_of_step step Inv (fun out => out.res.isPanic = false)
    (fun s o h => (step_inv s o h).1) (fun s o h => (step_inv s o h).2) ops init inv_init

theorem readBarrier_kind (s : State) (k : Kind) (h : readBarrier s = some k) :
    k = .brokenPipe ∨ k = .connectionReset := by
  unfold readBarrier at h; split at h <;> simp at h <;> simp [← h]

theorem writeBarrier_kind (s : State) (k : Kind) (h : writeBarrier s = some k) :
    k = .brokenPipe ∨ k = .connectionReset := by
  unfold writeBarrier at h; split at h <;> simp at h <;> simp [← h]

/-- **Reads only while the read half is open** (any state, reachable or not): if `poll_read`
returns `Ok`, the read half was open when it was called … -/
theorem read_only_if_open (σ : St) (n : Nat) (d : List Nat) (h : (pollRead σ n).2 = .okData d) :
    readOpen σ.st = true := by
  cases ho : readOpen σ.st with
  | true => rfl
  | false =>
    obtain ⟨k, hk, -⟩ := pollRead_closed σ n ho
    rw [hk] at h; simp at h

/-- … and otherwise it fails with `BrokenPipe` (or `ConnectionReset` after a reset) without
consuming anything from the channel or changing any state. -/
theorem read_closed_fails (σ : St) (n : Nat) (h : readOpen σ.st = false) :
    pollRead σ n = (σ, .err .brokenPipe) ∨ pollRead σ n = (σ, .err .connectionReset) := by
  obtain ⟨k, hk, hb⟩ := pollRead_closed σ n h
  rw [hk]
  rcases readBarrier_kind _ _ hb with rfl | rfl <;> simp

/-- **Writes only while the write half is open**: `poll_write` returns `Ok(n)` only if its write
barrier was passed in the state the stream is in when the call returns; `n` is the accepted
length (capped at `MAX_DATA_LEN`). -/
theorem write_only_if_open (σ : St) (d : List Nat) (n : Nat) (h : (pollWrite σ d).2.1 = .okN n) :
    writeOpen (pollWrite σ d).1.st = true ∧ n = min d.length maxDataLen := by
  obtain ⟨h1, h2, h3⟩ := pollWrite_ok σ d n h
  rw [h2]; exact ⟨h1, h3⟩

/-- a write in a state whose write half is not open fails at once with `BrokenPipe` /
`ConnectionReset`: nothing is sent, no inbound frame consumed, no state changed -/
theorem write_closed_fails (σ : St) (d : List Nat) (h : writeOpen σ.st = false) :
    pollWrite σ d = (σ, .err .brokenPipe, []) ∨ pollWrite σ d = (σ, .err .connectionReset, []) := by
  obtain ⟨k, hk, hb⟩ := pollWrite_closed σ d h
  rw [hk]
  rcases writeBarrier_kind _ _ hb with rfl | rfl <;> simp

theorem pollFlush_fields (σ : St) : (pollFlush σ).1.st = σ.st ∧ (pollFlush σ).1.rbuf = σ.rbuf := by
  unfold pollFlush
  obtain ⟨g1, -, -, -, g5⟩ := sinkFlush_fields σ
  generalize sinkFlush σ = q at g1 g5
  obtain ⟨σ1, sk, w⟩ := q
  cases sk <;> exact ⟨g1, g5⟩

/-- processing an inbound RESET, in ANY state, moves to the reset state and clears the read buffer -/
theorem reset_enters (σ : St) : isReset (applyFlag σ .reset) = true ∧ (applyFlag σ .reset).rbuf = [] := by
  cases hs : σ.st <;> simp [applyFlag, handleInboundFlag, isReset, hs]

/-- one step from a reset state: still reset, buffer still empty, and a local I/O operation fails
with `ConnectionReset` -/
theorem reset_step (σ : St) (o : Op) (hr : isReset σ = true) :
    isReset (step σ o).1 = true ∧ (step σ o).1.rbuf = σ.rbuf ∧
    (o.isLocalIo = true → (step σ o).2.res = .err .connectionReset) := by
  have hst : σ.st = .bothClosed true := by simpa [isReset] using hr
  cases o with
  | read n =>
    have : pollRead σ n = (σ, .err .connectionReset) := by
      unfold pollRead pollReadLoop; simp [hst, readBarrier]
    simp [step, this, hr]
  | write d =>
    have : pollWrite σ d = (σ, .err .connectionReset, []) := by
      unfold pollWrite
      rw [drainFlags_skip _ σ (by simp [hst, readFlagsInAsyncWrite])]
      simp [hst, writeBarrier]
    simp [step, this, hr]
  | flush =>
    obtain ⟨h3, h4⟩ := pollFlush_fields σ
    simp [step, isReset, h3, h4, hst, Op.isLocalIo]
  | close =>
    have : pollClose σ = ({ σ with st := .bothClosed true }, .err .connectionReset, []) := by
      unfold pollClose pollCloseLoop; simp [hst, closeWriteBarrier]
    simp [step, this, isReset]
  | closeRead =>
    have : pollCloseRead σ = ({ σ with st := .bothClosed true }, .err .connectionReset, []) := by
      unfold pollCloseRead pollCloseReadLoop; simp [hst, closeReadBarrier]
    simp [step, this, isReset]
  | inject m => simp [step, isReset, hst, Op.isLocalIo]
  | eof => simp [step, isReset, hst, Op.isLocalIo]
  | block b => simp [step, isReset, hst, Op.isLocalIo]
  | werr b => simp [step, isReset, hst, Op.isLocalIo]

/-- **Reset is absorbing**: from a state in which an inbound RESET has been processed, along
every further op sequence, every `poll_read / poll_write / poll_close / poll_close_read` fails
with `ConnectionReset`. -/
theorem reset_absorbing (ops : List Op) : ∀ (σ : St), isReset σ = true →
    ∀ p ∈ ops.zip (Machine.run step σ ops).2, p.1.isLocalIo = true → p.2.res = .err .connectionReset := by
  induction ops with
  | nil => intro σ _ p hp; simp at hp
  | cons o os ih =>
    intro σ hr p hp
    obtain ⟨h1, h2, h3⟩ := reset_step σ o hr
    simp only [Machine.run, List.zip_cons_cons, List.mem_cons] at hp
    rcases hp with rfl | hp
    · exact h3
    · exact ih _ h1 p hp

/-- … and the stream stays in the reset state with an empty read buffer -/
theorem reset_forever (ops : List Op) (σ : St) (hr : isReset σ = true) (hb : σ.rbuf = []) :
    isReset (Machine.exec step σ ops) = true ∧ (Machine.exec step σ ops).rbuf = [] :=
  Machine.invariant_of_step step (fun s => isReset s = true ∧ s.rbuf = [])
    (fun s o h => ⟨(reset_step s o h.1).1, by rw [(reset_step s o h.1).2.1]; exact h.2⟩) ops σ ⟨hr, hb⟩

/-- **At most one FIN and one STOP_SENDING** are ever handed to the channel, on every history -/
theorem fin_once (ops : List Op) :
    (Machine.exec step init ops).finSent ≤ 1 ∧ (Machine.exec step init ops).stopSent ≤ 1 := by
  obtain ⟨-, hf, hs⟩ := reachable_inv ops
  constructor
  · rcases hf with hf | hf <;> omega
  · rcases hs with hs | hs <;> omega

/-- **Spec ⇐ model**: from every invariant state (so from every reachable state) the executable
Spec accepts the model's own output for every op. -/
theorem spec_accepts_model (σ : St) (o : Op) (h : Inv σ) :
    specStep σ o (step σ o).2.res = "ok" := by
  unfold specStep
  have hnp := (step_inv σ o h).2
  simp only [hnp, Bool.false_eq_true, ↓reduceIte]
  by_cases hr : isReset σ = true
  · by_cases hl : o.isLocalIo = true
    · have := (reset_step σ o hr).2.2 hl
      simp only [this, hr, hl, Bool.and_self, bne_self_eq_false, Bool.and_false, Bool.false_eq_true, ↓reduceIte]
    · simp only [hr, hl, Bool.and_false, Bool.false_and, Bool.false_eq_true, ↓reduceIte]
      cases o <;> simp [Op.isLocalIo] at hl <;> simp [step]
  · simp only [hr, Bool.false_and, Bool.false_eq_true, ↓reduceIte]
    cases o with
    | read n =>
      simp only [step]
      cases hres : (pollRead σ n).2 with
      | okData d => simp [read_only_if_open σ n d hres]
      | _ => rfl
    | write d =>
      simp only [step]
      cases hres : (pollWrite σ d).2.1 with
      | okN n => simp [(pollWrite_ok σ d n hres).1]
      | _ => rfl
    | flush => simp [step]
    | close => simp [step]
    | closeRead => simp [step]
    | inject m => rfl
    | eof => rfl
    | block b => rfl
    | werr b => rfl

/-! ## non-vacuity -/
example : (Machine.run step init [.close]).2.map (·.res) = [.okUnit] := by decide
example : (Machine.run step init [.inject ⟨some 2, none⟩, .read 4, .read 4, .write [1], .close, .closeRead]).2.map (·.res)
    = [.env, .okData [], .err .connectionReset, .err .connectionReset, .err .connectionReset, .err .connectionReset] := by
  decide
example : (Machine.run step init [.inject ⟨some 0, none⟩, .read 4, .read 4, .write [1, 2]]).2.map (·.res)
    = [.env, .okData [], .err .brokenPipe, .okN 2] := by decide

end C56

#print axioms C56.no_panic
#print axioms C56.read_only_if_open
#print axioms C56.read_closed_fails
#print axioms C56.write_only_if_open
#print axioms C56.write_closed_fails
#print axioms C56.reset_enters
#print axioms C56.reset_step
#print axioms C56.reset_absorbing
#print axioms C56.reset_forever
#print axioms C56.fin_once
#print axioms C56.spec_accepts_model
#print axioms C56.reachable_inv
