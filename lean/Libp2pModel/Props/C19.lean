import Libp2pModel.Model.C19
import Libp2pModel.Proofs.C19_Key
import Libp2pModel.Proofs.C19_Plain
import Libp2pModel.Proofs.C19_Pnet
/-!
# C19 — property theorems

"The plaintext handshake fails when the announced peer id does not match the announced public key,
and bytes the remote sent right after its handshake message are still delivered to the application.
Two pnet endpoints with the same pre-shared key exchange bytes transparently for any write/read
chunking and partial-write behaviour, and a pre-shared key file parses back to the key it was
printed from while parsing any text never panics."
-/
namespace C19

/-! ## key file -/

/-- Parsing ANY byte string (in particular any UTF-8 text) never panics — the code after the
repair of `parse_hex_key`. -/
theorem keyfile_no_panic (s : Bytes) : parse s ≠ .panic := parseKey_fixed_ne_panic s

/-- A printed key parses back to itself. -/
theorem keyfile_roundtrip (k : Bytes) (hl : k.length = 32) (hk : ∀ b ∈ k, b < 256) :
    parse (format k) = .ok k := parseKey_format false k hl hk

/-- The repair changed nothing but the panics. -/
theorem keyfile_fix_conservative (s : Bytes) (h : parseBuggy s ≠ .panic) : parseBuggy s = parse s :=
  parseKey_conservative s h

/-- `"/key/swarm/psk/1.0.0/\n/base16/\na\u{e9}" ++ "0"*61 ++ "\n"` -/
def counterexampleInput : Bytes :=
  KEYTYPE ++ [10] ++ ENCODING ++ [10] ++ [97, 0xC3, 0xA9] ++ List.replicate 61 48 ++ [10]

/-- Documentation of the defect: the code BEFORE the repair (byte-index slicing) panics on a
64-byte key line with a two-byte character at offset 1. -/
theorem keyfile_buggy_counterexample : parseBuggy counterexampleInput = .panic := by decide

/-- …which the repaired code reports as an invalid key character. -/
theorem keyfile_counterexample_fixed :
    parse counterexampleInput = .invalidKeyChar .invalidDigit := by decide

/-- The defect needed a non-ASCII character: the old `parse_hex_key` never panicked on a pure-ASCII
key line. -/
theorem keyfile_buggy_ascii_no_panic (s : Bytes) (h : ∀ b ∈ s, b < 128) : parseHexKey true s ≠ .panic :=
  parseHexKey_buggy_ascii s h

/-- the Spec accepts the model -/
theorem spec_keyfile_parse (s : Bytes) : specParse s (parse s) = true := by
  simp [specParse, keyfile_no_panic]

theorem spec_keyfile_roundtrip (k : Bytes) (hl : k.length = 32) (hk : ∀ b ∈ k, b < 256) :
    specRoundtrip k (format k) (parse (format k)) = true := by
  simp [specRoundtrip, keyfile_roundtrip k hl hk]

/-! ## plaintext -/

/-- **Mismatch is rejected**, for every chunking of the socket stream and whatever follows the
handshake message: if the stream starts with an exchange whose id parses to `ip`, whose key's peer
id is `kp`, and `ip ≠ kp`, the handshake fails with `PeerIdMismatch`. -/
theorem mismatch_rejected (O : Oracle) (chunks : List Bytes) (ex : Exchange) (rest kp ip : Bytes)
    (hf : frameDecode chunks.flatten = .got ex rest)
    (hk : O.key (ex.pubkey.getD []) = some kp) (hi : O.pid (ex.id.getD []) = some ip)
    (hne : ip ≠ kp) :
    (hsRead O [] chunks).1 = .mismatch := by
  have h := hsRead_eq_whole O chunks []
  simp only [List.nil_append] at h
  have hw : hsWhole O chunks.flatten = .mismatch := by
    simp [hsWhole, hf, checkExchange, hk, hi, hne]
  rw [hw] at h
  exact (HsRes.extend_eq_mismatch _ _).1 h.symm

/-- **Acceptance implies consistency**, and the bytes handed over to `Output` (`read_buffer`, then
the unread rest of the socket) are exactly what followed the handshake message. -/
theorem accepted_iff_consistent (O : Oracle) (chunks : List Bytes) (p l : Bytes)
    (h : (hsRead O [] chunks).1 = .ok p l) :
    ∃ ex, frameDecode chunks.flatten = .got ex (l ++ (hsRead O [] chunks).2.flatten) ∧
      O.key (ex.pubkey.getD []) = some p ∧ O.pid (ex.id.getD []) = some p := by
  have hw := hsRead_eq_whole O chunks []
  simp only [List.nil_append] at hw
  rw [HsRes.extend_ok _ _ p l h] at hw
  exact (hsWhole_ok_iff O _ _ _).1 hw

/-- **Leftover is delivered**: the remote sends one handshake message `W` immediately followed by
`data`; for ANY split of `W ++ data` into socket reads, after a successful handshake the
application reads exactly `data`: every sequence of reads returns a prefix, nothing is lost
(`out ++ still-pending = data`), and `k ≥ |data|` reads with a non-empty buffer return all of it. -/
theorem leftover_delivered (O : Oracle) (W data : Bytes) (ex : Exchange) (chunks : List Bytes)
    (hW : frameDecode W = .got ex []) (hsplit : chunks.flatten = W ++ data)
    (p l : Bytes) (hok : (hsRead O [] chunks).1 = .ok p l) :
    let st : PlainSt := ⟨l, (hsRead O [] chunks).2⟩
    st.pending = data ∧
    (∀ ns, (readMany st ns).2 ++ (readMany st ns).1.pending = data) ∧
    (∀ n k, 0 < n → data.length ≤ k → (readMany st (List.replicate k n)).2 = data) := by
  obtain ⟨ex', hf, _, _⟩ := accepted_iff_consistent O chunks p l hok
  have hst := frameDecode_stable W data (by rw [hW]; simp)
  rw [hW] at hst
  simp only [FrameRes.extend, List.nil_append] at hst
  rw [hsplit, hst] at hf
  have hp : l ++ (hsRead O [] chunks).2.flatten = data := by
    simp only [FrameRes.got.injEq] at hf; exact hf.2.symm
  intro st
  have hpend : st.pending = data := hp
  refine ⟨hpend, ?_, ?_⟩
  · intro ns; rw [readMany_spec, hpend]
  · intro n k hn hk; rw [readMany_complete n hn k st (by rw [hpend]; exact hk), hpend]

/-- an honest message is a frame (non-vacuity of `leftover_delivered`): ed25519-sized fields -/
example : frameDecode ([8, 0x0A, 2, 1, 2, 0x12, 2, 3, 4] ++ [9, 9]) = .got ⟨some [1, 2], some [3, 4]⟩ [9, 9] := by
  decide

/-- the Spec accepts the model -/
theorem spec_plain_hs (O : Oracle) (chunks : List Bytes) :
    specHs O chunks.flatten (hsRead O [] chunks).1 = true := by
  have h := hsRead_eq_whole O chunks []
  simp only [List.nil_append] at h
  unfold specHs
  rw [h]
  cases (hsRead O [] chunks).1 <;> simp [HsRes.extend]

theorem spec_plain_read (st : PlainSt) (n : Nat) : specRead st.pending n (outRead st n).2 = true := by
  have ⟨h1, h2, h3⟩ := outRead_spec st n
  unfold specRead
  simp only [Bool.and_eq_true, decide_eq_true_eq, beq_iff_eq]
  refine ⟨⟨h2, ?_⟩, ?_⟩
  · rw [← h1]; simp
  · simp only [List.isEmpty_iff, Bool.or_eq_true, beq_iff_eq]
    intro h; exact h3 h

/-! ## pnet -/

/-- **CryptWriter**: after ANY sequence of `poll_write` / `poll_flush` / `poll_close` calls (and
reads on the peer), under ANY behaviour of the inner writer (partial writes, `Pending`,
`Interrupted`, zero-length writes, errors), the bytes handed to the inner writer followed by the
bytes still buffered are exactly the keystream-xor of the bytes that went through the cipher, in
order — nothing lost, duplicated or enciphered at a wrong position. -/
theorem cryptwriter (ks : Nat → Nat) (ops : List POp) :
    let s := pnetRun ks PnetSt.init ops
    s.cw.wire ++ s.cw.buf = xorKs ks 0 s.cw.plain ∧ s.cw.pos = s.cw.plain.length :=
  (pnetRun_inv ks ops _ (PnetSt.init_inv ks)).1

/-- one `poll_write` from any reachable state: `Ok(n)` takes the whole buffer, `Pending` takes
nothing -/
theorem cryptwriter_write (ks : Nat → Nat) (ops : List POp) (data : Bytes) (script : List Resp) :
    let st := (pnetRun ks PnetSt.init ops).cw
    (∀ n, (pollWrite ks st data script).2.1 = .ok n →
        n = data.length ∧ (pollWrite ks st data script).1.plain = st.plain ++ data) ∧
    ((pollWrite ks st data script).2.1 = .pending → (pollWrite ks st data script).1.plain = st.plain) := by
  have h := pollWrite_spec ks (pnetRun ks PnetSt.init ops).cw data script
    (pnetRun_inv ks ops _ (PnetSt.init_inv ks)).1
  exact ⟨h.2.1, h.2.2.1⟩

/-- `poll_flush`/`poll_close` returning `Ok` from any reachable state: the buffer is empty and
everything accepted so far is on the wire -/
theorem cryptwriter_flush (ks : Nat → Nat) (ops : List POp) (script : List Resp) (n : Nat) :
    let st := (pnetRun ks PnetSt.init ops).cw
    (pollFlush st script).2.1 = .ok n →
      (pollFlush st script).1.buf = [] ∧ (pollFlush st script).1.wire = xorKs ks 0 st.plain :=
  (pollFlush_spec ks _ script (pnetRun_inv ks ops _ (PnetSt.init_inv ks)).1).2.2 n

/-- **Transparency**: the reader (same key, same nonce ⇒ same keystream) has delivered exactly the
plaintext prefix it has consumed from the wire, for every interleaving of writes, flushes and reads
and every read chunking; once the writer's buffer is flushed and the wire is read to its end,
everything that went through the cipher has been delivered. -/
theorem pnet_transparent (ks : Nat → Nat) (ops : List POp) :
    let s := pnetRun ks PnetSt.init ops
    s.delivered = s.cw.plain.take s.rpos ∧ s.rpos ≤ s.cw.wire.length ∧
    (s.cw.buf = [] → s.rpos = s.cw.wire.length → s.delivered = s.cw.plain) := by
  have ⟨hcw, hr, hd⟩ := pnetRun_inv ks ops _ (PnetSt.init_inv ks)
  refine ⟨hd, hr, ?_⟩
  intro hb hrp
  rw [hd, hrp]
  have := congrArg List.length hcw.1
  rw [hb, List.append_nil, xorKs_length] at this
  rw [this, List.take_length]

/-- the Spec monitor (run by the driver on the implementation's outputs) accepts every run of the
model, for every op sequence and keystream -/
theorem spec_pnet (ks : Nat → Nat) (ops : List POp) :
    ∀ v ∈ monRun ks PnetSt.init PnetMon.init ops, v = "ok" :=
  monRun_ok ks ops _ _ ⟨PnetSt.init_inv ks, fun _ => ⟨rfl, rfl, rfl⟩⟩

/-- non-vacuity: a write answered by a 1-byte partial write then `Pending`, a flush, two reads -/
example :
    (pnetRun (fun i => i + 1) PnetSt.init
      [POp.write [10, 20, 30] [.acc 1, .pending], POp.flush [.intr, .acc 9], POp.read 2 9, POp.read 9 9]).delivered
      = [10, 20, 30] := by decide

example :
    (pnetRun (fun i => i + 1) PnetSt.init
      [POp.write [10, 20, 30] [.acc 1, .pending], POp.flush [.intr, .acc 9]]).cw.wire
      = [10 ^^^ 1, 20 ^^^ 2, 30 ^^^ 3] := by decide

end C19

#print axioms C19.keyfile_no_panic
#print axioms C19.keyfile_roundtrip
#print axioms C19.keyfile_fix_conservative
#print axioms C19.keyfile_buggy_counterexample
#print axioms C19.keyfile_counterexample_fixed
#print axioms C19.keyfile_buggy_ascii_no_panic
#print axioms C19.spec_keyfile_parse
#print axioms C19.spec_keyfile_roundtrip
#print axioms C19.mismatch_rejected
#print axioms C19.accepted_iff_consistent
#print axioms C19.leftover_delivered
#print axioms C19.hsRead_eq_whole
#print axioms C19.spec_plain_hs
#print axioms C19.spec_plain_read
#print axioms C19.cryptwriter
#print axioms C19.cryptwriter_write
#print axioms C19.cryptwriter_flush
#print axioms C19.pnet_transparent
#print axioms C19.spec_pnet
