import Libp2pModel.Proofs.C39_Disjoint
/-!
# C39 — `ClosestDisjointPeersIter` (partial)

Proved, for every operation sequence: every path keeps the plain iterator's invariant
(`num_waiting` = number of `Waiting` peers, per-path in-flight bound, no panic), hence the total
number of in-flight requests is at most `parallelism · max(num_results, parallelism)`; a peer is
handed out by `next` at most once over all paths; the merged result only contains peers that
some path reports as `Succeeded`.

Not proved here (see `full_statement`): termination measure for the disjoint iterator, the
"finished-closed" clause across paths (it holds per path by `C39.finished_closed`), sortedness of
the merged result.  Note that `into_result` of the disjoint iterator is *not* limited to
`num_results` peers (documented in the source: up to `num_results` per path).
-/
namespace C39.Disjoint
open C39 (Out Cfg Inv CfgOk)

def reach (cfg : Cfg) (k : Nat) (known : List Nat) (ops : List Op) : DIter :=
  Machine.exec step (init cfg k known) ops

theorem dinv_reach {cfg : Cfg} (hc : CfgOk cfg) (k : Nat) (known : List Nat) (ops : List Op) :
    DInv cfg (reach cfg k known ops) :=
  Machine.invariant_of_step step (DInv cfg) (fun d o h => (step_ok h o).1) ops _ (DInv.init hc k known)

theorem sum_le_of_forall (l : List Nat) (b : Nat) (h : ∀ x ∈ l, x ≤ b) : l.sum ≤ l.length * b := by
  induction l with
  | nil => simp
  | cons a t ih =>
    have h1 := h a List.mem_cons_self
    have h2 := ih (fun x hx => h x (List.mem_cons_of_mem _ hx))
    simp only [List.sum_cons, List.length_cons, Nat.succ_mul]
    omega

theorem length_step (d : DIter) (op : Op) : (step d op).1.iters.length = d.iters.length := by
  cases op with
  | next now =>
    simp only [step, next]
    have : ∀ (r : Nat) (d : DIter) (acc : Acc), (outer now r d acc).1.iters.length = d.iters.length := by
      intro r
      induction r with
      | zero => intro d acc; rfl
      | succ r ih =>
        intro d acc
        simp only [outer]
        split
        · rfl
        · split
          · rw [ih]; simp
          · simp
          · simp
    exact this _ d .none
  | success p closer =>
    simp only [step, onSuccess]
    (repeat' split) <;> simp [length_mapOthers]
  | failure p =>
    simp only [step, onFailure]
    (repeat' split) <;> simp [length_mapOthers]
  | finishPaths ps =>
    simp only [step, finishPaths]
    have : ∀ (ps : List Nat) (d : DIter), (ps.foldl (fun (d : DIter) p =>
        match cfind d.contacted p with
        | some (by_, _) =>
          match d.iters[by_]? with
          | some it => { d with iters := d.iters.set by_ (C39.finish it) }
          | none => d
        | none => d) d).iters.length = d.iters.length := by
      intro ps
      induction ps with
      | nil => intro d; rfl
      | cons q t ih =>
        intro d
        simp only [List.foldl_cons]
        rw [ih]
        (repeat' split) <;> simp
    exact this ps d
  | finish => simp [step, finish]

/-- **Per-path invariant and in-flight bound (partial)**: after any operation sequence every path
satisfies the plain iterator's invariant — in particular its `num_waiting` is its number of
`Waiting` peers and at most `max(num_results, parallelism)` — so the total number of in-flight
requests is at most `parallelism · max(num_results, parallelism)`; and no call panics. -/
theorem inflight_bound_partial {cfg : Cfg} (hc : CfgOk cfg) (k : Nat) (known : List Nat) (ops : List Op) :
    (∀ it ∈ (reach cfg k known ops).iters, Inv it ∧ it.cfg = cfg) ∧
    ((reach cfg k known ops).iters.map (·.numWaiting)).sum ≤
      cfg.parallelism * max cfg.numResults cfg.parallelism ∧
    ∀ out ∈ (Machine.run step (init cfg k known) ops).2, out ≠ .panic := by
  have h := dinv_reach hc k known ops
  have hlen : (reach cfg k known ops).iters.length = cfg.parallelism := by
    apply Machine.invariant_of_step step (fun d => d.iters.length = cfg.parallelism)
    · intro d o hd; rw [length_step]; exact hd
    · simp [init]
  refine ⟨h.paths, ?_, ?_⟩
  · have := sum_le_of_forall ((reach cfg k known ops).iters.map (·.numWaiting))
      (max cfg.numResults cfg.parallelism) (by
        intro x hx
        obtain ⟨it, hit, rfl⟩ := List.mem_map.1 hx
        have := (h.paths it hit)
        rw [← this.2]; exact this.1.nw_le)
    simpa [hlen] using this
  · exact Machine.outputs_of_step step (DInv cfg) (· ≠ .panic) (fun d o h => (step_ok h o).1)
      (fun d o h => (step_ok h o).2) ops _ (DInv.init hc k known)

/-! ## each peer once, over all paths -/

theorem innerLoop_ret (now : Nat) (contacted : List (Nat × Nat × Resp)) :
    ∀ (fuel : Nat) (it : C39.Iter) (acc : Acc) (p : Nat),
      (innerLoop now contacted fuel it acc).2 = .ret p → cfind contacted p = none := by
  intro fuel
  induction fuel with
  | zero => intro it acc p h; simp [innerLoop] at h
  | succ fuel ih =>
    intro it acc p h
    simp only [innerLoop] at h
    split at h
    · simp at h
    · rename_i q hq
      split at h
      · exact ih _ _ _ h
      · split at h
        · simp at h
        · exact ih _ _ _ h
      · split at h
        · simp at h
        · exact ih _ _ _ h
      · rename_i hc
        simp at h; subst h; exact hc
    · simp at h
    · simp at h
    · simp at h

theorem outer_contacted (now : Nat) : ∀ (r : Nat) (d : DIter) (acc : Acc),
    ((outer now r d acc).1.contacted = d.contacted ∧ ∀ p, (outer now r d acc).2 ≠ .waiting (some p)) ∨
    (∃ p i, (outer now r d acc).2 = .waiting (some p) ∧ cfind d.contacted p = none ∧
      (outer now r d acc).1.contacted = d.contacted ++ [(p, i, .waiting)]) := by
  intro r
  induction r with
  | zero => intro d acc; left; simp only [outer]; exact ⟨trivial, by cases acc <;> simp⟩
  | succ r ih =>
    intro d acc
    simp only [outer]
    split
    · left; exact ⟨rfl, by simp⟩
    · rename_i it hit
      split
      · rename_i acc' hres
        exact ih _ acc'
      · rename_i p hres
        right
        exact ⟨p, d.pos, rfl, innerLoop_ret _ _ _ _ _ _ hres, rfl⟩
      · left; exact ⟨rfl, by simp⟩

theorem cfind_append (l : List (Nat × Nat × Resp)) (e : Nat × Nat × Resp) (q : Nat) :
    cfind (l ++ [e]) q = match cfind l q with
      | some v => some v
      | none => if e.1 = q then some e.2 else none := by
  induction l with
  | nil => obtain ⟨k, v⟩ := e; simp [cfind]
  | cons a t ih => grind [cfind]

theorem cfind_cset_isSome (l : List (Nat × Nat × Resp)) (p : Nat) (v : Nat × Resp) (q : Nat) :
    (cfind (cset l p v) q).isSome = (cfind l q).isSome := by
  induction l with
  | nil => rfl
  | cons a t ih => grind [cfind, cset]

/-- the `contacted_peers` map only grows, and a call hands out a peer only if it was absent -/
theorem step_contacted (d : DIter) (op : Op) :
    (∀ q, (cfind d.contacted q).isSome → (cfind (step d op).1.contacted q).isSome) ∧
    (∀ p, (step d op).2 = .waiting (some p) →
      cfind d.contacted p = none ∧ (cfind (step d op).1.contacted p).isSome) := by
  cases op with
  | next now =>
    simp only [step, next]
    rcases outer_contacted now d.iters.length d .none with ⟨h1, h2⟩ | ⟨p, i, h1, h2, h3⟩
    · exact ⟨fun q hq => by rw [h1]; exact hq, fun p hp => absurd hp (h2 p)⟩
    · refine ⟨fun q hq => ?_, fun p' hp' => ?_⟩
      · rw [h3, cfind_append]
        cases hc : cfind d.contacted q with
        | none => rw [hc] at hq; simp at hq
        | some v => rfl
      · rw [h1] at hp'
        simp at hp'; subst hp'
        refine ⟨h2, ?_⟩
        rw [h3, cfind_append, h2]; simp
  | success p closer =>
    refine ⟨fun q hq => ?_, fun p' hp' => ?_⟩
    · simp only [step, onSuccess]
      (repeat' split) <;> (try exact hq)
      rw [cfind_cset_isSome]; exact hq
    · exfalso
      simp only [step, onSuccess] at hp'
      (repeat' split at hp') <;> simp at hp'
  | failure p =>
    refine ⟨fun q hq => ?_, fun p' hp' => ?_⟩
    · simp only [step, onFailure]
      (repeat' split) <;> (try exact hq)
      rw [cfind_cset_isSome]; exact hq
    · exfalso
      simp only [step, onFailure] at hp'
      (repeat' split at hp') <;> simp at hp'
  | finishPaths ps =>
    have hct : (step d (.finishPaths ps)).1.contacted = d.contacted := by
      simp only [step, finishPaths]
      have : ∀ (ps : List Nat) (d : DIter), (ps.foldl (fun (d : DIter) p =>
          match cfind d.contacted p with
          | some (by_, _) =>
            match d.iters[by_]? with
            | some it => { d with iters := d.iters.set by_ (C39.finish it) }
            | none => d
          | none => d) d).contacted = d.contacted := by
        intro ps
        induction ps with
        | nil => intro d; rfl
        | cons q t ih =>
          intro d
          simp only [List.foldl_cons]
          rw [ih]
          (repeat' split) <;> rfl
      exact this ps d
    refine ⟨fun q hq => by rw [hct]; exact hq, fun p' hp' => ?_⟩
    simp [step, finishPaths] at hp'
  | finish =>
    exact ⟨fun q hq => hq, fun p' hp' => by simp [step] at hp'⟩

def issuedOf : Out → List Nat
  | .waiting (some p) => [p]
  | _ => []

/-- peers handed out by `next` along a run -/
def issuedList : DIter → List Op → List Nat
  | _, [] => []
  | d, o :: os => issuedOf (step d o).2 ++ issuedList (step d o).1 os

/-- **Each peer is contacted at most once overall** (over all paths), along any operation
sequence from any state — in particular from `with_config`. -/
theorem each_peer_once (ops : List Op) : ∀ d : DIter,
    (issuedList d ops).Nodup ∧ ∀ q ∈ issuedList d ops, cfind d.contacted q = none := by
  induction ops with
  | nil => intro d; simp [issuedList]
  | cons o os ih =>
    intro d
    obtain ⟨ihn, ihc⟩ := ih (step d o).1
    obtain ⟨hmono, hiss⟩ := step_contacted d o
    have hnone : ∀ q ∈ issuedList (step d o).1 os, cfind d.contacted q = none := by
      intro q hq
      have := ihc q hq
      cases hc : cfind d.contacted q with
      | none => rfl
      | some v =>
        have := hmono q (by simp [hc])
        rw [ihc q hq] at this; simp at this
    simp only [issuedList]
    cases hout : (step d o).2 with
    | waiting p =>
      cases p with
      | none => simpa [issuedOf] using ⟨ihn, hnone⟩
      | some p =>
        obtain ⟨h1, h2⟩ := hiss p hout
        simp only [issuedOf, List.singleton_append, List.nodup_cons, List.mem_cons]
        refine ⟨⟨?_, ihn⟩, ?_⟩
        · intro hmem
          rw [ihc p hmem] at h2; simp at h2
        · rintro q (rfl | hq)
          · exact h1
          · exact hnone q hq
    | atCapacity => simpa [issuedOf] using ⟨ihn, hnone⟩
    | finished => simpa [issuedOf] using ⟨ihn, hnone⟩
    | bool b => simpa [issuedOf] using ⟨ihn, hnone⟩
    | unit => simpa [issuedOf] using ⟨ihn, hnone⟩
    | panic => simpa [issuedOf] using ⟨ihn, hnone⟩

/-- every list of `ls'` is contained in the list of `ls` at the same index -/
def Sub (ls' ls : List (List Nat)) : Prop := ∀ i x, x ∈ ls'.getD i [] → x ∈ ls.getD i []

theorem Sub.refl (ls : List (List Nat)) : Sub ls ls := fun _ _ h => h
theorem Sub.trans {a b c : List (List Nat)} (h1 : Sub a b) (h2 : Sub b c) : Sub a c :=
  fun i x h => h2 i x (h1 i x h)

theorem sub_set (ls : List (List Nat)) (j : Nat) (l : List Nat) (h : ∀ x ∈ l, x ∈ ls.getD j []) :
    Sub (ls.set j l) ls := by
  intro i x hx
  simp only [List.getD_eq_getElem?_getD, List.getElem?_set] at hx ⊢
  by_cases hji : j = i
  · subst hji
    by_cases hlt : j < ls.length
    · simp [hlt] at hx
      have := h x hx
      simpa [List.getD_eq_getElem?_getD] using this
    · simp [hlt] at hx
  · simp [hji] at hx; exact hx

theorem pickFold_sub : ∀ (n : Nat) (ls : List (List Nat)) (best : Option Nat) (j : Nat),
    Sub (pickFold ls best j n).1 ls := by
  intro n
  induction n with
  | zero => intro ls best j; exact Sub.refl ls
  | succ n ih =>
    intro ls best j
    simp only [pickFold]
    split
    · exact ih _ _ _
    · split
      · split
        · refine Sub.trans (ih _ _ _) (sub_set ls j _ ?_)
          intro x hx
          exact List.mem_of_mem_tail hx
        · split
          · exact ih _ _ _
          · exact ih _ _ _
      · exact ih _ _ _
      · exact ih _ _ _
      · exact ih _ _ _

theorem merge_sub : ∀ (fuel : Nat) (ls : List (List Nat)) (x : Nat), x ∈ merge fuel ls →
    ∃ i, x ∈ ls.getD i [] := by
  intro fuel
  induction fuel with
  | zero => intro ls x h; simp [merge] at h
  | succ fuel ih =>
    intro ls x h
    simp only [merge] at h
    have hs := pickFold_sub ls.length ls none 0
    split at h
    · simp at h
    · rename_i a ha
      split at h
      · simp at h
      · rename_i x0 rest hl
        rcases List.mem_cons.1 h with rfl | h
        · exact ⟨a, hs a x (by rw [hl]; exact List.mem_cons_self)⟩
        · obtain ⟨i, hi⟩ := ih _ x h
          have := sub_set (pickFold ls none 0 ls.length).1 a rest (by
            intro y hy; rw [hl]; exact List.mem_cons_of_mem _ hy)
          exact ⟨i, hs i x (this i x hi)⟩

/-- **Result ⊆ responders (per path)**: every peer of the merged result is in the result of some
path -/
theorem result_sub (d : DIter) (x : Nat) (h : x ∈ result d) : ∃ it ∈ d.iters, x ∈ C39.result it := by
  obtain ⟨i, hi⟩ := merge_sub _ _ x h
  simp only [List.getD_eq_getElem?_getD, List.getElem?_map] at hi
  cases hg : d.iters[i]? with
  | none => simp [hg] at hi
  | some it =>
    simp [hg] at hi
    exact ⟨it, List.mem_of_getElem? hg, hi⟩

/-- **Result ⊆ responders (partial)**: after any operation sequence every peer of the merged
`into_result()` is `Succeeded` in some path (a response for it was delivered to that path). -/
theorem result_responders_partial {cfg : Cfg} (hc : CfgOk cfg) (k : Nat) (known : List Nat) (ops : List Op)
    (p : Nat) (hp : p ∈ result (reach cfg k known ops)) :
    ∃ it ∈ (reach cfg k known ops).iters, C39.find it.closest p = some .succeeded := by
  obtain ⟨it, hit, hr⟩ := result_sub _ p hp
  have hinv := ((dinv_reach hc k known ops).paths it hit).1
  exact ⟨it, hit, (C39.result_props hinv.sorted).2.2 p hr⟩

/-- the full property for the disjoint iterator, of which the theorems above prove the
in-flight, each-peer-once and no-panic parts (result clause: see `C39.result_sound` per path) -/
def full_statement : Prop :=
  ∀ (cfg : Cfg) (_ : CfgOk cfg) (k n : Nat) (known : List Nat) (ops : List Op),
    (∀ q ∈ known, q < n) →
    -- bounded
    ((reach cfg k known ops).iters.map (·.numWaiting)).sum ≤ cfg.parallelism * max cfg.numResults cfg.parallelism ∧
    -- each peer once, hence at most `n` requests
    (issuedList (init cfg k known) ops).Nodup ∧ (issuedList (init cfg k known) ops).length ≤ n ∧
    -- result: responders only, strictly increasing distance
    (result (reach cfg k known ops)).Pairwise (· < ·) ∧
    ∀ p ∈ result (reach cfg k known ops), ∃ it ∈ (reach cfg k known ops).iters,
      C39.find it.closest p = some .succeeded

example : (Machine.run step (init ⟨2, 2, 10⟩ 20 [3, 1])
    [.next 0, .next 0, .next 0, .success 1 [0], .next 0, .success 3 [], .success 0 [], .next 1]).2 =
    [.waiting (some 1), .waiting (some 3), .atCapacity, .bool true, .waiting (some 0), .bool true,
     .bool true, .finished] := by decide

end C39.Disjoint

#print axioms C39.Disjoint.inflight_bound_partial
#print axioms C39.Disjoint.each_peer_once
#print axioms C39.Disjoint.result_responders_partial
