import Libp2pModel.Proofs.C39_DProg
import Libp2pModel.Proofs.C39_DMerge
/-!
# C39 — `ClosestDisjointPeersIter`

For every operation sequence (any interleaving of `next(now)`, `on_success`, `on_failure`,
`finish_paths`, `finish`): every path keeps the plain iterator's invariant, so the total number of
in-flight requests is at most `parallelism · max(num_results, parallelism)` and nothing panics; a
peer is handed out at most once over all paths; the sum of the per-path potentials is a decreasing
measure (at most `parallelism·(3n+1)` effective calls, at most `n` requests); `Finished` means
every path is finished, each path that finished by itself is closed, and a finished iterator is
inert; the merged result (`ResultIter`) is strictly increasing in distance — hence duplicate-free —
and contains only peers that are `Succeeded` in some path.  Note that `into_result` of the disjoint
iterator is *not* limited to `num_results` peers (documented in the source: `num_results` per path).
-/
namespace C39.Disjoint
open C39 (Out Cfg Inv CfgOk)

def reach (cfg : Cfg) (k : Nat) (known : List Nat) (ops : List Op) : DIter :=
  Machine.exec step (init cfg k known) ops

theorem dinv_reach {cfg : Cfg} (hc : CfgOk cfg) (k : Nat) (known : List Nat) (ops : List Op) :
    DInv cfg (reach cfg k known ops) :=
  Machine.invariant_of_step step (DInv cfg) (fun d o h => (step_ok h o).1) ops _ (DInv.init hc k known)

/-- **Per-path invariant and in-flight bound (partial)**: after any operation sequence every path
satisfies the plain iterator's invariant — in particular its `num_waiting` is its number of
`Waiting` peers and at most `max(num_results, parallelism)` — so the total number of in-flight
requests is at most `parallelism · max(num_results, parallelism)`; and no call panics. -/
theorem inflight_bound_partial {cfg : Cfg} (hc : CfgOk cfg) (k : Nat) (known : List Nat) (ops : List Op) :
    (∀ it ∈ (reach cfg k known ops).iters, Inv it ∧ it.cfg = cfg) ∧
    ((reach cfg k known ops).iters.map (·.numWaiting)).sum ≤
      cfg.parallelism * max cfg.numResults cfg.parallelism ∧
    ∀ out ∈ (Machine.run step (init cfg k known) ops).2, out ≠ .panic := by
  have h := dinv_reach hc k known ops
  have hlen : (reach cfg k known ops).iters.length = cfg.parallelism := by
    apply Machine.invariant_of_step step (fun d => d.iters.length = cfg.parallelism)
    · intro d o hd; rw [length_step]; exact hd
    · simp [init]
  refine ⟨h.paths, ?_, ?_⟩
  · have := sum_le_of_forall ((reach cfg k known ops).iters.map (·.numWaiting))
      (max cfg.numResults cfg.parallelism) (by
        intro x hx
        obtain ⟨it, hit, rfl⟩ := List.mem_map.1 hx
        have := (h.paths it hit)
        rw [← this.2]; exact this.1.nw_le)
    simpa [hlen] using this
  · exact Machine.outputs_of_step step (DInv cfg) (· ≠ .panic) (fun d o h => (step_ok h o).1)
      (fun d o h => (step_ok h o).2) ops _ (DInv.init hc k known)

/-! ## each peer once, over all paths -/

theorem innerLoop_ret (now : Nat) (contacted : List (Nat × Nat × Resp)) :
    ∀ (fuel : Nat) (it : C39.Iter) (acc : Acc) (p : Nat),
      (innerLoop now contacted fuel it acc).2 = .ret p → cfind contacted p = none := by
  intro fuel
  induction fuel with
  | zero => intro it acc p h; simp [innerLoop] at h
  | succ fuel ih =>
    intro it acc p h
    simp only [innerLoop] at h
    split at h
    · simp at h
    · rename_i q hq
      split at h
      · exact ih _ _ _ h
      · split at h
        · simp at h
        · exact ih _ _ _ h
      · split at h
        · simp at h
        · exact ih _ _ _ h
      · rename_i hc
        simp at h; subst h; exact hc
    · simp at h
    · simp at h
    · simp at h

theorem outer_contacted (now : Nat) : ∀ (r : Nat) (d : DIter) (acc : Acc),
    ((outer now r d acc).1.contacted = d.contacted ∧ ∀ p, (outer now r d acc).2 ≠ .waiting (some p)) ∨
    (∃ p i, (outer now r d acc).2 = .waiting (some p) ∧ cfind d.contacted p = none ∧
      (outer now r d acc).1.contacted = d.contacted ++ [(p, i, .waiting)]) := by
  intro r
  induction r with
  | zero => intro d acc; left; simp only [outer]; exact ⟨trivial, by cases acc <;> simp⟩
  | succ r ih =>
    intro d acc
    simp only [outer]
    split
    · left; exact ⟨rfl, by simp⟩
    · rename_i it hit
      split
      · rename_i acc' hres
        exact ih _ acc'
      · rename_i p hres
        right
        exact ⟨p, d.pos, rfl, innerLoop_ret _ _ _ _ _ _ hres, rfl⟩
      · left; exact ⟨rfl, by simp⟩

theorem cfind_append (l : List (Nat × Nat × Resp)) (e : Nat × Nat × Resp) (q : Nat) :
    cfind (l ++ [e]) q = match cfind l q with
      | some v => some v
      | none => if e.1 = q then some e.2 else none := by
  induction l with
  | nil => obtain ⟨k, v⟩ := e; simp [cfind]
  | cons a t ih => grind [cfind]

theorem cfind_cset_isSome (l : List (Nat × Nat × Resp)) (p : Nat) (v : Nat × Resp) (q : Nat) :
    (cfind (cset l p v) q).isSome = (cfind l q).isSome := by
  induction l with
  | nil => rfl
  | cons a t ih => grind [cfind, cset]

/-- the `contacted_peers` map only grows, and a call hands out a peer only if it was absent -/
theorem step_contacted (d : DIter) (op : Op) :
    (∀ q, (cfind d.contacted q).isSome → (cfind (step d op).1.contacted q).isSome) ∧
    (∀ p, (step d op).2 = .waiting (some p) →
      cfind d.contacted p = none ∧ (cfind (step d op).1.contacted p).isSome) := by
  cases op with
  | next now =>
    simp only [step, next]
    rcases outer_contacted now d.iters.length d .none with ⟨h1, h2⟩ | ⟨p, i, h1, h2, h3⟩
    · exact ⟨fun q hq => by rw [h1]; exact hq, fun p hp => absurd hp (h2 p)⟩
    · refine ⟨fun q hq => ?_, fun p' hp' => ?_⟩
      · rw [h3, cfind_append]
        cases hc : cfind d.contacted q with
        | none => rw [hc] at hq; simp at hq
        | some v => rfl
      · rw [h1] at hp'
        simp at hp'; subst hp'
        refine ⟨h2, ?_⟩
        rw [h3, cfind_append, h2]; simp
  | success p closer =>
    refine ⟨fun q hq => ?_, fun p' hp' => ?_⟩
    · simp only [step, onSuccess]
      (repeat' split) <;> (try exact hq)
      rw [cfind_cset_isSome]; exact hq
    · exfalso
      simp only [step, onSuccess] at hp'
      (repeat' split at hp') <;> simp at hp'
  | failure p =>
    refine ⟨fun q hq => ?_, fun p' hp' => ?_⟩
    · simp only [step, onFailure]
      (repeat' split) <;> (try exact hq)
      rw [cfind_cset_isSome]; exact hq
    · exfalso
      simp only [step, onFailure] at hp'
      (repeat' split at hp') <;> simp at hp'
  | finishPaths ps =>
    have hct : (step d (.finishPaths ps)).1.contacted = d.contacted := by
      simp only [step, finishPaths]
      have : ∀ (ps : List Nat) (d : DIter), (ps.foldl (fun (d : DIter) p =>
          match cfind d.contacted p with
          | some (by_, _) =>
            match d.iters[by_]? with
            | some it => { d with iters := d.iters.set by_ (C39.finish it) }
            | none => d
          | none => d) d).contacted = d.contacted := by
        intro ps
        induction ps with
        | nil => intro d; rfl
        | cons q t ih =>
          intro d
          simp only [List.foldl_cons]
          rw [ih]
          (repeat' split) <;> rfl
      exact this ps d
    refine ⟨fun q hq => by rw [hct]; exact hq, fun p' hp' => ?_⟩
    simp [step, finishPaths] at hp'
  | finish =>
    exact ⟨fun q hq => hq, fun p' hp' => by simp [step] at hp'⟩

def issuedOf : Out → List Nat
  | .waiting (some p) => [p]
  | _ => []

/-- peers handed out by `next` along a run -/
def issuedList : DIter → List Op → List Nat
  | _, [] => []
  | d, o :: os => issuedOf (step d o).2 ++ issuedList (step d o).1 os

/-- **Each peer is contacted at most once overall** (over all paths), along any operation
sequence from any state — in particular from `with_config`. -/
theorem each_peer_once (ops : List Op) : ∀ d : DIter,
    (issuedList d ops).Nodup ∧ ∀ q ∈ issuedList d ops, cfind d.contacted q = none := by
  induction ops with
  | nil => intro d; simp [issuedList]
  | cons o os ih =>
    intro d
    obtain ⟨ihn, ihc⟩ := ih (step d o).1
    obtain ⟨hmono, hiss⟩ := step_contacted d o
    have hnone : ∀ q ∈ issuedList (step d o).1 os, cfind d.contacted q = none := by
      intro q hq
      have := ihc q hq
      cases hc : cfind d.contacted q with
      | none => rfl
      | some v =>
        have := hmono q (by simp [hc])
        rw [ihc q hq] at this; simp at this
    simp only [issuedList]
    cases hout : (step d o).2 with
    | waiting p =>
      cases p with
      | none => simpa [issuedOf] using ⟨ihn, hnone⟩
      | some p =>
        obtain ⟨h1, h2⟩ := hiss p hout
        simp only [issuedOf, List.singleton_append, List.nodup_cons, List.mem_cons]
        refine ⟨⟨?_, ihn⟩, ?_⟩
        · intro hmem
          rw [ihc p hmem] at h2; simp at h2
        · rintro q (rfl | hq)
          · exact h1
          · exact hnone q hq
    | atCapacity => simpa [issuedOf] using ⟨ihn, hnone⟩
    | finished => simpa [issuedOf] using ⟨ihn, hnone⟩
    | bool b => simpa [issuedOf] using ⟨ihn, hnone⟩
    | unit => simpa [issuedOf] using ⟨ihn, hnone⟩
    | panic => simpa [issuedOf] using ⟨ihn, hnone⟩

/-- **Result ⊆ responders (per path)**: every peer of the merged result is in the result of some
path -/
theorem result_sub (d : DIter) (x : Nat) (h : x ∈ result d) : ∃ it ∈ d.iters, x ∈ C39.result it := by
  obtain ⟨i, hi⟩ := merge_sub _ _ x h
  simp only [List.getD_eq_getElem?_getD, List.getElem?_map] at hi
  cases hg : d.iters[i]? with
  | none => simp [hg] at hi
  | some it =>
    simp [hg] at hi
    exact ⟨it, List.mem_of_getElem? hg, hi⟩

/-- **Result ⊆ responders (partial)**: after any operation sequence every peer of the merged
`into_result()` is `Succeeded` in some path (a response for it was delivered to that path). -/
theorem result_responders_partial {cfg : Cfg} (hc : CfgOk cfg) (k : Nat) (known : List Nat) (ops : List Op)
    (p : Nat) (hp : p ∈ result (reach cfg k known ops)) :
    ∃ it ∈ (reach cfg k known ops).iters, C39.find it.closest p = some .succeeded := by
  obtain ⟨it, hit, hr⟩ := result_sub _ p hp
  have hinv := ((dinv_reach hc k known ops).paths it hit).1
  exact ⟨it, hit, (C39.result_props hinv.sorted).2.2 p hr⟩

/-! ## the merged result -/

theorem allSorted_results {cfg : Cfg} {d : DIter} (h : DInv cfg d) : AllSorted (d.iters.map C39.result) := by
  intro i
  simp only [List.getD_eq_getElem?_getD, List.getElem?_map]
  cases hg : d.iters[i]? with
  | none => simp
  | some it =>
    simp
    exact (C39.result_props (h.paths it (List.mem_of_getElem? hg)).1.sorted).1

/-- **The merged result is sorted by distance and duplicate-free**, after any operation sequence. -/
theorem result_sorted_dedup {cfg : Cfg} (hc : CfgOk cfg) (k : Nat) (known : List Nat) (ops : List Op) :
    (result (reach cfg k known ops)).Pairwise (· < ·) ∧ (result (reach cfg k known ops)).Nodup := by
  have hs : (result (reach cfg k known ops)).Pairwise (· < ·) :=
    merge_sorted _ _ (allSorted_results (dinv_reach hc k known ops))
  exact ⟨hs, hs.imp (fun h => Nat.ne_of_lt h)⟩

/-! ## finishing -/

/-- **`Finished` means finished**: if `next` answers `Finished` after any operation sequence, every
path is finished (`is_finished()`), and from then on the iterator is inert: `next` keeps answering
`Finished`, late `on_success`/`on_failure` are ignored (`false`), no call changes the state. -/
theorem finished_closed_inert {cfg : Cfg} (hc : CfgOk cfg) (k : Nat) (known : List Nat) (ops : List Op) :
    (∀ now, (next (reach cfg k known ops) now).2 = .finished →
      isFinished (next (reach cfg k known ops) now).1 = true) ∧
    (isFinished (reach cfg k known ops) = true → ∀ op,
      (step (reach cfg k known ops) op).1 = reach cfg k known ops ∧
      (step (reach cfg k known ops) op).2 = (match op with
        | .next _ => .finished
        | .success _ _ => .bool false
        | .failure _ => .bool false
        | .finishPaths _ => .bool true
        | .finish => .unit)) :=
  ⟨fun now hout => next_finished_all (dinv_reach hc k known ops) now hout,
   fun hfin op => finished_inert (dinv_reach hc k known ops) hfin op⟩

/-- **Finished-closed across paths**: across any call of `next` (after any operation sequence) a
path that was finished is left untouched, and a path that becomes finished — by itself, inside
`next` — is closed: none of its known peers closer than its farthest returned peer (none at all if
it returns fewer than `num_results`) is `NotContacted` or `Waiting`. -/
theorem paths_closed {cfg : Cfg} (hc : CfgOk cfg) (k : Nat) (known : List Nat) (ops : List Op) (now : Nat)
    (i : Nat) (it : C39.Iter) (hi : (reach cfg k known ops).iters[i]? = some it) :
    ∃ it', (next (reach cfg k known ops) now).1.iters[i]? = some it' ∧
      (it.state = .finished → it' = it) ∧
      (it.state ≠ .finished → it'.state = .finished → C39.Closed it') :=
  next_paths (dinv_reach hc k known ops) now i it hi

/-! ## termination -/

theorem issued_lt {cfg : Cfg} {n : Nat} (ops : List Op) : ∀ (d : DIter), DInv cfg d → BoundedD n d →
    (∀ o ∈ ops, opBoundedD n o) → ∀ q ∈ issuedList d ops, q < n := by
  induction ops with
  | nil => intro d _ _ _ q hq; simp [issuedList] at hq
  | cons o os ih =>
    intro d h hb hops q hq
    obtain ⟨b', _, hlt⟩ := measure_step_d h hb o (hops o List.mem_cons_self)
    simp only [issuedList, List.mem_append] at hq
    rcases hq with hq | hq
    · cases hout : (step d o).2 with
      | waiting p =>
        cases p with
        | none => rw [hout] at hq; simp [issuedOf] at hq
        | some p =>
          rw [hout] at hq; simp [issuedOf] at hq
          rw [hq]; exact hlt p hout
      | atCapacity => rw [hout] at hq; simp [issuedOf] at hq
      | finished => rw [hout] at hq; simp [issuedOf] at hq
      | bool b => rw [hout] at hq; simp [issuedOf] at hq
      | unit => rw [hout] at hq; simp [issuedOf] at hq
      | panic => rw [hout] at hq; simp [issuedOf] at hq
    · exact ih _ (step_ok h o).1 b' (fun o' ho' => hops o' (List.mem_cons_of_mem _ ho')) q hq

/-- **Termination over a finite universe** `{0,…,n-1}`, for any pattern of responses, failures,
timeouts and `finish_paths` calls: along any operation sequence at most `n` peers are handed out
and at most `parallelism·(3n+1)` calls are effective (hand out a peer, accept a response or a
failure); every other call leaves the potential `Phi` (the sum of the per-path potentials)
unchanged or smaller. -/
theorem terminates {cfg : Cfg} (hc : CfgOk cfg) (k n : Nat) (known : List Nat) (ops : List Op)
    (hk : ∀ q ∈ known, q < n) (hops : ∀ o ∈ ops, opBoundedD n o) :
    (issuedList (init cfg k known) ops).length ≤ n ∧
    effCountD (init cfg k known) ops ≤ cfg.parallelism * (3 * n + 1) ∧
    effCountD (init cfg k known) ops + Phi n (reach cfg k known ops) ≤ cfg.parallelism * (3 * n + 1) := by
  obtain ⟨hb, hphi⟩ := init_measure_d cfg k n known hk
  obtain ⟨hrun, _⟩ := measure_run_d (cfg := cfg) (n := n) ops _ (DInv.init hc k known) hb hops
  have hnd := (each_peer_once ops (init cfg k known)).1
  have hlt := issued_lt (cfg := cfg) (n := n) ops _ (DInv.init hc k known) hb hops
  refine ⟨?_, by omega, by
    show effCountD _ _ + Phi n (Machine.exec step (init cfg k known) ops) ≤ _
    omega⟩
  have := List.Nodup.length_le_of_subset (l₂ := List.range n) hnd (by
    intro q hq; exact List.mem_range.2 (hlt q hq))
  simpa using this

/-- **Progress**: after any operation sequence, if every contacted peer has been answered or has
failed and no unfinished path is waiting for anything, `next` hands out a new peer or finishes. -/
theorem progress {cfg : Cfg} (hc : CfgOk cfg) (k : Nat) (known : List Nat) (ops : List Op) (now : Nat)
    (hz : ∀ it ∈ (reach cfg k known ops).iters, it.state = .finished ∨ it.numWaiting = 0)
    (hres : Resolved (reach cfg k known ops).contacted) :
    (next (reach cfg k known ops) now).2 = .finished ∨
      ∃ p, (next (reach cfg k known ops) now).2 = .waiting (some p) :=
  next_progress_d (dinv_reach hc k known ops) now hz hres

/-- the property for the disjoint iterator, assembled -/
def full_statement : Prop :=
  ∀ (cfg : Cfg) (_ : CfgOk cfg) (k n : Nat) (known : List Nat) (ops : List Op),
    (∀ q ∈ known, q < n) → (∀ o ∈ ops, opBoundedD n o) →
    -- bounded
    ((reach cfg k known ops).iters.map (·.numWaiting)).sum ≤ cfg.parallelism * max cfg.numResults cfg.parallelism ∧
    -- each peer contacted at most once over all paths, hence at most `n` requests; bounded total work
    (issuedList (init cfg k known) ops).Nodup ∧ (issuedList (init cfg k known) ops).length ≤ n ∧
    effCountD (init cfg k known) ops ≤ cfg.parallelism * (3 * n + 1) ∧
    -- result: strictly increasing distance, no duplicates, only peers that some path saw succeed
    (result (reach cfg k known ops)).Pairwise (· < ·) ∧ (result (reach cfg k known ops)).Nodup ∧
    (∀ p ∈ result (reach cfg k known ops), ∃ it ∈ (reach cfg k known ops).iters,
      C39.find it.closest p = some .succeeded) ∧
    -- `Finished` is final
    (∀ now, (next (reach cfg k known ops) now).2 = .finished →
      isFinished (next (reach cfg k known ops) now).1 = true) ∧
    (isFinished (reach cfg k known ops) = true → ∀ op, (step (reach cfg k known ops) op).1 = reach cfg k known ops)

theorem full : full_statement := by
  intro cfg hc k n known ops hk hops
  obtain ⟨t1, t2, _⟩ := terminates hc k n known ops hk hops
  obtain ⟨r1, r2⟩ := result_sorted_dedup hc k known ops
  obtain ⟨f1, f2⟩ := finished_closed_inert hc k known ops
  exact ⟨(inflight_bound_partial hc k known ops).2.1, (each_peer_once ops _).1, t1, t2, r1, r2,
    fun p hp => result_responders_partial hc k known ops p hp, f1, fun hfin op => (f2 hfin op).1⟩

-- three paths sharing peer 1: it is handed out once, delivered to all paths, and appears once in
-- the merged result
example : (Machine.run step (init ⟨2, 2, 10⟩ 20 [3, 1])
    [.next 0, .next 0, .next 0, .success 1 [0], .next 0, .success 3 [], .success 0 [], .next 1]).2 =
    [.waiting (some 1), .waiting (some 3), .atCapacity, .bool true, .waiting (some 0), .bool true,
     .bool true, .finished] := by decide

example : (Machine.run step (init ⟨3, 2, 10⟩ 20 [1, 4, 6])
    [.next 0, .next 0, .next 0, .success 1 [2], .success 4 [], .success 6 [], .next 0, .success 2 [],
     .next 0]).2 =
    [.waiting (some 1), .waiting (some 4), .waiting (some 6), .bool true, .bool true, .bool true,
     .waiting (some 2), .bool true, .finished] := by decide
example : result (reach ⟨3, 2, 10⟩ 20 [1, 4, 6]
    [.next 0, .next 0, .next 0, .success 1 [2], .success 4 [], .success 6 [], .next 0, .success 2 [],
     .next 0]) = [1, 2, 4] := by decide
example : isFinished (reach ⟨3, 2, 10⟩ 20 [1, 4, 6]
    [.next 0, .next 0, .next 0, .success 1 [2], .success 4 [], .success 6 [], .next 0, .success 2 [],
     .next 0]) = true := by decide

end C39.Disjoint

#print axioms C39.Disjoint.inflight_bound_partial
#print axioms C39.Disjoint.each_peer_once
#print axioms C39.Disjoint.result_responders_partial
#print axioms C39.Disjoint.result_sorted_dedup
#print axioms C39.Disjoint.finished_closed_inert
#print axioms C39.Disjoint.paths_closed
#print axioms C39.Disjoint.terminates
#print axioms C39.Disjoint.progress
#print axioms C39.Disjoint.full
