import Libp2pModel.Model.C21
/-!
# C21 — property theorems

Signature schemes are symbolic: their laws are the fields of `SigScheme` (hypotheses bundled in a
structure — never axioms). `sigpayload_injective` (domain separation is unambiguous) is proved from
`Varint.decode_encode` (the length prefix is prefix-free); the accept-iff theorems characterise
`payload_and_signing_key` and `PeerRecord::from_signed_envelope_impl`; `mutation_sound` combines
them with unforgeability: whatever is accepted under a key carries exactly what that key signed.
-/
namespace C21

/-- one length-prefixed field can be split off unambiguously -/
theorem field_inj (a a' x x' : List Nat)
    (h : Varint.encode a.length ++ a ++ x = Varint.encode a'.length ++ a' ++ x') : a = a' ∧ x = x' := by
  have h1 := Varint.decode_encode a.length (a ++ x)
  have h2 := Varint.decode_encode a'.length (a' ++ x')
  rw [List.append_assoc] at h
  rw [h, List.append_assoc, h2] at h1
  simp only [Option.some.injEq, Prod.mk.injEq] at h1
  exact List.append_inj h1.2.symm h1.1.symm |>.imp id id |> fun ⟨p, q⟩ => ⟨p, q⟩

/-- **domain separation is unambiguous**: the signed byte string determines domain, payload type
and payload. -/
theorem sigpayload_injective (d t p d' t' p' : List Nat)
    (h : signaturePayload d t p = signaturePayload d' t' p') : d = d' ∧ t = t' ∧ p = p' := by
  unfold signaturePayload at h
  obtain ⟨hd, h⟩ := field_inj d d' _ _ h
  obtain ⟨ht, h⟩ := field_inj t t' _ _ h
  have h' : Varint.encode p.length ++ p ++ [] = Varint.encode p'.length ++ p' ++ [] := by simpa using h
  obtain ⟨hp, _⟩ := field_inj p p' _ _ h'
  exact ⟨hd, ht, hp⟩

variable {K : Type}

/-- **accept-iff for envelopes**: the payload is released exactly when the payload type is the
expected one and the signature verifies over (domain, type, payload) under the enclosed key — and
then it is the enclosed payload and key. -/
theorem envelope_accept_iff (vf : K → List Nat → List Nat → Bool) (e : Envelope K) (d ty : List Nat)
    (p : List Nat) (k : K) :
    e.payloadAndSigningKey vf d ty = .ok (p, k) ↔
      e.payloadType = ty ∧ vf e.key (signaturePayload d e.payloadType e.payload) e.signature = true ∧
        p = e.payload ∧ k = e.key := by
  unfold Envelope.payloadAndSigningKey Envelope.verify
  by_cases h1 : e.payloadType = ty
  · cases h2 : vf e.key (signaturePayload d e.payloadType e.payload) e.signature
    · simp [h1]
    · simp [h1]
      constructor
      · rintro ⟨rfl, rfl⟩; exact ⟨rfl, rfl⟩
      · rintro ⟨rfl, rfl⟩; exact ⟨rfl, rfl⟩
  · simp [h1]

theorem envelope_reject_type (vf : K → List Nat → List Nat → Bool) (e : Envelope K) (d ty : List Nat)
    (h : e.payloadType ≠ ty) : e.payloadAndSigningKey vf d ty = .error .unexpectedPayloadType := by
  simp [Envelope.payloadAndSigningKey, h]

/-- **accept-iff for peer records**: additionally the record decodes, its peer id parses and IS the
signer's, and every address parses. -/
theorem record_accept_iff {P A : Type} [DecidableEq P]
    (vf : K → List Nat → List Nat → Bool) (decodeRecord : List Nat → Option RawRecord)
    (parsePeerId : List Nat → Option P) (peerIdOf : K → P) (parseAddr : List Nat → Option A)
    (e : Envelope K) (d ty : List Nat) (pid : P) (seq : Nat) (as : List A) :
    fromSignedEnvelope vf decodeRecord parsePeerId peerIdOf parseAddr e d ty = .ok (pid, seq, as) ↔
      e.payloadType = ty ∧ vf e.key (signaturePayload d e.payloadType e.payload) e.signature = true ∧
      ∃ r, decodeRecord e.payload = some r ∧ parsePeerId r.peerId = some pid ∧ pid = peerIdOf e.key ∧
        r.seq = seq ∧ r.addrs.mapM parseAddr = some as := by
  constructor
  · intro h
    unfold fromSignedEnvelope at h
    split at h
    · simp at h
    · rename_i payload key hpk
      obtain ⟨h1, h2, rfl, rfl⟩ := (envelope_accept_iff vf e d ty payload key).1 hpk
      split at h
      · simp at h
      · rename_i r hr
        split at h
        · simp at h
        · rename_i pid' hp
          split at h
          · simp at h
          · rename_i hm
            split at h
            · simp at h
            · rename_i as' ha
              simp only [Except.ok.injEq, Prod.mk.injEq] at h
              obtain ⟨rfl, rfl, rfl⟩ := h
              exact ⟨h1, h2, r, hr, hp, by simpa using hm, rfl, ha⟩
  · rintro ⟨h1, h2, r, hr, hp, hm, hs, ha⟩
    have hpk := (envelope_accept_iff vf e d ty e.payload e.key).2 ⟨h1, h2, rfl, rfl⟩
    unfold fromSignedEnvelope
    simp only [hpk, hr, hp]
    simp [← hm, ha, hs]

/-- the laws assumed of a signature scheme (hypotheses, not axioms) -/
structure SigScheme (S K : Type) where
  sign : S → List Nat → List Nat
  pk : S → K
  verify : K → List Nat → List Nat → Bool
  /-- the messages the holder of the secret key for `k` has signed -/
  signed : K → List Nat → Prop
  /-- correctness -/
  sign_verify : ∀ sk m, verify (pk sk) m (sign sk m) = true
  /-- unforgeability (EUF-CMA, idealised): a signature that verifies under `k` is on a message
  the holder of `k` signed -/
  euf_cma : ∀ k m s, verify k m s = true → signed k m

/-- an envelope made by `SignedEnvelope::new` is accepted for its own domain and type -/
theorem new_accepted {S : Type} (Sg : SigScheme S K) (sk : S) (d ty p : List Nat) :
    (Envelope.new Sg.sign Sg.pk sk d ty p).payloadAndSigningKey Sg.verify d ty = .ok (p, Sg.pk sk) := by
  rw [envelope_accept_iff]
  exact ⟨rfl, Sg.sign_verify sk _, rfl, rfl⟩

/-- **mutation soundness**: if ANY envelope (e.g. decoded from mutated bytes) is accepted for
(domain `d`, type `ty`) under key `k`, and the holder of `k` has only ever signed
`(d₀, ty₀, p₀)`, then `d = d₀`, `ty = ty₀` and the released payload is `p₀`: a changed domain,
payload type or payload is rejected, and an accepted mutant carries the identical payload. -/
theorem mutation_sound {S : Type} (Sg : SigScheme S K) (e : Envelope K) (d ty p : List Nat) (k : K)
    (d₀ ty₀ p₀ : List Nat)
    (honly : ∀ m, Sg.signed k m → m = signaturePayload d₀ ty₀ p₀)
    (hacc : e.payloadAndSigningKey Sg.verify d ty = .ok (p, k)) :
    d = d₀ ∧ ty = ty₀ ∧ p = p₀ := by
  obtain ⟨hty, hv, rfl, rfl⟩ := (envelope_accept_iff Sg.verify e d ty p k).1 hacc
  have := honly _ (Sg.euf_cma _ _ _ hv)
  obtain ⟨h1, h2, h3⟩ := sigpayload_injective _ _ _ _ _ _ this
  exact ⟨h1, hty ▸ h2, h3⟩

/-- … and therefore the accepted peer record is the identical one: same peer id, seq and
addresses as decoded from the signed payload. -/
theorem mutation_sound_record {S P A : Type} [DecidableEq P] (Sg : SigScheme S K)
    (decodeRecord : List Nat → Option RawRecord) (parsePeerId : List Nat → Option P) (peerIdOf : K → P)
    (parseAddr : List Nat → Option A) (e e₀ : Envelope K) (d ty : List Nat) (r r₀ : P × Nat × List A)
    (hk : e.key = e₀.key)
    (honly : ∀ m, Sg.signed e₀.key m → m = signaturePayload d ty e₀.payload)
    (h : fromSignedEnvelope Sg.verify decodeRecord parsePeerId peerIdOf parseAddr e d ty = .ok r)
    (h₀ : fromSignedEnvelope Sg.verify decodeRecord parsePeerId peerIdOf parseAddr e₀ d ty = .ok r₀) :
    r = r₀ := by
  obtain ⟨pid, seq, as⟩ := r
  obtain ⟨pid₀, seq₀, as₀⟩ := r₀
  obtain ⟨ht, hv, x, hx1, hx2, hx3, hx4, hx5⟩ := (record_accept_iff _ _ _ _ _ e d ty pid seq as).1 h
  obtain ⟨_, _, y, hy1, hy2, hy3, hy4, hy5⟩ := (record_accept_iff _ _ _ _ _ e₀ d ty pid₀ seq₀ as₀).1 h₀
  have hacc : e.payloadAndSigningKey Sg.verify d ty = .ok (e.payload, e₀.key) := by
    rw [envelope_accept_iff]; exact ⟨ht, hv, rfl, hk.symm⟩
  obtain ⟨_, _, hp⟩ := mutation_sound Sg e d ty e.payload e₀.key d ty e₀.payload honly hacc
  rw [hp, hy1] at hx1
  cases hx1
  rw [hx2] at hy2; rw [hx5] at hy5
  cases hy2; cases hy5
  rw [← hx4, ← hy4]

/-! ## field boundaries (empty fields included) -/

/-- **injectivity for ALL triples** — no side condition: fields may be empty, of any length, with
any content.  (A length prefix is always written, `Varint.encode 0 = [0]`, so an empty field still
occupies one byte and boundaries cannot move.) -/
theorem signaturePayload_injective (d t p d' t' p' : List Nat) :
    signaturePayload d t p = signaturePayload d' t' p' ↔ d = d' ∧ t = t' ∧ p = p' :=
  ⟨sigpayload_injective d t p d' t' p', by rintro ⟨rfl, rfl, rfl⟩; rfl⟩

/-- moving a whole field across an empty neighbour changes the signed bytes -/
theorem empty_field_not_movable (d t : List Nat) (ht : t ≠ []) :
    signaturePayload d t [] ≠ signaturePayload d [] t := by
  intro h
  exact ht ((signaturePayload_injective _ _ _ _ _ _).1 h).2.1

/-- the signed bytes parse back to exactly the three fields -/
theorem splitPayload_signaturePayload (d t p : List Nat) :
    splitPayload (signaturePayload d t p) = some (d, t, p) := by
  unfold splitPayload signaturePayload
  rw [List.append_assoc, Varint.decode_encode]
  have h1 : ¬ ((d ++ (Varint.encode t.length ++ t ++ (Varint.encode p.length ++ p))).length < d.length) := by
    simp
  simp only [h1, ↓reduceIte, List.drop_left, List.take_left]
  rw [List.append_assoc, Varint.decode_encode]
  have h2 : ¬ ((t ++ (Varint.encode p.length ++ p)).length < t.length) := by simp
  simp only [h2, ↓reduceIte, List.drop_left, List.take_left]
  rw [Varint.decode_encode]
  simp

theorem specPayloadBytes_model (d t p : List Nat) :
    specPayloadBytes d t p (signaturePayload d t p) = true := by
  simp [specPayloadBytes, splitPayload_signaturePayload]

/-- the re-split Spec accepts the model: with ideal signatures, a presented triple passes iff it is
the signed one -/
theorem specResplit_model (d t p d' t' p' : List Nat) :
    specResplit d t p d' t' p' (resplitModel d t p d' t' p').1 (resplitModel d t p d' t' p').2 = true := by
  unfold specResplit resplitModel
  by_cases h : d = d' ∧ t = t' ∧ p = p'
  · obtain ⟨rfl, rfl, rfl⟩ := h; simp
  · have hne : signaturePayload d t p ≠ signaturePayload d' t' p' :=
      fun he => h ((signaturePayload_injective _ _ _ _ _ _).1 he)
    have hb : (signaturePayload d t p == signaturePayload d' t' p') = false := by simpa using hne
    have hs : (d == d' && t == t' && p == p') = false := by
      simp only [Bool.and_eq_false_iff, beq_eq_false_iff_ne, ne_eq]
      by_cases h1 : d = d'
      · by_cases h2 : t = t'
        · right; intro h3; exact h ⟨h1, h2, h3⟩
        · left; right; exact h2
      · left; left; exact h1
    simp [hb, hs]

/-- **re-split soundness**: an envelope accepted for `(d', t')` releasing `p'` under a key whose
holder only signed `(d, t, p)` presents the very same triple — whatever boundary was moved. -/
theorem resplit_sound {S : Type} (Sg : SigScheme S K) (e : Envelope K) (k : K) (d t p d' t' p' : List Nat)
    (honly : ∀ m, Sg.signed k m → m = signaturePayload d t p)
    (hacc : e.payloadAndSigningKey Sg.verify d' t' = .ok (p', k)) :
    (d', t', p') = (d, t, p) := by
  obtain ⟨h1, h2, h3⟩ := mutation_sound Sg e d' t' p' k d t p honly hacc
  rw [h1, h2, h3]

/-! ## the executable Spec accepts the model's decision -/
theorem specEnvelope_decide (f : Facts) : specEnvelope f (decideEnv f).1 (decideEnv f).2 = true := by
  unfold specEnvelope decideEnv
  cases h1 : f.expectedTypeMatches <;> cases h2 : f.sigValid <;> simp

theorem specRecord_decide (f : RecFacts) : specRecord f (decideRec f) = true := by
  obtain ⟨a, b, c, d, e⟩ := f
  cases a <;> cases b <;> cases c <;> cases d <;> cases e <;> rfl

/-- the fact-level decision IS `payload_and_signing_key` when signatures are ideal
(`verify` true exactly for what was signed) -/
theorem decide_is_model (vf : K → List Nat → List Nat → Bool) (e : Envelope K) (d ty : List Nat) (f : Facts)
    (hsig : f.sigValid = vf e.key (signaturePayload d e.payloadType e.payload) e.signature)
    (hty : f.expectedTypeMatches = decide (e.payloadType = ty)) :
    (decideEnv f).2 = (match e.payloadAndSigningKey vf d ty with
      | .ok _ => .ok
      | .error .unexpectedPayloadType => .errType
      | .error .invalidSignature => .errSig) := by
  unfold decideEnv Envelope.payloadAndSigningKey Envelope.verify
  by_cases h1 : e.payloadType = ty
  · cases h2 : vf e.key (signaturePayload d e.payloadType e.payload) e.signature <;> simp_all
  · simp_all

/-! ## non-vacuity: a scheme satisfying the laws exists (the "tag = key ++ message" toy MAC) -/
def toy : SigScheme (List Nat) (List Nat) where
  sign sk m := sk ++ m
  pk sk := sk
  verify k m s := s == k ++ m
  signed _ _ := True
  sign_verify := by intro sk m; simp
  euf_cma := by intros; trivial

example : (Envelope.new toy.sign toy.pk [9] [1] [2] [3]).payloadAndSigningKey toy.verify [1] [2] = .ok ([3], [9]) :=
  new_accepted toy [9] [1] [2] [3]

/-! ## signature non-malleability is a law of the ideal scheme -/

/-- strong unforgeability / uniqueness: under key `k` at most one signature verifies for a message -/
def UniqueSig {S : Type} (Sg : SigScheme S K) : Prop :=
  ∀ k m s s', Sg.verify k m s = true → Sg.verify k m s' = true → s = s'

/-- under `UniqueSig`, an envelope that carries a changed signature over the same (domain, type,
payload) and key as an accepted one is rejected (this is the clause the `sigstruct` family CHECKS
on the real schemes: non-malleability is assumed of the ideal scheme, not proved of ed25519/RSA/ECDSA) -/
theorem changed_signature_rejected {S : Type} (Sg : SigScheme S K) (hu : UniqueSig Sg) (e e' : Envelope K)
    (d ty : List Nat) (hk : e'.key = e.key) (ht : e'.payloadType = e.payloadType) (hp : e'.payload = e.payload)
    (hs : e'.signature ≠ e.signature)
    (hacc : e.payloadAndSigningKey Sg.verify d ty = .ok (e.payload, e.key)) :
    e'.payloadAndSigningKey Sg.verify d ty = .error .invalidSignature := by
  obtain ⟨h1, h2, _, _⟩ := (envelope_accept_iff Sg.verify e d ty e.payload e.key).1 hacc
  unfold Envelope.payloadAndSigningKey Envelope.verify
  have hne : ¬ (e'.payloadType ≠ ty) := by simp [ht, h1]
  simp only [hne, ↓reduceIte]
  cases hv : Sg.verify e'.key (signaturePayload d e'.payloadType e'.payload) e'.signature with
  | false => simp
  | true =>
    rw [hk, ht, hp] at hv
    exact absurd (hu _ _ _ _ hv h2) hs

/-- the strict Spec accepts the model of the real schemes on every observation EXCEPT the one
malleable class (ECDSA P-256 high-S twin, the known finding `changed_signature_accepted:ecdsa_high_s`) -/
theorem specSigstruct_model_partial (scheme variant : String) (changed : Bool)
    (h : malleable scheme variant = false) :
    specSigstruct changed (sigstructModel scheme variant changed).1 (sigstructModel scheme variant changed).2.1
      (sigstructModel scheme variant changed).2.2 = true := by
  unfold sigstructModel specSigstruct
  cases changed <;> simp [h]

/-- … and on that class the real scheme does violate the clause "any change to the signature makes
verification fail": the model of the code accepts a changed signature, the Spec rejects that. -/
theorem ecdsa_high_s_counterexample :
    sigstructModel "ecdsa" "high_s" true = (true, true, true) ∧
    specSigstruct true (sigstructModel "ecdsa" "high_s" true).1 (sigstructModel "ecdsa" "high_s" true).2.1
      (sigstructModel "ecdsa" "high_s" true).2.2 = false := by
  decide

/-- the toy scheme is unique-signature: the hypothesis is satisfiable -/
example : UniqueSig toy := by
  intro k m s s' h1 h2
  simp only [toy, beq_iff_eq] at h1 h2
  rw [h1, h2]

end C21

#print axioms C21.sigpayload_injective
#print axioms C21.envelope_accept_iff
#print axioms C21.envelope_reject_type
#print axioms C21.record_accept_iff
#print axioms C21.new_accepted
#print axioms C21.mutation_sound
#print axioms C21.mutation_sound_record
#print axioms C21.specEnvelope_decide
#print axioms C21.specRecord_decide
#print axioms C21.decide_is_model
#print axioms C21.signaturePayload_injective
#print axioms C21.empty_field_not_movable
#print axioms C21.splitPayload_signaturePayload
#print axioms C21.specPayloadBytes_model
#print axioms C21.specResplit_model
#print axioms C21.resplit_sound
#print axioms C21.changed_signature_rejected
#print axioms C21.specSigstruct_model_partial
#print axioms C21.ecdsa_high_s_counterexample
