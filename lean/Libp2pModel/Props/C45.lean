import Libp2pModel.Proofs.C45Inv
/-!
# C45 — every request gets exactly one outcome: the theorems

All statements are about `runT true np (init dbg) [] ops` — the trace of the model of the
(repaired) `request_response::Behaviour` for an ARBITRARY operation sequence `ops` (any
interleaving of `send_request`, connection establishment / closure, dial failures and handler
events, including handler events for closed connections, duplicate or unknown ids), for both
build modes (`dbg`).  The inbound theorems assume the handler contract `(reqIds t).Nodup`
(the ids of `Request` events are fresh; the real handler draws them from an `AtomicU64`).
-/
namespace C45

def finalSt (s : St) (ops : List Op) : St := ops.foldl (fun s o => (step true s o).1) s

def Hs.pushAll (h : Hs) (t : Trace) : Hs := t.foldl Hs.push h

theorem inv_run (np : Nat) : ∀ (ops : List Op) (s : St) (ids : List RId) (h : Hs), Inv s h →
    Inv (finalSt s ops) (h.pushAll (runT true np s ids ops)) := by
  intro ops
  induction ops with
  | nil => intro s ids h hi; simpa [finalSt, Hs.pushAll, runT] using hi
  | cons o os ih =>
    intro s ids h hi
    simp only [finalSt, List.foldl_cons, runT, Hs.pushAll]
    exact ih _ _ _ (inv_step s h hi o _ _)

/-! ### the history summary is what the Spec's trace functions compute -/

theorem evs_cons (e : Entry) (t : Trace) : Trace.evs (e :: t) = e.out.evs ++ Trace.evs t := by
  simp [Trace.evs]

theorem pushAll_iss (t : Trace) : ∀ h : Hs, (h.pushAll t).iss = h.iss ++ issued t := by
  induction t with
  | nil => intro h; simp [Hs.pushAll, issued]
  | cons e t ih =>
    intro h
    have := ih (h.push e)
    simp only [Hs.pushAll, List.foldl_cons] at this ⊢
    rw [this]; simp [Hs.push, issued]

theorem pushAll_od (t : Trace) : ∀ h : Hs, (h.pushAll t).od = h.od ++ outDone t.evs := by
  induction t with
  | nil => intro h; simp [Hs.pushAll, Trace.evs, outDone]
  | cons e t ih =>
    intro h
    have := ih (h.push e)
    simp only [Hs.pushAll, List.foldl_cons] at this ⊢
    rw [this, evs_cons, outDone_append]; simp [Hs.push]

theorem pushAll_dl (t : Trace) : ∀ h : Hs, (h.pushAll t).dl = h.dl ++ delivered t.evs := by
  induction t with
  | nil => intro h; simp [Hs.pushAll, Trace.evs, delivered]
  | cons e t ih =>
    intro h
    have := ih (h.push e)
    simp only [Hs.pushAll, List.foldl_cons] at this ⊢
    rw [this, evs_cons, delivered_append]; simp [Hs.push]

theorem pushAll_idn (t : Trace) : ∀ h : Hs, (h.pushAll t).idn = h.idn ++ inDone t.evs := by
  induction t with
  | nil => intro h; simp [Hs.pushAll, Trace.evs, inDone]
  | cons e t ih =>
    intro h
    have := ih (h.push e)
    simp only [Hs.pushAll, List.foldl_cons] at this ⊢
    rw [this, evs_cons, inDone_append]; simp [Hs.push]

theorem pushAll_seen (t : Trace) : ∀ h : Hs, (h.pushAll t).seen = h.seen ++ reqIds t := by
  induction t with
  | nil => intro h; simp [Hs.pushAll, reqIds]
  | cons e t ih =>
    intro h
    have := ih (h.push e)
    simp only [Hs.pushAll, List.foldl_cons] at this ⊢
    rw [this]; simp [Hs.push, reqIds]

theorem pushAll_opn (p : Peer) (t : Trace) : ∀ h : Hs, (h.pushAll t).opn p = h.opn p + openCount p t := by
  induction t with
  | nil => intro h; simp [Hs.pushAll, openCount]
  | cons e t ih =>
    intro h
    have := ih (h.push e)
    simp only [Hs.pushAll, List.foldl_cons] at this ⊢
    rw [this]; simp [Hs.push, openCount]; omega

theorem pushAll_dial (p : Peer) (t : Trace) : ∀ h : Hs,
    (h.pushAll t).dial p = t.foldl (dialStep p) (h.dial p) := by
  induction t with
  | nil => intro h; simp [Hs.pushAll]
  | cons e t ih =>
    intro h
    have := ih (h.push e)
    simp only [Hs.pushAll, List.foldl_cons] at this ⊢
    rw [this]; simp [Hs.push]

/-- the invariant, instantiated for a run from the initial state, in terms of the trace functions -/
structure Facts (s : St) (t : Trace) : Prop where
  next_pos : 1 ≤ s.nextId
  iss_eq : (issued t).map (·.1) = List.range' 1 (s.nextId - 1)
  part : ∀ p id, (s.pending p).count id + cnt true id (s.connected p) + (outDone t.evs).count (id, p)
          = (issued t).count (id, p)
  opn_eq : ∀ p, ((s.connected p).length : Int) = openCount p t
  dial_ok : ∀ p, s.pending p ≠ [] → dialing p t = true
  seen_ok : ∀ p id, 0 < cnt false id (s.connected p) → id ∈ reqIds t
  inb : (reqIds t).Nodup →
    (∀ p id, cnt false id (s.connected p) + (inDone t.evs).count (id, p) = (delivered t.evs).count (id, p)) ∧
    ((delivered t.evs).map (·.1)).Nodup ∧ (∀ x ∈ delivered t.evs, x.1 ∈ reqIds t)

theorem facts (dbg : Bool) (np : Nat) (ops : List Op) :
    Facts (finalSt (init dbg) ops) (runT true np (init dbg) [] ops) := by
  have hi := inv_run np ops (init dbg) [] Hs.empty (inv_init dbg)
  have h1 := pushAll_iss (runT true np (init dbg) [] ops) Hs.empty
  have h2 := pushAll_od (runT true np (init dbg) [] ops) Hs.empty
  have h3 := pushAll_dl (runT true np (init dbg) [] ops) Hs.empty
  have h4 := pushAll_idn (runT true np (init dbg) [] ops) Hs.empty
  have h5 := pushAll_seen (runT true np (init dbg) [] ops) Hs.empty
  have h6 := fun p => pushAll_opn p (runT true np (init dbg) [] ops) Hs.empty
  have h7 := fun p => pushAll_dial p (runT true np (init dbg) [] ops) Hs.empty
  simp only [Hs.empty, List.nil_append, Int.zero_add] at hi h1 h2 h3 h4 h5 h6 h7
  refine ⟨hi.next_pos, ?_, ?_, ?_, ?_, ?_, ?_⟩
  · rw [← h1]; exact hi.iss_eq
  · intro p id; rw [← h1, ← h2]; exact hi.part p id
  · intro p; rw [← h6 p]; exact hi.opn_eq p
  · intro p hne; have := hi.dial_ok p hne; rw [h7 p] at this; exact this
  · intro p id hc; rw [← h5]; exact hi.seen_ok p id hc
  · intro hn; rw [← h5] at hn; have := hi.inb hn; rw [h3, h4, h5] at this; exact this

/-! ### generic list facts -/

theorem strictlyIncreasing_range' : ∀ (n a : Nat), strictlyIncreasing (List.range' a n) = true
  | 0, _ => rfl
  | 1, _ => rfl
  | n + 2, a => by
    have := strictlyIncreasing_range' (n + 1) (a + 1)
    simp only [List.range'_succ] at this ⊢
    simp [strictlyIncreasing, this]

theorem pairwise_of_strictlyIncreasing : ∀ l : List Nat, strictlyIncreasing l = true → l.Pairwise (· < ·)
  | [], _ => List.Pairwise.nil
  | [_], _ => by simp
  | a :: b :: t, h => by
    simp only [strictlyIncreasing, Bool.and_eq_true, decide_eq_true_eq] at h
    have ih := pairwise_of_strictlyIncreasing (b :: t) h.2
    refine List.Pairwise.cons ?_ ih
    intro x hx
    rcases List.mem_cons.1 hx with rfl | hx
    · exact h.1
    · exact Nat.lt_trans h.1 ((List.pairwise_cons.1 ih).1 x hx)

/-- a sub-multiset of a list whose image under `f` is duplicate-free has a duplicate-free image -/
theorem nodup_map_of_count_le {α β : Type} [BEq α] [LawfulBEq α] (f : α → β) :
    ∀ (A B : List α), (∀ x, A.count x ≤ B.count x) → (B.map f).Nodup → (A.map f).Nodup := by
  intro A
  induction A with
  | nil => intro B _ _; simp
  | cons a A ih =>
    intro B h hB
    have ha : a ∈ B := by
      apply List.count_pos_iff.1
      have := h a; simp at this; omega
    have hperm : B.Perm (a :: B.erase a) := List.perm_cons_erase ha
    have hB' : ((a :: B.erase a).map f).Nodup := (hperm.map f).nodup_iff.1 hB
    have hsub : ∀ x, A.count x ≤ (B.erase a).count x := by
      intro x
      have := h x
      rw [List.count_erase]
      simp only [List.count_cons] at this
      by_cases hx : a = x
      · subst hx; simp at this ⊢; omega
      · have hx' : (a == x) = false := by simpa using hx
        simp only [hx', Bool.false_eq_true, if_false] at this ⊢; omega
    simp only [List.map_cons, List.nodup_cons] at hB' ⊢
    refine ⟨?_, ih (B.erase a) hsub hB'.2⟩
    intro hm
    obtain ⟨a', ha', e⟩ := List.mem_map.1 hm
    apply hB'.1
    rw [← e]
    refine List.mem_map.2 ⟨a', ?_, rfl⟩
    apply List.count_pos_iff.1
    have := hsub a'
    have : 0 < A.count a' := List.count_pos_iff.2 ha'
    omega

theorem any_pout_iff (b : Bool) (id : RId) (conns : List Conn) :
    conns.any (fun c => decide (id ∈ c.get b)) = true ↔ 0 < cnt b id conns := by
  induction conns with
  | nil => simp
  | cons x xs ih =>
    simp only [List.any_cons, Bool.or_eq_true, decide_eq_true_eq, ih, cnt_cons]
    rw [← List.count_pos_iff (a := id)]
    omega

theorem isPendingOut_iff (s : St) (p : Peer) (id : RId) :
    isPendingOut s p id = true ↔ 0 < (s.pending p).count id + cnt true id (s.connected p) := by
  have := any_pout_iff true id (s.connected p)
  simp only [Conn.get, if_true] at this
  simp only [isPendingOut, Bool.or_eq_true, this, decide_eq_true_eq]
  rw [← List.count_pos_iff (a := id)]
  omega

theorem isPendingIn_iff (s : St) (p : Peer) (id : RId) :
    isPendingIn s p id = true ↔ 0 < cnt false id (s.connected p) := by
  have := any_pout_iff false id (s.connected p)
  simp only [Conn.get, Bool.false_eq_true, if_false] at this
  simp only [isPendingIn, this]

/-! ## The theorems -/

section
variable (dbg : Bool) (np : Nat) (ops : List Op)

local notation "T" => runT true np (init dbg) [] ops
local notation "S" => finalSt (init dbg) ops

/-- **Request ids are unique**: the ids returned by `send_request` are exactly `1, 2, …, n` in call
order — strictly increasing, hence pairwise distinct. -/
theorem ids_unique :
    (issued T).map (·.1) = List.range' 1 ((S).nextId - 1) ∧
    ((issued T).map (·.1)).Pairwise (· < ·) ∧ ((issued T).map (·.1)).Nodup ∧ clIds T := by
  have f := facts dbg np ops
  have hs : strictlyIncreasing ((issued T).map (·.1)) = true := by
    rw [f.iss_eq]; exact strictlyIncreasing_range' _ _
  refine ⟨f.iss_eq, pairwise_of_strictlyIncreasing _ hs, ?_, hs⟩
  rw [f.iss_eq]; exact List.nodup_range'

theorem issued_count_le (x : RId × Peer) : (issued T).count x ≤ 1 :=
  List.nodup_iff_count.1 (nodup_of_map _ _ (ids_unique dbg np ops).2.2.1) x

/-- **Partition** (state form): for every peer and id, (number of places where the id is pending:
`pending_outbound_requests[p]` and the connections of `p`) + (number of outcomes reported for it)
= (number of times it was issued to `p`) ∈ {0, 1}.  So an issued id is in exactly one of
{queued, pending on exactly one connection, done with exactly one outcome}, and a never-issued
id is nowhere. -/
theorem partition (p : Peer) (id : RId) :
    ((S).pending p).count id + cnt true id ((S).connected p) + (outDone (Trace.evs T)).count (id, p)
      = (issued T).count (id, p) ∧ (issued T).count (id, p) ≤ 1 :=
  ⟨(facts dbg np ops).part p id, issued_count_le dbg np ops (id, p)⟩

/-- **At most one outcome** per outbound request id, for any op order. -/
theorem at_most_once : clOnceOut T := by
  have f := facts dbg np ops
  apply nodup_map_of_count_le (·.1) (outDone (Trace.evs T)) (issued T)
  · intro x; obtain ⟨i, q⟩ := x; have := f.part q i; omega
  · exact (ids_unique dbg np ops).2.2.1

/-- outcomes are reported only for issued ids, with the peer the request was addressed to -/
theorem outcome_issued : clIssuedOut T := by
  intro x hx
  obtain ⟨i, q⟩ := x
  have f := facts dbg np ops
  have := f.part q i
  have h1 : 0 < (outDone (Trace.evs T)).count (i, q) := List.count_pos_iff.2 hx
  apply List.count_pos_iff.1
  omega

/-- **Partition** (observable form): `is_pending_outbound(p, id)` holds iff `id` was issued to `p`
and has had no outcome yet. -/
theorem pending_iff (p : Peer) (id : RId) :
    isPendingOut S p id = true ↔ (id, p) ∈ issued T ∧ (id, p) ∉ outDone (Trace.evs T) := by
  have f := facts dbg np ops
  have hp := f.part p id
  have hle := issued_count_le dbg np ops (id, p)
  rw [isPendingOut_iff, ← List.count_pos_iff (a := (id, p)), ← List.count_eq_zero (a := (id, p))]
  omega

/-- **Exactly one outcome**: an issued id that is no longer pending has had exactly one outcome. -/
theorem exactly_once_when_not_pending (p : Peer) (id : RId) (hiss : (id, p) ∈ issued T)
    (hnp : isPendingOut S p id = false) : (outDone (Trace.evs T)).count (id, p) = 1 := by
  have f := facts dbg np ops
  have hp := f.part p id
  have hle := issued_count_le dbg np ops (id, p)
  have h1 : 0 < (issued T).count (id, p) := List.count_pos_iff.2 hiss
  have : ¬ (0 < ((S).pending p).count id + cnt true id ((S).connected p)) := by
    rw [← isPendingOut_iff]; simp [hnp]
  omega

/-- **Exactly once at quiescence**: if no connection to `p` is open and no `Dial` for `p` is
outstanding (every emitted `Dial` was answered by an establishment or a real dial failure), every
request issued to `p` has had exactly one outcome. -/
theorem exactly_once_at_quiescence (p : Peer) (id : RId) (hiss : (id, p) ∈ issued T)
    (hopen : openCount p T ≤ 0) (hdial : dialing p T = false) :
    (outDone (Trace.evs T)).count (id, p) = 1 := by
  have f := facts dbg np ops
  apply exactly_once_when_not_pending dbg np ops p id hiss
  have hc : (S).connected p = [] := by
    have := f.opn_eq p
    apply List.eq_nil_of_length_eq_zero; omega
  have hpn : (S).pending p = [] := by
    apply Classical.byContradiction; intro hne
    have := f.dial_ok p hne; simp [hdial] at this
  cases hb : isPendingOut S p id with
  | false => rfl
  | true =>
    have := (isPendingOut_iff S p id).1 hb
    simp [hc, hpn] at this

theorem quiescence_clause : clQuiesOut T := by
  intro x hx
  obtain ⟨i, q⟩ := x
  have f := facts dbg np ops
  by_cases ho : 0 < openCount q T
  · exact Or.inr (Or.inl ho)
  · by_cases hd : dialing q T = true
    · exact Or.inr (Or.inr hd)
    · left
      have := exactly_once_at_quiescence dbg np ops q i hx (by omega) (by simpa using hd)
      apply List.count_pos_iff.1
      omega

/-! ### inbound requests (under the handler contract: `Request` ids are fresh) -/

theorem delivered_count_le (hfresh : (reqIds T).Nodup) (x : RId × Peer) :
    (delivered (Trace.evs T)).count x ≤ 1 :=
  List.nodup_iff_count.1 (nodup_of_map _ _ ((facts dbg np ops).inb hfresh).2.1) x

/-- inbound partition: pending on a connection of `p` + outcomes = deliveries ∈ {0, 1} -/
theorem partition_in (hfresh : (reqIds T).Nodup) (p : Peer) (id : RId) :
    cnt false id ((S).connected p) + (inDone (Trace.evs T)).count (id, p)
      = (delivered (Trace.evs T)).count (id, p) ∧ (delivered (Trace.evs T)).count (id, p) ≤ 1 :=
  ⟨((facts dbg np ops).inb hfresh).1 p id, delivered_count_le dbg np ops hfresh (id, p)⟩

/-- **At most one outcome** (`ResponseSent` / `InboundFailure`) per inbound request id. -/
theorem at_most_once_in (hfresh : (reqIds T).Nodup) : clOnceIn T := by
  obtain ⟨a, b, _⟩ := (facts dbg np ops).inb hfresh
  apply nodup_map_of_count_le (·.1) (inDone (Trace.evs T)) (delivered (Trace.evs T))
  · intro x; obtain ⟨i, q⟩ := x; have := a q i; omega
  · exact b

theorem outcome_delivered_in (hfresh : (reqIds T).Nodup) : clDeliveredIn T := by
  intro x hx
  obtain ⟨i, q⟩ := x
  obtain ⟨a, _, _⟩ := (facts dbg np ops).inb hfresh
  have := a q i
  have h1 : 0 < (inDone (Trace.evs T)).count (i, q) := List.count_pos_iff.2 hx
  apply List.count_pos_iff.1
  omega

theorem pending_in_iff (hfresh : (reqIds T).Nodup) (p : Peer) (id : RId) :
    isPendingIn S p id = true ↔
      (id, p) ∈ delivered (Trace.evs T) ∧ (id, p) ∉ inDone (Trace.evs T) := by
  obtain ⟨hp, hle⟩ := partition_in dbg np ops hfresh p id
  rw [isPendingIn_iff, ← List.count_pos_iff (a := (id, p)), ← List.count_eq_zero (a := (id, p))]
  omega

/-- **Exactly once at quiescence, inbound**: when no connection to `p` is open, every request of
`p` that was delivered to the application has had exactly one outcome. -/
theorem exactly_once_in_at_quiescence (hfresh : (reqIds T).Nodup) (p : Peer) (id : RId)
    (hdel : (id, p) ∈ delivered (Trace.evs T)) (hopen : openCount p T ≤ 0) :
    (inDone (Trace.evs T)).count (id, p) = 1 := by
  have f := facts dbg np ops
  obtain ⟨hp, hle⟩ := partition_in dbg np ops hfresh p id
  have hc : (S).connected p = [] := by
    have := f.opn_eq p
    apply List.eq_nil_of_length_eq_zero; omega
  have h1 : 0 < (delivered (Trace.evs T)).count (id, p) := List.count_pos_iff.2 hdel
  simp [hc] at hp; omega

theorem quiescence_in_clause (hfresh : (reqIds T).Nodup) : clQuiesIn T := by
  intro x hx
  obtain ⟨i, q⟩ := x
  by_cases ho : 0 < openCount q T
  · exact Or.inr ho
  · left
    have := exactly_once_in_at_quiescence dbg np ops hfresh q i hx (by omega)
    apply List.count_pos_iff.1
    omega

end

/-! ### panics -/

theorem step_panic (s : St) (h : Hs) (hi : Inv s h) (o : Op) :
    (step true s o).2.panic.isNone = true ∨ panicExcused h.seen o = true := by
  cases o with
  | send p =>
    left
    simp only [step]
    split
    · rfl
    · rename_i hemp
      have hlen : 0 < (s.connected p).length := by
        cases hc : s.connected p with
        | nil => simp [hc] at hemp
        | cons x xs => simp
      obtain ⟨r, hr⟩ := sendTo_some s.nextId (s.nextId % (s.connected p).length) (s.connected p)
        (Nat.mod_lt _ hlen)
      simp [hr]
  | established p c => left; rfl
  | closed p c => right; rfl
  | dialFailure p c cond =>
    left
    simp only [step]
    split
    · rfl
    · split <;> rfl
  | hOut p c id k =>
    left
    simp only [step, if_true]
    split <;> rfl
  | hRequest p c id =>
    simp only [step]
    split
    · left; rfl
    · rename_i ins conns' hins
      obtain ⟨_, _, _, hz⟩ := insertIn_spec c id _ _ hins
      dsimp only at hz
      split
      · rename_i hpan
        right
        have hi0 : ins = false := by
          cases hb : ins with
          | true => simp [hb] at hpan
          | false => rfl
        simp only [panicExcused, decide_eq_true_eq]
        exact hi.seen_ok p id (hz hi0)
      · left; rfl
  | hIn p c id k =>
    left
    simp only [step, if_true]
    split
    · rfl
    · split <;> rfl

theorem panics_run (np : Nat) : ∀ (ops : List Op) (s : St) (ids : List RId) (h : Hs), Inv s h →
    panicsOk h.seen (runT true np s ids ops) = true := by
  intro ops
  induction ops with
  | nil => intro s ids h _; rfl
  | cons o os ih =>
    intro s ids h hi
    simp only [runT, panicsOk, Bool.and_eq_true, Bool.or_eq_true]
    refine ⟨step_panic s h hi o, ?_⟩
    have := ih _ (seenAfter ids o) _
      (inv_step s h hi o (samplePo np (step true s o).1) (samplePi np (step true s o).1 (seenAfter ids o)))
    simpa [Hs.push] using this

/-- **No panic on in-contract operations**: along any run, the model of the repaired behaviour
panics only on a `ConnectionClosed` (for a connection it does not know) or on a `Request` event
whose id the handler already used. -/
theorem panics_excused (dbg : Bool) (np : Nat) (ops : List Op) :
    panicsOk [] (runT true np (init dbg) [] ops) = true := by
  have := panics_run np ops (init dbg) [] Hs.empty (inv_init dbg)
  simpa [Hs.empty] using this

/-! ### the `is_pending_*` samples -/

theorem lt_of_range_bound (a b : Nat) (h1 : 1 ≤ a) (h2 : a < 1 + (b - 1)) : a < b := by omega
theorem range_bound_of_lt (a b : Nat) (h1 : 1 ≤ a) (h2 : a < b) : a < 1 + (b - 1) := by omega

theorem mem_samplePo (np : Nat) (s : St) (p : Nat) (id : Nat) :
    (p, id) ∈ samplePo np s ↔ p < np ∧ 1 ≤ id ∧ id < s.nextId ∧ isPendingOut s p id = true := by
  simp only [samplePo, List.mem_flatMap, List.mem_range, List.mem_map, List.mem_filter,
    List.mem_range'_1, Prod.mk.injEq]
  constructor
  · rintro ⟨q, hq, i, ⟨hi, hpend⟩, rfl, rfl⟩
    exact ⟨hq, hi.1, lt_of_range_bound _ _ hi.1 hi.2, hpend⟩
  · rintro ⟨hq, h1, h2, hpend⟩
    exact ⟨p, hq, id, ⟨⟨h1, range_bound_of_lt _ _ h1 h2⟩, hpend⟩, rfl, rfl⟩

theorem mem_samplePi (np : Nat) (s : St) (ids : List RId) (p : Peer) (id : RId) :
    (p, id) ∈ samplePi np s ids ↔ p < np ∧ id ∈ ids ∧ isPendingIn s p id = true := by
  simp only [samplePi, List.mem_flatMap, List.mem_range, List.mem_map, List.mem_filter,
    Prod.mk.injEq]
  constructor
  · rintro ⟨q, hq, i, ⟨hi, hpend⟩, rfl, rfl⟩
    exact ⟨hq, hi, hpend⟩
  · rintro ⟨hq, h1, hpend⟩
    exact ⟨p, hq, id, ⟨h1, hpend⟩, rfl, rfl⟩

theorem mem_insertSorted (x y : Nat) : ∀ l : List Nat, y ∈ insertSorted x l ↔ y = x ∨ y ∈ l
  | [] => by simp [insertSorted]
  | z :: zs => by
    simp only [insertSorted]
    split
    · simp
    · split
      · rename_i hxz; subst hxz; simp
      · simp only [List.mem_cons, mem_insertSorted x y zs]
        constructor
        · rintro (h | h | h)
          · exact Or.inr (Or.inl h)
          · exact Or.inl h
          · exact Or.inr (Or.inr h)
        · rintro (h | h | h)
          · exact Or.inr (Or.inl h)
          · exact Or.inl h
          · exact Or.inr (Or.inr h)

theorem mem_seenAfter (ids : List RId) (o : Op) (y : RId) :
    y ∈ seenAfter ids o ↔ y ∈ ids ∨ y ∈ reqIdOf o := by
  cases o <;> simp [seenAfter, reqIdOf, mem_insertSorted]
  rename_i p c id
  constructor <;> (rintro (h | h) <;> simp [h])

theorem runT_last (np : Nat) : ∀ (ops : List Op) (s : St) (ids : List RId), ops ≠ [] →
    ∃ e seen, (runT true np s ids ops).getLast? = some e ∧ e.po = samplePo np (finalSt s ops) ∧
      e.pi = samplePi np (finalSt s ops) seen ∧
      (∀ y, y ∈ seen ↔ y ∈ ids ∨ y ∈ reqIds (runT true np s ids ops)) := by
  intro ops
  induction ops with
  | nil => intro s ids h; exact absurd rfl h
  | cons o os ih =>
    intro s ids _
    cases os with
    | nil =>
      refine ⟨_, seenAfter ids o, rfl, rfl, rfl, ?_⟩
      intro y; simp [runT, reqIds, mem_seenAfter]
    | cons o' os' =>
      obtain ⟨e, seen, h1, h2, h3, h4⟩ := ih (step true s o).1 (seenAfter ids o) (by simp)
      refine ⟨e, seen, ?_, ?_, ?_, ?_⟩
      · rw [runT, List.getLast?_cons, h1]; rfl
      · simpa [finalSt] using h2
      · simpa [finalSt] using h3
      · intro y
        rw [h4 y, mem_seenAfter]
        conv => rhs; rw [runT]
        simp only [reqIds, List.flatMap_cons, List.mem_append]
        constructor
        · rintro ((h | h) | h)
          · exact Or.inl h
          · exact Or.inr (Or.inl h)
          · exact Or.inr (Or.inr h)
        · rintro (h | h | h)
          · exact Or.inl (Or.inl h)
          · exact Or.inl (Or.inr h)
          · exact Or.inr h

section
variable (dbg : Bool) (np : Nat) (ops : List Op)

local notation "T" => runT true np (init dbg) [] ops
local notation "S" => finalSt (init dbg) ops

theorem lastPo_nil : lastPo (runT true np (init dbg) [] []) = [] := rfl

/-- the observable partition clause, on the `is_pending_outbound` sample (`np` = number of
sampled peers; the requests' peers must be among them) -/
theorem partition_clause (hpeers : ∀ x ∈ issued T, x.2 < np) : clPartOut T ∧ clPendIssuedOut T := by
  by_cases hops : ops = []
  · subst hops; constructor
    · intro x hx; simp [runT, issued] at hx
    · intro x hx; simp [runT, lastPo] at hx
  · obtain ⟨e, seen, h1, h2, _, _⟩ := runT_last np ops (init dbg) [] hops
    have hl : lastPo T = samplePo np S := by simp [lastPo, h1, h2]
    have f := facts dbg np ops
    constructor
    · intro x hx
      obtain ⟨i, q⟩ := x
      rw [hl, mem_samplePo, pending_iff dbg np ops q i]
      have hi : i ∈ (issued T).map (·.1) := List.mem_map.2 ⟨_, hx, rfl⟩
      rw [f.iss_eq, List.mem_range'_1] at hi
      have := hpeers _ hx
      have := f.next_pos
      have hlt := lt_of_range_bound _ _ hi.1 hi.2
      constructor
      · rintro ⟨_, _, _, _, h⟩; exact h
      · intro h; exact ⟨by assumption, hi.1, hlt, hx, h⟩
    · intro x hx
      obtain ⟨q, i⟩ := x
      rw [hl, mem_samplePo, pending_iff dbg np ops q i] at hx
      exact hx.2.2.2.1

theorem partition_in_clause (hfresh : (reqIds T).Nodup) (hpeers : ∀ x ∈ delivered (Trace.evs T), x.2 < np) :
    clPartIn T := by
  by_cases hops : ops = []
  · subst hops
    intro x hx; simp [runT, Trace.evs, delivered] at hx
  · obtain ⟨e, seen, h1, _, h3, h4⟩ := runT_last np ops (init dbg) [] hops
    have hl : lastPi T = samplePi np S seen := by simp [lastPi, h1, h3]
    have f := facts dbg np ops
    intro x hx
    obtain ⟨i, q⟩ := x
    rw [hl, mem_samplePi, pending_in_iff dbg np ops hfresh q i, h4 i]
    have hs : i ∈ reqIds T := (f.inb hfresh).2.2 _ hx
    have := hpeers _ hx
    constructor
    · rintro ⟨_, _, _, h⟩; exact h
    · intro h; exact ⟨by assumption, Or.inr hs, hx, h⟩

/-- **The Spec accepts the model**: every trace of the model satisfies the executable property
(so "implementation output = model output" implies "Spec holds on the implementation"). -/
theorem spec_accepts_model (hp1 : ∀ x ∈ issued T, x.2 < np)
    (hp2 : ∀ x ∈ delivered (Trace.evs T), x.2 < np)
    (c11 : (T).all (fun e => e.out.panic.isNone) = true) : spec T = true := by
  have c1 := (ids_unique dbg np ops).2.2.2
  have c2 := at_most_once dbg np ops
  have c3 := outcome_issued dbg np ops
  have c45 := partition_clause dbg np ops hp1
  have c6 := quiescence_clause dbg np ops
  simp only [spec, specKey, c1, c2, c3, c45.1, c45.2, c6, c11, decide_true, Bool.not_true,
    Bool.false_eq_true, if_false]
  by_cases hfresh : (reqIds T).Nodup
  · have c7 := at_most_once_in dbg np ops hfresh
    have c8 := outcome_delivered_in dbg np ops hfresh
    have c9 := partition_in_clause dbg np ops hfresh hp2
    have c10 := quiescence_in_clause dbg np ops hfresh
    simp [hfresh, c7, c8, c9, c10]
  · simp [hfresh]

end

/-! ### the same with the hypothesis on the operations instead of the trace -/

theorem issued_sends (fx : Bool) (np : Nat) : ∀ (ops : List Op) (s : St) (ids : List RId) (x : RId × Peer),
    x ∈ issued (runT fx np s ids ops) → Op.send x.2 ∈ ops := by
  intro ops
  induction ops with
  | nil => intro s ids x hx; simp [runT, issued] at hx
  | cons o os ih =>
    intro s ids x hx
    simp only [runT, issued, List.flatMap_cons, List.mem_append] at hx
    rcases hx with hx | hx
    · cases o <;> simp [issuedOf] at hx
      rename_i p
      split at hx
      · rename_i h1 h2
        simp only [List.mem_singleton] at hx
        subst hx
        cases h1
        simp
      · simp at hx
    · exact List.mem_cons_of_mem _ (ih _ _ x hx)

theorem step_request_ev (s : St) (o : Op) (p : Peer) (c : CId) (id : RId)
    (h : Ev.request p c id ∈ (step true s o).2.evs) : o = .hRequest p c id := by
  cases o with
  | send q =>
    simp only [step] at h
    split at h
    · simp at h
    · split at h <;> simp at h
  | established q c' => simp [step] at h
  | closed q c' =>
    simp only [step] at h
    split at h
    · simp at h
    · split at h <;> simp at h
  | dialFailure q c' cond =>
    simp only [step] at h
    split at h
    · simp at h
    · split at h <;> simp at h
  | hOut q c' i k =>
    simp only [step, if_true] at h
    split at h
    · cases k <;> simp [hOutEv] at h
    · simp at h
  | hRequest q c' i =>
    simp only [step] at h
    split at h
    · simp at h
    · split at h
      · simp at h
      · simp at h; obtain ⟨rfl, rfl, rfl⟩ := h; rfl
  | hIn q c' i k =>
    simp only [step, if_true] at h
    split at h
    · cases k <;> simp [hInEv] at h
    · split at h <;> simp at h

theorem mem_delivered (evs : List Ev) (x : RId × Peer) :
    x ∈ delivered evs ↔ ∃ c, Ev.request x.2 c x.1 ∈ evs := by
  simp only [delivered, List.mem_filterMap]
  constructor
  · rintro ⟨e, he, h⟩
    cases e <;> simp [deliveredOf] at h
    rename_i p c id
    subst h
    exact ⟨c, he⟩
  · rintro ⟨c, h⟩
    exact ⟨_, h, rfl⟩

theorem delivered_requests (np : Nat) : ∀ (ops : List Op) (s : St) (ids : List RId) (x : RId × Peer),
    x ∈ delivered (Trace.evs (runT true np s ids ops)) → ∃ c, Op.hRequest x.2 c x.1 ∈ ops := by
  intro ops
  induction ops with
  | nil => intro s ids x hx; simp [runT, Trace.evs, delivered] at hx
  | cons o os ih =>
    intro s ids x hx
    rw [runT, evs_cons, delivered_append, List.mem_append] at hx
    rcases hx with hx | hx
    · obtain ⟨c, hc⟩ := (mem_delivered _ x).1 hx
      exact ⟨c, by rw [step_request_ev s o x.2 c x.1 hc]; simp⟩
    · obtain ⟨c, hc⟩ := ih _ _ x hx
      exact ⟨c, List.mem_cons_of_mem _ hc⟩

/-- **The Spec accepts the model**, hypothesis on the operations: the peers of the `send_request`
and `Request` operations are among the `np` peers whose `is_pending_*` is sampled. -/
theorem spec_accepts_model_ops (dbg : Bool) (np : Nat) (ops : List Op)
    (hs : ∀ p, Op.send p ∈ ops → p < np) (hr : ∀ p c id, Op.hRequest p c id ∈ ops → p < np)
    (c11 : (runT true np (init dbg) [] ops).all (fun e => e.out.panic.isNone) = true) :
    spec (runT true np (init dbg) [] ops) = true := by
  apply spec_accepts_model
  · intro x hx; exact hs _ (issued_sends true np ops _ _ x hx)
  · intro x hx
    obtain ⟨c, hc⟩ := delivered_requests np ops _ _ x hx
    exact hr _ _ _ hc
  · exact c11

/-! ## The code as it is (`step false`) under the environment contract

On in-contract operations the code and the defensive variant coincide, so every theorem above holds
for the code on every in-contract run — and the `expect` / `debug_assert!` panics are unreachable. -/

theorem step_agree (s : St) (o : Op) (h : inContract s o = true) : step false s o = step true s o := by
  cases o with
  | hOut p c id k => simp only [inContract] at h; simp [step, h]
  | hIn p c id k =>
    simp only [inContract, Bool.or_eq_true, Bool.not_eq_true'] at h
    rcases h with h | h
    · simp [step, h]
    · simp [step, h]
  | _ => rfl

theorem runT_agree (np : Nat) : ∀ (ops : List Op) (s : St) (ids : List RId), okRun s ops = true →
    runT false np s ids ops = runT true np s ids ops := by
  intro ops
  induction ops with
  | nil => intro s ids _; rfl
  | cons o os ih =>
    intro s ids h
    simp only [okRun, Bool.and_eq_true] at h
    have e := step_agree s o h.1
    simp only [runT, e]
    rw [ih _ _ (by rw [← e]; exact h.2)]

theorem finalSt_agree : ∀ (ops : List Op) (s : St), okRun s ops = true →
    ops.foldl (fun s o => (step false s o).1) s = finalSt s ops := by
  intro ops
  induction ops with
  | nil => intro s _; rfl
  | cons o os ih =>
    intro s h
    simp only [okRun, Bool.and_eq_true] at h
    have e := step_agree s o h.1
    simp only [List.foldl_cons, finalSt]
    rw [ih _ h.2, e]; rfl

theorem step_no_panic (s : St) (h : Hs) (hi : Inv s h) (o : Op) (hc : inContract s o = true) :
    (step true s o).2.panic = none := by
  cases o with
  | send p =>
    simp only [step]
    split
    · rfl
    · rename_i hemp
      have hlen : 0 < (s.connected p).length := by
        cases hc' : s.connected p with
        | nil => simp [hc'] at hemp
        | cons x xs => simp
      obtain ⟨r, hr⟩ := sendTo_some s.nextId (s.nextId % (s.connected p).length) (s.connected p)
        (Nat.mod_lt _ hlen)
      simp [hr]
  | established p c => rfl
  | closed p c =>
    simp only [inContract, Bool.and_eq_true, Bool.not_eq_true'] at hc
    simp only [step, hc.1, Bool.false_eq_true, if_false]
    cases ht : takeConn c (s.connected p) with
    | none => simp [ht] at hc
    | some r => rfl
  | dialFailure p c cond =>
    simp only [step]
    split
    · rfl
    · split <;> rfl
  | hOut p c id k =>
    simp only [step, if_true]
    split <;> rfl
  | hRequest p c id =>
    simp only [inContract] at hc
    simp only [step]
    split
    · rfl
    · rename_i ins conns' hins
      simp only [hins] at hc
      simp [hc]
  | hIn p c id k =>
    simp only [step, if_true]
    split
    · rfl
    · split <;> rfl

/-- **The `expect`s and `debug_assert!`s are unreachable**: on an in-contract run the code never
panics (both build modes). -/
theorem no_panic_run (np : Nat) : ∀ (ops : List Op) (s : St) (ids : List RId) (h : Hs), Inv s h →
    okRun s ops = true → (runT false np s ids ops).all (fun e => e.out.panic.isNone) = true := by
  intro ops
  induction ops with
  | nil => intro s ids h _ _; rfl
  | cons o os ih =>
    intro s ids h hi hok
    simp only [okRun, Bool.and_eq_true] at hok
    have e := step_agree s o hok.1
    simp only [runT, List.all_cons, Bool.and_eq_true, e]
    refine ⟨by simp [step_no_panic s h hi o hok.1], ?_⟩
    exact ih _ _ _ (inv_step s h hi o (samplePo np (step true s o).1)
      (samplePi np (step true s o).1 (seenAfter ids o))) (by rw [← e]; exact hok.2)

section
variable (dbg : Bool) (np : Nat) (ops : List Op) (hok : okRun (init dbg) ops = true)
include hok

local notation "T₀" => runT false np (init dbg) [] ops

theorem code_no_panic : (T₀).all (fun e => e.out.panic.isNone) = true :=
  no_panic_run np ops (init dbg) [] Hs.empty (inv_init dbg) hok

/-- request ids returned by the code are `1, 2, …` in call order -/
theorem code_ids_unique : ((issued T₀).map (·.1)).Pairwise (· < ·) ∧ ((issued T₀).map (·.1)).Nodup := by
  rw [runT_agree np ops _ _ hok]
  exact ⟨(ids_unique dbg np ops).2.1, (ids_unique dbg np ops).2.2.1⟩

/-- **no outbound request id gets two outcomes** (code as it is, any in-contract interleaving) -/
theorem code_at_most_once : clOnceOut T₀ := by
  rw [runT_agree np ops _ _ hok]; exact at_most_once dbg np ops

theorem code_outcome_issued : clIssuedOut T₀ := by
  rw [runT_agree np ops _ _ hok]; exact outcome_issued dbg np ops

/-- **partition**: `is_pending_outbound(p, id)` ⇔ issued to `p` and no outcome yet -/
theorem code_pending_iff (p : Peer) (id : RId) :
    isPendingOut (ops.foldl (fun s o => (step false s o).1) (init dbg)) p id = true ↔
      (id, p) ∈ issued T₀ ∧ (id, p) ∉ outDone (Trace.evs T₀) := by
  rw [runT_agree np ops _ _ hok, finalSt_agree ops _ hok]; exact pending_iff dbg np ops p id

/-- **exactly one outcome at quiescence** (no open connection to `p`, no outstanding `Dial`) -/
theorem code_exactly_once_at_quiescence (p : Peer) (id : RId) (hiss : (id, p) ∈ issued T₀)
    (hopen : openCount p T₀ ≤ 0) (hdial : dialing p T₀ = false) :
    (outDone (Trace.evs T₀)).count (id, p) = 1 := by
  rw [runT_agree np ops _ _ hok] at hiss hopen hdial ⊢
  exact exactly_once_at_quiescence dbg np ops p id hiss hopen hdial

theorem code_at_most_once_in (hfresh : (reqIds T₀).Nodup) : clOnceIn T₀ := by
  rw [runT_agree np ops _ _ hok] at hfresh ⊢; exact at_most_once_in dbg np ops hfresh

theorem code_pending_in_iff (hfresh : (reqIds T₀).Nodup) (p : Peer) (id : RId) :
    isPendingIn (ops.foldl (fun s o => (step false s o).1) (init dbg)) p id = true ↔
      (id, p) ∈ delivered (Trace.evs T₀) ∧ (id, p) ∉ inDone (Trace.evs T₀) := by
  rw [runT_agree np ops _ _ hok] at hfresh ⊢
  rw [finalSt_agree ops _ hok]; exact pending_in_iff dbg np ops hfresh p id

theorem code_exactly_once_in_at_quiescence (hfresh : (reqIds T₀).Nodup) (p : Peer) (id : RId)
    (hdel : (id, p) ∈ delivered (Trace.evs T₀)) (hopen : openCount p T₀ ≤ 0) :
    (inDone (Trace.evs T₀)).count (id, p) = 1 := by
  rw [runT_agree np ops _ _ hok] at hfresh hdel hopen ⊢
  exact exactly_once_in_at_quiescence dbg np ops hfresh p id hdel hopen

/-- **The Spec accepts the model of the code** on every in-contract run. -/
theorem code_spec_accepts_model (hs : ∀ p, Op.send p ∈ ops → p < np)
    (hr : ∀ p c id, Op.hRequest p c id ∈ ops → p < np) : spec T₀ = true := by
  have hp := code_no_panic dbg np ops hok
  rw [runT_agree np ops _ _ hok] at hp ⊢
  exact spec_accepts_model_ops dbg np ops hs hr hp

end

/-! ## Outside the contract (observation `C45-late-handler-event`)

Outside the contract the code is not robust: a completion event for a request that is no longer
pending gives it a second outcome (release) or trips the `debug_assert!` (debug).  Not reachable
through a real `Swarm` + `Handler`; recorded for documentation. -/

/-- out-of-contract run: established, send, closed, then a late `Response` for the closed connection -/
def lateOps : List Op := [.established 0 1, .send 0, .closed 0 1, .hOut 0 1 1 .response]

/-- release build of the ORIGINAL code: request 1 gets two outcomes
(`OutboundFailure::ConnectionClosed`, then `Message::Response`) -/
theorem late_handler_event_buggy_counterexample :
    outDone (Trace.evs (runT false 1 (init false) [] lateOps)) = [(1, 0), (1, 0)] ∧
    ¬ clOnceOut (runT false 1 (init false) [] lateOps) := by
  constructor
  · decide
  · decide

/-- debug build of the ORIGINAL code: the same run panics in `on_connection_handler_event` -/
theorem late_handler_event_buggy_panics :
    ((runT false 1 (init true) [] lateOps).map (·.out.panic)) =
      [none, none, none, some "debug_assert removed"] := by decide

/-- the repaired code ignores the late event -/
theorem late_handler_event_fixed :
    outDone (Trace.evs (runT true 1 (init true) [] lateOps)) = [(1, 0)] ∧
    ((runT true 1 (init true) [] lateOps).map (·.out.panic)) = [none, none, none, none] := by
  constructor <;> decide

example : okRun (init true) lateOps = false := by decide
example : okRun (init true) [.established 0 1, .send 0, .hOut 0 1 1 .response, .closed 0 1] = true := by decide

/-- Under the handler contract (a completion event only for an id that is pending on that
connection) the code and the defensive variant behave identically. -/
theorem original_agrees_in_contract (s : St) (o : Op)
    (hout : ∀ p c id k, o = .hOut p c id k → (removeP true c id (s.connected p)).1 = true)
    (hin : ∀ p c id k, o = .hIn p c id k → (removeP false c id (s.connected p)).1 = true) :
    step false s o = step true s o := by
  cases o with
  | hOut p c id k => simp [step, hout p c id k rfl]
  | hIn p c id k => simp [step, hin p c id k rfl]
  | _ => rfl

/-! ### non-vacuity: the hypotheses are satisfiable, the conclusions are not trivially true -/

/-- a quiescent run: queued request, dial fails → exactly one outcome -/
example : (1, 0) ∈ issued (runT true 1 (init true) [] [.send 0, .dialFailure (some 0) 9 false]) ∧
    openCount 0 (runT true 1 (init true) [] [.send 0, .dialFailure (some 0) 9 false]) ≤ 0 ∧
    dialing 0 (runT true 1 (init true) [] [.send 0, .dialFailure (some 0) 9 false]) = false := by decide
/-- a non-quiescent run: the request is still pending, no outcome yet -/
example : outDone (Trace.evs (runT true 1 (init true) [] [.send 0])) = [] ∧
    dialing 0 (runT true 1 (init true) [] [.send 0]) = true := by decide
/-- inbound: fresh ids, delivered, connection closed → `InboundFailure::ConnectionClosed` once -/
example : (reqIds (runT true 1 (init true) [] [.established 0 1, .hRequest 0 1 5, .closed 0 1])).Nodup ∧
    inDone (Trace.evs (runT true 1 (init true) [] [.established 0 1, .hRequest 0 1 5, .closed 0 1])) = [(5, 0)] := by
  decide
/-- the Spec rejects a trace with two outcomes -/
example : specKey (runT false 1 (init false) [] lateOps) = some "double_outcome_out" := by decide

end C45

#print axioms C45.inv_step
#print axioms C45.ids_unique
#print axioms C45.partition
#print axioms C45.at_most_once
#print axioms C45.outcome_issued
#print axioms C45.pending_iff
#print axioms C45.exactly_once_when_not_pending
#print axioms C45.exactly_once_at_quiescence
#print axioms C45.partition_in
#print axioms C45.at_most_once_in
#print axioms C45.pending_in_iff
#print axioms C45.exactly_once_in_at_quiescence
#print axioms C45.panics_excused
#print axioms C45.spec_accepts_model
#print axioms C45.spec_accepts_model_ops
#print axioms C45.runT_agree
#print axioms C45.code_no_panic
#print axioms C45.code_ids_unique
#print axioms C45.code_at_most_once
#print axioms C45.code_outcome_issued
#print axioms C45.code_pending_iff
#print axioms C45.code_exactly_once_at_quiescence
#print axioms C45.code_at_most_once_in
#print axioms C45.code_pending_in_iff
#print axioms C45.code_exactly_once_in_at_quiescence
#print axioms C45.code_spec_accepts_model
#print axioms C45.late_handler_event_buggy_counterexample
#print axioms C45.late_handler_event_buggy_panics
#print axioms C45.late_handler_event_fixed
#print axioms C45.original_agrees_in_contract
