import Libp2pModel.Proofs.C25Frame
import Libp2pModel.Common.Machine
/-!
# C25 — Mplex framing round-trips and bounds hostile input: property theorems

Model: `Model/C25.lean` (transcription of `muxers/mplex/src/codec.rs` + the `unsigned_varint` u64
loop).  Helper lemmas: `Proofs/C25{Uvi,Step,Drain,Varint,Frame}.lean`.
-/
namespace C25

/-! ### round trip under any split -/

/-- **Round trip under any split.**  For every list of wire frames (61-bit stream number; `Open`
sent by the initiator) whose payloads respect the 1 MiB limit, `encode` succeeds on all of them, and
feeding the concatenated bytes to a fresh decoder in ANY chunking (`cs` arbitrary with
`cs.flatten = bs`: empty chunks, single bytes, splits inside varints or payloads …) yields exactly
these frames, in order, consumes every byte, ends in state `Begin` and reports no error. -/
theorem roundtrip_split (fs : List Frame) (hw : ∀ f ∈ fs, f.wire = true) (bs : List Nat)
    (he : encodeAll fs = some bs) (cs : List (List Nat)) (hcs : cs.flatten = bs) :
    feedMany .begin [] cs = (fs, .begin, [], none) := by
  rw [feedMany_fresh, hcs]
  have := drain_encodeAll fs hw bs he []
  simpa [drain_begin_nil] using this

/-- `encode` succeeds on a list exactly when every payload is within the limit -/
theorem encodeAll_isSome_iff (fs : List Frame) :
    (encodeAll fs).isSome ↔ ∀ f ∈ fs, f.payload.length ≤ MAX_FRAME_SIZE := by
  induction fs with
  | nil => simp [encodeAll]
  | cons f fs ih =>
    have h1 := encode_isSome_iff f
    simp only [encodeAll, List.mem_cons, forall_eq_or_imp]
    cases hf : encode f <;> cases hfs : encodeAll fs <;> simp_all

/-- …and the receiver's view of each decoded frame (`RemoteStreamId::into_local`) is the sent frame
with the same kind, number and payload and the **role mirrored**. -/
theorem roundtrip_mirrored (fs : List Frame) (hw : ∀ f ∈ fs, f.wire = true) (bs : List Nat)
    (he : encodeAll fs = some bs) (cs : List (List Nat)) (hcs : cs.flatten = bs) :
    (feedMany .begin [] cs).1.map (Frame.mapId Sid.mirror) = fs.map (Frame.mapId Sid.mirror) ∧
    ∀ f ∈ fs, (f.mapId Sid.mirror).id.num = f.id.num ∧ (f.mapId Sid.mirror).id.role = f.id.role.flip ∧
      (f.mapId Sid.mirror).payload = f.payload := by
  rw [roundtrip_split fs hw bs he cs hcs]
  refine ⟨rfl, ?_⟩
  intro f _
  cases f <;> simp [Frame.mapId, Frame.id, Sid.mirror, Frame.payload]

/-- **Split independence for arbitrary (also hostile) input**: frames, final codec state, residue and
the first error do not depend on how the byte stream was cut. -/
theorem split_independent (cs : List (List Nat)) : feedMany .begin [] cs = drain .begin cs.flatten :=
  feedMany_fresh cs

/-! ### hostile input -/

/-- **Length limit, early.**  As soon as the length varint is complete and declares more than
1 MiB, `decode` fails — whatever follows (`rest'` may be empty: not one payload byte is needed),
from `Begin` and from `HasHeader` alike; the state `HasHeaderAndLen` (the only place that calls
`src.reserve`) is not entered. -/
theorem len_rejected_early (src rest rest' : List Nat) (h len : Nat)
    (hh : uvi64 src = .ok h rest) (hl : uvi64 rest = .ok len rest') (hbig : len > MAX_FRAME_SIZE) :
    decode .begin src = (.poisoned, rest', .err (.lenTooBig len)) ∧
    decode (.hasHeader h) rest = (.poisoned, rest', .err (.lenTooBig len)) := by
  simp [decode, fromBegin, fromH, hh, hl, hbig]

/-- before the length varint is complete the decoder only waits (asks for 0 bytes) -/
theorem len_incomplete_waits (src rest : List Nat) (h : Nat)
    (hh : uvi64 src = .ok h rest) (hl : uvi64 rest = .need) :
    decode .begin src = (.hasHeader h, rest, .none 0) := by
  simp [decode, fromBegin, fromH, hh, hl]

/-- codec states in which the pending length respects the limit -/
def StOk : St → Prop
  | .hasHeaderAndLen _ len => len ≤ MAX_FRAME_SIZE
  | _ => True

theorem decode_StOk (st : St) (src : List Nat) (hs : StOk st) : StOk (decode st src).1 := by
  have hHL : ∀ h len src, len ≤ MAX_FRAME_SIZE → StOk (fromHL h len src).1 := by
    intro h len src hl
    unfold fromHL
    split
    · exact hl
    · split <;> simp [StOk]
  have hH : ∀ h src, StOk (fromH h src).1 := by
    intro h src
    unfold fromH
    split
    · simp [StOk]
    · simp [StOk]
    · simp [StOk]
    · split
      · simp [StOk]
      · exact hHL _ _ _ (by omega)
  cases st with
  | begin =>
    simp only [decode]; unfold fromBegin
    split
    · simp [StOk]
    · simp [StOk]
    · simp [StOk]
    · exact hH _ _
  | hasHeader h => exact hH _ _
  | hasHeaderAndLen h len => exact hHL _ _ _ hs
  | poisoned => simp [decode, StOk]

/-- **Bounded buffering request**: in every state with `StOk` (all reachable ones, see
`reachable_StOk`) the amount passed to `src.reserve` is at most 1 MiB. -/
theorem reserve_le (st : St) (src : List Nat) (hs : StOk st) (st' : St) (r : List Nat) (k : Nat)
    (hd : decode st src = (st', r, .none k)) : k ≤ MAX_FRAME_SIZE := by
  have hHL : ∀ h len src, len ≤ MAX_FRAME_SIZE → fromHL h len src = (st', r, .none k) → k ≤ MAX_FRAME_SIZE := by
    intro h len src hl hd
    unfold fromHL at hd
    split at hd
    · simp at hd; omega
    · split at hd <;> simp at hd
  have hH : ∀ h src, fromH h src = (st', r, .none k) → k ≤ MAX_FRAME_SIZE := by
    intro h src hd
    unfold fromH at hd
    split at hd
    · simp at hd; omega
    · simp at hd
    · simp at hd
    · split at hd
      · simp at hd
      · exact hHL _ _ _ (by omega) hd
  cases st with
  | begin =>
    simp only [decode] at hd; unfold fromBegin at hd
    split at hd
    · simp at hd; omega
    · simp at hd
    · simp at hd
    · exact hH _ _ hd
  | hasHeader h => exact hH _ _ hd
  | hasHeaderAndLen h len => exact hHL _ _ _ hs hd
  | poisoned => simp [decode] at hd

theorem drain_StOk (st : St) (buf : List Nat) : StOk st → StOk (drain st buf).2.1 := by
  fun_induction drain st buf with
  | case1 st buf r k hr => intro hs; exact decode_StOk st buf hs
  | case2 st buf r e hr => intro hs; exact decode_StOk st buf hs
  | case3 st buf r f hr hm t ih => intro hs; exact ih (decode_StOk st buf hs)
  | case4 st buf r f hr hm => intro hs; exact decode_StOk st buf hs

/-- every codec state reachable from a fresh codec by feeding arbitrary chunks has a pending
length of at most 1 MiB -/
theorem reachable_StOk (cs : List (List Nat)) : StOk (feedMany .begin [] cs).2.1 := by
  rw [feedMany_fresh]; exact drain_StOk _ _ (by simp [StOk])

/-- **Unknown frame type**: header flag 7 is rejected (once the declared payload is there). -/
theorem unknown_type (h len : Nat) (src : List Nat) (h7 : h % 8 = 7) (hlen : len ≤ src.length) :
    fromHL h len src = (.poisoned, src.drop len, .err (.badType h)) := by
  unfold fromHL
  have : ¬ src.length < len := by omega
  simp [this, mkFrame, h7]

/-- and only flag 7 is -/
theorem mkFrame_none_iff (h : Nat) (buf : List Nat) : mkFrame h buf = none ↔ h % 8 = 7 := by
  unfold mkFrame
  have : h % 8 = 0 ∨ h % 8 = 1 ∨ h % 8 = 2 ∨ h % 8 = 3 ∨ h % 8 = 4 ∨ h % 8 = 5 ∨ h % 8 = 6 ∨ h % 8 = 7 := by
    omega
  rcases this with h0 | h0 | h0 | h0 | h0 | h0 | h0 | h0 <;> simp [h0]

/-- **No panic**: no `decode` call, in any state, on any bytes, takes a panicking path (the model's
only explicit panic is the `u64` shift overflow in the varint loop). -/
theorem no_panic (st : St) (src : List Nat) : (decode st src).2.2 ≠ .err .panic := by
  have hHL : ∀ h len src, (fromHL h len src).2.2 ≠ .err .panic := by
    intro h len src
    unfold fromHL
    split
    · simp
    · split <;> simp
  have hH : ∀ h src, (fromH h src).2.2 ≠ .err .panic := by
    intro h src
    unfold fromH
    split
    · simp
    · simp
    · rename_i hp; exact absurd hp (uvi64_no_panic src)
    · split
      · simp
      · exact hHL _ _ _
  cases st with
  | begin =>
    simp only [decode]; unfold fromBegin
    split
    · simp
    · simp
    · rename_i hp; exact absurd hp (uvi64_no_panic src)
    · exact hH _ _
  | hasHeader h => exact hH _ _
  | hasHeaderAndLen h len => exact hHL _ _ _
  | poisoned => simp [decode]

theorem drain_no_panic (st : St) (buf : List Nat) : (drain st buf).2.2.2 ≠ some .panic := by
  fun_induction drain st buf with
  | case1 st buf r k hr => simp
  | case2 st buf r e hr =>
    intro h
    simp only [Option.some.injEq] at h
    have h2 := hr
    rw [h] at h2
    exact no_panic st buf h2
  | case3 st buf r f hr hm t ih => exact ih
  | case4 st buf r f hr hm => simp

/-- **Poisoned**: after any error every further `decode` call fails, whatever it is given. -/
theorem poisoned (st : St) (src : List Nat) (st' : St) (r : List Nat) (e : DErr)
    (hd : decode st src = (st', r, .err e)) (src' : List Nat) :
    decode st' src' = (.poisoned, src', .err .poisoned) := by
  rw [decode_err_state st src st' r e hd]; rfl

/-- **Encoder limit**: a payload above 1 MiB is refused, anything else is encoded. -/
theorem encode_limit (f : Frame) : encode f = none ↔ f.payload.length > MAX_FRAME_SIZE := by
  unfold encode; split <;> simp_all

/-! ### a sequence of frames encoded into ONE buffer, rejected ones included -/

/-- **A rejected frame leaves the output buffer byte-for-byte unchanged** (and a frame is rejected
exactly when its payload exceeds 1 MiB; an accepted one only appends). -/
theorem encode_reject_leaves_buffer (dst : List Nat) (f : Frame) :
    ((encodeInto dst f).1 = .error .dataTooBig ↔ f.payload.length > MAX_FRAME_SIZE) ∧
    ((encodeInto dst f).1 = .error .dataTooBig → (encodeInto dst f).2 = dst) ∧
    ((encodeInto dst f).1 = .ok () → ∃ bs, encode f = some bs ∧ (encodeInto dst f).2 = dst ++ bs) := by
  unfold encodeInto
  cases he : encode f with
  | none => exact ⟨⟨fun _ => (encode_limit f).1 he, fun _ => rfl⟩, fun _ => rfl, by simp⟩
  | some bs =>
    refine ⟨⟨by simp, fun h => ?_⟩, by simp, fun _ => ⟨bs, rfl, rfl⟩⟩
    have := (encode_limit f).2 h
    rw [he] at this; cases this

/-- the shared buffer after a sequence of `encode` calls is the old contents followed by the
encodings of the accepted frames only, in order -/
theorem encodeSeq_eq : ∀ (fs : List Frame) (dst : List Nat),
    ∃ bs, encodeAll (accepted fs) = some bs ∧ encodeSeq dst fs = dst ++ bs := by
  intro fs
  induction fs with
  | nil => intro dst; exact ⟨[], rfl, by simp [encodeSeq]⟩
  | cons f fs ih =>
    intro dst
    simp only [encodeSeq, encodeInto]
    cases he : encode f with
    | none =>
      have hbig := (encode_limit f).1 he
      obtain ⟨bs, h1, h2⟩ := ih dst
      refine ⟨bs, ?_, h2⟩
      have : accepted (f :: fs) = accepted fs := by
        unfold accepted
        rw [List.filter_cons]
        have : ¬ (f.payload.length ≤ MAX_FRAME_SIZE) := by omega
        simp [this]
      rw [this]; exact h1
    | some a =>
      have hsmall : f.payload.length ≤ MAX_FRAME_SIZE := (encode_isSome_iff f).1 (by simp [he])
      obtain ⟨bs, h1, h2⟩ := ih (dst ++ a)
      refine ⟨a ++ bs, ?_, by rw [h2, List.append_assoc]⟩
      have : accepted (f :: fs) = f :: accepted fs := by
        unfold accepted
        rw [List.filter_cons]
        simp [hsmall]
      rw [this]
      simp [encodeAll, he, h1]

theorem accepted_mem {fs : List Frame} {f : Frame} (h : f ∈ accepted fs) : f ∈ fs :=
  (List.mem_filter.1 h).1

/-- **Decoding the stream of the accepted frames.**  Encode ANY list of frames one after the other
into one (initially empty) buffer — frames above the limit are rejected and skipped — and feed that
buffer to a fresh decoder under ANY split: it yields exactly the accepted frames, in order (each
with the sender's role tag, i.e. mirrored by `into_local`), consumes everything and reports no
error.  (Corollary of `roundtrip_split` and `encodeSeq_eq`.) -/
theorem decode_stream_of_accepted (fs : List Frame) (hw : ∀ f ∈ fs, f.wire = true)
    (cs : List (List Nat)) (hcs : cs.flatten = encodeSeq [] fs) :
    feedMany .begin [] cs = (accepted fs, .begin, [], none) := by
  obtain ⟨bs, h1, h2⟩ := encodeSeq_eq fs []
  rw [List.nil_append] at h2
  exact roundtrip_split (accepted fs) (fun f hf => hw f (accepted_mem hf)) bs h1 cs (by rw [hcs, h2])

theorem cutChunks_flatten : ∀ (ns : List Nat) (buf : List Nat), (cutChunks buf ns).flatten = buf := by
  intro ns
  induction ns with
  | nil => intro buf; simp [cutChunks]
  | cons n ns ih => intro buf; simp [cutChunks, ih, List.take_append_drop]

/-- the driver's `decs` op on the model: whatever the split sizes -/
theorem decs_model (fs : List Frame) (hw : ∀ f ∈ fs, f.wire = true) (ns : List Nat) :
    feedMany .begin [] (cutChunks (encodeSeq [] fs) ns) = (accepted fs, .begin, [], none) :=
  decode_stream_of_accepted fs hw _ (cutChunks_flatten ns _)

/-! ### the Spec accepts the model -/

theorem spec_enc_model (f : Frame) : specEnc f (encode f) = true := by
  unfold specEnc
  cases he : encode f with
  | none => simpa using (encode_limit f).1 he
  | some bs =>
    have hlen : f.payload.length ≤ MAX_FRAME_SIZE := by
      have := (encode_isSome_iff f).1 (by simp [he]); exact this
    simp only [hlen, decide_true, Bool.true_and, Bool.or_eq_true, Bool.not_eq_eq_eq_not, Bool.not_true]
    by_cases hw : f.wire = true
    · right
      have := drain_encodeAll [f] (by simpa using hw) bs (by simp [encodeAll, he]) []
      simp only [List.append_nil, drain_begin_nil] at this
      simp [this]
    · left; simpa using hw

/-- lock-step of the two sides of the driver on `feed` ops -/
def lockStep (p : (St × List Nat) × SpecSt) (c : List Nat) : ((St × List Nat) × SpecSt) × String :=
  let m := modelFeed p.1 c
  let s := specFeed p.2 c m.2
  ((m.1, s.1), s.2)

def LockInv (p : (St × List Nat) × SpecSt) : Prop :=
  ∃ e, drain .begin p.2.all = (p.2.frames, p.1.1, p.1.2, e) ∧ p.2.prevErr = e.isSome

theorem lockStep_inv (p : (St × List Nat) × SpecSt) (c : List Nat) (hi : LockInv p) :
    LockInv (lockStep p c).1 ∧ (lockStep p c).2 = "ok" := by
  obtain ⟨⟨st, buf⟩, t⟩ := p
  obtain ⟨e, hd, hp⟩ := hi
  simp only at hd hp
  have happ := drain_append c .begin t.all
  rw [hd] at happ
  simp only at happ
  have hnp := drain_no_panic st (buf ++ c)
  cases e with
  | some e0 =>
    -- already failed: codec poisoned
    have hst : st = .poisoned := by
      have := drain_err_state .begin t.all e0 (by rw [hd])
      rw [hd] at this; exact this
    subst hst
    simp only [drain_poisoned, List.append_nil, Option.some_or] at happ
    simp only [Option.isSome_some] at hp
    refine ⟨⟨some e0, ?_, ?_⟩, ?_⟩
    · simp [lockStep, modelFeed, specFeed, drain_poisoned, happ]
    · simp [lockStep, specFeed, hp]
    · simp [lockStep, modelFeed, specFeed, specFeedKey, drain_poisoned, happ, statusOf, hp]
  | none =>
    simp only [Option.none_or] at happ
    simp only [Option.isSome_none] at hp
    refine ⟨⟨(drain st (buf ++ c)).2.2.2, ?_, ?_⟩, ?_⟩
    · simp [lockStep, modelFeed, specFeed, happ]
    · simp only [lockStep, specFeed, modelFeed, hp, Bool.false_or]
      cases (drain st (buf ++ c)).2.2.2 <;> simp [statusOf]
    · simp only [lockStep, modelFeed, specFeed, specFeedKey, happ, hp]
      cases he : (drain st (buf ++ c)).2.2.2 with
      | none => simp [statusOf]
      | some e1 =>
        have : e1 ≠ .panic := by intro h; rw [h] at he; exact hnp he
        simp [statusOf, this]

/-- **The Spec accepts the model** on every sequence of feeds: if the implementation's outputs
equal the model's, the oracle prints `ok` at every step. -/
theorem spec_feed_model (cs : List (List Nat)) :
    ∀ v ∈ (Machine.run lockStep ((.begin, []), {}) cs).2, v = "ok" := by
  apply Machine.outputs_of_step lockStep LockInv (fun v => v = "ok")
  · intro s o h; exact (lockStep_inv s o h).1
  · intro s o h; exact (lockStep_inv s o h).2
  · exact ⟨none, by simp [drain_begin_nil], rfl⟩

/-! ### non-vacuity -/

/-- a Data frame on stream 5 sent by a listener: `29 02 aa bb`, decoded whole … -/
example : decode .begin [41, 2, 170, 187] = (.begin, [], .some (.data ⟨5, .listener⟩ [170, 187])) := by decide
/-- … and resumed after every prefix -/
example : decode .begin [41] = (.hasHeader 41, [], .none 0) := by decide
example : decode (.hasHeader 41) [2, 170] = (.hasHeaderAndLen 41 2, [170], .none 1) := by decide
example : decode (.hasHeaderAndLen 41 2) [170, 187, 9] = (.begin, [9], .some (.data ⟨5, .listener⟩ [170, 187])) := by decide
example : encode (.data ⟨5, .listener⟩ [170, 187]) = some [41, 2, 170, 187] := by
  simp [encode, header, flag, Frame.payload, Frame.id, Varint.encode, MAX_FRAME_SIZE, U64]
example : (Frame.data ⟨5, .listener⟩ [170, 187]).wire = true := by decide
/-- length 2^20 + 1 = `81 80 40`: rejected when its last byte arrives -/
example : decode .begin [8, 129, 128, 64] = (.poisoned, [], .err (.lenTooBig 1048577)) := by decide
example : decode .begin [8, 129, 128] = (.hasHeader 8, [129, 128], .none 0) := by decide
/-- flag 7 -/
example : decode .begin [15, 0] = (.poisoned, [], .err (.badType 15)) := by decide
/-- 10-byte varint with a continuation bit in the 10th byte / non-minimal encoding -/
example : uvi64 [128, 128, 128, 128, 128, 128, 128, 128, 128, 128, 1] = .err .overflow := by decide
example : uvi64 [128, 0] = .err .notMinimal := by decide
example : StOk .begin := by simp [StOk]

end C25

#print axioms C25.roundtrip_split
#print axioms C25.roundtrip_mirrored
#print axioms C25.encodeAll_isSome_iff
#print axioms C25.split_independent
#print axioms C25.len_rejected_early
#print axioms C25.len_incomplete_waits
#print axioms C25.reserve_le
#print axioms C25.reachable_StOk
#print axioms C25.unknown_type
#print axioms C25.mkFrame_none_iff
#print axioms C25.no_panic
#print axioms C25.drain_no_panic
#print axioms C25.poisoned
#print axioms C25.encode_limit
#print axioms C25.spec_enc_model
#print axioms C25.encode_reject_leaves_buffer
#print axioms C25.encodeSeq_eq
#print axioms C25.decode_stream_of_accepted
#print axioms C25.decs_model
#print axioms C25.spec_feed_model
