import Libp2pModel.Model.C13Ident
import Libp2pModel.Props.C13
/-!
# C13, second part — property theorems for identify's external-address candidates
-/
namespace C13

/-- **Every candidate identify emits is the observed address itself or the translation
(`_address_translation`) of some current listen address** — for every listen set, observed address
and connection kind. -/
theorem candidate_is_observed_or_translation (listen : List Maddr) (observed : Maddr) (kind : ConnKind)
    (c : Maddr) (hc : c ∈ candidates listen observed kind) :
    c = observed ∨ ∃ s ∈ listen, eligible s observed = true ∧ translate s observed = some c := by
  unfold candidates at hc
  by_cases hk : kind = .outNew
  · simp only [hk, ↓reduceIte] at hc
    by_cases ht : (translated listen observed).isEmpty = true
    · simp only [ht, ↓reduceIte, List.mem_singleton] at hc
      exact Or.inl hc
    · rw [if_neg ht] at hc
      right
      unfold translated at hc
      rw [List.mem_eraseDups, List.mem_filterMap] at hc
      obtain ⟨s, hs, hsc⟩ := hc
      by_cases he : eligible s observed = true
      · rw [if_pos he] at hsc
        exact ⟨s, hs, he, hsc⟩
      · rw [if_neg he] at hsc
        cases hsc
  · simp only [hk, ↓reduceIte, List.mem_singleton] at hc
    exact Or.inl hc

/-- hence (by `translate_preserves_tail`) **a candidate that is not the observed address differs
from some current listen address only in its first component, which is the observed address's
first component; all other components are preserved and none is added or dropped.** -/
theorem candidate_preserves_components (listen : List Maddr) (observed : Maddr) (kind : ConnKind)
    (c : Maddr) (hc : c ∈ candidates listen observed kind) :
    c = observed ∨ ∃ s ∈ listen, c.tail = s.tail ∧ c.length = s.length ∧ c.head? = observed.head? ∧
      c ≠ [] := by
  rcases candidate_is_observed_or_translation listen observed kind c hc with h | ⟨s, hs, _, ht⟩
  · exact Or.inl h
  · right
    obtain ⟨h1, h2, h3⟩ := translate_preserves_tail s observed c ht
    refine ⟨s, hs, h1, h2, h3, ?_⟩
    obtain ⟨h0, t, h', t', _, _, _, _, rfl⟩ := (translate_iff s observed c).1 ht
    simp

/-- something is always emitted, and only the observed address unless the connection is an
outbound one with an ephemeral port -/
theorem candidates_ne_nil (listen : List Maddr) (observed : Maddr) (kind : ConnKind) :
    candidates listen observed kind ≠ [] := by
  unfold candidates
  by_cases hk : kind = .outNew
  · simp only [hk, ↓reduceIte]
    by_cases ht : (translated listen observed).isEmpty = true
    · simp [ht]
    · rw [if_neg ht]
      intro h
      exact ht (by simp [h])
  · simp [hk]

theorem candidates_not_ephemeral (listen : List Maddr) (observed : Maddr) (kind : ConnKind)
    (hk : kind ≠ .outNew) : candidates listen observed kind = [observed] := by
  simp [candidates, hk]

/-- conversely every eligible listen address that translates is represented among the candidates
of an ephemeral-port connection (nothing is silently dropped or merged) -/
theorem translation_is_candidate (listen : List Maddr) (observed s c : Maddr) (hs : s ∈ listen)
    (he : eligible s observed = true) (ht : translate s observed = some c) :
    c ∈ candidates listen observed .outNew := by
  have hmem : c ∈ translated listen observed := by
    unfold translated
    rw [List.mem_eraseDups, List.mem_filterMap]
    exact ⟨s, hs, by simp [he, ht]⟩
  unfold candidates
  simp only [↓reduceIte]
  by_cases hte : (translated listen observed).isEmpty = true
  · have : translated listen observed = [] := by simpa using hte
    rw [this] at hmem
    cases hmem
  · rw [if_neg hte]
    exact hmem

/-- the executable Spec means what it says -/
theorem specIdent_sound (listen : List Maddr) (observed : Maddr) (cands : List Maddr)
    (h : specIdent listen observed cands = true) :
    cands ≠ [] ∧ ∀ c ∈ cands, c = observed ∨ ∃ s ∈ listen, c.tail = s.tail ∧ c.length = s.length ∧
      c.head? = observed.head? ∧ c ≠ [] := by
  simp only [specIdent, Bool.and_eq_true, Bool.not_eq_true', List.all_eq_true] at h
  refine ⟨by intro hn; simp [hn] at h, ?_⟩
  intro c hc
  have := h.2 c hc
  simp only [candOk, Bool.or_eq_true, beq_iff_eq, List.any_eq_true, Bool.and_eq_true,
    Bool.not_eq_true'] at this
  rcases this with h1 | ⟨s, hs, ⟨⟨⟨hl, ht⟩, hh⟩, hne⟩⟩
  · exact Or.inl h1
  · exact Or.inr ⟨s, hs, ht, hl, hh, by intro hn; simp [hn] at hne⟩

/-- the Spec accepts the model -/
theorem specIdent_candidates (listen : List Maddr) (observed : Maddr) (kind : ConnKind) :
    specIdent listen observed (candidates listen observed kind) = true := by
  simp only [specIdent, Bool.and_eq_true, Bool.not_eq_true', List.all_eq_true]
  refine ⟨?_, ?_⟩
  · have := candidates_ne_nil listen observed kind
    cases hc : candidates listen observed kind with
    | nil => exact absurd hc this
    | cons a l => rfl
  · intro c hc
    simp only [candOk, Bool.or_eq_true, beq_iff_eq, List.any_eq_true, Bool.and_eq_true,
      Bool.not_eq_true']
    rcases candidate_preserves_components listen observed kind c hc with h | ⟨s, hs, h1, h2, h3, h4⟩
    · exact Or.inl h
    · refine Or.inr ⟨s, hs, ⟨⟨⟨h2, h1⟩, h3⟩, ?_⟩⟩
      cases c with
      | nil => exact absurd rfl h4
      | cons a l => rfl

/-- non-vacuity: a relayed listen address keeps everything after its first component; the
quic listen address is not translated for a tcp observation; duplicates collapse -/
example : candidates
    [[.ip4 1, .tcp 4001, .p2p [9], .p2pCircuit], [.ip4 2, .udp 4001, .quicV1], [.ip4 3, .tcp 4001, .p2p [9], .p2pCircuit]]
    [.ip4 77, .tcp 5555] .outNew = [[.ip4 77, .tcp 4001, .p2p [9], .p2pCircuit]] := by decide
example : candidates [[.ip4 2, .udp 4001, .quicV1]] [.ip4 77, .tcp 5555] .outNew = [[.ip4 77, .tcp 5555]] := by
  decide
example : candidates [[.ip4 1, .tcp 4001]] [.ip4 77, .tcp 5555] .outReuse = [[.ip4 77, .tcp 5555]] := by decide

end C13

#print axioms C13.candidate_is_observed_or_translation
#print axioms C13.candidate_preserves_components
#print axioms C13.candidates_ne_nil
#print axioms C13.candidates_not_ephemeral
#print axioms C13.translation_is_candidate
#print axioms C13.specIdent_sound
#print axioms C13.specIdent_candidates
