import Libp2pModel.Model.C35
/-!
# C35 — theorems

*Property*: when publishing to a topic the node is not subscribed to, fanout peers selected
earlier that are still eligible stay in the topic's fanout set; new peers are only added, until
the heartbeat maintains the set.

The theorems are about `C35.publish` = the code as repaired
(`findings/C35-fanout-replaced.fix.diff`); `C35.fanout_replaced_buggy_counterexample` documents
the tree before the repair.
-/
namespace C35

/-! ## set lemmas -/

theorem mem_ins {l : List Nat} {x y : Nat} : x ∈ ins l y ↔ x ∈ l ∨ x = y := by
  unfold ins
  split
  · rename_i h
    have hy : y ∈ l := by simpa using h
    constructor
    · intro hx; exact Or.inl hx
    · rintro (hx | rfl)
      · exact hx
      · exact hy
  · simp

theorem mem_insAll {xs : List Nat} : ∀ {l : List Nat} {x : Nat}, x ∈ insAll l xs ↔ x ∈ l ∨ x ∈ xs := by
  induction xs with
  | nil => intro l x; simp [insAll]
  | cons y ys ih =>
    intro l x
    have := @ih (ins l y) x
    simp only [insAll, List.foldl_cons] at this ⊢
    rw [this, mem_ins]
    simp only [List.mem_cons]
    constructor
    · rintro ((h | h) | h)
      · exact Or.inl h
      · exact Or.inr (Or.inl h)
      · exact Or.inr (Or.inr h)
    · rintro (h | h | h)
      · exact Or.inl (Or.inl h)
      · exact Or.inl (Or.inr h)
      · exact Or.inr h

theorem subset_iff {a b : List Nat} : subset a b = true ↔ ∀ x ∈ a, x ∈ b := by
  simp [subset, List.all_eq_true]

/-! ## publish -/

/-- the quantities of the fanout branch -/
def pre (s : State) (t : Nat) : List Nat := (s.fanout t).getD []

theorem setF_same {α} (f : Nat → Option α) (k : Nat) (v : Option α) : setF f k v k = v := by simp [setF]
theorem setF_other {α} (f : Nat → Option α) (k k' : Nat) (v : Option α) (h : k' ≠ k) : setF f k v k' = f k' := by
  simp [setF, h]

/-- the fanout part of `publish` (repaired code), for EVERY state — in particular every state of
the send queues, which it neither reads nor writes -/
theorem pubFanout_monotone (s : State) (t now : Nat) (low : List Nat) (fa : Option (List Nat))
    (s1 : State) (rc : List Nat) (h : pubFanout true s t now low fa = some (s1, rc)) :
    (∀ p ∈ pre s t, p ∈ pre s1 t)
    ∧ (∀ p ∈ pre s1 t, p ∈ pre s t ∨ p ∈ candidates s t low)
    ∧ (∀ p ∈ pre s t, p ∈ candidates s t low → p ∈ rc)
    ∧ (s.cfg.meshN ≤ ((pre s t).filter ((candidates s t low).contains ·)).length → s1.fanout = s.fanout)
    ∧ (∀ t', t' ≠ t → s1.fanout t' = s.fanout t')
    ∧ (∀ p ∈ pre s1 t, p ∉ pre s t →
        ((pre s t).filter ((candidates s t low).contains ·)).length < s.cfg.meshN ∧ p ∈ pool s t low)
    ∧ s1.qlen = s.qlen ∧ s1.held = s.held ∧ s1.cfg = s.cfg := by
  unfold pubFanout at h
  simp only at h
  by_cases hneed : s.cfg.meshN - (((s.fanout t).getD []).filter (fun x => (candidates s t low).contains x)).length > 0
  · rw [if_pos hneed] at h
    split at h
    · rename_i hv
      simp only [validChoice, Bool.and_eq_true, List.all_eq_true] at hv
      obtain ⟨⟨hsubp, _⟩, _⟩ := hv
      simp only [↓reduceIte, Option.some.injEq, Prod.mk.injEq] at h
      obtain ⟨rfl, rfl⟩ := h
      refine ⟨?_, ?_, ?_, ?_, ?_, ?_, rfl, rfl, rfl⟩
      · intro p hp
        simp only [pre, setF_same, Option.getD_some] at hp ⊢
        exact mem_insAll.2 (Or.inl hp)
      · intro p hp
        simp only [pre, setF_same, Option.getD_some] at hp ⊢
        rcases mem_insAll.1 hp with h' | h'
        · exact Or.inl h'
        · right
          have := hsubp p h'
          simp only [List.contains_eq_mem, List.mem_filter, decide_eq_true_eq] at this
          exact this.1
      · intro p hp hpC
        apply mem_insAll.2; left
        apply mem_insAll.2; right
        simp only [pre] at hp
        simp only [List.mem_filter, List.contains_eq_mem, decide_eq_true_eq]
        exact ⟨hp, hpC⟩
      · intro hle
        exfalso
        simp only [pre] at hle
        omega
      · intro t' ht'
        simp [setF_other _ _ _ _ ht']
      · intro p hp hnp
        simp only [pre, setF_same, Option.getD_some] at hp hnp ⊢
        rcases mem_insAll.1 hp with h' | h'
        · exact absurd h' hnp
        · refine ⟨by omega, ?_⟩
          have := hsubp p h'
          simpa [pool] using this
    · cases h
  · rw [if_neg hneed] at h
    simp only [Option.some.injEq, Prod.mk.injEq] at h
    obtain ⟨rfl, rfl⟩ := h
    refine ⟨fun p hp => hp, fun p hp => Or.inl hp, ?_, fun _ => rfl, fun _ _ => rfl,
      fun p hp hnp => absurd hp hnp, rfl, rfl, rfl⟩
    intro p hp hpC
    apply mem_insAll.2; right
    simp only [pre] at hp
    simp only [List.mem_filter, List.contains_eq_mem, decide_eq_true_eq]
    exact ⟨hp, hpC⟩

/-- **The send loop touches the send queues only**: whatever the queues look like and whether the
message is accepted by all, some or no recipient (`AllQueuesFull`), `fanout`, `fanout_last_pub`, the
peer table and the config are exactly what `filter_publish_candidates` left. -/
theorem pubSend_frame (s1 : State) (rc : List Nat) :
    (pubSend s1 rc).1.fanout = s1.fanout ∧ (pubSend s1 rc).1.lastPub = s1.lastPub
    ∧ (pubSend s1 rc).1.peers = s1.peers ∧ (pubSend s1 rc).1.held = s1.held ∧ (pubSend s1 rc).1.cfg = s1.cfg := by
  unfold pubSend
  split <;> exact ⟨rfl, rfl, rfl, rfl, rfl⟩

/-- **Publish keeps and only adds** (repaired code). Publishing to a topic `t` the node is not
subscribed to, without `flood_publish`, from ANY state — any occupancy of the send queues, any set
of backlogged peers, any queue capacity — whatever the scores (`low`), whatever the random sample
(`fa`) and whatever the outcome (`Ok`, `AllQueuesFull`, `NoPeersSubscribedToTopic`), with
`C = candidates`:
1. `fanout_before ⊆ fanout_after`: every earlier fanout peer of `t` stays;
2. every fanout peer afterwards was one before or is a candidate;
3. every earlier fanout peer that is still a candidate is a recipient (`send_message` is attempted);
4. when `mesh_n` earlier fanout peers are still candidates the set does not change at all;
5. the fanout sets of the other topics are untouched. -/
theorem publish_fanout_monotone (s : State) (t now : Nat) (low : List Nat) (fa : Option (List Nat))
    (_hflood : s.cfg.flood = false) (_hsub : s.subscribed.contains t = false) :
    let r := publish s t now low fa
    let C := candidates s t low
    (∀ p ∈ pre s t, p ∈ pre r.1 t)
    ∧ (∀ p ∈ pre r.1 t, p ∈ pre s t ∨ p ∈ C)
    ∧ (∀ rc d, r.2 = .sent rc d → ∀ p ∈ pre s t, p ∈ C → p ∈ rc)
    ∧ (s.cfg.meshN ≤ ((pre s t).filter (C.contains ·)).length → r.1.fanout = s.fanout)
    ∧ (∀ t', t' ≠ t → r.1.fanout t' = s.fanout t') := by
  intro r C
  simp only [r, publish, publishG, _hflood, _hsub, Bool.false_eq_true, ↓reduceIte]
  cases hpf : pubFanout true s t now low fa with
  | none =>
    simp only
    refine ⟨fun p hp => hp, fun p hp => Or.inl hp, ?_, by intros; first | rfl | trivial, by intros; first | rfl | trivial⟩
    intro rc d h; cases h
  | some x =>
    obtain ⟨s1, rc⟩ := x
    simp only
    obtain ⟨m1, m2, m3, m4, m5, _, _, _, _⟩ := pubFanout_monotone s t now low fa s1 rc hpf
    obtain ⟨f1, _, _, _, _⟩ := pubSend_frame s1 rc
    have hpre : pre (pubSend s1 rc).1 t = pre s1 t := by simp only [pre, f1]
    refine ⟨fun p hp => by rw [hpre]; exact m1 p hp, fun p hp => m2 p (by rw [← hpre]; exact hp), ?_,
      fun hle => by rw [f1]; exact m4 hle, fun t' ht' => by rw [f1]; exact m5 t' ht'⟩
    intro rc' d hout p hp hpC
    have hin := m3 p hp hpC
    unfold pubSend at hout
    split at hout
    · rename_i hemp
      rw [List.isEmpty_iff.1 hemp] at hin
      simp at hin
    · simp only [PubOut.sent.injEq] at hout
      rw [← hout.1]; exact hin

/-- the monotonicity clause on its own: for every publish on an unsubscribed topic and for every
queue state, `fanout_before ⊆ fanout_after` -/
theorem publish_keeps_fanout_any_queues (s : State) (t now : Nat) (low : List Nat) (fa : Option (List Nat))
    (hflood : s.cfg.flood = false) (hsub : s.subscribed.contains t = false) :
    ∀ p ∈ pre s t, p ∈ pre (publish s t now low fa).1 t :=
  (publish_fanout_monotone s t now low fa hflood hsub).1

/-- New fanout peers are taken only when fewer than `mesh_n` earlier fanout peers are still
candidates, and then all from the pool of candidates that are not recipients already. -/
theorem publish_adds_only_when_needed (s : State) (t now : Nat) (low : List Nat) (fa : Option (List Nat))
    (_hflood : s.cfg.flood = false) (_hsub : s.subscribed.contains t = false)
    (p : Nat) (hnew : p ∈ pre (publish s t now low fa).1 t) (hold : p ∉ pre s t) :
    ((pre s t).filter ((candidates s t low).contains ·)).length < s.cfg.meshN ∧ p ∈ pool s t low := by
  simp only [publish, publishG, _hflood, _hsub, Bool.false_eq_true, ↓reduceIte] at hnew
  cases hpf : pubFanout true s t now low fa with
  | none => simp only [hpf] at hnew; exact absurd hnew hold
  | some x =>
    obtain ⟨s1, rc⟩ := x
    simp only [hpf] at hnew
    obtain ⟨_, _, _, _, _, m6, _, _, _⟩ := pubFanout_monotone s t now low fa s1 rc hpf
    obtain ⟨f1, _, _, _, _⟩ := pubSend_frame s1 rc
    have hpre : pre (pubSend s1 rc).1 t = pre s1 t := by simp only [pre, f1]
    rw [hpre] at hnew
    exact m6 p hnew hold

/-! ## the send queues -/

theorem sendLoop_mono (cap : Nat) : ∀ (rc : List Nat) (q : Nat → Nat) (d : List Nat) (x : Nat),
    x ∈ d → x ∈ (sendLoop cap rc q d).2 := by
  intro rc
  induction rc with
  | nil => intro q d x hx; exact hx
  | cons r rest ih =>
    intro q d x hx
    simp only [sendLoop]
    split
    · exact ih _ _ x (List.mem_append.2 (Or.inl hx))
    · exact ih _ _ x hx

/-- a recipient whose queue has room gets the message -/
theorem sendLoop_delivers (cap : Nat) : ∀ (rc : List Nat) (q : Nat → Nat) (d : List Nat) (x : Nat),
    x ∈ rc → q x < cap → x ∈ (sendLoop cap rc q d).2 := by
  intro rc
  induction rc with
  | nil => intro q d x hx; simp at hx
  | cons r rest ih =>
    intro q d x hx hq
    simp only [sendLoop]
    by_cases hxr : x = r
    · subst hxr
      rw [if_pos hq]
      exact sendLoop_mono cap rest _ _ x (by simp)
    · have hx' : x ∈ rest := by
        rcases List.mem_cons.1 hx with h | h
        · exact absurd h hxr
        · exact h
      split
      · exact ih _ _ x hx' (by simp [hxr, hq])
      · exact ih _ _ x hx' hq

/-- the harness keeps the queue of every peer it is not holding empty -/
def QInv (s : State) : Prop := ∀ p, p ∉ s.held → s.qlen p = 0

/-! ## between heartbeats -/

theorem mem_filter_ne {l : List Nat} {p q : Nat} (hp : p ∈ l) (hne : p ≠ q) : p ∈ l.filter (· != q) := by
  simp [List.mem_filter, hp, hne]

theorem applySub_keeps (s : State) (q : Nat) (e : Bool × Nat) (t p : Nat)
    (hp : p ∈ pre s t) (hok : ¬ (q = p ∧ e.1 = false ∧ e.2 = t)) : p ∈ pre (applySub s q e) t := by
  unfold applySub
  split
  · simpa [pre, setTopics] using hp
  · rename_i he
    simp only [pre, setTopics] at hp ⊢
    by_cases ht : t = e.2
    · subst ht
      simp only [setF_same]
      cases hf : s.fanout e.2 with
      | none => simp [hf] at hp
      | some l =>
        simp only [hf, Option.getD_some, Option.map_some] at hp ⊢
        apply mem_filter_ne hp
        intro hpq
        apply hok
        refine ⟨hpq.symm, ?_, rfl⟩
        cases h : e.1 <;> simp_all
    · rw [setF_other _ _ _ _ ht]
      exact hp

theorem foldl_applySub_keeps (q t p : Nat) :
    ∀ (l : List (Bool × Nat)) (s : State), p ∈ pre s t →
      (∀ e ∈ l, ¬ (q = p ∧ e.1 = false ∧ e.2 = t)) →
      p ∈ pre (l.foldl (fun s e => applySub s q e) s) t := by
  intro l
  induction l with
  | nil => intro s hp _; exact hp
  | cons e es ih =>
    intro s hp hall
    simp only [List.foldl_cons]
    apply ih
    · exact applySub_keeps s q e t p hp (hall e (by simp))
    · intro e' he'; exact hall e' (by simp [he'])

/-- every entry `filterSubs` keeps is an entry of the request (or of the accumulator) -/
theorem filterSubs_sub : ∀ (l acc : List (Bool × Nat)) (e : Bool × Nat),
    e ∈ filterSubs acc l → e ∈ acc ∨ e ∈ l := by
  intro l
  induction l with
  | nil => intro acc e h; exact Or.inl (by simpa [filterSubs] using h)
  | cons x xs ih =>
    intro acc e h
    obtain ⟨a, t⟩ := x
    simp only [filterSubs] at h
    split at h
    · split at h
      · rcases ih _ e h with h' | h'
        · exact Or.inl (List.mem_filter.1 h').1
        · exact Or.inr (by simp [h'])
      · rcases ih _ e h with h' | h'
        · exact Or.inl h'
        · exact Or.inr (by simp [h'])
    · rcases ih _ e h with h' | h'
      · rcases List.mem_append.1 h' with h'' | h''
        · exact Or.inl h''
        · exact Or.inr (by simp at h''; simp [h''])
      · exact Or.inr (by simp [h'])

/-- **Between heartbeats** a fanout peer leaves the set only by its own disconnect, its own
unsubscription from the topic, or because the node itself subscribes to the topic (the fanout
entry is then promoted to the mesh). One step, any op, any state. -/
theorem until_heartbeat (s : State) (o : Op) (t p : Nat) (hp : p ∈ pre s t) :
    p ∈ pre (step s o) t ∨ allowedLoss o t p = true := by
  cases o with
  | connect q g =>
    left
    simp only [step, connect]
    split <;> simpa [pre] using hp
  | disconnect q =>
    by_cases hq : q = p
    · right; simp [allowedLoss, hq]
    · left
      simp only [step, disconnect]
      split
      · exact hp
      · simp only [pre] at hp ⊢
        split
        · cases hf : s.fanout t with
          | none => simp [hf] at hp
          | some l =>
            simp only [hf, Option.getD_some, Option.map_some] at hp ⊢
            exact mem_filter_ne hp (fun h => hq h.symm)
        · exact hp
  | explicit q => left; simpa [step, addExplicit, pre] using hp
  | subs q l =>
    by_cases hloss : allowedLoss (.subs q l) t p = true
    · exact Or.inr hloss
    · left
      simp only [step, recvSubs]
      split
      · apply foldl_applySub_keeps q t p _ s hp
        intro e he hbad
        apply hloss
        obtain ⟨hq, he1, he2⟩ := hbad
        have hmem : e ∈ l := by
          rcases filterSubs_sub l [] e he with h | h
          · simp at h
          · exact h
        simp only [allowedLoss, Bool.and_eq_true, beq_iff_eq, List.any_eq_true, Bool.not_eq_eq_eq_not,
          Bool.not_true]
        exact ⟨hq, e, hmem, he1, he2⟩
      · exact hp
  | subscribe t' =>
    by_cases ht : t' = t
    · right; simp [allowedLoss, ht]
    · left
      simp only [step, subscribe]
      split
      · exact hp
      · split
        · simp only [pre]
          rw [setF_other _ _ _ _ (fun h => ht h.symm)]
          exact hp
        · exact hp
  | unsubscribe t' => left; simpa [step, unsubscribe, pre] using hp
  | publish t' now low fa =>
    left
    simp only [step]
    cases hfl' : s.cfg.flood with
    | true => simp only [publish, publishG, hfl', ↓reduceIte]; exact hp
    | false =>
      cases hsub' : s.subscribed.contains t' with
      | true => simp only [publish, publishG, hfl', hsub', Bool.false_eq_true, ↓reduceIte]; exact hp
      | false =>
        have hm := publish_fanout_monotone s t' now low fa hfl' hsub'
        by_cases ht : t = t'
        · subst ht; exact hm.1 p hp
        · have := hm.2.2.2.2 t ht
          simp only [pre] at hp ⊢
          rw [this]; exact hp
  | heartbeat now low post => right; rfl
  | hold q => left; exact hp
  | release q => left; exact hp

/-- **Between heartbeats**, trace form: along any op sequence none of whose ops is a heartbeat, a
disconnect of `p`, an unsubscription of `p` from `t` or a local `subscribe t`, a fanout peer `p`
of topic `t` stays in the fanout set of `t`. -/
theorem fanout_persist (t p : Nat) :
    ∀ (ops : List Op) (s : State), p ∈ pre s t → (∀ o ∈ ops, allowedLoss o t p = false) →
      p ∈ pre (ops.foldl step s) t := by
  intro ops
  induction ops with
  | nil => intro s hp _; exact hp
  | cons o os ih =>
    intro s hp hall
    simp only [List.foldl_cons]
    apply ih
    · rcases until_heartbeat s o t p hp with h | h
      · exact h
      · have := hall o (by simp)
        rw [this] at h; cases h
    · intro o' ho'; exact hall o' (by simp [ho'])

/-! ## the heartbeat itself -/

theorem foldl_hb_none (s1 : State) (low : List Nat) (post : Nat → List Nat) (ts : List Nat) :
    ts.foldl (fun (acc : Option (Nat → Option (List Nat))) t =>
      match acc with
      | none => none
      | some f =>
        match s1.fanout t with
        | none => some f
        | some l =>
          match hbTopic s1 t low l (post t) with
          | some l' => some (setF f t (some l'))
          | none => none) none = none := by
  induction ts with
  | nil => rfl
  | cons t ts ih => simpa using ih

/-- one topic of the fanout maintenance keeps every peer that is still connected, still
subscribed and not below the publish threshold -/
theorem hbTopic_keeps (s : State) (t : Nat) (low l post l' : List Nat) (h : hbTopic s t low l post = some l')
    (p : Nat) (hp : p ∈ l) (hk : p ∈ hbKept s t low [p]) : p ∈ l' := by
  have hkept : p ∈ hbKept s t low l := by
    simp only [hbKept, List.mem_filter, List.mem_singleton, true_and] at hk ⊢
    exact ⟨hp, hk⟩
  unfold hbTopic at h
  simp only at h
  split at h
  · split at h
    · simp only [Option.some.injEq] at h
      subst h
      exact mem_insAll.2 (Or.inl hkept)
    · cases h
  · simp only [Option.some.injEq] at h
    subst h
    exact hkept

/-! ## the Spec accepts the model -/

/-- the publish clauses of the Spec hold on the model's own output, from every state in which the
queues of the peers the harness is not holding are empty (`QInv`, an invariant: `qinv_step`) -/
theorem spec_accepts_model_publish (s : State) (t now : Nat) (low : List Nat) (fa : Option (List Nat))
    (hflood : s.cfg.flood = false) (hsub : s.subscribed.contains t = false) (hq : QInv s) (rc d : List Nat)
    (hout : (publish s t now low fa).2 = .sent rc d) :
    specPublish s.cfg.meshN s.cfg.cap (candidates s t low) (pre s t) (pre (publish s t now low fa).1 t)
      (d.filter (fun p => !s.held.contains p)) s.held = none := by
  obtain ⟨h1, h2, h3, h4, _⟩ := publish_fanout_monotone s t now low fa hflood hsub
  have h3' := h3 rc d hout
  -- delivery to the peers whose queue is empty
  have hdel : 0 < s.cfg.cap → ∀ x ∈ rc, x ∉ s.held → x ∈ d := by
    intro hcap x hx hxh
    simp only [publish, publishG, hflood, hsub, Bool.false_eq_true, ↓reduceIte] at hout
    cases hpf : pubFanout true s t now low fa with
    | none => simp [hpf] at hout
    | some y =>
      obtain ⟨s1, rc1⟩ := y
      simp only [hpf] at hout
      obtain ⟨_, _, _, _, _, _, q1, _, c1⟩ := pubFanout_monotone s t now low fa s1 rc1 hpf
      unfold pubSend at hout
      split at hout
      · simp only [PubOut.sent.injEq] at hout
        rw [← hout.1] at hx; simp at hx
      · simp only [PubOut.sent.injEq] at hout
        rw [← hout.2]
        rw [← hout.1] at hx
        apply sendLoop_delivers _ _ _ _ x hx
        rw [q1, c1, hq x hxh]; exact hcap
  unfold specPublish
  have e1 : subset (pre s t) (pre (publish s t now low fa).1 t) = true := subset_iff.2 h1
  have e2 : subset (pre (publish s t now low fa).1 t) (pre s t ++ candidates s t low) = true := by
    apply subset_iff.2
    intro x hx
    exact List.mem_append.2 (h2 x hx)
  have e3 : (decide (s.cfg.cap > 0) && !subset (((pre s t).filter ((candidates s t low).contains ·)).filter
      (fun p => !s.held.contains p)) (d.filter (fun p => !s.held.contains p))) = false := by
    by_cases hcap : s.cfg.cap > 0
    · have : subset (((pre s t).filter ((candidates s t low).contains ·)).filter (fun p => !s.held.contains p))
          (d.filter (fun p => !s.held.contains p)) = true := by
        apply subset_iff.2
        intro x hx
        obtain ⟨hx1, hx2⟩ := List.mem_filter.1 hx
        obtain ⟨hx3, hx4⟩ := List.mem_filter.1 hx1
        have hxh : x ∉ s.held := by simpa using hx2
        exact List.mem_filter.2 ⟨hdel hcap x (h3' x hx3 (by simpa using hx4)) hxh, hx2⟩
      rw [this]; simp
    · simp [hcap]
  simp only [e1, e2, e3, Bool.not_true, Bool.false_eq_true, ↓reduceIte]
  by_cases hle : s.cfg.meshN ≤ ((pre s t).filter ((candidates s t low).contains ·)).length
  · have := h4 hle
    have e4 : subset (pre (publish s t now low fa).1 t) (pre s t) = true := by
      apply subset_iff.2
      intro x hx
      simpa [pre, this] using hx
    simp [e4]
  · have hd : decide (s.cfg.meshN ≤ ((pre s t).filter ((candidates s t low).contains ·)).length) = false := by
      simpa using hle
    simp only [hd, Bool.false_and, Bool.false_eq_true, ↓reduceIte]

theorem foldl_applySub_queues (p : Nat) : ∀ (fl : List (Bool × Nat)) (s : State),
    (fl.foldl (fun s e => applySub s p e) s).qlen = s.qlen ∧ (fl.foldl (fun s e => applySub s p e) s).held = s.held := by
  intro fl
  induction fl with
  | nil => intro s; exact ⟨rfl, rfl⟩
  | cons e es ih =>
    intro s
    simp only [List.foldl_cons]
    have h0 : (applySub s p e).qlen = s.qlen ∧ (applySub s p e).held = s.held := by
      unfold applySub setTopics; split <;> exact ⟨rfl, rfl⟩
    obtain ⟨a, b⟩ := ih (applySub s p e)
    exact ⟨a.trans h0.1, b.trans h0.2⟩

theorem recvSubs_queues (s : State) (p : Nat) (l : List (Bool × Nat)) :
    (recvSubs s p l).qlen = s.qlen ∧ (recvSubs s p l).held = s.held := by
  unfold recvSubs
  split
  · exact foldl_applySub_queues p _ s
  · exact ⟨rfl, rfl⟩

/-- `QInv` is an invariant of the op machine -/
theorem qinv_step (s : State) (o : Op) (h : QInv s) : QInv (step s o) := by
  cases o with
  | connect p g =>
    simp only [step, connect]
    split
    · exact h
    · intro q hq; simp only; split
      · rfl
      · exact h q hq
  | disconnect p =>
    simp only [step, disconnect]
    split
    · exact h
    · intro q hq; simp only; split
      · rfl
      · exact h q hq
  | explicit p => exact h
  | subs p l =>
    obtain ⟨a, b⟩ := recvSubs_queues s p l
    intro q hq
    simp only [step] at hq ⊢
    rw [a]; rw [b] at hq; exact h q hq
  | subscribe t =>
    simp only [step, subscribe]
    split
    · exact h
    · split <;> exact h
  | unsubscribe t => exact h
  | publish t now low fa =>
    simp only [step, publish, publishG]
    split
    · intro q _; rfl
    · split
      · intro q _; rfl
      · cases hpf : pubFanout true s t now low fa with
        | none => exact h
        | some y =>
          obtain ⟨s1, rc⟩ := y
          simp only
          obtain ⟨_, _, _, _, _, _, q1, hh1, _⟩ := pubFanout_monotone s t now low fa s1 rc hpf
          unfold pubSend
          split
          · intro q hq; simp only at hq ⊢; rw [q1]; rw [hh1] at hq; exact h q hq
          · intro q hq
            have hq' : q ∉ s1.held := hq
            show (if s1.held.contains q = true then (sendLoop s1.cfg.cap rc s1.qlen []).1 q else 0) = 0
            rw [if_neg (by simpa using hq')]
  | heartbeat now low post =>
    simp only [step]
    cases hh : heartbeat s now low topicUniverse post with
    | none => exact h
    | some s' =>
      simp only [Option.getD_some]
      unfold heartbeat at hh
      simp only at hh
      split at hh
      · simp only [Option.some.injEq] at hh
        subst hh
        exact h
      · cases hh
  | hold p =>
    intro q hq
    simp only [step] at hq ⊢
    exact h q (fun hm => hq (mem_ins.2 (Or.inl hm)))
  | release p =>
    intro q hq
    simp only [step] at hq ⊢
    split
    · rfl
    · rename_i hne
      apply h q
      intro hm
      exact hq (List.mem_filter.2 ⟨hm, by simpa using hne⟩)

theorem qinv_init (c : Cfg) : QInv (init c) := fun _ _ => rfl

/-- the keep clause of the Spec holds on every model step -/
theorem spec_accepts_model_keep (s : State) (o : Op) (t : Nat) :
    specKeep o t (pre s t) (pre (step s o) t) = none := by
  unfold specKeep
  have : (pre s t).all (fun p => (pre (step s o) t).contains p || allowedLoss o t p) = true := by
    simp only [List.all_eq_true, Bool.or_eq_true, List.contains_eq_mem, decide_eq_true_eq]
    intro p hp
    exact until_heartbeat s o t p hp
  rw [this]; rfl

/-! ## the tree before the repair -/

/-- peers A = 0 and B = 1, both gossipsub and subscribed to topic 0; fanout(0) = {A}; mesh_n = 2 -/
def cexState : State :=
  { cfg := { meshN := 2, ttl := 60000000000, flood := false, cap := 5000 }
    peers := [{ id := 0, gossip := true, topics := [0] }, { id := 1, gossip := true, topics := [0] }]
    explicit := [], subscribed := []
    fanout := fun t => if t = 0 then some [0] else none
    lastPub := fun t => if t = 0 then some 0 else none
    qlen := fun _ => 0, held := [] }

/-- **Counterexample for the tree before the repair** (`fanout.insert(topic, new_peers)`):
fanout {A}, candidates {A, B}, `mesh_n = 2`. The message goes to A and B, but afterwards the
fanout set is {B}: A, still eligible, has been dropped (DESIGN §8 row 11; confirmed on the
implementation, `corpus/C35/fanout-replaced.case`). The repaired code yields {A, B}. -/
theorem fanout_replaced_buggy_counterexample :
    (publishBuggy cexState 0 1 [] (some [1])).2 = .sent [0, 1] [0, 1]
    ∧ (publishBuggy cexState 0 1 [] (some [1])).1.fanout 0 = some [1]
    ∧ (publish cexState 0 1 [] (some [0, 1])).1.fanout 0 = some [0, 1]
    ∧ specPublish 2 5000 (candidates cexState 0 []) [0] [1] [0, 1] [] = some "fanout_dropped" := by
  decide

/-- … and with A as the only candidate the pre-repair code empties the set. -/
theorem fanout_emptied_buggy_counterexample :
    let s := { cexState with peers := [{ id := 0, gossip := true, topics := [0] }] }
    (publishBuggy s 0 1 [] (some [])).1.fanout 0 = some []
    ∧ (publish s 0 1 [] (some [0])).1.fanout 0 = some [0] := by
  decide

/-- fanout {A, B}, queue capacity 1, A backlogged with a full queue -/
def fullState : State :=
  { cexState with
    cfg := { meshN := 2, ttl := 60000000000, flood := false, cap := 1 }
    fanout := fun t => if t = 0 then some [0, 1] else none
    qlen := fun p => if p = 0 then 1 else 0, held := [0] }

/-- **Full send queues** (the situation of `mutations/C35/seed-queue-full-removes-fanout-peer.diff`):
A's queue is full, B accepts — `publish` returns `Ok`, A is a recipient whose `send_message` fails,
and A stays in the fanout. With B backlogged too every send fails (`AllQueuesFull(2)`), and the
fanout is still {A, B}. A publish that removed A would fail the Spec (`fanout_dropped`). -/
theorem queue_full_keeps_fanout_example :
    (publish fullState 0 1 [] (some [0, 1])).2 = .sent [0, 1] [1]
    ∧ (publish fullState 0 1 [] (some [0, 1])).1.fanout 0 = some [0, 1]
    ∧ (publish { fullState with qlen := fun _ => 1, held := [0, 1] } 0 1 [] (some [0, 1])).2 = .sent [0, 1] []
    ∧ resultOf [0, 1] [] = "full:2"
    ∧ (publish { fullState with qlen := fun _ => 1, held := [0, 1] } 0 1 [] (some [0, 1])).1.fanout 0 = some [0, 1]
    ∧ specPublish 2 1 (candidates fullState 0 []) [0, 1] [1] [1] [0] = some "fanout_dropped" := by
  decide

/-! ## non-vacuity -/

example : cexState.cfg.flood = false ∧ cexState.subscribed.contains 0 = false := by decide
example : validChoice [1] (pool cexState 0 []) 1 = true := by decide
example : QInv fullState := by
  intro p hp
  have : p ≠ 0 := by rintro rfl; exact hp (by decide)
  simp [fullState, this]

end C35

#print axioms C35.publish_fanout_monotone
#print axioms C35.publish_keeps_fanout_any_queues
#print axioms C35.pubSend_frame
#print axioms C35.sendLoop_delivers
#print axioms C35.qinv_step
#print axioms C35.queue_full_keeps_fanout_example
#print axioms C35.publish_adds_only_when_needed
#print axioms C35.until_heartbeat
#print axioms C35.fanout_persist
#print axioms C35.hbTopic_keeps
#print axioms C35.spec_accepts_model_publish
#print axioms C35.spec_accepts_model_keep
#print axioms C35.fanout_replaced_buggy_counterexample
#print axioms C35.fanout_emptied_buggy_counterexample
