import Libp2pModel.Model.C35
/-!
# C35 — theorems

*Property*: when publishing to a topic the node is not subscribed to, fanout peers selected
earlier that are still eligible stay in the topic's fanout set; new peers are only added, until
the heartbeat maintains the set.

The theorems are about `C35.publish` = the code as repaired
(`findings/C35-fanout-replaced.fix.diff`); `C35.fanout_replaced_buggy_counterexample` documents
the tree before the repair.
-/
namespace C35

/-! ## set lemmas -/

theorem mem_ins {l : List Nat} {x y : Nat} : x ∈ ins l y ↔ x ∈ l ∨ x = y := by
  unfold ins
  split
  · rename_i h
    have hy : y ∈ l := by simpa using h
    constructor
    · intro hx; exact Or.inl hx
    · rintro (hx | rfl)
      · exact hx
      · exact hy
  · simp

theorem mem_insAll {xs : List Nat} : ∀ {l : List Nat} {x : Nat}, x ∈ insAll l xs ↔ x ∈ l ∨ x ∈ xs := by
  induction xs with
  | nil => intro l x; simp [insAll]
  | cons y ys ih =>
    intro l x
    have := @ih (ins l y) x
    simp only [insAll, List.foldl_cons] at this ⊢
    rw [this, mem_ins]
    simp only [List.mem_cons]
    constructor
    · rintro ((h | h) | h)
      · exact Or.inl h
      · exact Or.inr (Or.inl h)
      · exact Or.inr (Or.inr h)
    · rintro (h | h | h)
      · exact Or.inl (Or.inl h)
      · exact Or.inl (Or.inr h)
      · exact Or.inr h

theorem subset_iff {a b : List Nat} : subset a b = true ↔ ∀ x ∈ a, x ∈ b := by
  simp [subset, List.all_eq_true]

/-! ## publish -/

/-- the quantities of the fanout branch -/
def pre (s : State) (t : Nat) : List Nat := (s.fanout t).getD []

theorem setF_same {α} (f : Nat → Option α) (k : Nat) (v : Option α) : setF f k v k = v := by simp [setF]
theorem setF_other {α} (f : Nat → Option α) (k k' : Nat) (v : Option α) (h : k' ≠ k) : setF f k v k' = f k' := by
  simp [setF, h]

/-- **Publish keeps and only adds** (repaired code). Publishing to a topic `t` the node is not
subscribed to, without `flood_publish`, whatever the scores (`low`) and whatever the random sample
(`rcpt`), with `C = candidates`:
1. every earlier fanout peer of `t` stays (in particular the still eligible ones `pre ∩ C`);
2. every fanout peer afterwards was one before or is a candidate;
3. the message goes to every earlier fanout peer that is still a candidate;
4. when `mesh_n` earlier fanout peers are still candidates the set does not change at all;
5. the fanout sets of the other topics are untouched. -/
theorem publish_fanout_monotone (s : State) (t now : Nat) (low rcpt : List Nat)
    (_hflood : s.cfg.flood = false) (_hsub : s.subscribed.contains t = false) :
    let r := publish s t now low rcpt
    let C := candidates s t low
    (∀ p ∈ pre s t, p ∈ pre r.1 t)
    ∧ (∀ p ∈ pre r.1 t, p ∈ pre s t ∨ p ∈ C)
    ∧ (∀ rc, r.2 = .rcpt rc → ∀ p ∈ pre s t, p ∈ C → p ∈ rc)
    ∧ (s.cfg.meshN ≤ ((pre s t).filter (C.contains ·)).length → r.1.fanout = s.fanout)
    ∧ (∀ t', t' ≠ t → r.1.fanout t' = s.fanout t') := by
  intro r C
  simp only [r, publish, publishG, _hflood, _hsub, Bool.false_eq_true, ↓reduceIte]
  by_cases hneed : s.cfg.meshN - (((s.fanout t).getD []).filter (fun x => (candidates s t low).contains x)).length > 0
  · simp only [hneed, ↓reduceIte]
    split
    · -- valid oracle
      rename_i hv
      simp only [validChoice, Bool.and_eq_true, List.all_eq_true] at hv
      obtain ⟨⟨hsubp, _⟩, _⟩ := hv
      refine ⟨?_, ?_, ?_, ?_, ?_⟩
      · intro p hp
        simp only [pre, setF_same, Option.getD_some] at hp ⊢
        exact mem_insAll.2 (Or.inl hp)
      · intro p hp
        simp only [pre, setF_same, Option.getD_some] at hp ⊢
        rcases mem_insAll.1 hp with h | h
        · exact Or.inl h
        · right
          have := hsubp p h
          simp only [List.contains_eq_mem, List.mem_filter, decide_eq_true_eq] at this
          exact this.1
      · intro rc hrc p hp hpC
        simp only [PubOut.rcpt.injEq] at hrc
        subst hrc
        apply mem_insAll.2; left
        apply mem_insAll.2; right
        simp only [pre] at hp
        simp only [List.mem_filter, List.contains_eq_mem, decide_eq_true_eq]
        exact ⟨hp, hpC⟩
      · intro hle
        exfalso
        simp only [pre, C] at hle
        omega
      · intro t' ht'
        simp [setF_other _ _ _ _ ht']
    · refine ⟨fun p hp => hp, fun p hp => Or.inl hp, ?_, by intros; first | rfl | trivial, by intros; first | rfl | trivial⟩
      intro rc hrc
      simp at hrc
  · simp only [hneed, ↓reduceIte]
    refine ⟨fun p hp => hp, fun p hp => Or.inl hp, ?_, by intros; first | rfl | trivial, by intros; first | rfl | trivial⟩
    intro rc hrc p hp hpC
    simp only [PubOut.rcpt.injEq] at hrc
    subst hrc
    apply mem_insAll.2; right
    simp only [pre] at hp
    simp only [List.mem_filter, List.contains_eq_mem, decide_eq_true_eq]
    exact ⟨hp, hpC⟩

/-- New fanout peers are taken only when fewer than `mesh_n` earlier fanout peers are still
candidates, and then exactly `min (mesh_n - |pre ∩ C|) |pool|` of them, all from the pool of
candidates that are not recipients already. -/
theorem publish_adds_only_when_needed (s : State) (t now : Nat) (low rcpt : List Nat)
    (_hflood : s.cfg.flood = false) (_hsub : s.subscribed.contains t = false)
    (p : Nat) (hnew : p ∈ pre (publish s t now low rcpt).1 t) (hold : p ∉ pre s t) :
    ((pre s t).filter ((candidates s t low).contains ·)).length < s.cfg.meshN ∧ p ∈ pool s t low := by
  simp only [publish, publishG, _hflood, _hsub, Bool.false_eq_true, ↓reduceIte] at hnew
  by_cases hneed : s.cfg.meshN - (((s.fanout t).getD []).filter (fun x => (candidates s t low).contains x)).length > 0
  · simp only [hneed, ↓reduceIte] at hnew
    split at hnew
    · rename_i hv
      simp only [validChoice, Bool.and_eq_true, List.all_eq_true] at hv
      obtain ⟨⟨hsubp, _⟩, _⟩ := hv
      simp only [pre, setF_same, Option.getD_some] at hnew
      rcases mem_insAll.1 hnew with h | h
      · exact absurd h hold
      · refine ⟨by simp only [pre]; omega, ?_⟩
        have := hsubp p h
        simpa [pool] using this
    · exact absurd hnew hold
  · simp only [hneed, ↓reduceIte] at hnew
    exact absurd hnew hold

/-! ## between heartbeats -/

theorem mem_filter_ne {l : List Nat} {p q : Nat} (hp : p ∈ l) (hne : p ≠ q) : p ∈ l.filter (· != q) := by
  simp [List.mem_filter, hp, hne]

theorem applySub_keeps (s : State) (q : Nat) (e : Bool × Nat) (t p : Nat)
    (hp : p ∈ pre s t) (hok : ¬ (q = p ∧ e.1 = false ∧ e.2 = t)) : p ∈ pre (applySub s q e) t := by
  unfold applySub
  split
  · simpa [pre, setTopics] using hp
  · rename_i he
    simp only [pre, setTopics] at hp ⊢
    by_cases ht : t = e.2
    · subst ht
      simp only [setF_same]
      cases hf : s.fanout e.2 with
      | none => simp [hf] at hp
      | some l =>
        simp only [hf, Option.getD_some, Option.map_some] at hp ⊢
        apply mem_filter_ne hp
        intro hpq
        apply hok
        refine ⟨hpq.symm, ?_, rfl⟩
        cases h : e.1 <;> simp_all
    · rw [setF_other _ _ _ _ ht]
      exact hp

theorem foldl_applySub_keeps (q t p : Nat) :
    ∀ (l : List (Bool × Nat)) (s : State), p ∈ pre s t →
      (∀ e ∈ l, ¬ (q = p ∧ e.1 = false ∧ e.2 = t)) →
      p ∈ pre (l.foldl (fun s e => applySub s q e) s) t := by
  intro l
  induction l with
  | nil => intro s hp _; exact hp
  | cons e es ih =>
    intro s hp hall
    simp only [List.foldl_cons]
    apply ih
    · exact applySub_keeps s q e t p hp (hall e (by simp))
    · intro e' he'; exact hall e' (by simp [he'])

/-- every entry `filterSubs` keeps is an entry of the request (or of the accumulator) -/
theorem filterSubs_sub : ∀ (l acc : List (Bool × Nat)) (e : Bool × Nat),
    e ∈ filterSubs acc l → e ∈ acc ∨ e ∈ l := by
  intro l
  induction l with
  | nil => intro acc e h; exact Or.inl (by simpa [filterSubs] using h)
  | cons x xs ih =>
    intro acc e h
    obtain ⟨a, t⟩ := x
    simp only [filterSubs] at h
    split at h
    · split at h
      · rcases ih _ e h with h' | h'
        · exact Or.inl (List.mem_filter.1 h').1
        · exact Or.inr (by simp [h'])
      · rcases ih _ e h with h' | h'
        · exact Or.inl h'
        · exact Or.inr (by simp [h'])
    · rcases ih _ e h with h' | h'
      · rcases List.mem_append.1 h' with h'' | h''
        · exact Or.inl h''
        · exact Or.inr (by simp at h''; simp [h''])
      · exact Or.inr (by simp [h'])

/-- **Between heartbeats** a fanout peer leaves the set only by its own disconnect, its own
unsubscription from the topic, or because the node itself subscribes to the topic (the fanout
entry is then promoted to the mesh). One step, any op, any state. -/
theorem until_heartbeat (s : State) (o : Op) (t p : Nat) (hp : p ∈ pre s t) :
    p ∈ pre (step s o) t ∨ allowedLoss o t p = true := by
  cases o with
  | connect q g =>
    left
    simp only [step, connect]
    split <;> simpa [pre] using hp
  | disconnect q =>
    by_cases hq : q = p
    · right; simp [allowedLoss, hq]
    · left
      simp only [step, disconnect]
      split
      · exact hp
      · simp only [pre] at hp ⊢
        split
        · cases hf : s.fanout t with
          | none => simp [hf] at hp
          | some l =>
            simp only [hf, Option.getD_some, Option.map_some] at hp ⊢
            exact mem_filter_ne hp (fun h => hq h.symm)
        · exact hp
  | explicit q => left; simpa [step, addExplicit, pre] using hp
  | subs q l =>
    by_cases hloss : allowedLoss (.subs q l) t p = true
    · exact Or.inr hloss
    · left
      simp only [step, recvSubs]
      split
      · apply foldl_applySub_keeps q t p _ s hp
        intro e he hbad
        apply hloss
        obtain ⟨hq, he1, he2⟩ := hbad
        have hmem : e ∈ l := by
          rcases filterSubs_sub l [] e he with h | h
          · simp at h
          · exact h
        simp only [allowedLoss, Bool.and_eq_true, beq_iff_eq, List.any_eq_true, Bool.not_eq_eq_eq_not,
          Bool.not_true]
        exact ⟨hq, e, hmem, he1, he2⟩
      · exact hp
  | subscribe t' =>
    by_cases ht : t' = t
    · right; simp [allowedLoss, ht]
    · left
      simp only [step, subscribe]
      split
      · exact hp
      · split
        · simp only [pre]
          rw [setF_other _ _ _ _ (fun h => ht h.symm)]
          exact hp
        · exact hp
  | unsubscribe t' => left; simpa [step, unsubscribe, pre] using hp
  | publish t' now low rcpt =>
    left
    simp only [step]
    cases hfl' : s.cfg.flood with
    | true => simp only [publish, publishG, hfl', ↓reduceIte]; exact hp
    | false =>
      cases hsub' : s.subscribed.contains t' with
      | true => simp only [publish, publishG, hfl', hsub', Bool.false_eq_true, ↓reduceIte]; exact hp
      | false =>
        have hm := publish_fanout_monotone s t' now low rcpt hfl' hsub'
        by_cases ht : t = t'
        · subst ht; exact hm.1 p hp
        · have := hm.2.2.2.2 t ht
          simp only [pre] at hp ⊢
          rw [this]; exact hp
  | heartbeat now low post => right; rfl

/-- **Between heartbeats**, trace form: along any op sequence none of whose ops is a heartbeat, a
disconnect of `p`, an unsubscription of `p` from `t` or a local `subscribe t`, a fanout peer `p`
of topic `t` stays in the fanout set of `t`. -/
theorem fanout_persist (t p : Nat) :
    ∀ (ops : List Op) (s : State), p ∈ pre s t → (∀ o ∈ ops, allowedLoss o t p = false) →
      p ∈ pre (ops.foldl step s) t := by
  intro ops
  induction ops with
  | nil => intro s hp _; exact hp
  | cons o os ih =>
    intro s hp hall
    simp only [List.foldl_cons]
    apply ih
    · rcases until_heartbeat s o t p hp with h | h
      · exact h
      · have := hall o (by simp)
        rw [this] at h; cases h
    · intro o' ho'; exact hall o' (by simp [ho'])

/-! ## the heartbeat itself -/

theorem foldl_hb_none (s1 : State) (low : List Nat) (post : Nat → List Nat) (ts : List Nat) :
    ts.foldl (fun (acc : Option (Nat → Option (List Nat))) t =>
      match acc with
      | none => none
      | some f =>
        match s1.fanout t with
        | none => some f
        | some l =>
          match hbTopic s1 t low l (post t) with
          | some l' => some (setF f t (some l'))
          | none => none) none = none := by
  induction ts with
  | nil => rfl
  | cons t ts ih => simpa using ih

/-- one topic of the fanout maintenance keeps every peer that is still connected, still
subscribed and not below the publish threshold -/
theorem hbTopic_keeps (s : State) (t : Nat) (low l post l' : List Nat) (h : hbTopic s t low l post = some l')
    (p : Nat) (hp : p ∈ l) (hk : p ∈ hbKept s t low [p]) : p ∈ l' := by
  have hkept : p ∈ hbKept s t low l := by
    simp only [hbKept, List.mem_filter, List.mem_singleton, true_and] at hk ⊢
    exact ⟨hp, hk⟩
  unfold hbTopic at h
  simp only at h
  split at h
  · split at h
    · simp only [Option.some.injEq] at h
      subst h
      exact mem_insAll.2 (Or.inl hkept)
    · cases h
  · simp only [Option.some.injEq] at h
    subst h
    exact hkept

/-! ## the Spec accepts the model -/

/-- the publish clauses of the Spec hold on the model's own output -/
theorem spec_accepts_model_publish (s : State) (t now : Nat) (low rcpt : List Nat)
    (hflood : s.cfg.flood = false) (hsub : s.subscribed.contains t = false) (rc : List Nat)
    (hout : (publish s t now low rcpt).2 = .rcpt rc) :
    specPublish s.cfg.meshN (candidates s t low) (pre s t) (pre (publish s t now low rcpt).1 t) rc = none := by
  obtain ⟨h1, h2, h3, h4, _⟩ := publish_fanout_monotone s t now low rcpt hflood hsub
  have h3' := h3 rc hout
  unfold specPublish
  have e1 : subset ((pre s t).filter ((candidates s t low).contains ·)) (pre (publish s t now low rcpt).1 t) = true := by
    apply subset_iff.2
    intro x hx
    exact h1 x (List.mem_filter.1 hx).1
  have e2 : subset (pre (publish s t now low rcpt).1 t) (pre s t ++ candidates s t low) = true := by
    apply subset_iff.2
    intro x hx
    exact List.mem_append.2 (h2 x hx)
  have e3 : subset ((pre s t).filter ((candidates s t low).contains ·)) rc = true := by
    apply subset_iff.2
    intro x hx
    have := List.mem_filter.1 hx
    exact h3' x this.1 (by simpa using this.2)
  simp only [e1, e2, e3, Bool.not_true, Bool.false_eq_true, ↓reduceIte]
  by_cases hle : s.cfg.meshN ≤ ((pre s t).filter ((candidates s t low).contains ·)).length
  · have := h4 hle
    have e4 : subset (pre (publish s t now low rcpt).1 t) (pre s t) = true := by
      apply subset_iff.2
      intro x hx
      simpa [pre, this] using hx
    simp [e4]
  · have hd : decide (s.cfg.meshN ≤ ((pre s t).filter ((candidates s t low).contains ·)).length) = false := by
      simpa using hle
    simp only [hd, Bool.false_and, Bool.false_eq_true, ↓reduceIte]

/-- the keep clause of the Spec holds on every model step -/
theorem spec_accepts_model_keep (s : State) (o : Op) (t : Nat) :
    specKeep o t (pre s t) (pre (step s o) t) = none := by
  unfold specKeep
  have : (pre s t).all (fun p => (pre (step s o) t).contains p || allowedLoss o t p) = true := by
    simp only [List.all_eq_true, Bool.or_eq_true, List.contains_eq_mem, decide_eq_true_eq]
    intro p hp
    exact until_heartbeat s o t p hp
  rw [this]; rfl

/-! ## the tree before the repair -/

/-- peers A = 0 and B = 1, both gossipsub and subscribed to topic 0; fanout(0) = {A}; mesh_n = 2 -/
def cexState : State :=
  { cfg := { meshN := 2, ttl := 60000000000, flood := false }
    peers := [{ id := 0, gossip := true, topics := [0] }, { id := 1, gossip := true, topics := [0] }]
    explicit := [], subscribed := []
    fanout := fun t => if t = 0 then some [0] else none
    lastPub := fun t => if t = 0 then some 0 else none }

/-- **Counterexample for the tree before the repair** (`fanout.insert(topic, new_peers)`):
fanout {A}, candidates {A, B}, `mesh_n = 2`. The message goes to A and B, but afterwards the
fanout set is {B}: A, still eligible, has been dropped (DESIGN §8 row 11; confirmed on the
implementation, `corpus/C35/fanout-replaced.case`). The repaired code yields {A, B}. -/
theorem fanout_replaced_buggy_counterexample :
    (publishBuggy cexState 0 1 [] [0, 1]).2 = .rcpt [0, 1]
    ∧ (publishBuggy cexState 0 1 [] [0, 1]).1.fanout 0 = some [1]
    ∧ (publish cexState 0 1 [] [0, 1]).1.fanout 0 = some [0, 1]
    ∧ specPublish 2 (candidates cexState 0 []) [0] [1] [0, 1] = some "fanout_dropped" := by
  decide

/-- … and with A as the only candidate the pre-repair code empties the set. -/
theorem fanout_emptied_buggy_counterexample :
    let s := { cexState with peers := [{ id := 0, gossip := true, topics := [0] }] }
    (publishBuggy s 0 1 [] [0]).1.fanout 0 = some []
    ∧ (publish s 0 1 [] [0]).1.fanout 0 = some [0] := by
  decide

/-! ## non-vacuity -/

example : cexState.cfg.flood = false ∧ cexState.subscribed.contains 0 = false := by decide
example : validChoice [1] (pool cexState 0 []) 1 = true := by decide

end C35

#print axioms C35.publish_fanout_monotone
#print axioms C35.publish_adds_only_when_needed
#print axioms C35.until_heartbeat
#print axioms C35.fanout_persist
#print axioms C35.hbTopic_keeps
#print axioms C35.spec_accepts_model_publish
#print axioms C35.spec_accepts_model_keep
#print axioms C35.fanout_replaced_buggy_counterexample
#print axioms C35.fanout_emptied_buggy_counterexample
