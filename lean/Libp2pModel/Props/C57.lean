import Libp2pModel.Proofs.C57
/-!
# C57 — property theorems: the length-prefixed protobuf codec round-trips under any split,
rejects an oversize declared length before the payload is buffered, and never panics.

`frame max` is the transcription of `prost_codec::Codec::decode` (up to the hand-off of the payload
to `prost`), `encode` of `Codec::encode`, `feed` of "append a chunk, call `decode` until it stops
yielding" (what `asynchronous_codec::FramedRead` does with the codec).
-/
namespace C57

/-- The frame decoder is a `Good` incremental decoder (progress + stability under more input):
this is what makes every result below independent of how the byte stream is split. -/
theorem frame_good (max : Nat) : Framed.Good (frameOk max) := frameOk_good max

/-- one-shot decoding of an encoded message sequence returns exactly the bodies and leaves nothing -/
theorem oneShot_encoded (max : Nat) (bodies : List (List Nat))
    (hfit : ∀ b ∈ bodies, b.length ≤ max) (hmem : ∀ b ∈ bodies, b.length < 2 ^ 63) :
    oneShot max (bodies.map encode).flatten = (bodies, []) := by
  induction bodies with
  | nil => simp [oneShot, Framed.drainAll, Framed.drain]
  | cons b bs ih =>
    have hb := frame_encode max b (bs.map encode).flatten (hfit b (by simp)) (hmem b (by simp))
    have hdec : frameOk max (encode b ++ (bs.map encode).flatten) = some (b, (bs.map encode).flatten) := by
      simp [frameOk, hb]
    have ih' := ih (fun x hx => hfit x (by simp [hx])) (fun x hx => hmem x (by simp [hx]))
    simp only [List.map_cons, List.flatten_cons, oneShot] at ih' ⊢
    rw [drainAll_cons _ (frameOk_good max) _ _ _ hdec, ih']

/-- **Round trip under any split.** For every list of message bodies within the limit (and of a
size a Rust buffer can have, `< 2^63 = isize::MAX+1`) and EVERY chunking of the encoded byte
stream, feeding the chunks one by one yields exactly the encoded bodies, in order, and an empty
residual buffer. -/
theorem roundtrip_split (max : Nat) (bodies : List (List Nat)) (chunks : List (List Nat))
    (hfit : ∀ b ∈ bodies, b.length ≤ max) (hmem : ∀ b ∈ bodies, b.length < 2 ^ 63)
    (hsplit : chunks.flatten = (bodies.map encode).flatten) :
    Framed.feedMany (frameOk max) [] chunks = (bodies, []) := by
  rw [Framed.feedMany_nil_start _ (frameOk_good max), hsplit]
  exact oneShot_encoded max bodies hfit hmem

/-- … and with a body coder `decBody ∘ encBody = some` on top: the decoded messages are the
encoded messages. -/
theorem roundtrip_split_messages {M : Type} (encBody : M → List Nat) (decBody : List Nat → Option M)
    (hbody : ∀ m, decBody (encBody m) = some m)
    (max : Nat) (msgs : List M) (chunks : List (List Nat))
    (hfit : ∀ m ∈ msgs, (encBody m).length ≤ max) (hmem : ∀ m ∈ msgs, (encBody m).length < 2 ^ 63)
    (hsplit : chunks.flatten = (msgs.map (fun m => encode (encBody m))).flatten) :
    (Framed.feedMany (frameOk max) [] chunks).1.map decBody = msgs.map some ∧
    (Framed.feedMany (frameOk max) [] chunks).2 = [] := by
  have := roundtrip_split max (msgs.map encBody) chunks
    (by intro b hb; simp at hb; obtain ⟨m, hm, rfl⟩ := hb; exact hfit m hm)
    (by intro b hb; simp at hb; obtain ⟨m, hm, rfl⟩ := hb; exact hmem m hm)
    (by simpa [List.map_map, Function.comp_def] using hsplit)
  rw [this]
  simp [List.map_map, Function.comp_def, hbody]

/-- **Split independence for arbitrary bytes** (valid, malformed or hostile): any chunking gives
the same frames and the same residual buffer — hence the same `None`/`Err` verdict — as decoding
the concatenation in one go. -/
theorem split_independent (max : Nat) (chunks : List (List Nat)) :
    Framed.feedMany (frameOk max) [] chunks = oneShot max chunks.flatten :=
  Framed.feedMany_nil_start _ (frameOk_good max) chunks

/-- **Early rejection.** As soon as the length prefix is complete and declares more than `max`, the
decoder returns the error — whatever follows the prefix (nothing, part of the payload, all of it). -/
theorem oversize_early (max : Nat) (src x : List Nat) (len : Nat) (rest : List Nat)
    (hu : uvi src = .ok len rest) (hbig : max < len) :
    frame max (src ++ x) = .err (.tooLong len) := by
  apply frame_err_append
  unfold frame
  rw [hu]
  simp [hbig]

/-- in particular the bare prefix of an oversize message is rejected with zero payload bytes buffered -/
theorem oversize_prefix_only (max len : Nat) (x : List Nat) (h64 : len < U64) (hbig : max < len) :
    frame max (Varint.encode len ++ x) = .err (.tooLong len) := by
  have hu : uvi (Varint.encode len) = .ok len [] := by simpa using uvi_encode len [] h64
  exact oversize_early max _ x len [] hu hbig

/-- an error verdict never changes when more input arrives (and the buffer is not consumed: the
model's `err` carries no new buffer) -/
theorem err_stable (max : Nat) (src x : List Nat) (e : Err) (h : frame max src = .err e) :
    frame max (src ++ x) = .err e := frame_err_append max src x e h

/-- **No panic**, on arbitrary input bytes and any limit: none of the shift, subtraction,
`advance`, `split_to` operations in `decode` can fail. -/
theorem no_panic (max : Nat) (src : List Nat) : frame max src ≠ .panic := frame_no_panic max src

theorem no_panic_status (max : Nat) (src : List Nat) : status max src ≠ .panic := by
  unfold status
  split <;> simp
  rename_i h; exact absurd h (frame_no_panic max src)

/-- **A strict prefix of a valid frame yields `None`** (and, as `need` carries no buffer, consumes
nothing). -/
theorem incomplete_is_none (max : Nat) (body pre suf : List Nat)
    (hmax : body.length ≤ max) (hmem : body.length < 2 ^ 63)
    (hpre : pre ++ suf = encode body) (hstrict : suf ≠ []) :
    frame max pre = .need := by
  have hfull : frame max (pre ++ suf) = .ok body [] := by
    rw [hpre]; simpa using frame_encode max body [] hmax hmem
  cases h : frame max pre with
  | need => rfl
  | err e => rw [frame_err_append max pre suf e h] at hfull; simp at hfull
  | ok p r =>
    rw [frame_ok_append max pre p r suf h] at hfull
    simp only [Res.ok.injEq, List.append_eq_nil_iff] at hfull
    exact absurd hfull.2.2 hstrict
  | panic => exact absurd h (frame_no_panic max pre)

/-- a returned payload never exceeds the limit: allocation is bounded by `max` -/
theorem payload_le_max (max : Nat) (src p r : List Nat) (h : frame max src = .ok p r) :
    p.length ≤ max := by
  obtain ⟨_, _, _, hmax, _⟩ := (frame_ok_iff max src p r).1 h
  exact hmax

/-- no over-read: a returned frame consumed exactly prefix ++ payload; the rest is untouched -/
theorem no_overread (max : Nat) (src p r : List Nat) (h : frame max src = .ok p r) :
    ∃ pre, src = pre ++ p ++ r ∧ 0 < pre.length ∧ pre.length ≤ 10 := by
  obtain ⟨pre, hsrc, hu, _, _⟩ := (frame_ok_iff max src p r).1 h
  obtain ⟨pre', hsrc', hpos, hle⟩ := uvi_ok_split src _ _ hu
  have : pre = pre' := by
    have h1 : pre ++ (p ++ r) = pre' ++ (p ++ r) := by rw [← hsrc', ← List.append_assoc, ← hsrc]
    exact List.append_cancel_right h1
  subst this
  exact ⟨pre, hsrc, hpos, hle⟩

/-- the residual left by the drain loop holds no complete frame, so its `status` is the
decoder's genuine verdict -/
theorem status_drained (max : Nat) (all : List Nat) :
    frameOk max (oneShot max all).2 = none :=
  Framed.drainAll_residual_none _ (frameOk_good max) all

/-! ## the Spec accepts the model -/

/-- model of the harness loop over a chunk list: per chunk the frames returned, the status and the
residual length, exactly what the implementation prints -/
def modelRun (max : Nat) : List Nat → List (List Nat) → List (List (List Nat) × Status × Nat)
  | _, [] => []
  | st, c :: cs =>
    let (fs, st') := feed max st c
    (fs, status max st', st'.length) :: modelRun max st' cs

def specRun : SpecSt → List (List Nat) → List (List (List Nat) × Status × Nat) → List String
  | s, c :: cs, (fs, st, n) :: os => let (s', v) := specDec s c fs st n; v :: specRun s' cs os
  | _, _, _ => []

/-- **Spec ⇐ model**: on every chunk sequence the executable Spec (one-shot reference decode of
everything fed so far) accepts every output of the incremental model. So "impl = model" on a
trace implies "Spec holds on impl" there. -/
theorem spec_accepts_model (max : Nat) (chunks : List (List Nat)) :
    ∀ (s : SpecSt) (st : List Nat), s.max = max → oneShot max s.all = (s.frames, st) →
      ∀ v ∈ specRun s chunks (modelRun max st chunks), v = "ok" := by
  induction chunks with
  | nil => intro s st _ _ v hv; simp [specRun] at hv
  | cons c cs ih =>
    intro s st hmaxeq hinv v hv
    subst hmaxeq
    have happ := Framed.drainAll_append (frameOk s.max) (frameOk_good s.max) s.all c
    have hinv1 : (Framed.drainAll (frameOk s.max) s.all).1 = s.frames := by
      have := congrArg Prod.fst hinv; simpa [oneShot] using this
    have hinv2 : (Framed.drainAll (frameOk s.max) s.all).2 = st := by
      have := congrArg Prod.snd hinv; simpa [oneShot] using this
    rw [hinv1, hinv2] at happ
    simp only [modelRun, feed, Framed.feed] at hv
    cases hd : Framed.drainAll (frameOk s.max) (st ++ c) with
    | mk fs st' =>
      rw [hd] at hv happ
      simp only at happ
      have hone : oneShot s.max (s.all ++ c) = (s.frames ++ fs, st') := by simpa [oneShot] using happ
      have hnp := no_panic_status s.max st'
      simp only [specRun, specDec, hone] at hv
      simp only [hnp, ↓reduceIte, ne_eq, not_true_eq_false, List.mem_cons] at hv
      rcases hv with hv | hv
      · exact hv
      · exact ih { s with all := s.all ++ c, frames := s.frames ++ fs } st' rfl hone v hv

/-- the Spec's clause for the encoder accepts the model's encoder -/
theorem specEnc_accepts_model (max : Nat) (body : List Nat) (hmem : body.length < 2 ^ 63) :
    specEnc max body (encode body) = true := by
  unfold specEnc
  split
  · rename_i h
    have h1 := frame_encode max body [] h hmem
    have h2 := frame_encode max body [0x55] h hmem
    simp only [List.append_nil] at h1
    simp [h1, h2]
  · rename_i h
    have h64 : body.length < U64 := by have : (2:Nat) ^ 63 < U64 := by decide
                                       omega
    have := oversize_prefix_only max body.length body h64 (by omega)
    simp [encode, this]

/-- body coder of the crate's test message: canonical decode inverts encode -/
theorem decMsg_encMsg (data : List Nat) (h : data.length < U64) : decMsg (encMsg data) = some data := by
  unfold encMsg
  split
  · rename_i h0; simp [h0, decMsg]
  · simp [decMsg, uvi_encode _ _ h]

/-! ## non-vacuity -/
example : frame 5 [3, 1, 2, 3, 9] = .ok [1, 2, 3] [9] := by decide
example : frame 2 [3] = .err (.tooLong 3) := by decide
example : frame 5 [3, 1, 2] = .need := by decide
example : frame 5 [0x80, 0x00] = .err .varintNotMinimal := by decide
example : frame 5 [0x80, 0x80, 0x80, 0x80, 0x80, 0x80, 0x80, 0x80, 0x80, 0x80] = .err .varintOverflow := by decide
example : Framed.feedMany (frameOk 5) [] [[2], [7, 8, 1], [], [9]] = ([[7, 8], [9]], []) := by decide

end C57

#print axioms C57.frame_good
#print axioms C57.roundtrip_split
#print axioms C57.roundtrip_split_messages
#print axioms C57.split_independent
#print axioms C57.oversize_early
#print axioms C57.oversize_prefix_only
#print axioms C57.err_stable
#print axioms C57.no_panic
#print axioms C57.incomplete_is_none
#print axioms C57.payload_le_max
#print axioms C57.no_overread
#print axioms C57.status_drained
#print axioms C57.spec_accepts_model
#print axioms C57.specEnc_accepts_model
#print axioms C57.decMsg_encMsg
