import Libp2pModel.Proofs.C39_Term
import Libp2pModel.Proofs.C39_Mon2
/-!
# C39 — iterative lookups are bounded, terminate and return the closest responders

Theorems about `C39.step`, the transcription of `ClosestPeersIter`, for **every** operation
sequence (any interleaving of `next(now)` with arbitrary `now`, `on_success` with arbitrary
`closer_peers`, `on_failure`, `finish`), proved by induction (`Machine.invariant_of_step`,
`Machine.outputs_of_step`).  The fixed and disjoint-path iterators are in `Props/C39_Fixed.lean`
and `Props/C39_Disjoint.lean`.
-/
namespace C39

/-- the iterator after an arbitrary operation sequence on a fresh `with_config` -/
def reach (cfg : Cfg) (k : Nat) (known : List Nat) (ops : List Op) : Iter :=
  Machine.exec step (init cfg k known) ops

theorem inv_reach {cfg : Cfg} (hc : CfgOk cfg) (k : Nat) (known : List Nat) (ops : List Op) :
    Inv (reach cfg k known ops) :=
  Machine.invariant_of_step step Inv (fun s o h => (h.step o).1) ops _ (Inv.init hc k known)

/-- **`num_waiting` = number of `Waiting` peers** (= `waiting().count()`), after any operation
sequence; and no call ever panics (the `num_waiting -= 1` never underflows). -/
theorem waiting_eq {cfg : Cfg} (hc : CfgOk cfg) (k : Nat) (known : List Nat) (ops : List Op) :
    (reach cfg k known ops).numWaiting = (waitingList (reach cfg k known ops)).length ∧
    ∀ out ∈ (Machine.run step (init cfg k known) ops).2, out ≠ .panic := by
  refine ⟨?_, ?_⟩
  · rw [length_waitingList]; exact (inv_reach hc k known ops).nw_eq
  · exact Machine.outputs_of_step step Inv (· ≠ .panic) (fun s o h => (h.step o).1)
      (fun s o h => (h.step o).2) ops _ (Inv.init hc k known)

/-- **In-flight bound**: after any operation sequence `num_waiting ≤ max(num_results, parallelism)`;
and a *new* request is issued only while `num_waiting` is below the parallelism — below
`max(num_results, parallelism)` when stalled (`cap`).  (After a stalled→iterating transition
`num_waiting` may exceed `parallelism`; nothing is issued until it drops.) -/
theorem inflight_bound {cfg : Cfg} (hc : CfgOk cfg) (k : Nat) (known : List Nat) (ops : List Op) :
    (reach cfg k known ops).numWaiting ≤ max cfg.numResults cfg.parallelism ∧
    ∀ now p, (next (reach cfg k known ops) now).2 = .waiting (some p) →
      (reach cfg k known ops).numWaiting < cap (reach cfg k known ops) := by
  have hcfg : (reach cfg k known ops).cfg = cfg := by
    apply Machine.invariant_of_step step (fun s => s.cfg = cfg)
    · intro s o h
      cases o with
      | next now =>
        by_cases hf : s.state = .finished
        · simp [step, next_finished hf, h]
        · simp only [step]; rw [(next_fields hf now).2.2.1]; exact h
      | success p closer =>
        simp only [step, onSuccess]
        (repeat' split) <;> simp_all [succeed]
      | failure p =>
        simp only [step, onFailure]
        (repeat' split) <;> simp_all
      | finish => exact h
    · rfl
  have h := inv_reach hc k known ops
  refine ⟨by have := h.nw_le; rw [hcfg] at this; exact this, ?_⟩
  intro now p hout
  have hf : (reach cfg k known ops).state ≠ .finished := by
    intro hf; rw [next_finished hf] at hout; simp at hout
  have hres := (next_out_res hf now p).2 hout
  rcases nextLoop_ret _ _ _ _ _ _ _ hres with ⟨ho, _⟩ | ⟨_, _, hcap⟩
  · simp at ho
  · exact atCapacity_false hf hcap

/-! ## the monitor run alongside the model -/

/-- model and monitor stepping together; output = the monitor's verdict (`none` = accepted) -/
def stepM (ms : Mon × Iter) (op : Op) : (Mon × Iter) × Option String :=
  let r := step ms.2 op
  let v := monStep ms.1 op r.2 (observe r.1)
  ((v.1, r.1), v.2)

def Linked (ms : Mon × Iter) : Prop := Inv ms.2 ∧ R ms.1 ms.2 ∧ R2 ms.1 ms.2

theorem linked_step (ms : Mon × Iter) (op : Op) (h : Linked ms) :
    Linked (stepM ms op).1 ∧ (stepM ms op).2 = none := by
  obtain ⟨hv, hr⟩ := mon_step_ok h.1 h.2.1 h.2.2 op
  exact ⟨⟨(h.1.step op).1, hr, r2_step h.1 h.2.1 h.2.2 op⟩, hv⟩

/-- **Spec ⊇ model**: along every run of the model, the trace monitor `monStep` (the executable
statement evaluated by the driver on the implementation's outputs) accepts every step. -/
theorem spec_accepts_model {cfg : Cfg} (hc : CfgOk cfg) (k n : Nat) (known : List Nat) (ops : List Op) :
    ∀ v ∈ (Machine.run stepM (monInit cfg k n known, init cfg k known) ops).2, v = none :=
  Machine.outputs_of_step stepM Linked (· = none) (fun ms o h => (linked_step ms o h).1)
    (fun ms o h => (linked_step ms o h).2) ops _ ⟨Inv.init hc k known, R.init cfg k n known, R2.init cfg k n known⟩

theorem linked_reach {cfg : Cfg} (hc : CfgOk cfg) (k n : Nat) (known : List Nat) (ops : List Op) :
    Linked (Machine.exec stepM (monInit cfg k n known, init cfg k known) ops) :=
  Machine.invariant_of_step stepM Linked (fun ms o h => (linked_step ms o h).1) ops _
    ⟨Inv.init hc k known, R.init cfg k n known, R2.init cfg k n known⟩

theorem exec_stepM_snd (ops : List Op) : ∀ ms : Mon × Iter,
    (Machine.exec stepM ms ops).2 = Machine.exec step ms.2 ops := by
  induction ops with
  | nil => intro ms; rfl
  | cons o os ih => intro ms; simp only [Machine.exec, List.foldl_cons] at ih ⊢; rw [ih]; rfl

/-- the peer issued by a call, if any -/
def issuedOf : Op → Out → List Nat
  | .next _, .waiting (some p) => [p]
  | _, _ => []

/-- the peer whose response was accepted by a call, if any -/
def respondedOf : Op → Out → List Nat
  | .success p _, .bool true => [p]
  | _, _ => []

/-- peers returned by `next` as `Waiting(Some p)` along a run, in order -/
def issuedList : Iter → List Op → List Nat
  | _, [] => []
  | s, o :: os => issuedOf o (step s o).2 ++ issuedList (step s o).1 os

/-- peers whose `on_success` returned `true` along a run -/
def respondedList : Iter → List Op → List Nat
  | _, [] => []
  | s, o :: os => respondedOf o (step s o).2 ++ respondedList (step s o).1 os

theorem issuedOf_reverse (op : Op) (out : Out) : (issuedOf op out).reverse = issuedOf op out := by
  unfold issuedOf; split <;> rfl

theorem respondedOf_reverse (op : Op) (out : Out) : (respondedOf op out).reverse = respondedOf op out := by
  unfold respondedOf; split <;> rfl

theorem monStep_lists (m : Mon) (op : Op) (out : Out) (o : Obs) (h : (monStep m op out o).2 = none) :
    (monStep m op out o).1.issued = issuedOf op out ++ m.issued ∧
    (monStep m op out o).1.accepted = respondedOf op out ++ m.accepted := by
  have hcore : (monCore m op out o).2 = none := by
    simp only [monStep] at h
    cases hc : (monCore m op out o).2 with
    | none => rfl
    | some k => simp [hc] at h
  obtain ⟨_, _, e3, e4, _⟩ := shadowStep_fields (monCore m op out o).1 op out
  have h1 : (monStep m op out o).1.issued = (monCore m op out o).1.issued := e3
  have h2 : (monStep m op out o).1.accepted = (monCore m op out o).1.accepted := e4
  rw [h1, h2]
  cases op <;> rcases out with ⟨_ | p⟩ | _ | _ | b | _ | _ <;> (try cases b) <;>
    simp only [monCore, issuedOf, respondedOf] at hcore ⊢ <;>
    (repeat' split at hcore) <;> (try split) <;> simp_all

/-- the monitor's `issued` / `accepted` fields are exactly the run's history -/
theorem monRun_lists (ops : List Op) : ∀ ms : Mon × Iter, Linked ms →
    (Machine.exec stepM ms ops).1.issued = (issuedList ms.2 ops).reverse ++ ms.1.issued ∧
    (Machine.exec stepM ms ops).1.accepted = (respondedList ms.2 ops).reverse ++ ms.1.accepted := by
  induction ops with
  | nil => intro ms _; simp [Machine.exec, issuedList, respondedList]
  | cons o os ih =>
    intro ms h
    obtain ⟨hl, hv⟩ := linked_step ms o h
    obtain ⟨i1, i2⟩ := ih _ hl
    obtain ⟨l1, l2⟩ := monStep_lists ms.1 o (step ms.2 o).2 (observe (step ms.2 o).1) hv
    simp only [Machine.exec, List.foldl_cons] at i1 i2 ⊢
    have e1 : (stepM ms o).1.1 = (monStep ms.1 o (step ms.2 o).2 (observe (step ms.2 o).1)).1 := rfl
    have e2 : (stepM ms o).1.2 = (step ms.2 o).1 := rfl
    rw [i1, i2, e1, e2, l1, l2]
    simp only [issuedList, respondedList, List.reverse_append, List.append_assoc,
      issuedOf_reverse, respondedOf_reverse]
    exact ⟨trivial, trivial⟩

/-- **Each peer is returned by `next` at most once**, along any operation sequence. -/
theorem each_peer_once {cfg : Cfg} (hc : CfgOk cfg) (k : Nat) (known : List Nat) (ops : List Op) :
    (issuedList (init cfg k known) ops).Nodup := by
  have hl := linked_reach hc k 0 known ops
  have := (monRun_lists ops (monInit cfg k 0 known, init cfg k known) ⟨Inv.init hc k known, R.init cfg k 0 known, R2.init cfg k 0 known⟩).1
  have hn := hl.2.1.nodup
  rw [this] at hn
  simp only [monInit, List.append_nil] at hn
  rw [List.Nodup, List.pairwise_reverse] at hn
  exact hn.imp (fun h => h.symm)

/-- **Result**: after any operation sequence `into_result()` is strictly increasing in distance,
has at most `num_results` peers, every one of them is `Succeeded`, and **responded**: an
`on_success` call for it returned `true` earlier in the run. -/
theorem result_sound {cfg : Cfg} (hc : CfgOk cfg) (k : Nat) (known : List Nat) (ops : List Op) :
    (result (reach cfg k known ops)).Pairwise (· < ·) ∧
    (result (reach cfg k known ops)).length ≤ (reach cfg k known ops).cfg.numResults ∧
    ∀ p ∈ result (reach cfg k known ops),
      find (reach cfg k known ops).closest p = some .succeeded ∧
      p ∈ respondedList (init cfg k known) ops := by
  have h := inv_reach hc k known ops
  have hp := result_props h.sorted
  refine ⟨hp.1, hp.2.1, fun p hpm => ⟨hp.2.2 p hpm, ?_⟩⟩
  have hl := linked_reach hc k 0 known ops
  have hacc := (monRun_lists ops (monInit cfg k 0 known, init cfg k known) ⟨Inv.init hc k known, R.init cfg k 0 known, R2.init cfg k 0 known⟩).2
  have hs : (Machine.exec stepM (monInit cfg k 0 known, init cfg k known) ops).2 = reach cfg k known ops :=
    exec_stepM_snd ops _
  have := hl.2.1.accepted p (by rw [hs]; exact hp.2.2 p hpm)
  rw [hacc] at this
  simpa [monInit] using this

/-- **Finished-closed**: if, after any operation sequence, `next` returns `Finished` by itself
(the iterator was not finished before, so not via `finish()`), then no peer the iterator knows of
that is closer than the farthest returned peer — no known peer at all when fewer than
`num_results` are returned — is `NotContacted` or `Waiting`. -/
theorem finished_closed_reach {cfg : Cfg} (hc : CfgOk cfg) (k : Nat) (known : List Nat) (ops : List Op)
    (now : Nat) (hnf : (reach cfg k known ops).state ≠ .finished)
    (hout : (next (reach cfg k known ops) now).2 = .finished) (q : Nat) (st : PState)
    (hq : find (next (reach cfg k known ops) now).1.closest q = some st)
    (hrel : (result (next (reach cfg k known ops) now).1).length < (reach cfg k known ops).cfg.numResults ∨
      ∃ f, (result (next (reach cfg k known ops) now).1).getLast? = some f ∧ q < f) :
    st ≠ .notContacted ∧ isWaiting st = false :=
  finished_closed (inv_reach hc k known ops) hnf now hout q st hq hrel

/-- **Termination over a finite universe** `{0,…,n-1}` (all known peers and all `closer_peers`
below `n`), for any pattern of responses, failures and timeouts: along any operation sequence at
most `n` requests are issued, and at most `3n+1` calls are *effective* (issue a request, accept a
response or a failure, or finish) — every other call leaves the potential `phi` unchanged or
smaller.  Together with `next_progress` (with nothing in flight, `next` issues or finishes) the
lookup finishes once the issued requests have been answered, failed or timed out. -/
theorem terminates {cfg : Cfg} (hc : CfgOk cfg) (k n : Nat) (known : List Nat) (ops : List Op)
    (hk : ∀ q ∈ known, q < n) (hops : ∀ o ∈ ops, opBounded n o) :
    issueCount (init cfg k known) ops ≤ n ∧ effCount (init cfg k known) ops ≤ 3 * n + 1 ∧
    issueCount (init cfg k known) ops + mu n (reach cfg k known ops) ≤ n := by
  obtain ⟨hb, hmu, hphi⟩ := init_measure cfg k n known hk
  obtain ⟨h1, h2⟩ := measure_run (n := n) ops _ (Inv.init hc k known) hb hops
  unfold reach
  omega

/-- with nothing in flight an unfinished iterator makes progress: `next` issues a request or
finishes (it never answers `WaitingAtCapacity`/`Waiting(None)` forever) -/
theorem progress {cfg : Cfg} (hc : CfgOk cfg) (k : Nat) (known : List Nat) (ops : List Op) (now : Nat)
    (hnf : (reach cfg k known ops).state ≠ .finished) (hz : (reach cfg k known ops).numWaiting = 0) :
    (next (reach cfg k known ops) now).2 = .finished ∨
      ∃ p, (next (reach cfg k known ops) now).2 = .waiting (some p) :=
  next_progress (inv_reach hc k known ops) hnf hz now

/-- `Finished` is absorbing -/
theorem finished_absorbing (s : Iter) (h : s.state = .finished) (op : Op) :
    (step s op).1.state = .finished ∧
    (step s op).2 ∈ [Out.finished, Out.bool false, Out.unit] := by
  cases op with
  | next now => simp [step, next_finished h, h]
  | success p c => simp [step, onSuccess, h]
  | failure p => simp [step, onFailure, h]
  | finish => simp [step, finish]

/-! ## non-vacuity -/

def cfgEx : Cfg := ⟨2, 2, 10⟩
example : CfgOk cfgEx := ⟨by decide, by decide⟩

-- two requests in parallel, then at capacity; a response with a closer peer; finish with the 2 closest
example : (Machine.run step (init cfgEx 20 [5, 3])
    [.next 0, .next 0, .next 0, .success 3 [1], .next 1, .success 1 [], .next 2]).2 =
    [.waiting (some 3), .waiting (some 5), .atCapacity, .bool true, .waiting (some 1), .bool true,
     .finished] := by decide
example : result (reach cfgEx 20 [5, 3]
    [.next 0, .next 0, .next 0, .success 3 [1], .next 1, .success 1 [], .next 2]) = [1, 3] := by decide
-- a timed-out peer no longer counts; late failure is accepted
example : (Machine.run step (init cfgEx 20 [4, 6])
    [.next 0, .next 5, .next 10, .failure 4]).2 =
    [.waiting (some 4), .waiting (some 6), .atCapacity, .bool true] := by decide
-- when every request has timed out the iterator finishes by itself; later reports are ignored
example : (Machine.run step (init cfgEx 20 [4])
    [.next 0, .next 10, .failure 4, .next 11]).2 =
    [.waiting (some 4), .finished, .bool false, .finished] := by decide

end C39

#print axioms C39.waiting_eq
#print axioms C39.inflight_bound
#print axioms C39.each_peer_once
#print axioms C39.terminates
#print axioms C39.progress
#print axioms C39.result_sound
#print axioms C39.finished_closed_reach
#print axioms C39.finished_absorbing
#print axioms C39.spec_accepts_model
