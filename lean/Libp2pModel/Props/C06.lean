import Libp2pModel.Props.C01
/-!
# C06 — A behaviour's connection denial is final

Statement (properties.jsonl): if any NetworkBehaviour denies a pending or established connection,
no connection handler is created for it, it is never reported as established nor counted, and
exactly one corresponding failure (DialFailure/ListenFailure and SwarmEvent error) is reported.

Behaviour decisions are oracle arguments of the model's ops (`deny` at the four decision points:
pending-outbound = `dial … deny`, pending-inbound = `incoming deny`, established-outbound =
`resolve … deny`, established-inbound = `resolveIn … deny`), so the theorems hold for every
behaviour; how a derived behaviour turns its fields' answers into one answer is C58.
-/
namespace Swarm.C06
open Swarm Swarm.Life Swarm.C01

/-- no `ConnectionEstablished` (either stream) and no handler creation for `c` among `evs` -/
def silentFor (c : Nat) : Ev → Bool
  | .sEstablished c' .. | .bEstablished c' .. => c' != c
  | .bEstOut c' false | .bEstIn c' false => c' != c
  | _ => true

/-- **Denied at `handle_established_outbound_connection`**: exactly the failure pair
`DialFailure{Denied}` + `OutgoingConnectionError{Denied}`, the connection is closed, no handler, not
established, the connection table and the established counters are untouched, and the id is finished. -/
theorem denied_established_outbound (s : State) (k p : Nat) (pc : PendingOut) (h : Inv s)
    (hf : findPendOut s.pendOut k = some pc)
    (hok : checkPeerId pc.peer p s.localPeer = .ok) :
    (resolveDial s k p true).2 =
      [Ev.bEstOut pc.id true, Ev.bDialFailure pc.id (some p) .denied, Ev.sOutgoingError pc.id (some p) .denied,
       Ev.muxClosed true k] ∧
    (resolveDial s k p true).1.est = s.est ∧ (resolveDial s k p true).1.cEO = s.cEO ∧
    (resolveDial s k p true).1.cEI = s.cEI ∧
    stOf (resolveDial s k p true).1 pc.id = .done := by
  have hmem : pc.id ∈ idsO s := List.mem_map_of_mem (findPendOut_mem _ _ _ hf)
  have hst := stOf_removePendOut s pc.id h hmem
  have hok' : checkPeerId pc.peer p (removePendOut s pc.id).localPeer = .ok := hok
  have hr : resolveDial s k p true = (removePendOut s pc.id,
      [Ev.bEstOut pc.id true, Ev.bDialFailure pc.id (some p) .denied, Ev.sOutgoingError pc.id (some p) .denied,
       Ev.muxClosed true k]) := by
    simp [resolveDial, hf, hok', outFailEvents]
  rw [hr]
  refine ⟨rfl, rfl, rfl, rfl, ?_⟩
  show stOf (removePendOut s pc.id) pc.id = .done
  rw [hst]; simp [upd]

/-- **Denied at `handle_established_inbound_connection`** -/
theorem denied_established_inbound (s : State) (k p : Nat) (pc : PendingIn) (h : Inv s)
    (hf : s.pendIn.find? (·.k == k) = some pc) (hp : p ≠ s.localPeer) :
    (resolveIn s k p true).2 =
      [Ev.bEstIn pc.id true, Ev.bListenFailure pc.id (some p) .denied, Ev.sIncomingError pc.id (some p) .denied,
       Ev.muxClosed false k] ∧
    (resolveIn s k p true).1.est = s.est ∧ (resolveIn s k p true).1.cEO = s.cEO ∧
    (resolveIn s k p true).1.cEI = s.cEI ∧
    stOf (resolveIn s k p true).1 pc.id = .done := by
  have hmem : pc.id ∈ idsI s := List.mem_map_of_mem (List.mem_of_find?_eq_some hf)
  have hst := stOf_removePendIn s pc.id h hmem
  have hok : checkPeerId none p (removePendIn s pc.id).localPeer = .ok := by
    unfold checkPeerId
    have : ¬ (removePendIn s pc.id).localPeer = p := fun hh => hp hh.symm
    simp [this]
  have hr : resolveIn s k p true = (removePendIn s pc.id,
      [Ev.bEstIn pc.id true, Ev.bListenFailure pc.id (some p) .denied, Ev.sIncomingError pc.id (some p) .denied,
       Ev.muxClosed false k]) := by
    simp [resolveIn, hf, hok, inFailEvents]
  rw [hr]
  refine ⟨rfl, rfl, rfl, rfl, ?_⟩
  show stOf (removePendIn s pc.id) pc.id = .done
  rw [hst]; simp [upd]

/-- **Denied at `handle_pending_inbound_connection`**: no pending connection is created at all -/
theorem denied_pending_inbound (s : State) (h : Inv s) :
    (incoming s true).2 =
      [Ev.bPendingIn s.nextId true, Ev.bListenFailure s.nextId none .denied, Ev.sIncomingError s.nextId none .denied] ∧
    (incoming s true).1.pendIn = s.pendIn ∧ (incoming s true).1.est = s.est ∧ (incoming s true).1.cPI = s.cPI ∧
    stOf (incoming s true).1 s.nextId = .done := by
  have hcons : stOf ({ s with nextId := s.nextId + 1, nextIncoming := s.nextIncoming + 1 } : State)
      = upd (stOf s) s.nextId .done := stOf_consume s _ h rfl rfl rfl rfl
  have hr : incoming s true = ({ s with nextId := s.nextId + 1, nextIncoming := s.nextIncoming + 1 },
      [Ev.bPendingIn s.nextId true, Ev.bListenFailure s.nextId none .denied, Ev.sIncomingError s.nextId none .denied]) := by
    simp [incoming, inFailEvents]
  rw [hr]
  refine ⟨rfl, rfl, rfl, rfl, ?_⟩
  show stOf ({ s with nextId := s.nextId + 1, nextIncoming := s.nextIncoming + 1 } : State) s.nextId = .done
  rw [hcons]; simp [upd]

/-- **Denied at `handle_pending_outbound_connection`**: `Err(Denied)` (API) and one `DialFailure`,
nothing is dialed, no pending connection -/
theorem denied_pending_outbound (s : State) (v : Bool) (c : Cond) (p0 : Option Nat) (a : List Maddr) (e : Bool)
    (b r : List Maddr) (peer : Option Nat) (h : Inv s)
    (hp : dialPeer s p0 a = some peer) (hc : shouldDial s c peer = true) :
    (dial s v c p0 a e b true r).2.2 = [Ev.bPendingOut s.nextId true, Ev.bDialFailure s.nextId peer .denied] ∧
    (dial s v c p0 a e b true r).2.1 = (if v then Res.queued s.nextId else Res.err .denied s.nextId) ∧
    (dial s v c p0 a e b true r).1.pendOut = s.pendOut ∧ (dial s v c p0 a e b true r).1.cPO = s.cPO ∧
    stOf (dial s v c p0 a e b true r).1 s.nextId = .done := by
  have hcons : stOf ({ s with nextId := s.nextId + 1 } : State) = upd (stOf s) s.nextId .done :=
    stOf_consume s _ h rfl rfl rfl rfl
  have hr : dial s v c p0 a e b true r = ({ s with nextId := s.nextId + 1 },
      (if v then Res.queued s.nextId else Res.err .denied s.nextId),
      [Ev.bPendingOut s.nextId true, Ev.bDialFailure s.nextId peer .denied]) := by
    simp [dial, hp, hc, dialRejected]
  rw [hr]
  refine ⟨rfl, rfl, rfl, rfl, ?_⟩
  show stOf ({ s with nextId := s.nextId + 1 } : State) s.nextId = .done
  rw [hcons]; simp [upd]

/-! ### …and it stays that way: a finished id is never established, for every continuation -/

/-- not a ConnectionEstablished / ConnectionClosed SwarmEvent for `c` -/
def okFor (c : Nat) : Ev → Bool
  | .sEstablished c' .. => c' != c
  | .sClosed c' .. => c' != c
  | _ => true

theorem upd_done (m : Nat → LSt) (c c' : Nat) (v : LSt) (hd : m c = .done) (hne : m c' ≠ .done) :
    upd m c' v c = .done := by
  unfold upd; split
  · rename_i hx; subst hx; exact absurd hd hne
  · exact hd

theorem ne_of_st (m : Nat → LSt) (c c' : Nat) (hd : m c = .done) (hne : m c' ≠ .done) : (c' != c) = true := by
  simp only [bne_iff_ne, ne_eq]; intro hx; subst hx; exact hne hd

theorem feed_done (c : Nat) (m m1 : LM) (e : Ev) (hd : m.st c = .done) (hfe : feed m e = some m1) :
    m1.st c = .done ∧ okFor c e = true := by
  cases e with
  | bPendingOut c' d =>
    simp only [feed] at hfe; split at hfe
    · rename_i hc; cases hfe
      exact ⟨upd_done _ _ _ _ hd (by rw [hc.1]; decide), rfl⟩
    · cases hfe
  | bPendingIn c' d =>
    simp only [feed] at hfe; split at hfe
    · rename_i hc; cases hfe
      exact ⟨upd_done _ _ _ _ hd (by rw [hc.1]; decide), rfl⟩
    · cases hfe
  | bEstablished c' p o n f => simp only [feed] at hfe; split at hfe <;> cases hfe; exact ⟨hd, rfl⟩
  | bClosed c' p r e => simp only [feed] at hfe; split at hfe <;> cases hfe; exact ⟨hd, rfl⟩
  | bDialFailure c' p e => simp only [feed] at hfe; split at hfe <;> cases hfe; exact ⟨hd, rfl⟩
  | bListenFailure c' p e => simp only [feed] at hfe; split at hfe <;> cases hfe; exact ⟨hd, rfl⟩
  | sEstablished c' p o n f =>
    cases o <;> simp only [feed, Bool.false_eq_true, ↓reduceIte] at hfe <;> split at hfe
    · rename_i hc; cases hfe
      have hne : m.st c' ≠ .done := by rw [hc.2]; decide
      exact ⟨upd_done _ _ _ _ hd hne, ne_of_st _ _ _ hd hne⟩
    · cases hfe
    · rename_i hc; cases hfe
      have hne : m.st c' ≠ .done := by rw [hc.2]; decide
      exact ⟨upd_done _ _ _ _ hd hne, ne_of_st _ _ _ hd hne⟩
    · cases hfe
  | sClosed c' p n cause =>
    simp only [feed] at hfe; split at hfe
    · rename_i hc; cases hfe
      have hne : m.st c' ≠ .done := by rw [hc.2]; decide
      exact ⟨upd_done _ _ _ _ hd hne, ne_of_st _ _ _ hd hne⟩
    · cases hfe
  | sOutgoingError c' p e =>
    simp only [feed] at hfe; split at hfe
    · rename_i hc; cases hfe
      exact ⟨upd_done _ _ _ _ hd (by rw [hc.2]; decide), rfl⟩
    · cases hfe
  | sIncomingError c' p e =>
    simp only [feed] at hfe; split at hfe
    · rename_i hc; cases hfe
      exact ⟨upd_done _ _ _ _ hd (by rw [hc.2]; decide), rfl⟩
    · cases hfe
  | bEstIn c' d => cases hfe; exact ⟨hd, rfl⟩
  | bEstOut c' d => cases hfe; exact ⟨hd, rfl⟩
  | bNewListenAddr a => cases hfe; exact ⟨hd, rfl⟩
  | bExpiredListenAddr a => cases hfe; exact ⟨hd, rfl⟩
  | sIncoming c' => cases hfe; exact ⟨hd, rfl⟩
  | sDialing c' p => cases hfe; exact ⟨hd, rfl⟩
  | sNewListenAddr a => cases hfe; exact ⟨hd, rfl⟩
  | sExpiredListenAddr a => cases hfe; exact ⟨hd, rfl⟩
  | tdial a => cases hfe; exact ⟨hd, rfl⟩
  | muxClosed d k => cases hfe; exact ⟨hd, rfl⟩
  | other s => cases hfe; exact ⟨hd, rfl⟩

/-- in the life-cycle monitor `done` is absorbing, and an accepted trace contains no
ConnectionEstablished nor ConnectionClosed for a finished id -/
theorem done_absorbing (c : Nat) : ∀ (evs : List Ev) (m m' : LM), m.st c = .done →
    feedAll m evs = some m' → m'.st c = .done ∧ evs.all (okFor c) = true := by
  intro evs
  induction evs with
  | nil => intro m m' hd hf; simp only [feedAll, Option.some.injEq] at hf; subst hf; exact ⟨hd, rfl⟩
  | cons e t ih =>
    intro m m' hd hf
    simp only [feedAll] at hf
    cases hfe : feed m e with
    | none => simp [hfe] at hf
    | some m1 =>
      simp only [hfe, Option.bind_some] at hf
      obtain ⟨h1, h2⟩ := feed_done c m m1 e hd hfe
      obtain ⟨h3, h4⟩ := ih m1 m' h1 hf
      exact ⟨h3, by simp [h2, h4]⟩

theorem endStep_done (c : Nat) (m m' : LM) (hd : m.st c = .done) (h : endStep m = some m') : m'.st c = .done := by
  unfold endStep at h
  split at h
  · simp only [Option.some.injEq] at h; subst h; exact hd
  · split at h
    · simp only [Option.some.injEq] at h; subst h
      simp only [upd]; split <;> simp_all
    · cases h

/-- **Final for every continuation**: once an id is finished (in particular after a denial), no
later step — whatever the operations — reports it established or closed, and it stays finished. -/
theorem finished_stays_finished (c : Nat) : ∀ (ops : List Op) (s : State), Inv s → stOf s c = .done →
    stOf (ops.foldl (fun s o => (step s o).1) s) c = .done ∧
    (C02trace s ops).all (okFor c) = true := by
  intro ops
  induction ops with
  | nil => intro s _ hd; exact ⟨hd, rfl⟩
  | cons o os ih =>
    intro s h hd
    have hs := step_lifecycle s o h
    unfold StepOK at hs
    cases hfa : feedAll ⟨stOf s, none⟩ (step s o).2.2 with
    | none => simp [hfa] at hs
    | some m1 =>
      simp only [hfa, Option.bind_some] at hs
      obtain ⟨hd1, hno⟩ := done_absorbing c _ ⟨stOf s, none⟩ m1 hd hfa
      have hd2 : stOf (step s o).1 c = .done := by
        have := endStep_done c m1 _ hd1 hs
        exact this
      obtain ⟨h3, h4⟩ := ih (step s o).1 (step_inv s o h) hd2
      exact ⟨h3, by simp [C02trace, List.all_append, hno, h4]⟩

/-- non-vacuity: an established-outbound denial, then any later resolution of the same dial is a no-op -/
example :
    let s0 := State.init [[0], [1], [2]]
    let s1 := (step s0 (.dial false .always (some 2) [[.tcp 1], [.tcp 2]] false [] false [])).1
    let r := step s1 (.resolve 0 2 true)
    (r.2.2.any (fun e => match e with | .sEstablished .. => true | _ => false), stOf r.1 0,
     (step r.1 (.resolve 1 2 false)).2.2) = (false, .done, []) := by decide

end Swarm.C06

#print axioms Swarm.C06.denied_established_outbound
#print axioms Swarm.C06.denied_established_inbound
#print axioms Swarm.C06.denied_pending_inbound
#print axioms Swarm.C06.denied_pending_outbound
#print axioms Swarm.C06.done_absorbing
#print axioms Swarm.C06.finished_stays_finished
