import Libp2pModel.Model.C18
/-!
# C18 — property theorems
-/
namespace C18

/-- a recorded extension is never dropped by the loop -/
theorem extLoop_some_ne_none : ∀ (exts : List Ext) (a : Bytes × Bool), extLoop exts (some a) ≠ .ok none := by
  intro exts
  induction exts with
  | nil => intro a; simp [extLoop]
  | cons e rest ih =>
    intro a
    unfold extLoop
    by_cases hp : e.isP2p = true
    · simp [hp]
    · have hp' : e.isP2p = false := by simpa using hp
      by_cases hc : e.critical = true
      · simp [hp', hc]
      · have hc' : e.critical = false := by simpa using hc
        simp only [hp', hc', Bool.false_eq_true, false_and, ↓reduceIte]
        exact ih a

/-- the extension loop succeeds with `(p, s)` exactly when no unknown extension is critical and
the libp2p extension occurs exactly once (counting one already seen), with a decodable value -/
theorem extLoop_ok_iff : ∀ (exts : List Ext) (acc : Option (Bytes × Bool)) (p : Bytes) (s : Bool),
    extLoop exts acc = .ok (some (p, s)) ↔
      (exts.all fun e => e.isP2p || !e.critical) = true ∧
      ((acc = some (p, s) ∧ exts.filter (·.isP2p) = []) ∨
       (acc = none ∧ ∃ e, exts.filter (·.isP2p) = [e] ∧ e.val = .good p s)) := by
  intro exts
  induction exts with
  | nil => intro acc p s; cases acc <;> simp [extLoop]
  | cons e rest ih =>
    intro acc p s
    unfold extLoop
    by_cases hp : e.isP2p = true
    · have hfil : (e :: rest).filter (·.isP2p) = e :: rest.filter (·.isP2p) := by
        simp [hp]
      have hall : ((e :: rest).all fun e => e.isP2p || !e.critical) = (rest.all fun e => e.isP2p || !e.critical) := by
        simp [hp]
      rw [hfil, hall]
      cases acc with
      | some a => simp [hp]
      | none =>
        simp only [hp, Option.isSome_none, Bool.false_eq_true, and_false, ↓reduceIte]
        cases hv : e.val with
        | asn1Bad =>
          simp only [reduceCtorEq, false_and, List.cons.injEq, true_and, false_or, false_iff, not_and,
            not_exists]
          intro _ x hx; rw [← hx.1, hv]; simp
        | keyBad =>
          simp only [reduceCtorEq, false_and, List.cons.injEq, true_and, false_or, false_iff, not_and,
            not_exists]
          intro _ x hx; rw [← hx.1, hv]; simp
        | good p' s' =>
          rw [ih]
          constructor
          · rintro ⟨h1, h2⟩
            rcases h2 with ⟨heq, hf⟩ | ⟨hn, _⟩
            · simp only [Option.some.injEq, Prod.mk.injEq] at heq
              refine ⟨h1, Or.inr ⟨trivial, e, by rw [hf], ?_⟩⟩
              rw [hv, heq.1, heq.2]
            · simp at hn
          · rintro ⟨h1, h2⟩
            rcases h2 with ⟨heq, _⟩ | ⟨_, x, hx, hxv⟩
            · simp at heq
            · simp only [List.cons.injEq] at hx
              rw [← hx.1, hv] at hxv
              simp only [ExtVal.good.injEq] at hxv
              refine ⟨h1, Or.inl ⟨by rw [hxv.1, hxv.2], hx.2⟩⟩
    · have hp' : e.isP2p = false := by simpa using hp
      have hfil : (e :: rest).filter (·.isP2p) = rest.filter (·.isP2p) := by
        simp [hp']
      rw [hfil]
      by_cases hc : e.critical = true
      · simp [hp', hc]
      · have hc' : e.critical = false := by simpa using hc
        simp [hp', hc', ih]

theorem extLoop_none_iff : ∀ (exts : List Ext),
    extLoop exts none = .ok none ↔
      (exts.all fun e => e.isP2p || !e.critical) = true ∧ exts.filter (·.isP2p) = [] := by
  intro exts
  induction exts with
  | nil => simp [extLoop]
  | cons e rest ih =>
    unfold extLoop
    by_cases hp : e.isP2p = true
    · have hfil : (e :: rest).filter (·.isP2p) = e :: rest.filter (·.isP2p) := by
        simp [hp]
      rw [hfil]
      simp only [hp, Option.isSome_none, Bool.false_eq_true, and_false, ↓reduceIte, reduceCtorEq,
        iff_false]
      cases hv : e.val with
      | asn1Bad => simp
      | keyBad => simp
      | good p' s' => simp only; exact extLoop_some_ne_none rest _
    · have hp' : e.isP2p = false := by simpa using hp
      have hfil : (e :: rest).filter (·.isP2p) = rest.filter (·.isP2p) := by
        simp [hp']
      rw [hfil]
      by_cases hc : e.critical = true
      · simp [hp', hc]
      · have hc' : e.critical = false := by simpa using hc
        simp [hp', hc', ih]

theorem allowed_eq_ringSupported (s : Scheme) : allowedScheme s = ringSupported s := by
  cases s <;> rfl

theorem verify_ok_iff (c : CertFacts) (ext : Bytes × Bool) :
    verify c ext = .ok () ↔
      c.validNow = true ∧ ext.2 = true ∧
      ∃ s, schemeOf c.spki c.sigAlg = .ok s ∧ allowedScheme s = true ∧ c.ringVerifies s = true := by
  unfold verify
  cases hv : c.validNow with
  | false => simp
  | true =>
    simp only [Bool.not_true, Bool.false_eq_true, ↓reduceIte, true_and]
    cases hs : schemeOf c.spki c.sigAlg with
    | error e => simp
    | ok s =>
      simp only [Except.ok.injEq, exists_eq_left', allowed_eq_ringSupported]
      cases ringSupported s <;> cases c.ringVerifies s <;> cases ext.2 <;> simp

/-- **C18.accept_iff** — a certificate is accepted with peer id `pid` exactly when it parses,
carries exactly one libp2p extension, whose value decodes to a host key with peer id `pid` and
whose signature by that host key over the certificate key verifies; no other extension is
critical; it is currently valid; its (subject key algorithm, signature algorithm) pair maps to an
allowed signature scheme and the self-signature verifies under that scheme. -/
theorem accept_iff (c : CertFacts) (pid : Bytes) :
    accept c = .ok pid ↔
      c.parseOk = true ∧
      (∃ e, p2pExts c = [e] ∧ e.val = .good pid true) ∧
      noUnknownCritical c = true ∧
      c.validNow = true ∧
      ∃ s, schemeOf c.spki c.sigAlg = .ok s ∧ allowedScheme s = true ∧ c.ringVerifies s = true := by
  unfold accept parseUnverified p2pExts noUnknownCritical
  cases hp : c.parseOk with
  | false => simp
  | true =>
    simp only [Bool.not_true, Bool.false_eq_true, ↓reduceIte, true_and]
    cases hl : extLoop c.exts none with
    | error e =>
      simp only [reduceCtorEq, false_iff, not_and]
      intro ⟨e1, hf, hv⟩ hall
      have := (extLoop_ok_iff c.exts none pid true).2 ⟨hall, Or.inr ⟨rfl, e1, hf, hv⟩⟩
      rw [hl] at this; simp at this
    | ok r =>
      cases r with
      | none =>
        simp only [reduceCtorEq, false_iff, not_and]
        intro ⟨e1, hf, hv⟩
        have := (extLoop_none_iff c.exts).1 hl
        rw [this.2] at hf; simp at hf
      | some x =>
        obtain ⟨p, s⟩ := x
        have hchar := (extLoop_ok_iff c.exts none p s).1 hl
        simp only [reduceCtorEq, false_and, true_and, false_or] at hchar
        obtain ⟨hall, e1, hf, hv⟩ := hchar
        simp only
        cases hver : verify c (p, s) with
        | error e =>
          simp only [reduceCtorEq, false_iff, not_and]
          intro ⟨e2, hf2, hv2⟩ _ hvalid hsch
          rw [hf] at hf2
          simp only [List.cons.injEq, and_true] at hf2
          rw [← hf2, hv] at hv2
          simp only [ExtVal.good.injEq] at hv2
          have := (verify_ok_iff c (p, s)).2 ⟨hvalid, hv2.2, hsch⟩
          rw [hver] at this; simp at this
        | ok u =>
          have hvo := (verify_ok_iff c (p, s)).1 hver
          simp only at hvo
          simp only [Except.ok.injEq]
          constructor
          · rintro rfl
            refine ⟨⟨e1, hf, ?_⟩, hall, hvo.1, hvo.2.2⟩
            rw [hv, hvo.2.1]
          · rintro ⟨⟨e2, hf2, hv2⟩, _⟩
            rw [hf] at hf2
            simp only [List.cons.injEq, and_true] at hf2
            rw [← hf2, hv] at hv2
            simp only [ExtVal.good.injEq] at hv2
            exact hv2.1

/-- the executable predicate used as Spec is the right-hand side of `accept_iff` -/
theorem acceptable_iff (c : CertFacts) (pid : Bytes) :
    acceptable c pid = true ↔ accept c = .ok pid := by
  rw [accept_iff]
  unfold acceptable
  simp only [Bool.and_eq_true]
  constructor
  · rintro ⟨⟨⟨⟨h1, h2⟩, h3⟩, h4⟩, h5⟩
    refine ⟨h1, ?_, h2, h3, ?_⟩
    · split at h4
      · rename_i e he; exact ⟨e, he, by simpa using h4⟩
      · simp at h4
    · split at h5
      · rename_i s hs; simp only [Bool.and_eq_true] at h5; exact ⟨s, hs, h5.1, h5.2⟩
      · simp at h5
  · rintro ⟨h1, ⟨e, he, hv⟩, h2, h3, s, hs, ha, hr⟩
    refine ⟨⟨⟨⟨h1, h2⟩, h3⟩, ?_⟩, ?_⟩
    · rw [he]; simp [hv]
    · rw [hs]; simp [ha, hr]

/-- the Spec accepts the model's verdict … -/
theorem spec_accept (c : CertFacts) : spec c none (accept c) = true := by
  unfold spec
  cases h : accept c with
  | error e => rfl
  | ok pid => simp [(acceptable_iff c pid).2 h]

/-- … and accepts an `Ok(pid)` verdict only if the model accepts with the same peer id -/
theorem spec_sound (c : CertFacts) (orig : Option Bytes) (pid : Bytes)
    (h : spec c orig (.ok pid) = true) : accept c = .ok pid := by
  unfold spec at h
  simp only [Bool.and_eq_true] at h
  exact (acceptable_iff c pid).1 h.1

/-- **C18.binding** — the peer id of an accepted certificate is the id of a host key (the one in
its only libp2p extension) whose signature over this certificate's public key verifies.  (Under
EUF-CMA of the host key's scheme — trusted — only the holder of that key can have produced it.) -/
theorem binding (c : CertFacts) (pid : Bytes) (h : accept c = .ok pid) :
    ∃ e ∈ c.exts, e.isP2p = true ∧ e.val = .good pid true ∧
      ∀ e' ∈ c.exts, e'.isP2p = true → e'.val = .good pid true := by
  obtain ⟨_, ⟨e, hf, hv⟩, _⟩ := (accept_iff c pid).1 h
  have hmem : ∀ x, x ∈ c.exts ∧ x.isP2p = true ↔ x = e := by
    intro x
    have : x ∈ p2pExts c ↔ x = e := by rw [hf]; simp
    rw [← this]; simp [p2pExts, List.mem_filter]
  have he := (hmem e).2 rfl
  refine ⟨e, he.1, he.2, hv, ?_⟩
  intro e' h1 h2
  rw [(hmem e').1 ⟨h1, h2⟩]; exact hv

/-- **C18.scheme_table** — the (subject key algorithm, signature algorithm) → scheme table,
exhaustively: RSA keys with SHA-256/384/512 PKCS#1 or PSS; P-256/384/521 with the matching ECDSA
hash; Ed25519/Ed448 by signature OID for non-EC keys.  Nothing else maps to a scheme (so no SHA-1
or MD5 signature algorithm — all of which are `SigAlg.other` or PSS with another hash — ever
does), and P-521 / Ed448 are not `allowedScheme`. -/
theorem scheme_table (spki : SpkiAlg) (sig : SigAlg) (s : Scheme) :
    schemeOf spki sig = .ok s ↔
      (spki = .rsa ∧ sig = .sha256Rsa ∧ s = .rsaPkcs1Sha256) ∨
      (spki = .rsa ∧ sig = .sha384Rsa ∧ s = .rsaPkcs1Sha384) ∨
      (spki = .rsa ∧ sig = .sha512Rsa ∧ s = .rsaPkcs1Sha512) ∨
      (spki = .rsa ∧ sig = .rsaPss .sha256 ∧ s = .rsaPssSha256) ∨
      (spki = .rsa ∧ sig = .rsaPss .sha384 ∧ s = .rsaPssSha384) ∨
      (spki = .rsa ∧ sig = .rsaPss .sha512 ∧ s = .rsaPssSha512) ∨
      (spki = .ec .p256 ∧ sig = .ecdsaSha256 ∧ s = .ecdsaP256Sha256) ∨
      (spki = .ec .p384 ∧ sig = .ecdsaSha384 ∧ s = .ecdsaP384Sha384) ∨
      (spki = .ec .p521 ∧ sig = .ecdsaSha512 ∧ s = .ecdsaP521Sha512) ∨
      ((spki = .rsa ∨ spki = .other) ∧ sig = .ed25519 ∧ s = .ed25519) ∨
      ((spki = .rsa ∨ spki = .other) ∧ sig = .ed448 ∧ s = .ed448) := by
  cases spki with
  | rsa => cases sig with
    | rsaPss h => cases h <;> cases s <;> simp [schemeOf]
    | _ => cases s <;> simp [schemeOf]
  | other => cases sig <;> cases s <;> simp [schemeOf]
  | ec p => cases p <;> cases sig <;> cases s <;> simp [schemeOf]

theorem scheme_no_p521_ed448 (c : CertFacts) (pid : Bytes) (h : accept c = .ok pid) :
    schemeOf c.spki c.sigAlg ≠ .ok .ecdsaP521Sha512 ∧ schemeOf c.spki c.sigAlg ≠ .ok .ed448 := by
  obtain ⟨_, _, _, _, s, hs, ha, _⟩ := (accept_iff c pid).1 h
  rw [hs]
  constructor <;> (intro heq; simp only [Except.ok.injEq] at heq; subst heq; simp [allowedScheme] at ha)

/-! non-vacuity -/

def sampleGood : CertFacts :=
  { parseOk := true, exts := [⟨false, false, .asn1Bad⟩, ⟨true, true, .good [1, 2] true⟩], validNow := true,
    spki := .ec .p256, sigAlg := .ecdsaSha256, ringVerifies := fun s => s == .ecdsaP256Sha256 }

example : accept sampleGood = .ok [1, 2] := by rfl
example : accept { sampleGood with exts := sampleGood.exts ++ [⟨true, true, .good [1, 2] true⟩] } = .error .badDer := by rfl
example : accept { sampleGood with exts := ⟨false, true, .asn1Bad⟩ :: sampleGood.exts } = .error .unsupportedCriticalExtension := by rfl
example : accept { sampleGood with validNow := false } = .error .invalidCertValidity := by rfl
example : accept { sampleGood with exts := [⟨true, true, .good [1, 2] false⟩] } = .error .unknownIssuer := by rfl
example : accept { sampleGood with spki := .ec .p521, sigAlg := .ecdsaSha512, ringVerifies := fun _ => true } = .error .signatureAlgorithmMismatch := by rfl

end C18

#print axioms C18.accept_iff
#print axioms C18.acceptable_iff
#print axioms C18.spec_accept
#print axioms C18.spec_sound
#print axioms C18.binding
#print axioms C18.scheme_table
#print axioms C18.scheme_no_p521_ed448
