import Libp2pModel.Proofs.C27Term
/-!
# C27 — a published gossipsub message is delivered once to every subscriber

Theorems about the network model `Model/C27.lean`, for EVERY configuration (any number of nodes,
any forwarding sets, any publish recipients, any `message.source`, any subset of nodes running with
`validate_messages`) and EVERY schedule: a schedule is an arbitrary list of `Op`s — receptions
`recv u v` and application verdicts `verdict v Accept|Reject|Ignore` in any interleaving.

* `at_most_once`     each node's application receives the id at most once; the publisher never.
* `no_echo`          (temporal, over the chronological history of receptions and sends) no node ever
                     sends the message to a peer from which it has received it before that send —
                     first sender and every duplicate sender during the validation window alike;
                     `no_echo_decomp` is the same statement in "prefix" form.
* `no_echo_source`   nobody ever sends the message to `message.source`.
* `self_origin_never` the `RejectReason::SelfOrigin` branch of `message_is_valid` is never taken.
* `at_least_once`    if `message.source` is absent or the publisher and no application rejected or
                     ignored the message, then in every quiescent reachable state (nothing in
                     flight, nothing awaiting a verdict) every node reachable from the publisher in
                     the directed graph "u forwards to v" has been delivered the message once.
* `delivered_iff_reach` the set of nodes delivered to at quiescence is schedule independent.
* `termination` / `quiescence` every schedule has at most `mu` effective steps and can be
                     completed (deliver what is in flight, accept what is held) to quiescence.
* `exactly_once`     the conjunction, in the form of the property statement;
                     `exactly_once_of_connected_overlay` restates the premise as "the overlay of
                     forwarding sets connects the publisher to every node".
* `spec_accepts_model` the executable Spec used on the implementation accepts every model trace.
-/
namespace C27

/-- number of times `v`'s application received the message -/
def deliveries (s : State) (v : Node) : Nat :=
  (s.delivered.filter fun d => d.1 == v).length

theorem deliveries_le_one {d : List (Node × Node)} (hn : (d.map Prod.fst).Nodup) (v : Node) :
    (d.filter fun x => x.1 == v).length ≤ 1 ∧
    (v ∉ d.map Prod.fst → (d.filter fun x => x.1 == v).length = 0) ∧
    (v ∈ d.map Prod.fst → (d.filter fun x => x.1 == v).length = 1) := by
  induction d with
  | nil => simp
  | cons x d ih =>
    simp only [List.map_cons, List.nodup_cons] at hn
    obtain ⟨i1, i2, i3⟩ := ih hn.2
    by_cases hx : x.1 = v
    · have hv : v ∉ d.map Prod.fst := hx ▸ hn.1
      have h0 := i2 hv
      have hb : (x.1 == v) = true := by simpa using hx
      have hlen : ((x :: d).filter fun y => y.1 == v).length = 1 := by
        simp only [List.filter_cons, hb, if_true, List.length_cons, h0]
      rw [hlen]
      refine ⟨Nat.le_refl _, fun h => ?_, fun _ => rfl⟩
      exact absurd (by simp only [List.map_cons, List.mem_cons]; exact Or.inl hx.symm) h
    · have hb : (x.1 == v) = false := by simpa using hx
      simp only [List.filter_cons, hb, List.map_cons, List.mem_cons]
      refine ⟨i1, fun h => i2 (fun h' => h (Or.inr h')), fun h => i3 ?_⟩
      rcases h with h | h
      · exact absurd h.symm hx
      · exact h

/-- **At most once**: under every schedule each node's application receives the message id at most
once (while the id is in its duplicate cache — the model never expires it), and the publisher's
application never receives it. -/
theorem at_most_once (cfg : Cfg) (sched : List Op) :
    (∀ v, deliveries (run cfg sched) v ≤ 1) ∧ deliveries (run cfg sched) cfg.pub = 0 := by
  have hi := inv_run cfg sched
  exact ⟨fun v => (deliveries_le_one hi.del_nodup v).1,
    (deliveries_le_one hi.del_nodup cfg.pub).2.1 hi.pub_not_del⟩

theorem echo_run (cfg : Cfg) (hn : NoSelf cfg) (sched : List Op) :
    Inv cfg (run cfg sched) ∧ Echo cfg (run cfg sched) :=
  Machine.invariant_of_step (step cfg) (fun s => Inv cfg s ∧ Echo cfg s)
    (fun _ op h => ⟨inv_step op h.1, echo_step hn op h.1 h.2⟩) sched (publish cfg)
    ⟨inv_publish cfg, echo_publish cfg⟩

/-- **No echo** (strengthened, temporal): for every schedule — arbitrary interleaving of first
receipts, duplicates and validation verdicts — scanning the chronological history of the run, no
send `v → w` happens after a reception `v ← w`: a node never sends the message to any peer from
which it has received it before the send, including the senders of duplicates that arrived while
the message was awaiting the application's verdict. (`NoSelf`: a node is not its own peer.) -/
theorem no_echo (cfg : Cfg) (hn : NoSelf cfg) (sched : List Op) :
    noEcho [] (run cfg sched).hist :=
  (echo_run cfg hn sched).2.ne

/-- the same in prefix form: whenever the history splits around a send `v → w`, the part before
it contains no reception of `v` from `w` -/
theorem no_echo_decomp (cfg : Cfg) (hn : NoSelf cfg) (sched : List Op)
    (pre post : List Ev) (v w : Node)
    (h : (run cfg sched).hist = pre ++ Ev.sent v w :: post) : Ev.recvd v w ∉ pre := by
  have hne := no_echo cfg hn sched
  rw [h, noEcho_append] at hne
  have h2 := hne.2
  simp only [noEcho, List.append_nil, List.mem_reverse] at h2
  intro hmem
  apply h2.1
  clear h hne h2
  induction pre with
  | nil => cases hmem
  | cons e pre ih =>
    rcases List.mem_cons.1 hmem with rfl | hm
    · simp [rcvdOf]
    · cases e with
      | recvd a b => simp only [rcvdOf, List.mem_cons]; exact Or.inr (ih hm)
      | sent a b => simpa [rcvdOf] using ih hm

/-- every send is accounted for in the history (so `no_echo` speaks about all of them) -/
theorem sent_in_hist (cfg : Cfg) (sched : List Op) :
    ∀ a b, (a, b) ∈ (run cfg sched).sent → Ev.sent a b ∈ (run cfg sched).hist := by
  have := Machine.invariant_of_step (step cfg)
    (fun s => ∀ a b, (a, b) ∈ s.sent → Ev.sent a b ∈ s.hist)
    (by
      intro s op hs
      cases op with
      | recv u v =>
        simp only [step]
        rcases recv_cases cfg s u v with ⟨_, e⟩ | ⟨_, _, e⟩ | ⟨_, _, _, e⟩ | ⟨_, _, _, _, e⟩ |
          ⟨_, _, _, e⟩
        · rw [e]; exact hs
        · rw [e]; intro a b h; exact List.mem_append_left _ (hs a b h)
        · rw [e]; intro a b h; exact List.mem_append_left _ (hs a b h)
        · rw [e]; intro a b h; exact List.mem_append_left _ (hs a b h)
        · rw [e]; intro a b h
          rcases List.mem_append.1 h with h | h
          · exact List.mem_append_left _ (List.mem_append_left _ (hs a b h))
          · simp only [List.mem_map, Prod.mk.injEq] at h
            obtain ⟨p, hp, rfl, rfl⟩ := h
            exact List.mem_append_right _ (List.mem_map.2 ⟨_, hp, rfl⟩)
      | verdict v a =>
        simp only [step]
        rcases verdict_cases cfg s v a with ⟨_, e⟩ | ⟨u, orig, _, _, e⟩ | ⟨u, orig, _, _, e⟩
        · rw [e]; exact hs
        · rw [e]; intro a' b h
          rcases List.mem_append.1 h with h | h
          · exact List.mem_append_left _ (hs a' b h)
          · simp only [List.mem_map, Prod.mk.injEq] at h
            obtain ⟨p, hp, rfl, rfl⟩ := h
            exact List.mem_append_right _ (List.mem_map.2 ⟨_, hp, rfl⟩)
        · rw [e]; exact hs)
    sched (publish cfg)
    (by
      intro a b h
      simp only [publish, List.mem_map, Prod.mk.injEq] at h ⊢
      obtain ⟨p, hp, rfl, rfl⟩ := h
      exact ⟨_, hp, rfl⟩)
  exact this

theorem specPub_none {cfg : Cfg} (h : specPub cfg = none) :
    cfg.pub ∉ cfg.recips ∧ ∀ x, cfg.source = some x → x ∉ cfg.recips := by
  unfold specPub at h
  by_cases h1 : cfg.recips.contains cfg.pub = true
  · rw [if_pos h1] at h; cases h
  · rw [if_neg h1] at h
    have hp : cfg.pub ∉ cfg.recips := by simpa using h1
    refine ⟨hp, ?_⟩
    intro x hx hxr
    rw [hx] at h
    by_cases hxp : x = cfg.pub
    · exact hp (hxp ▸ hxr)
    · have : (x != cfg.pub && cfg.recips.contains x) = true := by simp [hxp, hxr]
      simp only [this, if_true] at h
      cases h

/-- when the publisher's own recipient set avoids the source (always true for a signing node:
source = itself, and a node is not its own peer), nobody ever sends the message to its source -/
theorem no_echo_source (cfg : Cfg) (hp : specPub cfg = none) (sched : List Op) :
    ∀ v x, cfg.source = some x → (v, x) ∉ (run cfg sched).sent := by
  intro v x hx hs
  have hi := inv_run cfg sched
  rcases hi.sent_src v x hs with ⟨_, hr⟩ | ⟨u', _, hr⟩
  · exact (specPub_none hp).2 x hx hr
  · exact (mem_recipients.1 hr).2.2 hx.symm

/-- the `SelfOrigin` rejection (a scoring penalty for the sender) is never triggered -/
theorem self_origin_never (cfg : Cfg) (hp : specPub cfg = none) (sched : List Op) :
    Out.selfOrigin ∉ outs cfg sched := by
  intro hmem
  have := Machine.outputs_of_step (step cfg) (Inv cfg) (fun o => o ≠ Out.selfOrigin)
    (fun _ op h => inv_step op h)
    (by
      intro s op hi
      cases op with
      | recv u v =>
        simp only [step]
        rcases recv_cases cfg s u v with ⟨_, e⟩ | ⟨hf, ⟨hso, _⟩, e⟩ | ⟨_, _, _, e⟩ |
          ⟨_, _, _, _, e⟩ | ⟨_, _, _, e⟩
        · rw [e]; intro h; cases h
        · exfalso
          rcases hi.sent_src u v (hi.flight_sent _ hf) with ⟨_, hr⟩ | ⟨u', _, hr⟩
          · exact (specPub_none hp).2 v hso hr
          · exact (mem_recipients.1 hr).2.2 hso.symm
        · rw [e]; intro h; cases h
        · rw [e]; intro h; cases h
        · rw [e]; intro h; cases h
      | verdict v a =>
        simp only [step]
        rcases verdict_cases cfg s v a with ⟨_, e⟩ | ⟨u, orig, _, _, e⟩ | ⟨u, orig, _, _, e⟩
        · rw [e]; intro h; cases h
        · rw [e]; intro h; cases h
        · rw [e]; intro h; cases h)
    sched (publish cfg) (inv_publish cfg) _ hmem
  exact this rfl

theorem clo_run (cfg : Cfg) (hsrc : sourceOk cfg = true) (sched : List Op) :
    Clo cfg (run cfg sched) := by
  have := Machine.invariant_of_step (step cfg) (fun s => Inv cfg s ∧ Clo cfg s)
    (by
      intro s op h
      refine ⟨inv_step op h.1, ?_⟩
      cases op with
      | recv u v => exact clo_recv hsrc (u, v) h.1 h.2
      | verdict v a => exact clo_verdict hsrc v a h.1 h.2)
    sched (publish cfg) ⟨inv_publish cfg, clo_publish cfg⟩
  exact this.2

/-- **At least once**: if `message.source` is absent or the publisher itself and no application
rejected / ignored the message, then in every quiescent reachable state (no copy in flight, no
message awaiting a verdict), every node reachable from the publisher in the directed graph
"u forwards to v" other than the publisher has been delivered the message — exactly once. -/
theorem at_least_once (cfg : Cfg) (hsrc : sourceOk cfg = true) (sched : List Op)
    (hq : (run cfg sched).quiescent) (hd : (run cfg sched).dropped = [])
    (v : Node) (hr : Reach cfg v) (hv : v ≠ cfg.pub) :
    deliveries (run cfg sched) v = 1 := by
  have hi := inv_run cfg sched
  have hseen := reach_seen_of_quiescent (clo_run cfg hsrc sched) hi hq.1 hq.2 hd hr
  rcases hi.seen_del v hseen with h | h
  · exact absurd h hv
  · exact (deliveries_le_one hi.del_nodup v).2.2 h

/-- only reachable nodes ever see the message -/
theorem seen_reach (cfg : Cfg) (sched : List Op) :
    ∀ a ∈ (run cfg sched).seen, Reach cfg a := by
  have := Machine.invariant_of_step (step cfg) (fun s => Inv cfg s ∧ ∀ a ∈ s.seen, Reach cfg a)
    (by
      intro s op ⟨hi, hr⟩
      refine ⟨inv_step op hi, ?_⟩
      have hnew : ∀ u v, (u, v) ∈ s.flight → Reach cfg v := by
        intro u v hf
        have hu := hr u (hi.flight_seen hf)
        refine Reach.step hu ?_
        unfold Edge edges
        rcases hi.sent_src u v (hi.flight_sent _ hf) with ⟨hup, hb⟩ | ⟨w, hw, hb⟩
        · rw [if_pos hup]; exact hb
        · have hup : u ≠ cfg.pub :=
            fun h => hi.pub_not_del (h ▸ List.mem_map.2 ⟨(u, w), hw, rfl⟩)
          rw [if_neg hup]; exact (mem_recipients.1 hb).1
      cases op with
      | recv u v =>
        simp only [step]
        rcases recv_cases cfg s u v with ⟨_, e⟩ | ⟨_, _, e⟩ | ⟨_, _, _, e⟩ | ⟨hf, _, _, _, e⟩ |
          ⟨hf, _, _, e⟩
        · rw [e]; exact hr
        · rw [e]; exact hr
        · rw [e]; exact hr
        · rw [e]
          intro a ha
          rcases List.mem_cons.1 ha with rfl | ha
          · exact hnew u a hf
          · exact hr a ha
        · rw [e]
          intro a ha
          rcases List.mem_cons.1 ha with rfl | ha
          · exact hnew u a hf
          · exact hr a ha
      | verdict v a =>
        simp only [step]
        rcases verdict_cases cfg s v a with ⟨_, e⟩ | ⟨u, orig, _, _, e⟩ | ⟨u, orig, _, _, e⟩
        · rw [e]; exact hr
        · rw [e]; exact hr
        · rw [e]; exact hr)
    sched (publish cfg)
    ⟨inv_publish cfg, by intro a ha; simp [publish] at ha; subst ha; exact Reach.pub⟩
  exact this.2

/-- **Schedule independence**: at quiescence (and when nobody rejected the message) the set of
nodes the message was delivered to is exactly the set of nodes reachable from the publisher (minus
the publisher), whatever the interleaving of receptions and verdicts was. -/
theorem delivered_iff_reach (cfg : Cfg) (hsrc : sourceOk cfg = true) (sched : List Op)
    (hq : (run cfg sched).quiescent) (hd : (run cfg sched).dropped = []) (v : Node) :
    deliveries (run cfg sched) v = 1 ↔ (Reach cfg v ∧ v ≠ cfg.pub) := by
  have hi := inv_run cfg sched
  constructor
  · intro h
    have hmem : v ∈ (run cfg sched).delivered.map Prod.fst := by
      apply Classical.byContradiction
      intro hn
      have := (deliveries_le_one hi.del_nodup v).2.1 hn
      unfold deliveries at h
      omega
    exact ⟨seen_reach cfg sched v (hi.del_seen v hmem), fun hv => hi.pub_not_del (hv ▸ hmem)⟩
  · intro ⟨hr, hv⟩
    exact at_least_once cfg hsrc sched hq hd v hr hv

/-- **Termination measure**: under every schedule the number of effective steps (receptions of a
copy in flight, verdicts on a held message) is bounded by `mu` of the state right after `publish`
= `|recipients| + Σ_{v unseen} (|fwd v| + 1)`. -/
theorem termination (cfg : Cfg) (hw : WF cfg) (sched : List Op) :
    effCount (outs cfg sched) ≤ mu cfg (publish cfg) := by
  have := eff_bound hw sched (publish cfg) (inv_publish cfg)
  unfold outs
  omega

/-- every reachable state can be completed to a quiescent one in at most `mu` further steps
without rejecting anything (so the hypotheses of `at_least_once` are satisfiable after any
prefix) -/
theorem quiescence (cfg : Cfg) (hw : WF cfg) (sched : List Op) :
    ∃ more, more.length ≤ mu cfg (publish cfg) ∧ (run cfg (sched ++ more)).quiescent ∧
      (run cfg (sched ++ more)).dropped = (run cfg sched).dropped := by
  have hb := eff_bound hw sched (publish cfg) (inv_publish cfg)
  obtain ⟨more, hl, hq, hq2, hq3⟩ := quiescence_reachable hw (mu cfg (publish cfg)) (run cfg sched)
    (inv_run cfg sched) (by unfold run; omega)
  refine ⟨more, hl, ?_, ?_⟩
  · unfold State.quiescent run Machine.exec at *
    rw [List.foldl_append]
    exact ⟨hq, hq2⟩
  · unfold run Machine.exec at *
    rw [List.foldl_append]
    exact hq3

/-- the property statement on the model: in a network where every node is reachable from the
publisher through forwarding sets, once nothing is in flight or awaiting a verdict (and nobody
rejected the message) every node other than the publisher got the message exactly once, the
publisher did not, no node ever sent it to a peer it had received it from before, and nobody sent
it to the message's source. -/
def full_statement : Prop :=
  ∀ (cfg : Cfg) (sched : List Op),
    sourceOk cfg = true → specPub cfg = none → NoSelf cfg → (∀ v ∈ cfg.nodes, Reach cfg v) →
    (run cfg sched).quiescent → (run cfg sched).dropped = [] →
    (∀ v ∈ cfg.nodes, v ≠ cfg.pub → deliveries (run cfg sched) v = 1) ∧
    deliveries (run cfg sched) cfg.pub = 0 ∧
    noEcho [] (run cfg sched).hist ∧
    (∀ v x, cfg.source = some x → (v, x) ∉ (run cfg sched).sent)

theorem exactly_once : full_statement := by
  intro cfg sched hsrc hp hn hreach hq hd
  exact ⟨fun v hv hne => at_least_once cfg hsrc sched hq hd v (hreach v hv) hne,
    (at_most_once cfg sched).2, no_echo cfg hn sched, no_echo_source cfg hp sched⟩

/-- reachable from the publisher along forwarding sets only (the mesh overlay) -/
inductive MeshReach (cfg : Cfg) : Node → Prop
  | pub : MeshReach cfg cfg.pub
  | step {a b : Node} : MeshReach cfg a → b ∈ cfg.fwd a → MeshReach cfg b

/-- the reachability premise in overlay terms: when the publisher sends at least to its own
forwarding set (`filter_publish_candidates` always includes the mesh and explicit peers), every
node connected to the publisher through the overlay of forwarding sets is reachable. -/
theorem reach_of_meshReach (cfg : Cfg) (hpub : ∀ b ∈ cfg.fwd cfg.pub, b ∈ cfg.recips)
    {v : Node} (h : MeshReach cfg v) : Reach cfg v := by
  induction h with
  | pub => exact Reach.pub
  | @step a b _ hb ih =>
    refine Reach.step ih ?_
    unfold Edge edges
    by_cases hap : a = cfg.pub
    · rw [if_pos hap]; exact hpub b (hap ▸ hb)
    · rw [if_neg hap]; exact hb

/-- **The property in overlay terms**: if the overlay of forwarding sets connects the publisher to
every node and the publisher sends at least to its own forwarding set, then at quiescence every
other node got the message exactly once and the publisher did not. -/
theorem exactly_once_of_connected_overlay (cfg : Cfg) (sched : List Op)
    (hsrc : sourceOk cfg = true) (hpub : ∀ b ∈ cfg.fwd cfg.pub, b ∈ cfg.recips)
    (hconn : ∀ v ∈ cfg.nodes, MeshReach cfg v) (hq : (run cfg sched).quiescent)
    (hd : (run cfg sched).dropped = []) :
    (∀ v ∈ cfg.nodes, v ≠ cfg.pub → deliveries (run cfg sched) v = 1) ∧
    deliveries (run cfg sched) cfg.pub = 0 :=
  ⟨fun v hv hne =>
      at_least_once cfg hsrc sched hq hd v (reach_of_meshReach cfg hpub (hconn v hv)) hne,
    (at_most_once cfg sched).2⟩

/-- **Spec link**: the executable Spec evaluated on the implementation's outputs accepts every
trace of the model: the per-step monitor (at-most-once, never to the publisher, no send to any
peer a copy was received from, never to the source) under every schedule, and the quiescence
clause in every quiescent state. -/
theorem spec_accepts_model (cfg : Cfg) (hn : NoSelf cfg) (sched : List Op) :
    monitor cfg (trace cfg (publish cfg) sched) {} = none ∧
    ((run cfg sched).quiescent →
      specQuiet cfg ((run cfg sched).dropped.isEmpty)
        ((run cfg sched).delivered.map Prod.fst) = none) := by
  refine ⟨?_, ?_⟩
  · have := monitor_model hn sched (publish cfg) (inv_publish cfg) (echo_publish cfg)
    simpa [monOf, publish, rcvdOf_sends] using this
  intro hq
  have hi := inv_run cfg sched
  unfold specQuiet
  rw [if_neg (by simpa using (nodupB_iff _).2 hi.del_nodup),
    if_neg (by simpa using hi.pub_not_del)]
  by_cases hpre : (premise cfg && sourceOk cfg && (run cfg sched).dropped.isEmpty) = true
  · simp only [Bool.and_eq_true] at hpre
    obtain ⟨⟨hp, hs⟩, hdr⟩ := hpre
    have hd : (run cfg sched).dropped = [] := by simpa using hdr
    have hall : (cfg.nodes.all fun v =>
        v == cfg.pub || ((run cfg sched).delivered.map Prod.fst).contains v) = true := by
      rw [List.all_eq_true]
      intro v hv
      by_cases hvp : v = cfg.pub
      · simp [hvp]
      · have h1 := at_least_once cfg hs sched hq hd v (premise_reach hp v hv) hvp
        have hmem : v ∈ (run cfg sched).delivered.map Prod.fst := by
          apply Classical.byContradiction
          intro hn'
          have := (deliveries_le_one hi.del_nodup v).2.1 hn'
          unfold deliveries at h1
          omega
        simp only [Bool.or_eq_true, List.contains_iff_mem]
        exact Or.inr hmem
    rw [hall]; simp
  · have : (premise cfg && sourceOk cfg && (run cfg sched).dropped.isEmpty) = false := by
      simpa using hpre
    rw [this]; simp

/-! ## non-vacuity: a 5-node network (ring 0-1-2-3-4-0 plus chord 1-3), publisher 0 -/

def exCfg : Cfg where
  nodes := [0, 1, 2, 3, 4]
  fwd := fun
    | 0 => [1, 4]
    | 1 => [0, 2, 3]
    | 2 => [1, 3]
    | 3 => [1, 2, 4]
    | 4 => [3, 0]
    | _ => []
  pub := 0
  recips := [1, 4]
  source := some 0

example : premise exCfg = true := by decide
example : sourceOk exCfg = true := by decide
example : specPub exCfg = none := by decide
/-- a schedule with duplicates (3 receives from 1 first, then again from 4 and 2) reaching quiescence -/
def exSched : List Op :=
  [.recv 0 1, .recv 1 3, .recv 0 4, .recv 4 3, .recv 1 2, .recv 3 2, .recv 3 4, .recv 2 3]
example : (run exCfg exSched).flight = [] ∧ (run exCfg exSched).held = [] := by decide
example : outs exCfg exSched =
    [.first [2, 3], .first [2, 4], .first [3], .dup, .first [3], .dup, .dup, .dup] := by decide
example : ∀ v ∈ exCfg.nodes, v ≠ exCfg.pub → deliveries (run exCfg exSched) v = 1 := by decide
/-- the anonymous-source variant: copies do travel back to the publisher and are ignored there -/
example : outs { exCfg with source := none } [.recv 0 4, .recv 4 3, .recv 3 1, .recv 1 0]
    = [.first [3], .first [1, 2], .first [0, 2], .dup] := by decide

/-- validation mode: node 3 holds the copy from 1, receives duplicates from 4 and 2 while its
application is deciding, and on Accept forwards to NOBODY (1, 2 and 4 all sent it a copy); with
`originating_peers` lost (the seed mutation) it would forward to 2 and 4. -/
def exVal : Cfg := { exCfg with validate := fun v => v == 3 }
def exValSched : List Op :=
  [.recv 0 1, .recv 1 3, .recv 0 4, .recv 4 3, .recv 1 2, .recv 2 3, .verdict 3 .accept]
example : outs exVal exValSched =
    [.first [2, 3], .hold, .first [3], .dup, .first [3], .dup, .forwarded []] := by decide
example : recipientsV exVal 3 1 [] = [2, 4] := by decide
example : (run exVal exValSched).flight = [] ∧ (run exVal exValSched).held = [] := by decide
/-- an early Accept forwards to the peers that have not sent a copy yet; Reject forwards nothing -/
example : outs exVal [.recv 0 1, .recv 1 3, .verdict 3 .accept, .verdict 3 .accept]
    = [.first [2, 3], .hold, .forwarded [2, 4], .noheld] := by decide
example : outs exVal [.recv 0 1, .recv 1 3, .verdict 3 .reject]
    = [.first [2, 3], .hold, .dropped] := by decide

end C27

#print axioms C27.at_most_once
#print axioms C27.no_echo
#print axioms C27.no_echo_decomp
#print axioms C27.sent_in_hist
#print axioms C27.no_echo_source
#print axioms C27.self_origin_never
#print axioms C27.at_least_once
#print axioms C27.delivered_iff_reach
#print axioms C27.termination
#print axioms C27.quiescence
#print axioms C27.exactly_once
#print axioms C27.exactly_once_of_connected_overlay
#print axioms C27.spec_accepts_model
