import Libp2pModel.Proofs.C27Term
/-!
# C27 — a published gossipsub message is delivered once to every subscriber

Theorems about the network model `Model/C27.lean`, for EVERY configuration (any number of nodes,
any forwarding sets, any publish recipients, any `message.source`) and EVERY schedule (any
interleaving of receptions — a schedule is an arbitrary list of links).

* `at_most_once`     each node's application receives the id at most once; the publisher never.
* `no_echo`          no node sends the message to the peer it first received it from, and no
                     forwarder sends it to `message.source`; `no_echo_source` extends the latter to
                     the publisher's own sends under the input condition `specPub cfg = none`.
* `self_origin_never` consequently the `RejectReason::SelfOrigin` branch of `message_is_valid`
                     (which penalises the sender) is never taken.
* `at_least_once`    if `message.source` is absent or the publisher, then in every quiescent
                     reachable state every node reachable from the publisher in the directed
                     graph "u forwards to v" has received the message (exactly once).
* `delivered_iff_reach` the set of nodes delivered to at quiescence is schedule independent.
* `termination` / `quiescence` every schedule has at most `mu` effective receptions and can be
                     completed to a quiescent state.
* `exactly_once`     the conjunction, in the form of the property statement;
                     `exactly_once_of_connected_overlay` restates the premise as "the overlay of
                     forwarding sets connects the publisher to every node".
* `spec_accepts_model` the executable Spec used on the implementation accepts every model trace.
-/
namespace C27

/-- number of times `v`'s application received the message -/
def deliveries (s : State) (v : Node) : Nat :=
  (s.delivered.filter fun d => d.1 == v).length

theorem deliveries_le_one {d : List (Node × Node)} (hn : (d.map Prod.fst).Nodup) (v : Node) :
    (d.filter fun x => x.1 == v).length ≤ 1 ∧
    (v ∉ d.map Prod.fst → (d.filter fun x => x.1 == v).length = 0) ∧
    (v ∈ d.map Prod.fst → (d.filter fun x => x.1 == v).length = 1) := by
  induction d with
  | nil => simp
  | cons x d ih =>
    simp only [List.map_cons, List.nodup_cons] at hn
    obtain ⟨i1, i2, i3⟩ := ih hn.2
    by_cases hx : x.1 = v
    · have hv : v ∉ d.map Prod.fst := hx ▸ hn.1
      have h0 := i2 hv
      have hb : (x.1 == v) = true := by simpa using hx
      have hlen : ((x :: d).filter fun y => y.1 == v).length = 1 := by
        simp only [List.filter_cons, hb, if_true, List.length_cons, h0]
      rw [hlen]
      refine ⟨Nat.le_refl _, fun h => ?_, fun _ => rfl⟩
      exact absurd (by simp only [List.map_cons, List.mem_cons]; exact Or.inl hx.symm) h
    · have hb : (x.1 == v) = false := by simpa using hx
      simp only [List.filter_cons, hb, List.map_cons, List.mem_cons]
      refine ⟨i1, fun h => i2 (fun h' => h (Or.inr h')), fun h => i3 ?_⟩
      rcases h with h | h
      · exact absurd h.symm hx
      · exact h

/-- **At most once**: under every schedule each node's application receives the message id at most
once (while the id is in its duplicate cache — the model never expires it), and the publisher's
application never receives it. -/
theorem at_most_once (cfg : Cfg) (sched : List (Node × Node)) :
    (∀ v, deliveries (run cfg sched) v ≤ 1) ∧ deliveries (run cfg sched) cfg.pub = 0 := by
  have hi := inv_run cfg sched
  exact ⟨fun v => (deliveries_le_one hi.del_nodup v).1,
    (deliveries_le_one hi.del_nodup cfg.pub).2.1 hi.pub_not_del⟩

/-- one reception never forwards to its propagation source nor to `message.source`
(the transcribed filter of `forward_msg`) -/
theorem no_echo_step (cfg : Cfg) (s : State) (l : Node × Node) (r : List Node)
    (h : (recv cfg s l).2 = .first r) :
    l.1 ∉ r ∧ ∀ x, cfg.source = some x → x ∉ r := by
  obtain ⟨u, v⟩ := l
  rcases recv_cases cfg s u v with ⟨_, e⟩ | ⟨_, _, e⟩ | ⟨_, _, _, e⟩ | ⟨_, _, _, e⟩
  · rw [e] at h; cases h
  · rw [e] at h; cases h
  · rw [e] at h; cases h
  · rw [e] at h
    cases h
    exact ⟨fun h => (mem_recipients.1 h).2.1 rfl, fun x hx h => (mem_recipients.1 h).2.2 hx.symm⟩

/-- **No echo**: in every reachable state, no node `v` has ever sent the message to the peer `u` it
received it from (`(v,u) ∈ delivered` records the propagation source of `v`'s only delivery), and
no forwarding node has ever sent it to `message.source`. -/
theorem no_echo (cfg : Cfg) (sched : List (Node × Node)) :
    (∀ v u, (v, u) ∈ (run cfg sched).delivered → (v, u) ∉ (run cfg sched).sent) ∧
    (∀ v x, cfg.source = some x → v ≠ cfg.pub → (v, x) ∉ (run cfg sched).sent) := by
  have hi := inv_run cfg sched
  refine ⟨?_, ?_⟩
  · intro v u hd hs
    rcases hi.sent_src v u hs with ⟨hv, _⟩ | ⟨u', hu', hr⟩
    · exact hi.pub_not_del (hv ▸ List.mem_map.2 ⟨(v, u), hd, rfl⟩)
    · have : u' = u := hi.del_unique hu' hd
      subst this
      exact (mem_recipients.1 hr).2.1 rfl
  · intro v x hx hv hs
    rcases hi.sent_src v x hs with ⟨hv', _⟩ | ⟨u', _, hr⟩
    · exact hv hv'
    · exact (mem_recipients.1 hr).2.2 hx.symm

theorem specPub_none {cfg : Cfg} (h : specPub cfg = none) :
    cfg.pub ∉ cfg.recips ∧ ∀ x, cfg.source = some x → x ∉ cfg.recips := by
  unfold specPub at h
  by_cases h1 : cfg.recips.contains cfg.pub = true
  · rw [if_pos h1] at h; cases h
  · rw [if_neg h1] at h
    have hp : cfg.pub ∉ cfg.recips := by simpa using h1
    refine ⟨hp, ?_⟩
    intro x hx hxr
    rw [hx] at h
    by_cases hxp : x = cfg.pub
    · exact hp (hxp ▸ hxr)
    · have : (x != cfg.pub && cfg.recips.contains x) = true := by simp [hxp, hxr]
      simp only [this, if_true] at h
      cases h

/-- when the publisher's own recipient set avoids the source (always true for a signing node:
source = itself, and a node is not its own peer), nobody ever sends the message to its source -/
theorem no_echo_source (cfg : Cfg) (hp : specPub cfg = none) (sched : List (Node × Node)) :
    ∀ v x, cfg.source = some x → (v, x) ∉ (run cfg sched).sent := by
  intro v x hx hs
  have hi := inv_run cfg sched
  rcases hi.sent_src v x hs with ⟨_, hr⟩ | ⟨u', _, hr⟩
  · exact (specPub_none hp).2 x hx hr
  · exact (mem_recipients.1 hr).2.2 hx.symm

/-- the `SelfOrigin` rejection (a scoring penalty for the sender) is never triggered -/
theorem self_origin_never (cfg : Cfg) (hp : specPub cfg = none) (sched : List (Node × Node)) :
    Out.selfOrigin ∉ outs cfg sched := by
  intro hmem
  have := Machine.outputs_of_step (recv cfg) (Inv cfg) (fun o => o ≠ Out.selfOrigin)
    (fun _ l h => inv_recv l h)
    (by
      intro s l hi
      obtain ⟨u, v⟩ := l
      rcases recv_cases cfg s u v with ⟨_, e⟩ | ⟨hf, ⟨hso, _⟩, e⟩ | ⟨_, _, _, e⟩ | ⟨_, _, _, e⟩
      · rw [e]; intro h; cases h
      · exfalso
        rcases hi.sent_src u v (hi.flight_sent _ hf) with ⟨_, hr⟩ | ⟨u', _, hr⟩
        · exact (specPub_none hp).2 v hso hr
        · exact (mem_recipients.1 hr).2.2 hso.symm
      · rw [e]; intro h; cases h
      · rw [e]; intro h; cases h)
    sched (publish cfg) (inv_publish cfg) _ hmem
  exact this rfl

theorem clo_run (cfg : Cfg) (hsrc : sourceOk cfg = true) (sched : List (Node × Node)) :
    Clo cfg (run cfg sched) := by
  have := Machine.invariant_of_step (recv cfg) (fun s => Inv cfg s ∧ Clo cfg s)
    (fun _ l h => ⟨inv_recv l h.1, clo_recv hsrc l h.1 h.2⟩) sched (publish cfg)
    ⟨inv_publish cfg, clo_publish cfg⟩
  exact this.2

/-- **At least once**: if `message.source` is absent or the publisher itself, then in every
quiescent reachable state (no copy in flight), every node reachable from the publisher in the
directed graph "u forwards to v" other than the publisher has been delivered the message —
exactly once. No fairness assumption beyond "the state is quiescent". -/
theorem at_least_once (cfg : Cfg) (hsrc : sourceOk cfg = true) (sched : List (Node × Node))
    (hq : (run cfg sched).flight = []) (v : Node) (hr : Reach cfg v) (hv : v ≠ cfg.pub) :
    deliveries (run cfg sched) v = 1 := by
  have hi := inv_run cfg sched
  have hseen := reach_seen_of_quiescent (clo_run cfg hsrc sched) hi hq hr
  rcases hi.seen_del v hseen with h | h
  · exact absurd h hv
  · exact (deliveries_le_one hi.del_nodup v).2.2 h

/-- only reachable nodes ever see the message -/
theorem seen_reach (cfg : Cfg) (sched : List (Node × Node)) :
    ∀ a ∈ (run cfg sched).seen, Reach cfg a := by
  have := Machine.invariant_of_step (recv cfg) (fun s => Inv cfg s ∧ ∀ a ∈ s.seen, Reach cfg a)
    (by
      intro s l ⟨hi, hr⟩
      refine ⟨inv_recv l hi, ?_⟩
      obtain ⟨u, v⟩ := l
      rcases recv_cases cfg s u v with ⟨_, e⟩ | ⟨_, _, e⟩ | ⟨_, _, _, e⟩ | ⟨hf, _, _, e⟩
      · rw [e]; exact hr
      · rw [e]; exact hr
      · rw [e]; exact hr
      · rw [e]
        intro a ha
        rcases List.mem_cons.1 ha with rfl | ha
        · have hu := hr u (hi.flight_seen hf)
          refine Reach.step hu ?_
          unfold Edge edges
          rcases hi.sent_src u a (hi.flight_sent _ hf) with ⟨hup, hb⟩ | ⟨w, hw, hb⟩
          · rw [if_pos hup]; exact hb
          · have hup : u ≠ cfg.pub :=
              fun h => hi.pub_not_del (h ▸ List.mem_map.2 ⟨(u, w), hw, rfl⟩)
            rw [if_neg hup]; exact (mem_recipients.1 hb).1
        · exact hr a ha)
    sched (publish cfg)
    ⟨inv_publish cfg, by intro a ha; simp [publish] at ha; subst ha; exact Reach.pub⟩
  exact this.2

/-- **Schedule independence**: at quiescence the set of nodes the message was delivered to is
exactly the set of nodes reachable from the publisher (minus the publisher), whatever the
interleaving was. -/
theorem delivered_iff_reach (cfg : Cfg) (hsrc : sourceOk cfg = true) (sched : List (Node × Node))
    (hq : (run cfg sched).flight = []) (v : Node) :
    deliveries (run cfg sched) v = 1 ↔ (Reach cfg v ∧ v ≠ cfg.pub) := by
  have hi := inv_run cfg sched
  constructor
  · intro h
    have hmem : v ∈ (run cfg sched).delivered.map Prod.fst := by
      apply Classical.byContradiction
      intro hn
      have := (deliveries_le_one hi.del_nodup v).2.1 hn
      unfold deliveries at h
      omega
    exact ⟨seen_reach cfg sched v (hi.del_seen v hmem), fun hv => hi.pub_not_del (hv ▸ hmem)⟩
  · intro ⟨hr, hv⟩
    exact at_least_once cfg hsrc sched hq v hr hv

/-- **Termination measure**: under every schedule the number of effective receptions is bounded by
`mu` of the state right after `publish` = `|recipients| + Σ_{v unseen} (|fwd v| + 1)`. -/
theorem termination (cfg : Cfg) (hw : WF cfg) (sched : List (Node × Node)) :
    effCount (outs cfg sched) ≤ mu cfg (publish cfg) := by
  have := eff_bound hw sched (publish cfg) (inv_publish cfg)
  unfold outs
  omega

/-- every reachable state can be completed to a quiescent one in at most `mu` further
receptions (so the hypothesis of `at_least_once` is satisfiable after any prefix) -/
theorem quiescence (cfg : Cfg) (hw : WF cfg) (sched : List (Node × Node)) :
    ∃ more, more.length ≤ mu cfg (publish cfg) ∧ (run cfg (sched ++ more)).flight = [] := by
  have hb := eff_bound hw sched (publish cfg) (inv_publish cfg)
  obtain ⟨more, hl, hq⟩ := quiescence_reachable hw (mu cfg (publish cfg)) (run cfg sched)
    (inv_run cfg sched) (by unfold run; omega)
  refine ⟨more, hl, ?_⟩
  unfold run Machine.exec at *
  rw [List.foldl_append]
  exact hq

/-- the property statement on the model: in a network where every node is reachable from the
publisher through forwarding sets, once no copy is in flight every node other than the publisher
got the message exactly once, the publisher did not, and nothing was echoed to a propagation
source or to the message's source. -/
def full_statement : Prop :=
  ∀ (cfg : Cfg) (sched : List (Node × Node)),
    sourceOk cfg = true → specPub cfg = none → (∀ v ∈ cfg.nodes, Reach cfg v) →
    (run cfg sched).flight = [] →
    (∀ v ∈ cfg.nodes, v ≠ cfg.pub → deliveries (run cfg sched) v = 1) ∧
    deliveries (run cfg sched) cfg.pub = 0 ∧
    (∀ v u, (v, u) ∈ (run cfg sched).delivered → (v, u) ∉ (run cfg sched).sent) ∧
    (∀ v x, cfg.source = some x → (v, x) ∉ (run cfg sched).sent)

theorem exactly_once : full_statement := by
  intro cfg sched hsrc hp hreach hq
  exact ⟨fun v hv hne => at_least_once cfg hsrc sched hq v (hreach v hv) hne,
    (at_most_once cfg sched).2, (no_echo cfg sched).1, no_echo_source cfg hp sched⟩

/-- reachable from the publisher along forwarding sets only (the mesh overlay) -/
inductive MeshReach (cfg : Cfg) : Node → Prop
  | pub : MeshReach cfg cfg.pub
  | step {a b : Node} : MeshReach cfg a → b ∈ cfg.fwd a → MeshReach cfg b

/-- the reachability premise in overlay terms: when the publisher sends at least to its own
forwarding set (`filter_publish_candidates` always includes the mesh and explicit peers), every
node connected to the publisher through the overlay of forwarding sets is reachable. -/
theorem reach_of_meshReach (cfg : Cfg) (hpub : ∀ b ∈ cfg.fwd cfg.pub, b ∈ cfg.recips)
    {v : Node} (h : MeshReach cfg v) : Reach cfg v := by
  induction h with
  | pub => exact Reach.pub
  | @step a b _ hb ih =>
    refine Reach.step ih ?_
    unfold Edge edges
    by_cases hap : a = cfg.pub
    · rw [if_pos hap]; exact hpub b (hap ▸ hb)
    · rw [if_neg hap]; exact hb

/-- **The property in overlay terms**: if the overlay of forwarding sets connects the publisher to
every node and the publisher sends at least to its own forwarding set, then once no copy is in
flight every other node got the message exactly once and the publisher did not. -/
theorem exactly_once_of_connected_overlay (cfg : Cfg) (sched : List (Node × Node))
    (hsrc : sourceOk cfg = true) (hpub : ∀ b ∈ cfg.fwd cfg.pub, b ∈ cfg.recips)
    (hconn : ∀ v ∈ cfg.nodes, MeshReach cfg v) (hq : (run cfg sched).flight = []) :
    (∀ v ∈ cfg.nodes, v ≠ cfg.pub → deliveries (run cfg sched) v = 1) ∧
    deliveries (run cfg sched) cfg.pub = 0 :=
  ⟨fun v hv hne =>
      at_least_once cfg hsrc sched hq v (reach_of_meshReach cfg hpub (hconn v hv)) hne,
    (at_most_once cfg sched).2⟩

/-- **Spec link**: the executable Spec evaluated on the implementation's outputs accepts every
trace of the model: the per-reception monitor under every schedule, and the quiescence clause in
every quiescent state. -/
theorem spec_accepts_model (cfg : Cfg) (sched : List (Node × Node)) :
    monitor cfg (trace cfg (publish cfg) sched) [] = none ∧
    ((run cfg sched).flight = [] →
      specQuiet cfg ((run cfg sched).delivered.map Prod.fst) = none) := by
  refine ⟨by simpa [publish] using monitor_model sched (publish cfg) (inv_publish cfg), ?_⟩
  intro hq
  have hi := inv_run cfg sched
  unfold specQuiet
  rw [if_neg (by simpa using (nodupB_iff _).2 hi.del_nodup),
    if_neg (by simpa using hi.pub_not_del)]
  by_cases hpre : (premise cfg && sourceOk cfg) = true
  · have hp : premise cfg = true := by
      cases h : premise cfg <;> simp [h] at hpre ⊢
    have hs : sourceOk cfg = true := by
      cases h : sourceOk cfg <;> simp [h] at hpre ⊢
    have hall : (cfg.nodes.all fun v =>
        v == cfg.pub || ((run cfg sched).delivered.map Prod.fst).contains v) = true := by
      rw [List.all_eq_true]
      intro v hv
      by_cases hvp : v = cfg.pub
      · simp [hvp]
      · have h1 := at_least_once cfg hs sched hq v (premise_reach hp v hv) hvp
        have hmem : v ∈ (run cfg sched).delivered.map Prod.fst := by
          apply Classical.byContradiction
          intro hn
          have := (deliveries_le_one hi.del_nodup v).2.1 hn
          unfold deliveries at h1
          omega
        simp only [Bool.or_eq_true, List.contains_iff_mem]
        exact Or.inr hmem
    rw [hall]; simp
  · have : (premise cfg && sourceOk cfg) = false := by simpa using hpre
    rw [this]; simp

/-! ## non-vacuity: a 5-node network (ring 0-1-2-3-4-0 plus chord 1-3), publisher 0 -/

def exCfg : Cfg where
  nodes := [0, 1, 2, 3, 4]
  fwd := fun
    | 0 => [1, 4]
    | 1 => [0, 2, 3]
    | 2 => [1, 3]
    | 3 => [1, 2, 4]
    | 4 => [3, 0]
    | _ => []
  pub := 0
  recips := [1, 4]
  source := some 0

example : premise exCfg = true := by decide
example : sourceOk exCfg = true := by decide
example : specPub exCfg = none := by decide
/-- a schedule with duplicates (3 receives from 1 first, then again from 4 and 2) reaching quiescence -/
def exSched : List (Node × Node) :=
  [(0, 1), (1, 3), (0, 4), (4, 3), (1, 2), (3, 2), (3, 4), (2, 3)]
example : (run exCfg exSched).flight = [] := by decide
example : outs exCfg exSched =
    [.first [2, 3], .first [2, 4], .first [3], .dup, .first [3], .dup, .dup, .dup] := by decide
example : ∀ v ∈ exCfg.nodes, v ≠ exCfg.pub → deliveries (run exCfg exSched) v = 1 := by decide
/-- the anonymous-source variant: copies do travel back to the publisher and are ignored there -/
example : outs { exCfg with source := none } [(0, 1), (1, 0)] = [.first [2, 3], .noflight] := by
  decide
example : outs { exCfg with source := none } [(0, 4), (4, 3), (3, 1), (1, 0)]
    = [.first [3], .first [1, 2], .first [0, 2], .dup] := by decide

end C27

#print axioms C27.at_most_once
#print axioms C27.no_echo_step
#print axioms C27.no_echo
#print axioms C27.no_echo_source
#print axioms C27.self_origin_never
#print axioms C27.at_least_once
#print axioms C27.delivered_iff_reach
#print axioms C27.termination
#print axioms C27.quiescence
#print axioms C27.exactly_once
#print axioms C27.exactly_once_of_connected_overlay
#print axioms C27.spec_accepts_model
