import Libp2pModel.Proofs.C46Core
/-!
# C46 — Identify only reports authenticated peer information: property theorems

All theorems are for every environment `env` (decoders, `to_peer_id`, `verify` are arbitrary
functions), every message, every connection peer id `p`, and — for the trace theorems — every
sequence of identify / push messages of any length.
-/
namespace C46
variable {K E : Type}

/-- the `Info` the handler examines for an incoming message: the parsed message itself, or for a
push the stored `remote_info` merged with the push -/
def incoming (env : Env K E) (st : HState K E) : Op → Option (Info K E)
  | .identify m => tryFrom env m
  | .push m => st.map fun i0 => merge i0 (pushFrom env m)

theorem matchesPeer_iff (a : Maddr) (p : Bytes) :
    matchesPeer a p = true ↔ ∀ q, a.getLast? = some (.p2p q) → q = p := by
  unfold matchesPeer
  split
  · next q h =>
    simp only [h, beq_iff_eq, Option.some.injEq, Proto.p2p.injEq]
    constructor
    · intro hq q' hq'; exact hq' ▸ hq
    · intro hq; exact hq q rfl
  · next h =>
    simp only [true_iff]
    intro q hq
    exact absurd hq (h q)

theorem handleIncomingInfo_eq (env : Env K E) (p : Bytes) (st : HState K E) (info : Info K E) :
    handleIncomingInfo env p st info =
      if env.peerIdOf info.publicKey = p then (some info, true) else (st, false) := by
  unfold handleIncomingInfo
  by_cases h : env.peerIdOf info.publicKey = p
  · simp [h]
  · have : ¬ p = env.peerIdOf info.publicKey := fun h' => h h'.symm
    simp [h, this]

/-- closed form of one step -/
theorem step_eq (env : Env K E) (p : Bytes) (st : HState K E) (op : Op) :
    step env p st op =
      match incoming env st op with
      | none => (st, match op with | .identify _ => .error | .push _ => .nothing)
      | some raw =>
        if env.peerIdOf raw.publicKey = p then (some raw, .received (filterInfo p raw))
        else (st, .nothing) := by
  cases op with
  | identify m =>
    simp only [step, incoming]
    cases tryFrom env m with
    | none => rfl
    | some raw =>
      simp only [handleIncomingInfo_eq]
      by_cases h : env.peerIdOf raw.publicKey = p <;> simp [h]
  | push m =>
    cases st with
    | none => rfl
    | some i0 =>
      simp only [step, incoming, Option.map_some, handleIncomingInfo_eq]
      by_cases h : env.peerIdOf (merge i0 (pushFrom env m)).publicKey = p <;> simp [h]

/-! ## 1. The reported key derives the connection's peer id -/

/-- **`Event::Received { info }` is emitted for a connection to `p` exactly when the information
the handler examined (`raw`: the parsed identify message, or `remote_info` merged with the push)
carries a public key whose peer id is `p`; the reported `info` is `raw` with its listen addresses
filtered.** -/
theorem reported_iff_key_matches (env : Env K E) (p : Bytes) (st : HState K E) (op : Op)
    (info : Info K E) :
    (step env p st op).2 = .received info ↔
      ∃ raw, incoming env st op = some raw ∧ env.peerIdOf raw.publicKey = p ∧
        info = filterInfo p raw := by
  rw [step_eq]
  cases hi : incoming env st op with
  | none => cases op <;> simp
  | some raw =>
    by_cases h : env.peerIdOf raw.publicKey = p
    · simp [h, eq_comm]
    · simp [h]

/-- in particular the reported key derives `p` -/
theorem reported_key_matches (env : Env K E) (p : Bytes) (st : HState K E) (op : Op)
    (info : Info K E) (h : (step env p st op).2 = .received info) :
    env.peerIdOf info.publicKey = p := by
  obtain ⟨raw, _, hk, rfl⟩ := (reported_iff_key_matches env p st op info).1 h
  exact hk

/-- a push that changes the key to one deriving another peer id is dropped entirely: nothing is
reported and the stored information is unchanged -/
theorem push_foreign_key_dropped (env : Env K E) (p : Bytes) (i0 : Info K E) (m : Msg) (k' : K)
    (hk : parsePublicKey env m.publicKey = some k') (hne : env.peerIdOf k' ≠ p) :
    step env p (some i0) (.push m) = (some i0, .nothing) := by
  rw [step_eq]
  simp [incoming, merge, pushFrom, hk, hne]

/-- trace form, from ANY handler state: every `Received` ever emitted on the connection carries a
key deriving `p` -/
theorem reported_key_matches_trace (env : Env K E) (p : Bytes) (st0 : HState K E) (ops : List Op) :
    ∀ out ∈ (Machine.run (step env p) st0 ops).2, ∀ info, out = .received info →
      env.peerIdOf info.publicKey = p := by
  refine Machine.outputs_of_step (step env p) (fun _ => True) _ (fun _ _ _ => trivial) ?_ ops st0 trivial
  intro s o _ info h
  exact reported_key_matches env p s o info h

/-! ## 2. Signed peer records -/

/-- **`Info::try_from`: the signed record is used exactly when the field decodes to an envelope
that is authentic (legacy payload type, valid signature, record decodes, record's peer id = the
signer's peer id) for the peer id of the identify public key; then the listen addresses are the
record's and `signed_peer_record` is that envelope.  Otherwise `signed_peer_record = None` and the
addresses are the parsed `listenAddrs` field.** -/
theorem signed_record_use (env : Env K E) (msg : Msg) (info : Info K E)
    (h : tryFrom env msg = some info) :
    (∀ e, info.signedPeerRecord = some e →
        (∃ b, msg.signedPeerRecord = some b ∧ env.decodeEnvelope b = some e) ∧
        Authentic env (env.peerIdOf info.publicKey) e ∧
        recordAddrs env e = some info.listenAddrs) ∧
    (info.signedPeerRecord = none →
        info.listenAddrs = parseListenAddrs env msg.listenAddrs ∧
        ¬ ∃ b e, msg.signedPeerRecord = some b ∧ env.decodeEnvelope b = some e ∧
            Authentic env (env.peerIdOf info.publicKey) e) := by
  obtain ⟨key, _, rfl⟩ := (tryFrom_some_iff env msg info).1 h
  cases hr : recordFor env key msg.signedPeerRecord with
  | none =>
    simp only [Option.getD_none, reduceCtorEq, false_implies, implies_true, true_and,
      forall_const]
    rintro ⟨b, e, hb, he, ha⟩
    obtain ⟨pr, _, _, _, hra⟩ := fromSignedEnvelope_complete env _ e ha
    have := (recordFor_some_iff env key msg.signedPeerRecord (pr.addresses, some e)).2
      ⟨b, e, pr.addresses, hb, he, ha, hra, rfl⟩
    rw [hr] at this
    cases this
  | some x =>
    obtain ⟨b, e, as, hb, he, ha, hra, rfl⟩ := (recordFor_some_iff env key _ x).1 hr
    simp only [Option.getD_some, Option.some.injEq, reduceCtorEq, false_implies, and_true]
    rintro e' rfl
    exact ⟨⟨b, hb, he⟩, ha, hra⟩

/-- invariant of the handler state: the stored `remote_info` has a key deriving `p` and any signed
record it carries is authentic for `p` -/
def Inv (env : Env K E) (p : Bytes) (st : HState K E) : Prop :=
  ∀ i, st = some i → env.peerIdOf i.publicKey = p ∧
    ∀ e, i.signedPeerRecord = some e → Authentic env p e

theorem inv_step (env : Env K E) (p : Bytes) (st : HState K E) (op : Op) (hinv : Inv env p st) :
    Inv env p (step env p st op).1 ∧
    ∀ info, (step env p st op).2 = .received info →
      ∀ e, info.signedPeerRecord = some e → Authentic env p e := by
  rw [step_eq]
  cases hi : incoming env st op with
  | none => exact ⟨hinv, by cases op <;> simp⟩
  | some raw =>
    by_cases hk : env.peerIdOf raw.publicKey = p
    · have hauth : ∀ e, raw.signedPeerRecord = some e → Authentic env p e := by
        intro e he
        cases op with
        | identify m =>
          have := ((signed_record_use env m raw hi).1 e he).2.1
          rwa [hk] at this
        | push m =>
          cases st with
          | none => simp [incoming] at hi
          | some i0 =>
            simp only [incoming, Option.map_some, Option.some.injEq] at hi
            subst hi
            exact (hinv i0 rfl).2 e he
      simp only [hk, ↓reduceIte]
      refine ⟨?_, ?_⟩
      · intro i hi'
        cases hi'
        exact ⟨hk, hauth⟩
      · intro info hinfo e he
        cases hinfo
        exact hauth e he
    · simp only [hk, ↓reduceIte]
      exact ⟨hinv, by simp⟩

/-- **every `Received` on a connection to `p` (any sequence of identify and push messages) that
carries a signed peer record carries one that is authentic for `p`**: validly signed, by a key
whose peer id is `p`, naming `p`. -/
theorem signed_record_use_trace (env : Env K E) (p : Bytes) (ops : List Op) :
    ∀ out ∈ (Machine.run (step env p) none ops).2, ∀ info, out = .received info →
      ∀ e, info.signedPeerRecord = some e → Authentic env p e := by
  refine Machine.outputs_of_step (step env p) (Inv env p) _
    (fun s o h => (inv_step env p s o h).1) ?_ ops none (by intro i h; cases h)
  intro s o hinv info h
  exact (inv_step env p s o hinv).2 info h

/-- for an identify message the reported addresses are the (filtered) addresses of the authentic
record when one is attached to the report, and the (filtered) unsigned `listenAddrs` exactly when
the message carries no record authentic for `p` -/
theorem identify_addresses_source (env : Env K E) (p : Bytes) (st : HState K E) (m : Msg)
    (info : Info K E) (h : (step env p st (.identify m)).2 = .received info) :
    (∀ e, info.signedPeerRecord = some e →
        (∃ b, m.signedPeerRecord = some b ∧ env.decodeEnvelope b = some e) ∧ Authentic env p e ∧
        ∃ as, recordAddrs env e = some as ∧ info.listenAddrs = as.filter (matchesPeer · p)) ∧
    (info.signedPeerRecord = none →
        info.listenAddrs = (parseListenAddrs env m.listenAddrs).filter (matchesPeer · p) ∧
        ¬ ∃ b e, m.signedPeerRecord = some b ∧ env.decodeEnvelope b = some e ∧ Authentic env p e) := by
  obtain ⟨raw, hraw, hk, rfl⟩ := (reported_iff_key_matches env p st _ info).1 h
  have hs := signed_record_use env m raw hraw
  rw [hk] at hs
  constructor
  · intro e he
    obtain ⟨h1, h2, h3⟩ := hs.1 e he
    exact ⟨h1, h2, raw.listenAddrs, h3, rfl⟩
  · intro hn
    obtain ⟨h1, h2⟩ := hs.2 hn
    exact ⟨by simp [filterInfo, h1], h2⟩

/-- Crypto laws, as hypotheses bundled in a structure (never axioms): `SignedBy k d t m` is the
ideal statement "the holder of the secret key of `k` signed payload `m` of type `t` under domain
`d`"; `verify` is sound for it, and `to_peer_id` is injective. -/
structure SigLaws (env : Env K E) (SignedBy : K → Bytes → Bytes → Bytes → Prop) : Prop where
  verify_sound : ∀ e d, env.verify e d = true →
    SignedBy (env.envKey e) d (env.envPayloadType e) (env.envPayload e)
  peerId_inj : ∀ k k', env.peerIdOf k = env.peerIdOf k' → k = k'

/-- under the laws, a reported signed record was signed — as a routing-state record — by the very
key that is reported, and that key is the (unique) key with peer id `p`, i.e. the key the
connection was authenticated with -/
theorem reported_record_signed_by_reported_key (env : Env K E)
    (SignedBy : K → Bytes → Bytes → Bytes → Prop) (laws : SigLaws env SignedBy)
    (p : Bytes) (ops : List Op) :
    ∀ out ∈ (Machine.run (step env p) none ops).2, ∀ info, out = .received info →
      (∀ kc, env.peerIdOf kc = p → info.publicKey = kc) ∧
      ∀ e, info.signedPeerRecord = some e →
        SignedBy info.publicKey legacyDomain legacyPayloadType (env.envPayload e) := by
  intro out hout info hinfo
  have hk := reported_key_matches_trace env p none ops out hout info hinfo
  refine ⟨fun kc hkc => laws.peerId_inj _ _ (hk.trans hkc.symm), ?_⟩
  intro e he
  obtain ⟨ht, hv, _, hke⟩ := signed_record_use_trace env p ops out hout info hinfo e he
  have := laws.verify_sound e legacyDomain hv
  rw [ht, laws.peerId_inj _ _ (hke.trans hk.symm)] at this
  exact this

/-- documentation of an observed behaviour (not a violation of C46): `Info::merge` keeps the old
`signed_peer_record` while a push replaces `listen_addrs`, so a reported `Info` may carry a signed
record whose addresses are NOT the reported (unsigned, pushed) listen addresses. -/
theorem push_keeps_record_but_replaces_addrs (i0 : Info K E) (pi : PushInfo K)
    (h : pi.listenAddrs ≠ []) :
    (merge i0 pi).signedPeerRecord = i0.signedPeerRecord ∧ (merge i0 pi).listenAddrs = pi.listenAddrs := by
  cases hl : pi.listenAddrs with
  | nil => exact absurd hl h
  | cons a l => simp [merge, hl]

/-! ## 3. No foreign `/p2p` -/

/-- **every reported listen address whose last component is `/p2p/q` has `q = p`** — for every
step from every state, hence along every trace -/
theorem no_foreign_p2p_step (env : Env K E) (p : Bytes) (st : HState K E) (op : Op) (info : Info K E)
    (h : (step env p st op).2 = .received info) :
    ∀ a ∈ info.listenAddrs, ∀ q, a.getLast? = some (.p2p q) → q = p := by
  obtain ⟨raw, _, _, rfl⟩ := (reported_iff_key_matches env p st op info).1 h
  intro a ha
  simp only [filterInfo, List.mem_filter] at ha
  exact (matchesPeer_iff a p).1 ha.2

theorem no_foreign_p2p (env : Env K E) (p : Bytes) (st0 : HState K E) (ops : List Op) :
    ∀ out ∈ (Machine.run (step env p) st0 ops).2, ∀ info, out = .received info →
      ∀ a ∈ info.listenAddrs, ∀ q, a.getLast? = some (.p2p q) → q = p := by
  refine Machine.outputs_of_step (step env p) (fun _ => True) _ (fun _ _ _ => trivial) ?_ ops st0 trivial
  intro s o _ info h
  exact no_foreign_p2p_step env p s o info h

/-- the filter drops nothing else: an address is reported iff the examined info listed it and it
does not end in a foreign `/p2p` -/
theorem filter_exact (p : Bytes) (raw : Info K E) (a : Maddr) :
    a ∈ (filterInfo p raw).listenAddrs ↔
      a ∈ raw.listenAddrs ∧ ∀ q, a.getLast? = some (.p2p q) → q = p := by
  simp [filterInfo, List.mem_filter, matchesPeer_iff]

/-! ## 4. The executable Spec: sound for the property, and accepts the model -/
section spec
variable [DecidableEq K] [DecidableEq E]

/-- an output the Spec accepts satisfies the three clauses of the property -/
theorem specStep_sound (env : Env K E) (p : Bytes) (prev : Option (Info K E)) (op : Op)
    (info : Info K E) (h : specStep env p prev op (.received info) = true) :
    env.peerIdOf info.publicKey = p ∧
    (∀ a ∈ info.listenAddrs, ∀ q, a.getLast? = some (.p2p q) → q = p) ∧
    (∀ e, info.signedPeerRecord = some e → Authentic env p e) := by
  simp only [specStep, Bool.and_eq_true, beq_iff_eq, List.all_eq_true] at h
  obtain ⟨⟨hk, hl⟩, hr⟩ := h
  refine ⟨hk, fun a ha => (matchesPeer_iff a p).1 (hl a ha), ?_⟩
  intro e he
  cases op with
  | identify m =>
    simp only [he, Bool.and_eq_true, beq_iff_eq] at hr
    have h1 := hr.2.1
    unfold msgRecord at h1
    split at h1
    · next e' _ =>
      by_cases ha : authentic env p e' = true
      · rw [if_pos ha] at h1
        cases h1
        exact (authentic_iff env p e).1 ha
      · rw [if_neg ha] at h1
        cases h1
    · cases h1
  | push m =>
    simp only [he, Bool.and_eq_true] at hr
    exact (authentic_iff env p e).1 hr.2

omit [DecidableEq K] [DecidableEq E] in
theorem msgRecord_eq_some (env : Env K E) (p : Bytes) (m : Msg) (b : Bytes) (e : E)
    (hb : m.signedPeerRecord = some b) (he : env.decodeEnvelope b = some e) (ha : Authentic env p e) :
    msgRecord env p m = some e := by
  simp [msgRecord, hb, he, (authentic_iff env p e).2 ha]

omit [DecidableEq K] [DecidableEq E] in
theorem msgRecord_eq_none (env : Env K E) (p : Bytes) (m : Msg)
    (h : ¬ ∃ b e, m.signedPeerRecord = some b ∧ env.decodeEnvelope b = some e ∧ Authentic env p e) :
    msgRecord env p m = none := by
  unfold msgRecord
  split
  · next e he =>
    by_cases ha : authentic env p e = true
    · exfalso
      cases hb : m.signedPeerRecord with
      | none => simp [hb] at he
      | some b =>
        simp only [hb, Option.bind_some] at he
        exact h ⟨b, e, hb, he, (authentic_iff env p e).1 ha⟩
    · rw [if_neg ha]
  · rfl

omit [DecidableEq K] [DecidableEq E] in
theorem tryFrom_key (env : Env K E) (m : Msg) (raw : Info K E) (h : tryFrom env m = some raw) :
    msgKey env m = some raw.publicKey := by
  obtain ⟨key, hk, rfl⟩ := (tryFrom_some_iff env m raw).1 h
  exact hk

omit [DecidableEq K] [DecidableEq E] in
theorem tryFrom_none (env : Env K E) (m : Msg) (h : tryFrom env m = none) : msgKey env m = none := by
  unfold tryFrom at h
  cases hk : msgKey env m with
  | none => rfl
  | some k => simp [hk] at h

/-- the Spec accepts every step of the model, and the monitor's `prev` stays in step with the
handler state (`prev` = stored info, filtered) -/
theorem specStep_model (env : Env K E) (p : Bytes) (st : HState K E) (op : Op)
    (hinv : Inv env p st) :
    specStep env p (st.map (filterInfo p)) op (step env p st op).2 = true ∧
    specNext (st.map (filterInfo p)) (step env p st op).2 = (step env p st op).1.map (filterInfo p) := by
  have hstep := step_eq env p st op
  cases hi : incoming env st op with
  | none =>
    rw [hi] at hstep
    rw [hstep]
    cases op with
    | identify m => simp [specStep, specNext, tryFrom_none env m hi]
    | push m =>
      cases st with
      | none => simp [specStep, specNext]
      | some i0 => simp [incoming] at hi
  | some raw =>
    rw [hi] at hstep
    by_cases hk : env.peerIdOf raw.publicKey = p
    · simp only [hk, ↓reduceIte] at hstep
      rw [hstep]
      refine ⟨?_, by simp [specNext]⟩
      have hrep : (step env p st op).2 = .received (filterInfo p raw) := by rw [hstep]
      simp only [specStep, Bool.and_eq_true, beq_iff_eq, List.all_eq_true]
      refine ⟨⟨hk, ?_⟩, ?_⟩
      · intro a ha
        simp only [filterInfo, List.mem_filter] at ha
        exact ha.2
      · cases op with
        | identify m =>
          have hsrc := identify_addresses_source env p st m _ hrep
          have hkey : msgKey env m = some raw.publicKey := tryFrom_key env m raw hi
          cases hs : raw.signedPeerRecord with
          | none =>
            have hs' : (filterInfo p raw).signedPeerRecord = none := hs
            obtain ⟨h1, h2⟩ := hsrc.2 hs'
            simp only [hkey, filterInfo, hs, beq_self_eq_true, Bool.true_and, Bool.and_eq_true,
              beq_iff_eq, decide_eq_true_eq]
            exact ⟨msgRecord_eq_none env p m h2, h1⟩
          | some e =>
            have hs' : (filterInfo p raw).signedPeerRecord = some e := hs
            obtain ⟨⟨b, hb, he⟩, ha, as, hra, hl⟩ := hsrc.1 e hs'
            simp only [hkey, filterInfo, hs, beq_self_eq_true, Bool.true_and, Bool.and_eq_true,
              beq_iff_eq, decide_eq_true_eq]
            refine ⟨msgRecord_eq_some env p m b e hb he ha, ?_⟩
            rw [hra]
            simp only [Option.map_some, Option.some.injEq]
            exact hl
        | push m =>
          cases st with
          | none => simp [incoming] at hi
          | some i0 =>
            simp only [incoming, Option.map_some, Option.some.injEq] at hi
            subst hi
            simp only [Option.map_some, filterInfo, merge, beq_self_eq_true, Bool.true_and]
            cases hs : i0.signedPeerRecord with
            | none => rfl
            | some e => exact (authentic_iff env p e).2 ((hinv i0 rfl).2 e hs)
    · simp only [hk, ↓reduceIte] at hstep
      rw [hstep]
      refine ⟨?_, by simp [specNext]⟩
      cases op with
      | identify m =>
        simp [specStep, tryFrom_key env m raw hi, hk]
      | push m =>
        cases st with
        | none => simp [specStep]
        | some i0 =>
          simp only [incoming, Option.map_some, Option.some.injEq] at hi
          subst hi
          simpa [specStep, filterInfo, merge, pushFrom] using hk

/-- the Spec of the direct calls accepts the model -/
theorem specTryFrom_model (env : Env K E) (p : Bytes) (m : Msg) :
    specTryFrom env p m (tryDirect env p m) = true := by
  unfold tryDirect
  cases ht : tryFrom env m with
  | none => simp [specTryFrom, tryFrom_none env m ht]
  | some raw =>
    have hkey := tryFrom_key env m raw ht
    have hs := signed_record_use env m raw ht
    simp only [Option.map_some, specTryFrom, hkey, beq_self_eq_true, Bool.true_and,
      Bool.and_eq_true, List.all_eq_true, handleIncomingInfo_eq]
    refine ⟨⟨⟨?_, ?_⟩, ?_⟩, ?_⟩
    · by_cases h : env.peerIdOf raw.publicKey = p <;> simp [h]
    · intro a ha
      exact (List.mem_filter.1 ha).2
    · simp
    · cases hr : raw.signedPeerRecord with
      | none =>
        obtain ⟨h1, h2⟩ := hs.2 hr
        simp only [Bool.and_eq_true, beq_iff_eq, decide_eq_true_eq]
        exact ⟨msgRecord_eq_none env _ m h2, h1⟩
      | some e =>
        obtain ⟨⟨b, hb, he⟩, ha, hra⟩ := hs.1 e hr
        simp only [Bool.and_eq_true, beq_iff_eq, decide_eq_true_eq]
        exact ⟨msgRecord_eq_some env _ m b e hb he ha, hra.symm⟩

/-- **the Spec accepts the model on every trace**: so "implementation output = model output on
this input" implies "the Spec holds on the implementation's output". -/
theorem spec_accepts_model (env : Env K E) (p : Bytes) (ops : List Op) :
    specTrace env p none (ops.zip (Machine.run (step env p) none ops).2) = true := by
  suffices h : ∀ (ops : List Op) (st : HState K E), Inv env p st →
      specTrace env p (st.map (filterInfo p)) (ops.zip (Machine.run (step env p) st ops).2) = true by
    exact h ops none (by intro i hi; cases hi)
  intro ops
  induction ops with
  | nil => intro st _; simp [Machine.run, specTrace]
  | cons o os ih =>
    intro st hinv
    obtain ⟨h1, h2⟩ := specStep_model env p st o hinv
    simp only [Machine.run, List.zip_cons_cons, specTrace, Bool.and_eq_true]
    refine ⟨h1, ?_⟩
    rw [h2]
    exact ih _ (inv_step env p st o hinv).1

/-- …and a trace the Spec accepts satisfies the property at every `Received` -/
theorem specTrace_sound (env : Env K E) (p : Bytes) :
    ∀ (tr : List (Op × Out K E)) (prev : Option (Info K E)), specTrace env p prev tr = true →
      ∀ x ∈ tr, ∀ info, x.2 = .received info →
        env.peerIdOf info.publicKey = p ∧
        (∀ a ∈ info.listenAddrs, ∀ q, a.getLast? = some (.p2p q) → q = p) ∧
        (∀ e, info.signedPeerRecord = some e → Authentic env p e) := by
  intro tr
  induction tr with
  | nil => intro _ _ x hx; simp at hx
  | cons y ys ih =>
    intro prev h x hx info hinfo
    obtain ⟨op, out⟩ := y
    simp only [specTrace, Bool.and_eq_true] at h
    rcases List.mem_cons.1 hx with rfl | hx'
    · simp only at hinfo
      subst hinfo
      exact specStep_sound env p prev op info h.1
    · exact ih _ h.2 x hx' info hinfo

end spec

/-! ## Non-vacuity: a concrete environment in which every branch is reachable -/
section examples

/-- keys are numbers, peer id of key `k` is `[k]`; an envelope is (signer, named peer, valid?,
legacy type?); byte string `[1, k]` decodes to key `k`, `[2, s, n, v, t]` to an envelope -/
def exEnv : Env Nat (Nat × Nat × Bool × Bool) where
  decodeKey b := match b with | [1, k] => some k | _ => none
  peerIdOf k := [k]
  decodeAddr b := match b with
    | [4] => some [.ip4 1, .tcp 2]
    | [5, q] => some [.ip4 1, .tcp 2, .p2p [q]]
    | _ => none
  decodeEnvelope b := match b with | [2, s, n, v, t] => some (s, n, v == 1, t == 1) | _ => none
  envKey e := e.1
  envPayloadType e := if e.2.2.2 then legacyPayloadType else []
  envPayload e := [e.2.1]
  verify e d := e.2.2.1 && d == legacyDomain
  decodeRecord b := match b with | [n] => some ⟨[n], 0, [[5, 7], [5, 9], [4]]⟩ | _ => none
  decodePeerId b := some b

def exMsg (k : Nat) (spr : Option Bytes) : Msg :=
  ⟨some [1, k], [[4], [5, 7], [5, 8], [0xff]], spr, none, [], none, none⟩

-- matching key, no record: reported, foreign /p2p/8 dropped, own /p2p/7 kept, garbage skipped
example : (step exEnv [7] none (.identify (exMsg 7 none))).2 =
    .received ⟨7, [], [], [[.ip4 1, .tcp 2], [.ip4 1, .tcp 2, .p2p [7]]], [], [], none⟩ := by decide +kernel
-- mismatching key: nothing
example : (step exEnv [7] none (.identify (exMsg 8 none))).2 = .nothing := by decide +kernel
-- missing key: error
example : (step exEnv [7] none (.identify ⟨none, [], none, none, [], none, none⟩)).2 = .error := by decide +kernel
-- authentic record of the same peer: used (addresses from the record, /p2p/9 filtered)
example : (step exEnv [7] none (.identify (exMsg 7 (some [2, 7, 7, 1, 1])))).2 =
    .received ⟨7, [], [], [[.ip4 1, .tcp 2, .p2p [7]], [.ip4 1, .tcp 2]], [], [], some (7, 7, true, true)⟩ := by
  decide +kernel
-- record of another peer / bad signature / wrong payload type / signer ≠ named peer: not used
example : ∀ spr ∈ [[2, 8, 8, 1, 1], [2, 7, 7, 0, 1], [2, 7, 7, 1, 0], [2, 8, 7, 1, 1], [9]],
    (step exEnv [7] none (.identify (exMsg 7 (some spr)))).2 =
    .received ⟨7, [], [], [[.ip4 1, .tcp 2], [.ip4 1, .tcp 2, .p2p [7]]], [], [], none⟩ := by decide +kernel
-- push changing the key to a foreign one: dropped; push of new addresses: reported, record kept
example : (Machine.run (step exEnv [7]) none
    [.identify (exMsg 7 (some [2, 7, 7, 1, 1])),
     .push ⟨some [1, 8], [[4]], none, none, [], none, none⟩,
     .push ⟨none, [[5, 8], [4]], none, none, [], none, none⟩]).2.drop 1 =
    [.nothing, .received ⟨7, [], [], [[.ip4 1, .tcp 2]], [], [], some (7, 7, true, true)⟩] := by decide +kernel
-- the laws are satisfiable
example : SigLaws exEnv (fun k d t m => ∃ e, exEnv.envKey e = k ∧ exEnv.verify e d = true ∧
    exEnv.envPayloadType e = t ∧ exEnv.envPayload e = m) where
  verify_sound e d h := ⟨e, rfl, h, rfl, rfl⟩
  peerId_inj k k' h := by simpa [exEnv] using h

end examples

#print axioms C46.reported_iff_key_matches
#print axioms C46.reported_key_matches
#print axioms C46.push_foreign_key_dropped
#print axioms C46.reported_key_matches_trace
#print axioms C46.signed_record_use
#print axioms C46.signed_record_use_trace
#print axioms C46.identify_addresses_source
#print axioms C46.reported_record_signed_by_reported_key
#print axioms C46.push_keeps_record_but_replaces_addrs
#print axioms C46.no_foreign_p2p_step
#print axioms C46.no_foreign_p2p
#print axioms C46.filter_exact
#print axioms C46.specStep_sound
#print axioms C46.specStep_model
#print axioms C46.specTryFrom_model
#print axioms C46.spec_accepts_model
#print axioms C46.specTrace_sound
#print axioms C46.recordFor_some_iff
#print axioms C46.fromSignedEnvelope_sound
#print axioms C46.fromSignedEnvelope_complete
end C46
