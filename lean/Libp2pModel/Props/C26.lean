import Libp2pModel.Proofs.C26Cfg
import Libp2pModel.Proofs.C26Keys2
import Libp2pModel.Proofs.C26ClosePending
import Libp2pModel.Common.Machine
/-!
# C26 — Mplex enforces its substream and buffer limits without losing data: property theorems

Model: `Model/C26.lean` (transcription of `muxers/mplex/src/io.rs::Multiplexed` and
`lib.rs::Substream`, after the fix `findings/C26-reset-removes-substream.fix.diff`).
Invariant and its preservation by every method: `Proofs/C26*.lean`.
All theorems quantify over every configuration, every sequence of driver operations (local API
calls in any order, frames / codec errors / EOF arriving from the remote at any point, the
connection's write side blocking and unblocking at any point) of any length.
-/
namespace C26
open C25 (Sid Role Frame)

/-- a fresh endpoint -/
def init (c : Cfg) : MState := { s := { cfg := c } }

def stepM (m : MState) (op : Op) : MState × Out := step m op

/-- the state reached after an arbitrary operation sequence -/
def reach (c : Cfg) (ops : List Op) : MState := Machine.exec stepM (init c) ops

theorem Inv_init (c : Cfg) : Inv (init c).s := by simp [Inv, init]

/-- the invariant (and the unchanged configuration) holds in every reachable state -/
theorem reach_inv (c : Cfg) (ops : List Op) : Inv (reach c ops).s ∧ (reach c ops).s.cfg = c := by
  have := Machine.invariant_of_step stepM (fun m => Inv m.s ∧ m.s.cfg = c)
    (fun m op h => ⟨Inv_step m op h.1, by rw [show (stepM m op).1 = (step m op).1 from rfl, step_cfg m op h.1]; exact h.2⟩)
    ops (init c) ⟨Inv_init c, rfl⟩
  exact this

/-- **The substream table never exceeds `max_substreams`.** -/
theorem substreams_le (c : Cfg) (ops : List Op) : (reach c ops).s.subs.length ≤ c.maxSubs := by
  have h := reach_inv c ops
  have := h.1.1
  rw [h.2] at this; exact this

/-- **No substream buffers more than `max_buffer_len + 1` frames**, and a buffer holding
`max_buffer_len + 1` frames belongs to the substream that currently blocks all reading (`Block`) or
to a substream that has been reset (`ResetStream`). -/
theorem buffer_le (c : Cfg) (ops : List Op) : ∀ x ∈ (reach c ops).s.subs,
    x.buf.length ≤ c.maxBuf + 1 ∧
    (x.buf.length = c.maxBuf + 1 →
      if c.block then (reach c ops).s.blocking = some x.id else x.st = .reset) := by
  intro x hx
  have h := reach_inv c ops
  have := (h.1.2.2 x hx).1
  rw [h.2] at this
  rcases this with h1 | ⟨h1, h2⟩
  · exact ⟨by omega, fun e => by omega⟩
  · exact ⟨by omega, fun _ => h2⟩

/-- **The queue of pending `Reset`/`Close` frames is bounded** by `max_substreams + 1000`. -/
theorem pending_frames_bounded (c : Cfg) (ops : List Op) :
    (reach c ops).s.pendQ.length ≤ c.maxSubs + EXTRA_PENDING_FRAMES := by
  have h := reach_inv c ops
  have := h.1.2.1
  rw [h.2] at this; exact this

/-- **An inbound `Open` beyond the limit is answered with a `Reset`**: when the table is full (and
the id is not in use, and the pending queue has room) `on_open` creates no substream, reports no
new stream and queues exactly one `Reset` for that id behind what was already pending. -/
theorem excess_open_reset (s : State) (rid : Sid) (hfull : s.subs.length ≥ s.cfg.maxSubs)
    (hnew : s.get rid.mirror = none) (hroom : s.pendQ.length < s.cfg.maxSubs + EXTRA_PENDING_FRAMES) :
    onOpen s rid = ({ s with pendQ := s.pendQ ++ [.reset rid.mirror] }, .ok none) := by
  have h1 : ¬ (s.pendQ.length ≥ s.cfg.maxSubs + EXTRA_PENDING_FRAMES) := by omega
  simp [onOpen, hnew, hfull, checkMaxPending, h1]

/-- …and when the pending queue is full as well the connection is failed instead -/
theorem excess_open_overflow (s : State) (rid : Sid) (hfull : s.subs.length ≥ s.cfg.maxSubs)
    (hnew : s.get rid.mirror = none) (hq : s.pendQ.length ≥ s.cfg.maxSubs + EXTRA_PENDING_FRAMES) :
    onOpen s rid = (onError s .other, .error .other) := by
  simp [onOpen, hnew, hfull, checkMaxPending, hq]

/-- below the limit the substream is created -/
theorem open_accepted (s : State) (rid : Sid) (hroom : s.subs.length < s.cfg.maxSubs)
    (hnew : s.get rid.mirror = none) :
    onOpen s rid = (s.put { id := rid.mirror, st := .opn, buf := [] }, .ok (some rid.mirror)) := by
  have h1 : ¬ (s.subs.length ≥ s.cfg.maxSubs) := by omega
  simp [onOpen, hnew, h1]

/-- **`Block`: no data frame is dropped.**  In every reachable state, a Data frame taken from the
connection for a substream that is open for reading is appended to that substream's buffer (no
error, no reset, state unchanged) — whatever the buffer already holds. -/
theorem block_no_loss (c : Cfg) (ops : List Op) (hb : c.block = true) (id : Sid) (x : Sub) (d : List Nat)
    (hx : (reach c ops).s.get id = some x) (hro : x.st.recvOpen = true)
    (hnb : (reach c ops).s.blocking = none) :
    ∃ s', buffer (reach c ops).s id d = (s', .ok ()) ∧
      s'.get id = some { x with buf := x.buf ++ [d], rx := x.rx ++ [d] } := by
  have h := reach_inv c ops
  generalize (reach c ops).s = s at *
  have hg := Inv_get h.1 hx
  have hok := hg.1
  rw [hnb] at hok
  have hle := SubOk_not_overfull hok hro
  have hblk : s.cfg.block = true := by rw [h.2]; exact hb
  have h1 : ¬ (x.buf.length > s.cfg.maxBuf) := by omega
  unfold buffer
  simp only [hx, hro, Bool.not_true, Bool.false_eq_true, ↓reduceIte, h1, put_cfg, hblk]
  split
  · refine ⟨_, rfl, ?_⟩
    show (s.put _).get id = _
    rw [get_put]; simp [hg.2]
  · refine ⟨_, rfl, ?_⟩
    rw [get_put]; simp [hg.2]

/-- **FIFO bookkeeping** (ghost fields, see the model): in every reachable state, for every
substream, the payloads taken from the connection for it while it was open for reading are exactly
the payloads already handed to the reader followed by the buffered ones, in order — nothing is
lost, duplicated or reordered between the connection and the reader. -/
theorem recv_fifo (c : Cfg) (ops : List Op) : ∀ x ∈ (reach c ops).s.subs, x.rx = x.dl ++ x.buf :=
  fun x hx => ((reach_inv c ops).1.2.2 x hx).2.1

/-- **`ResetStream`: the overflowing substream is reset.**  When a Data frame makes a readable
substream's buffer exceed `max_buffer_len`, the frame is still buffered, the substream becomes
`Reset` and exactly one `Reset` frame is queued (pending queue not full). -/
theorem reset_behaviour (c : Cfg) (ops : List Op) (hb : c.block = false) (id : Sid) (x : Sub) (d : List Nat)
    (hx : (reach c ops).s.get id = some x) (hro : x.st.recvOpen = true)
    (hfull : x.buf.length = c.maxBuf)
    (hroom : (reach c ops).s.pendQ.length < c.maxSubs + EXTRA_PENDING_FRAMES) :
    ∃ s', buffer (reach c ops).s id d = (s', .ok ()) ∧
      s'.get id = some { x with buf := x.buf ++ [d], rx := x.rx ++ [d], st := .reset } ∧
      s'.pendQ = (reach c ops).s.pendQ ++ [.reset id] := by
  have h := reach_inv c ops
  generalize (reach c ops).s = s at *
  have hg := Inv_get h.1 hx
  have hblk : s.cfg.block = false := by rw [h.2]; exact hb
  have h1 : ¬ (x.buf.length > s.cfg.maxBuf) := by rw [h.2]; omega
  have h2 : x.buf.length + 1 > s.cfg.maxBuf := by rw [h.2]; omega
  have h3 : ¬ (s.pendQ.length ≥ s.cfg.maxSubs + EXTRA_PENDING_FRAMES) := by rw [h.2]; omega
  unfold buffer
  simp only [hx, hro, Bool.not_true, Bool.false_eq_true, ↓reduceIte, h1, put_cfg, hblk,
    List.length_append, List.length_cons, List.length_nil, Nat.zero_add, h2, checkMaxPending, put_pendQ, h3]
  refine ⟨_, rfl, ?_, rfl⟩
  show ((s.put _).put _).get id = _
  rw [get_put]; simp [hg.2]

/-- …its buffered frames stay readable, first in first out … -/
theorem reset_reads_buffer (s : State) (id : Sid) (x : Sub) (d : List Nat) (rest : List (List Nat))
    (hopen : s.status = .opn) (hx : s.get id = some x) (hbuf : x.buf = d :: rest) :
    (pollReadStream s id).2 = .ready (.ok (some d)) := by
  simp [pollReadStream, guardOpen, hopen, readFromBuf, hx, hbuf]

/-- … and then reads end (`max_buffer_len ≥ 1`; with `max_buffer_len = 0` every read yields
`Pending` before looking at the substream). -/
theorem reset_reads_end (s : State) (id : Sid) (x : Sub) (hopen : s.status = .opn)
    (hx : s.get id = some x) (hbuf : x.buf = []) (hst : x.st.recvOpen = false) (hmb : s.cfg.maxBuf ≠ 0) :
    (pollReadStream s id).2 = .ready (.ok none) := by
  have h0 : ¬ (0 = s.cfg.maxBuf) := fun e => hmb e.symm
  simp [pollReadStream, guardOpen, hopen, readFromBuf, hx, hbuf, readStreamLoop, h0, canRead, hst]

/-- **The `debug_assert!(buf.len() <= max_buffer_len)` in `buffer` holds** whenever `buffer` is
reached (a frame has just been read, so nothing blocks), in every reachable state. -/
theorem buffer_assert_holds (c : Cfg) (ops : List Op) (id : Sid) (d : List Nat)
    (hnb : (reach c ops).s.blocking = none) :
    (buffer (reach c ops).s id d).2 ≠ .error .panic :=
  (Inv_buffer (reach_inv c ops).1 hnb id d).2.2

/-- **`drop_stream` never underflows `max_substreams - 1`.** -/
theorem drop_no_underflow (c : Cfg) (ops : List Op) (id : Sid) :
    (dropStream (reach c ops).s id).2 = false :=
  (Inv_dropStream (reach_inv c ops).1 id).2

/-- **Table entries persist** (the substream table only loses an entry through `drop_stream` of
that very substream, or when the whole connection fails/closes): for every operation — frames from
the remote included — if the connection is healthy afterwards, every substream that was in the
table before is still there, except the one a `drop` names.  Together with `substreams_le` this is
why the substreams an application holds can never outnumber `max_substreams`; the pre-fix
`on_reset` broke exactly this (see `reset_removes_substream_buggy_counterexample`). -/
theorem entries_persist (m : MState) (op : Op) (hst : (step m op).1.s.status = .opn) (j : Sid)
    (hj : ∀ id, op = .drop id → j ≠ id) (h : (m.s.get j).isSome = true) :
    ((step m op).1.s.get j).isSome = true :=
  (step_keeps_entries m op hst).2 j hj h

/-- **A pending close is a no-op.**  When `poll_close_stream(id)` returns `Pending` (the sink is at
its high-water mark over a stalled connection), every entry of the substream table — state, receive
buffer, histories; of `id` and of every other substream — is exactly what it was, and so are the
pending queue, the blocking stream, the inbound queue, everything emitted, the status and the
inbound-stream buffer.  (The Rust code takes the entry out of the map and re-inserts it with its
buffer on `Pending`; a variant that drops the moved-out buffer breaks exactly this.) -/
theorem close_pending_noop (s : State) (id : Sid) (h : (pollCloseStream s id).2 = .pending) :
    (∀ j, (pollCloseStream s id).1.get j = s.get j) ∧
    (pollCloseStream s id).1.pendQ = s.pendQ ∧ (pollCloseStream s id).1.blocking = s.blocking ∧
    (pollCloseStream s id).1.inq = s.inq ∧ (pollCloseStream s id).1.emitted = s.emitted ∧
    (pollCloseStream s id).1.status = s.status ∧ (pollCloseStream s id).1.openQ = s.openQ :=
  close_pending_frame s id h

/-- **Closing never drops a buffered frame**, whatever `poll_close_stream` returns (`Pending`, `Ok`,
on `Open` or `RecvClosed` substreams, on the blocking substream or any other): unless the connection
fails, every substream keeps its receive buffer, its received and delivered histories and its
accepted writes; with `recv_fifo` (received = delivered ++ buffered in every reachable state) the
buffered frames are still handed to the reader afterwards (`reset_reads_buffer`). -/
theorem close_no_frame_dropped (s : State) (id : Sid)
    (hne : ∀ k, (pollCloseStream s id).2 ≠ .ready (.error k)) (j : Sid) (x : Sub) (hx : s.get j = some x) :
    ∃ x', (pollCloseStream s id).1.get j = some x' ∧ x'.buf = x.buf ∧ x'.rx = x.rx ∧ x'.dl = x.dl ∧
      x'.acc = x.acc :=
  close_keeps_buffers s id hne j x hx

/-! ### the defect fixed by `findings/C26-reset-removes-substream.fix.diff` -/

/-- Pre-fix `on_reset`: with `max_substreams = 1` and the single substream `0/receiver` already
reset, a second `Reset` makes the entry vanish, so the next inbound `Open` is accepted although
the application still holds the first substream; the fixed `on_reset` keeps the entry and the
`Open` is answered with a `Reset`.  Likewise a `Reset` after mutual close throws away buffered,
unread data. -/
theorem reset_removes_substream_buggy_counterexample :
    let c : Cfg := { maxSubs := 1, maxBuf := 2, block := true, split := 8 }
    let x : Sub := { id := ⟨0, .listener⟩, st := .reset, buf := [] }
    let s : State := { cfg := c, subs := [x] }
    let y : Sub := { id := ⟨0, .listener⟩, st := .closed, buf := [[170]] }
    let t : State := { cfg := c, subs := [y] }
    (onResetBuggy s ⟨0, .listener⟩).subs = [] ∧
    (onOpen (onResetBuggy s ⟨0, .listener⟩) ⟨1, .dialer⟩).2 = .ok (some ⟨1, .listener⟩) ∧
    (onReset s ⟨0, .listener⟩).subs = [x] ∧
    (onOpen (onReset s ⟨0, .listener⟩) ⟨1, .dialer⟩).2 = .ok none ∧
    (onResetBuggy t ⟨0, .listener⟩).get ⟨0, .listener⟩ = none ∧
    (onReset t ⟨0, .listener⟩).get ⟨0, .listener⟩ = some y := by
  intro c x s y t
  exact ⟨rfl, rfl, rfl, rfl, rfl, rfl⟩

/-! ### non-vacuity -/

example : (reach { maxSubs := 1, maxBuf := 1, block := true, split := 8 }
    [.wire [.frame (.opn ⟨0, .dialer⟩), .frame (.opn ⟨1, .dialer⟩)], .inbound, .inbound]).s.sinkBuf
    = [.reset ⟨1, .listener⟩] := by decide

example : (reach { maxSubs := 2, maxBuf := 1, block := false, split := 8 }
    [.wire [.frame (.opn ⟨0, .dialer⟩), .frame (.data ⟨0, .dialer⟩ [7])], .inbound]).s.subs.length = 1 := by decide

end C26

#print axioms C26.reach_inv
#print axioms C26.substreams_le
#print axioms C26.buffer_le
#print axioms C26.pending_frames_bounded
#print axioms C26.excess_open_reset
#print axioms C26.excess_open_overflow
#print axioms C26.open_accepted
#print axioms C26.block_no_loss
#print axioms C26.recv_fifo
#print axioms C26.reset_behaviour
#print axioms C26.reset_reads_buffer
#print axioms C26.reset_reads_end
#print axioms C26.buffer_assert_holds
#print axioms C26.drop_no_underflow
#print axioms C26.entries_persist
#print axioms C26.close_pending_noop
#print axioms C26.close_no_frame_dropped
#print axioms C26.reset_removes_substream_buggy_counterexample
