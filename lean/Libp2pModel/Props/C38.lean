import Libp2pModel.Proofs.C38Order
import Libp2pModel.Model.C38_Walk
import Libp2pModel.Proofs.C37Spec
/-!
# C38 — closest-key enumeration is complete and sorted (property theorems)

`closestKeys` models `KBucketsTable::closest_keys` with `ClosestBucketsIter` as repaired by
`findings/C38-bucket0-twice.fix.diff`; `closestKeysBuggy` is the pre-repair iterator.
-/
namespace C38

/-! ## The bucket order is a permutation of all 256 indices -/

theorem bucketOrderSpec_perm (d : Nat) : (bucketOrderSpec d).Perm (List.range 256) := by
  unfold bucketOrderSpec NUM_BUCKETS
  rw [List.filter_reverse]
  refine List.Perm.trans (List.Perm.append_right _ (List.reverse_perm _)) ?_
  exact List.filter_append_perm (fun i => d.testBit i) (List.range 256)

/-- **every bucket index exactly once**, for every distance -/
theorem bucket_order_perm (d : Nat) (hd : d < 2 ^ 256) : (bucketOrder d).Perm (List.range 256) := by
  rw [bucketOrder_eq d hd]; exact bucketOrderSpec_perm d

theorem bucket_order_nodup (d : Nat) (hd : d < 2 ^ 256) : (bucketOrder d).Nodup :=
  (bucket_order_perm d hd).nodup_iff.2 List.nodup_range

theorem bucket_order_mem (d : Nat) (hd : d < 2 ^ 256) (i : Nat) : i ∈ bucketOrder d ↔ i < 256 := by
  rw [(bucket_order_perm d hd).mem_iff, List.mem_range]

/-! ## The order of the buckets agrees with the XOR metric -/

/-- bucket `i` is visited before bucket `j` only if: `i > j` and bit `i` of the distance is set
(zooming in), or `i < j` and bit `j` is clear (zooming out) -/
def Before (d i j : Nat) : Prop :=
  (j < i ∧ d.testBit i = true) ∨ (i < j ∧ d.testBit j = false)

theorem bucketOrderSpec_pairwise (d : Nat) : (bucketOrderSpec d).Pairwise (Before d) := by
  unfold bucketOrderSpec NUM_BUCKETS
  rw [List.pairwise_append]
  refine ⟨?_, ?_, ?_⟩
  · -- descending set bits
    have h1 : (List.range 256).reverse.Pairwise (fun a b => b < a) := by
      rw [List.pairwise_reverse]; exact List.pairwise_lt_range
    have h2 := (h1.filter fun i => d.testBit i)
    rw [List.Pairwise.and_mem] at h2
    refine h2.imp ?_
    intro a b ⟨ha, _, hab⟩
    exact Or.inl ⟨hab, (List.mem_filter.1 ha).2⟩
  · have h1 : (List.range 256).Pairwise (fun a b => a < b) := List.pairwise_lt_range
    have h2 := (h1.filter fun i => !d.testBit i)
    rw [List.Pairwise.and_mem] at h2
    refine h2.imp ?_
    intro a b ⟨_, hb, hab⟩
    exact Or.inr ⟨hab, by simpa using (List.mem_filter.1 hb).2⟩
  · intro a ha b hb
    have hsa : d.testBit a = true := (List.mem_filter.1 ha).2
    have hcb : d.testBit b = false := by simpa using (List.mem_filter.1 hb).2
    rcases Nat.lt_trichotomy a b with h | h | h
    · exact Or.inr ⟨h, hcb⟩
    · subst h; rw [hsa] at hcb; cases hcb
    · exact Or.inl ⟨h, hsa⟩

theorem bucket_order_pairwise (d : Nat) (hd : d < 2 ^ 256) : (bucketOrder d).Pairwise (Before d) := by
  rw [bucketOrder_eq d hd]; exact bucketOrderSpec_pairwise d

/-- distance `e` (to the local key) falls into bucket `i` -/
def InBucket (i e : Nat) : Prop := 2 ^ i ≤ e ∧ e < 2 ^ (i + 1)

theorem one_xor_div (D : Nat) : (1 ^^^ D) / 2 = D / 2 := by
  rw [Nat.xor_div_two]; simp

theorem one_xor_mod (D : Nat) : (1 ^^^ D) % 2 = 1 % 2 ^^^ D % 2 := by
  have := @Nat.xor_mod_two_pow 1 D 1
  simpa using this

theorem one_xor_even (D : Nat) (h : D % 2 = 0) : 1 ^^^ D = D + 1 := by
  have hd := one_xor_div D
  have hm := one_xor_mod D
  rw [h] at hm
  have hm' : (1 ^^^ D) % 2 = 1 := hm
  omega

theorem one_xor_odd (D : Nat) (h : D % 2 = 1) : 1 ^^^ D = D - 1 := by
  have hd := one_xor_div D
  have hm := one_xor_mod D
  rw [h] at hm
  have hm' : (1 ^^^ D) % 2 = 0 := hm
  omega

theorem inBucket_div {i e : Nat} (h : InBucket i e) : e / 2 ^ i = 1 := by
  have hpos : 0 < 2 ^ i := Nat.pow_pos (by decide)
  have h1 : e / 2 ^ i < 2 := by
    rw [Nat.div_lt_iff_lt_mul hpos, Nat.mul_comm, ← Nat.pow_succ]; exact h.2
  have h2 : 1 ≤ e / 2 ^ i := by
    rw [Nat.le_div_iff_mul_le hpos, Nat.one_mul]; exact h.1
  omega

/-- **the metric argument**: if bucket `i` is visited before bucket `j`, every key of bucket `i`
is strictly closer to the target than every key of bucket `j` (`d` = local ⊕ target,
`e`, `e'` = the keys' distances to the local key, so `e ⊕ d` = the key's distance to the target) -/
theorem before_lt {d i j e e' : Nat} (hb : Before d i j) (he : InBucket i e) (he' : InBucket j e') :
    e ^^^ d < e' ^^^ d := by
  rcases hb with ⟨hji, hbit⟩ | ⟨hij, hbit⟩
  · -- i > j, bit i of d set: compare the quotients by 2^i
    have hposi : 0 < 2 ^ i := Nat.pow_pos (by decide)
    have hD : d / 2 ^ i % 2 = 1 := by
      have := @Nat.testBit_eq_decide_div_mod_eq i d
      rw [hbit] at this; simpa using this.symm
    have he'0 : e' / 2 ^ i = 0 := by
      apply Nat.div_eq_of_lt
      exact Nat.lt_of_lt_of_le he'.2 (Nat.pow_le_pow_right (by decide) hji)
    have h1 : (e ^^^ d) / 2 ^ i = d / 2 ^ i - 1 := by
      rw [Nat.xor_div_two_pow, inBucket_div he, one_xor_odd _ hD]
    have h2 : (e' ^^^ d) / 2 ^ i = d / 2 ^ i := by
      rw [Nat.xor_div_two_pow, he'0, Nat.zero_xor]
    have hlt : (e ^^^ d) / 2 ^ i < (e' ^^^ d) / 2 ^ i := by
      rw [h1, h2]; generalize d / 2 ^ i = x at hD ⊢; omega
    exact Nat.lt_of_div_lt_div hlt
  · -- i < j, bit j of d clear: compare the quotients by 2^j
    have hD : d / 2 ^ j % 2 = 0 := by
      have := @Nat.testBit_eq_decide_div_mod_eq j d
      rw [hbit] at this
      have h2 := Nat.mod_two_eq_zero_or_one (d / 2 ^ j)
      rcases h2 with h2 | h2
      · exact h2
      · simp [h2] at this
    have he0 : e / 2 ^ j = 0 := by
      apply Nat.div_eq_of_lt
      exact Nat.lt_of_lt_of_le he.2 (Nat.pow_le_pow_right (by decide) hij)
    have h1 : (e ^^^ d) / 2 ^ j = d / 2 ^ j := by
      rw [Nat.xor_div_two_pow, he0, Nat.zero_xor]
    have h2 : (e' ^^^ d) / 2 ^ j = d / 2 ^ j + 1 := by
      rw [Nat.xor_div_two_pow, inBucket_div he', one_xor_even _ hD]
    have hlt : (e ^^^ d) / 2 ^ j < (e' ^^^ d) / 2 ^ j := by
      rw [h1, h2]; exact Nat.lt_succ_self _
    exact Nat.lt_of_div_lt_div hlt

theorem xor_xor_cancel (l a t : Nat) : (l ^^^ a) ^^^ (l ^^^ t) = t ^^^ a := by
  apply Nat.eq_of_testBit_eq
  intro i
  simp only [Nat.testBit_xor]
  cases l.testBit i <;> cases a.testBit i <;> cases t.testBit i <;> rfl

theorem bucketIndex_inBucket {e i : Nat} (h : bucketIndex e = some i) : InBucket i e := by
  unfold bucketIndex at h
  by_cases h0 : e = 0
  · simp [h0] at h
  · simp only [h0, if_false, Option.some.injEq] at h
    exact (Nat.log2_eq_iff h0).1 h

/-- **bucket_order_monotone**, on keys: for a key `a` in the bucket visited earlier and `b` in a
bucket visited later, `a` is strictly closer to the target -/
theorem bucket_order_monotone {l t a b i j : Nat} (hb : Before (l ^^^ t) i j)
    (ha : bucketIndex (l ^^^ a) = some i) (hbk : bucketIndex (l ^^^ b) = some j) :
    t ^^^ a < t ^^^ b := by
  have := before_lt hb (bucketIndex_inBucket ha) (bucketIndex_inBucket hbk)
  rwa [xor_xor_cancel, xor_xor_cancel] at this

/-! ## Tables -/

/-- the structural invariant of the routing table that `closest_keys` relies on (part of C37's
invariant): every key sits in the bucket of its log-distance, no duplicates inside a bucket, at most
`bucket_size` keys per bucket, 256-bit local key -/
structure WF (t : Table) : Prop where
  local_lt : t.localKey < 2 ^ 256
  index : ∀ i, i < 256 → ∀ k ∈ t.bucket i, bucketIndex (t.localKey ^^^ k) = some i
  nodup : ∀ i, i < 256 → (t.bucket i).Nodup
  size : ∀ i, i < 256 → (t.bucket i).length ≤ t.bucketSize

theorem closerTo_trans (t a b c : Nat) : closerTo t a b = true → closerTo t b c = true → closerTo t a c = true := by
  simp only [closerTo, decide_eq_true_eq]; omega

theorem closerTo_total (t a b : Nat) : (closerTo t a b || closerTo t b a) = true := by
  simp only [closerTo, Bool.or_eq_true, decide_eq_true_eq]; omega

theorem xor_left_inj {t a b : Nat} (h : t ^^^ a = t ^^^ b) : a = b := by
  have : t ^^^ (t ^^^ a) = t ^^^ (t ^^^ b) := by rw [h]
  rwa [← Nat.xor_assoc, ← Nat.xor_assoc, Nat.xor_self, Nat.zero_xor, Nat.zero_xor] at this

theorem bucketSorted_perm {t : Table} (h : WF t) (target i : Nat) (hi : i < 256) :
    (bucketSorted t target i).Perm (t.bucket i) := by
  unfold bucketSorted
  rw [List.take_of_length_le (h.size i hi)]
  exact List.mergeSort_perm _ _

/-- inside one bucket the keys come out strictly sorted -/
theorem bucketSorted_sorted {t : Table} (h : WF t) (target i : Nat) (hi : i < 256) :
    (bucketSorted t target i).Pairwise (fun a b => target ^^^ a < target ^^^ b) := by
  have hp := bucketSorted_perm h target i hi
  have hnd : (bucketSorted t target i).Nodup := hp.nodup_iff.2 (h.nodup i hi)
  have hs : (bucketSorted t target i).Pairwise (fun a b => closerTo target a b = true) :=
    List.pairwise_mergeSort (closerTo_trans target) (closerTo_total target) _
  refine (hs.and hnd).imp ?_
  intro a b ⟨h1, h2⟩
  simp only [closerTo, decide_eq_true_eq] at h1
  have : target ^^^ a ≠ target ^^^ b := fun he => h2 (xor_left_inj he)
  omega

theorem flatMap_perm_of_forall {α β} (l : List α) (f g : α → List β) (h : ∀ a ∈ l, (f a).Perm (g a)) :
    (l.flatMap f).Perm (l.flatMap g) := by
  induction l with
  | nil => exact List.Perm.refl _
  | cons a l ih =>
    simp only [List.flatMap_cons]
    exact List.Perm.append (h a (by simp)) (ih fun x hx => h x (by simp [hx]))

/-- **complete**: the enumeration is a permutation of the stored keys (each key as often as it is
stored, i.e. exactly once) — for every well-formed table and every target -/
theorem complete {t : Table} (h : WF t) (target : Nat) (ht : target < 2 ^ 256) :
    (closestKeys t target).Perm t.keys := by
  have hd : t.localKey ^^^ target < 2 ^ 256 := Nat.xor_lt_two_pow h.local_lt ht
  unfold closestKeys closestWith Table.keys NUM_BUCKETS
  refine List.Perm.trans ((bucket_order_perm _ hd).flatMap_right _) ?_
  apply flatMap_perm_of_forall
  intro i hi
  exact bucketSorted_perm h target i (List.mem_range.1 hi)

/-- **sorted**: in strictly increasing XOR distance to the target -/
theorem sorted {t : Table} (h : WF t) (target : Nat) (ht : target < 2 ^ 256) :
    (closestKeys t target).Pairwise (fun a b => target ^^^ a < target ^^^ b) := by
  have hd : t.localKey ^^^ target < 2 ^ 256 := Nat.xor_lt_two_pow h.local_lt ht
  unfold closestKeys closestWith
  rw [List.pairwise_flatMap]
  constructor
  · intro i hi
    exact bucketSorted_sorted h target i ((bucket_order_mem _ hd i).1 hi)
  · have hp := bucket_order_pairwise _ hd
    rw [List.Pairwise.and_mem] at hp
    refine hp.imp ?_
    intro i j ⟨hi, hj, hb⟩ a ha b hbm
    have hi' := (bucket_order_mem _ hd i).1 hi
    have hj' := (bucket_order_mem _ hd j).1 hj
    have ha' := (bucketSorted_perm h target i hi').mem_iff.1 ha
    have hb' := (bucketSorted_perm h target j hj').mem_iff.1 hbm
    exact bucket_order_monotone hb (h.index i hi' a ha') (h.index j hj' b hb')

/-- **C38**: every stored key exactly once, in non-decreasing (indeed strictly increasing) distance -/
theorem complete_sorted {t : Table} (h : WF t) (target : Nat) (ht : target < 2 ^ 256) :
    (closestKeys t target).Perm t.keys ∧ (closestKeys t target).Nodup ∧
    (∀ k, k ∈ t.keys → (closestKeys t target).count k = 1) ∧
    (closestKeys t target).Pairwise (fun a b => target ^^^ a ≤ target ^^^ b) := by
  have hs := sorted h target ht
  have hnd : (closestKeys t target).Nodup :=
    hs.imp (fun {a b} hab he => by rw [he] at hab; exact Nat.lt_irrefl _ hab)
  refine ⟨complete h target ht, hnd, ?_, hs.imp (fun hab => Nat.le_of_lt hab)⟩
  intro k hk
  rw [hnd.count, if_pos ((complete h target ht).mem_iff.2 hk)]

/-! ## Well-formedness is what the table operations maintain -/

theorem bucket_new (l s i : Nat) : (Table.new l s).bucket i = [] := by
  unfold Table.bucket Table.new
  simp only [List.getD_eq_getElem?_getD]
  by_cases h : i < NUM_BUCKETS
  · simp [h]
  · simp [h]

theorem wf_new (l s : Nat) (hl : l < 2 ^ 256) : WF (Table.new l s) := by
  refine ⟨hl, ?_, ?_, ?_⟩ <;> intro i _ <;> simp [bucket_new]

theorem bucket_set (t : Table) (i j : Nat) (b : List Nat) (hi : i < t.buckets.length) :
    ({ t with buckets := setBucket t.buckets i b } : Table).bucket j =
      if j = i then b else t.bucket j := by
  unfold Table.bucket setBucket
  simp only [List.getD_eq_getElem?_getD, List.getElem?_set]
  by_cases h : i = j
  · subst h; simp [hi]
  · have : ¬ j = i := fun e => h e.symm
    simp [h, this]

/-- inserting (as the harness does, through `Entry::Absent → insert`) keeps the table well-formed -/
theorem wf_insert {t : Table} (h : WF t) (hlen : t.buckets.length = 256) (k : Nat) (hk : k < 2 ^ 256) :
    WF (t.insert k).1 ∧ (t.insert k).1.buckets.length = 256 := by
  unfold Table.insert
  cases hbi : bucketIndex (t.localKey ^^^ k) with
  | none => exact ⟨h, hlen⟩
  | some i =>
    simp only
    by_cases hc : (t.bucket i).contains k = true
    · simp only [hc, if_true]; exact ⟨h, hlen⟩
    · simp only [hc, Bool.false_eq_true, if_false]
      by_cases hfull : (t.bucket i).length ≥ t.bucketSize
      · simp only [hfull, if_true]; exact ⟨h, hlen⟩
      · simp only [hfull, if_false]
        have hi : i < 256 := by
          have hd : t.localKey ^^^ k < 2 ^ 256 := Nat.xor_lt_two_pow h.local_lt hk
          have := bucketIndex_inBucket hbi
          apply Classical.byContradiction
          intro hge
          have : 2 ^ 256 ≤ 2 ^ i := Nat.pow_le_pow_right (by decide) (by omega)
          have := Nat.le_trans this (bucketIndex_inBucket hbi).1
          omega
        have hnot : k ∉ t.bucket i := by simpa using hc
        refine ⟨⟨h.local_lt, ?_, ?_, ?_⟩, by simp [setBucket, hlen]⟩
        · intro j hj x hx
          rw [bucket_set t i j _ (by omega)] at hx
          by_cases hji : j = i
          · subst hji
            simp only [if_true, List.mem_append, List.mem_singleton] at hx
            rcases hx with hx | rfl
            · exact h.index j hj x hx
            · exact hbi
          · simp only [hji, if_false] at hx
            exact h.index j hj x hx
        · intro j hj
          rw [bucket_set t i j _ (by omega)]
          by_cases hji : j = i
          · subst hji
            simp only [if_true]
            rw [List.nodup_append]
            refine ⟨h.nodup j hj, by simp, ?_⟩
            intro a ha b hb
            simp only [List.mem_singleton] at hb
            subst hb
            intro e; subst e; exact hnot ha
          · simp only [hji, if_false]; exact h.nodup j hj
        · intro j hj
          rw [bucket_set t i j _ (by omega)]
          by_cases hji : j = i
          · subst hji
            simp only [if_true, List.length_append, List.length_singleton]
            change (t.bucket j).length + 1 ≤ t.bucketSize
            omega
          · simp only [hji, if_false]; exact h.size j hj

/-- every table built from an empty one by any sequence of inserts of 256-bit keys is well-formed,
so `complete_sorted` applies to it -/
theorem wf_reachable (l s : Nat) (hl : l < 2 ^ 256) (ks : List Nat) (hks : ∀ k ∈ ks, k < 2 ^ 256) :
    WF (ks.foldl (fun t k => (t.insert k).1) (Table.new l s)) := by
  suffices ∀ t : Table, WF t → t.buckets.length = 256 →
      WF (ks.foldl (fun t k => (t.insert k).1) t) from
    this _ (wf_new l s hl) (List.length_replicate ..)
  induction ks with
  | nil => intro t h _; exact h
  | cons k ks ih =>
    intro t h hlen
    have := wf_insert h hlen k (hks k (by simp))
    exact ih (fun x hx => hks x (by simp [hx])) _ this.1 this.2

/-! ## The Spec accepts the model -/

theorem sortedTo_of_pairwise (target : Nat) : ∀ l : List Nat,
    l.Pairwise (fun a b => target ^^^ a ≤ target ^^^ b) → sortedTo target l = true
  | [], _ => rfl
  | [_], _ => rfl
  | a :: b :: rest, h => by
    rw [List.pairwise_cons] at h
    simp only [sortedTo, Bool.and_eq_true, decide_eq_true_eq]
    exact ⟨h.1 b (by simp), sortedTo_of_pairwise target (b :: rest) h.2⟩

theorem exactlyOnce_of_perm {stored out : List Nat} (hp : out.Perm stored) (hnd : out.Nodup) :
    exactlyOnce stored out = true := by
  simp only [exactlyOnce, Bool.and_eq_true, List.all_eq_true, beq_iff_eq, List.contains_iff_mem]
  refine ⟨fun k hk => ?_, fun k hk => hp.mem_iff.1 hk⟩
  rw [hnd.count, if_pos (hp.mem_iff.2 hk)]

theorem spec_closest {t : Table} (h : WF t) (target : Nat) (ht : target < 2 ^ 256) :
    spec t.keys target (closestKeys t target) = true := by
  obtain ⟨hp, hnd, _, hs⟩ := complete_sorted h target ht
  simp only [spec, Bool.and_eq_true]
  exact ⟨exactlyOnce_of_perm hp hnd, sortedTo_of_pairwise target _ hs⟩

theorem spec_order (d : Nat) (hd : d < 2 ^ 256) : specOrder (bucketOrder d) = true :=
  exactlyOnce_of_perm (bucket_order_perm d hd) (bucket_order_nodup d hd)

/-- the Spec means the property: an accepted output contains every stored key exactly once -/
theorem spec_sound (stored : List Nat) (target : Nat) (out : List Nat) (h : spec stored target out = true) :
    (∀ k ∈ stored, out.count k = 1) ∧ (∀ k ∈ out, k ∈ stored) := by
  simp only [spec, exactlyOnce, Bool.and_eq_true, List.all_eq_true, beq_iff_eq,
    List.contains_iff_mem] at h
  exact ⟨h.1.1, h.1.2⟩

/-! ## The pre-repair iterator violates the property -/

/-- bucket 0 is produced twice for the distance 0 (target = local key) and for distance 1 -/
theorem bucket0_twice_buggy_counterexample :
    (bucketOrderBuggy 0).count 0 = 2 ∧ (bucketOrderBuggy 1).count 0 = 2 ∧
    (bucketOrderBuggy 5).count 0 = 2 := by decide +kernel

/-- hence a key at distance 1 from the local key is enumerated twice: local key 6, stored key 7,
target 6 -/
theorem closest_twice_buggy_counterexample :
    closestKeysBuggy ((Table.new 6 20).insert 7).1 6 = [7, 7] ∧
    closestKeys ((Table.new 6 20).insert 7).1 6 = [7] := by decide +kernel

/-! ## Non-vacuity -/
example : WF ((Table.new 6 20).insert 7).1 :=
  (wf_insert (wf_new 6 20 (by decide)) (List.length_replicate ..) 7 (by decide)).1
example : bucketIndex 5 = some 2 := by decide

/-! ## `closest_keys` on the full table: pending entries are applied during the walk -/

/-- bucket `j` after `apply_pending` at the table's current instant -/
def appliedB (t : C37.Table) (j : Nat) : C37.Bucket := ((t.bucket j).applyPending t.now (2 * t.ops)).1

theorem appliedB_congr {t t' : C37.Table} {k : Nat} (hb : t'.bucket k = t.bucket k) (hn : t'.now = t.now)
    (ho : t'.ops = t.ops) : appliedB t' k = appliedB t k := by
  unfold appliedB; rw [hb, hn, ho]

theorem flatMap_congr' {α β} (l : List α) (f g : α → List β) (h : ∀ a ∈ l, f a = g a) :
    l.flatMap f = l.flatMap g := by
  induction l with
  | nil => rfl
  | cons a l ih =>
    simp only [List.flatMap_cons]
    rw [h a (by simp), ih fun x hx => h x (by simp [hx])]

theorem closestWalk_cons (bsize target : Nat) (t : C37.Table) (i : Nat) (rest : List Nat) :
    closestWalk bsize target t (i :: rest) =
      ((closestWalk bsize target ((t.setBucket i (appliedB t i)).record
          ((t.bucket i).applyPending t.now (2 * t.ops)).2) rest).1,
        sortedKeys bsize target (appliedB t i) ++
        (closestWalk bsize target ((t.setBucket i (appliedB t i)).record
          ((t.bucket i).applyPending t.now (2 * t.ops)).2) rest).2) := by
  simp only [closestWalk, appliedB, C37.Table.record]
  cases ((t.bucket i).applyPending t.now (2 * t.ops)).2 <;> rfl

/-- the walk visits each listed bucket once: it yields, bucket by bucket, the sorted keys of the
bucket AFTER its pending entry was applied, and leaves exactly those buckets applied -/
theorem walk_spec (bsize target : Nat) : ∀ (L : List Nat) (t : C37.Table), L.Nodup →
    (∀ i ∈ L, i < t.buckets.length) →
    (closestWalk bsize target t L).2 = L.flatMap (fun i => sortedKeys bsize target (appliedB t i)) ∧
    (∀ j, (closestWalk bsize target t L).1.bucket j = if j ∈ L then appliedB t j else t.bucket j) ∧
    (closestWalk bsize target t L).1.now = t.now ∧ (closestWalk bsize target t L).1.ops = t.ops ∧
    (closestWalk bsize target t L).1.localKey = t.localKey ∧
    (closestWalk bsize target t L).1.buckets.length = t.buckets.length := by
  intro L
  induction L with
  | nil => intro t _ _; simp [closestWalk]
  | cons i rest ih =>
    intro t hnd hlt
    rw [closestWalk_cons]
    have hi : i < t.buckets.length := hlt i (by simp)
    have hirest : i ∉ rest := (List.nodup_cons.1 hnd).1
    have hbk : ∀ j, ((t.setBucket i (appliedB t i)).record
        ((t.bucket i).applyPending t.now (2 * t.ops)).2).bucket j = if j = i then appliedB t i else t.bucket j := by
      intro j; rw [C37.record_bucket, C37.bucket_setBucket t i j _ hi]
    have hlen : ((t.setBucket i (appliedB t i)).record
        ((t.bucket i).applyPending t.now (2 * t.ops)).2).buckets.length = t.buckets.length := by
      rw [C37.record_len]; simp [C37.Table.setBucket]
    obtain ⟨h1, h2, h3, h4, h5, h6⟩ := ih ((t.setBucket i (appliedB t i)).record
        ((t.bucket i).applyPending t.now (2 * t.ops)).2) (List.nodup_cons.1 hnd).2
        (fun k hk => by rw [hlen]; exact hlt k (by simp [hk]))
    rw [C37.record_now] at h3
    rw [C37.record_ops] at h4
    rw [C37.record_local] at h5
    have happ : ∀ k, k ≠ i → appliedB ((t.setBucket i (appliedB t i)).record
        ((t.bucket i).applyPending t.now (2 * t.ops)).2) k = appliedB t k := by
      intro k hk
      apply appliedB_congr
      · rw [hbk k]; simp only [hk, if_false]
      · rw [C37.record_now]; rfl
      · rw [C37.record_ops]; rfl
    refine ⟨?_, ?_, h3, h4, h5, by rw [h6, hlen]⟩
    · simp only [List.flatMap_cons]
      rw [h1]
      congr 1
      apply flatMap_congr'
      intro k hk
      rw [happ k (fun e => hirest (e ▸ hk))]
    · intro j
      rw [h2 j]
      by_cases hji : j = i
      · subst hji
        simp only [hirest, if_false, List.mem_cons, true_or, if_true]
        rw [hbk j]; simp
      · simp only [List.mem_cons, hji, false_or]
        by_cases hjr : j ∈ rest
        · simp only [hjr, if_true]; exact happ j hji
        · simp only [hjr, if_false]; rw [hbk j]; simp [hji]

/-- the key view of the table after all due pending entries were applied -/
def viewApplied (s : Nat) (t : C37.Table) : Table :=
  ⟨t.localKey, s, (List.range 256).map fun i => (appliedB t i).nodes.map (·.key)⟩

theorem viewApplied_bucket (s : Nat) (t : C37.Table) {i : Nat} (hi : i < 256) :
    (viewApplied s t).bucket i = (appliedB t i).nodes.map (·.key) := by
  unfold Table.bucket viewApplied
  simp [List.getD_eq_getElem?_getD, hi]

theorem viewApplied_wf {t : C37.Table} (h : C37.TInv t) (s : Nat)
    (hcap : ∀ i, i < 256 → (t.bucket i).capacity = s) : WF (viewApplied s t) := by
  have hb : ∀ i, i < 256 → C37.BInv t.localKey i (2 * t.ops + 1) (appliedB t i) :=
    fun i hi => C37.applyPending_inv (h.buckets i hi) t.now (Nat.le_refl _)
  refine ⟨h.localLt, ?_, ?_, ?_⟩
  · intro i hi k hk
    rw [viewApplied_bucket s t hi] at hk
    obtain ⟨n, hn, rfl⟩ := List.mem_map.1 hk
    exact (hb i hi).index n hn
  · intro i hi
    rw [viewApplied_bucket s t hi]
    exact (hb i hi).nodup
  · intro i hi
    rw [viewApplied_bucket s t hi, List.length_map]
    have := (hb i hi).len
    have hc : (appliedB t i).capacity = s := by
      unfold appliedB; rw [C37.applyPending_cap]; exact hcap i hi
    rw [hc] at this
    exact this

/-- **C38 on the full table** — for every table satisfying the C37 invariant (entries of both
statuses, pending entries, any clock value) and every target: `closest_keys` applies, in each
bucket, the pending entry if it is due (and nothing else changes); what it yields is exactly the set
of keys stored AFTER these applications — every such key exactly once — in strictly increasing XOR
distance to the target; and the table invariant is preserved. -/
theorem closest_complete_sorted {t : C37.Table} (h : C37.TInv t) (s target : Nat) (ht : target < 2 ^ 256)
    (hcap : ∀ i, i < 256 → (t.bucket i).capacity = s) :
    (∀ j, j < 256 → (closestFull s t target).1.bucket j = appliedB t j) ∧
    (closestFull s t target).2.Perm (storedKeys (closestFull s t target).1) ∧
    (closestFull s t target).2.Nodup ∧
    (∀ k, k ∈ storedKeys (closestFull s t target).1 → (closestFull s t target).2.count k = 1) ∧
    (closestFull s t target).2.Pairwise (fun a b => target ^^^ a < target ^^^ b) ∧
    C37.TInv (closestFull s t target).1 := by
  have hd : t.localKey ^^^ target < 2 ^ 256 := Nat.xor_lt_two_pow h.localLt ht
  have hL := bucket_order_nodup _ hd
  have hmem := bucket_order_mem _ hd
  obtain ⟨h1, h2, h3, h4, h5, h6⟩ := walk_spec s target (bucketOrder (t.localKey ^^^ target)) t hL
    (fun i hi => by rw [h.len]; exact (hmem i).1 hi)
  have hout : (closestFull s t target).2 = closestKeys (viewApplied s t) target := by
    show (closestWalk s target t (bucketOrder (t.localKey ^^^ target))).2 = _
    rw [h1]
    unfold closestKeys closestWith
    apply flatMap_congr'
    intro i hi
    have hi' := (hmem i).1 hi
    unfold bucketSorted sortedKeys
    rw [viewApplied_bucket s t hi']
    rfl
  have hbk : ∀ j, j < 256 → (closestFull s t target).1.bucket j = appliedB t j := by
    intro j hj
    show ((closestWalk s target t (bucketOrder (t.localKey ^^^ target))).1.bump).bucket j = _
    rw [C37.bump_bucket, h2 j, if_pos ((hmem j).2 hj)]
  have hstored : storedKeys (closestFull s t target).1 = (viewApplied s t).keys := by
    unfold storedKeys Table.keys
    apply flatMap_congr'
    intro i hi
    have hi' : i < 256 := List.mem_range.1 hi
    rw [hbk i hi', viewApplied_bucket s t hi']
  have hwf := viewApplied_wf h s hcap
  obtain ⟨c1, c2, c3, _⟩ := complete_sorted hwf target ht
  refine ⟨hbk, ?_, ?_, ?_, ?_, ?_⟩
  · rw [hout, hstored]; exact c1
  · rw [hout]; exact c2
  · intro k hk; rw [hout]; rw [hstored] at hk; exact c3 k hk
  · rw [hout]; exact sorted hwf target ht
  · apply C37.finish' (t := t) _ h4
    refine ⟨by rw [h5]; exact h.localLt, by rw [h6]; exact h.len, ?_⟩
    intro j hj
    rw [h5, h2 j, if_pos ((hmem j).2 hj)]
    exact C37.applyPending_inv (h.buckets j hj) t.now (Nat.le_refl _)

/-- the Spec (every stored key exactly once, sorted) accepts the model's output against the
model's own post-call table -/
theorem spec_closest_full {t : C37.Table} (h : C37.TInv t) (s target : Nat) (ht : target < 2 ^ 256)
    (hcap : ∀ i, i < 256 → (t.bucket i).capacity = s) :
    spec (storedKeys (closestFull s t target).1) target (closestFull s t target).2 = true := by
  obtain ⟨_, hp, hnd, _, hs, _⟩ := closest_complete_sorted h s target ht hcap
  simp only [spec, Bool.and_eq_true]
  exact ⟨exactlyOnce_of_perm hp hnd, sortedTo_of_pairwise target _ (hs.imp Nat.le_of_lt)⟩

end C38

#print axioms C38.bucketOrder_eq
#print axioms C38.bucket_order_perm
#print axioms C38.bucket_order_pairwise
#print axioms C38.before_lt
#print axioms C38.bucket_order_monotone
#print axioms C38.complete
#print axioms C38.sorted
#print axioms C38.complete_sorted
#print axioms C38.wf_insert
#print axioms C38.wf_reachable
#print axioms C38.spec_closest
#print axioms C38.walk_spec
#print axioms C38.closest_complete_sorted
#print axioms C38.spec_closest_full
#print axioms C38.spec_order
#print axioms C38.spec_sound
#print axioms C38.bucket0_twice_buggy_counterexample
#print axioms C38.closest_twice_buggy_counterexample
