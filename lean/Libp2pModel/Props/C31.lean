import Libp2pModel.Proofs.C31Walk
import Libp2pModel.Proofs.C31Good
/-!
# C31 — theorems

Property (properties.jsonl): the RPC decoder accepts every RPC whose protobuf encoding is within
`max_transmit_size` and within the publish/control limits, however the incoming byte stream
splits or coalesces frames, and rejects RPCs whose encoding exceeds `max_transmit_size`.

`decodeStep` models the REPAIRED `GossipsubCodec::decode` (finding C31-size-test-on-whole-buffer);
`decodeStepBuggy` the function as it was.
-/
namespace C31

/-- a sender-side RPC that the property talks about: well-formed fields, within all three limits -/
def good (L : Limits) (r : List Field) : Prop := (∀ f ∈ r, f.wf) ∧ within L r

/-- the byte stream carrying a list of RPCs -/
def stream (rs : List (List Field)) : List Nat := (rs.map frame).flatten

theorem pow63 : (128 : Nat) ^ 9 = 2 ^ 63 := by decide

theorem len_le9 (n : Nat) (h : n < 2 ^ 63) : Varint.len n ≤ 9 :=
  Varint.len_le_of_lt 8 n (by rw [pow63]; exact h)

theorem uv_frame (n : Nat) (rest : List Nat) (h : n < 2 ^ 63) :
    uvDecode 0 (Varint.encode n ++ rest) = .ok n rest :=
  uv_encode n 0 rest (by intro h0; omega) (by have := len_le9 n h; omega)

theorem frame_ne_nil (r : List Field) : frame r ≠ [] := by
  unfold frame
  have := Varint.encode_ne_nil (encRpc r).length
  cases h : Varint.encode (encRpc r).length with
  | nil => exact absurd h this
  | cons a l => simp

/-- **one frame, whatever follows it in the read buffer**: a good RPC's frame at the front of the
buffer is decoded to exactly its fields, and exactly its bytes are consumed -/
theorem decodeStep_frame (L : Limits) (hL : L.max < 2 ^ 63) (r : List Field) (hg : good L r)
    (rest : List Nat) : decodeStep L (frame r ++ rest) = .ok (r.map tokOf) rest := by
  obtain ⟨hwf, hsize, hpub, hctl⟩ := hg
  have hn : (encRpc r).length < 2 ^ 63 := by omega
  have huv : uvDecode 0 (frame r ++ rest) = .ok (encRpc r).length (encRpc r ++ rest) := by
    unfold frame; rw [List.append_assoc]; exact uv_frame _ _ hn
  have hlen : (frame r ++ rest).length = Varint.len (encRpc r).length + ((encRpc r).length + rest.length) := by
    unfold frame Varint.len; simp only [List.length_append]; omega
  have hcp : consumePrefix (frame r ++ rest) = .ok (encRpc r) := by
    unfold consumePrefix
    rw [huv]
    simp [List.take_left']
  have hv : validate L (frame r ++ rest) = .ok := by
    unfold validate
    rw [hcp]
    simp only
    rw [if_neg (by omega)]
    rw [walk_enc L r _ 0 0 hwf (Nat.le_refl _) (by omega) (by omega)]
  unfold decodeStep
  rw [hv]
  simp only
  unfold codecDecode
  rw [huv]
  simp only [List.take_left', List.drop_left']
  rw [if_neg (by omega)]
  rw [if_neg (by rw [hlen]; simp [List.length_append]; omega)]
  rw [parse_enc r _ hwf (Nat.le_refl _)]

/-- a buffer holding the complete prefix and only part of the body: "need more" -/
theorem decodeStep_partial_body (L : Limits) (hL : L.max < 2 ^ 63) (r : List Field) (hg : good L r)
    (a q : List Nat) (hsplit : encRpc r = a ++ q) (hq : q ≠ []) :
    decodeStep L (Varint.encode (encRpc r).length ++ a) = .needMore := by
  obtain ⟨hwf, hsize, hpub, hctl⟩ := hg
  have hn : (encRpc r).length < 2 ^ 63 := by omega
  have huv := uv_frame (encRpc r).length a hn
  have hqlen : 0 < q.length := by cases q with | nil => exact absurd rfl hq | cons _ _ => simp
  have halt : a.length < (encRpc r).length := by rw [hsplit]; simp; omega
  have hv : validate L (Varint.encode (encRpc r).length ++ a) = .incomplete := by
    unfold validate consumePrefix
    rw [huv]
    simp only
    rw [if_pos halt]
  unfold decodeStep
  rw [hv]
  simp only
  unfold codecDecode
  rw [huv]
  simp only
  rw [if_neg (by omega)]
  rw [if_pos (by simp [List.length_append]; omega)]

/-- **a partial frame is never an error**: every strict prefix of a good RPC's frame makes the
decoder ask for more bytes -/
theorem decodeStep_prefix (L : Limits) (hL : L.max < 2 ^ 63) (r : List Field) (hg : good L r)
    (p q : List Nat) (hpq : frame r = p ++ q) (hq : q ≠ []) : decodeStep L p = .needMore := by
  have hn : (encRpc r).length < 2 ^ 63 := by have := hg.2.1; omega
  unfold frame at hpq
  rcases List.append_eq_append_iff.1 hpq with ⟨a, hp, hbody⟩ | ⟨c, henc, hq'⟩
  · subst hp
    exact decodeStep_partial_body L hL r hg a q hbody hq
  · by_cases hc : c = []
    · subst hc
      simp only [List.append_nil, List.nil_append] at henc hq'
      have := decodeStep_partial_body L hL r hg [] q (by simpa using hq'.symm) hq
      rw [henc] at this
      simpa using this
    · have hins := uv_prefix_insufficient (encRpc r).length 0 p c henc hc
        (by have := len_le9 _ hn; omega)
      have hv : validate L p = .incomplete := by
        unfold validate consumePrefix; rw [hins]
      unfold decodeStep
      rw [hv]
      simp only
      unfold codecDecode
      rw [hins]

theorem decodeStep_nil (L : Limits) : decodeStep L [] = .needMore := by
  simp [decodeStep, validate, consumePrefix, uvDecode, codecDecode]

theorem stream_cons (r : List Field) (rs : List (List Field)) : stream (r :: rs) = frame r ++ stream rs := by
  simp [stream]

/-- draining a buffer that is a prefix of a stream of good RPCs: the frames wholly inside are
delivered, no error, and what remains is a strict prefix of the next frame -/
theorem drainE_prefix (L : Limits) (hL : L.max < 2 ^ 63) (rs : List (List Field)) :
    ∀ (fuel : Nat) (buf y : List Nat), (∀ r ∈ rs, good L r) → buf ++ y = stream rs → buf.length ≤ fuel →
    ∃ rs1 rs2 buf', rs = rs1 ++ rs2 ∧
      drainE (decodeStep L) fuel buf = (rs1.map (·.map tokOf), none, buf') ∧
      buf' ++ y = stream rs2 ∧
      (rs2 = [] ∨ ∃ r rs2' q, rs2 = r :: rs2' ∧ q ≠ [] ∧ frame r = buf' ++ q) := by
  induction rs with
  | nil =>
    intro fuel buf y _ hby _
    simp only [stream, List.map_nil, List.flatten_nil, List.append_eq_nil_iff] at hby
    obtain ⟨rfl, rfl⟩ := hby
    refine ⟨[], [], [], rfl, ?_, by simp [stream], Or.inl rfl⟩
    cases fuel with
    | zero => rfl
    | succ k => simp [drainE, decodeStep_nil]
  | cons r rs ih =>
    intro fuel buf y hgood hby hfuel
    rw [stream_cons] at hby
    have hgr := hgood r (by simp)
    have hgrs : ∀ r' ∈ rs, good L r' := fun r' h => hgood r' (by simp [h])
    -- either the whole first frame is in `buf`, or `buf` is a strict prefix of it
    have hcases : (∃ c, buf = frame r ++ c ∧ stream rs = c ++ y) ∨
        (∃ a, a ≠ [] ∧ frame r = buf ++ a ∧ y = a ++ stream rs) := by
      rcases List.append_eq_append_iff.1 hby with ⟨a, hfr, hy⟩ | ⟨c, hb, hs⟩
      · by_cases ha : a = []
        · subst ha
          exact Or.inl ⟨[], by simpa using hfr.symm, by simpa using hy.symm⟩
        · exact Or.inr ⟨a, ha, hfr, hy⟩
      · exact Or.inl ⟨c, hb, hs⟩
    rcases hcases with ⟨c, hb, hs⟩ | ⟨a, ha, hfr, hy⟩
    · subst hb
      have hfl : 0 < (frame r).length := by
        have := frame_ne_nil r
        cases h : frame r with
        | nil => exact absurd h this
        | cons _ _ => simp
      rw [List.length_append] at hfuel
      cases fuel with
      | zero => omega
      | succ k =>
        obtain ⟨rs1, rs2, buf', hsplit, hdrain, hrest, hnext⟩ :=
          ih k c y hgrs hs.symm (by omega)
        refine ⟨r :: rs1, rs2, buf', by simp [hsplit], ?_, hrest, hnext⟩
        simp only [drainE, decodeStep_frame L hL r hgr c, hdrain, List.map_cons]
    · refine ⟨[], r :: rs, buf, rfl, ?_, by rw [stream_cons, hfr, hy]; simp, Or.inr ⟨r, rs, a, rfl, ha, hfr⟩⟩
      have hstep := decodeStep_prefix L hL r hgr buf a hfr ha
      cases fuel with
      | zero => rfl
      | succ k => simp [drainE, hstep]

/-- **C31.accepts_within_limits** — for every list of RPCs that are within `max_transmit_size`
and within the publish/control limits, and EVERY way of cutting the concatenated frames into
chunks (splitting frames, splitting length prefixes, coalescing any number of frames), the
`FramedRead` loop yields exactly those RPCs, in order, with no error, and consumes everything. -/
theorem accepts_within_limits_from (L : Limits) (hL : L.max < 2 ^ 63) :
    ∀ (cs : List (List Nat)) (rs : List (List Field)) (st : List Nat), (∀ r ∈ rs, good L r) →
    st ++ cs.flatten = stream rs →
    (rs = [] ∨ ∃ r rs' q, rs = r :: rs' ∧ q ≠ [] ∧ frame r = st ++ q) →
    runE (decodeStep L) st cs = (rs.map (·.map tokOf), none, []) := by
  intro cs
  induction cs with
  | nil =>
    intro rs st _ hst hinv
    simp only [List.flatten_nil, List.append_nil] at hst
    rcases hinv with rfl | ⟨r, rs', q, rfl, hq, hfr⟩
    · simp [stream] at hst; subst hst; rfl
    · exfalso
      rw [stream_cons, hfr] at hst
      have := congrArg List.length hst
      simp only [List.length_append] at this
      have hqlen : 0 < q.length := by cases q with | nil => exact absurd rfl hq | cons _ _ => simp
      omega
  | cons c cs ih =>
    intro rs st hgood hst _
    simp only [List.flatten_cons] at hst
    rw [← List.append_assoc] at hst
    obtain ⟨rs1, rs2, buf', hsplit, hdrain, hrest, hnext⟩ :=
      drainE_prefix L hL rs (st ++ c).length (st ++ c) cs.flatten hgood hst (Nat.le_refl _)
    have hg2 : ∀ r ∈ rs2, good L r := fun r h => hgood r (by rw [hsplit]; simp [h])
    have := ih rs2 buf' hg2 hrest hnext
    simp only [runE, feedE, hdrain, this, hsplit, List.map_append]

theorem accepts_within_limits (L : Limits) (hL : L.max < 2 ^ 63) (rs : List (List Field))
    (hgood : ∀ r ∈ rs, good L r) (cs : List (List Nat)) (hcs : cs.flatten = stream rs) :
    runE (decodeStep L) [] cs = (rs.map (·.map tokOf), none, []) := by
  apply accepts_within_limits_from L hL cs rs [] hgood (by simpa using hcs)
  cases rs with
  | nil => exact Or.inl rfl
  | cons r rs' => exact Or.inr ⟨r, rs', frame r, rfl, frame_ne_nil r, by simp⟩

/-- **C31.rejects_oversize** — a frame whose declared length exceeds `max_transmit_size` is an
error as soon as its length prefix is complete, whatever (and however little) follows it -/
theorem rejects_oversize (L : Limits) (n : Nat) (hn : L.max < n) (h63 : n < 2 ^ 63) (rest : List Nat) :
    decodeStep L (Varint.encode n ++ rest) = .err .tooLarge := by
  have huv := uv_frame n rest h63
  unfold decodeStep validate consumePrefix
  rw [huv]
  simp only
  by_cases hr : rest.length < n
  · rw [if_pos hr]
    simp only
    unfold codecDecode
    rw [huv]
    simp only
    rw [if_pos hn]
  · rw [if_neg hr]
    simp only
    have : (List.take n rest).length > L.max := by simp [List.length_take]; omega
    rw [if_pos this]

/-- …and while its prefix is still incomplete nothing is delivered: the decoder waits -/
theorem oversize_prefix_waits (L : Limits) (n : Nat) (h63 : n < 2 ^ 63) (p c : List Nat)
    (hp : Varint.encode n = p ++ c) (hc : c ≠ []) : decodeStep L p = .needMore := by
  have hins := uv_prefix_insufficient n 0 p c hp hc (by have := len_le9 n h63; omega)
  have hv : validate L p = .incomplete := by unfold validate consumePrefix; rw [hins]
  unfold decodeStep
  rw [hv]
  simp only
  unfold codecDecode
  rw [hins]

/-- **C31.limits** — an RPC (of admissible size) with more than `max_publish_messages` publish
entries, or whose subscription/control fields exceed `max_control_message_size` bytes, is an error -/
theorem limits (L : Limits) (hL : L.max < 2 ^ 63) (r : List Field) (hwf : ∀ f ∈ r, f.wf)
    (hsize : (encRpc r).length ≤ L.max)
    (hover : L.maxPublish < publishCount r ∨ L.maxControl < controlBytes r) (rest : List Nat) :
    decodeStep L (frame r ++ rest) = .err .tooManyPublish ∨
    decodeStep L (frame r ++ rest) = .err .controlTooLarge := by
  have hn : (encRpc r).length < 2 ^ 63 := by omega
  have huv : uvDecode 0 (frame r ++ rest) = .ok (encRpc r).length (encRpc r ++ rest) := by
    unfold frame; rw [List.append_assoc]; exact uv_frame _ _ hn
  have hw := walk_enc_reject L r (encRpc r).length 0 0 hwf (Nat.le_refl _) (by omega) (by omega)
    (by simpa using hover)
  have hcp : consumePrefix (frame r ++ rest) = .ok (encRpc r) := by
    unfold consumePrefix
    rw [huv]
    simp [List.take_left']
  unfold decodeStep validate
  rw [hcp]
  simp only
  rw [if_neg (by omega)]
  rcases hw with h | h <;> rw [h] <;> simp

/-! ## the defect of the unrepaired decoder -/

theorem enc_small (n : Nat) (h : n < 128) : Varint.encode n = [n] := by
  rw [Varint.encode]; simp [h]

/-- an RPC of one publish entry with a 98-byte payload: encoded length exactly 100 -/
def rpc100 : List Field := [⟨2, List.replicate 98 0⟩]
/-- an RPC of encoded length 60 -/
def rpc60 : List Field := [⟨2, List.replicate 58 0⟩]

theorem encRpc100 : encRpc rpc100 = 18 :: 98 :: List.replicate 98 0 := by
  simp [encRpc, encField, rpc100, enc_small]
theorem encRpc60 : encRpc rpc60 = 18 :: 58 :: List.replicate 58 0 := by
  simp [encRpc, encField, rpc60, enc_small]
theorem frame100 : frame rpc100 = 100 :: 18 :: 98 :: List.replicate 98 0 := by
  unfold frame; rw [encRpc100]; simp [enc_small]
theorem frame60 : frame rpc60 = 60 :: 18 :: 58 :: List.replicate 58 0 := by
  unfold frame; rw [encRpc60]; simp [enc_small]

theorem good100 : good ⟨100, 5, 50⟩ rpc100 := by
  refine ⟨?_, ?_, by decide, by decide⟩
  · intro f hf
    simp [rpc100] at hf
    subst hf
    exact ⟨by decide, by decide, by simp⟩
  · show (encRpc rpc100).length ≤ 100
    rw [encRpc100]; simp

theorem good60 : good ⟨100, 5, 50⟩ rpc60 := by
  refine ⟨?_, ?_, by decide, by decide⟩
  · intro f hf
    simp [rpc60] at hf
    subst hf
    exact ⟨by decide, by decide, by simp⟩
  · show (encRpc rpc60).length ≤ 100
    rw [encRpc60]; simp

/-- **C31.size_test_on_whole_buffer_buggy_counterexample** — with `max_transmit_size = 100` the
pre-fix decoder rejects an RPC whose encoding is exactly 100 bytes (the read buffer holds 101 bytes:
prefix + RPC), and rejects two coalesced 60-byte RPCs (buffer of 122 bytes), although each is within
all limits; the repaired decoder accepts both. -/
theorem size_test_on_whole_buffer_buggy_counterexample :
    (encRpc rpc100).length = 100 ∧ (encRpc rpc60).length = 60 ∧
    good ⟨100, 5, 50⟩ rpc100 ∧ good ⟨100, 5, 50⟩ rpc60 ∧
    decodeStepBuggy ⟨100, 5, 50⟩ (frame rpc100) = .err .tooLarge ∧
    decodeStepBuggy ⟨100, 5, 50⟩ (frame rpc60 ++ frame rpc60) = .err .tooLarge ∧
    decodeStep ⟨100, 5, 50⟩ (frame rpc100) = .ok (rpc100.map tokOf) [] ∧
    decodeStep ⟨100, 5, 50⟩ (frame rpc60 ++ frame rpc60) = .ok (rpc60.map tokOf) (frame rpc60) := by
  refine ⟨by rw [encRpc100]; simp, by rw [encRpc60]; simp, good100, good60, ?_, ?_, ?_, ?_⟩
  · rw [frame100]; simp [decodeStepBuggy, validateBuggy]
  · rw [frame60]; simp [decodeStepBuggy, validateBuggy]
  · simpa using decodeStep_frame ⟨100, 5, 50⟩ (by decide) rpc100 good100 []
  · exact decodeStep_frame ⟨100, 5, 50⟩ (by decide) rpc60 good60 (frame rpc60)

/-! ## the codec's constructor parameters: the frame bound is the GLOBAL max -/

/-- **C31.frame_bound_is_global** — whatever the per-topic `max_transmit_sizes` map is (also with
topics whose max exceeds the global one), a frame whose declared length exceeds the GLOBAL
`max_transmit_size` is an error as soon as its length prefix is complete. -/
theorem frame_bound_is_global (globalMax : Nat) (perTopic : List (List Nat × Nat)) (mp mc : Nat)
    (n : Nat) (hn : globalMax < n) (h63 : n < 2 ^ 63) (rest : List Nat) :
    (Codec.new globalMax perTopic mp mc).decodeStep (Varint.encode n ++ rest) = .err .tooLarge :=
  rejects_oversize ⟨globalMax, mp, mc⟩ n hn h63 rest

/-- the framing verdict does not depend on the per-topic map at all -/
theorem frame_verdict_independent_of_per_topic (globalMax : Nat) (pt pt' : List (List Nat × Nat)) (mp mc : Nat)
    (buf : List Nat) :
    (Codec.new globalMax pt mp mc).decodeStep buf = (Codec.new globalMax pt' mp mc).decodeStep buf := rfl

/-- **C31.accepts_within_global** — `accepts_within_limits` for a codec built by `GossipsubCodec::new`
with ANY per-topic map: RPCs within the global max and the publish/control limits are all
delivered, for every chunking (per-topic maxima below the global one only move single messages to
`invalid_messages`, they never reject the RPC). -/
theorem accepts_within_global (globalMax : Nat) (perTopic : List (List Nat × Nat)) (mp mc : Nat)
    (hL : globalMax < 2 ^ 63) (rs : List (List Field)) (hgood : ∀ r ∈ rs, good ⟨globalMax, mp, mc⟩ r)
    (cs : List (List Nat)) (hcs : cs.flatten = stream rs) :
    runE (Codec.new globalMax perTopic mp mc).decodeStep [] cs = (rs.map (·.map tokOf), none, []) :=
  accepts_within_limits ⟨globalMax, mp, mc⟩ hL rs hgood cs hcs

/-- **C31.per_topic_check** — the per-message check as the code has it: a publish entry is moved to
`invalid_messages` exactly when its topic HAS an entry in `max_transmit_sizes` and the message's
encoded length exceeds that entry; a message on an unconfigured topic is never rejected by it. -/
theorem per_topic_check (C : Codec) (payload : List Nat) :
    C.tooLargeForTopic payload = true ↔ ∃ max, C.maxFor (msgTopic payload) = some max ∧ payload.length > max := by
  unfold Codec.tooLargeForTopic
  cases h : C.maxFor (msgTopic payload) with
  | none => simp
  | some max => simp

theorem unconfigured_topic_never_too_large (C : Codec) (payload : List Nat)
    (h : C.maxFor (msgTopic payload) = none) : C.tooLargeForTopic payload = false := by
  unfold Codec.tooLargeForTopic; rw [h]

/-! ## split independence for ALL byte streams, totality -/

/-- **C31.split_independent** — for EVERY byte stream (well-formed or not) and every chunking, the
frames decoded incrementally are the frames decoded from the concatenation (up to the first
position where the decoder stops): the repaired decoder is a `Framed.Good` decoder, i.e. its
verdict on the first frame is independent of the bytes that follow. -/
theorem split_independent (L : Limits) (cs : List (List Nat)) :
    Framed.feedMany (decOk L) [] cs = Framed.drainAll (decOk L) cs.flatten :=
  Framed.feedMany_nil_start (decOk L) (decOk_good L) cs

/-- the pre-fix decoder is NOT stable: appending bytes to a buffer it accepted turns the verdict
into an error (so it is not a `Framed.Good` decoder) -/
theorem buggy_not_stable :
    ∃ (b x : List Nat) (fs : List Tok) (r : List Nat),
      decodeStepBuggy ⟨100, 5, 50⟩ b = .ok fs r ∧ decodeStepBuggy ⟨100, 5, 50⟩ (b ++ x) = .err .tooLarge := by
  refine ⟨frame rpc60, frame rpc60, rpc60.map tokOf, [], ?_, ?_⟩
  · have h := decodeStep_frame ⟨100, 5, 50⟩ (by decide) rpc60 good60 []
    simp only [List.append_nil] at h
    have hv : validate ⟨100, 5, 50⟩ (frame rpc60) = .ok := by
      unfold decodeStep at h
      cases hv : validate ⟨100, 5, 50⟩ (frame rpc60) with
      | err e => rw [hv] at h; cases h
      | ok => rfl
      | incomplete =>
        exfalso
        unfold validate at hv
        have hcp : consumePrefix (frame rpc60) = .ok (encRpc rpc60) := by
          unfold consumePrefix frame
          rw [uv_frame _ _ (by rw [encRpc60]; simp)]
          simp
        rw [hcp] at hv
        simp only at hv
        split at hv
        · cases hv
        · split at hv <;> cases hv
    have hc : codecDecode 100 (frame rpc60) = .ok (rpc60.map tokOf) [] := by
      unfold decodeStep at h; rw [hv] at h; exact h
    have hvb : validateBuggy ⟨100, 5, 50⟩ (frame rpc60) = .ok := by
      unfold validateBuggy
      rw [if_neg (by rw [frame60]; simp)]
      unfold validate at hv
      exact (by
        cases hcp : consumePrefix (frame rpc60) with
        | incomplete => rw [hcp] at hv; cases hv
        | err e => rw [hcp] at hv; cases hv
        | ok body =>
          rw [hcp] at hv
          simp only at hv ⊢
          split at hv
          · cases hv
          · exact hv)
    unfold decodeStepBuggy
    rw [hvb]
    exact hc
  · rw [frame60]; simp [decodeStepBuggy, validateBuggy]

/-- **C31.no_panic** — no byte string makes one decode step panic: the slice
`&remaining[..message_length]`, the subtraction `field_start.len() - buf.len()` and the field loop
are safe for every input -/
theorem no_panic (L : Limits) (buf : List Nat) : decodeStep L buf ≠ .err .panic := by
  have hval : validate L buf ≠ .err .panic := by
    unfold validate consumePrefix
    cases huv : uvDecode 0 buf with
    | insufficient => simp
    | overflow => simp
    | notMinimal => simp
    | ok n rem =>
      simp only
      by_cases hr : rem.length < n
      · rw [if_pos hr]; simp
      · rw [if_neg hr]
        simp only
        by_cases hm : (List.take n rem).length > L.max
        · rw [if_pos hm]; simp
        · rw [if_neg hm]
          have := walk_no_panic L (List.take n rem).length (List.take n rem) 0 0 (Nat.le_refl _)
          cases hw : walk L (List.take n rem).length (List.take n rem) 0 0 with
          | err e => rw [hw] at this; simp; intro he; subst he; exact this rfl
          | ok fs => simp
  have hcodec : codecDecode L.max buf ≠ .err .panic := by
    unfold codecDecode
    cases huv : uvDecode 0 buf with
    | insufficient => simp
    | overflow => simp
    | notMinimal => simp
    | ok n rem =>
      simp only
      split
      · simp
      · split
        · simp
        · have := parse_no_panic (List.take n rem).length (List.take n rem) (Nat.le_refl _)
          cases hw : parse (List.take n rem).length (List.take n rem) with
          | err e => rw [hw] at this; simp; intro he; subst he; exact this rfl
          | ok fs => simp
  unfold decodeStep
  cases hv : validate L buf with
  | err e => simp; intro he; subst he; exact hval hv
  | incomplete => exact hcodec
  | ok => exact hcodec

/-! ## the Spec accepts the model -/

/-- The monitor's final verdict for a stream made of good RPCs only: every RPC delivered, no error. -/
def specFinal (nFrames : Nat) (run : List (List Tok) × Option Err × List Nat) : Bool :=
  run.1.length == nFrames && run.2.1.isNone

/-- **C31.spec_accepts_model** — on every stream of good RPCs, however chunked, the model's run
satisfies the Spec's demand (all delivered, nothing rejected); together with `impl = model` on
the executed cases this is what the monitor `specStep` checks on the implementation's outputs. -/
theorem spec_accepts_model (L : Limits) (hL : L.max < 2 ^ 63) (rs : List (List Field))
    (hgood : ∀ r ∈ rs, good L r) (cs : List (List Nat)) (hcs : cs.flatten = stream rs) :
    specFinal rs.length (runE (decodeStep L) [] cs) = true := by
  rw [accepts_within_limits L hL rs hgood cs hcs]
  simp [specFinal]

end C31

#print axioms C31.decodeStep_frame
#print axioms C31.decodeStep_prefix
#print axioms C31.accepts_within_limits
#print axioms C31.rejects_oversize
#print axioms C31.oversize_prefix_waits
#print axioms C31.limits
#print axioms C31.size_test_on_whole_buffer_buggy_counterexample
#print axioms C31.split_independent
#print axioms C31.buggy_not_stable
#print axioms C31.no_panic
#print axioms C31.spec_accepts_model
#print axioms C31.frame_bound_is_global
#print axioms C31.frame_verdict_independent_of_per_topic
#print axioms C31.accepts_within_global
#print axioms C31.per_topic_check
