import Libp2pModel.Model.C29
import Libp2pModel.Proofs.C28Inv
import Libp2pModel.Proofs.C29BeliefHb2
/-!
# C29 — theorems

*Property*: after every behaviour step, the `JoinedMesh`/`LeftMesh` notifications sent to a peer's
handler leave it believing the peer is in a mesh exactly when the peer is a member of at least one
topic mesh.

`belief p c` (ghost field of the node model) is the fold of the notifications sent to connection `c`
of peer `p`. The theorems are about the code AS REPAIRED (`findings/C29-heartbeat-multi-graft.fix.diff`):
`send_graft_prune` calls `peer_added_to_mesh` once per peer with all topics grafted in the heartbeat.
-/
namespace C29
open C28

/-- the handler of `p`'s first connection believes "in a mesh" exactly when `p` is in some mesh -/
def Good (s : State) (p : Nat) : Prop :=
  ∀ pd c rest, s.peers p = some pd → pd.conns = c :: rest → (s.belief p c = true ↔ InMeshP s p)

theorem applyNotifs_nil (b : Nat → Nat → Bool) : applyNotifs b [] = b := rfl

theorem applyNotifs_single (b : Nat → Nat → Bool) (p c : Nat) (v : Bool) (p' c' : Nat) :
    applyNotifs b [(p, c, v)] p' c' = if p' = p ∧ c' = c then v else b p' c' := rfl

theorem peerAdded_eq (s : State) (p : Nat) (ts : List Nat) :
    peerAdded s p ts = [] ∨ ∃ c, peerAdded s p ts = [(p, c, true)] := by
  unfold peerAdded
  split
  · exact Or.inl rfl
  · split
    · exact Or.inl rfl
    · split
      · exact Or.inl rfl
      · exact Or.inr ⟨_, rfl⟩

theorem peerRemoved_eq (s : State) (p old : Nat) :
    peerRemoved s p old = [] ∨ ∃ c, peerRemoved s p old = [(p, c, false)] := by
  unfold peerRemoved
  split
  · exact Or.inl rfl
  · split
    · exact Or.inl rfl
    · split
      · exact Or.inl rfl
      · exact Or.inr ⟨_, rfl⟩

/-- notifications produced for `p` never touch the belief about another peer -/
theorem peerAdded_other (s : State) (p : Nat) (ts : List Nat) (q c : Nat) (hq : q ≠ p) :
    (notify s (peerAdded s p ts)).belief q c = s.belief q c := by
  rcases peerAdded_eq s p ts with h | ⟨c0, h⟩
  · simp [notify, h, applyNotifs_nil]
  · simp [notify, h, applyNotifs_single, hq]

theorem peerRemoved_other (s : State) (p old : Nat) (q c : Nat) (hq : q ≠ p) :
    (notify s (peerRemoved s p old)).belief q c = s.belief q c := by
  rcases peerRemoved_eq s p old with h | ⟨c0, h⟩
  · simp [notify, h, applyNotifs_nil]
  · simp [notify, h, applyNotifs_single, hq]

theorem inMeshP_notify (s : State) (ns : List Notif) (p : Nat) : InMeshP (notify s ns) p ↔ InMeshP s p := Iff.rfl

/-- **`peer_added_to_mesh` is correct when it is told ALL the topics the peer has just been added
to.** State `s` already contains the new memberships. If `p` is a member of the mesh of one of
`ts`, and the handler's belief was right about the memberships outside `ts` (those are the old
ones), then after the call the handler's belief is right. -/
theorem peerAdded_correct (s : State) (p : Nat) (ts : List Nat)
    (hin : ∃ t ∈ ts, inMesh s t p = true)
    (hold : ∀ t, t ∉ ts → inMesh s t p = true →
      ∀ pd c rest, s.peers p = some pd → pd.conns = c :: rest → s.belief p c = true) :
    Good (notify s (peerAdded s p ts)) p := by
  intro pd c rest hpd hc
  have hpd' : s.peers p = some pd := hpd
  have hmem : InMeshP s p := by
    obtain ⟨t, _, ht⟩ := hin
    obtain ⟨m, hm, hp⟩ := inMesh_iff.1 ht
    exact ⟨t, m, hm, hp⟩
  rw [inMeshP_notify]
  refine ⟨fun _ => hmem, fun _ => ?_⟩
  unfold peerAdded notify
  simp only [hpd', hc]
  split
  · rename_i hany
    simp only [List.any_eq_true, Bool.and_eq_true, Bool.not_eq_eq_eq_not, Bool.not_true,
      List.contains_eq_mem, decide_eq_false_iff_not] at hany
    obtain ⟨t, _, hnt, hmt⟩ := hany
    simpa [applyNotifs_nil] using hold t hnt hmt pd c rest hpd' hc
  · simp [applyNotifs_single]

/-- **`peer_removed_from_mesh` is correct**: state `s` already lacks the membership in `old`; if the
mesh invariant holds and the belief was right before (`in some mesh → believed`), it is right after. -/
theorem peerRemoved_correct (s : State) (p old : Nat) (hmesh : MeshOK s)
    (hout : inMesh s old p = false)
    (hold : InMeshP s p → ∀ pd c rest, s.peers p = some pd → pd.conns = c :: rest → s.belief p c = true) :
    Good (notify s (peerRemoved s p old)) p := by
  intro pd c rest hpd hc
  have hpd' : s.peers p = some pd := hpd
  rw [inMeshP_notify]
  unfold peerRemoved notify
  simp only [hpd', hc]
  split
  · rename_i hany
    simp only [List.any_eq_true, Bool.and_eq_true, bne_iff_ne, ne_eq] at hany
    obtain ⟨t, _, _, hmt⟩ := hany
    obtain ⟨m, hm, hp⟩ := inMesh_iff.1 hmt
    have hmem : InMeshP s p := ⟨t, m, hm, hp⟩
    simp only [applyNotifs_nil]
    exact ⟨fun _ => hmem, fun _ => hold hmem pd c rest hpd' hc⟩
  · rename_i hany
    simp only [applyNotifs_single, and_self, ↓reduceIte, Bool.false_eq_true, false_iff]
    rintro ⟨t, m, hm, hp⟩
    apply hany
    obtain ⟨⟨pd', hpd'', _, htop⟩, _⟩ := hmesh t m hm p hp
    rw [hpd'] at hpd''
    cases hpd''
    simp only [List.any_eq_true, Bool.and_eq_true, bne_iff_ne, ne_eq]
    refine ⟨t, htop, ?_, inMesh_iff.2 ⟨m, hm, hp⟩⟩
    rintro rfl
    rw [inMesh_iff.2 ⟨m, hm, hp⟩] at hout
    cases hout

/-- **The heartbeat's graft notification (repaired code)**: after the heartbeat has updated all
meshes, for a peer `p` grafted in the topics `ts` (any number of them), the single call
`peer_added_to_mesh(p, ts)` leaves the handler's belief right — in particular a peer grafted in two
topics at once, in no mesh before, is told `JoinedMesh`. -/
theorem heartbeat_graft_notified (s : State) (p : Nat) (ts : List Nat)
    (hin : ∃ t ∈ ts, inMesh s t p = true)
    (hold : ∀ t, t ∉ ts → inMesh s t p = true →
      ∀ pd c rest, s.peers p = some pd → pd.conns = c :: rest → s.belief p c = true) :
    Good (notify s (graftCalls fixed s p ts)) p :=
  peerAdded_correct s p ts hin hold

/-- a new peer grafted in several topics at once gets exactly one `JoinedMesh` -/
theorem heartbeat_multi_graft_joined (s : State) (p : Nat) (ts : List Nat) (pd : Peer) (c : Nat) (rest : List Nat)
    (hpd : s.peers p = some pd) (hc : pd.conns = c :: rest)
    (hnew : ∀ t, inMesh s t p = true → t ∈ ts) :
    graftCalls fixed s p ts = [(p, c, true)] := by
  simp only [graftCalls, fixed, ↓reduceIte, peerAdded, hpd, hc]
  split
  · rename_i hany
    simp only [List.any_eq_true, Bool.and_eq_true, Bool.not_eq_eq_eq_not, Bool.not_true,
      List.contains_eq_mem, decide_eq_false_iff_not] at hany
    obtain ⟨t, _, hnt, hmt⟩ := hany
    exact absurd (hnew t hmt) hnt
  · rfl

/-! ## the tree before the repair -/

/-- peer 0 (one connection, id 7, subscribed to topics 0 and 1) has just been added to the meshes of
topics 0 and 1 by the heartbeat; its handler believes "not in a mesh" -/
def cexState : State :=
  { init { meshN := 2, meshLow := 1, meshHigh := 3, outMin := 0, pruneBackoff := 10, unsubBackoff := 3,
           scoring := false, oppTicks := 60, oppPeers := 2, oppThr2 := 10 } 1000000000 1 with
    peers := fun p => if p = 0 then some { gossip := true, outbound := false, conns := [7], topics := [0, 1] } else none
    mesh := fun t => if t = 0 ∨ t = 1 then some [0] else none }

/-- **Counterexample for the tree before the repair** (one `peer_added_to_mesh` call per topic,
DESIGN §8 row 8; confirmed on the implementation, `corpus/C29/heartbeat-multi-graft.case`): each
per-topic call finds the peer in the mesh of the other grafted topic, so no `JoinedMesh` is sent at
all and the handler keeps believing "not in a mesh" although the peer is in two meshes. The
repaired code sends exactly one `JoinedMesh`. -/
theorem heartbeat_multi_graft_buggy_counterexample :
    graftCalls ⟨true, false⟩ cexState 0 [0, 1] = []
    ∧ graftCalls fixed cexState 0 [0, 1] = [(0, 7, true)]
    ∧ inMesh cexState 0 0 = true ∧ inMesh cexState 1 0 = true
    ∧ (notify cexState (graftCalls ⟨true, false⟩ cexState 0 [0, 1])).belief 0 7 = false
    ∧ (notify cexState (graftCalls fixed cexState 0 [0, 1])).belief 0 7 = true := by
  refine ⟨by decide, by decide, by decide, by decide, by decide, by decide⟩

/-! ## the whole-history statement -/

/-- belief invariant of a state: for every connected peer the first connection's handler is right,
and no other connection's handler believes "in a mesh" -/
def BeliefOK (s : State) : Prop :=
  ∀ p pd c rest, s.peers p = some pd → pd.conns = c :: rest →
    (s.belief p c = true ↔ InMeshP s p) ∧ (∀ c' ∈ rest, s.belief p c' = false) ∧ (c :: rest).Nodup

/-- side conditions on an op: the swarm hands out fresh connection ids, closes only existing
connections; making a current mesh member explicit is outside the property -/
def okOp29 (s : State) (o : TOp) : Prop :=
  okOp s o ∧ match o.op with
    | .connect p c _ => ∀ pd, s.peers p = some pd → c ∉ pd.conns
    | _ => True

def OkRun29 : State → List TOp → Prop
  | _, [] => True
  | s, o :: os => okOp29 s o ∧ OkRun29 (step s o).1 os

/-- THE property over whole histories: after every op sequence from the initial state the belief
invariant holds (proved below: `belief_correct`). -/
def full_statement : Prop :=
  ∀ (c : Cfg) (hb slack : Nat) (ops : List TOp), OkRun29 (init c hb slack) ops →
    BeliefOK (exec (init c hb slack) ops)

/-- the mesh invariant the notification lemmas rely on holds after every history -/
theorem meshOK_always (c : Cfg) (hb slack : Nat) (ops : List TOp) (h : OkRun (init c hb slack) ops) :
    MeshOK (exec (init c hb slack) ops) :=
  (inv_exec ops _ (inv_init c hb slack) h).mesh

/-- The two notification functions on arbitrary states (the building blocks of `belief_correct`):
each call leaves the notified handler right and all other peers' handlers untouched — under the
mesh invariant, which holds after every history (`meshOK_always`). -/
theorem belief_correct_partial :
    (∀ (s : State) (p : Nat) (ts : List Nat), (∃ t ∈ ts, inMesh s t p = true) →
      (∀ t, t ∉ ts → inMesh s t p = true →
        ∀ pd c rest, s.peers p = some pd → pd.conns = c :: rest → s.belief p c = true) →
      Good (notify s (peerAdded s p ts)) p)
    ∧ (∀ (s : State) (p old : Nat), MeshOK s → inMesh s old p = false →
      (InMeshP s p → ∀ pd c rest, s.peers p = some pd → pd.conns = c :: rest → s.belief p c = true) →
      Good (notify s (peerRemoved s p old)) p)
    ∧ (∀ (s : State) (p : Nat) (ts : List Nat) (q c : Nat), q ≠ p →
      (notify s (peerAdded s p ts)).belief q c = s.belief q c)
    ∧ (∀ (s : State) (p old q c : Nat), q ≠ p →
      (notify s (peerRemoved s p old)).belief q c = s.belief q c) :=
  ⟨peerAdded_correct, peerRemoved_correct, peerAdded_other, fun s p old q c h => peerRemoved_other s p old q c h⟩


/-! ## the whole-history theorem -/

/-- one step of the node model preserves the joint invariant `BInv` (mesh invariant + connection
lists + first-connection beliefs), for every op: connection established / closed (incl. the first
connection closing and the next one being promoted), protocol report, explicit peer, subscriptions
(with the silent grafts and the pending removals), GRAFT, PRUNE, `join`, `leave`, `publish`, and the
heartbeat with `send_graft_prune` -/
theorem binv_step (s : State) (o : TOp) (h : BInv s) (hok : okOp29 s o) : BInv (step s o).1 := by
  obtain ⟨hok1, hok2⟩ := hok
  unfold step stepG
  cases hop : o.op with
  | connect p c ob =>
    simp only [hop] at hok2
    exact binv_connect s p c ob h hok2
  | kind p g => exact binv_setKind s p g h
  | disconnect p c => exact binv_disconnect s p c h
  | explicit p =>
    simp only [okOp, hop] at hok1
    exact binv_addExplicit s p h hok1
  | subs p l => exact binv_recvSubs s o.now o.sc p l h
  | graft p ts => exact binv_recvGraft s o.now o.sc p ts h
  | prune p l => exact binv_recvPrune s o.now p l h
  | subscribe t final => exact binv_subscribe s o.sc t final h
  | unsubscribe t => exact binv_unsubscribe s o.now t h
  | publish t fan => exact binv_publish s t fan h
  | heartbeat final fan => exact binv_heartbeat s o.now o.sc final fan h
  | nop => exact h

theorem binv_init (c : Cfg) (hb slack : Nat) : BInv (init c hb slack) := by
  refine ⟨inv_init c hb slack, ?_, ?_⟩
  · intro p l hl
    simp [connsOf, init] at hl
  · intro p
    unfold HBp
    have h1 : headB (init c hb slack) p = false := by simp [headB, headOf, connsOf, init]
    rw [h1]
    simp only [Bool.false_eq_true, false_iff]
    rintro ⟨t, ht⟩
    simp [inMesh, init] at ht

theorem binv_exec : ∀ (ops : List TOp) (s : State), BInv s → OkRun29 s ops → BInv (exec s ops) := by
  intro ops
  induction ops with
  | nil => intro s h _; exact h
  | cons o os ih =>
    intro s h hok
    simp only [exec, List.foldl_cons]
    exact ih _ (binv_step s o h hok.1) hok.2

/-- the invariant in the vocabulary of the property statement -/
theorem beliefOK_of_binv (s : State) (h : BInv s) : BeliefOK s := by
  intro p pd c rest hpd hc
  have hhead : headOf s p = some c := headOf_some_iff.2 ⟨pd, rest, hpd, hc⟩
  have hcon : connsOf s p = some (c :: rest) := by simp [connsOf, hpd, hc]
  obtain ⟨_, hnd, htl⟩ := h.tail p (c :: rest) hcon
  refine ⟨?_, fun c' hc' => htl c' (by simpa using hc'), hnd⟩
  have := h.hb p
  unfold HBp at this
  rw [headB_eq_of_head hhead, inM_iff] at this
  exact this

/-- **C29, whole histories.** From the initial state, after EVERY sequence of ops of the node model
(any scores, times and admissible random choices; side conditions `OkRun29`: fresh connection ids,
`add_explicit_peer` only for peers that are in no mesh), for every connected peer: the handler of its
first connection believes "in a mesh" exactly when the peer is a member of at least one topic mesh,
the handlers of its other connections believe "not in a mesh", and its connection list has no
duplicates. -/
theorem belief_correct : full_statement := by
  intro c hb slack ops hok
  exact beliefOK_of_binv _ (binv_exec ops _ (binv_init c hb slack) hok)

/-- no notification is ever addressed to anything but an existing first connection: between two
states related by an op other than connect/disconnect only first-connection beliefs change -/
theorem only_first_connections_notified (s : State) (p : Nat) (ts : List Nat) (old : Nat) :
    (∀ n ∈ peerAdded s p ts, n.1 = p ∧ headOf s p = some n.2.1 ∧ n.2.2 = true)
    ∧ (∀ n ∈ peerRemoved s p old, n.1 = p ∧ headOf s p = some n.2.1 ∧ n.2.2 = false) :=
  ⟨peerAdded_heads s p ts, peerRemoved_heads s p old⟩

/-! ## non-vacuity -/

example : ∃ t ∈ [0, 1], inMesh cexState t 0 = true := ⟨0, by simp, by decide⟩

/-- the side conditions of `belief_correct` are satisfiable by a history that connects a peer -/
example : OkRun29 (init cexState.cfg 1000000000 1)
    [⟨0, fun _ => 0, .connect 0 7 false⟩, ⟨0, fun _ => 0, .kind 0 true⟩] := by
  refine ⟨⟨trivial, ?_⟩, ⟨trivial, trivial⟩, trivial⟩
  intro pd h
  simp [init] at h

end C29

#print axioms C29.peerAdded_correct
#print axioms C29.peerRemoved_correct
#print axioms C29.heartbeat_graft_notified
#print axioms C29.heartbeat_multi_graft_joined
#print axioms C29.heartbeat_multi_graft_buggy_counterexample
#print axioms C29.meshOK_always
#print axioms C29.belief_correct_partial
#print axioms C29.binv_step
#print axioms C29.belief_correct
#print axioms C29.only_first_connections_notified
