import Libp2pModel.Model.C15
import Libp2pModel.Proofs.C15Uvi
import Libp2pModel.Proofs.C15Frame
import Libp2pModel.Proofs.C15Msg
import Libp2pModel.Proofs.C15Dec
import Libp2pModel.Proofs.C15Auto
import Libp2pModel.Proofs.C15Dial
/-!
# C15 — property theorems

*Every valid negotiation message encodes to bytes that decode back to the same message, framed
with a length prefix of at most two bytes.  Arbitrary incoming bytes never cause a panic;
oversized frames, more than 1000 listed protocols and protocol names not starting with '/' are
rejected with an error.*
-/
namespace C15
open Mss

/-! ## literal sanity: the byte constants are the Rust string literals -/
example : String.ofList (MSG_MULTISTREAM_1_0.map Char.ofNat) = "/multistream/1.0.0\n" := by decide
example : String.ofList (MSG_PROTOCOL_NA.map Char.ofNat) = "na\n" := by decide
example : String.ofList (MSG_LS.map Char.ofNat) = "ls\n" := by decide
example : MAX_FRAME_SIZE = 16383 := by decide

/-! ## encodings of listings are never mistaken for another message -/

theorem encode_prefix_ne (n c : Nat) (Y T : Bytes) (hc : c < 128) (hY : n ≤ Y.length)
    (hT : T.length < c) : Varint.encode n ++ Y ≠ c :: T := by
  intro h
  by_cases hn : n < 128
  · rw [encode_small n hn] at h
    simp at h
    obtain ⟨rfl, rfl⟩ := h
    omega
  · rw [Varint.encode] at h
    simp only [hn, ↓reduceDIte, List.cons_append] at h
    have := (List.cons.inj h).1
    omega

theorem flatMap_ends (ps : List Bytes) (h : ps ≠ []) : ∃ Z, ps.flatMap encEntry = Z ++ [10] := by
  induction ps with
  | nil => exact absurd rfl h
  | cons p ps ih =>
    by_cases hps : ps = []
    · subst hps
      exact ⟨Varint.encode (p.length + 1) ++ p, by simp [encEntry]⟩
    · obtain ⟨Z, hZ⟩ := ih hps
      exact ⟨encEntry p ++ Z, by simp [hZ]⟩

theorem protos_shape (p : Bytes) (ps : List Bytes) :
    encodeMsg (.protos (p :: ps)) =
      Varint.encode (p.length + 1) ++ (p ++ [10] ++ (ps.flatMap encEntry ++ [10])) := by
  simp [encodeMsg_protos, encEntry, List.append_assoc]

theorem protos_ne_literal (ps : List Bytes) (c : Nat) (T : Bytes) (hc : c < 128) (hc1 : c ≠ 10)
    (hT : T.length < c) : encodeMsg (.protos ps) ≠ c :: T := by
  cases ps with
  | nil => simp [encodeMsg]; omega
  | cons p ps =>
    rw [protos_shape]
    exact encode_prefix_ne _ _ _ _ hc (by simp) hT

theorem protos_not_line (ps : List Bytes) : protoLineTest (encodeMsg (.protos ps)) = .ok false := by
  cases ps with
  | nil => rfl
  | cons p ps =>
    obtain ⟨Z, hZ⟩ := flatMap_ends (p :: ps) (by simp)
    rw [encodeMsg_protos, hZ]
    unfold protoLineTest
    split
    · have hl : (Z ++ [10] ++ [10]).getLast? = some 10 := by simp
      have hlen : ¬ (Z ++ [10] ++ [10]).length = 0 := by simp
      have ht : (Z ++ [10] ++ [10]).take ((Z ++ [10] ++ [10]).length - 1) = Z ++ [10] := by
        apply List.take_left'; simp
      simp only [hl, ↓reduceIte, hlen, ht]
      simp
    · rfl

theorem flatMap_len (ps : List Bytes) : ps.length ≤ (ps.flatMap encEntry).length := by
  induction ps with
  | nil => simp
  | cons p ps ih =>
    have := encEntry_length p
    rw [List.flatMap_cons, List.length_append, List.length_cons]; omega

/-- decoding the encoding of ANY listing follows the reference loop -/
theorem decodeMsg_protos (ps : List Bytes) (hlen : ∀ p ∈ ps, p.length + 1 < 2 ^ 64) :
    decodeMsg (encodeMsg (.protos ps)) = lsRef 0 [] ps := by
  have h1 : encodeMsg (.protos ps) ≠ MSG_MULTISTREAM_1_0 :=
    protos_ne_literal ps 47 _ (by omega) (by omega) (by decide)
  have h2 : encodeMsg (.protos ps) ≠ MSG_PROTOCOL_NA :=
    protos_ne_literal ps 110 _ (by omega) (by omega) (by decide)
  have h3 : encodeMsg (.protos ps) ≠ MSG_LS :=
    protos_ne_literal ps 108 _ (by omega) (by omega) (by decide)
  unfold decodeMsg
  rw [if_neg h1, if_neg h2, if_neg h3, protos_not_line]
  simp only
  rw [encodeMsg_protos]
  exact decodeLs_encode ps _ 0 [] hlen (by have := flatMap_len ps; rw [List.length_append]; simp only [List.length_cons, List.length_nil]; omega)

/-! ## THE property: round trip -/

/-- **Round trip.** Every valid negotiation message decodes back to itself. -/
theorem roundtrip (m : Msg) (hv : valid m = true) : decodeMsg (encodeMsg m) = .ok m := by
  cases m with
  | header => decide
  | na => decide
  | ls => decide
  | protos ps =>
    simp only [valid, Bool.and_eq_true, List.all_eq_true, decide_eq_true_eq] at hv
    have hlen : ∀ p ∈ ps, p.length + 1 < 2 ^ 64 := by
      intro p hp
      have := hv.1 p hp
      simp [validListName] at this
      exact this.2
    rw [decodeMsg_protos ps hlen, lsRef_valid ps 0 [] hv.1 (by simpa using hv.2)]
    simp
  | proto p =>
    simp only [valid, validName, Bool.and_eq_true, decide_eq_true_eq, Bool.not_eq_true',
      ne_eq] at hv
    obtain ⟨⟨⟨⟨hn, hu⟩, hnl⟩, _⟩, hne⟩ := hv
    have hhead : p.head? = some 47 := by simpa [nameOk] using hn
    obtain ⟨t, rfl⟩ : ∃ t, p = 47 :: t := by
      cases p with
      | nil => simp at hhead
      | cons a t => simp at hhead; exact ⟨t, by rw [hhead]⟩
    have h1 : encodeMsg (.proto (47 :: t)) ≠ MSG_MULTISTREAM_1_0 := by
      intro h
      apply hne
      have e : MSG_MULTISTREAM_1_0 = headerName ++ [10] := by decide
      rw [e] at h
      exact List.append_cancel_right (show (47 :: t) ++ [10] = headerName ++ [10] from h)
    have h2 : encodeMsg (.proto (47 :: t)) ≠ MSG_PROTOCOL_NA := by simp [encodeMsg, MSG_PROTOCOL_NA]
    have h3 : encodeMsg (.proto (47 :: t)) ≠ MSG_LS := by simp [encodeMsg, MSG_LS]
    have htake : (encodeMsg (.proto (47 :: t))).take ((encodeMsg (.proto (47 :: t))).length - 1) = 47 :: t := by
      simp [encodeMsg]
    have hline : protoLineTest (encodeMsg (.proto (47 :: t))) = .ok true := by
      have hh : (encodeMsg (.proto (47 :: t))).head? = some 47 := by simp [encodeMsg]
      have hl : (encodeMsg (.proto (47 :: t))).getLast? = some 10 := by
        rw [show encodeMsg (.proto (47 :: t)) = (47 :: t) ++ [10] from rfl, List.getLast?_append]; rfl
      have hlen : ¬ (encodeMsg (.proto (47 :: t))).length = 0 := by simp [encodeMsg]
      unfold protoLineTest
      rw [if_pos hh, if_pos hl, if_neg hlen, htake, hnl]
      rfl
    unfold decodeMsg
    rw [if_neg h1, if_neg h2, if_neg h3, hline]
    simp only
    rw [htake, protocolTryFrom_ok _ hn hu]

/-- **Framing.** A message that `start_send` accepts goes on the wire as a length prefix of one
or two bytes followed by its encoding; the frame reader, whatever follows on the stream, returns
exactly that encoding, which decodes to the message.  Larger messages are refused. -/
theorem frame_prefix (m : Msg) (rest : Bytes) (hv : valid m = true)
    (hlen : (encodeMsg m).length ≤ MAX_FRAME_SIZE) :
    ∃ pre, startSend (encodeMsg m) = .ok (pre ++ encodeMsg m) ∧ 0 < pre.length ∧ pre.length ≤ 2 ∧
      frameDec (pre ++ encodeMsg m ++ rest) = some (.data (encodeMsg m), rest) ∧
      frameEvent (.data (encodeMsg m)) = .msg m := by
  obtain ⟨pre, h1, h2, h3, h4⟩ := frame_roundtrip (encodeMsg m) rest hlen
  exact ⟨pre, h1, h3, h2, h4, by simp [frameEvent, roundtrip m hv]⟩

theorem frame_refused (m : Msg) (h : MAX_FRAME_SIZE < (encodeMsg m).length) :
    startSend (encodeMsg m) = .error .sendTooLarge := send_oversize _ h

/-! ## no panic on arbitrary input -/

/-- **No panic** in `Message::decode`, for arbitrary bytes. -/
theorem no_panic (bs : Bytes) : ∀ w, decodeMsg bs ≠ .panic w := fun w => decodeMsg_no_panic bs w

theorem frameEvent_no_panic (f : Frame) (w : String) : frameEvent f ≠ .panic w := by
  cases f with
  | err e => simp [frameEvent]
  | data bs =>
    simp only [frameEvent]
    cases h : decodeMsg bs with
    | ok m => simp
    | err e => simp
    | panic w' => exact absurd h (decodeMsg_no_panic bs w')

/-- **No panic** in the reader: no event a `MessageIO` produces on an arbitrary byte stream
(followed by EOF) is a panic. -/
theorem readEvents_no_panic (input : Bytes) : ∀ ev ∈ readEvents input, ∀ w, ev ≠ .panic w := by
  intro ev hev w
  unfold readEvents at hev
  simp only [List.mem_append, List.mem_map, List.mem_singleton] at hev
  rcases hev with ⟨f, _, rfl⟩ | rfl
  · exact frameEvent_no_panic f w
  · unfold eofEvent; split <;> simp

/-! ## rejections -/

/-- **Oversized frame**: a length prefix whose second byte still has the continuation bit set
(i.e. a length above `MAX_FRAME_SIZE`) is rejected right after these two bytes. -/
theorem rejects_oversize (b0 b1 : Nat) (rest : Bytes) (h0 : 128 ≤ b0) (h1 : 128 ≤ b1) :
    frameDec (b0 :: b1 :: rest) = some (.err .frameTooLong, rest) := by
  have a : ¬ b0 < 128 := by omega
  have b : ¬ b1 < 128 := by omega
  simp [frameDec, a, b]

/-- a non-minimal two-byte prefix is rejected -/
theorem rejects_nonminimal (b0 : Nat) (rest : Bytes) (h0 : 128 ≤ b0) :
    frameDec (b0 :: 0 :: rest) = some (.err .invalidPrefix, rest) := by
  have a : ¬ b0 < 128 := by omega
  simp [frameDec, a]

/-- **More than 1000 listed protocols** are rejected (whatever the — valid — names). -/
theorem rejects_too_many (ps : List Bytes) (hv : ∀ p ∈ ps, validListName p = true)
    (hn : MAX_PROTOCOLS < ps.length) :
    decodeMsg (encodeMsg (.protos ps)) = .err .tooManyProtocols := by
  have hlen : ∀ p ∈ ps, p.length + 1 < 2 ^ 64 := by
    intro p hp
    have := hv p hp
    simp [validListName] at this
    exact this.2
  rw [decodeMsg_protos ps hlen]
  exact lsRef_too_many ps 0 [] hv (by decide) (by omega)

/-- **A listed name not starting with `/`** makes the whole message an error. -/
theorem rejects_bad_name (ps : List Bytes) (hlen : ∀ p ∈ ps, p.length + 1 < 2 ^ 64)
    (hbad : ∃ p ∈ ps, nameOk p = false) :
    ∃ e, decodeMsg (encodeMsg (.protos ps)) = .err e := by
  rw [decodeMsg_protos ps hlen]
  exact lsRef_bad_name ps 0 [] hbad

/-- **Nothing malformed is accepted**, for arbitrary bytes: an accepted message has only names
starting with `/` that are UTF-8, a proposed name contains no line feed, a listing has at most
`MAX_PROTOCOLS` names. -/
theorem decode_sound (bs : Bytes) (m : Msg) (h : decodeMsg bs = .ok m) : wf m = true :=
  decodeMsg_sound bs m h

/-! ## split independence of the frame reader -/

/-- The frames (and errors) the reader extracts do not depend on how the byte stream is chunked. -/
theorem frames_split_independent (chunks : List Bytes) :
    Framed.feedMany frameDec [] chunks = Framed.drainAll frameDec chunks.flatten :=
  Framed.feedMany_nil_start frameDec frameDec_good chunks

/-! ## the Spec accepts the model -/

theorem valid_wf (m : Msg) (h : valid m = true) : wf m = true := by
  have := decodeMsg_sound _ _ (roundtrip m h)
  exact this

theorem two_byte_prefix (n : Nat) (h : n ≤ MAX_FRAME_SIZE) : (Varint.encode n).length ≤ 2 := by
  rw [MAX_FRAME_SIZE_eq] at h
  by_cases hs : n < 128
  · rw [encode_small n hs]; simp
  · rw [encode_two n (by omega) (by omega)]; simp

theorem not_panic (bs : Bytes) : isPanic (decodeMsg bs) = false := by
  cases h : decodeMsg bs with
  | panic w => exact absurd h (decodeMsg_no_panic _ w)
  | ok _ => rfl
  | err _ => rfl

theorem not_malformed (bs : Bytes) : malformedFail (decodeMsg bs) = false := by
  unfold malformedFail
  cases h : decodeMsg bs with
  | ok m' => simp [decodeMsg_sound _ _ h]
  | err e => rfl
  | panic w => rfl

theorem not_rtFail (m : Msg) : rtFail m (decodeMsg (encodeMsg m)) = false := by
  unfold rtFail
  by_cases hv : valid m = true
  · simp [roundtrip m hv]
  · simp [hv]

theorem not_prefixFail (m : Msg) : prefixFail m (encodeMsg m) = false := by
  unfold prefixFail
  by_cases a : (encodeMsg m).length ≤ MAX_FRAME_SIZE
  · have := two_byte_prefix _ a
    have : ¬ (Varint.encode (encodeMsg m).length).length > 2 := by omega
    simp [this]
  · simp [a]

theorem not_tooManyFail (m : Msg) : tooManyFail m (decodeMsg (encodeMsg m)) = false := by
  unfold tooManyFail
  cases m with
  | protos ps =>
    by_cases c : (decide (ps.length > MAX_PROTOCOLS) && ps.all validListName) = true
    · have c' := c
      simp only [Bool.and_eq_true, decide_eq_true_eq, List.all_eq_true] at c'
      rw [rejects_too_many ps c'.2 c'.1]
      simp [isErr]
    · simp only [c, Bool.false_and]
  | _ => simp

theorem not_badNameFail (m : Msg) : badNameFail m (decodeMsg (encodeMsg m)) = false := by
  unfold badNameFail
  cases m with
  | protos ps =>
    by_cases c : (ps.any (fun p => !nameOk p) && ps.all (fun p => decide (p.length + 1 < 2 ^ 64))) = true
    · have c' := c
      simp only [Bool.and_eq_true, List.any_eq_true, Bool.not_eq_true', List.all_eq_true,
        decide_eq_true_eq] at c'
      obtain ⟨e, he⟩ := rejects_bad_name ps c'.2 c'.1
      rw [he]
      simp [isErr]
    · simp only [c, Bool.false_and]
  | _ => simp

/-- the Spec of `rt` accepts the model's outputs, for every message (valid or not) -/
theorem spec_rt_model (m : Msg) :
    specRt m (encodeMsg m) (decodeMsg (encodeMsg m)) = "ok" := by
  simp [specRt, not_panic, not_rtFail, not_prefixFail, not_tooManyFail, not_badNameFail,
    not_malformed]

/-- the Spec of `dec` accepts the model's output on arbitrary bytes -/
theorem spec_dec_model (bs : Bytes) : specDec (decodeMsg bs) = "ok" := by
  simp [specDec, not_panic, not_malformed]

/-! ## the real futures on hostile input: the Spec accepts the model

`listenRun` / `dialRun` are `listener_select_proto` / `dialer_select_proto` (V1 and V1Lazy, then
reading the `Negotiated` stream) driven over an arbitrary byte string followed by EOF. -/

/-- for every list of names and EVERY input: no panic, a selected protocol is one of the
listener's own valid names, an oversized first frame gives an error, and everything the listener
wrote is a sequence of well-formed frames with 1–2 byte length prefixes -/
theorem spec_listen (names : List Bytes) (input : Bytes) :
    specListenRes names input (listenRun names input).1 (listenRun names input).2.1 = "ok" :=
  spec_listen_model names input

/-- the same for the dialer, both versions -/
theorem spec_dial (lazy : Bool) (names : List Bytes) (input : Bytes) :
    specDialRes names input (dialRun lazy names input).1 (dialRun lazy names input).2.1
      (dialRun lazy names input).2.2 = "ok" :=
  spec_dial_model lazy names input

/-- the listener never panics and never selects a protocol it was not given, whatever it reads -/
theorem listen_safe (names : List Bytes) (input : Bytes) :
    (∀ w, (listenRun names input).1 ≠ .panic w) ∧
    (∀ p, (listenRun names input).1 = .ok p → names.contains p = true ∧ nameOk p = true) := by
  have h := spec_listen_model names input
  unfold specListenRes at h
  refine ⟨?_, ?_⟩
  · intro w hw
    rw [hw] at h
    simp [nresPanic] at h
  · intro p hp
    rw [hp] at h
    simp only [nresPanic, Bool.false_eq_true, ↓reduceIte] at h
    by_cases hc : (names.contains p && nameOk p) = true
    · simpa using hc
    · exfalso
      have hc' : ¬ p ∈ names ∨ nameOk p = false := by
        simp at hc
        by_cases hm : p ∈ names
        · right; exact hc hm
        · left; exact hm
      simp at h
      rw [if_pos hc'] at h
      exact absurd h (by decide)

/-! ## non-vacuity -/
example : valid (.proto [47, 97]) = true := by decide
example : valid (.protos [[47, 97], [47, 98, 10, 99]]) = true := by decide
example : decodeMsg (encodeMsg (.protos [[47, 97], [47, 98]])) = .ok (.protos [[47, 97], [47, 98]]) :=
  roundtrip _ (by decide)
/-- the excluded point: a proposal literally named `/multistream/1.0.0` reads back as the header -/
example : decodeMsg (encodeMsg (.proto headerName)) = .ok .header := by decide
example : frameDec [0xff, 0xff, 0x03] = some (.err .frameTooLong, [0x03]) := by decide
example : decodeMsg [3, 98, 97, 10, 10] = .err .invalidProtocol := by decide

end C15

#print axioms C15.roundtrip
#print axioms C15.frame_prefix
#print axioms C15.frame_refused
#print axioms C15.no_panic
#print axioms C15.readEvents_no_panic
#print axioms C15.rejects_oversize
#print axioms C15.rejects_nonminimal
#print axioms C15.rejects_too_many
#print axioms C15.rejects_bad_name
#print axioms C15.decode_sound
#print axioms C15.frameDec_good
#print axioms C15.frames_split_independent
#print axioms C15.spec_rt_model
#print axioms C15.spec_dec_model
#print axioms C15.spec_listen
#print axioms C15.spec_dial
#print axioms C15.listen_safe
