import Libp2pModel.Common.Machine
import Libp2pModel.Proofs.C51_Sim
/-!
# C51 — property theorems

`c : Cfg` is arbitrary (any limits, any cookie-cache capacity); the only hypothesis used, where
stated, is `1 ≤ c.minTtl` (a registration lives for at least one second — the default is 2 h).
Traces are arbitrary `List Op`; for `disc` ops the oracle (`chosen`) is arbitrary too: an
inadmissible oracle yields `discBadOracle`, which no implementation output matches.
-/
namespace C51

/-! ## refinement: the Spec accepts every output of the model -/

/-- One step of the model from a state related to the reference state: the Spec monitor, fed the
model's own output, answers `ok` and the states stay related. -/
theorem step_sim (c : Cfg) (hmin : 1 ≤ c.minTtl) {s : St} {r : Ref} (h : Sim c s r) (o : Op) :
    Sim c (step c s o).1 (specStep c r o (step c s o).2).1 ∧
    ((step c s o).2 ≠ .discBadOracle → (specStep c r o (step c s o).2).2 = "ok") := by
  cases o with
  | reg peer ns ttl => exact ⟨(reg_sim c hmin h peer ns ttl).1, fun _ => (reg_sim c hmin h peer ns ttl).2⟩
  | unreg peer ns => exact ⟨(unreg_sim c h peer ns).1, fun _ => (unreg_sim c h peer ns).2⟩
  | disc q cookie limit chosen => exact disc_sim c h q cookie limit chosen
  | adv d => exact ⟨(adv_sim c h d).1, fun _ => (adv_sim c h d).2⟩

/-- run the model and the Spec monitor side by side: the outputs and the verdicts -/
def runBoth (c : Cfg) : St → Ref → List Op → List (Out × String)
  | _, _, [] => []
  | s, r, o :: os =>
    let so := step c s o
    let rv := specStep c r o so.2
    (so.2, rv.2) :: runBoth c so.1 rv.1 os

/-- **Link theorem.** For every op sequence from the initial state, every verdict of the Spec on
the model's outputs is `ok` (so `impl = model` on a trace implies the Spec holds on `impl`). -/
theorem spec_accepts_model (c : Cfg) (hmin : 1 ≤ c.minTtl) (ops : List Op) :
    ∀ x ∈ runBoth c St.init Ref.init ops, x.1 ≠ .discBadOracle → x.2 = "ok" := by
  suffices H : ∀ (ops : List Op) (s : St) (r : Ref), Sim c s r →
      ∀ x ∈ runBoth c s r ops, x.1 ≠ .discBadOracle → x.2 = "ok" from H ops _ _ (sim_init c)
  intro ops
  induction ops with
  | nil => intro s r _ x hx; simp [runBoth] at hx
  | cons o os ih =>
    intro s r h x hx
    simp only [runBoth, List.mem_cons] at hx
    have hs := step_sim c hmin h o
    rcases hx with rfl | hx
    · exact hs.2
    · exact ih _ _ hs.1 x hx

/-- every reachable model state is the image of a reference state -/
theorem reachable_sim (c : Cfg) (hmin : 1 ≤ c.minTtl) (ops : List Op) :
    ∃ r, Sim c (Machine.exec (step c) St.init ops) r := by
  suffices H : ∀ (ops : List Op) (s : St) (r : Ref), Sim c s r → ∃ r', Sim c (Machine.exec (step c) s ops) r' from
    H ops _ _ (sim_init c)
  intro ops
  induction ops with
  | nil => intro s r h; exact ⟨r, h⟩
  | cons o os ih =>
    intro s r h
    exact ih _ _ (step_sim c hmin h o).1

/-! ## TTL bounds -/

/-- A registration is accepted only with an effective TTL in `[min_ttl, max_ttl]`, and the TTL
reported back is that effective TTL. Holds in every state. -/
theorem ttl_bounds (c : Cfg) (s : St) (peer ns : Nat) (ttlOpt : Option Nat) (t : Nat)
    (h : (step c s (.reg peer ns ttlOpt)).2 = .regOk t) :
    t = ttlOpt.getD DEFAULT_TTL ∧ c.minTtl ≤ t ∧ t ≤ c.maxTtl := by
  simp only [step, stepV, add_fixed] at h
  by_cases hv : ttlOpt.getD DEFAULT_TTL > c.maxTtl ∨ ttlOpt.getD DEFAULT_TTL < c.minTtl
  · simp [hv] at h
  · simp only [hv, if_false] at h
    by_cases hrej : (lookup (peer, ns) s.byPeer).isNone ∧ (countPeer s.byPeer peer ≥ c.perPeer ∨ s.byPeer.length ≥ c.total)
    · simp [hrej] at h
    · simp only [hrej, if_false, Out.regOk.injEq] at h
      omega

/-- conversely, a TTL outside the bounds is always refused with `InvalidTtl`, leaving the state alone -/
theorem ttl_out_of_bounds_refused (c : Cfg) (s : St) (peer ns : Nat) (ttlOpt : Option Nat)
    (hv : ttlOpt.getD DEFAULT_TTL > c.maxTtl ∨ ttlOpt.getD DEFAULT_TTL < c.minTtl) :
    step c s (.reg peer ns ttlOpt) = (s, .regErr .invalidTtl) := by
  simp [step, stepV, add_fixed, hv]

/-! ## cookie / namespace -/

/-- A discover whose cookie is bound to another namespace (or to a namespace while all namespaces
are asked for) is rejected and changes nothing; any other combination is served. -/
theorem cookie_ns (c : Cfg) (s : St) (q : Option Nat) (cookie : Option Cookie) (limit : Option Nat) (chosen : List Nat) :
    (cookieMismatch q cookie = true → step c s (.disc q cookie limit chosen) = (s, .discMismatch)) ∧
    (cookieMismatch q cookie = false → (step c s (.disc q cookie limit chosen)).2 ≠ .discMismatch) := by
  constructor
  · intro h; simp [step, stepV, get_eq, h]
  · intro h
    simp only [step, stepV, get_eq, h, Bool.false_eq_true, if_false, getCore]
    split
    · simp
    · split <;> simp

theorem cookieMismatch_iff (q : Option Nat) (cookie : Option Cookie) :
    cookieMismatch q cookie = true ↔ ∃ ck cn, cookie = some ck ∧ ck.2 = some cn ∧ q ≠ some cn := by
  unfold cookieMismatch
  cases cookie with
  | none => cases q <;> simp
  | some ck =>
    obtain ⟨k, cn⟩ := ck
    cases cn with
    | none => cases q <;> simp
    | some cn => cases q <;> simp

/-! ## limits -/

theorem remove_byPeer (s : St) (peer ns : Nat) :
    (remove s peer ns).byPeer = s.byPeer.filter (fun e => !decide (e.1 = (peer, ns))) := by
  unfold remove
  cases hl : lookup (peer, ns) s.byPeer with
  | none =>
    exact (List.filter_eq_self.2 (fun e he => by simpa using lookup_none_not_mem hl e he)).symm
  | some id => rfl

theorem get_frame (c : Cfg) (s : St) (q : Option Nat) (cookie : Option Cookie) (limit : Option Nat) (chosen : List Nat) :
    (get c s q cookie limit chosen).1.byPeer = s.byPeer ∧ (get c s q cookie limit chosen).1.regs = s.regs ∧
    (get c s q cookie limit chosen).1.timers = s.timers ∧ (get c s q cookie limit chosen).1.now = s.now := by
  rw [get_eq]
  split
  · exact ⟨rfl, rfl, rfl, rfl⟩
  · unfold getCore
    split
    · exact ⟨rfl, rfl, rfl, rfl⟩
    · split <;> exact ⟨rfl, rfl, rfl, rfl⟩

theorem filter_filter_length_lt {α} (p q : α → Bool) {l : List α} {x : α} (hx : x ∈ l) (hq : q x = true)
    (hp : p x = false) : ((l.filter p).filter q).length + 1 ≤ (l.filter q).length := by
  induction l with
  | nil => simp at hx
  | cons a t ih =>
    have hmono : ((t.filter p).filter q).length ≤ (t.filter q).length :=
      (List.Sublist.filter q (List.filter_sublist (p := p) (l := t))).length_le
    rcases List.mem_cons.1 hx with rfl | hm
    · simp only [List.filter, hp, hq, List.length_cons]
      omega
    · have := ih hm
      cases hpa : p a <;> cases hqa : q a <;> simp only [List.filter, hpa, hqa, List.length_cons] <;> omega

/-- the two limits as a state invariant -/
def LimitInv (c : Cfg) (s : St) : Prop :=
  (∀ p, countPeer s.byPeer p ≤ c.perPeer) ∧ s.byPeer.length ≤ c.total

theorem limit_step (c : Cfg) (s : St) (o : Op) (h : LimitInv c s) : LimitInv c (step c s o).1 := by
  obtain ⟨hpp, htot⟩ := h
  have hfil : ∀ (f : Key × Nat → Bool), LimitInv c { s with byPeer := s.byPeer.filter f } := by
    intro f
    refine ⟨fun p => ?_, Nat.le_trans (List.length_filter_le _ _) htot⟩
    refine Nat.le_trans ?_ (hpp p)
    exact (List.Sublist.filter _ (List.filter_sublist)).length_le
  cases o with
  | unreg peer ns =>
    simp only [step, stepV]
    have := hfil (fun e => !decide (e.1 = (peer, ns)))
    unfold LimitInv at this ⊢
    rw [remove_byPeer]
    exact this
  | disc q cookie limit chosen =>
    simp only [step, stepV]
    unfold LimitInv
    rw [(get_frame c s q cookie limit chosen).1]
    exact ⟨hpp, htot⟩
  | adv d =>
    simp only [step, stepV, advance]
    exact hfil _
  | reg peer ns ttlOpt =>
    simp only [step, stepV, add_fixed]
    by_cases hv : ttlOpt.getD DEFAULT_TTL > c.maxTtl ∨ ttlOpt.getD DEFAULT_TTL < c.minTtl
    · simp only [hv, if_true]; exact ⟨hpp, htot⟩
    · simp only [hv, if_false]
      by_cases hrej : (lookup (peer, ns) s.byPeer).isNone ∧ (countPeer s.byPeer peer ≥ c.perPeer ∨ s.byPeer.length ≥ c.total)
      · simp only [hrej, and_self, if_true]; exact ⟨hpp, htot⟩
      · simp only [hrej, if_false]
        unfold LimitInv
        dsimp only
        rw [remove_byPeer]
        unfold bimapInsert
        generalize hB1 : List.filter (fun e => !decide (e.1 = (peer, ns))) s.byPeer = B1
        have hB2 : (B1.filter (fun e => !decide (e.1 = (peer, ns)) && !decide (e.2 = s.nextId))).length ≤ B1.length :=
          List.length_filter_le _ _
        have hcB2 : ∀ p, countPeer (B1.filter (fun e => !decide (e.1 = (peer, ns)) && !decide (e.2 = s.nextId))) p ≤ countPeer B1 p :=
          fun p => (List.Sublist.filter _ (List.filter_sublist)).length_le
        have hcB1 : ∀ p, countPeer B1 p ≤ countPeer s.byPeer p := by
          intro p; rw [← hB1]; exact (List.Sublist.filter _ (List.filter_sublist)).length_le
        have hlB1 : B1.length ≤ s.byPeer.length := by rw [← hB1]; exact List.length_filter_le _ _
        -- the room for the new entry
        have hroom : B1.length + 1 ≤ c.total ∧ countPeer B1 peer + 1 ≤ c.perPeer := by
          cases hl : lookup (peer, ns) s.byPeer with
          | none =>
            simp only [hl, Option.isNone_none, true_and, not_or, Nat.not_le] at hrej
            have := hcB1 peer
            omega
          | some old =>
            have hmem := lookup_some_mem hl
            constructor
            · have := filter_length_lt_of_mem (fun e : Key × Nat => !decide (e.1 = (peer, ns))) hmem (by simp)
              rw [hB1] at this; omega
            · have := filter_filter_length_lt (fun e : Key × Nat => !decide (e.1 = (peer, ns)))
                (fun e : Key × Nat => decide (e.1.1 = peer)) hmem (by simp) (by simp)
              rw [hB1] at this
              have h2 := hpp peer
              unfold countPeer at h2 ⊢
              omega
        constructor
        · intro p
          have h1 := hcB2 p
          have h2 := hcB1 p
          have h3 := hpp p
          unfold countPeer at h1 h2 h3 ⊢
          rw [List.filter_append, List.length_append]
          by_cases hp : peer = p
          · subst hp
            have := hroom.2
            unfold countPeer at this
            simp only [List.filter, decide_true, List.length_cons, List.length_nil]
            omega
          · simp only [List.filter, hp, decide_false, List.length_nil]
            omega
        · rw [List.length_append]
          simp only [List.length_cons, List.length_nil]
          omega

/-- **Per-peer limit.** After any op sequence, no peer holds more than `max_registrations_per_peer`
registrations. -/
theorem per_peer_limit (c : Cfg) (ops : List Op) (p : Nat) :
    countPeer (Machine.exec (step c) St.init ops).byPeer p ≤ c.perPeer :=
  (Machine.invariant_of_step (step c) (LimitInv c) (fun s o h => limit_step c s o h) ops St.init
    ⟨fun _ => by simp [St.init, countPeer], by simp [St.init]⟩).1 p

/-- **Total limit.** After any op sequence, at most `max_registrations_total` registrations exist. -/
theorem total_limit (c : Cfg) (ops : List Op) :
    (Machine.exec (step c) St.init ops).byPeer.length ≤ c.total :=
  (Machine.invariant_of_step (step c) (LimitInv c) (fun s o h => limit_step c s o h) ops St.init
    ⟨fun _ => by simp [St.init, countPeer], by simp [St.init]⟩).2

/-! ## refresh -/

/-- **Refresh.** In every reachable state, re-registering an existing `(peer, namespace)` with a valid
TTL is accepted — whatever the limits — and replaces the registration: the key now maps to the new
id with the new data, and the superseded id is gone from both tables (so it can neither be
discovered nor reported as expired later, see `expired_event_exact`). -/
theorem refresh (c : Cfg) (hmin : 1 ≤ c.minTtl) (ops : List Op) (peer ns : Nat) (ttlOpt : Option Nat) (old : Nat)
    (hold : lookup (peer, ns) (Machine.exec (step c) St.init ops).byPeer = some old)
    (hv : c.minTtl ≤ ttlOpt.getD DEFAULT_TTL ∧ ttlOpt.getD DEFAULT_TTL ≤ c.maxTtl) :
    let s := Machine.exec (step c) St.init ops
    let s' := (step c s (.reg peer ns ttlOpt)).1
    (step c s (.reg peer ns ttlOpt)).2 = .regOk (ttlOpt.getD DEFAULT_TTL) ∧
    lookup (peer, ns) s'.byPeer = some s.nextId ∧
    lookup s.nextId s'.regs = some ⟨peer, ns, ttlOpt.getD DEFAULT_TTL⟩ ∧
    (∀ k, (k, old) ∉ s'.byPeer) ∧ lookup old s'.regs = none := by
  intro s s'
  obtain ⟨r, h⟩ := reachable_sim c hmin ops
  have hstep := (step_sim c hmin h (.reg peer ns ttlOpt)).1
  have hv' : ¬ (ttlOpt.getD DEFAULT_TTL > c.maxTtl ∨ ttlOpt.getD DEFAULT_TTL < c.minTtl) := by omega
  have hrej : ¬ ((lookup (peer, ns) s.byPeer).isNone ∧ (countPeer s.byPeer peer ≥ c.perPeer ∨ s.byPeer.length ≥ c.total)) := by
    show ¬ ((lookup (peer, ns) (Machine.exec (step c) St.init ops).byPeer).isNone ∧ _)
    rw [hold]; simp
  have hout : step c s (.reg peer ns ttlOpt) =
      ({ (remove s peer ns) with
            byPeer := bimapInsert (remove s peer ns).byPeer (peer, ns) s.nextId,
            regs := mapInsert (remove s peer ns).regs s.nextId ⟨peer, ns, ttlOpt.getD DEFAULT_TTL⟩,
            timers := (remove s peer ns).timers ++ [((remove s peer ns).now + ttlOpt.getD DEFAULT_TTL, s.nextId)],
            nextId := s.nextId + 1 }, .regOk (ttlOpt.getD DEFAULT_TTL)) := by
    simp only [step, stepV, add_fixed, hv', hrej, if_false]
  have hs' : s' = (step c s (.reg peer ns ttlOpt)).1 := rfl
  rw [hout] at hs' ⊢
  dsimp only at hs'
  have holdlt : old < s.nextId := by
    have hm := lookup_some_mem hold
    have : ((peer, ns), old) ∈ liveBP r.live := by rw [← h.bp]; exact hm
    obtain ⟨e, he, _, hi⟩ := mem_liveBP.1 this
    rw [← hi]; exact h.idlt e he
  refine ⟨rfl, ?_, ?_, ?_, ?_⟩
  · rw [hs']; dsimp only; unfold bimapInsert
    apply lookup_append_new
    intro e he
    have := (List.mem_filter.1 he).2
    simp only [Bool.and_eq_true, Bool.not_eq_true', decide_eq_false_iff_not] at this
    exact this.1
  · rw [hs']; dsimp only; unfold mapInsert
    apply lookup_append_new
    intro e he
    have := (List.mem_filter.1 he).2
    simpa using this
  · intro k hk
    rw [hs'] at hk; dsimp only at hk; unfold bimapInsert at hk
    rcases List.mem_append.1 hk with hk | hk
    · have hk := (List.mem_filter.1 hk).1
      rw [remove_byPeer] at hk
      have hk2 := List.mem_filter.1 hk
      have hne : k ≠ (peer, ns) := by simpa using hk2.2
      -- `old` belongs to `(peer, ns)` only
      have h1 : (k, old) ∈ liveBP r.live := by rw [← h.bp]; exact hk2.1
      have h2 : ((peer, ns), old) ∈ liveBP r.live := by rw [← h.bp]; exact lookup_some_mem hold
      obtain ⟨e1, he1, hk1, hi1⟩ := mem_liveBP.1 h1
      obtain ⟨e2, he2, hk2', hi2⟩ := mem_liveBP.1 h2
      have := eq_of_id_eq h.idnd he1 he2 (by rw [hi1, hi2])
      exact hne (by rw [← hk1, this, hk2'])
    · simp only [List.mem_singleton, Prod.mk.injEq] at hk
      omega
  · rw [hs']; dsimp only; unfold mapInsert
    rw [lookup_append_old _ _ _ (by omega)]
    cases hl : lookup old (List.filter (fun e => !decide (e.1 = s.nextId)) (remove s peer ns).regs) with
    | none => rfl
    | some v =>
      exfalso
      have hm := (List.mem_filter.1 (lookup_some_mem hl)).1
      unfold remove at hm
      rw [show lookup (peer, ns) s.byPeer = some old from hold] at hm
      have := (List.mem_filter.1 hm).2
      simp at this

/-! ## discovery -/

/-- **Discovery returns only live registrations.** In every reachable state a served discover never
hits the `expect("bad internal data structure")`, and every returned entry is a *current*
registration (its key maps to its id — so it is neither superseded nor unregistered), of the
requested namespace, returned with the data it was registered with, whose own timer is pending with
a deadline still in the future (it has not expired). -/
theorem discover_live_only (c : Cfg) (hmin : 1 ≤ c.minTtl) (ops : List Op)
    (q : Option Nat) (cookie : Option Cookie) (limit : Option Nat) (chosen : List Nat) :
    let s := Machine.exec (step c) St.init ops
    (step c s (.disc q cookie limit chosen)).2 ≠ .discPanic ∧
    ∀ entries cns, (step c s (.disc q cookie limit chosen)).2 = .discOk entries cns →
      cns = q ∧ (entries.map (·.1)).Nodup ∧
      ∀ x ∈ entries, ((x.2.peer, x.2.ns), x.1) ∈ s.byPeer ∧ lookup x.1 s.regs = some x.2 ∧
        nsMatch q x.2.ns = true ∧ ∃ dl, (dl, x.1) ∈ s.timers ∧ s.now < dl := by
  intro s
  obtain ⟨r, h⟩ := reachable_sim c hmin ops
  have hs := disc_sim c h q cookie limit chosen
  generalize hout : (step c s (.disc q cookie limit chosen)).2 = out at hs ⊢
  cases out with
  | discPanic =>
    have := hs.2 (by simp)
    simp [specStep] at this
  | discOk entries cns =>
    refine ⟨by simp, ?_⟩
    intro entries' cns' heq
    simp only [Out.discOk.injEq] at heq
    obtain ⟨rfl, rfl⟩ := heq
    have hok := hs.2 (by simp)
    simp only [specStep] at hok
    split at hok; · simp at hok
    split at hok; · simp at hok
    next hcns =>
    split at hok; · simp at hok
    next hlive =>
    split at hok; · simp at hok
    next hnd =>
    simp only [ne_eq, Decidable.not_not] at hcns
    simp only [Bool.not_eq_true', Bool.not_eq_false] at hlive hnd
    refine ⟨hcns, by simpa using hnd, ?_⟩
    intro x hx
    have := (List.all_eq_true.1 (by simpa using hlive)) x hx
    unfold entryLive at this
    simp only [Bool.and_eq_true, List.any_eq_true, decide_eq_true_eq] at this
    obtain ⟨hns, e, he, ⟨⟨hk, hi⟩, ht⟩, hdl⟩ := this
    have htm := h.timer e he
    refine ⟨?_, ?_, hns, e.2.deadline, by rw [← hi]; exact htm.1, htm.2⟩
    · rw [h.bp]; exact mem_liveBP.2 ⟨e, he, hk, hi⟩
    · rw [h.regs, ← hi]
      have := lookup_liveRegs h.idnd he
      rw [this]
      simp only [liveEntry, Option.some.injEq]
      obtain ⟨xi, xp, xn, xt⟩ := x
      simp only at hk ht
      rw [hk, ht]
  | _ => exact ⟨by simp, by intro _ _ h; simp at h⟩

/-- **Cookie: at most once (one step, any state).** If the presented cookie is still in the cache with
stored set `st`, a served discover returns only ids outside `st`, pairwise distinct; and (capacity
≥ 1) the new cookie is stored with `st ++ returned ids`, so the next discover presenting it skips
all of them again. -/
theorem cookie_once_step (c : Cfg) (s : St) (q : Option Nat) (ck : Cookie) (limit : Option Nat) (chosen : List Nat)
    (st : List Nat) (hst : lookup ck s.cookies = some st) (entries : List (Nat × Reg)) (cns : Option Nat) (s' : St)
    (h : step c s (.disc q (some ck) limit chosen) = (s', .discOk entries cns)) :
    (∀ x ∈ entries, x.1 ∉ st) ∧ (entries.map (·.1)).Nodup ∧
    (1 ≤ c.cookieCap → lookup (s.nextCookie, q) s'.cookies = some (st ++ entries.map (·.1))) := by
  -- the entries are the chosen ids, in order
  have hmapAux : ∀ (l : List Nat) (es : List (Nat × Reg)),
      allSome (l.map fun id => (lookup id s.regs).map fun r => (id, r)) = some es → es.map (·.1) = l := by
    intro l
    induction l with
    | nil => intro es h; simp [allSome] at h; subst h; rfl
    | cons a t ih =>
      intro es h
      simp only [List.map, allSome] at h
      cases hl : lookup a s.regs with
      | none => simp [hl, allSome] at h
      | some v =>
        simp only [hl, Option.map_some, allSome] at h
        cases ht : allSome (t.map fun id => (lookup id s.regs).map fun r => (id, r)) with
        | none => simp [ht] at h
        | some es' =>
          simp only [ht, Option.map_some, Option.some.injEq] at h
          subst h
          simp [ih es' ht]
  have hstep : step c s (.disc q (some ck) limit chosen) =
      if cookieMismatch q (some ck) then (s, .discMismatch)
      else getCore c s q (some st) (lruGet s.cookies ck).2 limit chosen := by
    simp only [step, stepV, get_eq, Option.bind_some, hst]
  by_cases hm : cookieMismatch q (some ck) = true
  · rw [hstep] at h; simp [hm] at h
  · by_cases hvc : validChoice (candidates s q st) limit chosen = true
    · obtain ⟨hall, hnd⟩ := validChoice_spec hvc
      cases hes : allSome (chosen.map fun id => (lookup id s.regs).map fun r => (id, r)) with
      | none =>
        rw [hstep] at h
        simp [hm, getCore, hvc, hes] at h
      | some es =>
        have hfull : step c s (.disc q (some ck) limit chosen) =
            ({ s with cookies := lruInsert c.cookieCap (lruGet s.cookies ck).2 (s.nextCookie, q) (st ++ chosen),
                      nextCookie := s.nextCookie + 1 }, .discOk es q) := by
          rw [hstep]
          simp only [hm, Bool.false_eq_true, if_false, getCore, Option.getD_some, hvc, Bool.not_true, hes]
        rw [hfull] at h
        have h1 := (Prod.mk.inj h).1
        have h' := (Prod.mk.inj h).2
        simp only [Out.discOk.injEq] at h'
        have hee : es = entries := h'.1
        have hcook : s'.cookies = lruInsert c.cookieCap (lruGet s.cookies ck).2 (s.nextCookie, q) (st ++ chosen) := by
          rw [← h1]
        have hmap : entries.map (·.1) = chosen := by rw [← hee]; exact hmapAux chosen es hes
        refine ⟨?_, by rw [hmap]; exact hnd, fun hcap => ?_⟩
        · intro x hx
          have : x.1 ∈ chosen := by rw [← hmap]; exact List.mem_map.2 ⟨x, hx, rfl⟩
          obtain ⟨_, _, hns, _⟩ := mem_candidates.1 (hall _ this)
          exact hns
        · rw [hcook, hmap]; exact lruInsert_lookup _ hcap _ _ _
    · rw [hstep] at h
      simp [hm, getCore, hvc] at h

/-! ## expiry events -/

/-- **`ExpiredRegistration` is emitted exactly for current registrations whose deadline passed.**
In every reachable state, when the clock advances by `d`: an entry is reported iff its id is that
of a *current* registration (its key maps to it; the reported data is the registered data) whose
timer is due; afterwards no remaining registration is due, and nothing else was removed. -/
theorem expired_event_exact (c : Cfg) (hmin : 1 ≤ c.minTtl) (ops : List Op) (d : Nat) :
    let s := Machine.exec (step c) St.init ops
    ∃ entries, (step c s (.adv d)).2 = .expired entries ∧
      (∀ x, x ∈ entries ↔
        (((x.2.peer, x.2.ns), x.1) ∈ s.byPeer ∧ lookup x.1 s.regs = some x.2 ∧
          ∃ dl, (dl, x.1) ∈ s.timers ∧ dl ≤ s.now + d)) ∧
      (∀ k id, (k, id) ∈ (step c s (.adv d)).1.byPeer ↔
        ((k, id) ∈ s.byPeer ∧ ∃ dl, (dl, id) ∈ s.timers ∧ s.now + d < dl)) := by
  intro s
  obtain ⟨r, h⟩ := reachable_sim c hmin ops
  refine ⟨_, rfl, ?_, ?_⟩
  · intro x
    have hdue := fun e he => due_iff h (s.now + d) (e := e) he
    constructor
    · intro hx
      have hx' := List.mem_filter.1 hx
      have hreg := hx'.1
      rw [h.regs] at hreg
      obtain ⟨e, he, rfl⟩ := List.mem_map.1 hreg
      have hd : (dueIds s (s.now + d)).contains e.2.id = true := hx'.2
      rw [hdue e he] at hd
      refine ⟨by rw [h.bp]; exact mem_liveBP.2 ⟨e, he, rfl, rfl⟩, ?_, e.2.deadline, (h.timer e he).1, by simpa using hd⟩
      rw [h.regs]; exact lookup_liveRegs h.idnd he
    · rintro ⟨hbp, hlk, dl, hdl, hle⟩
      rw [h.bp] at hbp
      obtain ⟨e, he, hk, hi⟩ := mem_liveBP.1 hbp
      have hlr := lookup_liveRegs h.idnd he
      rw [h.regs, ← hi, hlr] at hlk
      have hx2 : x = liveEntry e := by
        cases x with
        | mk xi xr => simp only at hi hlk ⊢; rw [← Option.some.inj hlk, ← hi]; rfl
      apply List.mem_filter.2
      refine ⟨by rw [h.regs, hx2]; exact List.mem_map.2 ⟨e, he, rfl⟩, ?_⟩
      show (dueIds s (s.now + d)).contains x.1 = true
      rw [List.contains_iff_mem]
      exact List.mem_map.2 ⟨(dl, x.1), List.mem_filter.2 ⟨hdl, by simpa using hle⟩, rfl⟩
  · intro k id
    have hdue := fun e he => due_iff h (s.now + d) (e := e) he
    show (k, id) ∈ List.filter (fun e => !(dueIds s (s.now + d)).contains e.2) s.byPeer ↔ _
    rw [List.mem_filter]
    constructor
    · rintro ⟨hm, hnd⟩
      refine ⟨hm, ?_⟩
      rw [h.bp] at hm
      obtain ⟨e, he, hk, hi⟩ := mem_liveBP.1 hm
      have := hdue e he
      rw [hi] at this
      simp only at hnd
      rw [this] at hnd
      refine ⟨e.2.deadline, by rw [← hi]; exact (h.timer e he).1, ?_⟩
      have : ¬ e.2.deadline ≤ s.now + d := by simpa using hnd
      omega
    · rintro ⟨hm, dl, hdl, hlt⟩
      refine ⟨hm, ?_⟩
      have hm' := hm
      rw [h.bp] at hm'
      obtain ⟨e, he, hk, hi⟩ := mem_liveBP.1 hm'
      have := hdue e he
      rw [hi] at this
      simp only
      rw [this]
      -- the registration's own timer is the only timer with its id
      have hc : (dueIds s (s.now + d)).contains id = false := by
        apply Bool.eq_false_iff.2
        intro hc
        rw [this] at hc
        have hle : e.2.deadline ≤ s.now + d := by simpa using hc
        have h1 : (dueIds s (s.now + d)).contains id = true := by rw [this]; simpa using hle
        -- then `dl` would be due as well — but `dl > now + d` and ids are unique among timers
        have htm := (h.timer e he).1
        rw [hi] at htm
        have : dl = e.2.deadline := by
          have hnd := h.tnd
          revert hdl htm
          generalize s.timers = ts at hnd
          intro hdl htm
          induction ts with
          | nil => simp at hdl
          | cons a tl ih =>
            simp only [List.map, List.nodup_cons] at hnd
            rcases List.mem_cons.1 hdl with h1 | h1 <;> rcases List.mem_cons.1 htm with h2 | h2
            · rw [← h1] at h2; exact (Prod.mk.inj h2).1.symm
            · exact absurd (List.mem_map.2 ⟨_, h2, by rw [← h1]⟩) hnd.1
            · exact absurd (List.mem_map.2 ⟨_, h1, by rw [← h2]⟩) hnd.1
            · exact ih hnd.2 h1 h2
        omega
      rw [this] at hc
      simpa using hc

/-! ## the pre-fix code violates the property (documentation of the three repaired defects) -/

def cfgA : Cfg := ⟨600, 2400, 1, 4, 2⟩

/-- pre-fix: a refresh at the per-peer limit was refused with `Unavailable` -/
theorem refresh_refused_at_peer_limit_buggy_counterexample :
    let v : Variant := ⟨false, true, true⟩
    let s1 := (stepV v cfgA St.init (.reg 0 0 (some 600))).1
    (stepV v cfgA St.init (.reg 0 0 (some 600))).2 = .regOk 600 ∧
    (stepV v cfgA s1 (.reg 0 0 (some 1200))).2 = .regErr .unavailable := by
  decide

/-- pre-fix: `len > max_total` let a third registration in with `max_registrations_total = 2` -/
theorem total_limit_off_by_one_buggy_counterexample :
    let v : Variant := ⟨true, false, true⟩
    let c : Cfg := ⟨600, 2400, 3, 2, 2⟩
    let s1 := (stepV v c St.init (.reg 0 0 (some 600))).1
    let s2 := (stepV v c s1 (.reg 1 0 (some 600))).1
    let s3 := (stepV v c s2 (.reg 2 0 (some 600)))
    s3.2 = .regOk 600 ∧ s3.1.byPeer.length = 3 := by
  decide

/-- pre-fix: the superseded registration stayed in `registrations` and was later reported as expired
although `(peer 0, ns 0)` was still registered (with id 1) -/
theorem superseded_registration_leaks_buggy_counterexample :
    let v : Variant := ⟨true, true, false⟩
    let c : Cfg := ⟨600, 2400, 2, 4, 2⟩
    let s1 := (stepV v c St.init (.reg 0 0 (some 600))).1
    let s2 := (stepV v c s1 (.reg 0 0 (some 1800))).1
    let s3 := stepV v c s2 (.adv 600)
    s2.regs.length = 2 ∧ s3.2 = .expired [(0, ⟨0, 0, 600⟩)] ∧ s3.1.byPeer = [((0, 0), 1)] := by
  decide

/-- …and the repaired code does not: same traces -/
example :
    let c : Cfg := ⟨600, 2400, 2, 4, 2⟩
    let s1 := (step c St.init (.reg 0 0 (some 600))).1
    let s2 := (step c s1 (.reg 0 0 (some 1800))).1
    let s3 := step c s2 (.adv 600)
    s2.regs.length = 1 ∧ s3.2 = .expired [] ∧ s3.1.byPeer = [((0, 0), 1)] := by
  decide

/-- the hypotheses of the theorems are satisfiable and the interesting branches are reached -/
example : (step cfgA (step cfgA St.init (.reg 0 0 (some 600))).1 (.reg 0 0 (some 1200))).2 = .regOk 1200 := by decide
example : (step cfgA (step cfgA St.init (.reg 0 0 (some 600))).1 (.reg 0 1 (some 600))).2 = .regErr .unavailable := by decide
example : (step cfgA (step cfgA St.init (.reg 0 0 (some 600))).1 (.disc none none none [0])).2
    = .discOk [(0, ⟨0, 0, 600⟩)] none := by decide
example : 1 ≤ cfgA.minTtl := by decide

end C51

#print axioms C51.spec_accepts_model
#print axioms C51.step_sim
#print axioms C51.reachable_sim
#print axioms C51.ttl_bounds
#print axioms C51.ttl_out_of_bounds_refused
#print axioms C51.per_peer_limit
#print axioms C51.total_limit
#print axioms C51.refresh
#print axioms C51.discover_live_only
#print axioms C51.cookie_ns
#print axioms C51.cookie_once_step
#print axioms C51.expired_event_exact
#print axioms C51.refresh_refused_at_peer_limit_buggy_counterexample
#print axioms C51.total_limit_off_by_one_buggy_counterexample
#print axioms C51.superseded_registration_leaks_buggy_counterexample
