import Libp2pModel.Common.Machine
import Libp2pModel.Proofs.C51_Sim
import Libp2pModel.Proofs.C51_Poll
/-!
# C51 — property theorems

`c : Cfg` is arbitrary (any limits, any cookie-cache capacity); the only hypothesis used, where
stated, is `1 ≤ c.minTtl` (a registration lives for at least one second — the default is 2 h).
Traces are arbitrary `List Op`; for `disc` ops the oracle (`chosen`) is arbitrary too: an
inadmissible oracle yields `discBadOracle`, which no implementation output matches.
-/
namespace C51

/-! ## refinement: the Spec accepts every output of the model -/

/-- One step of the model from a state related to the reference state: the Spec monitor, fed the
model's own output, answers `ok` and the states stay related. -/
theorem step_sim (c : Cfg) (hmin : 1 ≤ c.minTtl) {s : St} {r : Ref} (h : Sim c s r) (o : Op) :
    Sim c (step c s o).1 (specStep c r o (step c s o).2).1 ∧
    ((step c s o).2 ≠ .discBadOracle → (specStep c r o (step c s o).2).2 = "ok") := by
  cases o with
  | reg peer ns ttl => exact ⟨(reg_sim c hmin h peer ns ttl).1, fun _ => (reg_sim c hmin h peer ns ttl).2⟩
  | unreg peer ns => exact ⟨(unreg_sim c h peer ns).1, fun _ => (unreg_sim c h peer ns).2⟩
  | disc q cookie limit chosen => exact disc_sim c h q cookie limit chosen
  | adv d => exact ⟨(adv_sim c h d).1, fun _ => (adv_sim c h d).2⟩

/-- run the model and the Spec monitor side by side: the outputs and the verdicts -/
def runBoth (c : Cfg) : St → Ref → List Op → List (Out × String)
  | _, _, [] => []
  | s, r, o :: os =>
    let so := step c s o
    let rv := specStep c r o so.2
    (so.2, rv.2) :: runBoth c so.1 rv.1 os

/-- **Link theorem.** For every op sequence from the initial state, every verdict of the Spec on
the model's outputs is `ok` (so `impl = model` on a trace implies the Spec holds on `impl`). -/
theorem spec_accepts_model (c : Cfg) (hmin : 1 ≤ c.minTtl) (ops : List Op) :
    ∀ x ∈ runBoth c St.init Ref.init ops, x.1 ≠ .discBadOracle → x.2 = "ok" := by
  suffices H : ∀ (ops : List Op) (s : St) (r : Ref), Sim c s r →
      ∀ x ∈ runBoth c s r ops, x.1 ≠ .discBadOracle → x.2 = "ok" from H ops _ _ (sim_init c)
  intro ops
  induction ops with
  | nil => intro s r _ x hx; simp [runBoth] at hx
  | cons o os ih =>
    intro s r h x hx
    simp only [runBoth, List.mem_cons] at hx
    have hs := step_sim c hmin h o
    rcases hx with rfl | hx
    · exact hs.2
    · exact ih _ _ hs.1 x hx

/-- every reachable model state is the image of a reference state -/
theorem reachable_sim (c : Cfg) (hmin : 1 ≤ c.minTtl) (ops : List Op) :
    ∃ r, Sim c (Machine.exec (step c) St.init ops) r := by
  suffices H : ∀ (ops : List Op) (s : St) (r : Ref), Sim c s r → ∃ r', Sim c (Machine.exec (step c) s ops) r' from
    H ops _ _ (sim_init c)
  intro ops
  induction ops with
  | nil => intro s r h; exact ⟨r, h⟩
  | cons o os ih =>
    intro s r h
    exact ih _ _ (step_sim c hmin h o).1

/-! ## TTL bounds -/

/-- A registration is accepted only with an effective TTL in `[min_ttl, max_ttl]`, and the TTL
reported back is that effective TTL. Holds in every state. -/
theorem ttl_bounds (c : Cfg) (s : St) (peer ns : Nat) (ttlOpt : Option Nat) (t : Nat)
    (h : (step c s (.reg peer ns ttlOpt)).2 = .regOk t) :
    t = ttlOpt.getD DEFAULT_TTL ∧ c.minTtl ≤ t ∧ t ≤ c.maxTtl := by
  simp only [step, stepV, add_fixed] at h
  by_cases hv : ttlOpt.getD DEFAULT_TTL > c.maxTtl ∨ ttlOpt.getD DEFAULT_TTL < c.minTtl
  · simp [hv] at h
  · simp only [hv, if_false] at h
    by_cases hrej : (lookup (peer, ns) s.byPeer).isNone ∧ (countPeer s.byPeer peer ≥ c.perPeer ∨ s.byPeer.length ≥ c.total)
    · simp [hrej] at h
    · simp only [hrej, if_false, Out.regOk.injEq] at h
      omega

/-- conversely, a TTL outside the bounds is always refused with `InvalidTtl`, leaving the state alone -/
theorem ttl_out_of_bounds_refused (c : Cfg) (s : St) (peer ns : Nat) (ttlOpt : Option Nat)
    (hv : ttlOpt.getD DEFAULT_TTL > c.maxTtl ∨ ttlOpt.getD DEFAULT_TTL < c.minTtl) :
    step c s (.reg peer ns ttlOpt) = (s, .regErr .invalidTtl) := by
  simp [step, stepV, add_fixed, hv]

/-! ## cookie / namespace -/

/-- A discover whose cookie is bound to another namespace (or to a namespace while all namespaces
are asked for) is rejected and changes nothing; any other combination is served. -/
theorem cookie_ns (c : Cfg) (s : St) (q : Option Nat) (cookie : Option Cookie) (limit : Option Nat) (chosen : List Nat) :
    (cookieMismatch q cookie = true → step c s (.disc q cookie limit chosen) = (s, .discMismatch)) ∧
    (cookieMismatch q cookie = false → (step c s (.disc q cookie limit chosen)).2 ≠ .discMismatch) := by
  constructor
  · intro h; simp [step, stepV, get_eq, h]
  · intro h
    simp only [step, stepV, get_eq, h, Bool.false_eq_true, if_false, getCore]
    split
    · simp
    · split <;> simp

theorem cookieMismatch_iff (q : Option Nat) (cookie : Option Cookie) :
    cookieMismatch q cookie = true ↔ ∃ ck cn, cookie = some ck ∧ ck.2 = some cn ∧ q ≠ some cn := by
  unfold cookieMismatch
  cases cookie with
  | none => cases q <;> simp
  | some ck =>
    obtain ⟨k, cn⟩ := ck
    cases cn with
    | none => cases q <;> simp
    | some cn => cases q <;> simp

/-! ## limits -/

theorem remove_byPeer (s : St) (peer ns : Nat) :
    (remove s peer ns).byPeer = s.byPeer.filter (fun e => !decide (e.1 = (peer, ns))) := by
  unfold remove
  cases hl : lookup (peer, ns) s.byPeer with
  | none =>
    exact (List.filter_eq_self.2 (fun e he => by simpa using lookup_none_not_mem hl e he)).symm
  | some id => rfl

theorem get_frame (c : Cfg) (s : St) (q : Option Nat) (cookie : Option Cookie) (limit : Option Nat) (chosen : List Nat) :
    (get c s q cookie limit chosen).1.byPeer = s.byPeer ∧ (get c s q cookie limit chosen).1.regs = s.regs ∧
    (get c s q cookie limit chosen).1.timers = s.timers ∧ (get c s q cookie limit chosen).1.now = s.now := by
  rw [get_eq]
  split
  · exact ⟨rfl, rfl, rfl, rfl⟩
  · unfold getCore
    split
    · exact ⟨rfl, rfl, rfl, rfl⟩
    · split <;> exact ⟨rfl, rfl, rfl, rfl⟩

theorem filter_filter_length_lt {α} (p q : α → Bool) {l : List α} {x : α} (hx : x ∈ l) (hq : q x = true)
    (hp : p x = false) : ((l.filter p).filter q).length + 1 ≤ (l.filter q).length := by
  induction l with
  | nil => simp at hx
  | cons a t ih =>
    have hmono : ((t.filter p).filter q).length ≤ (t.filter q).length :=
      (List.Sublist.filter q (List.filter_sublist (p := p) (l := t))).length_le
    rcases List.mem_cons.1 hx with rfl | hm
    · simp only [List.filter, hp, hq, List.length_cons]
      omega
    · have := ih hm
      cases hpa : p a <;> cases hqa : q a <;> simp only [List.filter, hpa, hqa, List.length_cons] <;> omega

/-- the two limits as a state invariant -/
def LimitInv (c : Cfg) (s : St) : Prop :=
  (∀ p, countPeer s.byPeer p ≤ c.perPeer) ∧ s.byPeer.length ≤ c.total

theorem limit_step (c : Cfg) (s : St) (o : Op) (h : LimitInv c s) : LimitInv c (step c s o).1 := by
  obtain ⟨hpp, htot⟩ := h
  have hfil : ∀ (f : Key × Nat → Bool), LimitInv c { s with byPeer := s.byPeer.filter f } := by
    intro f
    refine ⟨fun p => ?_, Nat.le_trans (List.length_filter_le _ _) htot⟩
    refine Nat.le_trans ?_ (hpp p)
    exact (List.Sublist.filter _ (List.filter_sublist)).length_le
  cases o with
  | unreg peer ns =>
    simp only [step, stepV]
    have := hfil (fun e => !decide (e.1 = (peer, ns)))
    unfold LimitInv at this ⊢
    rw [remove_byPeer]
    exact this
  | disc q cookie limit chosen =>
    simp only [step, stepV]
    unfold LimitInv
    rw [(get_frame c s q cookie limit chosen).1]
    exact ⟨hpp, htot⟩
  | adv d =>
    simp only [step, stepV, advance]
    exact hfil _
  | reg peer ns ttlOpt =>
    simp only [step, stepV, add_fixed]
    by_cases hv : ttlOpt.getD DEFAULT_TTL > c.maxTtl ∨ ttlOpt.getD DEFAULT_TTL < c.minTtl
    · simp only [hv, if_true]; exact ⟨hpp, htot⟩
    · simp only [hv, if_false]
      by_cases hrej : (lookup (peer, ns) s.byPeer).isNone ∧ (countPeer s.byPeer peer ≥ c.perPeer ∨ s.byPeer.length ≥ c.total)
      · simp only [hrej, and_self, if_true]; exact ⟨hpp, htot⟩
      · simp only [hrej, if_false]
        unfold LimitInv
        dsimp only
        rw [remove_byPeer]
        unfold bimapInsert
        generalize hB1 : List.filter (fun e => !decide (e.1 = (peer, ns))) s.byPeer = B1
        have hB2 : (B1.filter (fun e => !decide (e.1 = (peer, ns)) && !decide (e.2 = s.nextId))).length ≤ B1.length :=
          List.length_filter_le _ _
        have hcB2 : ∀ p, countPeer (B1.filter (fun e => !decide (e.1 = (peer, ns)) && !decide (e.2 = s.nextId))) p ≤ countPeer B1 p :=
          fun p => (List.Sublist.filter _ (List.filter_sublist)).length_le
        have hcB1 : ∀ p, countPeer B1 p ≤ countPeer s.byPeer p := by
          intro p; rw [← hB1]; exact (List.Sublist.filter _ (List.filter_sublist)).length_le
        have hlB1 : B1.length ≤ s.byPeer.length := by rw [← hB1]; exact List.length_filter_le _ _
        -- the room for the new entry
        have hroom : B1.length + 1 ≤ c.total ∧ countPeer B1 peer + 1 ≤ c.perPeer := by
          cases hl : lookup (peer, ns) s.byPeer with
          | none =>
            simp only [hl, Option.isNone_none, true_and, not_or, Nat.not_le] at hrej
            have := hcB1 peer
            omega
          | some old =>
            have hmem := lookup_some_mem hl
            constructor
            · have := filter_length_lt_of_mem (fun e : Key × Nat => !decide (e.1 = (peer, ns))) hmem (by simp)
              rw [hB1] at this; omega
            · have := filter_filter_length_lt (fun e : Key × Nat => !decide (e.1 = (peer, ns)))
                (fun e : Key × Nat => decide (e.1.1 = peer)) hmem (by simp) (by simp)
              rw [hB1] at this
              have h2 := hpp peer
              unfold countPeer at h2 ⊢
              omega
        constructor
        · intro p
          have h1 := hcB2 p
          have h2 := hcB1 p
          have h3 := hpp p
          unfold countPeer at h1 h2 h3 ⊢
          rw [List.filter_append, List.length_append]
          by_cases hp : peer = p
          · subst hp
            have := hroom.2
            unfold countPeer at this
            simp only [List.filter, decide_true, List.length_cons, List.length_nil]
            omega
          · simp only [List.filter, hp, decide_false, List.length_nil]
            omega
        · rw [List.length_append]
          simp only [List.length_cons, List.length_nil]
          omega

/-- **Per-peer limit.** After any op sequence, no peer holds more than `max_registrations_per_peer`
registrations. -/
theorem per_peer_limit (c : Cfg) (ops : List Op) (p : Nat) :
    countPeer (Machine.exec (step c) St.init ops).byPeer p ≤ c.perPeer :=
  (Machine.invariant_of_step (step c) (LimitInv c) (fun s o h => limit_step c s o h) ops St.init
    ⟨fun _ => by simp [St.init, countPeer], by simp [St.init]⟩).1 p

/-- **Total limit.** After any op sequence, at most `max_registrations_total` registrations exist. -/
theorem total_limit (c : Cfg) (ops : List Op) :
    (Machine.exec (step c) St.init ops).byPeer.length ≤ c.total :=
  (Machine.invariant_of_step (step c) (LimitInv c) (fun s o h => limit_step c s o h) ops St.init
    ⟨fun _ => by simp [St.init, countPeer], by simp [St.init]⟩).2

/-! ## refresh -/

/-- **Refresh.** In every reachable state, re-registering an existing `(peer, namespace)` with a valid
TTL is accepted — whatever the limits — and replaces the registration: the key now maps to the new
id with the new data, and the superseded id is gone from both tables (so it can neither be
discovered nor reported as expired later, see `expired_event_exact`). -/
theorem refresh (c : Cfg) (hmin : 1 ≤ c.minTtl) (ops : List Op) (peer ns : Nat) (ttlOpt : Option Nat) (old : Nat)
    (hold : lookup (peer, ns) (Machine.exec (step c) St.init ops).byPeer = some old)
    (hv : c.minTtl ≤ ttlOpt.getD DEFAULT_TTL ∧ ttlOpt.getD DEFAULT_TTL ≤ c.maxTtl) :
    let s := Machine.exec (step c) St.init ops
    let s' := (step c s (.reg peer ns ttlOpt)).1
    (step c s (.reg peer ns ttlOpt)).2 = .regOk (ttlOpt.getD DEFAULT_TTL) ∧
    lookup (peer, ns) s'.byPeer = some s.nextId ∧
    lookup s.nextId s'.regs = some ⟨peer, ns, ttlOpt.getD DEFAULT_TTL⟩ ∧
    (∀ k, (k, old) ∉ s'.byPeer) ∧ lookup old s'.regs = none := by
  intro s s'
  obtain ⟨r, h⟩ := reachable_sim c hmin ops
  have hstep := (step_sim c hmin h (.reg peer ns ttlOpt)).1
  have hv' : ¬ (ttlOpt.getD DEFAULT_TTL > c.maxTtl ∨ ttlOpt.getD DEFAULT_TTL < c.minTtl) := by omega
  have hrej : ¬ ((lookup (peer, ns) s.byPeer).isNone ∧ (countPeer s.byPeer peer ≥ c.perPeer ∨ s.byPeer.length ≥ c.total)) := by
    show ¬ ((lookup (peer, ns) (Machine.exec (step c) St.init ops).byPeer).isNone ∧ _)
    rw [hold]; simp
  have hout : step c s (.reg peer ns ttlOpt) =
      ({ (remove s peer ns) with
            byPeer := bimapInsert (remove s peer ns).byPeer (peer, ns) s.nextId,
            regs := mapInsert (remove s peer ns).regs s.nextId ⟨peer, ns, ttlOpt.getD DEFAULT_TTL⟩,
            timers := (remove s peer ns).timers ++ [((remove s peer ns).now + ttlOpt.getD DEFAULT_TTL, s.nextId)],
            nextId := s.nextId + 1 }, .regOk (ttlOpt.getD DEFAULT_TTL)) := by
    simp only [step, stepV, add_fixed, hv', hrej, if_false]
  have hs' : s' = (step c s (.reg peer ns ttlOpt)).1 := rfl
  rw [hout] at hs' ⊢
  dsimp only at hs'
  have holdlt : old < s.nextId := by
    have hm := lookup_some_mem hold
    have : ((peer, ns), old) ∈ liveBP r.live := by rw [← h.bp]; exact hm
    obtain ⟨e, he, _, hi⟩ := mem_liveBP.1 this
    rw [← hi]; exact h.idlt e he
  refine ⟨rfl, ?_, ?_, ?_, ?_⟩
  · rw [hs']; dsimp only; unfold bimapInsert
    apply lookup_append_new
    intro e he
    have := (List.mem_filter.1 he).2
    simp only [Bool.and_eq_true, Bool.not_eq_true', decide_eq_false_iff_not] at this
    exact this.1
  · rw [hs']; dsimp only; unfold mapInsert
    apply lookup_append_new
    intro e he
    have := (List.mem_filter.1 he).2
    simpa using this
  · intro k hk
    rw [hs'] at hk; dsimp only at hk; unfold bimapInsert at hk
    rcases List.mem_append.1 hk with hk | hk
    · have hk := (List.mem_filter.1 hk).1
      rw [remove_byPeer] at hk
      have hk2 := List.mem_filter.1 hk
      have hne : k ≠ (peer, ns) := by simpa using hk2.2
      -- `old` belongs to `(peer, ns)` only
      have h1 : (k, old) ∈ liveBP r.live := by rw [← h.bp]; exact hk2.1
      have h2 : ((peer, ns), old) ∈ liveBP r.live := by rw [← h.bp]; exact lookup_some_mem hold
      obtain ⟨e1, he1, hk1, hi1⟩ := mem_liveBP.1 h1
      obtain ⟨e2, he2, hk2', hi2⟩ := mem_liveBP.1 h2
      have := eq_of_id_eq h.idnd he1 he2 (by rw [hi1, hi2])
      exact hne (by rw [← hk1, this, hk2'])
    · simp only [List.mem_singleton, Prod.mk.injEq] at hk
      omega
  · rw [hs']; dsimp only; unfold mapInsert
    rw [lookup_append_old _ _ _ (by omega)]
    cases hl : lookup old (List.filter (fun e => !decide (e.1 = s.nextId)) (remove s peer ns).regs) with
    | none => rfl
    | some v =>
      exfalso
      have hm := (List.mem_filter.1 (lookup_some_mem hl)).1
      unfold remove at hm
      rw [show lookup (peer, ns) s.byPeer = some old from hold] at hm
      have := (List.mem_filter.1 hm).2
      simp at this

/-! ## discovery -/

/-- **Discovery returns only live registrations.** In every reachable state a served discover never
hits the `expect("bad internal data structure")`, and every returned entry is a *current*
registration (its key maps to its id — so it is neither superseded nor unregistered), of the
requested namespace, returned with the data it was registered with, whose own timer is pending with
a deadline still in the future (it has not expired). -/
theorem discover_live_only (c : Cfg) (hmin : 1 ≤ c.minTtl) (ops : List Op)
    (q : Option Nat) (cookie : Option Cookie) (limit : Option Nat) (chosen : List Nat) :
    let s := Machine.exec (step c) St.init ops
    (step c s (.disc q cookie limit chosen)).2 ≠ .discPanic ∧
    ∀ entries cns, (step c s (.disc q cookie limit chosen)).2 = .discOk entries cns →
      cns = q ∧ (entries.map (·.1)).Nodup ∧
      ∀ x ∈ entries, ((x.2.peer, x.2.ns), x.1) ∈ s.byPeer ∧ lookup x.1 s.regs = some x.2 ∧
        nsMatch q x.2.ns = true ∧ ∃ dl, (dl, x.1) ∈ s.timers ∧ s.now < dl := by
  intro s
  obtain ⟨r, h⟩ := reachable_sim c hmin ops
  have hs := disc_sim c h q cookie limit chosen
  generalize hout : (step c s (.disc q cookie limit chosen)).2 = out at hs ⊢
  cases out with
  | discPanic =>
    have := hs.2 (by simp)
    simp [specStep] at this
  | discOk entries cns =>
    refine ⟨by simp, ?_⟩
    intro entries' cns' heq
    simp only [Out.discOk.injEq] at heq
    obtain ⟨rfl, rfl⟩ := heq
    have hok := hs.2 (by simp)
    simp only [specStep] at hok
    split at hok; · simp at hok
    split at hok; · simp at hok
    next hcns =>
    split at hok; · simp at hok
    next hlive =>
    split at hok; · simp at hok
    next hnd =>
    simp only [ne_eq, Decidable.not_not] at hcns
    simp only [Bool.not_eq_true', Bool.not_eq_false] at hlive hnd
    refine ⟨hcns, by simpa using hnd, ?_⟩
    intro x hx
    have := (List.all_eq_true.1 (by simpa using hlive)) x hx
    unfold entryLive at this
    simp only [Bool.and_eq_true, List.any_eq_true, decide_eq_true_eq] at this
    obtain ⟨hns, e, he, ⟨⟨hk, hi⟩, ht⟩, hdl⟩ := this
    have htm := h.timer e he
    refine ⟨?_, ?_, hns, e.2.deadline, by rw [← hi]; exact htm.1, htm.2⟩
    · rw [h.bp]; exact mem_liveBP.2 ⟨e, he, hk, hi⟩
    · rw [h.regs, ← hi]
      have := lookup_liveRegs h.idnd he
      rw [this]
      simp only [liveEntry, Option.some.injEq]
      obtain ⟨xi, xp, xn, xt⟩ := x
      simp only at hk ht
      rw [hk, ht]
  | _ => exact ⟨by simp, by intro _ _ h; simp at h⟩

/-- **Cookie: at most once (one step, any state).** If the presented cookie is still in the cache with
stored set `st`, a served discover returns only ids outside `st`, pairwise distinct; and (capacity
≥ 1) the new cookie is stored with `st ++ returned ids`, so the next discover presenting it skips
all of them again. -/
theorem cookie_once_step (c : Cfg) (s : St) (q : Option Nat) (ck : Cookie) (limit : Option Nat) (chosen : List Nat)
    (st : List Nat) (hst : lookup ck s.cookies = some st) (entries : List (Nat × Reg)) (cns : Option Nat) (s' : St)
    (h : step c s (.disc q (some ck) limit chosen) = (s', .discOk entries cns)) :
    (∀ x ∈ entries, x.1 ∉ st) ∧ (entries.map (·.1)).Nodup ∧
    (1 ≤ c.cookieCap → lookup (s.nextCookie, q) s'.cookies = some (st ++ entries.map (·.1))) := by
  -- the entries are the chosen ids, in order
  have hmapAux : ∀ (l : List Nat) (es : List (Nat × Reg)),
      allSome (l.map fun id => (lookup id s.regs).map fun r => (id, r)) = some es → es.map (·.1) = l := by
    intro l
    induction l with
    | nil => intro es h; simp [allSome] at h; subst h; rfl
    | cons a t ih =>
      intro es h
      simp only [List.map] at h
      cases hl : lookup a s.regs with
      | none => simp [hl, allSome] at h
      | some v =>
        simp only [hl, Option.map_some, allSome] at h
        cases ht : allSome (t.map fun id => (lookup id s.regs).map fun r => (id, r)) with
        | none => simp [ht] at h
        | some es' =>
          simp only [ht, Option.map_some, Option.some.injEq] at h
          subst h
          simp [ih es' ht]
  have hstep : step c s (.disc q (some ck) limit chosen) =
      if cookieMismatch q (some ck) then (s, .discMismatch)
      else getCore c s q (some st) (lruGet s.cookies ck).2 limit chosen := by
    simp only [step, stepV, get_eq, Option.bind_some, hst]
  by_cases hm : cookieMismatch q (some ck) = true
  · rw [hstep] at h; simp [hm] at h
  · by_cases hvc : validChoice (candidates s q st) limit chosen = true
    · obtain ⟨hall, hnd⟩ := validChoice_spec hvc
      cases hes : allSome (chosen.map fun id => (lookup id s.regs).map fun r => (id, r)) with
      | none =>
        rw [hstep] at h
        simp [hm, getCore, hvc, hes] at h
      | some es =>
        have hfull : step c s (.disc q (some ck) limit chosen) =
            ({ s with cookies := lruInsert c.cookieCap (lruGet s.cookies ck).2 (s.nextCookie, q) (st ++ chosen),
                      nextCookie := s.nextCookie + 1 }, .discOk es q) := by
          rw [hstep]
          simp only [hm, Bool.false_eq_true, if_false, getCore, Option.getD_some, hvc, Bool.not_true, hes]
        rw [hfull] at h
        have h1 := (Prod.mk.inj h).1
        have h' := (Prod.mk.inj h).2
        simp only [Out.discOk.injEq] at h'
        have hee : es = entries := h'.1
        have hcook : s'.cookies = lruInsert c.cookieCap (lruGet s.cookies ck).2 (s.nextCookie, q) (st ++ chosen) := by
          rw [← h1]
        have hmap : entries.map (·.1) = chosen := by rw [← hee]; exact hmapAux chosen es hes
        refine ⟨?_, by rw [hmap]; exact hnd, fun hcap => ?_⟩
        · intro x hx
          have : x.1 ∈ chosen := by rw [← hmap]; exact List.mem_map.2 ⟨x, hx, rfl⟩
          obtain ⟨_, _, hns, _⟩ := mem_candidates.1 (hall _ this)
          exact hns
        · rw [hcook, hmap]; exact lruInsert_lookup _ hcap _ _ _
    · rw [hstep] at h
      simp [hm, getCore, hvc] at h

/-! ## expiry events -/

/-- **`ExpiredRegistration` is emitted exactly for current registrations whose deadline passed.**
In every reachable state, when the clock advances by `d`: an entry is reported iff its id is that
of a *current* registration (its key maps to it; the reported data is the registered data) whose
timer is due; afterwards no remaining registration is due, and nothing else was removed. -/
theorem expired_event_exact (c : Cfg) (hmin : 1 ≤ c.minTtl) (ops : List Op) (d : Nat) :
    let s := Machine.exec (step c) St.init ops
    ∃ entries, (step c s (.adv d)).2 = .expired entries ∧
      (∀ x, x ∈ entries ↔
        (((x.2.peer, x.2.ns), x.1) ∈ s.byPeer ∧ lookup x.1 s.regs = some x.2 ∧
          ∃ dl, (dl, x.1) ∈ s.timers ∧ dl ≤ s.now + d)) ∧
      (∀ k id, (k, id) ∈ (step c s (.adv d)).1.byPeer ↔
        ((k, id) ∈ s.byPeer ∧ ∃ dl, (dl, id) ∈ s.timers ∧ s.now + d < dl)) := by
  intro s
  obtain ⟨r, h⟩ := reachable_sim c hmin ops
  refine ⟨_, rfl, ?_, ?_⟩
  · intro x
    have hdue := fun e he => due_iff h (s.now + d) (e := e) he
    constructor
    · intro hx
      have hx' := List.mem_filter.1 hx
      have hreg := hx'.1
      rw [h.regs] at hreg
      obtain ⟨e, he, rfl⟩ := List.mem_map.1 hreg
      have hd : (dueIds s (s.now + d)).contains e.2.id = true := hx'.2
      rw [hdue e he] at hd
      refine ⟨by rw [h.bp]; exact mem_liveBP.2 ⟨e, he, rfl, rfl⟩, ?_, e.2.deadline, (h.timer e he).1, by simpa using hd⟩
      rw [h.regs]; exact lookup_liveRegs h.idnd he
    · rintro ⟨hbp, hlk, dl, hdl, hle⟩
      rw [h.bp] at hbp
      obtain ⟨e, he, hk, hi⟩ := mem_liveBP.1 hbp
      have hlr := lookup_liveRegs h.idnd he
      rw [h.regs, ← hi, hlr] at hlk
      have hx2 : x = liveEntry e := by
        cases x with
        | mk xi xr => simp only at hi hlk ⊢; rw [← Option.some.inj hlk, ← hi]; rfl
      apply List.mem_filter.2
      refine ⟨by rw [h.regs, hx2]; exact List.mem_map.2 ⟨e, he, rfl⟩, ?_⟩
      show (dueIds s (s.now + d)).contains x.1 = true
      rw [List.contains_iff_mem]
      exact List.mem_map.2 ⟨(dl, x.1), List.mem_filter.2 ⟨hdl, by simpa using hle⟩, rfl⟩
  · intro k id
    have hdue := fun e he => due_iff h (s.now + d) (e := e) he
    show (k, id) ∈ List.filter (fun e => !(dueIds s (s.now + d)).contains e.2) s.byPeer ↔ _
    rw [List.mem_filter]
    constructor
    · rintro ⟨hm, hnd⟩
      refine ⟨hm, ?_⟩
      rw [h.bp] at hm
      obtain ⟨e, he, hk, hi⟩ := mem_liveBP.1 hm
      have := hdue e he
      rw [hi] at this
      simp only at hnd
      rw [this] at hnd
      refine ⟨e.2.deadline, by rw [← hi]; exact (h.timer e he).1, ?_⟩
      have : ¬ e.2.deadline ≤ s.now + d := by simpa using hnd
      omega
    · rintro ⟨hm, dl, hdl, hlt⟩
      refine ⟨hm, ?_⟩
      have hm' := hm
      rw [h.bp] at hm'
      obtain ⟨e, he, hk, hi⟩ := mem_liveBP.1 hm'
      have := hdue e he
      rw [hi] at this
      simp only
      rw [this]
      -- the registration's own timer is the only timer with its id
      have hc : (dueIds s (s.now + d)).contains id = false := by
        apply Bool.eq_false_iff.2
        intro hc
        rw [this] at hc
        have hle : e.2.deadline ≤ s.now + d := by simpa using hc
        have h1 : (dueIds s (s.now + d)).contains id = true := by rw [this]; simpa using hle
        -- then `dl` would be due as well — but `dl > now + d` and ids are unique among timers
        have htm := (h.timer e he).1
        rw [hi] at htm
        have : dl = e.2.deadline := by
          have hnd := h.tnd
          revert hdl htm
          generalize s.timers = ts at hnd
          intro hdl htm
          induction ts with
          | nil => simp at hdl
          | cons a tl ih =>
            simp only [List.map, List.nodup_cons] at hnd
            rcases List.mem_cons.1 hdl with h1 | h1 <;> rcases List.mem_cons.1 htm with h2 | h2
            · rw [← h1] at h2; exact (Prod.mk.inj h2).1.symm
            · exact absurd (List.mem_map.2 ⟨_, h2, by rw [← h1]⟩) hnd.1
            · exact absurd (List.mem_map.2 ⟨_, h1, by rw [← h2]⟩) hnd.1
            · exact ih hnd.2 h1 h2
        omega
      rw [this] at hc
      simpa using hc

/-! ## the pre-fix code violates the property (documentation of the three repaired defects) -/

def cfgA : Cfg := ⟨600, 2400, 1, 4, 2⟩
def cfgA2 : Cfg := ⟨600, 2400, 2, 4, 2⟩

/-- pre-fix: a refresh at the per-peer limit was refused with `Unavailable` -/
theorem refresh_refused_at_peer_limit_buggy_counterexample :
    let v : Variant := ⟨false, true, true⟩
    let s1 := (stepV v cfgA St.init (.reg 0 0 (some 600))).1
    (stepV v cfgA St.init (.reg 0 0 (some 600))).2 = .regOk 600 ∧
    (stepV v cfgA s1 (.reg 0 0 (some 1200))).2 = .regErr .unavailable := by
  decide

/-- pre-fix: `len > max_total` let a third registration in with `max_registrations_total = 2` -/
theorem total_limit_off_by_one_buggy_counterexample :
    let v : Variant := ⟨true, false, true⟩
    let c : Cfg := ⟨600, 2400, 3, 2, 2⟩
    let s1 := (stepV v c St.init (.reg 0 0 (some 600))).1
    let s2 := (stepV v c s1 (.reg 1 0 (some 600))).1
    let s3 := (stepV v c s2 (.reg 2 0 (some 600)))
    s3.2 = .regOk 600 ∧ s3.1.byPeer.length = 3 := by
  decide

/-- pre-fix: the superseded registration stayed in `registrations` and was later reported as expired
although `(peer 0, ns 0)` was still registered (with id 1) -/
theorem superseded_registration_leaks_buggy_counterexample :
    let v : Variant := ⟨true, true, false⟩
    let c : Cfg := ⟨600, 2400, 2, 4, 2⟩
    let s1 := (stepV v c St.init (.reg 0 0 (some 600))).1
    let s2 := (stepV v c s1 (.reg 0 0 (some 1800))).1
    let s3 := stepV v c s2 (.adv 600)
    s2.regs.length = 2 ∧ s3.2 = .expired [(0, ⟨0, 0, 600⟩)] ∧ s3.1.byPeer = [((0, 0), 1)] := by
  decide

/-- …and the repaired code does not: same traces -/
example :
    let c : Cfg := ⟨600, 2400, 2, 4, 2⟩
    let s1 := (step c St.init (.reg 0 0 (some 600))).1
    let s2 := (step c s1 (.reg 0 0 (some 1800))).1
    let s3 := step c s2 (.adv 600)
    s2.regs.length = 1 ∧ s3.2 = .expired [] ∧ s3.1.byPeer = [((0, 0), 1)] := by
  decide

/-- the hypotheses of the theorems are satisfiable and the interesting branches are reached -/
example : (step cfgA (step cfgA St.init (.reg 0 0 (some 600))).1 (.reg 0 0 (some 1200))).2 = .regOk 1200 := by decide
example : (step cfgA (step cfgA St.init (.reg 0 0 (some 600))).1 (.reg 0 1 (some 600))).2 = .regErr .unavailable := by decide
example : (step cfgA (step cfgA St.init (.reg 0 0 (some 600))).1 (.disc none none none [0])).2
    = .discOk [(0, ⟨0, 0, 600⟩)] none := by decide
example : 1 ≤ cfgA.minTtl := by decide

/-! ## `poll` one iteration at a time: confluence with the bulk form -/

/-- **`pollOne`* = `advance`.** Move the clock by `d`, then run `poll`'s loop one iteration at a time,
at every step yielding ANY timer that is due (the order in which `FuturesUnordered` yields completed
expiries is arbitrary), until nothing is due. Whatever the order: the final state is exactly the
state `advance s d` computes, the emitted `RegistrationExpired` events are a permutation of
`advance`'s events (same multiset), and the number of iterations is the number of due timers
(termination measure). Holds in every state whose `registrations` map has distinct keys (a `HashMap`;
true in every reachable state, see `pollOne_star_eq_advance_reachable`). -/
theorem pollOne_star_eq_advance (s : St) (d : Nat) (hnd : (s.regs.map (·.1)).Nodup)
    {n : Nat} {evs : List (Nat × Reg)} {sf : St} (hrun : PollRun { s with now := s.now + d } n evs sf) :
    sf = (advance s d).1 ∧ (∃ es, (advance s d).2 = .expired es ∧ evs.Perm es) ∧
    n = (dueIds s (s.now + d)).length := by
  have h := pollRun_eq_advance hrun hnd
  rw [advance_tick]
  refine ⟨h.1, ⟨_, rfl, h.2.1⟩, ?_⟩
  rw [h.2.2]; simp [dueCount, dueIds]

/-- such a run always exists: the loop terminates (each iteration consumes one due timer) -/
theorem pollOne_star_terminates (s : St) (d : Nat) :
    ∃ n evs sf, PollRun { s with now := s.now + d } n evs sf := pollRun_exists _ _ rfl

/-- the same in every state reachable with arbitrary interleaving of requests, clock ticks and single
`poll` iterations: finishing the pending iterations in any order = the bulk `advance 0` -/
theorem pollOne_star_eq_advance_reachable (c : Cfg) (ops : List FOp) (d : Nat)
    {n : Nat} {evs : List (Nat × Reg)} {sf : St}
    (hrun : PollRun { (Machine.exec (fstep c) St.init ops) with now := (Machine.exec (fstep c) St.init ops).now + d } n evs sf) :
    sf = (advance (Machine.exec (fstep c) St.init ops) d).1 ∧
    ∃ es, (advance (Machine.exec (fstep c) St.init ops) d).2 = .expired es ∧ evs.Perm es :=
  let h := pollOne_star_eq_advance _ d (finv_reachable c ops).rnd hrun
  ⟨h.1, h.2.1⟩

/-! ## TTL guarantees under arbitrary interleaving (`FOp`: requests, `tick`, single `poll e`) -/

theorem timer_unique {ts : List (Nat × Nat)} (hnd : (ts.map (·.2)).Nodup) {a b id : Nat}
    (ha : (a, id) ∈ ts) (hb : (b, id) ∈ ts) : a = b := by
  induction ts with
  | nil => simp at ha
  | cons x tl ih =>
    simp only [List.map, List.nodup_cons] at hnd
    rcases List.mem_cons.1 ha with h1 | h1 <;> rcases List.mem_cons.1 hb with h2 | h2
    · rw [← h1] at h2; exact (Prod.mk.inj h2).1.symm
    · exact absurd (List.mem_map.2 ⟨_, h2, by rw [← h1]⟩) hnd.1
    · exact absurd (List.mem_map.2 ⟨_, h1, by rw [← h2]⟩) hnd.1
    · exact ih hnd.2 h1 h2

theorem fstep_now_mono (c : Cfg) (s : St) (o : FOp) : s.now ≤ (fstep c s o).1.now := by
  cases o with
  | reg peer ns ttlOpt =>
    simp only [fstep]
    rcases reg_cases c s peer ns ttlOpt with ⟨e, he⟩ | ⟨s', he, _, _, _, hn, _⟩
    · rw [he]; exact Nat.le_refl _
    · rw [he]; dsimp only; omega
  | unreg peer ns => simp only [fstep, step, stepV]; rw [(remove_frame s peer ns).2.1]; exact Nat.le_refl _
  | disc q cookie limit chosen =>
    simp only [fstep, step, stepV]; rw [(get_frame2 c s q cookie limit chosen).2.2.2.1]; exact Nat.le_refl _
  | tick d => simp only [fstep]; omega
  | poll e =>
    simp only [fstep]; split
    · rw [pollStep_now]; exact Nat.le_refl _
    · exact Nat.le_refl _

/-- one step: a current registration with its pending timer stays, unless it is explicitly
unregistered / refreshed, or its own timer — then necessarily due — is the one being polled -/
theorem keep_step (c : Cfg) (s : St) (h : FInv s) (key : Key) (id dl : Nat)
    (hcur : (key, id) ∈ s.byPeer) (htm : (dl, id) ∈ s.timers) (o : FOp)
    (hno : o ≠ .unreg key.1 key.2 ∧ ∀ t, o ≠ .reg key.1 key.2 t) :
    ((key, id) ∈ (fstep c s o).1.byPeer ∧ (dl, id) ∈ (fstep c s o).1.timers) ∨ dl ≤ (fstep c s o).1.now := by
  cases o with
  | reg peer ns ttlOpt =>
    have hk : key ≠ (peer, ns) := by
      intro hk; apply hno.2 ttlOpt; rw [hk]
    simp only [fstep]
    rcases reg_cases c s peer ns ttlOpt with ⟨e, he⟩ | ⟨s', he, hbp, htm', _, _, _⟩
    · rw [he]; exact Or.inl ⟨hcur, htm⟩
    · rw [he]; dsimp only
      left
      refine ⟨?_, by rw [htm']; exact List.mem_append_left _ htm⟩
      rw [hbp]
      have := (h.cur key id hcur).1
      exact mem_bimapInsert.2 (Or.inl ⟨List.mem_filter.2 ⟨hcur, by simpa using hk⟩, hk, by omega⟩)
  | unreg peer ns =>
    have hk : key ≠ (peer, ns) := by
      intro hk; apply hno.1; rw [hk]
    simp only [fstep, step, stepV]
    left
    rw [remove_byPeer', (remove_frame s peer ns).1]
    exact ⟨List.mem_filter.2 ⟨hcur, by simpa using hk⟩, htm⟩
  | disc q cookie limit chosen =>
    simp only [fstep, step, stepV]
    obtain ⟨h1, _, h3, _, _⟩ := get_frame2 c s q cookie limit chosen
    left; rw [h1, h3]; exact ⟨hcur, htm⟩
  | tick d => exact Or.inl ⟨hcur, htm⟩
  | poll e =>
    simp only [fstep]
    split
    · next hen =>
      by_cases hid : e.2 = id
      · right
        have : e = (e.1, id) := by rw [← hid]
        have heq := timer_unique h.tnd (by rw [← this]; exact hen.1) htm
        rw [pollStep_now]; omega
      · left
        constructor
        · show (key, id) ∈ (pollOne s e.2).1.byPeer
          rw [(pollOne_frame s e.2).1]
          exact List.mem_filter.2 ⟨hcur, by simpa using fun h => hid h.symm⟩
        · show (dl, id) ∈ s.timers.erase e
          exact (List.mem_erase_of_ne (by intro h; apply hid; rw [← h])).2 htm
    · exact Or.inl ⟨hcur, htm⟩

/-- **Never removed before its TTL.** Arbitrary interleaving before (`ops1`) and after (`ops2`) an
accepted REGISTER at instant `t0` with TTL `ttl`: unless `(peer, ns)` is explicitly unregistered or
re-registered, the registration stays current — with its own timer `(t0 + ttl, id)` pending — until
at least `t0 + ttl`; it can only leave because that timer was polled, which requires
`t0 + ttl ≤ now`. No `poll` iteration of another timer, no other request and no clock movement
removes it. -/
theorem never_removed_before_ttl (c : Cfg) (ops1 ops2 : List FOp) (peer ns : Nat) (ttlOpt : Option Nat) (ttl : Nat)
    (hacc : (fstep c (Machine.exec (fstep c) St.init ops1) (.reg peer ns ttlOpt)).2 = .regOk ttl)
    (hno : ∀ o ∈ ops2, o ≠ .unreg peer ns ∧ ∀ t, o ≠ .reg peer ns t) :
    let s1 := Machine.exec (fstep c) St.init ops1
    let s2 := Machine.exec (fstep c) (fstep c s1 (.reg peer ns ttlOpt)).1 ops2
    (((peer, ns), s1.nextId) ∈ s2.byPeer ∧ (s1.now + ttl, s1.nextId) ∈ s2.timers) ∨ s1.now + ttl ≤ s2.now := by
  intro s1 s2
  have hinv1 : FInv s1 := finv_reachable c ops1
  -- after the accepted REGISTER the entry and its timer are there
  have hstart : FInv (fstep c s1 (.reg peer ns ttlOpt)).1 ∧
      ((peer, ns), s1.nextId) ∈ (fstep c s1 (.reg peer ns ttlOpt)).1.byPeer ∧
      (s1.now + ttl, s1.nextId) ∈ (fstep c s1 (.reg peer ns ttlOpt)).1.timers := by
    refine ⟨finv_step c s1 _ hinv1, ?_⟩
    have hacc' : (fstep c s1 (.reg peer ns ttlOpt)).2 = .regOk ttl := hacc
    simp only [fstep] at hacc' ⊢
    rcases reg_cases c s1 peer ns ttlOpt with ⟨e, he⟩ | ⟨s', he, hbp, htm', _, _, _⟩
    · rw [he] at hacc'; simp at hacc'
    · rw [he] at hacc' ⊢
      simp only [Out.regOk.injEq] at hacc'
      dsimp only
      rw [hbp, htm', ← hacc']
      exact ⟨mem_bimapInsert.2 (Or.inr ⟨rfl, rfl⟩), List.mem_append_right _ (by simp)⟩
  -- and this is kept by every later step
  suffices H : ∀ (ops : List FOp) (s : St), FInv s →
      (∀ o ∈ ops, o ≠ .unreg peer ns ∧ ∀ t, o ≠ .reg peer ns t) →
      ((((peer, ns), s1.nextId) ∈ s.byPeer ∧ (s1.now + ttl, s1.nextId) ∈ s.timers) ∨ s1.now + ttl ≤ s.now) →
      ((((peer, ns), s1.nextId) ∈ (Machine.exec (fstep c) s ops).byPeer ∧
          (s1.now + ttl, s1.nextId) ∈ (Machine.exec (fstep c) s ops).timers) ∨
        s1.now + ttl ≤ (Machine.exec (fstep c) s ops).now) from
    H ops2 _ hstart.1 hno (Or.inl hstart.2)
  intro ops
  induction ops with
  | nil => intro s _ _ h; exact h
  | cons o os ih =>
    intro s hinv hn h
    apply ih _ (finv_step c s o hinv) (fun o' ho' => hn o' (List.mem_cons_of_mem _ ho'))
    rcases h with ⟨hc, ht⟩ | hle
    · exact keep_step c s hinv (peer, ns) _ _ hc ht o (hn o (by simp))
    · right; have := fstep_now_mono c s o; omega

/-- the registration is gone for good: not current, not stored, and its id can never come back -/
def Gone (id : Nat) (s : St) : Prop :=
  id < s.nextId ∧ (∀ k, (k, id) ∉ s.byPeer) ∧ (∀ r, (id, r) ∉ s.regs)

theorem gone_step (c : Cfg) (id : Nat) (s : St) (o : FOp) (h : Gone id s) : Gone id (fstep c s o).1 := by
  obtain ⟨hlt, hbp, hrg⟩ := h
  cases o with
  | reg peer ns ttlOpt =>
    simp only [fstep]
    rcases reg_cases c s peer ns ttlOpt with ⟨e, he⟩ | ⟨s', he, hbp', _, hnid, _, hrg'⟩
    · rw [he]; exact ⟨hlt, hbp, hrg⟩
    · rw [he]; dsimp only
      refine ⟨by omega, ?_, ?_⟩
      · intro k hk
        rw [hbp'] at hk
        rcases mem_bimapInsert.1 hk with ⟨hk, _, _⟩ | ⟨_, hid⟩
        · exact hbp k (List.mem_filter.1 hk).1
        · omega
      · intro r hr
        rw [hrg'] at hr
        unfold mapInsert at hr
        rcases List.mem_append.1 hr with hr | hr
        · exact hrg r ((remove_regs_sublist s peer ns).subset (List.mem_filter.1 hr).1)
        · simp only [List.mem_singleton, Prod.mk.injEq] at hr; omega
  | unreg peer ns =>
    simp only [fstep, step, stepV]
    refine ⟨by rw [(remove_frame s peer ns).2.2.1]; exact hlt, ?_, ?_⟩
    · intro k hk; rw [remove_byPeer'] at hk; exact hbp k (List.mem_filter.1 hk).1
    · intro r hr; exact hrg r ((remove_regs_sublist s peer ns).subset hr)
  | disc q cookie limit chosen =>
    simp only [fstep, step, stepV]
    obtain ⟨h1, h2, _, _, h5⟩ := get_frame2 c s q cookie limit chosen
    unfold Gone; rw [h1, h2, h5]; exact ⟨hlt, hbp, hrg⟩
  | tick d => exact ⟨hlt, hbp, hrg⟩
  | poll e =>
    simp only [fstep]
    split
    · refine ⟨by show id < (pollOne s e.2).1.nextId; rw [(pollOne_frame s e.2).2.2.2.2.1]; exact hlt, ?_, ?_⟩
      · intro k hk
        have hk : (k, id) ∈ (pollOne s e.2).1.byPeer := hk
        rw [(pollOne_frame s e.2).1] at hk; exact hbp k (List.mem_filter.1 hk).1
      · intro r hr
        have hr : (id, r) ∈ (pollOne s e.2).1.regs := hr
        rw [pollOne_regs] at hr; exact hrg r (List.mem_filter.1 hr).1
    · exact ⟨hlt, hbp, hrg⟩

theorem allSome_ids (regs : List (Nat × Reg)) :
    ∀ (l : List Nat) (es : List (Nat × Reg)),
      allSome (l.map fun id => (lookup id regs).map fun r => (id, r)) = some es → es.map (·.1) = l := by
  intro l
  induction l with
  | nil => intro es h; simp [allSome] at h; subst h; rfl
  | cons a t ih =>
    intro es h
    simp only [List.map] at h
    cases hl : lookup a regs with
    | none => simp [hl, allSome] at h
    | some v =>
      simp only [hl, Option.map_some, allSome] at h
      cases ht : allSome (t.map fun id => (lookup id regs).map fun r => (id, r)) with
      | none => simp [ht] at h
      | some es' =>
        simp only [ht, Option.map_some, Option.some.injEq] at h
        subst h
        simp [ih es' ht]

/-- whatever cookie, limit and oracle: a served discover returns only ids that are current -/
theorem disc_ids_current (c : Cfg) (s : St) (q : Option Nat) (cookie : Option Cookie) (limit : Option Nat)
    (chosen : List Nat) (entries : List (Nat × Reg)) (cns : Option Nat)
    (h : (step c s (.disc q cookie limit chosen)).2 = .discOk entries cns) :
    ∀ x ∈ entries, ∃ k, (k, x.1) ∈ s.byPeer := by
  simp only [step, stepV, get_eq] at h
  by_cases hm : cookieMismatch q cookie = true
  · simp [hm] at h
  · simp only [hm, Bool.false_eq_true, if_false, getCore] at h
    generalize hfound : (cookie.bind fun ck => lookup ck s.cookies) = found at h
    by_cases hvc : validChoice (candidates s q (found.getD [])) limit chosen = true
    · simp only [hvc, Bool.not_true, Bool.false_eq_true, if_false] at h
      cases hes : allSome (chosen.map fun id => (lookup id s.regs).map fun r => (id, r)) with
      | none => rw [hes] at h; simp at h
      | some es =>
        rw [hes] at h
        simp only [Out.discOk.injEq] at h
        have hmap := allSome_ids s.regs chosen es hes
        intro x hx
        have hxc : x.1 ∈ chosen := by rw [← hmap, h.1]; exact List.mem_map.2 ⟨x, hx, rfl⟩
        obtain ⟨k, hk, _, _⟩ := mem_candidates.1 ((validChoice_spec hvc).1 _ hxc)
        exact ⟨k, hk⟩
    · simp [hvc] at h

/-- **Never discoverable after its expiry is processed.** Arbitrary interleaving before and after:
once the `poll` iteration for a due timer `e = (deadline, id)` has run, registration `id` is not
current, not stored, and no later discover — any namespace, cookie, limit — ever returns it. The
statement's "after TTL" is relative to this iteration: between the deadline and the iteration the
registration is still visible (see `visible_until_polled`). -/
theorem never_discoverable_after_expiry_processed (c : Cfg) (ops1 ops2 : List FOp) (e : Nat × Nat)
    (he : e ∈ (Machine.exec (fstep c) St.init ops1).timers) (hdue : e.1 ≤ (Machine.exec (fstep c) St.init ops1).now) :
    let s1 := Machine.exec (fstep c) St.init ops1
    let s2 := Machine.exec (fstep c) (fstep c s1 (.poll e)).1 ops2
    (∀ k, (k, e.2) ∉ s2.byPeer) ∧ (∀ r, (e.2, r) ∉ s2.regs) ∧
    ∀ q cookie limit chosen entries cns,
      (fstep c s2 (.disc q cookie limit chosen)).2 = .discOk entries cns → ∀ x ∈ entries, x.1 ≠ e.2 := by
  intro s1 s2
  have hinv1 : FInv s1 := finv_reachable c ops1
  have hgone1 : Gone e.2 (fstep c s1 (.poll e)).1 := by
    have hen : e ∈ s1.timers ∧ e.1 ≤ s1.now := ⟨he, hdue⟩
    simp only [fstep, hen, and_self, if_true]
    refine ⟨by show e.2 < (pollOne s1 e.2).1.nextId; rw [(pollOne_frame s1 e.2).2.2.2.2.1]; exact hinv1.tlt e he, ?_, ?_⟩
    · intro k hk
      have hk : (k, e.2) ∈ (pollOne s1 e.2).1.byPeer := hk
      rw [(pollOne_frame s1 e.2).1] at hk
      simpa using (List.mem_filter.1 hk).2
    · intro r hr
      have hr : (e.2, r) ∈ (pollOne s1 e.2).1.regs := hr
      rw [pollOne_regs] at hr
      simpa using (List.mem_filter.1 hr).2
  have hgone2 : Gone e.2 s2 :=
    Machine.invariant_of_step (fstep c) (Gone e.2) (fun s o h => gone_step c e.2 s o h) ops2 _ hgone1
  refine ⟨hgone2.2.1, hgone2.2.2, ?_⟩
  intro q cookie limit chosen entries cns hd x hx hxe
  obtain ⟨k, hk⟩ := disc_ids_current c s2 q cookie limit chosen entries cns hd x hx
  rw [hxe] at hk
  exact hgone2.2.1 k hk

/-- **What is visible in between.** In every state reachable with arbitrary interleaving, every entry a
discover returns is current and its own expiry has not been processed yet (its timer is still in
`next_expiry`) — the deadline itself may already have passed: the code removes a registration in the
`poll` iteration that processes its timer, not at the deadline. -/
theorem visible_until_polled (c : Cfg) (ops : List FOp) (q : Option Nat) (cookie : Option Cookie)
    (limit : Option Nat) (chosen : List Nat) (entries : List (Nat × Reg)) (cns : Option Nat)
    (h : (fstep c (Machine.exec (fstep c) St.init ops) (.disc q cookie limit chosen)).2 = .discOk entries cns) :
    ∀ x ∈ entries, ∃ k dl, (k, x.1) ∈ (Machine.exec (fstep c) St.init ops).byPeer ∧
      (dl, x.1) ∈ (Machine.exec (fstep c) St.init ops).timers := by
  intro x hx
  obtain ⟨k, hk⟩ := disc_ids_current c _ q cookie limit chosen entries cns h x hx
  obtain ⟨_, dl, hdl⟩ := (finv_reachable c ops).cur k x.1 hk
  exact ⟨k, dl, hk, hdl⟩

/-- non-vacuity, and the precise boundary: one second past the deadline the registration is still
discoverable as long as its `poll` iteration has not run; right after that iteration it is gone -/
example :
    let s := Machine.exec (fstep cfgA) St.init [.reg 0 0 (some 600), .tick 601]
    (fstep cfgA s (.disc none none none [0])).2 = .discOk [(0, ⟨0, 0, 600⟩)] none ∧
    (fstep cfgA s (.poll (600, 0))).2 = .expired [(0, ⟨0, 0, 600⟩)] ∧
    (fstep cfgA (fstep cfgA s (.poll (600, 0))).1 (.disc none none none [])).2 = .discOk [] none ∧
    -- a timer that is not due cannot be polled
    (fstep cfgA (Machine.exec (fstep cfgA) St.init [.reg 0 0 (some 600), .tick 599]) (.poll (600, 0))).2 = .bad := by
  decide

/-- two due timers polled in either order: same final state, events permuted -/
example :
    let s := Machine.exec (fstep cfgA2) St.init [.reg 0 0 (some 600), .reg 1 0 (some 600), .disc none none none [0, 1], .tick 600]
    (pollStep (pollStep s (600, 0)).1 (600, 1)).1 = (pollStep (pollStep s (600, 1)).1 (600, 0)).1 ∧
    (pollStep (pollStep s (600, 0)).1 (600, 1)).1 = (advance s 0).1 := by
  decide

/-! ## the bounded cookie cache -/

theorem cookieMismatch_none (q : Option Nat) : cookieMismatch q none = false := by
  unfold cookieMismatch; cases q <;> rfl

/-- **An evicted cookie is an unknown cookie.** If the presented cookie is not in the cache — never
issued, evicted by `max_cookies`, or dropped by the expiry clean-up — the server answers exactly as
for a request without cookie (same response, same state change); in particular registrations
returned earlier along that cookie's chain are returned again. -/
theorem cookie_evicted_as_unknown (c : Cfg) (s : St) (q : Option Nat) (ck : Cookie) (limit : Option Nat)
    (chosen : List Nat) (hnone : lookup ck s.cookies = none) (hm : cookieMismatch q (some ck) = false) :
    step c s (.disc q (some ck) limit chosen) = step c s (.disc q none limit chosen) := by
  have h2 : (lruGet s.cookies ck).2 = s.cookies := by unfold lruGet; rw [hnone]
  simp only [step, stepV, get_eq, hm, cookieMismatch_none, Option.bind_some, Option.bind_none, hnone, h2]

theorem lookup_none_of_forall {α β} [DecidableEq α] {k : α} :
    ∀ {l : List (α × β)}, (∀ e ∈ l, e.1 ≠ k) → lookup k l = none
  | [], _ => rfl
  | (a, b) :: t, h => by
    have ha : a ≠ k := h (a, b) (by simp)
    simp only [lookup, ha, if_false]
    exact lookup_none_of_forall (fun e he => h e (List.mem_cons_of_mem _ he))

/-- **Eviction.** Inserting a fresh cookie into a full cache (distinct keys) drops exactly the least
recently used cookie, which from then on is unknown to the server. -/
theorem lruInsert_evicts_front (cap : Nat) (k0 : Cookie) (v0 : List Nat) (t : List (Cookie × List Nat))
    (ck : Cookie) (set : List Nat) (hfull : ((k0, v0) :: t).length = cap)
    (hfresh : ∀ e ∈ (k0, v0) :: t, e.1 ≠ ck) (hnd : (((k0, v0) :: t).map (·.1)).Nodup) :
    lruInsert cap ((k0, v0) :: t) ck set = t ++ [(ck, set)] ∧
    lookup k0 (lruInsert cap ((k0, v0) :: t) ck set) = none := by
  have hfil : ((k0, v0) :: t).filter (fun e => !decide (e.1 = ck)) = (k0, v0) :: t :=
    List.filter_eq_self.2 (fun e he => by simpa using hfresh e he)
  have h1 : lruInsert cap ((k0, v0) :: t) ck set = t ++ [(ck, set)] := by
    simp only [lruInsert, hfil]
    rw [if_pos (by simp only [List.length_append, List.length_cons, List.length_nil] at hfull ⊢; omega)]
    rfl
  refine ⟨h1, ?_⟩
  rw [h1]
  apply lookup_none_of_forall
  intro e he
  simp only [List.map, List.nodup_cons] at hnd
  rcases List.mem_append.1 he with he | he
  · intro h; exact hnd.1 (List.mem_map.2 ⟨e, he, h⟩)
  · simp only [List.mem_singleton] at he; subst he
    exact fun h => hfresh (k0, v0) (by simp) h.symm

/-- **At most once while cached, two consecutive pages.** Present a cached cookie `ck` (stored set `st`),
get `entries1` and the new cookie `(s.nextCookie, q)`; present that one next (capacity ≥ 1, so it is
cached): the second page is disjoint from `st` and from the first page. -/
theorem cookie_once_cached (c : Cfg) (hcap : 1 ≤ c.cookieCap) (s : St) (q : Option Nat) (ck : Cookie)
    (limit1 limit2 : Option Nat) (chosen1 chosen2 : List Nat) (st : List Nat)
    (hst : lookup ck s.cookies = some st) (entries1 entries2 : List (Nat × Reg)) (cns1 cns2 : Option Nat) (s' s'' : St)
    (h1 : step c s (.disc q (some ck) limit1 chosen1) = (s', .discOk entries1 cns1))
    (h2 : step c s' (.disc q (some (s.nextCookie, q)) limit2 chosen2) = (s'', .discOk entries2 cns2)) :
    (∀ x ∈ entries1, x.1 ∉ st) ∧
    (∀ y ∈ entries2, y.1 ∉ st ∧ ∀ x ∈ entries1, y.1 ≠ x.1) := by
  obtain ⟨ha, _, hb⟩ := cookie_once_step c s q ck limit1 chosen1 st hst entries1 cns1 s' h1
  obtain ⟨hc, _, _⟩ := cookie_once_step c s' q (s.nextCookie, q) limit2 chosen2 _ (hb hcap) entries2 cns2 s'' h2
  refine ⟨ha, fun y hy => ⟨fun h => hc y hy (List.mem_append_left _ h), fun x hx hxy => ?_⟩⟩
  exact hc y hy (List.mem_append_right _ (by rw [hxy]; exact List.mem_map.2 ⟨x, hx, rfl⟩))

/-- eviction is reached, and an evicted cookie makes the server return the registration again -/
example :
    let c : Cfg := ⟨600, 2400, 3, 8, 1⟩
    let s := Machine.exec (step c) St.init [.reg 0 0 (some 600), .disc none none none [0], .disc (some 1) none none []]
    lookup (0, none) s.cookies = none ∧
    (step c s (.disc none (some (0, none)) none [0])).2 = .discOk [(0, ⟨0, 0, 600⟩)] none := by
  decide

/-- the per-cookie clause of the Spec fires on the behaviour it is meant to exclude: cookie 0 is
presented a second time (2 cookies issued ≤ capacity 2, so nothing can have been evicted) and the
registration delivered with it comes back — and it does not fire on the model's own answer -/
example :
    let c : Cfg := ⟨600, 2400, 3, 8, 2⟩
    let r0 := Ref.init
    let r1 := (specStep c r0 (.reg 0 0 (some 600)) (.regOk 600)).1
    let r2 := (specStep c r1 (.disc none none none [0]) (.discOk [(0, ⟨0, 0, 600⟩)] none)).1
    let r3 := (specStep c r2 (.disc none (some (0, none)) none []) (.discOk [] none)).1
    (specStep c r3 (.disc none (some (0, none)) none [0]) (.discOk [(0, ⟨0, 0, 600⟩)] none)).2 = "FAIL:cookie_once_replayed" ∧
    (specStep c r3 (.disc none (some (0, none)) none []) (.discOk [] none)).2 = "ok" := by
  decide

end C51

#print axioms C51.spec_accepts_model
#print axioms C51.step_sim
#print axioms C51.reachable_sim
#print axioms C51.ttl_bounds
#print axioms C51.ttl_out_of_bounds_refused
#print axioms C51.per_peer_limit
#print axioms C51.total_limit
#print axioms C51.refresh
#print axioms C51.discover_live_only
#print axioms C51.cookie_ns
#print axioms C51.cookie_once_step
#print axioms C51.expired_event_exact
#print axioms C51.refresh_refused_at_peer_limit_buggy_counterexample
#print axioms C51.total_limit_off_by_one_buggy_counterexample
#print axioms C51.superseded_registration_leaks_buggy_counterexample
#print axioms C51.pollOne_star_eq_advance
#print axioms C51.pollOne_star_terminates
#print axioms C51.pollOne_star_eq_advance_reachable
#print axioms C51.never_removed_before_ttl
#print axioms C51.never_discoverable_after_expiry_processed
#print axioms C51.visible_until_polled
#print axioms C51.cookie_evicted_as_unknown
#print axioms C51.lruInsert_evicts_front
#print axioms C51.cookie_once_cached
