import Libp2pModel.Proofs.SwarmFrame
/-!
# C04 — Dial preconditions and address selection are honoured

Statement (properties.jsonl): a dial whose PeerCondition is false (given current connected/dialing
state) is rejected with DialPeerConditionFalse and reported once to the behaviour, and never
creates a pending connection. An accepted dial attempts only addresses that the Swarm is not itself
listening on, each distinct address at most once, with the /p2p suffix of the target peer; with no
usable address it fails with NoAddresses.
-/
namespace Swarm.C04
open Swarm

/-- the `Transport::dial` calls among a step's events, in order -/
def tdials : List Ev → List Maddr
  | [] => []
  | .tdial a :: rest => a :: tdials rest
  | _ :: rest => tdials rest

/-- the documented meaning of the four `PeerCondition`s -/
theorem shouldDial_table (s : State) (p : Nat) :
    shouldDial s .always (some p) = true ∧
    (shouldDial s .disconnected (some p) = true ↔ s.isConnected p = false) ∧
    (shouldDial s .notDialing (some p) = true ↔ s.isDialing p = false) ∧
    (shouldDial s .disconnectedAndNotDialing (some p) = true ↔ s.isDialing p = false ∧ s.isConnected p = false) ∧
    (∀ c, shouldDial s c none = true) := by
  refine ⟨rfl, ?_, ?_, ?_, ?_⟩
  · simp [shouldDial]
  · simp [shouldDial]
  · simp [shouldDial]
  · intro c; rfl

/-- **Condition false**: the dial is rejected with `DialPeerConditionFalse` (an `Err` for an API call;
nothing but the failure report for a behaviour-requested dial), reported exactly once to the
behaviour, nothing is dialed, and the state is untouched apart from the consumed connection id. -/
theorem dial_condition_false (s : State) (v : Bool) (c : Cond) (p0 : Option Nat) (a : List Maddr) (e : Bool)
    (b : List Maddr) (d : Bool) (r : List Maddr) (peer : Option Nat)
    (hp : dialPeer s p0 a = some peer) (hc : shouldDial s c peer = false) :
    dial s v c p0 a e b d r =
      ({ s with nextId := s.nextId + 1 },
       (if v then Res.queued s.nextId else Res.err .condFalse s.nextId),
       [Ev.bDialFailure s.nextId peer .condFalse]) := by
  simp [dial, hp, hc, dialRejected]

/-- consequently no pending connection is created and no counter moves -/
theorem dial_condition_false_no_pending (s : State) (v : Bool) (c : Cond) (p0 : Option Nat) (a : List Maddr) (e : Bool)
    (b : List Maddr) (d : Bool) (r : List Maddr) (peer : Option Nat)
    (hp : dialPeer s p0 a = some peer) (hc : shouldDial s c peer = false) :
    (dial s v c p0 a e b d r).1.pendOut = s.pendOut ∧ (dial s v c p0 a e b d r).1.cPO = s.cPO ∧
    tdials (dial s v c p0 a e b d r).2.2 = [] := by
  rw [dial_condition_false s v c p0 a e b d r peer hp hc]; simp [tdials]

/-! ### address selection -/

theorem withP2p_last (a a' : Maddr) (b : List Nat) (h : Maddr.withP2p a b = some a') :
    a'.getLast? = some (.p2p b) := by
  unfold Maddr.withP2p at h
  split at h
  · rename_i q hq
    split at h
    · rename_i hqb; cases h; rw [hq, hqb]
    · cases h
  · cases h; simp

theorem withP2p_dialForm (a a' : Maddr) (b : List Nat) (h : Maddr.withP2p a b = some a') :
    dialForm (some b) a = a' := by
  simp [dialForm, h]

theorem dedup_spec (pb : Option (List Nat)) : ∀ (l seen : List Maddr),
    ((dedup pb seen l).map (dialForm pb)).Nodup ∧
    (∀ a ∈ dedup pb seen l, a ∈ l ∧ dialForm pb a ∉ seen) ∧
    (dedup pb seen l).Sublist l := by
  intro l
  induction l with
  | nil => intro seen; simp [dedup]
  | cons a rest ih =>
    intro seen
    unfold dedup
    by_cases hs : seen.contains (dialForm pb a) = true
    · simp only [hs, ↓reduceIte]
      obtain ⟨h1, h2, h3⟩ := ih seen
      exact ⟨h1, fun x hx => ⟨List.mem_cons_of_mem _ (h2 x hx).1, (h2 x hx).2⟩, h3.cons _⟩
    · simp only [hs, Bool.false_eq_true, ↓reduceIte]
      obtain ⟨h1, h2, h3⟩ := ih (dialForm pb a :: seen)
      refine ⟨?_, ?_, h3.cons_cons _⟩
      · simp only [List.map_cons, List.nodup_cons]
        refine ⟨?_, h1⟩
        intro hmem
        obtain ⟨x, hx, hxe⟩ := List.mem_map.1 hmem
        have := (h2 x hx).2
        rw [hxe] at this
        exact this (List.mem_cons_self)
      · intro x hx
        rcases List.mem_cons.1 hx with rfl | hx
        · refine ⟨List.mem_cons_self, ?_⟩
          intro hm; exact hs (List.contains_iff_mem.2 hm)
        · have := h2 x hx
          exact ⟨List.mem_cons_of_mem _ this.1, fun hm => this.2 (List.mem_cons_of_mem _ hm)⟩

/-- the selected addresses: requested, not a listen address, pairwise distinct *as dialed*, in request order -/
theorem selectAddrs_spec (pb : Option (List Nat)) (listened addrs : List Maddr) :
    ((selectAddrs pb listened addrs).map (dialForm pb)).Nodup ∧
    (∀ a ∈ selectAddrs pb listened addrs, a ∈ addrs ∧ a ∉ listened) ∧
    (selectAddrs pb listened addrs).Sublist addrs := by
  unfold selectAddrs
  obtain ⟨h1, h2, h3⟩ := dedup_spec pb (addrs.filter (fun a => !listened.contains a)) []
  refine ⟨h1, ?_, h3.trans List.filter_sublist⟩
  intro a ha
  have := (h2 a ha).1
  have hm := List.mem_filter.1 this
  refine ⟨hm.1, ?_⟩
  intro hl
  have h := hm.2
  simp at h
  exact h hl

/-- how `Swarm::dial` suffixes one selected address -/
abbrev suffix := dialSuffix

theorem planDials_tdials (s : State) (peer : Option Nat) (refuse : List Maddr) :
    ∀ (l : List Maddr) (nd : Nat), tdials (planDials s peer refuse l nd).events = l.filterMap (suffix s peer) := by
  intro l
  induction l with
  | nil => intro nd; simp [planDials, tdials]
  | cons a rest ih =>
    intro nd
    unfold planDials
    cases hsx : dialSuffix s peer a with
    | none => simp only [List.filterMap_cons, hsx]; exact ih nd
    | some a' =>
      simp only [List.filterMap_cons, hsx]
      split <;> simp [tdials, ih]

theorem tdials_append (x y : List Ev) : tdials (x ++ y) = tdials x ++ tdials y := by
  induction x with
  | nil => rfl
  | cons e rest ih => cases e <;> simp [tdials, ih]

theorem suffix_dialForm (s : State) (peer : Option Nat) (a a' : Maddr) (h : suffix s peer a = some a') :
    dialForm (peer.map (peerBytes s)) a = a' := by
  cases peer with
  | none => simp only [dialSuffix, Option.some.injEq] at h; simp [dialForm, h]
  | some p => simp only [dialSuffix] at h; simp [dialForm, h]

theorem filterMap_suffix_sublist (s : State) (peer : Option Nat) (l : List Maddr) :
    (l.filterMap (suffix s peer)).Sublist (l.map (dialForm (peer.map (peerBytes s)))) := by
  induction l with
  | nil => simp
  | cons a rest ih =>
    simp only [List.filterMap_cons, List.map_cons]
    cases h : suffix s peer a with
    | none => exact ih.cons _
    | some a' => rw [suffix_dialForm s peer a a' h]; exact ih.cons_cons _

theorem dialAccepted_tdials (s : State) (v : Bool) (id : Nat) (peer : Option Nat) (r sel : List Maddr) :
    tdials (dialAccepted s v id peer r sel).2.2 = sel.filterMap (suffix s peer) := by
  unfold dialAccepted
  simp only
  split <;> cases v <;> simp [tdials, tdials_append, outFailEvents, planDials_tdials]

/-- the `Transport::dial` calls of ANY dial are exactly the suffixed forms of the selected addresses
(or none at all when the dial is rejected) -/
theorem dial_tdials (s : State) (v : Bool) (c : Cond) (p0 : Option Nat) (a : List Maddr) (e : Bool)
    (b : List Maddr) (d : Bool) (r : List Maddr) (peer : Option Nat) (hp : dialPeer s p0 a = some peer) :
    tdials (dial s v c p0 a e b d r).2.2 = [] ∨
    tdials (dial s v c p0 a e b d r).2.2 =
      (selectAddrs (peer.map (peerBytes s)) s.listened (dialRequested a b e)).filterMap (suffix s peer) := by
  unfold dial
  simp only [hp]
  by_cases h1 : (!shouldDial s c peer) = true
  · left; simp [h1, dialRejected, tdials]
  · by_cases h2 : d = true
    · left; simp [h1, h2, dialRejected, tdials]
    · by_cases h3 : (selectAddrs (peer.map (peerBytes s)) s.listened (dialRequested a b e)).isEmpty = true
      · left; simp [h1, h2, h3, dialRejected, tdials]
      · right; simp only [h1, h2, h3, Bool.false_eq_true, ↓reduceIte]; exact dialAccepted_tdials ..

/-- **Accepted dials** (and in fact every dial): the attempted addresses
(i) each stem from a requested address that is not one of our listen addresses,
(ii) are pairwise distinct, (iii) end with `/p2p/<target>` when a target peer is given,
(iv) come in request order. -/
theorem dial_addresses (s : State) (v : Bool) (c : Cond) (p0 : Option Nat) (a : List Maddr) (e : Bool)
    (b : List Maddr) (d : Bool) (r : List Maddr) (peer : Option Nat) (hp : dialPeer s p0 a = some peer) :
    let T := tdials (dial s v c p0 a e b d r).2.2
    let requested := dialRequested a b e
    T.Nodup ∧
    (∀ t ∈ T, ∃ x ∈ requested, x ∉ s.listened ∧ suffix s peer x = some t) ∧
    (∀ p, peer = some p → ∀ t ∈ T, t.getLast? = some (.p2p (peerBytes s p))) ∧
    T.Sublist (requested.map (dialForm (peer.map (peerBytes s)))) := by
  intro T requested
  rcases dial_tdials s v c p0 a e b d r peer hp with h | h
  · have : T = [] := h
    rw [this]; simp
  · have hT : T = (selectAddrs (peer.map (peerBytes s)) s.listened requested).filterMap (suffix s peer) := h
    obtain ⟨hnd, hmem, hsub⟩ := selectAddrs_spec (peer.map (peerBytes s)) s.listened requested
    have hsl := filterMap_suffix_sublist s peer (selectAddrs (peer.map (peerBytes s)) s.listened requested)
    refine ⟨?_, ?_, ?_, ?_⟩
    · rw [hT]; exact hsl.nodup hnd
    · intro t ht
      rw [hT] at ht
      obtain ⟨x, hx, hxt⟩ := List.mem_filterMap.1 ht
      exact ⟨x, (hmem x hx).1, (hmem x hx).2, hxt⟩
    · intro p hpe t ht
      rw [hT] at ht
      obtain ⟨x, _, hxt⟩ := List.mem_filterMap.1 ht
      subst hpe
      exact withP2p_last x t _ hxt
    · rw [hT]; exact hsl.trans (hsub.map _)

/-- **No usable address**: the dial fails with `NoAddresses`, reported once, nothing dialed, no pending. -/
theorem dial_no_addresses (s : State) (v : Bool) (c : Cond) (p0 : Option Nat) (a : List Maddr) (e : Bool)
    (b : List Maddr) (r : List Maddr) (peer : Option Nat)
    (hp : dialPeer s p0 a = some peer) (hc : shouldDial s c peer = true)
    (hsel : selectAddrs (peer.map (peerBytes s)) s.listened (dialRequested a b e) = []) :
    dial s v c p0 a e b false r =
      ({ s with nextId := s.nextId + 1 },
       (if v then Res.queued s.nextId else Res.err .noAddresses s.nextId),
       [Ev.bPendingOut s.nextId false, Ev.bDialFailure s.nextId peer .noAddresses]) := by
  simp [dial, hp, hc, hsel, dialRejected]

/-- non-vacuity / regression for the repaired defect: `[a/p2p/P, a]` is dialed once -/
example :
    let s0 := State.init [[0], [1], [2]]
    tdials (dial s0 false .always (some 2) [[.tcp 1, .p2p [2]], [.tcp 1], [.tcp 7]] false [] false []).2.2
      = [[.tcp 1, .p2p [2]], [.tcp 7, .p2p [2]]] := by decide

/-- the pre-fix de-duplication (on the requested form, before the suffix) dials `a/p2p/P` twice -/
def dedupBuggy : List Maddr → List Maddr → List Maddr
  | _, [] => []
  | seen, a :: rest => if seen.contains a then dedupBuggy seen rest else a :: dedupBuggy (a :: seen) rest

theorem dedup_before_suffix_buggy_counterexample :
    ((dedupBuggy [] [[.tcp 1, .p2p [2]], [.tcp 1]]).filterMap (fun a => Maddr.withP2p a [2]))
      = [[.tcp 1, .p2p [2]], [.tcp 1, .p2p [2]]] := by decide

end Swarm.C04

#print axioms Swarm.C04.shouldDial_table
#print axioms Swarm.C04.dial_condition_false
#print axioms Swarm.C04.dial_condition_false_no_pending
#print axioms Swarm.C04.selectAddrs_spec
#print axioms Swarm.C04.dial_tdials
#print axioms Swarm.C04.dial_addresses
#print axioms Swarm.C04.dial_no_addresses
#print axioms Swarm.C04.dedup_before_suffix_buggy_counterexample
