import Libp2pModel.Props.C39_Disjoint
/-!
# C39 — disjoint iterator: the merged result consists only of peers that responded

`responders`: every peer of `into_result()` after an operation sequence `ops` is the subject of an
`on_success` call in `ops` (a response for it was delivered).  Proved through the invariant "every
`Succeeded` peer of every path, and every `Succeeded` entry of `contacted_peers`, had a response
delivered".
-/
namespace C39

/-- every `Succeeded` peer of the path is in `S` -/
def SuccSub (S : List Nat) (it : Iter) : Prop := ∀ q, find it.closest q = some .succeeded → q ∈ S

theorem next_succ {S : List Nat} {s : Iter} (h : Inv s) (hs : SuccSub S s) (now : Nat) :
    SuccSub S (next s now).1 := by
  by_cases hf : s.state = .finished
  · rw [next_finished hf]; exact hs
  · intro q hq
    rw [(next_fields hf now).1] at hq
    obtain ⟨st, hst, hrel⟩ := all2_find_fwd (nextLoop_rel s.cfg now (atCapacity s) s.closest s.numWaiting (some 0)) q _ hq
    rcases hrel with hh | ⟨to, _, _, hh⟩ | ⟨_, hh, _⟩
    · exact hs q (hh ▸ hst)
    · simp at hh
    · simp at hh

theorem onSuccess_succ {S : List Nat} {s : Iter} (h : Inv s) (hs : SuccSub S s) (p : Nat) (hp : p ∈ S)
    (closer : List Nat) : SuccSub S (onSuccess s p closer).1 := by
  rcases onSuccess_cases h p closer with heq | ⟨_, s0, nw, hf, _, heq⟩
  · rw [heq]; exact hs
  · rw [heq]
    intro q hq
    rw [(succeed_fields s p closer nw).2.2.2] at hq
    have hfind := (addCloser_foldl
      (curRange (setSt s.closest p .succeeded) s.cfg.numResults p) closer
      (setSt s.closest p .succeeded)
      (decide ((setSt s.closest p .succeeded).length < s.cfg.numResults))
      (sorted_setSt h.sorted p .succeeded)).2.2.2.2.2
    rw [hfind q, find_setSt] at hq
    by_cases hqp : q = p
    · rw [hqp]; exact hp
    · simp only [hqp, if_false] at hq
      cases hfq : find s.closest q with
      | some st => rw [hfq] at hq; simp at hq; exact hs q (by rw [hfq, hq])
      | none => rw [hfq] at hq; simp at hq

theorem onFailure_succ {S : List Nat} {s : Iter} (h : Inv s) (hs : SuccSub S s) (p : Nat) :
    SuccSub S (onFailure s p).1 := by
  rcases onFailure_cases h p with heq | ⟨_, s0, nw, hf, _, heq⟩
  · rw [heq]; exact hs
  · rw [heq]
    intro q hq
    change find (setSt s.closest p .failed) q = some .succeeded at hq
    rw [find_setSt] at hq
    by_cases hqp : q = p
    · simp [hqp, hf] at hq
    · simp only [hqp, if_false] at hq; exact hs q hq

end C39

namespace C39.Disjoint
open C39 (Out Cfg Inv CfgOk SuccSub)

/-- every `Succeeded` entry of `contacted_peers` is in `S` -/
def CtSub (S : List Nat) (ct : List (Nat × Nat × Resp)) : Prop :=
  ∀ q by_, cfind ct q = some (by_, .succeeded) → q ∈ S

theorem innerLoop_succ (S : List Nat) (now : Nat) (ct : List (Nat × Nat × Resp)) (hct : CtSub S ct) :
    ∀ (fuel : Nat) (it : C39.Iter) (acc : Acc), Inv it → SuccSub S it →
      SuccSub S (innerLoop now ct fuel it acc).1 := by
  intro fuel
  induction fuel with
  | zero => intro it acc _ hs; simpa [innerLoop] using hs
  | succ fuel ih =>
    intro it acc h hs
    have h' := h.next now
    have hs' := C39.next_succ h hs now
    simp only [innerLoop]
    rcases C39.next_out_kind h now with ⟨p, hout⟩ | hout | hout
    · cases p with
      | none => rw [hout]; exact hs'
      | some p =>
        rw [hout]
        simp only
        cases hc : cfind ct p with
        | none => exact hs'
        | some v =>
          obtain ⟨by_, resp⟩ := v
          cases resp with
          | waiting => exact ih _ acc h' hs'
          | succeeded =>
            have hs2 := h'.onSuccess p []
            simp only [hs2.2, if_false]
            exact ih _ acc hs2.1 (C39.onSuccess_succ h' hs' p (hct p by_ hc) [])
          | failed =>
            have hs2 := h'.onFailure p
            simp only [hs2.2, if_false]
            exact ih _ acc hs2.1 (C39.onFailure_succ h' hs' p)
    · rw [hout]; exact hs'
    · rw [hout]; exact hs'

/-- `outer_rel` for a relation that depends on a property of the (unchanged) `contacted_peers` -/
theorem outer_succ {cfg : Cfg} (S : List Nat) (now : Nat) :
    ∀ (rounds : Nat) (d : DIter) (acc : Acc), DInv cfg d → CtSub S d.contacted →
      (∀ it ∈ d.iters, SuccSub S it) → ∀ it ∈ (outer now rounds d acc).1.iters, SuccSub S it := by
  intro rounds
  induction rounds with
  | zero => intro d acc _ _ hall; exact hall
  | succ r ih =>
    intro d acc h hct hall
    simp only [outer]
    have hpos := h.pos
    have hget : d.iters[d.pos]? = some d.iters[d.pos] := List.getElem?_eq_getElem hpos
    rw [hget]
    simp only
    have hit := h.paths d.iters[d.pos] (List.getElem_mem hpos)
    have hfuel : C39.countNC d.iters[d.pos].closest < d.iters[d.pos].closest.length + 2 := by
      have := countNC_le_length d.iters[d.pos].closest; omega
    obtain ⟨a, b, c⟩ := innerLoop_ok now d.contacted (d.iters[d.pos].closest.length + 2) d.iters[d.pos] acc
      hit.1 hfuel
    have hnew := innerLoop_succ S now d.contacted hct (d.iters[d.pos].closest.length + 2) d.iters[d.pos] acc
      hit.1 (hall _ (List.getElem_mem hpos))
    have hall2 : ∀ it ∈ d.iters.set d.pos
        (innerLoop now d.contacted (d.iters[d.pos].closest.length + 2) d.iters[d.pos] acc).1, SuccSub S it := by
      intro it hmem
      rcases mem_set hmem with rfl | hm
      · exact hnew
      · exact hall it hm
    cases hres : (innerLoop now d.contacted (d.iters[d.pos].closest.length + 2) d.iters[d.pos] acc).2 with
    | brk acc' =>
      refine ih _ acc' ?_ hct hall2
      refine ⟨?_, ?_, ?_⟩
      · intro it hmem
        rcases mem_set hmem with rfl | hm
        · exact ⟨a, b.trans hit.2⟩
        · exact h.paths it hm
      · simp only [List.length_set]
        exact Nat.mod_lt _ (by omega)
      · simp only [List.length_set]; exact h.by_ok
    | ret p => exact hall2
    | panic => exact hall2

theorem cfind_cset {l : List (Nat × Nat × Resp)} {p q : Nat} {v w : Nat × Resp}
    (h : cfind (cset l p v) q = some w) : (q = p ∧ w = v) ∨ cfind l q = some w := by
  induction l with
  | nil => simp [cset, cfind] at h
  | cons a t ih => grind [cfind, cset]

/-- the responders invariant -/
def RespInv (S : List Nat) (d : DIter) : Prop := (∀ it ∈ d.iters, SuccSub S it) ∧ CtSub S d.contacted

theorem resp_step {cfg : Cfg} {S : List Nat} {d : DIter} (h : DInv cfg d) (hr : RespInv S d) (op : Op)
    (hop : ∀ p closer, op = .success p closer → p ∈ S) : RespInv S (step d op).1 := by
  obtain ⟨hall, hct⟩ := hr
  cases op with
  | next now =>
    refine ⟨outer_succ S now _ d .none h hct hall, ?_⟩
    simp only [step, next]
    rcases outer_contacted now d.iters.length d .none with ⟨h1, _⟩ | ⟨p, i, _, _, h3⟩
    · rw [h1]; exact hct
    · rw [h3]
      intro q by_ hq
      rw [cfind_append] at hq
      cases hc : cfind d.contacted q with
      | some v => rw [hc] at hq; simp at hq; exact hct q by_ (by rw [hc, hq])
      | none => rw [hc] at hq; simp at hq
  | success p closer =>
    have hp : p ∈ S := hop p closer rfl
    simp only [step, onSuccess]
    cases hc : cfind d.contacted p with
    | none => exact ⟨hall, hct⟩
    | some v =>
      obtain ⟨by_, resp⟩ := v
      simp only
      have hby : by_ < d.iters.length := h.by_ok _ (cfind_mem hc)
      have hget : d.iters[by_]? = some d.iters[by_] := List.getElem?_eq_getElem hby
      rw [hget]
      simp only
      have hit := h.paths _ (List.getElem_mem hby)
      have hs := hit.1.onSuccess p closer
      simp only [hs.2, if_false]
      refine ⟨?_, ?_⟩
      · intro x hx
        obtain ⟨y, hy, hxy⟩ := mapOthers_mem _ _ _ _ x hx
        have hyok : Inv y ∧ SuccSub S y := by
          rcases mem_set hy with rfl | hm
          · exact ⟨hs.1, C39.onSuccess_succ hit.1 (hall _ (List.getElem_mem hby)) p hp closer⟩
          · exact ⟨(h.paths y hm).1, hall y hm⟩
        rcases hxy with rfl | rfl
        · exact hyok.2
        · exact C39.onSuccess_succ hyok.1 hyok.2 p hp []
      · intro q b hq
        simp only at hq
        split at hq
        · rcases cfind_cset hq with ⟨rfl, _⟩ | hq
          · exact hp
          · exact hct q b hq
        · exact hct q b hq
  | failure p =>
    simp only [step, onFailure]
    cases hc : cfind d.contacted p with
    | none => exact ⟨hall, hct⟩
    | some v =>
      obtain ⟨by_, resp⟩ := v
      simp only
      have hby : by_ < d.iters.length := h.by_ok _ (cfind_mem hc)
      have hget : d.iters[by_]? = some d.iters[by_] := List.getElem?_eq_getElem hby
      rw [hget]
      simp only
      have hit := h.paths _ (List.getElem_mem hby)
      have hs := hit.1.onFailure p
      simp only [hs.2, if_false]
      refine ⟨?_, ?_⟩
      · intro x hx
        obtain ⟨y, hy, hxy⟩ := mapOthers_mem _ _ _ _ x hx
        have hyok : Inv y ∧ SuccSub S y := by
          rcases mem_set hy with rfl | hm
          · exact ⟨hs.1, C39.onFailure_succ hit.1 (hall _ (List.getElem_mem hby)) p⟩
          · exact ⟨(h.paths y hm).1, hall y hm⟩
        rcases hxy with rfl | rfl
        · exact hyok.2
        · exact C39.onFailure_succ hyok.1 hyok.2 p
      · intro q b hq
        simp only at hq
        split at hq
        · rcases cfind_cset hq with ⟨_, hw⟩ | hq
          · simp at hw
          · exact hct q b hq
        · exact hct q b hq
  | finishPaths ps =>
    simp only [step, finishPaths]
    have hfold : ∀ (ps : List Nat) (d : DIter), RespInv S d → RespInv S (ps.foldl (fun (d : DIter) p =>
        match cfind d.contacted p with
        | some (by_, _) =>
          match d.iters[by_]? with
          | some it => { d with iters := d.iters.set by_ (C39.finish it) }
          | none => d
        | none => d) d) := by
      intro ps
      induction ps with
      | nil => intro d hd; exact hd
      | cons q t ih =>
        intro d hd
        simp only [List.foldl_cons]
        apply ih
        split
        · split
          · rename_i it hg
            refine ⟨?_, hd.2⟩
            intro x hx
            rcases mem_set hx with rfl | hm
            · exact hd.1 it (List.mem_of_getElem? hg)
            · exact hd.1 x hm
          · exact hd
        · exact hd
    exact hfold ps d ⟨hall, hct⟩
  | finish =>
    simp only [step, finish]
    refine ⟨?_, hct⟩
    intro x hx
    obtain ⟨y, hy, rfl⟩ := List.mem_map.1 hx
    exact hall y hy

/-- peers that are the subject of an `on_success` call in the run -/
def successPeers : List Op → List Nat
  | [] => []
  | .success p _ :: os => p :: successPeers os
  | _ :: os => successPeers os

theorem mem_successPeers {ops : List Op} {p : Nat} {closer : List Nat} (h : Op.success p closer ∈ ops) :
    p ∈ successPeers ops := by
  induction ops with
  | nil => simp at h
  | cons o os ih =>
    rcases List.mem_cons.1 h with rfl | h'
    · simp [successPeers]
    · have := ih h'
      cases o <;> simp [successPeers, this]

theorem resp_run {cfg : Cfg} (S : List Nat) (ops : List Op) : ∀ (d : DIter), DInv cfg d → RespInv S d →
    (∀ p closer, Op.success p closer ∈ ops → p ∈ S) → RespInv S (Machine.exec step d ops) := by
  induction ops with
  | nil => intro d _ hr _; exact hr
  | cons o os ih =>
    intro d h hr hS
    simp only [Machine.exec, List.foldl_cons]
    exact ih _ (step_ok h o).1 (resp_step h hr o (fun p closer he => hS p closer (he ▸ List.mem_cons_self)))
      (fun p closer hm => hS p closer (List.mem_cons_of_mem _ hm))

/-- **The merged result consists only of peers that responded**: after any operation sequence
every peer of `into_result()` was the subject of an `on_success` call of that sequence (and, by
`each_peer_once`/`result_responders_partial`, was handed out once and is `Succeeded` in a path). -/
theorem responders {cfg : Cfg} (hc : CfgOk cfg) (k : Nat) (known : List Nat) (ops : List Op) (p : Nat)
    (hp : p ∈ result (reach cfg k known ops)) : p ∈ successPeers ops := by
  obtain ⟨it, hit, hf⟩ := result_responders_partial hc k known ops p hp
  have hinit : RespInv (successPeers ops) (init cfg k known) := by
    refine ⟨?_, by intro q b hq; simp [init, cfind] at hq⟩
    intro x hx q hq
    simp only [init, List.mem_replicate] at hx
    rw [hx.2, C39.find_init] at hq
    split at hq <;> simp at hq
  have := resp_run (cfg := cfg) (successPeers ops) ops _ (DInv.init hc k known) hinit
    (fun p closer hm => mem_successPeers hm)
  exact this.1 it hit p hf

/-- **The merged result is the union of the per-path results**: nothing but duplicates is dropped
by `ResultIter` (the model's fuel `Σ lengths + 1` is sufficient). -/
theorem result_complete {cfg : Cfg} (hc : CfgOk cfg) (k : Nat) (known : List Nat) (ops : List Op)
    (it : C39.Iter) (hit : it ∈ (reach cfg k known ops).iters) (x : Nat) (hx : x ∈ C39.result it) :
    x ∈ result (reach cfg k known ops) := by
  have h := dinv_reach hc k known ops
  obtain ⟨i, hi⟩ := getElem?_of_mem hit
  apply merge_complete _ _ (allSorted_results h) (by unfold total; omega)
  refine ⟨i, ?_⟩
  simp only [List.getD_eq_getElem?_getD, List.getElem?_map, hi]
  simpa using hx

end C39.Disjoint

#print axioms C39.Disjoint.responders
#print axioms C39.Disjoint.result_complete
