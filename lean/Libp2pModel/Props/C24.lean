import Libp2pModel.Proofs.C24Send
import Libp2pModel.Props.C26
import Libp2pModel.Model.C24
/-!
# C24 — Multiplexed substreams deliver exactly their own bytes: property theorems

mplex: proved on the one-endpoint model `Model/C26.lean` (any configuration, any inbound frame
sequence, any sequence of local operations of any length — `C26.reach`), for the receive path and
the send path separately.  The composition of two endpoints over a FIFO connection
(`end_to_end_statement`) is stated but NOT proved; it is checked dynamically, for mplex and for
yamux (external crate), against the executable end-to-end Spec `C24.specStep`.
-/
namespace C24
open C25 (Sid Role Frame)
open C26

/-! ### receive path -/

/-- **Receive integrity (bookkeeping).**  In every reachable state, for every substream: the
payloads of the Data frames taken from the connection *for this substream while it was open for
reading* (`rx`) are exactly what has been handed to its reader (`dl`) followed by what is still
buffered (`buf`) — in arrival order, nothing lost, duplicated or reordered. -/
theorem recv_integrity (c : Cfg) (ops : List Op) :
    ∀ x ∈ (reach c ops).s.subs, x.rx = x.dl ++ x.buf := recv_fifo c ops

/-- **Reads return the substream's own data only.**  Whatever `poll_read_stream(id)` returns is
either the oldest frame in `id`'s own buffer, or (that buffer being empty) the payload of a Data
frame *addressed to `id`* waiting in the inbound queue — never a frame of another substream. -/
theorem read_returns_own (s : State) (id : Sid) (d : List Nat)
    (h : (pollReadStream s id).2 = .ready (.ok (some d))) :
    (∃ x rest, s.get id = some x ∧ x.buf = d :: rest) ∨
    (EmptyBuf s id ∧ ∃ rid : Sid, rid.mirror = id ∧ InItem.frame (.data rid d) ∈ s.inq) :=
  pollReadStream_own s id d h

/-- **No cross-talk when buffering.**  A Data frame for substream `j` leaves the entry (state,
buffer, history) of every other substream `id` untouched — or the whole connection has failed. -/
theorem no_crosstalk (s : State) (j id : Sid) (hj : j ≠ id) (d : List Nat) :
    (buffer s j d).1.get id = s.get id ∨ (buffer s j d).1.subs = [] :=
  buffer_no_crosstalk s j id hj d

/-- **End of stream.**  Once the substream is no longer open for reading (the remote's `Close` or
`Reset` has been processed) and its buffer is drained, reads report end-of-stream
(`max_buffer_len ≥ 1`). -/
theorem eof_after_close (s : State) (id : Sid) (x : Sub) (hopen : s.status = .opn)
    (hx : s.get id = some x) (hbuf : x.buf = []) (hst : x.st.recvOpen = false) (hmb : s.cfg.maxBuf ≠ 0) :
    (pollReadStream s id).2 = .ready (.ok none) :=
  reset_reads_end s id x hopen hx hbuf hst hmb

/-- …and not before: while the buffer holds frames they are returned first. -/
theorem buffered_before_eof (s : State) (id : Sid) (x : Sub) (d : List Nat) (rest : List (List Nat))
    (hopen : s.status = .opn) (hx : s.get id = some x) (hbuf : x.buf = d :: rest) :
    (pollReadStream s id).2 = .ready (.ok (some d)) :=
  reset_reads_buffer s id x d rest hopen hx hbuf

/-! ### send path -/

/-- **Send integrity (bookkeeping).**  In every reachable state, for every substream: what was put
into the sink for it (`sent`) is exactly the sequence of accepted writes (`acc`, each the prefix
`poll_write` reported), in order, followed by at most one `Close` — and once the `Close` is there
the substream is no longer writable. -/
theorem send_integrity (c : Cfg) (ops : List Op) : ∀ x ∈ (reach c ops).s.subs,
    ∃ tail : List (Option (List Nat)), (tail = [] ∨ tail = [none]) ∧ x.sent = x.acc.map some ++ tail ∧
      (tail = [none] → x.st ≠ .opn ∧ x.st ≠ .recvClosed) :=
  fun x hx => ((reach_inv c ops).1.2.2 x hx).2.2

/-- **An accepted write emits exactly one Data frame** on this substream with the first
`min(len, split_send_size)` bytes, behind everything emitted earlier (the sink is FIFO). -/
theorem write_emits (s : State) (x : Sub) (id : Sid) (data : List Nat) (n : Nat)
    (h : (writeOpen s x id data).2 = .ready (.ok n)) :
    n = min data.length s.cfg.split ∧
    (writeOpen s x id data).1.emitted = s.emitted ++ [.data id (data.take n)] :=
  writeOpen_emits s x id data n h

/-- a write that is not accepted emits nothing -/
theorem write_refused_silent (s : State) (x : Sub) (id : Sid) (data : List Nat)
    (h : ∀ n, (writeOpen s x id data).2 ≠ .ready (.ok n)) :
    (writeOpen s x id data).1.emitted = s.emitted :=
  writeOpen_silent s x id data h

/-- **After the half-close nothing more is written**: on a `SendClosed`/`Closed` substream
`poll_write_stream` fails with `WriteZero` and the state is unchanged. -/
theorem write_after_close (s : State) (id : Sid) (x : Sub) (data : List Nat) (hopen : s.status = .opn)
    (hx : s.get id = some x) (hst : x.st = .sendClosed ∨ x.st = .closed) :
    pollWriteStream s id data = (s, .ready (.error .writeZero)) := by
  rcases hst with hst | hst <;> simp [pollWriteStream, guardOpen, hopen, hx, hst]

/-- **Half-close emits exactly one `Close` frame.** -/
theorem close_emits (s : State) (x : Sub) (id : Sid) (h : (closeOpen s x id).2 = .ready (.ok ())) :
    (closeOpen s x id).1.emitted = s.emitted ++ [.close id] :=
  closeOpen_emits s x id h

/-- **Flush** puts everything emitted on the connection, in order. -/
theorem flush_in_order (s : State) (h : (pollFlush s).2 = .ready (.ok ())) (hopen : s.status = .opn) :
    (pollFlush s).1.sinkBuf = [] ∧ ∃ added, (pollFlush s).1.wire = s.emitted ++ added ∧ added <+: s.pendQ :=
  pollFlush_flushes s h hopen

/-! ### the end-to-end Spec -/

theorem isPrefix_append (a b c : List Nat) (h : isPrefix a b = true) : isPrefix a (b ++ c) = true := by
  induction a generalizing b with
  | nil => simp [isPrefix]
  | cons x xs ih =>
    cases b with
    | nil => simp [isPrefix] at h
    | cons y ys =>
      simp only [isPrefix, Bool.and_eq_true, List.cons_append] at h ⊢
      exact ⟨h.1, ih ys h.2⟩

theorem mem_putDir {l : List Dir} {d x : Dir} (h : x ∈ putDir l d) : x = d ∨ x ∈ l := by
  simp only [putDir, List.mem_cons, List.mem_filter] at h
  rcases h with h | h
  · exact .inl h
  · exact .inr h.1

theorem getDir_good {l : List Dir} (hg : ∀ d ∈ l, isPrefix d.got d.sent = true) (n : Name) (w : Side) :
    isPrefix (getDir l n w).got (getDir l n w).sent = true := by
  unfold getDir
  cases hf : l.find? (fun d => d.name == n && d.writer == w) with
  | none => simp [isPrefix]
  | some d => simpa using hg d (List.mem_of_find?_eq_some hf)

/-- **The monitor is sound**: as long as it answers `ok`, on every substream direction everything
read so far is a prefix of everything accepted so far. -/
theorem spec_ok_prefix (t : SpecSt) (ev : Ev) (hg : Good t) (hok : (specStep t ev).2 = "ok") :
    Good (specStep t ev).1 := by
  unfold Good at *
  cases ev with
  | other => simpa [specStep] using hg
  | opened n => simpa [specStep] using hg
  | accepted side n =>
    cases n with
    | none => simpa [specStep] using hg
    | some n =>
      simp only [specStep]
      split <;> simpa using hg
  | finish =>
    simp only [specStep]
    split
    · simpa using hg
    · split <;> simpa using hg
  | wrote n side bytes =>
    simp only [specStep]
    intro d hd
    rcases mem_putDir hd with rfl | hm
    · exact isPrefix_append _ _ _ (getDir_good hg n side)
    · exact hg d hm
  | closed n side =>
    simp only [specStep]
    intro d hd
    rcases mem_putDir hd with rfl | hm
    · exact getDir_good hg n side
    · exact hg d hm
  | eof n side =>
    simp only [specStep] at hok ⊢
    intro d hd
    split at hd
    · rcases mem_putDir hd with rfl | hm
      · exact getDir_good hg n side.other
      · exact hg d hm
    · rcases mem_putDir hd with rfl | hm
      · exact getDir_good hg n side.other
      · exact hg d hm
  | data n side bytes =>
    simp only [specStep] at hok ⊢
    split at hok
    · simp at hok
    · split at hok
      · rename_i h1 h2
        simp only [h1, Bool.false_eq_true, ↓reduceIte, h2]
        intro d hd
        rcases mem_putDir hd with rfl | hm
        · exact h2
        · exact hg d hm
      · simp at hok

theorem good_init : Good {} := by simp [Good]

/-! ### what is NOT proved: the composition -/

/-- two endpoints and the frames in flight -/
structure Sys where
  a : MState
  b : MState

inductive SysOp
  | atA (op : Op)
  | atB (op : Op)
  | deliverAB (k : Nat)     -- the connection hands the next `k` frames written by A to B
  | deliverBA (k : Nat)

def sysStep (y : Sys) : SysOp → Sys
  | .atA op => { y with a := (step y.a op).1 }
  | .atB op => { y with b := (step y.b op).1 }
  | .deliverAB k =>
    { a := { y.a with s := { y.a.s with wire := y.a.s.wire.drop k } },
      b := { y.b with s := { y.b.s with inq := y.b.s.inq ++ (y.a.s.wire.take k).map .frame } } }
  | .deliverBA k =>
    { b := { y.b with s := { y.b.s with wire := y.b.s.wire.drop k } },
      a := { y.a with s := { y.a.s with inq := y.a.s.inq ++ (y.b.s.wire.take k).map .frame } } }

def harmless : SysOp → Bool
  | .atA (.drop _) | .atB (.drop _) | .atA .closeConn | .atB .closeConn
  | .atA (.wire _) | .atB (.wire _) => false
  | _ => true

/-- **The full end-to-end statement (mplex)** — not proved.  For two endpoints in `Block` mode joined
by lossless FIFO connections, under every interleaving of opens, writes, flushes, half-closes and
reads on both sides and every chunking of the deliveries: for every substream known to both sides,
the bytes B's reader has been handed are a prefix of the bytes A's writes were reported to accept
(and symmetrically). -/
def end_to_end_statement : Prop :=
  ∀ (ca cb : Cfg) (ops : List SysOp), ca.block = true → cb.block = true → ops.all harmless = true →
    let y := ops.foldl sysStep { a := C26.init ca, b := C26.init cb }
    ∀ (id : Sid) (x z : Sub), y.a.s.get id = some x → y.b.s.get id.mirror = some z →
      (z.dl.flatten <+: x.acc.flatten) ∧ (x.dl.flatten <+: z.acc.flatten)

/-! ### non-vacuity -/

example : (specStep {} (.opened ⟨.A, 0⟩)).2 = "ok" := by decide
example : (specStep { dirs := [{ name := ⟨.A, 0⟩, writer := .A, sent := [1, 2, 3] }] }
    (.data ⟨.A, 0⟩ .B [1, 2])).2 = "ok" := by decide
example : (specStep { dirs := [{ name := ⟨.A, 0⟩, writer := .A, sent := [1, 2, 3] }] }
    (.data ⟨.A, 0⟩ .B [2])).2 = "foreign_or_reordered_bytes" := by decide
example : (specStep { dirs := [{ name := ⟨.A, 0⟩, writer := .A, sent := [1], got := [] , closed := true }] }
    (.eof ⟨.A, 0⟩ .B)).2 = "early_eof" := by decide

end C24

#print axioms C24.recv_integrity
#print axioms C24.read_returns_own
#print axioms C24.no_crosstalk
#print axioms C24.eof_after_close
#print axioms C24.buffered_before_eof
#print axioms C24.send_integrity
#print axioms C24.write_emits
#print axioms C24.write_refused_silent
#print axioms C24.write_after_close
#print axioms C24.close_emits
#print axioms C24.flush_in_order
#print axioms C24.spec_ok_prefix
