import Libp2pModel.Proofs.C24Send
import Libp2pModel.Proofs.C24E2E
import Libp2pModel.Props.C26
import Libp2pModel.Model.C24
/-!
# C24 — Multiplexed substreams deliver exactly their own bytes: property theorems

mplex: proved on the one-endpoint model `Model/C26.lean` (any configuration, any inbound frame
sequence, any sequence of local operations of any length — `C26.reach`), for the receive path and
the send path separately, and composed: two endpoints joined by two FIFO connections, under every
schedule (`end_to_end`, `end_to_end_accounting`).  yamux (external crate) is only checked
dynamically against the executable end-to-end Spec `C24.specStep`.
-/
namespace C24
open C25 (Sid Role Frame)
open C26

/-! ### receive path -/

/-- **Receive integrity (bookkeeping).**  In every reachable state, for every substream: the
payloads of the Data frames taken from the connection *for this substream while it was open for
reading* (`rx`) are exactly what has been handed to its reader (`dl`) followed by what is still
buffered (`buf`) — in arrival order, nothing lost, duplicated or reordered. -/
theorem recv_integrity (c : Cfg) (ops : List Op) :
    ∀ x ∈ (reach c ops).s.subs, x.rx = x.dl ++ x.buf := recv_fifo c ops

/-- **Reads return the substream's own data only.**  Whatever `poll_read_stream(id)` returns is
either the oldest frame in `id`'s own buffer, or (that buffer being empty) the payload of a Data
frame *addressed to `id`* waiting in the inbound queue — never a frame of another substream. -/
theorem read_returns_own (s : State) (id : Sid) (d : List Nat)
    (h : (pollReadStream s id).2 = .ready (.ok (some d))) :
    (∃ x rest, s.get id = some x ∧ x.buf = d :: rest) ∨
    (EmptyBuf s id ∧ ∃ rid : Sid, rid.mirror = id ∧ InItem.frame (.data rid d) ∈ s.inq) :=
  pollReadStream_own s id d h

/-- **No cross-talk when buffering.**  A Data frame for substream `j` leaves the entry (state,
buffer, history) of every other substream `id` untouched — or the whole connection has failed. -/
theorem no_crosstalk (s : State) (j id : Sid) (hj : j ≠ id) (d : List Nat) :
    (buffer s j d).1.get id = s.get id ∨ (buffer s j d).1.subs = [] :=
  buffer_no_crosstalk s j id hj d

/-- **End of stream.**  Once the substream is no longer open for reading (the remote's `Close` or
`Reset` has been processed) and its buffer is drained, reads report end-of-stream
(`max_buffer_len ≥ 1`). -/
theorem eof_after_close (s : State) (id : Sid) (x : Sub) (hopen : s.status = .opn)
    (hx : s.get id = some x) (hbuf : x.buf = []) (hst : x.st.recvOpen = false) (hmb : s.cfg.maxBuf ≠ 0) :
    (pollReadStream s id).2 = .ready (.ok none) :=
  reset_reads_end s id x hopen hx hbuf hst hmb

/-- …and not before: while the buffer holds frames they are returned first. -/
theorem buffered_before_eof (s : State) (id : Sid) (x : Sub) (d : List Nat) (rest : List (List Nat))
    (hopen : s.status = .opn) (hx : s.get id = some x) (hbuf : x.buf = d :: rest) :
    (pollReadStream s id).2 = .ready (.ok (some d)) :=
  reset_reads_buffer s id x d rest hopen hx hbuf

/-! ### send path -/

/-- **Send integrity (bookkeeping).**  In every reachable state, for every substream: what was put
into the sink for it (`sent`) is exactly the sequence of accepted writes (`acc`, each the prefix
`poll_write` reported), in order, followed by at most one `Close` — and once the `Close` is there
the substream is no longer writable. -/
theorem send_integrity (c : Cfg) (ops : List Op) : ∀ x ∈ (reach c ops).s.subs,
    ∃ tail : List (Option (List Nat)), (tail = [] ∨ tail = [none]) ∧ x.sent = x.acc.map some ++ tail ∧
      (tail = [none] → x.st ≠ .opn ∧ x.st ≠ .recvClosed) :=
  fun x hx => ((reach_inv c ops).1.2.2 x hx).2.2

/-- **An accepted write emits exactly one Data frame** on this substream with the first
`min(len, split_send_size)` bytes, behind everything emitted earlier (the sink is FIFO). -/
theorem write_emits (s : State) (x : Sub) (id : Sid) (data : List Nat) (n : Nat)
    (h : (writeOpen s x id data).2 = .ready (.ok n)) :
    n = min data.length s.cfg.split ∧
    (writeOpen s x id data).1.emitted = s.emitted ++ [.data id (data.take n)] :=
  writeOpen_emits s x id data n h

/-- a write that is not accepted emits nothing -/
theorem write_refused_silent (s : State) (x : Sub) (id : Sid) (data : List Nat)
    (h : ∀ n, (writeOpen s x id data).2 ≠ .ready (.ok n)) :
    (writeOpen s x id data).1.emitted = s.emitted :=
  writeOpen_silent s x id data h

/-- **After the half-close nothing more is written**: on a `SendClosed`/`Closed` substream
`poll_write_stream` fails with `WriteZero` and the state is unchanged. -/
theorem write_after_close (s : State) (id : Sid) (x : Sub) (data : List Nat) (hopen : s.status = .opn)
    (hx : s.get id = some x) (hst : x.st = .sendClosed ∨ x.st = .closed) :
    pollWriteStream s id data = (s, .ready (.error .writeZero)) := by
  rcases hst with hst | hst <;> simp [pollWriteStream, guardOpen, hopen, hx, hst]

/-- **Half-close emits exactly one `Close` frame.** -/
theorem close_emits (s : State) (x : Sub) (id : Sid) (h : (closeOpen s x id).2 = .ready (.ok ())) :
    (closeOpen s x id).1.emitted = s.emitted ++ [.close id] :=
  closeOpen_emits s x id h

/-- **Flush** puts everything emitted on the connection, in order. -/
theorem flush_in_order (s : State) (h : (pollFlush s).2 = .ready (.ok ())) (hopen : s.status = .opn) :
    (pollFlush s).1.sinkBuf = [] ∧ ∃ added, (pollFlush s).1.wire = s.emitted ++ added ∧ added <+: s.pendQ :=
  pollFlush_flushes s h hopen

/-! ### the end-to-end Spec -/

theorem isPrefix_append (a b c : List Nat) (h : isPrefix a b = true) : isPrefix a (b ++ c) = true := by
  induction a generalizing b with
  | nil => simp [isPrefix]
  | cons x xs ih =>
    cases b with
    | nil => simp [isPrefix] at h
    | cons y ys =>
      simp only [isPrefix, Bool.and_eq_true, List.cons_append] at h ⊢
      exact ⟨h.1, ih ys h.2⟩

theorem mem_putDir {l : List Dir} {d x : Dir} (h : x ∈ putDir l d) : x = d ∨ x ∈ l := by
  simp only [putDir, List.mem_cons, List.mem_filter] at h
  rcases h with h | h
  · exact .inl h
  · exact .inr h.1

theorem getDir_good {l : List Dir} (hg : ∀ d ∈ l, isPrefix d.got d.sent = true) (n : Name) (w : Side) :
    isPrefix (getDir l n w).got (getDir l n w).sent = true := by
  unfold getDir
  cases hf : l.find? (fun d => d.name == n && d.writer == w) with
  | none => simp [isPrefix]
  | some d => simpa using hg d (List.mem_of_find?_eq_some hf)

/-- **The monitor is sound**: as long as it answers `ok`, on every substream direction everything
read so far is a prefix of everything accepted so far. -/
theorem spec_ok_prefix (t : SpecSt) (ev : Ev) (hg : Good t) (hok : (specStep t ev).2 = "ok") :
    Good (specStep t ev).1 := by
  unfold Good at *
  cases ev with
  | other => simpa [specStep] using hg
  | opened n => simpa [specStep] using hg
  | accepted side n =>
    cases n with
    | none => simpa [specStep] using hg
    | some n =>
      simp only [specStep]
      split <;> simpa using hg
  | finish =>
    simp only [specStep]
    split
    · simpa using hg
    · split <;> simpa using hg
  | wrote n side bytes =>
    simp only [specStep]
    intro d hd
    rcases mem_putDir hd with rfl | hm
    · exact isPrefix_append _ _ _ (getDir_good hg n side)
    · exact hg d hm
  | closed n side =>
    simp only [specStep]
    intro d hd
    rcases mem_putDir hd with rfl | hm
    · exact getDir_good hg n side
    · exact hg d hm
  | eof n side =>
    simp only [specStep] at hok ⊢
    intro d hd
    split at hd
    · rcases mem_putDir hd with rfl | hm
      · exact getDir_good hg n side.other
      · exact hg d hm
    · rcases mem_putDir hd with rfl | hm
      · exact getDir_good hg n side.other
      · exact hg d hm
  | data n side bytes =>
    simp only [specStep] at hok ⊢
    split at hok
    · simp at hok
    · split at hok
      · rename_i h1 h2
        simp only [h1, Bool.false_eq_true, ↓reduceIte, h2]
        intro d hd
        rcases mem_putDir hd with rfl | hm
        · exact h2
        · exact hg d hm
      · simp at hok

theorem good_init : Good {} := by simp [Good]

/-! ### the composition: two endpoints, two FIFO connections, any schedule

System model and invariant: `Proofs/C24Sys*.lean`, `Proofs/C24E2E.lean`; refinement of every endpoint
method into atomic frame events: `Proofs/C24Micro*.lean`. -/

/-- **The end-to-end statement (mplex).**  Two endpoints in `Block` mode joined by lossless FIFO
connections; a schedule is any interleaving of opens, accepts, writes, flushes, half-closes and
reads on both sides (in any order, on any substream ids, also ids that do not exist) with
deliveries of any number of frames in either direction.  After every schedule, for every substream
known to both sides (id `id` at A, the mirrored id at B): the bytes B's reader has been handed are a
prefix of the bytes A's writes on THAT substream were reported to accept, and symmetrically. -/
def end_to_end_statement : Prop :=
  ∀ (ca cb : Cfg) (ops : List SysOp), ca.block = true → cb.block = true → ops.all harmless = true →
    let y := ops.foldl sysStep { a := C26.init ca, b := C26.init cb }
    ∀ (id : Sid) (x z : Sub), y.a.s.get id = some x → y.b.s.get id.mirror = some z →
      (z.dl.flatten <+: x.acc.flatten) ∧ (x.dl.flatten <+: z.acc.flatten)

/-- the system invariant holds after every schedule -/
theorem reach_sysInv (ca cb : Cfg) (ops : List SysOp) (ha : ca.block = true) (hb : cb.block = true)
    (ho : ops.all harmless = true) :
    SysInv (ops.foldl sysStep { a := C26.init ca, b := C26.init cb }) :=
  sysInv_run ops _ (sysInv_fresh ca cb ha hb) ho

/-- **End-to-end integrity** — the composition of the receive-path and send-path halves. -/
theorem end_to_end : end_to_end_statement := by
  intro ca cb ops ha hb ho y id x z hx hz
  have h : SysInv y := reach_sysInv ca cb ops ha hb ho
  refine ⟨h.prefix_ab id x z hx hz, ?_⟩
  -- the other direction: swap the roles of the two endpoints
  have h' : SysInv { a := y.b, b := y.a } :=
    { full := h.full.symm, ia := h.ib, ib := h.ia, ba := h.bb, bb := h.ba }
  exact h'.prefix_ab id.mirror z x hz (by rw [mirror_mirror]; exact hx)

/-- **Nothing is lost on the way** (the accounting behind `end_to_end`): after every schedule, for
every substream known to both sides whose receiving side is still open for reading, the payloads
A's writes were reported to accept are exactly: what B's reader has been handed, then what B
buffers, then the Data frames of THAT substream still in flight (waiting at B, written by A, or in
A's sink), in order. -/
theorem end_to_end_accounting (ca cb : Cfg) (ops : List SysOp) (ha : ca.block = true) (hb : cb.block = true)
    (ho : ops.all harmless = true) :
    let y := ops.foldl sysStep { a := C26.init ca, b := C26.init cb }
    ∀ (id : Sid) (x z : Sub), y.a.s.get id = some x → y.b.s.get id.mirror = some z →
      z.st.recvOpen = true →
      x.acc = z.dl ++ z.buf ++ dataOf id (inFrames y.b.s ++ (y.a.s.wire ++ y.a.s.sinkBuf)) := by
  intro y id x z hx hz hro
  have h : SysInv y := reach_sysInv ca cb ops ha hb ho
  have h5 := h.full.xy.k5 id ⟨x.st.recvOpen, x.rx, x.acc⟩ ⟨z.st.recvOpen, z.rx, z.acc⟩
    (by simp [entOf, hx]) (by simp [entOf, hz])
  have hfifo : z.rx = z.dl ++ z.buf := ((h.ib.2.2 z (getSub_mem hz).1)).2.1
  have := h5.1 hro
  simp only at this
  rw [hfifo] at this
  exact this

/-- only frames of the substream itself count: frames of other substreams in flight are invisible
to the accounting -/
theorem dataOf_other (i j : Sid) (hij : j ≠ i) (d : List Nat) (fs : List Frame) :
    dataOf i (.data j d :: fs) = dataOf i fs :=
  dataOf_cons_ne i _ fs (fun d' e => hij (by injection e with e1 _))

/-! ### non-vacuity -/

example : (specStep {} (.opened ⟨.A, 0⟩)).2 = "ok" := by decide
example : (specStep { dirs := [{ name := ⟨.A, 0⟩, writer := .A, sent := [1, 2, 3] }] }
    (.data ⟨.A, 0⟩ .B [1, 2])).2 = "ok" := by decide
example : (specStep { dirs := [{ name := ⟨.A, 0⟩, writer := .A, sent := [1, 2, 3] }] }
    (.data ⟨.A, 0⟩ .B [2])).2 = "foreign_or_reordered_bytes" := by decide
example : (specStep { dirs := [{ name := ⟨.A, 0⟩, writer := .A, sent := [1], got := [] , closed := true }] }
    (.eof ⟨.A, 0⟩ .B)).2 = "early_eof" := by decide

/-! two substreams interleaved on one connection -/

def demoCfg : Cfg := { maxSubs := 8, maxBuf := 4, block := true, split := 8 }

/-- two substreams opened by A, their Data frames interleaved on the connection, B reading the
second one first -/
def demoOps : List SysOp :=
  [ .atA .outbound, .atA (.flush ⟨0, .dialer⟩), .atA .outbound, .atA (.flush ⟨1, .dialer⟩),
    .atA (.write ⟨0, .dialer⟩ [1, 2]), .atA (.flush ⟨0, .dialer⟩),
    .atA (.write ⟨1, .dialer⟩ [9]), .atA (.flush ⟨1, .dialer⟩),
    .atA (.write ⟨0, .dialer⟩ [3]), .atA (.flush ⟨0, .dialer⟩),
    .deliverAB 4,
    .atB .inbound, .atB .inbound,
    .atB (.read ⟨1, .listener⟩ 8), .atB (.read ⟨0, .listener⟩ 8) ]

def demo : Sys := demoOps.foldl sysStep { a := C26.init demoCfg, b := C26.init demoCfg }

example : demoOps.all harmless = true := by decide
example : (demo.a.s.get ⟨0, .dialer⟩).map (·.acc) = some [[1, 2], [3]] := by decide
example : (demo.a.s.get ⟨1, .dialer⟩).map (·.acc) = some [[9]] := by decide
example : (demo.b.s.get ⟨0, .listener⟩).map (·.dl) = some [[1, 2]] := by decide
example : (demo.b.s.get ⟨1, .listener⟩).map (·.dl) = some [[9]] := by decide
example : demo.a.s.wire = [.data ⟨0, .dialer⟩ [3]] := by decide

end C24

#print axioms C24.recv_integrity
#print axioms C24.read_returns_own
#print axioms C24.no_crosstalk
#print axioms C24.eof_after_close
#print axioms C24.buffered_before_eof
#print axioms C24.send_integrity
#print axioms C24.write_emits
#print axioms C24.write_refused_silent
#print axioms C24.write_after_close
#print axioms C24.close_emits
#print axioms C24.flush_in_order
#print axioms C24.spec_ok_prefix
#print axioms C24.reach_sysInv
#print axioms C24.end_to_end
#print axioms C24.end_to_end_accounting
