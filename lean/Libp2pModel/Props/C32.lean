import Libp2pModel.Proofs.C32Basic
/-!
# C32 — Gossipsub backoff is never shortened (property theorems)

All statements are about the transcription `Model/C32.lean` of `backoff.rs` *as repaired*
(`heartbeat` keeps a pair whose `backoff + slack` is not representable); the pre-repair variant is
`heartbeatBuggy`, refuted by `slack_overflow_buggy_counterexample`.
-/
namespace C32

/-! ## never shortened -/

/-- the pair is stored with an expiry of at least `e` -/
def Backed (s : State) (k : Key) (e : Nat) : Prop :=
  ∃ bt i, s.backoffs k = some (bt, i) ∧ e ≤ bt

theorem update_backed (s : State) (τ : Nat) (k : Key) (d : Nat) (h : τ + d ≤ s.limit) :
    Backed (update s τ k d) k (τ + d) := by
  unfold update checkedAdd
  simp only [h, ↓reduceIte]
  cases hb : s.backoffs k with
  | none => exact ⟨τ + d, _, setMap_same _ _ _, Nat.le_refl _⟩
  | some p =>
    obtain ⟨bo, ix⟩ := p
    by_cases hlt : bo < τ + d
    · simp only [hlt, ↓reduceIte]
      exact ⟨τ + d, _, setMap_same _ _ _, Nat.le_refl _⟩
    · simp only [hlt, ↓reduceIte]
      exact ⟨bo, ix, hb, Nat.le_of_not_lt hlt⟩

theorem update_keeps_backed (s : State) (now : Nat) (k k' : Key) (d e : Nat) (h : Backed s k e) :
    Backed (update s now k' d) k e := by
  obtain ⟨bt, i, hk, he⟩ := h
  by_cases hkk : k = k'
  · subst hkk
    unfold update
    cases checkedAdd s.limit now d with
    | none => exact ⟨bt, i, hk, he⟩
    | some inst =>
      simp only [hk]
      by_cases hlt : bt < inst
      · simp only [hlt, ↓reduceIte]
        exact ⟨inst, _, setMap_same _ _ _, by omega⟩
      · simp only [hlt, ↓reduceIte]
        exact ⟨bt, i, hk, he⟩
  · exact ⟨bt, i, by rw [update_other s now k' k d hkk]; exact hk, he⟩

theorem heartbeat_keeps_backed (s s' : State) (now : Nat) (k : Key) (e : Nat) (h : Backed s k e)
    (hnow : now < e) (hs : heartbeat s now = some s') : Backed s' k e := by
  obtain ⟨bt, i, hk, he⟩ := h
  by_cases hd : s.hb * s.slack < durLimit
  · rw [heartbeat_some s now hd] at hs
    simp only [Option.some.injEq] at hs
    subst hs
    refine ⟨bt, i, ?_, he⟩
    simp only
    rw [retain_backoffs, if_neg, hk]
    rintro ⟨_, hkeep⟩
    rw [hk] at hkeep
    unfold keepOf checkedAdd at hkeep
    simp only at hkeep
    split at hkeep
    · rename_i b hb
      split at hb
      · simp only [Option.some.injEq] at hb
        subst hb
        simp at hkeep
        omega
      · cases hb
    · cases hkeep
  · rw [heartbeat_none s now (Nat.le_of_not_lt hd)] at hs
    cases hs

theorem step_keeps_backed (s : State) (o : Nat × Op) (k : Key) (e : Nat) (h : Backed s k e)
    (hnow : o.1 < e) : Backed (step s o) k e := by
  obtain ⟨now, op⟩ := o
  cases op with
  | update k' d => exact update_keeps_backed s now k k' d e h
  | heartbeat =>
    simp only [step]
    cases hs : heartbeat s now with
    | none => exact h
    | some s' => exact heartbeat_keeps_backed s s' now k e h hnow hs
  | query => exact h

theorem exec_keeps_backed (ops : List (Nat × Op)) (s : State) (k : Key) (e : Nat)
    (h : Backed s k e) (hops : ∀ o ∈ ops, o.1 < e) : Backed (exec s ops) k e := by
  induction ops generalizing s with
  | nil => exact h
  | cons o os ih =>
    exact ih (step s o) (step_keeps_backed s o k e h (hops o (by simp)))
      (fun o' ho' => hops o' (by simp [ho']))

/-- **C32, never shortened.** In ANY storage state `s`, once `update_backoff (k, d)` has been
accepted at time `τ` (its expiry `τ + d` is a representable instant), then after ANY sequence of
further updates (of any pair, any duration — shorter, longer, longer than `prune_backoff`),
heartbeats and queries taking place up to a time `now < τ + d`, the node still treats the pair as
backed off: `is_backoff_with_slack` holds (it refuses to graft the peer), `get_backoff_time` is at
least `τ + d`, hence later than `now` (it penalises the peer's GRAFT). -/
theorem never_shortened (s : State) (k : Key) (τ d : Nat) (hacc : τ + d ≤ s.limit)
    (ops : List (Nat × Op)) (now : Nat) (hops : ∀ o ∈ ops, o.1 ≤ now) (hnow : now < τ + d) :
    isBackoffWithSlack (exec (update s τ k d) ops) k = true ∧
    penalisesGraft (exec (update s τ k d) ops) k now = true ∧
    ∃ bt, getBackoffTime (exec (update s τ k d) ops) k = some bt ∧ τ + d ≤ bt := by
  obtain ⟨bt, i, hk, he⟩ := exec_keeps_backed ops _ k (τ + d) (update_backed s τ k d hacc)
    (fun o ho => Nat.lt_of_le_of_lt (hops o ho) hnow)
  refine ⟨by simp [isBackoffWithSlack, hk], ?_, bt, by simp [getBackoffTime, hk], he⟩
  simp only [penalisesGraft, getBackoffTime, hk, Option.map_some, decide_eq_true_eq]
  omega

/-- the stored instant never decreases and the pair is never dropped while it is in the future:
the monotone-max reading of the same fact (one step). -/
theorem step_monotone (s : State) (o : Nat × Op) (k : Key) (bt i : Nat)
    (hk : s.backoffs k = some (bt, i)) (hnow : o.1 < bt) :
    ∃ bt' i', (step s o).backoffs k = some (bt', i') ∧ bt ≤ bt' :=
  step_keeps_backed s o k bt ⟨bt, i, hk, Nat.le_refl _⟩ hnow

/-! ## ring consistency -/

/-- **C32, ring consistency**: in every state reachable from `new` by any op sequence, a stored
pair sits in the ring slot its index names, a pair sitting in a slot is stored with that index
(so each pair is in at most one slot), and the indices are in range. -/
theorem ring_consistent (limit prune hb slack : Nat) (s0 : State)
    (h0 : new limit prune hb slack = some s0) (ops : List (Nat × Op)) :
    Inv (exec s0 ops) :=
  inv_exec ops s0 (inv_new limit prune hb slack s0 h0)

theorem one_slot (s : State) (h : Inv s) (k : Key) (i j : Nat)
    (hi : k ∈ slot s.ring i) (hj : k ∈ slot s.ring j) : i = j := by
  obtain ⟨bt, h1⟩ := h.bwd i k hi
  obtain ⟨bt', h2⟩ := h.bwd j k hj
  rw [h1] at h2
  simp only [Option.some.injEq, Prod.mk.injEq] at h2
  exact h2.2

/-! ## eventually forgotten -/

def isHb : Op → Bool
  | .heartbeat => true
  | _ => false

def countHb (ops : List (Nat × Op)) : Nat := (ops.filter (fun o => isHb o.2)).length

/-- number of heartbeats before the slot `i` is visited, from heartbeat index `hi` -/
def dist (hi i len : Nat) : Nat := if hi ≤ i then i - hi else i + len - hi

theorem dist_lt (hi i len : Nat) (h1 : hi < len) (h2 : i < len) : dist hi i len < len := by
  unfold dist; split <;> omega

theorem dist_succ (hi i len : Nat) (h1 : hi < len) (h2 : i < len) (hne : hi ≠ i) :
    dist ((hi + 1) % len) i len + 1 = dist hi i len := by
  by_cases hw : hi + 1 < len
  · rw [Nat.mod_eq_of_lt hw]
    unfold dist
    split <;> split <;> omega
  · have : hi + 1 = len := by omega
    rw [this, Nat.mod_self]
    unfold dist
    split <;> split <;> omega

theorem dist_self (i len : Nat) : dist i i len = 0 := by simp [dist]

def NoUpdate (k : Key) (ops : List (Nat × Op)) : Prop := ∀ o ∈ ops, ∀ d, o.2 ≠ .update k d

/-- what one heartbeat at a time `now ≥ bt + slack·hb` does to a stored pair -/
theorem heartbeat_expired (s s' : State) (now : Nat) (k : Key) (bt i : Nat) (h : Inv s)
    (hk : s.backoffs k = some (bt, i)) (hexp : bt + s.hb * s.slack ≤ now) (hlim : now ≤ s.limit)
    (hs : heartbeat s now = some s') :
    (s.hi = i → s'.backoffs k = none) ∧
    (s'.backoffs k = none ∨ s'.backoffs k = some (bt, i)) ∧
    s'.hi = (s.hi + 1) % s.ring.length := by
  by_cases hd : s.hb * s.slack < durLimit
  · rw [heartbeat_some s now hd] at hs
    simp only [Option.some.injEq] at hs
    subst hs
    simp only [and_true]
    have hkeep : keepOf true s.limit (s.hb * s.slack) now (s.backoffs k) = false := by
      rw [hk]
      unfold keepOf checkedAdd
      simp only
      rw [if_pos (by omega)]
      simp only [decide_eq_false_iff_not]
      omega
    constructor
    · intro hhi
      rw [retain_backoffs, if_pos]
      refine ⟨?_, hkeep⟩
      rw [hhi]
      exact (h.fwd k bt i hk).2
    · rw [retain_backoffs]
      split
      · exact Or.inl rfl
      · exact Or.inr hk
  · rw [heartbeat_none s now (Nat.le_of_not_lt hd)] at hs
    cases hs

theorem heartbeat_absent (s s' : State) (now : Nat) (k : Key) (hk : s.backoffs k = none)
    (hs : heartbeat s now = some s') : s'.backoffs k = none := by
  by_cases hd : s.hb * s.slack < durLimit
  · rw [heartbeat_some s now hd] at hs
    simp only [Option.some.injEq] at hs
    subst hs
    simp only
    rw [retain_backoffs, hk]
    simp
  · rw [heartbeat_none s now (Nat.le_of_not_lt hd)] at hs
    cases hs

theorem forget_aux (k : Key) (e : Nat) : ∀ (ops : List (Nat × Op)) (s : State), Inv s →
    s.hb * s.slack < durLimit → NoUpdate k ops → (∀ o ∈ ops, e ≤ o.1 ∧ o.1 ≤ s.limit) →
    (s.backoffs k = none ∨ ∃ bt i, s.backoffs k = some (bt, i) ∧ bt + s.hb * s.slack ≤ e ∧
        dist s.hi i s.ring.length < countHb ops) →
    (exec s ops).backoffs k = none := by
  intro ops
  induction ops with
  | nil =>
    intro s _ _ _ _ h
    rcases h with h | ⟨bt, i, _, _, hc⟩
    · exact h
    · simp [countHb] at hc
  | cons o os ih =>
    intro s hinv hdur hno htime h
    have hno' : NoUpdate k os := fun o' ho' => hno o' (by simp [ho'])
    obtain ⟨hp1, hp2, hp3, hp4⟩ := step_params s o
    have htime' : ∀ o' ∈ os, e ≤ o'.1 ∧ o'.1 ≤ (step s o).limit := by
      intro o' ho'; rw [hp3]; exact htime o' (by simp [ho'])
    have hdur' : (step s o).hb * (step s o).slack < durLimit := by rw [hp1, hp2]; exact hdur
    have hto := htime o (by simp)
    show (exec (step s o) os).backoffs k = none
    apply ih (step s o) (inv_step s o hinv) hdur' hno' htime'
    obtain ⟨now, op⟩ := o
    cases op with
    | update k' d =>
      have hne : k ≠ k' := by
        rintro rfl
        exact hno (now, .update k d) (by simp) d rfl
      simp only [step]
      rw [update_other s now k' k d hne, (update_params s now k' d).2.2.2.1,
        (update_params s now k' d).2.2.2.2, (update_params s now k' d).1, (update_params s now k' d).2.1]
      rcases h with h | ⟨bt, i, h1, h2, h3⟩
      · exact Or.inl h
      · refine Or.inr ⟨bt, i, h1, h2, ?_⟩
        simpa [countHb, isHb] using h3
    | query =>
      simp only [step]
      rcases h with h | ⟨bt, i, h1, h2, h3⟩
      · exact Or.inl h
      · refine Or.inr ⟨bt, i, h1, h2, ?_⟩
        simpa [countHb, isHb] using h3
    | heartbeat =>
      simp only [step]
      have hsome := heartbeat_some s now hdur
      cases hs : heartbeat s now with
      | none => rw [hs] at hsome; cases hsome
      | some s' =>
        simp only [Option.getD_some]
        rcases h with h | ⟨bt, i, h1, h2, h3⟩
        · exact Or.inl (heartbeat_absent s s' now k h hs)
        · obtain ⟨ha, hb, hc⟩ := heartbeat_expired s s' now k bt i hinv h1
            (Nat.le_trans h2 hto.1) hto.2 hs
          by_cases hhi : s.hi = i
          · exact Or.inl (ha hhi)
          · rcases hb with hb | hb
            · exact Or.inl hb
            · refine Or.inr ⟨bt, i, hb, ?_, ?_⟩
              · have := step_params s (now, .heartbeat)
                simp only [step, hs, Option.getD_some] at this
                rw [this.1, this.2.1]; exact h2
              · have hlen := step_params s (now, .heartbeat)
                simp only [step, hs, Option.getD_some] at hlen
                rw [hlen.2.2.2, hc]
                have hd := dist_succ s.hi i s.ring.length hinv.hi_lt (hinv.fwd k bt i h1).1 hhi
                have hcnt : countHb ((now, Op.heartbeat) :: os) = countHb os + 1 := by
                  simp [countHb, isHb]
                omega

/-- **C32, eventually forgotten.** In a reachable (ring-consistent) state where the pair is
stored with expiry `bt`: if no further update of that pair occurs, then after ANY op sequence all
of whose ops take place at times `≥ bt + slack·heartbeat_interval` and that contains at least
`|ring| = ⌈prune_backoff/heartbeat_interval⌉ + slack + 1` heartbeats, the pair is absent — whatever
the duration was (no hypothesis on `d`; indices that wrapped around the ring are covered). -/
theorem eventually_forgotten (s : State) (hinv : Inv s) (hdur : s.hb * s.slack < durLimit)
    (k : Key) (bt i : Nat) (hk : s.backoffs k = some (bt, i)) (ops : List (Nat × Op))
    (hno : NoUpdate k ops)
    (htime : ∀ o ∈ ops, bt + s.hb * s.slack ≤ o.1 ∧ o.1 ≤ s.limit)
    (hcount : s.ring.length ≤ countHb ops) :
    isBackoffWithSlack (exec s ops) k = false ∧ getBackoffTime (exec s ops) k = none := by
  have h := forget_aux k (bt + s.hb * s.slack) ops s hinv hdur hno htime
    (Or.inr ⟨bt, i, hk, Nat.le_refl _, Nat.lt_of_lt_of_le
      (dist_lt s.hi i s.ring.length hinv.hi_lt (hinv.fwd k bt i hk).1) hcount⟩)
  simp [isBackoffWithSlack, getBackoffTime, h]

/-- the ring size the bound refers to -/
theorem ring_length (limit prune hb slack : Nat) (s0 : State)
    (h0 : new limit prune hb slack = some s0) (ops : List (Nat × Op)) :
    (exec s0 ops).ring.length = heartbeats prune hb + slack + 1 := by
  have hlen : ∀ (ops : List (Nat × Op)) (s : State), (exec s ops).ring.length = s.ring.length := by
    intro ops
    induction ops with
    | nil => intro s; rfl
    | cons o os ih => intro s; show (exec (step s o) os).ring.length = _; rw [ih, (step_params s o).2.2.2]
  rw [hlen]
  unfold new at h0
  by_cases hz : hb = 0
  · simp [hz] at h0
  · simp only [hz, ↓reduceIte, Option.some.injEq] at h0
    subst h0
    simp

/-- a pair that is absent and not updated stays absent -/
theorem absent_stays (k : Key) (ops : List (Nat × Op)) (s : State) (hno : NoUpdate k ops)
    (hk : s.backoffs k = none) : (exec s ops).backoffs k = none := by
  induction ops generalizing s with
  | nil => exact hk
  | cons o os ih =>
    apply ih (step s o) (fun o' ho' => hno o' (by simp [ho']))
    obtain ⟨now, op⟩ := o
    cases op with
    | update k' d =>
      have hne : k ≠ k' := by
        rintro rfl
        exact hno (now, .update k d) (by simp) d rfl
      simp only [step]; rw [update_other s now k' k d hne]; exact hk
    | query => exact hk
    | heartbeat =>
      simp only [step]
      cases hs : heartbeat s now with
      | none => exact hk
      | some s' => exact heartbeat_absent s s' now k hk hs

/-! ## the executable Spec accepts the model (link between the theorems and the oracle) -/

/-- the relation between the storage and the Spec's monitor after an op at time `now` -/
structure MonInv (s : State) (m : Mon) (now : Nat) : Prop where
  len : m.len = s.ring.length
  sd : m.slackDur = s.hb * s.slack
  lim : m.limit = s.limit
  dead : m.dead = decide (durLimit ≤ s.hb * s.slack)
  nohas : ∀ k, m.has k = false → s.backoffs k = none ∧ m.exp k = 0
  stored : ∀ k bt i, s.backoffs k = some (bt, i) → bt = m.exp k ∧ m.has k = true ∧
    m.cnt k + dist s.hi i s.ring.length < s.ring.length ∧ (0 < m.cnt k → m.exp k + m.slackDur ≤ now)
  future : ∀ k, m.has k = true → now < m.exp k → (s.backoffs k).isSome = true

theorem monInv_mono (s : State) (m : Mon) (now now' : Nat) (h : MonInv s m now) (hle : now ≤ now') :
    MonInv s m now' :=
  { len := h.len, sd := h.sd, lim := h.lim, dead := h.dead, nohas := h.nohas
    stored := fun k bt i hk => by
      obtain ⟨h1, h2, h3, h4⟩ := h.stored k bt i hk
      exact ⟨h1, h2, h3, fun hc => Nat.le_trans (h4 hc) hle⟩
    future := fun k hh hlt => h.future k hh (Nat.lt_of_le_of_lt hle hlt) }

theorem monInv_new (limit prune hb slack : Nat) (s0 : State)
    (h0 : new limit prune hb slack = some s0) : MonInv s0 (monNew limit prune hb slack) 0 := by
  unfold new at h0
  by_cases hz : hb = 0
  · simp [hz] at h0
  · simp only [hz, ↓reduceIte, Option.some.injEq] at h0
    subst h0
    constructor <;> simp [monNew]

theorem update_self_bt (s : State) (τ : Nat) (k : Key) (d : Nat) (h : τ + d ≤ s.limit) :
    ∃ i', (update s τ k d).backoffs k =
      some ((match s.backoffs k with | some (bo, _) => max bo (τ + d) | none => τ + d), i') := by
  unfold update checkedAdd
  simp only [h, ↓reduceIte]
  cases hb : s.backoffs k with
  | none => exact ⟨_, setMap_same _ _ _⟩
  | some p =>
    obtain ⟨bo, ix⟩ := p
    by_cases hlt : bo < τ + d
    · simp only [hlt, ↓reduceIte]
      rw [Nat.max_eq_right (Nat.le_of_lt hlt)]
      exact ⟨_, setMap_same _ _ _⟩
    · simp only [hlt, ↓reduceIte]
      rw [Nat.max_eq_left (Nat.le_of_not_lt hlt)]
      first | exact ⟨ix, rfl⟩ | exact ⟨ix, hb⟩

theorem update_rejected (s : State) (τ : Nat) (k : Key) (d : Nat) (h : ¬ τ + d ≤ s.limit) :
    update s τ k d = s := by
  unfold update checkedAdd
  simp [h]

theorem monInv_step (s : State) (m : Mon) (now : Nat) (o : Nat × Op) (hinv : Inv s)
    (h : MonInv s m now) (h1 : now ≤ o.1) (h2 : o.1 ≤ s.limit) :
    MonInv (step s o) (monStep m o) o.1 := by
  have hinv' := inv_step s o hinv
  obtain ⟨τ, op⟩ := o
  simp only at h1 h2
  cases op with
  | query => exact monInv_mono s m now τ h h1
  | update k d =>
    simp only [step, monStep] at hinv' ⊢
    rw [h.lim]
    by_cases hacc : τ + d ≤ s.limit
    · simp only [hacc, ↓reduceIte]
      obtain ⟨hp1, hp2, hp3, hp4, hp5⟩ := update_params s τ k d
      obtain ⟨i', hself⟩ := update_self_bt s τ k d hacc
      constructor
      · simp only; rw [hp5]; exact h.len
      · simp only; rw [hp1, hp2]; exact h.sd
      · simp only; rw [hp3]; try exact h.lim
      · simp only; rw [hp1, hp2]; first | exact h.dead | (rw [← hdead]; exact h.dead)
      · intro k' hk'
        simp only [setBool] at hk'
        by_cases hkk : k' = k
        · simp [hkk] at hk'
        · simp only [hkk, ↓reduceIte] at hk'
          rw [update_other s τ k k' d hkk]
          simpa [setNat, hkk] using h.nohas k' hk'
      · intro k' bt i hk'
        by_cases hkk : k' = k
        · subst hkk
          rw [hself] at hk'
          simp only [Option.some.injEq, Prod.mk.injEq] at hk'
          obtain ⟨hbt, hi'⟩ := hk'
          subst hi'
          have hi_lt := (hinv'.fwd k' _ _ hself).1
          have hhi := hinv'.hi_lt
          refine ⟨?_, by simp [setBool], ?_, by simp [setNat]⟩
          · simp only [setNat, ↓reduceIte]
            rw [← hbt]
            cases hb : s.backoffs k' with
            | some p =>
              obtain ⟨bo, ix⟩ := p
              simp only
              rw [(h.stored k' bo ix hb).1]
            | none =>
              simp only
              cases hh : m.has k' with
              | false => rw [(h.nohas k' hh).2]; omega
              | true =>
                have := h.future k' hh
                rw [hb] at this
                simp only [Option.isSome_none, Bool.false_eq_true, imp_false, Nat.not_lt] at this
                omega
          · simp only [setNat, ↓reduceIte, Nat.zero_add]
            exact dist_lt _ _ _ hhi hi_lt
        · rw [update_other s τ k k' d hkk] at hk'
          obtain ⟨a1, a2, a3, a4⟩ := h.stored k' bt i hk'
          simp only [setNat, setBool, hkk, ↓reduceIte]
          rw [hp4, hp5]
          exact ⟨a1, a2, a3, fun hc => Nat.le_trans (a4 hc) h1⟩
      · intro k' hh hlt
        by_cases hkk : k' = k
        · subst hkk; rw [hself]; rfl
        · rw [update_other s τ k k' d hkk]
          simp only [setBool, setNat, hkk, ↓reduceIte] at hh hlt
          exact h.future k' hh (Nat.lt_of_le_of_lt h1 hlt)
    · simp only [hacc, ↓reduceIte]
      rw [update_rejected s τ k d hacc]
      exact monInv_mono s m now τ h h1
  | heartbeat =>
    simp only [step, monStep] at hinv' ⊢
    by_cases hd : s.hb * s.slack < durLimit
    · have hdead : m.dead = false := by rw [h.dead]; simp; exact hd
      simp only [hdead, Bool.false_eq_true, ↓reduceIte]
      cases hs : heartbeat s τ with
      | none => rw [heartbeat_some s τ hd] at hs; cases hs
      | some s' =>
        rw [hs] at hinv'
        simp only [Option.getD_some] at hinv' ⊢
        have hpar := step_params s (τ, .heartbeat)
        simp only [step, hs, Option.getD_some] at hpar
        obtain ⟨hp1, hp2, hp3, hp5⟩ := hpar
        constructor
        · simp only; rw [hp5]; exact h.len
        · simp only; rw [hp1, hp2]; exact h.sd
        · simp only; rw [hp3]; try exact h.lim
        · simp only; rw [hp1, hp2]; first | exact h.dead | (rw [← hdead]; exact h.dead)
        · intro k hk
          simp only at hk ⊢
          exact ⟨heartbeat_absent s s' τ k (h.nohas k hk).1 hs, (h.nohas k hk).2⟩
        · intro k bt i hk
          -- the pair was stored before, with the same data
          have hold : s.backoffs k = some (bt, i) := by
            have hs' := hs
            rw [heartbeat_some s τ hd] at hs'
            simp only [Option.some.injEq] at hs'
            subst hs'
            simp only at hk
            rw [retain_backoffs] at hk
            split at hk
            · cases hk
            · exact hk
          obtain ⟨a1, a2, a3, a4⟩ := h.stored k bt i hold
          have hi_lt := (hinv.fwd k bt i hold).1
          refine ⟨a1, a2, ?_, ?_⟩
          · simp only [a2, Bool.true_and]
            by_cases hcnt : m.exp k + m.slackDur ≤ τ
            · simp only [hcnt, decide_true, ↓reduceIte]
              obtain ⟨e1, _, e3⟩ := heartbeat_expired s s' τ k bt i hinv hold
                (by rw [a1, ← h.sd]; exact hcnt) h2 hs
              have hne : s.hi ≠ i := by
                intro hhi
                rw [e1 hhi] at hk
                cases hk
              rw [e3, hp5]
              have := dist_succ s.hi i s.ring.length hinv.hi_lt hi_lt hne
              omega
            · simp only [hcnt, decide_false, Bool.false_eq_true, ↓reduceIte]
              have hc0 : m.cnt k = 0 := by
                cases hc : m.cnt k with
                | zero => rfl
                | succ n => exact absurd (Nat.le_trans (a4 (by omega)) h1) hcnt
              rw [hc0, Nat.zero_add]
              exact dist_lt _ _ _ hinv'.hi_lt (hinv'.fwd k bt i hk).1
          · intro hc
            simp only [a2, Bool.true_and] at hc
            by_cases hcnt : m.exp k + m.slackDur ≤ τ
            · exact hcnt
            · simp only [hcnt, decide_false, Bool.false_eq_true, ↓reduceIte] at hc
              exact absurd (Nat.le_trans (a4 hc) h1) hcnt
        · intro k hh hlt
          simp only at hh hlt
          have hsome := h.future k hh (Nat.lt_of_le_of_lt h1 hlt)
          cases hb : s.backoffs k with
          | none => rw [hb] at hsome; cases hsome
          | some p =>
            obtain ⟨bt, i⟩ := p
            have hbt := (h.stored k bt i hb).1
            obtain ⟨bt', i', hk', _⟩ := heartbeat_keeps_backed s s' τ k (m.exp k)
              ⟨bt, i, hb, by omega⟩ hlt hs
            rw [hk']; rfl
    · have hd' : durLimit ≤ s.hb * s.slack := Nat.le_of_not_lt hd
      have hdead : m.dead = true := by rw [h.dead]; simp; exact hd'
      simp only [hdead, ↓reduceIte]
      rw [heartbeat_none s τ hd']
      exact monInv_mono s m now τ h h1

/-- op times are non-decreasing and representable -/
def Valid (limit : Nat) : Nat → List (Nat × Op) → Prop
  | _, [] => True
  | t, o :: os => t ≤ o.1 ∧ o.1 ≤ limit ∧ Valid limit o.1 os

def lastTime : Nat → List (Nat × Op) → Nat
  | t, [] => t
  | _, o :: os => lastTime o.1 os

theorem monInv_exec (ops : List (Nat × Op)) : ∀ (s : State) (m : Mon) (now : Nat), Inv s →
    MonInv s m now → Valid s.limit now ops →
    MonInv (exec s ops) (ops.foldl monStep m) (lastTime now ops) ∧ Inv (exec s ops) := by
  induction ops with
  | nil => intro s m now hi h _; exact ⟨h, hi⟩
  | cons o os ih =>
    intro s m now hi h hv
    obtain ⟨v1, v2, v3⟩ := hv
    have := ih (step s o) (monStep m o) o.1 (inv_step s o hi) (monInv_step s m now o hi h v1 v2)
      (by rw [(step_params s o).2.2.1]; exact v3)
    exact this

theorem checkKey_ok (s : State) (m : Mon) (now : Nat) (_hinv : Inv s) (h : MonInv s m now) (k : Key) :
    checkKey m now k (isBackoffWithSlack s k) (getBackoffTime s k) = none := by
  unfold checkKey isBackoffWithSlack getBackoffTime
  cases hb : s.backoffs k with
  | none =>
    have hf : (m.has k && decide (now < m.exp k)) = false := by
      cases hh : m.has k with
      | false => rfl
      | true =>
        have := h.future k hh
        rw [hb] at this
        simp only [Option.isSome_none, Bool.false_eq_true, imp_false] at this
        simp [this]
    simp [hf]
  | some p =>
    obtain ⟨bt, i⟩ := p
    obtain ⟨a1, a2, a3, _⟩ := h.stored k bt i hb
    have hlen : ¬ m.len ≤ m.cnt k := by rw [h.len]; omega
    simp [a1, a2, hlen]

/-- **The executable Spec accepts the model.** For every configuration accepted by `new`, every
op sequence with non-decreasing representable times and every set of pairs, the oracle that
`check.py` runs on the implementation's outputs (clauses `inconsistent`, `spurious`, `shortened`,
`wrong_time`, `not_forgotten`) reports no failure on the model's outputs after the last op — hence,
the statement holding for every sequence, after every op. So "impl = model on this run" implies
"the Spec holds on the implementation's outputs". -/
theorem spec_accepts_model (limit prune hb slack : Nat) (s0 : State)
    (h0 : new limit prune hb slack = some s0) (ops : List (Nat × Op)) (hv : Valid limit 0 ops)
    (keys : List Key) :
    spec (ops.foldl monStep (monNew limit prune hb slack)) (lastTime 0 ops) keys
      (isBackoffWithSlack (exec s0 ops)) (getBackoffTime (exec s0 ops)) = none := by
  have hlim : s0.limit = limit := by
    unfold new at h0
    by_cases hz : hb = 0
    · simp [hz] at h0
    · simp only [hz, ↓reduceIte, Option.some.injEq] at h0
      subst h0; rfl
  obtain ⟨hm, hi⟩ := monInv_exec ops s0 (monNew limit prune hb slack) 0
    (inv_new limit prune hb slack s0 h0) (monInv_new limit prune hb slack s0 h0) (by rw [hlim]; exact hv)
  unfold spec
  rw [List.findSome?_eq_none_iff]
  intro k _
  exact checkKey_ok _ _ _ hi hm k

/-! ## the pre-repair code violates the property -/

def stepBuggy (s : State) (o : Nat × Op) : State :=
  match o.2 with
  | .update k d => update s o.1 k d
  | .heartbeat => (heartbeatBuggy s o.1).getD s
  | .query => s

/-- **Counterexample for the code before the repair** (`.unwrap_or(false)`): greatest instant
100, `prune_backoff = heartbeat_interval = 1`, slack 1 (ring of 3 slots). A backoff of duration
100 accepted at time 0 (`0 + 100 ≤ 100`) is dropped by the third heartbeat, at time 0, because
`100 + 1` is not representable — 100 time units early. The repaired model keeps it. -/
theorem slack_overflow_buggy_counterexample :
    ∃ s0, new 100 1 1 1 = some s0 ∧
      isBackoffWithSlack
        ([(0, Op.update (0, 0) 100), (0, .heartbeat), (0, .heartbeat), (0, .heartbeat)].foldl stepBuggy s0)
        (0, 0) = false ∧
      isBackoffWithSlack
        (exec s0 [(0, Op.update (0, 0) 100), (0, .heartbeat), (0, .heartbeat), (0, .heartbeat)])
        (0, 0) = true := by
  refine ⟨_, rfl, ?_, ?_⟩ <;> decide

/-! ## non-vacuity -/

/-- a backoff longer than `prune_backoff` (ring index wraps), re-updated with a shorter one and
heartbeaten past the ring size, is still there just before its expiry … -/
example : ∃ s0, new 1000 2 1 1 = some s0 ∧
    getBackoffTime (exec s0 [(0, .update (0, 0) 9), (1, .update (0, 0) 2), (2, .heartbeat),
      (3, .heartbeat), (4, .heartbeat), (5, .heartbeat), (6, .heartbeat), (8, .heartbeat)]) (0, 0) = some 9 := by
  refine ⟨_, rfl, ?_⟩; decide

/-- … and is gone a ring revolution after expiry + slack. -/
example : ∃ s0, new 1000 2 1 1 = some s0 ∧
    getBackoffTime (exec s0 [(0, .update (0, 0) 9), (10, .heartbeat), (10, .heartbeat),
      (10, .heartbeat), (10, .heartbeat)]) (0, 0) = none := by
  refine ⟨_, rfl, ?_⟩; decide

end C32

#print axioms C32.never_shortened
#print axioms C32.step_monotone
#print axioms C32.ring_consistent
#print axioms C32.one_slot
#print axioms C32.eventually_forgotten
#print axioms C32.ring_length
#print axioms C32.absent_stays
#print axioms C32.spec_accepts_model
#print axioms C32.slack_overflow_buggy_counterexample
