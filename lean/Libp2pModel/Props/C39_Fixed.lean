import Libp2pModel.Proofs.C39_Fixed
/-!
# C39 — `FixedPeersIter`: bounded, each peer once, terminates, result = the responders
-/
namespace C39.Fixed
open C39 (Out)

def reach (peers : List Nat) (par : Nat) (ops : List Op) : Iter := Machine.exec step (init peers par) ops

/-- model and monitor stepping together -/
def stepM (ms : Mon × Iter) (op : Op) : (Mon × Iter) × Option String :=
  let r := step ms.2 op
  let v := monStep ms.1 op r.2 (isFinished r.1)
  ((v.1, r.1), v.2)

def Linked (ms : Mon × Iter) : Prop := Inv ms.2 ∧ R ms.1 ms.2

theorem linked_step (ms : Mon × Iter) (op : Op) (h : Linked ms) :
    Linked (stepM ms op).1 ∧ (stepM ms op).2 = none ∧ (step ms.2 op).2 ≠ .panic := by
  obtain ⟨h1, h2, h3, h4⟩ := step_ok h.1 h.2 op
  exact ⟨⟨h1, h4⟩, h3, h2⟩

theorem linked_init (peers : List Nat) {par : Nat} (hp : 0 < par) :
    Linked (monInit peers par, init peers par) := ⟨Inv.init peers hp, R.init peers par⟩

/-- **Spec ⊇ model** for the fixed iterator -/
theorem spec_accepts_model (peers : List Nat) {par : Nat} (hp : 0 < par) (ops : List Op) :
    ∀ v ∈ (Machine.run stepM (monInit peers par, init peers par) ops).2, v = none :=
  Machine.outputs_of_step stepM Linked (· = none) (fun ms o h => (linked_step ms o h).1)
    (fun ms o h => (linked_step ms o h).2.1) ops _ (linked_init peers hp)

theorem inv_step {s : Iter} (h : Inv s) (o : Op) : Inv (step s o).1 := by
  cases o with
  | next =>
    simp only [step, C39.Fixed.next]
    cases hs : s.state with
    | finished => exact h
    | waiting nw =>
      obtain ⟨hnw, hle⟩ := h.nw nw hs
      simp only
      split
      · exact h
      · rename_i hcap
        rcases pop_spec s.backlog s.peers with ⟨p, rest, sk, hpop, _, hfresh, _⟩ | ⟨hpop, _⟩
        · rw [hpop]
          have hpk : p ∉ fkeys s.peers := by
            intro hc; have := (pfind_isSome_iff s.peers p).2 hc; simp [hfresh] at this
          refine ⟨h.par_pos, ?_, ?_⟩
          · show (fkeys (s.peers ++ [(p, FState.waiting)])).Nodup
            simp only [fkeys, List.map_append, List.map_cons, List.map_nil]
            rw [List.nodup_append]
            refine ⟨h.nodup, by simp, ?_⟩
            intro a ha b hb hab
            simp at hb; subst hb; subst hab; exact hpk ha
          · intro nw' hnw'
            simp at hnw'; subst hnw'
            show nw + 1 = countWait (s.peers ++ [(p, FState.waiting)]) ∧ nw + 1 ≤ s.parallelism
            rw [countWait_append]; omega
        · rw [hpop]
          simp only
          split
          · exact ⟨h.par_pos, h.nodup, by intro nw' hh; simp at hh⟩
          · exact ⟨h.par_pos, h.nodup, by intro nw' hh; simp at hh; subst hh; exact ⟨hnw, hle⟩⟩
  | success p =>
    rcases report_cases h p .succeeded with ⟨heq, _⟩ | ⟨nw, hs, hf, hpos, heq⟩
    · simp only [step, onSuccess, heq]; exact h
    · simp only [step, onSuccess, heq]
      have hcw := countWait_pset hf .succeeded (by simp)
      obtain ⟨hnw, hle⟩ := h.nw nw hs
      exact ⟨h.par_pos, by show (fkeys (pset s.peers p .succeeded)).Nodup; rw [fkeys_pset]; exact h.nodup,
        by intro nw' hh; simp at hh; subst hh
           show nw - 1 = countWait (pset s.peers p .succeeded) ∧ nw - 1 ≤ s.parallelism
           omega⟩
  | failure p =>
    rcases report_cases h p .failed with ⟨heq, _⟩ | ⟨nw, hs, hf, hpos, heq⟩
    · simp only [step, onFailure, heq]; exact h
    · simp only [step, onFailure, heq]
      have hcw := countWait_pset hf .failed (by simp)
      obtain ⟨hnw, hle⟩ := h.nw nw hs
      exact ⟨h.par_pos, by show (fkeys (pset s.peers p .failed)).Nodup; rw [fkeys_pset]; exact h.nodup,
        by intro nw' hh; simp at hh; subst hh
           show nw - 1 = countWait (pset s.peers p .failed) ∧ nw - 1 ≤ s.parallelism
           omega⟩
  | finish =>
    simp only [step, C39.Fixed.finish]
    cases hs : s.state with
    | finished => exact h
    | waiting nw => exact ⟨h.par_pos, h.nodup, by intro nw' hh; simp at hh⟩

theorem inv_reach (peers : List Nat) {par : Nat} (hp : 0 < par) (ops : List Op) : Inv (reach peers par ops) :=
  Machine.invariant_of_step step Inv (fun s o h => inv_step h o) ops _ (Inv.init peers hp)

/-- **In-flight bound**: after any operation sequence the number of pending requests is the number
of `Waiting` peers and never exceeds `parallelism`; no call panics. -/
theorem inflight_bound (peers : List Nat) {par : Nat} (hp : 0 < par) (ops : List Op) :
    numWaiting (reach peers par ops) ≤ (reach peers par ops).parallelism ∧
    (∀ nw, (reach peers par ops).state = .waiting nw → nw = countWait (reach peers par ops).peers) ∧
    ∀ out ∈ (Machine.run step (init peers par) ops).2, out ≠ .panic := by
  have h := inv_reach peers hp ops
  refine ⟨?_, fun nw hs => (h.nw nw hs).1, ?_⟩
  · unfold numWaiting
    cases hs : (reach peers par ops).state with
    | finished => simp
    | waiting nw => exact (h.nw nw hs).2
  · intro out hout
    -- run the monitor alongside to use `step_ok`
    have : ∀ (ops : List Op) (ms : Mon × Iter), Linked ms →
        ∀ out ∈ (Machine.run step ms.2 ops).2, out ≠ .panic := by
      intro ops
      induction ops with
      | nil => intro ms _ out ho; simp [Machine.run] at ho
      | cons o os ih =>
        intro ms hl out ho
        obtain ⟨h1, _, h3⟩ := linked_step ms o hl
        simp only [Machine.run] at ho
        rcases List.mem_cons.1 ho with rfl | ho
        · exact h3
        · exact ih (stepM ms o).1 h1 out ho
    exact this ops _ (linked_init peers hp) out hout

def issuedOf : Op → Out → List Nat
  | .next, .waiting (some p) => [p]
  | _, _ => []

def respondedOf : Op → Out → List Nat
  | .success p, .bool true => [p]
  | _, _ => []

def issuedList : Iter → List Op → List Nat
  | _, [] => []
  | s, o :: os => issuedOf o (step s o).2 ++ issuedList (step s o).1 os

def respondedList : Iter → List Op → List Nat
  | _, [] => []
  | s, o :: os => respondedOf o (step s o).2 ++ respondedList (step s o).1 os

theorem monStep_lists (m : Mon) (op : Op) (out : Out) (fin : Bool) (h : (monStep m op out fin).2 = none) :
    (monStep m op out fin).1.issued = issuedOf op out ++ m.issued ∧
    (monStep m op out fin).1.accepted = respondedOf op out ++ m.accepted ∧
    (∀ p, issuedOf op out = [p] → p ∉ m.issued) := by
  cases op <;> rcases out with ⟨_ | p⟩ | _ | _ | b | _ | _ <;> (try cases b) <;>
    simp only [monStep, issuedOf, respondedOf] at h ⊢ <;>
    (repeat' split at h) <;> (try split) <;> simp_all

/-- the monitor's lists are the run's history, and `issued` stays duplicate-free -/
theorem monRun_lists (ops : List Op) : ∀ ms : Mon × Iter, Linked ms → ms.1.issued.Nodup →
    (Machine.exec stepM ms ops).1.issued = (issuedList ms.2 ops).reverse ++ ms.1.issued ∧
    (Machine.exec stepM ms ops).1.accepted = (respondedList ms.2 ops).reverse ++ ms.1.accepted ∧
    (Machine.exec stepM ms ops).1.issued.Nodup ∧ Linked (Machine.exec stepM ms ops) := by
  induction ops with
  | nil => intro ms hl hn; simp [Machine.exec, issuedList, respondedList, hn, hl]
  | cons o os ih =>
    intro ms h hn
    obtain ⟨hl, hv, _⟩ := linked_step ms o h
    obtain ⟨l1, l2, l3⟩ := monStep_lists ms.1 o (step ms.2 o).2 (isFinished (step ms.2 o).1) hv
    have e1 : (stepM ms o).1.1 = (monStep ms.1 o (step ms.2 o).2 (isFinished (step ms.2 o).1)).1 := rfl
    have e2 : (stepM ms o).1.2 = (step ms.2 o).1 := rfl
    have hn' : (stepM ms o).1.1.issued.Nodup := by
      rw [e1, l1]
      have hcases : issuedOf o (step ms.2 o).2 = [] ∨ ∃ p, issuedOf o (step ms.2 o).2 = [p] := by
        unfold issuedOf; split <;> simp
      rcases hcases with he | ⟨p, he⟩
      · rw [he]; simpa using hn
      · rw [he]; exact List.nodup_cons.2 ⟨l3 p he, hn⟩
    obtain ⟨i1, i2, i3, i4⟩ := ih _ hl hn'
    simp only [Machine.exec, List.foldl_cons] at i1 i2 i3 i4 ⊢
    refine ⟨?_, ?_, i3, i4⟩
    · rw [i1, e1, e2, l1]
      simp only [issuedList, List.reverse_append, List.append_assoc]
      congr 1
      unfold issuedOf; split <;> rfl
    · rw [i2, e1, e2, l2]
      simp only [respondedList, List.reverse_append, List.append_assoc]
      congr 1
      unfold respondedOf; split <;> rfl

theorem exec_stepM_snd (ops : List Op) : ∀ ms : Mon × Iter,
    (Machine.exec stepM ms ops).2 = Machine.exec step ms.2 ops := by
  induction ops with
  | nil => intro ms; rfl
  | cons o os ih => intro ms; simp only [Machine.exec, List.foldl_cons] at ih ⊢; rw [ih]; rfl

/-- **Each peer is returned by `next` at most once** (duplicates in the input are skipped). -/
theorem each_peer_once (peers : List Nat) {par : Nat} (hp : 0 < par) (ops : List Op) :
    (issuedList (init peers par) ops).Nodup := by
  obtain ⟨i1, _, i3, _⟩ := monRun_lists ops (monInit peers par, init peers par) (linked_init peers hp)
    (by simp [monInit])
  rw [i1] at i3
  simp only [monInit, List.append_nil] at i3
  rw [List.Nodup, List.pairwise_reverse] at i3
  exact i3.imp (fun h => h.symm)

theorem mem_result_iff (l : List (Nat × FState)) (hnd : (fkeys l).Nodup) (q : Nat) :
    q ∈ (l.filter (fun e => e.2 = .succeeded)).map (·.1) ↔ pfind l q = some .succeeded := by
  induction l with
  | nil => simp [pfind]
  | cons a t ih =>
    obtain ⟨k, st⟩ := a
    simp only [fkeys, List.map_cons, List.nodup_cons] at hnd
    have ih' := ih hnd.2
    by_cases hk : k = q
    · subst hk
      have hnot : k ∉ (t.filter (fun e => e.2 = .succeeded)).map (·.1) := by
        intro hc
        obtain ⟨e, he, hek⟩ := List.mem_map.1 hc
        exact hnd.1 (List.mem_map.2 ⟨e, (List.mem_filter.1 he).1, hek⟩)
      by_cases hs : st = .succeeded
      · simp [pfind, List.filter_cons, hs]
      · simp [pfind, List.filter_cons, hs, hnot]
    · have hqk : ¬ q = k := fun h => hk h.symm
      by_cases hs : st = .succeeded
      · simp only [pfind, hk, if_false, ← ih']
        simp [List.filter_cons, hs, hqk]
      · simp only [pfind, hk, if_false, ← ih']
        simp [List.filter_cons, hs]

/-- **Result = the responders**: after any operation sequence `into_result()` contains exactly the
peers for which an `on_success` call returned `true`, each once; every one of them was issued. -/
theorem result_exact (peers : List Nat) {par : Nat} (hp : 0 < par) (ops : List Op) :
    (∀ q, q ∈ result (reach peers par ops) ↔ q ∈ respondedList (init peers par) ops) ∧
    (result (reach peers par ops)).Nodup ∧
    ∀ q ∈ result (reach peers par ops), q ∈ issuedList (init peers par) ops := by
  obtain ⟨i1, i2, _, hl⟩ := monRun_lists ops (monInit peers par, init peers par) (linked_init peers hp)
    (by simp [monInit])
  have hs : (Machine.exec stepM (monInit peers par, init peers par) ops).2 = reach peers par ops :=
    exec_stepM_snd ops _
  have hl : Inv (reach peers par ops) ∧
      R (Machine.exec stepM (monInit peers par, init peers par) ops).1 (reach peers par ops) := by
    have := hl; unfold Linked at this; rwa [hs] at this
  have hmem : ∀ q, q ∈ result (reach peers par ops) ↔ pfind (reach peers par ops).peers q = some .succeeded :=
    fun q => mem_result_iff (reach peers par ops).peers hl.1.nodup q
  refine ⟨?_, ?_, ?_⟩
  · intro q
    rw [hmem q, ← hl.2.accepted q, i2]
    simp [monInit]
  · have hnd := hl.1.nodup
    unfold result fkeys at *
    exact (hnd.sublist ((List.filter_sublist).map _))
  · intro q hq
    have h1 : (pfind (reach peers par ops).peers q).isSome := by rw [(hmem q).1 hq]; rfl
    have := (hl.2.issued q).2 h1
    rw [i1] at this
    simpa [monInit] using this

/-! ## termination -/

def fin01 (s : Iter) : Nat := if s.state = .finished then 0 else 1

/-- potential: every effective call decreases it -/
def phi (s : Iter) : Nat := 2 * s.backlog.length + numWaiting s + fin01 s

def effective (s : Iter) : Op → Out → Nat
  | .next, .waiting (some _) => 1
  | .next, .finished => fin01 s
  | .success _, .bool true => 1
  | .failure _, .bool true => 1
  | _, _ => 0

theorem measure_step {s : Iter} (h : Inv s) (op : Op) :
    phi (step s op).1 + effective s op (step s op).2 ≤ phi s := by
  cases op with
  | next =>
    simp only [step, C39.Fixed.next]
    cases hs : s.state with
    | finished => simp [effective, fin01, hs]
    | waiting nw =>
      simp only
      split
      · simp [effective]
      · rcases pop_spec s.backlog s.peers with ⟨p, rest, sk, hpop, hsplit, _, _⟩ | ⟨hpop, _⟩
        · rw [hpop]
          have : rest.length + 1 ≤ s.backlog.length := by rw [hsplit]; simp
          simp only [phi, numWaiting, hs, effective, fin01]
          simp
          omega
        · rw [hpop]
          simp only
          split
          · simp [phi, numWaiting, hs, effective, fin01]
          · simp [phi, numWaiting, hs, effective, fin01]
  | success p =>
    rcases report_cases h p .succeeded with ⟨heq, _⟩ | ⟨nw, hs, hf, hpos, heq⟩
    · simp only [step, onSuccess, heq, effective]; omega
    · simp only [step, onSuccess, heq, effective, phi, numWaiting, hs, fin01]
      simp; omega
  | failure p =>
    rcases report_cases h p .failed with ⟨heq, _⟩ | ⟨nw, hs, hf, hpos, heq⟩
    · simp only [step, onFailure, heq, effective]; omega
    · simp only [step, onFailure, heq, effective, phi, numWaiting, hs, fin01]
      simp; omega
  | finish =>
    simp only [step, C39.Fixed.finish, effective]
    cases hs : s.state with
    | finished => simp
    | waiting nw => simp [phi, numWaiting, hs, fin01]; omega

def effCount : Iter → List Op → Nat
  | _, [] => 0
  | s, o :: os => effective s o (step s o).2 + effCount (step s o).1 os

/-- **Termination**: along any operation sequence at most `2·|peers| + 1` calls are effective
(issue a request, accept a report, finish); and with nothing pending `next` issues or finishes. -/
theorem terminates (peers : List Nat) {par : Nat} (hp : 0 < par) (ops : List Op) :
    effCount (init peers par) ops ≤ 2 * peers.length + 1 := by
  have : ∀ (ops : List Op) (s : Iter), Inv s → effCount s ops + phi (Machine.exec step s ops) ≤ phi s := by
    intro ops
    induction ops with
    | nil => intro s _; simp [effCount, Machine.exec]
    | cons o os ih =>
      intro s h
      have h1 := measure_step h o
      have h2 := ih (step s o).1 (inv_step h o)
      simp only [effCount, Machine.exec, List.foldl_cons] at h2 ⊢
      omega
  have h0 := this ops _ (Inv.init peers hp)
  have : phi (init peers par) = 2 * peers.length + 1 := by
    simp [phi, C39.Fixed.init, numWaiting, fin01]
  omega

theorem progress {s : Iter} (h : Inv s) (hz : s.state = .waiting 0) :
    (next s).2 = .finished ∨ ∃ p, (next s).2 = .waiting (some p) := by
  simp only [C39.Fixed.next, hz]
  have : ¬ 0 ≥ s.parallelism := by have := h.par_pos; omega
  simp only [this, if_false]
  rcases pop_spec s.backlog s.peers with ⟨p, rest, sk, hpop, _, _, _⟩ | ⟨hpop, _⟩
  · rw [hpop]; exact Or.inr ⟨p, rfl⟩
  · rw [hpop]; exact Or.inl (by simp)

example : (Machine.run step (init [3, 1, 3, 2] 2) [.next, .next, .next, .success 3, .next, .failure 1,
    .success 2, .next]).2 =
    [.waiting (some 3), .waiting (some 1), .atCapacity, .bool true, .waiting (some 2), .bool true,
     .bool true, .finished] := by decide

end C39.Fixed

#print axioms C39.Fixed.inflight_bound
#print axioms C39.Fixed.each_peer_once
#print axioms C39.Fixed.result_exact
#print axioms C39.Fixed.terminates
#print axioms C39.Fixed.progress
#print axioms C39.Fixed.spec_accepts_model
