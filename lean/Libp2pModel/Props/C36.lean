import Libp2pModel.Model.C36
import Libp2pModel.Common.Machine
/-!
# C36 — theorems

Property (properties.jsonl): a peer's tracked topic set only ever contains topics the subscription
filter allows, `MaxCountSubscriptionFilter` never lets it exceed `max_subscribed_topics` nor
accepts a request with more than `max_subscriptions_per_request` entries, and a rejected request
changes nothing.  Quantifier: arbitrary subscription RPC sequences against
whitelist/max-count/combined filters.
-/
namespace C36

/-! ## what a filter lets through -/

theorem filterSet_mem (F : Filter) : ∀ (s : List Sub) (x : Sub), x ∈ F.filterSet s →
    F.can x.topic = true ∧ x ∈ s := by
  induction F with
  | allowAll => intro s x h; simp [Filter.filterSet, Filter.can] at h ⊢; exact h
  | pred allow => intro s x h; simp [Filter.filterSet, Filter.can] at h ⊢; exact ⟨h.2, h.1⟩
  | maxCount inner mt mr _ => intro s x h; simp [Filter.filterSet, Filter.can] at h ⊢; exact ⟨h.2, h.1⟩
  | combined f1 f2 ih1 ih2 =>
    intro s x h
    simp only [Filter.filterSet] at h
    obtain ⟨h2, hm⟩ := ih2 _ x h
    obtain ⟨h1, hs⟩ := ih1 _ x hm
    exact ⟨by simp [Filter.can, h1, h2], hs⟩

theorem filterSet_sublist (F : Filter) : ∀ (s : List Sub), (F.filterSet s).Sublist s := by
  induction F with
  | allowAll => intro s; simp [Filter.filterSet]
  | pred allow => intro s; simp [Filter.filterSet]
  | maxCount inner mt mr _ => intro s; simp [Filter.filterSet]
  | combined f1 f2 ih1 ih2 =>
    intro s
    simp only [Filter.filterSet]
    exact (ih2 _).trans (ih1 _)

/-- everything a filter's `filter_incoming_subscriptions` returns is a subscription it allows -/
theorem filterIncoming_can (F : Filter) : ∀ (subs : List Sub) (cur : List Nat) (r : List Sub),
    F.filterIncoming subs cur = some r → ∀ x ∈ r, F.can x.topic = true := by
  induction F with
  | allowAll =>
    intro subs cur r h x hx
    simp only [Filter.filterIncoming, Option.some.injEq] at h
    subst h
    exact (filterSet_mem _ _ x hx).1
  | pred allow =>
    intro subs cur r h x hx
    simp only [Filter.filterIncoming, Option.some.injEq] at h
    subst h
    exact (filterSet_mem _ _ x hx).1
  | combined f1 f2 _ _ =>
    intro subs cur r h x hx
    simp only [Filter.filterIncoming, Option.some.injEq] at h
    subst h
    exact (filterSet_mem _ _ x hx).1
  | maxCount inner mt mr ih =>
    intro subs cur r h x hx
    simp only [Filter.filterIncoming] at h
    split at h
    · cases h
    · cases hi : inner.filterIncoming subs cur with
      | none => rw [hi] at h; cases h
      | some res =>
        rw [hi] at h
        simp only at h
        split at h
        · cases h
        · injection h with h
          subst h
          simpa [Filter.can] using ih subs cur res hi x hx

/-! ## applying a filtered set to the topic set -/

theorem mem_setInsert (l : List Nat) (a t : Nat) : t ∈ setInsert l a ↔ t = a ∨ t ∈ l := by
  unfold setInsert
  by_cases h : l.contains a = true
  · rw [if_pos h]
    constructor
    · exact Or.inr
    · rintro (rfl | h')
      · simpa using h
      · exact h'
  · rw [if_neg h]
    simp

theorem applySubs_mem (r : List Sub) : ∀ (cur : List Nat) (t : Nat), t ∈ applySubs cur r →
    t ∈ cur ∨ ∃ x ∈ r, x.subscribe = true ∧ x.topic = t := by
  induction r with
  | nil => intro cur t h; exact Or.inl h
  | cons s r ih =>
    intro cur t h
    simp only [applySubs] at h
    rcases ih _ t h with h' | ⟨x, hx, hs, ht⟩
    · by_cases hsub : s.subscribe = true
      · simp only [hsub, ↓reduceIte] at h'
        rcases (mem_setInsert _ _ _).1 h' with rfl | h''
        · exact Or.inr ⟨s, by simp, hsub, rfl⟩
        · exact Or.inl h''
      · simp only [hsub] at h'
        exact Or.inl (List.mem_of_mem_erase h')
    · exact Or.inr ⟨x, by simp [hx], hs, ht⟩

theorem topicsOf_setTopics (st : State) (p q : Nat) (ts : List Nat) :
    topicsOf (setTopics st p ts) q = if q = p then ts else topicsOf st q := by
  induction st with
  | nil =>
    by_cases h : q = p
    · subst h; simp [setTopics, topicsOf]
    · have : ¬ p = q := fun e => h e.symm
      simp [setTopics, topicsOf, h, this]
  | cons e r ih =>
    unfold setTopics
    by_cases he : e.1 = p
    · simp only [he, ↓reduceIte]
      by_cases h : q = p
      · subst h; simp [topicsOf]
      · have : ¬ p = q := fun e => h e.symm
        simp [topicsOf, h, this, he]
    · simp only [he, ↓reduceIte]
      by_cases heq : e.1 = q
      · have hqp : ¬ q = p := by intro e'; exact he (heq.trans e')
        simp [topicsOf, heq, hqp]
      · have : topicsOf (e :: setTopics r p ts) q = topicsOf (setTopics r p ts) q := by
          simp [topicsOf, heq]
        rw [this, ih]
        simp [topicsOf, heq]

/-- **C36.only_allowed** — for every filter (whitelist / predicate, max-count, combined, nested in
any way), every initial state and EVERY sequence of subscription RPCs and GRAFTs: a topic in a
peer's tracked set is allowed by the filter, or was already tracked initially, or entered through
a GRAFT from that peer for that topic (`handle_graft` does not consult the filter — it is not a
subscription RPC).  In particular, from the empty state and under subscription RPCs only, tracked
topics ⊆ {t | filter allows t}. -/
theorem only_allowed (F : Filter) (G : Nat → Nat → Prop) : ∀ (ops : List Op) (st : State),
    (∀ p t, t ∈ topicsOf st p → F.can t = true ∨ G p t) →
    (∀ p t, Op.graft p t ∈ ops → G p t) →
    ∀ p t, t ∈ topicsOf (Machine.exec (step F) st ops) p → F.can t = true ∨ G p t := by
  intro ops
  induction ops with
  | nil => intro st h _ p t ht; exact h p t ht
  | cons o os ih =>
    intro st hinv hg p t ht
    simp only [Machine.exec, List.foldl] at ht
    refine ih (step F st o).1 ?_ (fun p t h => hg p t (by simp [h])) p t ht
    intro q u hu
    cases o with
    | subs p' subs =>
      simp only [step] at hu
      cases hf : F.filterIncoming subs (topicsOf st p') with
      | none => rw [hf] at hu; exact hinv q u hu
      | some res =>
        rw [hf] at hu
        simp only [topicsOf_setTopics] at hu
        by_cases hq : q = p'
        · subst hq
          simp only [↓reduceIte] at hu
          rcases applySubs_mem res _ u hu with h' | ⟨x, hx, _, hxt⟩
          · exact hinv q u h'
          · subst hxt
            exact Or.inl (filterIncoming_can F subs _ res hf x hx)
        · simp only [hq, ↓reduceIte] at hu
          exact hinv q u hu
    | graft p' t' =>
      simp only [step, topicsOf_setTopics] at hu
      by_cases hq : q = p'
      · subst hq
        simp only [↓reduceIte] at hu
        rcases (mem_setInsert _ _ _).1 hu with rfl | h'
        · exact Or.inr (hg q u (by simp))
        · exact hinv q u h'
      · simp only [hq, ↓reduceIte] at hu
        exact hinv q u hu

/-- the headline form: empty start, subscription RPCs only -/
theorem only_allowed_subs (F : Filter) (ops : List Op) (hsubs : ∀ o ∈ ops, ∃ p l, o = Op.subs p l)
    (p t : Nat) (ht : t ∈ topicsOf (Machine.exec (step F) [] ops) p) : F.can t = true := by
  have := only_allowed F (fun _ _ => False) ops [] (by intro p t h; simp [topicsOf] at h)
    (by
      intro p t h
      obtain ⟨p', l, he⟩ := hsubs _ h
      cases he) p t ht
  simpa using this

/-! ## the max-count bound -/

theorem dedupStep_topics (m : List Sub) (s : Sub) : ∀ t, t ∈ (dedupStep m s).map (·.topic) →
    t ∈ m.map (·.topic) ∨ t = s.topic := by
  induction m with
  | nil => intro t h; simp [dedupStep] at h; exact Or.inr h
  | cons e m ih =>
    intro t h
    unfold dedupStep at h
    split at h
    · split at h
      · exact Or.inl (by simp at h ⊢; exact Or.inr h)
      · exact Or.inl h
    · simp only [List.map_cons, List.mem_cons] at h
      rcases h with h | h
      · exact Or.inl (by simp [h])
      · rcases ih t h with h' | h'
        · exact Or.inl (by simp at h' ⊢; exact Or.inr h')
        · exact Or.inr h'

theorem dedupStep_nodup (m : List Sub) (s : Sub) (h : (m.map (·.topic)).Nodup) :
    ((dedupStep m s).map (·.topic)).Nodup := by
  induction m with
  | nil => simp [dedupStep]
  | cons e m ih =>
    simp only [List.map_cons, List.nodup_cons] at h
    unfold dedupStep
    split
    · split
      · exact h.2
      · simp only [List.map_cons, List.nodup_cons]; exact h
    · rename_i hne
      simp only [List.map_cons, List.nodup_cons]
      refine ⟨?_, ih h.2⟩
      intro hmem
      rcases dedupStep_topics m s _ hmem with h' | h'
      · exact h.1 h'
      · exact hne h'

theorem dedup_nodup_aux (subs : List Sub) : ∀ (m : List Sub), (m.map (·.topic)).Nodup →
    ((subs.foldl dedupStep m).map (·.topic)).Nodup := by
  induction subs with
  | nil => intro m h; exact h
  | cons s r ih => intro m h; exact ih _ (dedupStep_nodup m s h)

theorem dedup_nodup (subs : List Sub) : ((dedup subs).map (·.topic)).Nodup :=
  dedup_nodup_aux subs [] (by simp)

/-- the filtered set holds at most one subscription per topic -/
theorem filterIncoming_nodup (F : Filter) : ∀ (subs : List Sub) (cur : List Nat) (r : List Sub),
    F.filterIncoming subs cur = some r → (r.map (·.topic)).Nodup := by
  have base : ∀ (F : Filter) (subs : List Sub), ((F.filterSet (dedup subs)).map (·.topic)).Nodup := by
    intro F subs
    exact ((filterSet_sublist F (dedup subs)).map _).nodup (dedup_nodup subs)
  induction F with
  | allowAll => intro subs cur r h; simp only [Filter.filterIncoming, Option.some.injEq] at h; subst h; exact base _ _
  | pred allow => intro subs cur r h; simp only [Filter.filterIncoming, Option.some.injEq] at h; subst h; exact base _ _
  | combined f1 f2 _ _ => intro subs cur r h; simp only [Filter.filterIncoming, Option.some.injEq] at h; subst h; exact base _ _
  | maxCount inner mt mr ih =>
    intro subs cur r h
    simp only [Filter.filterIncoming] at h
    split at h
    · cases h
    · cases hi : inner.filterIncoming subs cur with
      | none => rw [hi] at h; cases h
      | some res =>
        rw [hi] at h
        simp only at h
        split at h
        · cases h
        · injection h with h
          subst h
          exact ih subs cur res hi

def newCount (cur : List Nat) (r : List Sub) : Nat :=
  (r.filter (fun s => s.subscribe && !cur.contains s.topic)).length
def unsubCount (cur : List Nat) (r : List Sub) : Nat :=
  (r.filter (fun s => !s.subscribe && cur.contains s.topic)).length

theorem count_congr (cur cur' : List Nat) (r : List Sub)
    (h : ∀ x ∈ r, cur'.contains x.topic = cur.contains x.topic) :
    newCount cur' r = newCount cur r ∧ unsubCount cur' r = unsubCount cur r := by
  unfold newCount unsubCount
  constructor
  · congr 1
    apply List.filter_congr
    intro x hx
    rw [h x hx]
  · congr 1
    apply List.filter_congr
    intro x hx
    rw [h x hx]

/-- the exact size of the topic set after applying a filtered set: `|cur| + new − unsubscribed` -/
theorem applySubs_length (r : List Sub) : ∀ (cur : List Nat), cur.Nodup → (r.map (·.topic)).Nodup →
    (applySubs cur r).Nodup ∧ (applySubs cur r).length + unsubCount cur r = cur.length + newCount cur r := by
  induction r with
  | nil => intro cur h _; simp [applySubs, unsubCount, newCount, h]
  | cons s r ih =>
    intro cur hcur hr
    simp only [List.map_cons, List.nodup_cons] at hr
    obtain ⟨hs, hr'⟩ := hr
    have hne : ∀ x ∈ r, x.topic ≠ s.topic := by
      intro x hx he
      exact hs (by rw [← he]; exact List.mem_map_of_mem hx)
    simp only [applySubs]
    by_cases hsub : s.subscribe = true
    · simp only [hsub, ↓reduceIte]
      by_cases hin : cur.contains s.topic = true
      · have hset : setInsert cur s.topic = cur := by unfold setInsert; rw [if_pos hin]
        rw [hset]
        obtain ⟨hn, hl⟩ := ih cur hcur hr'
        refine ⟨hn, ?_⟩
        simp only [unsubCount, newCount, List.filter_cons, hsub, hin] at hl ⊢
        simpa using hl
      · have hset : setInsert cur s.topic = s.topic :: cur := by unfold setInsert; rw [if_neg hin]
        rw [hset]
        have hnd : (s.topic :: cur).Nodup := by
          simp only [List.nodup_cons]
          exact ⟨by simpa using hin, hcur⟩
        obtain ⟨hn, hl⟩ := ih (s.topic :: cur) hnd hr'
        have hc := count_congr cur (s.topic :: cur) r (by
          intro x hx
          have := hne x hx
          simp [this])
        refine ⟨hn, ?_⟩
        rw [hc.1, hc.2] at hl
        simp only [unsubCount, newCount, List.filter_cons, hsub, hin] at hl ⊢
        simp at hl ⊢
        omega
    · have hsub' : s.subscribe = false := by simpa using hsub
      simp only [hsub', Bool.false_eq_true, ↓reduceIte]
      by_cases hin : cur.contains s.topic = true
      · have hmem : s.topic ∈ cur := by simpa using hin
        obtain ⟨hn, hl⟩ := ih (cur.erase s.topic) (hcur.erase _) hr'
        have hc := count_congr cur (cur.erase s.topic) r (by
          intro x hx
          have := hne x hx
          rw [Bool.eq_iff_iff]
          simp [List.mem_erase_of_ne this])
        refine ⟨hn, ?_⟩
        rw [hc.1, hc.2] at hl
        have hlen := List.length_erase_of_mem hmem
        have hpos : 0 < cur.length := List.length_pos_of_mem hmem
        simp only [unsubCount, newCount, List.filter_cons, hsub', hin] at hl ⊢
        simp at hl ⊢
        omega
      · have hnm : s.topic ∉ cur := by simpa using hin
        rw [List.erase_of_not_mem hnm]
        obtain ⟨hn, hl⟩ := ih cur hcur hr'
        refine ⟨hn, ?_⟩
        simp only [unsubCount, newCount, List.filter_cons, hsub', hin] at hl ⊢
        simpa using hl

/-- every peer's topic list is duplicate-free and at most `mt` long -/
def Bounded (mt : Nat) (st : State) : Prop := ∀ p, (topicsOf st p).Nodup ∧ (topicsOf st p).length ≤ mt

/-- **C36.max_count** — with `MaxCountSubscriptionFilter` (around any inner filter) as the
behaviour's filter, for EVERY sequence of subscription RPCs: no peer's tracked topic set ever
exceeds `max_subscribed_topics`. -/
theorem max_count (inner : Filter) (mt mr : Nat) : ∀ (ops : List Op) (st : State),
    (∀ o ∈ ops, ∃ p l, o = Op.subs p l) → Bounded mt st →
    Bounded mt (Machine.exec (step (.maxCount inner mt mr)) st ops) := by
  intro ops
  induction ops with
  | nil => intro st _ h; exact h
  | cons o os ih =>
    intro st hsubs hb
    simp only [Machine.exec, List.foldl]
    refine ih _ (fun o' h => hsubs o' (by simp [h])) ?_
    obtain ⟨p, l, rfl⟩ := hsubs o (by simp)
    intro q
    simp only [step]
    cases hf : (Filter.maxCount inner mt mr).filterIncoming l (topicsOf st p) with
    | none => exact hb q
    | some res =>
      simp only [topicsOf_setTopics]
      by_cases hq : q = p
      · subst hq
        simp only [↓reduceIte]
        have hnd := filterIncoming_nodup _ l _ res hf
        obtain ⟨hn, hl⟩ := applySubs_length res (topicsOf st q) (hb q).1 hnd
        refine ⟨hn, ?_⟩
        -- the check `new_subscribed + currently_subscribed.len() > max + unsubscribed` did not fire
        simp only [Filter.filterIncoming] at hf
        split at hf
        · cases hf
        · cases hi : inner.filterIncoming l (topicsOf st q) with
          | none => rw [hi] at hf; cases hf
          | some res' =>
            rw [hi] at hf
            simp only at hf
            split at hf
            · cases hf
            · rename_i hchk
              injection hf with hf
              subst hf
              unfold newCount unsubCount at hl
              omega
      · simp only [hq, ↓reduceIte]
        exact hb q

/-- **C36.request_size** — a request with more than `max_subscriptions_per_request` entries is
rejected, whatever its content and the peer's current topics -/
theorem request_size (inner : Filter) (mt mr : Nat) (subs : List Sub) (cur : List Nat)
    (h : subs.length > mr) : (Filter.maxCount inner mt mr).filterIncoming subs cur = none := by
  simp [Filter.filterIncoming, h]

/-- **C36.reject_is_noop** — a request the filter rejects (for any filter) leaves the whole node
state unchanged and emits nothing -/
theorem reject_is_noop (F : Filter) (st : State) (p : Nat) (subs : List Sub)
    (h : F.filterIncoming subs (topicsOf st p) = none) :
    step F st (.subs p subs) = (st, ⟨none, []⟩) := by
  simp [step, h]

/-- an oversized request is a no-op of the node -/
theorem oversize_request_is_noop (inner : Filter) (mt mr : Nat) (st : State) (p : Nat) (subs : List Sub)
    (h : subs.length > mr) :
    step (.maxCount inner mt mr) st (.subs p subs) = (st, ⟨none, []⟩) :=
  reject_is_noop _ st p subs (request_size inner mt mr subs _ h)

/-- Observation (reported, not part of the property): a `MaxCount` filter that is wrapped INSIDE a
`Combined` filter does not limit anything — `Combined` only calls its members'
`filter_incoming_subscription_set`, which `MaxCount` does not override. -/
theorem combined_ignores_inner_max_count :
    (Filter.combined (.maxCount .allowAll 0 0) .allowAll).filterIncoming [⟨true, 1⟩, ⟨true, 2⟩] [] =
      some [⟨true, 1⟩, ⟨true, 2⟩] := by
  decide

/-! ## the Spec accepts the model -/

theorem filter_true (l : List Nat) : l.filter (fun t => !([] : List Nat).contains t) = l := by
  induction l with
  | nil => rfl
  | cons a l ih => simp

/-- **C36.spec_accepts_model** — from any state whose tracked topics are allowed (and, under an
outermost `MaxCount`, bounded and duplicate-free), the Spec's monitor accepts what the model's
`handle_received_subscriptions` does with ANY request (so: `impl = model` on an executed request
implies the Spec holds on the implementation's output). -/
theorem spec_accepts_model (F : Filter) (st : State) (p : Nat) (subs : List Sub)
    (hallowed : ∀ q t, t ∈ topicsOf st q → F.can t = true)
    (hb : ∀ inner mt mr, F = .maxCount inner mt mr → Bounded mt st) :
    specSubs F subs.length (topicsOf st p) (topicsOf (step F st (.subs p subs)).1 p) []
      (step F st (.subs p subs)).2.verdict.isNone (step F st (.subs p subs)).2.events.length = "ok" := by
  have hall : ∀ t ∈ topicsOf (step F st (.subs p subs)).1 p, F.can t = true := by
    intro t ht
    have := only_allowed F (fun _ _ => False) [.subs p subs] st
      (fun q t h => Or.inl (hallowed q t h)) (by intro q t h; simp at h) p t
      (by simpa [Machine.exec] using ht)
    simpa using this
  have hany : (topicsOf (step F st (.subs p subs)).1 p).any (fun t => !F.can t) = false := by
    simp only [List.any_eq_false, Bool.not_eq_true']
    intro t ht
    simpa using hall t ht
  unfold specSubs
  simp only [filter_true, hany, Bool.false_eq_true, ↓reduceIte]
  cases hf : F.filterIncoming subs (topicsOf st p) with
  | none =>
    have hstep := reject_is_noop F st p subs hf
    rw [hstep]
    cases F with
    | maxCount inner mt mr =>
      have hbd := (hb inner mt mr rfl p).2
      simp
      omega
    | allowAll => simp
    | pred a => simp
    | combined f1 f2 => simp
  | some res =>
    have hv : (step F st (.subs p subs)).2.verdict.isNone = false := by simp [step, hf]
    rw [hv]
    cases F with
    | maxCount inner mt mr =>
      have hbnd := max_count inner mt mr [.subs p subs] st (by intro o ho; simp at ho; exact ⟨p, subs, ho⟩)
        (hb inner mt mr rfl) p
      simp only [Machine.exec, List.foldl] at hbnd
      have hreq : ¬ subs.length > mr := by
        intro h
        rw [request_size inner mt mr subs _ h] at hf
        cases hf
      simp
      rw [if_neg (by omega), if_neg (by omega)]
    | allowAll => simp
    | pred a => simp
    | combined f1 f2 => simp

/-! non-vacuity -/
example : (Filter.maxCount .allowAll 2 3).filterIncoming [⟨true, 1⟩, ⟨true, 2⟩, ⟨true, 3⟩] [] = none := by decide
example : (Filter.maxCount .allowAll 2 3).filterIncoming [⟨true, 1⟩, ⟨false, 1⟩, ⟨true, 3⟩] [7] =
    some [⟨true, 3⟩] := by decide
example : (step (.pred (fun t => t < 3)) [] (.subs 0 [⟨true, 1⟩, ⟨true, 5⟩])).1 = [(0, [1])] := by decide

end C36

#print axioms C36.filterIncoming_can
#print axioms C36.only_allowed
#print axioms C36.only_allowed_subs
#print axioms C36.applySubs_length
#print axioms C36.max_count
#print axioms C36.request_size
#print axioms C36.reject_is_noop
#print axioms C36.oversize_request_is_noop
#print axioms C36.combined_ignores_inner_max_count
#print axioms C36.spec_accepts_model
