import Libp2pModel.Model.C08
/-!
# C08 — property theorems: concurrency window, attempted at most once, success/failure reporting
-/
namespace C08

/-- invariant of the dial state machine -/
structure Inv (s : St) : Prop where
  kpos : 0 < s.k
  perm : (s.pending ++ s.inflight ++ s.errors ++ s.winner.toList).Perm (allDials s.n)
  window : s.inflight.length ≤ s.k
  qsub : ∀ i ∈ s.queue, i ∈ s.inflight
  qnodup : s.queue.Nodup
  refill : s.winner = none → s.inflight = [] → s.pending = []
  startedNodup : s.started.Nodup
  errOutcome : ∀ i ∈ s.errors, outcomeOf s i = some false
  winOutcome : ∀ w, s.winner = some w → outcomeOf s w = some true
  maxIn : s.maxIn ≤ s.k
  res : match s.result with
    | none => s.winner = none
    | some (.ok w es) => s.winner = some w ∧ es = s.errors
    | some (.err es) => es = s.errors ∧ s.inflight = [] ∧ s.pending = [] ∧ s.winner = none

theorem allDials_nodup (n : Nat) : (allDials n).Nodup := by
  unfold allDials; exact List.nodup_range'

theorem Inv.nodup {s : St} (h : Inv s) : (s.pending ++ s.inflight ++ s.errors ++ s.winner.toList).Nodup :=
  h.perm.nodup_iff.2 (allDials_nodup s.n)

theorem inv_new (n k : Nat) (hk : 0 < k) : Inv (new n k) where
  kpos := hk
  perm := by
    simp only [new, Option.toList_none, List.append_nil]
    have h := (List.perm_append_comm : (List.drop k (allDials n) ++ List.take k (allDials n)).Perm _)
    rwa [List.take_append_drop] at h
  window := by simp [new]; omega
  qsub := by simp [new]
  qnodup := by
    simp only [new]
    exact (allDials_nodup n).sublist (List.take_sublist _ _)
  refill := by
    intro _ h
    simp only [new] at h ⊢
    have : (allDials n) = [] := by
      cases hl : allDials n with
      | nil => rfl
      | cons a r =>
        rw [hl] at h
        cases k with
        | zero => omega
        | succ k => simp at h
    simp [this]
  startedNodup := by simp [new]
  errOutcome := by simp [new]
  winOutcome := by simp [new]
  maxIn := by simp [new]
  res := by simp [new]

/-! ## `complete` -/
theorem outcomeOf_append (s : St) (i j : Nat) (b : Bool) (o : Bool) (h : outcomeOf s j = some o) :
    outcomeOf { s with outcomes := s.outcomes ++ [(i, b)] } j = some o := by
  unfold outcomeOf at *
  simp only [List.find?_append]
  cases hf : List.find? (fun x => x.1 == j) s.outcomes with
  | none => simp [hf] at h
  | some x => simpa [hf] using h

theorem inv_complete (s : St) (i : Nat) (b : Bool) (h : Inv s) : Inv (complete s i b) := by
  unfold complete
  split
  · exact h
  · have base : Inv { s with outcomes := s.outcomes ++ [(i, b)] } :=
      { h with
        errOutcome := fun j hj => outcomeOf_append s i j b false (h.errOutcome j hj)
        winOutcome := fun w hw => outcomeOf_append s i w b true (h.winOutcome w hw) }
    split
    · rename_i hc
      simp only [Bool.and_eq_true, List.contains_eq_mem, decide_eq_true_eq, Bool.not_eq_eq_eq_not,
        Bool.not_true, decide_eq_false_iff_not] at hc
      exact { base with
        qsub := by
          intro j hj
          rcases List.mem_append.1 hj with hj | hj
          · exact h.qsub j hj
          · simp at hj; subst hj; exact hc.1.2
        qnodup := by
          show (s.queue ++ [i]).Nodup
          rw [List.nodup_append]
          refine ⟨h.qnodup, by simp, ?_⟩
          intro a ha b' hb'
          simp at hb'; subst hb'
          intro hab; subst hab; exact hc.2 ha }
    · exact base

/-! ## `poll` -/
theorem inv_deq (s : St) (t : Nat) (q : List Nat) (h : Inv s) (hq : s.queue = t :: q) : Inv (deq s t q) := by
  have hqn : (t :: q).Nodup := hq ▸ h.qnodup
  have hlive : ∀ s' : St, s'.inflight = s.inflight → (live s').length ≤ s.k := by
    intro s' he
    have : (live s').length ≤ s'.inflight.length := List.length_filter_le _ _
    have := h.window; rw [he] at *; omega
  exact { h with
    qsub := fun i hi => h.qsub i (by rw [hq]; exact List.mem_cons_of_mem t (show i ∈ q from hi))
    qnodup := (List.nodup_cons.1 hqn).2
    startedNodup := by
      show (if s.started.contains t then s.started else s.started ++ [t]).Nodup
      split
      · exact h.startedNodup
      · rename_i hc
        rw [List.nodup_append]
        refine ⟨h.startedNodup, by simp, ?_⟩
        intro a ha b hb
        simp at hb; subst hb
        intro hab; subst hab
        exact hc (by simpa using ha)
    maxIn := by
      show max s.maxIn _ ≤ s.k
      have := hlive { s with queue := q, started := if s.started.contains t then s.started else s.started ++ [t] } rfl
      have := h.maxIn
      omega }

theorem erase_facts (s : St) (t : Nat) (h : Inv s) (ht : t ∈ s.inflight) :
    (s.inflight.erase t).length + 1 = s.inflight.length ∧
    (∀ (x : List Nat), (s.pending ++ s.inflight.erase t ++ (s.errors ++ [t]) ++ x).Perm
        (s.pending ++ s.inflight ++ s.errors ++ x)) := by
  constructor
  · rw [List.length_erase_of_mem ht]
    have : 0 < s.inflight.length := List.length_pos_of_mem ht
    omega
  · intro x
    have hp := List.perm_cons_erase ht
    refine List.Perm.append_right x ?_
    have h2 : (s.pending ++ s.inflight.erase t ++ (s.errors ++ [t])).Perm
        (s.pending ++ (t :: s.inflight.erase t) ++ s.errors) := by
      simp only [List.append_assoc]
      refine List.Perm.append_left _ ?_
      rw [← List.append_assoc]
      exact (List.perm_append_singleton t _).trans (by simp)
    exact h2.trans ((List.Perm.append_left _ hp.symm).append_right _)

theorem inv_succeed (s : St) (t : Nat) (h : Inv s) (ht : t ∈ s.inflight) (htq : t ∉ s.queue)
    (hw : s.winner = none) (ho : outcomeOf s t = some true) : Inv (succeed s t) := by
  obtain ⟨hlen, hperm⟩ := erase_facts s t h ht
  exact { h with
    perm := by
      show (s.pending ++ s.inflight.erase t ++ s.errors ++ [t]).Perm _
      have := h.perm
      rw [hw] at this
      simp only [Option.toList_none, List.append_nil] at this
      refine List.Perm.trans ?_ this
      have h2 := hperm []
      simp only [List.append_nil] at h2
      refine List.Perm.trans ?_ h2
      simp only [List.append_assoc]
      exact .refl _
    window := by have := h.window; show (s.inflight.erase t).length ≤ s.k; omega
    qsub := by
      intro i hi
      have hne : i ≠ t := fun he => htq (he ▸ hi)
      exact (List.mem_erase_of_ne hne).2 (h.qsub i hi)
    refill := by intro hc; simp [succeed] at hc
    winOutcome := by intro w hw'; simp [succeed] at hw'; subst hw'; exact ho
    res := ⟨rfl, rfl⟩ }

theorem inv_fail (s : St) (t : Nat) (h : Inv s) (ht : t ∈ s.inflight) (htq : t ∉ s.queue)
    (hres : s.result = none) (ho : outcomeOf s t = some false) : Inv (startNext (fail s t)) := by
  obtain ⟨hlen, hperm⟩ := erase_facts s t h ht
  have hw : s.winner = none := by have := h.res; rw [hres] at this; exact this
  have hq_erase : ∀ i ∈ s.queue, i ∈ s.inflight.erase t := by
    intro i hi
    have hne : i ≠ t := fun he => htq (he ▸ hi)
    exact (List.mem_erase_of_ne hne).2 (h.qsub i hi)
  have herr : ∀ i ∈ s.errors ++ [t], outcomeOf s i = some false := by
    intro i hi
    rcases List.mem_append.1 hi with hi | hi
    · exact h.errOutcome i hi
    · simp at hi; subst hi; exact ho
  unfold startNext
  split
  · rename_i hpend
    have hpend' : s.pending = [] := hpend
    exact { h with
      perm := (hperm _).trans h.perm
      window := by have := h.window; show (s.inflight.erase t).length ≤ s.k; omega
      qsub := hq_erase
      refill := fun _ _ => hpend'
      errOutcome := herr
      res := by have := h.res; rw [hres] at this; simp only [fail, hres]; exact this }
  · rename_i j r hpend
    have hpend' : s.pending = j :: r := hpend
    have hjp : j ∈ s.pending := by rw [hpend']; simp
    have hj_notin : j ∉ s.inflight := by
      intro hj
      have := h.nodup
      simp only [List.append_assoc] at this
      rw [List.nodup_append] at this
      exact this.2.2 j hjp j (by simp [hj]) rfl
    exact { h with
      perm := by
        show (r ++ (s.inflight.erase t ++ [j]) ++ (s.errors ++ [t]) ++ s.winner.toList).Perm _
        refine List.Perm.trans ?_ ((hperm _).trans h.perm)
        rw [hpend']
        refine List.Perm.append_right _ (List.Perm.append_right _ ?_)
        have : (r ++ (s.inflight.erase t ++ [j])).Perm (j :: (r ++ s.inflight.erase t)) := by
          rw [← List.append_assoc]; exact List.perm_append_singleton j _
        simpa using this
      window := by
        have := h.window
        show (s.inflight.erase t ++ [j]).length ≤ s.k
        simp; omega
      qsub := by
        intro i hi
        rcases List.mem_append.1 hi with hi | hi
        · exact List.mem_append_left _ (hq_erase i hi)
        · exact List.mem_append_right _ hi
      qnodup := by
        show (s.queue ++ [j]).Nodup
        rw [List.nodup_append]
        refine ⟨h.qnodup, by simp, ?_⟩
        intro a ha b hb
        simp at hb; subst hb
        intro hab; subst hab
        exact hj_notin (h.qsub a ha)
      refill := by intro _ hc; simp at hc
      errOutcome := herr
      res := by have := h.res; rw [hres] at this; simp only [fail, hres]; exact this }

theorem inv_pollLoop (fuel : Nat) (s : St) (h : Inv s) : Inv (pollLoop fuel s) := by
  induction fuel generalizing s with
  | zero => exact h
  | succ fuel ih =>
    unfold pollLoop
    split
    · exact h
    · rename_i hres
      have hnone : s.result = none := by simpa using hres
      have hw : s.winner = none := by have := h.res; rw [hnone] at this; exact this
      split
      · rename_i hemp
        have hemp' : s.inflight = [] := by simpa using hemp
        exact { h with res := by simp [hemp', h.refill hw hemp', hw] }
      · split
        · exact h
        · rename_i t q hq
          have hd := inv_deq s t q h hq
          have hqn : (t :: q).Nodup := hq ▸ h.qnodup
          have htin : t ∈ (deq s t q).inflight := h.qsub t (by rw [hq]; simp)
          have htq : t ∉ (deq s t q).queue := (List.nodup_cons.1 hqn).1
          split
          · exact ih _ hd
          · rename_i ho
            exact inv_succeed _ t hd htin htq hw ho
          · rename_i ho
            exact ih _ (inv_fail _ t hd htin htq hnone ho)

theorem inv_step (s : St) (o : Op) (h : Inv s) : Inv (step s o).1 := by
  cases o with
  | complete i b => exact inv_complete s i b h
  | poll => exact inv_pollLoop _ s h

/-- every state reachable from `ConcurrentDial::new(n dials, k)` by any interleaving of transport
outcomes (succeed / fail / stay pending, before or after the dial was started) and polls -/
def reach (n k : Nat) (ops : List Op) : St := Machine.exec step (new n k) ops

theorem inv_reach (n k : Nat) (hk : 0 < k) (ops : List Op) : Inv (reach n k ops) :=
  Machine.invariant_of_step step Inv inv_step ops _ (inv_new n k hk)

theorem startNext_nk (s : St) : (startNext s).n = s.n ∧ (startNext s).k = s.k := by
  unfold startNext; split <;> exact ⟨rfl, rfl⟩

theorem pollLoop_nk (fuel : Nat) (s : St) : (pollLoop fuel s).n = s.n ∧ (pollLoop fuel s).k = s.k := by
  induction fuel generalizing s with
  | zero => exact ⟨rfl, rfl⟩
  | succ f ih =>
    unfold pollLoop
    split
    · exact ⟨rfl, rfl⟩
    split
    · exact ⟨rfl, rfl⟩
    split
    · exact ⟨rfl, rfl⟩
    rename_i t q _
    split
    · exact ih _
    · exact ⟨rfl, rfl⟩
    · have := ih (startNext (fail (deq s t q) t))
      rw [(startNext_nk _).1, (startNext_nk _).2] at this
      exact this

theorem reach_nk (n k : Nat) (ops : List Op) : (reach n k ops).n = n ∧ (reach n k ops).k = k := by
  have : ∀ s : St, (Machine.exec step s ops).n = s.n ∧ (Machine.exec step s ops).k = s.k := by
    induction ops with
    | nil => intro s; exact ⟨rfl, rfl⟩
    | cons o r ih =>
      intro s
      have h1 : (step s o).1.n = s.n ∧ (step s o).1.k = s.k := by
        cases o with
        | complete i b => simp only [step, complete]; repeat' split <;> simp
        | poll => exact pollLoop_nk _ s
      have := ih (step s o).1
      simp only [Machine.exec, List.foldl_cons] at this ⊢
      rw [h1.1, h1.2] at this; exact this
  exact this (new n k)

/-- **C08.inflight_le_k** — at most `k` dials are in the `FuturesUnordered`, hence at most `k`
started-and-unfinished transport dials, in every reachable state; also the running maximum. -/
theorem inflight_le_k (n k : Nat) (hk : 0 < k) (ops : List Op) :
    (reach n k ops).inflight.length ≤ k ∧ (live (reach n k ops)).length ≤ k ∧ (reach n k ops).maxIn ≤ k := by
  have h := inv_reach n k hk ops
  have hk' := (reach_nk n k ops).2
  have := h.window; have := h.maxIn
  have : (live (reach n k ops)).length ≤ (reach n k ops).inflight.length := List.length_filter_le _ _
  omega

/-- **C08.started_once** — every address is attempted at most once: the list of started dials has
no duplicates, and not-yet-started / in-flight / failed / winning dials partition the input. -/
theorem started_once (n k : Nat) (hk : 0 < k) (ops : List Op) :
    (reach n k ops).started.Nodup ∧
    ((reach n k ops).pending ++ (reach n k ops).inflight ++ (reach n k ops).errors
      ++ (reach n k ops).winner.toList).Perm (allDials n) := by
  have h := inv_reach n k hk ops
  have hp := h.perm
  rw [(reach_nk n k ops).1] at hp
  exact ⟨h.startedNodup, hp⟩

/-- **C08.success_iff** (⇒) — if the dial resolves `Ok(w, es)` then `w`'s transport dial succeeded,
and `es` are exactly the dials that failed before, each of which did fail. -/
theorem success_sound (n k : Nat) (hk : 0 < k) (ops : List Op) (w : Nat) (es : List Nat)
    (hr : (reach n k ops).result = some (.ok w es)) :
    outcomeOf (reach n k ops) w = some true ∧ es = (reach n k ops).errors ∧ es.Nodup ∧ w ∉ es ∧
    ∀ i ∈ es, outcomeOf (reach n k ops) i = some false := by
  have h := inv_reach n k hk ops
  have hres := h.res
  rw [hr] at hres
  obtain ⟨hw, rfl⟩ := hres
  have hnd := h.nodup
  rw [hw] at hnd
  simp only [Option.toList_some, List.append_assoc] at hnd
  have h3 : ((reach n k ops).errors ++ [w]).Nodup := by
    have := (List.nodup_append.1 hnd).2.1
    exact (List.nodup_append.1 this).2.1
  refine ⟨h.winOutcome w hw, rfl, (List.nodup_append.1 h3).1, ?_, h.errOutcome⟩
  intro hmem
  exact (List.nodup_append.1 h3).2.2 w hmem w (by simp) rfl

/-- **C08.failure_reports_all** — if the dial resolves `Err(es)` then every one of the `n` addresses
was attempted and failed, and `es` lists each of them exactly once (a permutation of the input);
in particular no attempted address succeeded. -/
theorem failure_reports_all (n k : Nat) (hk : 0 < k) (ops : List Op) (es : List Nat)
    (hr : (reach n k ops).result = some (.err es)) :
    es.Perm (allDials n) ∧ ∀ i ∈ es, outcomeOf (reach n k ops) i = some false := by
  have h := inv_reach n k hk ops
  have hres := h.res
  rw [hr] at hres
  obtain ⟨rfl, hin, hpe, hw⟩ := hres
  have hp := h.perm
  rw [hin, hpe, hw, (reach_nk n k ops).1] at hp
  exact ⟨by simpa using hp, h.errOutcome⟩

/-- **C08.success_complete** (⇐, contrapositive form) — the dial never resolves `Err` while some
address's transport dial has succeeded: a success among the attempted addresses wins. -/
theorem no_failure_after_success (n k : Nat) (hk : 0 < k) (ops : List Op) (es : List Nat) (i : Nat)
    (hi : i ∈ allDials n) (hr : (reach n k ops).result = some (.err es)) :
    outcomeOf (reach n k ops) i ≠ some true := by
  obtain ⟨hp, ho⟩ := failure_reports_all n k hk ops es hr
  have := ho i (hp.mem_iff.2 hi)
  rw [this]; simp

/-- **C08.smart_once** — `SmartDial` is the machine with every dial pushed at once (window `n`):
every address is attempted at most once and the same success / failure clauses hold. -/
theorem smart_once (n : Nat) (ops : List Op) :
    (reach n (max n 1) ops).started.Nodup ∧
    (∀ es, (reach n (max n 1) ops).result = some (.err es) → es.Perm (allDials n)) :=
  ⟨(started_once n _ (by omega) ops).1, fun es hr => (failure_reports_all n _ (by omega) ops es hr).1⟩

/-- **C08.terminates** — once every dial has an outcome and was polled, the dial is resolved: a
poll with an empty `FuturesUnordered` resolves with `Err`. -/
theorem resolves_when_empty (s : St) (fuel : Nat) (h1 : s.result = none) (h2 : s.inflight = []) :
    (pollLoop (fuel + 1) s).result = some (.err s.errors) := by
  simp [pollLoop, h1, h2]

/-! non-vacuity / examples -/
example : (poll (complete (complete (poll (new 3 2)) 1 false) 2 false)).started = [1, 2, 3] := by decide
example : (poll (complete (poll (complete (complete (poll (new 3 2)) 1 false) 2 false)) 3 false)).result
    = some (.err [1, 2, 3]) := by decide
example : (poll (complete (complete (poll (new 3 1)) 1 false) 2 true)).result = some (.ok 2 [1]) := by decide

end C08

#print axioms C08.inflight_le_k
#print axioms C08.started_once
#print axioms C08.success_sound
#print axioms C08.failure_reports_all
#print axioms C08.no_failure_after_success
#print axioms C08.smart_once
#print axioms C08.resolves_when_empty
#print axioms C08.inv_reach
