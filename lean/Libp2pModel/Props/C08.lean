import Libp2pModel.Model.C08
/-!
# C08 — property theorems: concurrency window, attempted at most once, success/failure reporting
-/
namespace C08

/-- invariant of the dial state machine -/
structure Inv (s : St) : Prop where
  kpos : 0 < s.k
  perm : (s.pending ++ s.inflight ++ s.errors ++ s.winner.toList).Perm (allDials s.n)
  window : s.inflight.length ≤ s.k
  qsub : ∀ i ∈ s.queue, i ∈ s.inflight
  qnodup : s.queue.Nodup
  refill : s.winner = none → s.inflight = [] → s.pending = []
  startedNodup : s.started.Nodup
  errOutcome : ∀ i ∈ s.errors, outcomeOf s i = some false
  winOutcome : ∀ w, s.winner = some w → outcomeOf s w = some true
  maxIn : s.maxIn ≤ s.k
  res : match s.result with
    | none => s.winner = none
    | some (.ok w es) => s.winner = some w ∧ es = s.errors
    | some (.err es) => es = s.errors ∧ s.inflight = [] ∧ s.pending = [] ∧ s.winner = none

theorem allDials_nodup (n : Nat) : (allDials n).Nodup := by
  unfold allDials; exact List.nodup_range'

theorem Inv.nodup {s : St} (h : Inv s) : (s.pending ++ s.inflight ++ s.errors ++ s.winner.toList).Nodup :=
  h.perm.nodup_iff.2 (allDials_nodup s.n)

theorem inv_new (n k : Nat) (hk : 0 < k) : Inv (new n k) where
  kpos := hk
  perm := by
    simp only [new, Option.toList_none, List.append_nil]
    have h := (List.perm_append_comm : (List.drop k (allDials n) ++ List.take k (allDials n)).Perm _)
    rwa [List.take_append_drop] at h
  window := by simp [new]; omega
  qsub := by simp [new]
  qnodup := by
    simp only [new]
    exact (allDials_nodup n).sublist (List.take_sublist _ _)
  refill := by
    intro _ h
    simp only [new] at h ⊢
    have : (allDials n) = [] := by
      cases hl : allDials n with
      | nil => rfl
      | cons a r =>
        rw [hl] at h
        cases k with
        | zero => omega
        | succ k => simp at h
    simp [this]
  startedNodup := by simp [new]
  errOutcome := by simp [new]
  winOutcome := by simp [new]
  maxIn := by simp [new]
  res := by simp [new]

/-! ## `complete` -/
theorem outcomeOf_append (s : St) (i j : Nat) (b : Bool) (o : Bool) (h : outcomeOf s j = some o) :
    outcomeOf { s with outcomes := s.outcomes ++ [(i, b)] } j = some o := by
  unfold outcomeOf at *
  simp only [List.find?_append]
  cases hf : List.find? (fun x => x.1 == j) s.outcomes with
  | none => simp [hf] at h
  | some x => simpa [hf] using h

theorem inv_complete (s : St) (i : Nat) (b : Bool) (h : Inv s) : Inv (complete s i b) := by
  unfold complete
  split
  · exact h
  · have base : Inv { s with outcomes := s.outcomes ++ [(i, b)] } :=
      { h with
        errOutcome := fun j hj => outcomeOf_append s i j b false (h.errOutcome j hj)
        winOutcome := fun w hw => outcomeOf_append s i w b true (h.winOutcome w hw) }
    split
    · rename_i hc
      simp only [Bool.and_eq_true, List.contains_eq_mem, decide_eq_true_eq, Bool.not_eq_eq_eq_not,
        Bool.not_true, decide_eq_false_iff_not] at hc
      exact { base with
        qsub := by
          intro j hj
          rcases List.mem_append.1 hj with hj | hj
          · exact h.qsub j hj
          · simp at hj; subst hj; exact hc.1.2
        qnodup := by
          show (s.queue ++ [i]).Nodup
          rw [List.nodup_append]
          refine ⟨h.qnodup, by simp, ?_⟩
          intro a ha b' hb'
          simp at hb'; subst hb'
          intro hab; subst hab; exact hc.2 ha }
    · exact base

/-! ## `poll` -/
theorem inv_deq (s : St) (t : Nat) (q : List Nat) (h : Inv s) (hq : s.queue = t :: q) : Inv (deq s t q) := by
  have hqn : (t :: q).Nodup := hq ▸ h.qnodup
  have hlive : ∀ s' : St, s'.inflight = s.inflight → (live s').length ≤ s.k := by
    intro s' he
    have : (live s').length ≤ s'.inflight.length := List.length_filter_le _ _
    have := h.window; rw [he] at *; omega
  exact { h with
    qsub := fun i hi => h.qsub i (by rw [hq]; exact List.mem_cons_of_mem t (show i ∈ q from hi))
    qnodup := (List.nodup_cons.1 hqn).2
    startedNodup := by
      show (if s.started.contains t then s.started else s.started ++ [t]).Nodup
      split
      · exact h.startedNodup
      · rename_i hc
        rw [List.nodup_append]
        refine ⟨h.startedNodup, by simp, ?_⟩
        intro a ha b hb
        simp at hb; subst hb
        intro hab; subst hab
        exact hc (by simpa using ha)
    maxIn := by
      show max s.maxIn _ ≤ s.k
      have := hlive { s with queue := q, started := if s.started.contains t then s.started else s.started ++ [t] } rfl
      have := h.maxIn
      omega }

theorem erase_facts (s : St) (t : Nat) (h : Inv s) (ht : t ∈ s.inflight) :
    (s.inflight.erase t).length + 1 = s.inflight.length ∧
    (∀ (x : List Nat), (s.pending ++ s.inflight.erase t ++ (s.errors ++ [t]) ++ x).Perm
        (s.pending ++ s.inflight ++ s.errors ++ x)) := by
  constructor
  · rw [List.length_erase_of_mem ht]
    have : 0 < s.inflight.length := List.length_pos_of_mem ht
    omega
  · intro x
    have hp := List.perm_cons_erase ht
    refine List.Perm.append_right x ?_
    have h2 : (s.pending ++ s.inflight.erase t ++ (s.errors ++ [t])).Perm
        (s.pending ++ (t :: s.inflight.erase t) ++ s.errors) := by
      simp only [List.append_assoc]
      refine List.Perm.append_left _ ?_
      rw [← List.append_assoc]
      exact (List.perm_append_singleton t _).trans (by simp)
    exact h2.trans ((List.Perm.append_left _ hp.symm).append_right _)

theorem inv_succeed (s : St) (t : Nat) (h : Inv s) (ht : t ∈ s.inflight) (htq : t ∉ s.queue)
    (hw : s.winner = none) (ho : outcomeOf s t = some true) : Inv (succeed s t) := by
  obtain ⟨hlen, hperm⟩ := erase_facts s t h ht
  exact { h with
    perm := by
      show (s.pending ++ s.inflight.erase t ++ s.errors ++ [t]).Perm _
      have := h.perm
      rw [hw] at this
      simp only [Option.toList_none, List.append_nil] at this
      refine List.Perm.trans ?_ this
      have h2 := hperm []
      simp only [List.append_nil] at h2
      refine List.Perm.trans ?_ h2
      simp only [List.append_assoc]
      exact .refl _
    window := by have := h.window; show (s.inflight.erase t).length ≤ s.k; omega
    qsub := by
      intro i hi
      have hne : i ≠ t := fun he => htq (he ▸ hi)
      exact (List.mem_erase_of_ne hne).2 (h.qsub i hi)
    refill := by intro hc; simp [succeed] at hc
    winOutcome := by intro w hw'; simp [succeed] at hw'; subst hw'; exact ho
    res := ⟨rfl, rfl⟩ }

theorem inv_fail (s : St) (t : Nat) (h : Inv s) (ht : t ∈ s.inflight) (htq : t ∉ s.queue)
    (hres : s.result = none) (ho : outcomeOf s t = some false) : Inv (startNext (fail s t)) := by
  obtain ⟨hlen, hperm⟩ := erase_facts s t h ht
  have hw : s.winner = none := by have := h.res; rw [hres] at this; exact this
  have hq_erase : ∀ i ∈ s.queue, i ∈ s.inflight.erase t := by
    intro i hi
    have hne : i ≠ t := fun he => htq (he ▸ hi)
    exact (List.mem_erase_of_ne hne).2 (h.qsub i hi)
  have herr : ∀ i ∈ s.errors ++ [t], outcomeOf s i = some false := by
    intro i hi
    rcases List.mem_append.1 hi with hi | hi
    · exact h.errOutcome i hi
    · simp at hi; subst hi; exact ho
  unfold startNext
  split
  · rename_i hpend
    have hpend' : s.pending = [] := hpend
    exact { h with
      perm := (hperm _).trans h.perm
      window := by have := h.window; show (s.inflight.erase t).length ≤ s.k; omega
      qsub := hq_erase
      refill := fun _ _ => hpend'
      errOutcome := herr
      res := by have := h.res; rw [hres] at this; simp only [fail, hres]; exact this }
  · rename_i j r hpend
    have hpend' : s.pending = j :: r := hpend
    have hjp : j ∈ s.pending := by rw [hpend']; simp
    have hj_notin : j ∉ s.inflight := by
      intro hj
      have := h.nodup
      simp only [List.append_assoc] at this
      rw [List.nodup_append] at this
      exact this.2.2 j hjp j (by simp [hj]) rfl
    exact { h with
      perm := by
        show (r ++ (s.inflight.erase t ++ [j]) ++ (s.errors ++ [t]) ++ s.winner.toList).Perm _
        refine List.Perm.trans ?_ ((hperm _).trans h.perm)
        rw [hpend']
        refine List.Perm.append_right _ (List.Perm.append_right _ ?_)
        have : (r ++ (s.inflight.erase t ++ [j])).Perm (j :: (r ++ s.inflight.erase t)) := by
          rw [← List.append_assoc]; exact List.perm_append_singleton j _
        simpa using this
      window := by
        have := h.window
        show (s.inflight.erase t ++ [j]).length ≤ s.k
        simp; omega
      qsub := by
        intro i hi
        rcases List.mem_append.1 hi with hi | hi
        · exact List.mem_append_left _ (hq_erase i hi)
        · exact List.mem_append_right _ hi
      qnodup := by
        show (s.queue ++ [j]).Nodup
        rw [List.nodup_append]
        refine ⟨h.qnodup, by simp, ?_⟩
        intro a ha b hb
        simp at hb; subst hb
        intro hab; subst hab
        exact hj_notin (h.qsub a ha)
      refill := by intro _ hc; simp at hc
      errOutcome := herr
      res := by have := h.res; rw [hres] at this; simp only [fail, hres]; exact this }

/-! ## the delay gate and the start bookkeeping -/

/-- `s'` differs from `s` only in the gate bookkeeping (`fresh`, `armed`, `released`, ghosts) -/
def CoreEq (s s' : St) : Prop :=
  s'.k = s.k ∧ s'.n = s.n ∧ s'.pending = s.pending ∧ s'.inflight = s.inflight ∧ s'.queue = s.queue ∧
  s'.outcomes = s.outcomes ∧ s'.started = s.started ∧ s'.errors = s.errors ∧ s'.winner = s.winner ∧
  s'.result = s.result ∧ s'.maxIn = s.maxIn

theorem outcomeOf_congr (s s' : St) (h : s'.outcomes = s.outcomes) (i : Nat) : outcomeOf s' i = outcomeOf s i := by
  unfold outcomeOf; rw [h]

theorem inv_coreEq (s s' : St) (e : CoreEq s s') (h : Inv s) : Inv s' := by
  obtain ⟨e1, e2, e3, e4, e5, e6, e7, e8, e9, e10, e11⟩ := e
  refine ⟨by rw [e1]; exact h.kpos, by rw [e3, e4, e8, e9, e2]; exact h.perm, by rw [e4, e1]; exact h.window,
    by rw [e5, e4]; exact h.qsub, by rw [e5]; exact h.qnodup, by rw [e9, e4, e3]; exact h.refill,
    by rw [e7]; exact h.startedNodup, ?_, ?_, by rw [e11, e1]; exact h.maxIn, ?_⟩
  · intro i hi; rw [outcomeOf_congr s s' e6]; exact h.errOutcome i (e8 ▸ hi)
  · intro w hw; rw [outcomeOf_congr s s' e6]; exact h.winOutcome w (e9 ▸ hw)
  · rw [e10]
    have := h.res
    cases hr : s.result with
    | none => rw [hr] at this; simp only; rw [e9]; exact this
    | some r =>
      rw [hr] at this
      cases r with
      | ok w es => simp only at this ⊢; rw [e9, e8]; exact this
      | err es => simp only at this ⊢; rw [e8, e4, e3, e9]; exact this

/-- start bookkeeping; `st` is the started list the ghost `startedAt` must describe -/
structure SInvP (s : St) (st : List Nat) : Prop where
  sub : ∀ i ∈ s.started, i ∈ s.inflight ∨ i ∈ s.errors ∨ s.winner = some i
  errSt : ∀ i ∈ s.errors, i ∈ s.started
  winSt : ∀ w, s.winner = some w → w ∈ s.started
  g0 : s.startedAt.map (·.1) = st
  g1 : ∀ e ∈ s.armed, ∃ t1, (e.1, t1) ∈ s.polledAt ∧ t1 + delayOf s e.1 ≤ e.2
  g2 : ∀ a ∈ s.released, ∃ t1, (a, t1) ∈ s.polledAt ∧ t1 + delayOf s a ≤ s.now
  g3 : ∀ e ∈ s.startedAt, ∃ t1, (e.1, t1) ∈ s.polledAt ∧ t1 + delayOf s e.1 ≤ e.2
  g5 : ∀ e ∈ s.polledAt, ∃ t0, s.firstPoll = some t0 ∧ t0 ≤ e.2
  g7 : ∀ t0, s.firstPoll = some t0 → t0 ≤ s.now
  g8 : s.firstPoll = none → s.polledAt = []

abbrev SInv (s : St) : Prop := SInvP s s.started

/-- the started list after polling dial `t` -/
def startedWith (s : St) (t : Nat) : List Nat := if s.started.contains t then s.started else s.started ++ [t]

theorem sinv_deq (s : St) (t : Nat) (q : List Nat) (h : SInvP s (startedWith s t)) (ht : t ∈ s.inflight) :
    SInv (deq s t q) ∧ t ∈ (deq s t q).started := by
  have hst : (deq s t q).started = startedWith s t := rfl
  have hmem : ∀ i, i ∈ startedWith s t ↔ i ∈ s.started ∨ i = t := by
    intro i; unfold startedWith
    split
    · rename_i hc
      have : t ∈ s.started := by simpa using hc
      constructor
      · exact Or.inl
      · rintro (h | rfl) <;> assumption
    · simp
  refine ⟨⟨?_, ?_, ?_, ?_, h.g1, h.g2, h.g3, h.g5, h.g7, h.g8⟩, ?_⟩
  · intro i hi
    rw [hst, hmem] at hi
    rcases hi with hi | rfl
    · exact h.sub i hi
    · exact Or.inl ht
  · intro i hi; rw [hst, hmem]; exact Or.inl (h.errSt i hi)
  · intro w hw; rw [hst, hmem]; exact Or.inl (h.winSt w hw)
  · rw [hst]; exact h.g0
  · rw [hst, hmem]; exact Or.inr rfl

theorem sinv_succeed (s : St) (t : Nat) (h : SInv s) (hw : s.winner = none) (ht : t ∈ s.started) :
    SInv (succeed s t) := by
  refine ⟨?_, h.errSt, ?_, h.g0, h.g1, h.g2, h.g3, h.g5, h.g7, h.g8⟩
  · intro i hi
    by_cases hit : i = t
    · exact Or.inr (Or.inr (by rw [hit]; rfl))
    · rcases h.sub i hi with h1 | h1 | h1
      · exact Or.inl ((List.mem_erase_of_ne hit).2 h1)
      · exact Or.inr (Or.inl h1)
      · rw [hw] at h1; cases h1
  · intro w hw'
    have : w = t := by simpa [succeed] using hw'.symm
    rw [this]; exact ht

theorem sinv_fail (s : St) (t : Nat) (h : SInv s) (ht : t ∈ s.started) : SInv (fail s t) := by
  refine ⟨?_, ?_, h.winSt, h.g0, h.g1, h.g2, h.g3, h.g5, h.g7, h.g8⟩
  · intro i hi
    by_cases hit : i = t
    · exact Or.inr (Or.inl (by rw [hit]; show t ∈ s.errors ++ [t]; simp))
    · rcases h.sub i hi with h1 | h1 | h1
      · exact Or.inl ((List.mem_erase_of_ne hit).2 h1)
      · exact Or.inr (Or.inl (List.mem_append_left _ h1))
      · exact Or.inr (Or.inr h1)
  · intro i hi
    rcases List.mem_append.1 hi with h1 | h1
    · exact h.errSt i h1
    · simp at h1; rw [h1]; exact ht

theorem sinv_startNext (s : St) (h : SInv s) : SInv (startNext s) := by
  unfold startNext
  split
  · exact h
  · refine ⟨?_, h.errSt, h.winSt, h.g0, h.g1, h.g2, h.g3, h.g5, h.g7, h.g8⟩
    intro i hi
    rcases h.sub i hi with h1 | h1 | h1
    · exact Or.inl (List.mem_append_left _ h1)
    · exact Or.inr (Or.inl h1)
    · exact Or.inr (Or.inr h1)

theorem startNext_started (s : St) : (startNext s).started = s.started := by
  unfold startNext; split <;> rfl

/-- invariant of the whole machine -/
structure Full (s : St) : Prop where
  inv : Inv s
  sinv : SInv s

/-- the tail of one loop iteration once the dial future of `t` is reached -/
theorem full_pass_tail (fuel : Nat) (ih : ∀ s : St, Full s → s.firstPoll.isSome = true → Full (pollLoop fuel s))
    (s : St) (t : Nat) (q : List Nat) (hI : Inv s) (hS : SInvP s (startedWith s t)) (hq : s.queue = t :: q)
    (hres : s.result = none) (hfp : s.firstPoll.isSome = true) :
    Full (match outcomeOf s t with
      | none => pollLoop fuel (deq s t q)
      | some true => succeed (deq s t q) t
      | some false => pollLoop fuel (startNext (fail (deq s t q) t))) := by
  have hw : s.winner = none := by have := hI.res; rw [hres] at this; exact this
  have hd := inv_deq s t q hI hq
  have hqn : (t :: q).Nodup := hq ▸ hI.qnodup
  have htin : t ∈ (deq s t q).inflight := hI.qsub t (by rw [hq]; simp)
  have htq : t ∉ (deq s t q).queue := (List.nodup_cons.1 hqn).1
  obtain ⟨hsd, hts⟩ := sinv_deq s t q hS htin
  split
  · exact ih _ ⟨hd, hsd⟩ hfp
  · rename_i ho
    exact ⟨inv_succeed _ t hd htin htq hw ho, sinv_succeed _ t hsd hw hts⟩
  · rename_i ho
    refine ih _ ⟨inv_fail _ t hd htin htq hres ho, sinv_startNext _ (sinv_fail _ t hsd hts)⟩ ?_
    have : (startNext (fail (deq s t q) t)).firstPoll = s.firstPoll := by
      unfold startNext; split <;> rfl
    rw [this]; exact hfp

/-- the states `gate` can produce -/
def armSt (s : St) (t : Nat) (q : List Nat) : St :=
  { s with queue := q, fresh := s.fresh.erase t, polledAt := s.polledAt ++ [(t, s.now)], armed := s.armed ++ [(t, s.now + delayOf s t)] }
def markStarted (s : St) (t : Nat) : List (Nat × Nat) :=
  if s.started.contains t then s.startedAt else s.startedAt ++ [(t, s.now)]
def passFreshSt (s : St) (t : Nat) : St :=
  { s with fresh := s.fresh.erase t, polledAt := s.polledAt ++ [(t, s.now)], startedAt := markStarted s t }
def passRelSt (s : St) (t : Nat) : St :=
  { s with released := s.released.erase t, startedAt := markStarted s t }

theorem gate_wait_cases (s : St) (t : Nat) (q : List Nat) (s' : St) (hg : gate s t q = .wait s') :
    (delayOf s t ≠ 0 ∧ s' = armSt s t q) ∨ (s' = { s with queue := q }) := by
  unfold gate at hg
  split at hg
  · split at hg
    · cases hg
    · rename_i hd
      injection hg with e
      exact Or.inl ⟨by simpa using hd, e.symm⟩
  · split at hg
    · cases hg
    · split at hg
      · cases hg
      · injection hg with e
        exact Or.inr e.symm

theorem gate_pass_cases (s : St) (t : Nat) (q : List Nat) (s' : St) (hg : gate s t q = .pass s') :
    (delayOf s t = 0 ∧ s' = passFreshSt s t) ∨ (t ∈ s.released ∧ s' = passRelSt s t) ∨
    (s.started.contains t = true ∧ s' = s) := by
  unfold gate at hg
  split at hg
  · split at hg
    · rename_i hd
      injection hg with e
      exact Or.inl ⟨by simpa using hd, e.symm⟩
    · cases hg
  · split at hg
    · rename_i hr
      injection hg with e
      exact Or.inr (Or.inl ⟨by simpa using hr, e.symm⟩)
    · split at hg
      · rename_i hst
        injection hg with e
        exact Or.inr (Or.inr ⟨hst, e.symm⟩)
      · cases hg

theorem full_pollLoop (fuel : Nat) (s : St) (h : Full s) (hfp : s.firstPoll.isSome = true) :
    Full (pollLoop fuel s) := by
  induction fuel generalizing s with
  | zero => exact h
  | succ fuel ih =>
    obtain ⟨hI, hS⟩ := h
    unfold pollLoop
    split
    · exact ⟨hI, hS⟩
    · rename_i hres
      have hnone : s.result = none := by simpa using hres
      have hw : s.winner = none := by have := hI.res; rw [hnone] at this; exact this
      split
      · rename_i hemp
        have hemp' : s.inflight = [] := by simpa using hemp
        exact ⟨{ hI with res := by simp [hemp', hI.refill hw hemp', hw] },
          ⟨hS.sub, hS.errSt, hS.winSt, hS.g0, hS.g1, hS.g2, hS.g3, hS.g5, hS.g7, hS.g8⟩⟩
      · split
        · exact ⟨hI, hS⟩
        · rename_i t q hq
          obtain ⟨t0, ht0⟩ := Option.isSome_iff_exists.1 hfp
          have hnow := hS.g7 t0 ht0
          have hqn : (t :: q).Nodup := hq ▸ hI.qnodup
          -- the wrapper stays pending: only the queue (and gate bookkeeping) changes
          have waitInv : ∀ s' : St, CoreEq { s with queue := q } s' → Inv s' := by
            intro s' e
            refine inv_coreEq _ s' e ?_
            exact { hI with
              qsub := fun i hi => hI.qsub i (by rw [hq]; exact List.mem_cons_of_mem t (show i ∈ q from hi))
              qnodup := (List.nodup_cons.1 hqn).2 }
          have startedAt_cases : ∀ e, e ∈ markStarted s t → e ∈ s.startedAt ∨ e = (t, s.now) := by
            intro e he
            unfold markStarted at he
            split at he
            · exact Or.inl he
            · simpa using he
          have startedAt_map : (markStarted s t).map (·.1) = startedWith s t := by
            unfold startedWith markStarted
            split
            · exact hS.g0
            · simp [hS.g0]
          cases hg : gate s t q with
          | wait s' =>
            simp only
            rcases gate_wait_cases s t q s' hg with ⟨_, he⟩ | he <;> subst he
            · -- fresh wrapper with a delay: the `Delay` is armed, the wrapper stays pending
              refine ih _ ⟨waitInv _ ⟨rfl, rfl, rfl, rfl, rfl, rfl, rfl, rfl, rfl, rfl, rfl⟩, ?_⟩ hfp
              refine ⟨hS.sub, hS.errSt, hS.winSt, hS.g0, ?_, ?_, ?_, ?_, hS.g7, ?_⟩
              · intro e he
                rcases List.mem_append.1 he with h1 | h1
                · obtain ⟨t1, h1', h2⟩ := hS.g1 e h1
                  exact ⟨t1, List.mem_append_left _ h1', h2⟩
                · simp at h1; subst h1
                  exact ⟨s.now, List.mem_append_right _ (by simp), Nat.le_refl _⟩
              · intro a ha
                obtain ⟨t1, h1, h2⟩ := hS.g2 a ha
                exact ⟨t1, List.mem_append_left _ h1, h2⟩
              · intro e he
                obtain ⟨t1, h1, h2⟩ := hS.g3 e he
                exact ⟨t1, List.mem_append_left _ h1, h2⟩
              · intro e he
                rcases List.mem_append.1 he with h1 | h1
                · exact hS.g5 e h1
                · simp at h1; subst h1; exact ⟨t0, ht0, hnow⟩
              · intro hn; have hn' : s.firstPoll = none := hn; rw [ht0] at hn'; cases hn'
            · -- spurious wake-up of a wrapper still behind its `Delay`
              exact ih _ ⟨waitInv _ ⟨rfl, rfl, rfl, rfl, rfl, rfl, rfl, rfl, rfl, rfl, rfl⟩,
                ⟨hS.sub, hS.errSt, hS.winSt, hS.g0, hS.g1, hS.g2, hS.g3, hS.g5, hS.g7, hS.g8⟩⟩ hfp
          | pass s' =>
            simp only
            rcases gate_pass_cases s t q s' hg with ⟨hd0, he⟩ | ⟨hrel, he⟩ | ⟨hst, he⟩
            · -- fresh wrapper without delay: the dial is started now
              subst he
              refine full_pass_tail fuel ih _ t q ?_ ?_ hq hnone hfp
              · exact inv_coreEq s _ ⟨rfl, rfl, rfl, rfl, rfl, rfl, rfl, rfl, rfl, rfl, rfl⟩ hI
              · refine ⟨hS.sub, hS.errSt, hS.winSt, startedAt_map, ?_, ?_, ?_, ?_, hS.g7, ?_⟩
                · intro e he
                  obtain ⟨t1, h1, h2⟩ := hS.g1 e he
                  exact ⟨t1, List.mem_append_left _ h1, h2⟩
                · intro a ha
                  obtain ⟨t1, h1, h2⟩ := hS.g2 a ha
                  exact ⟨t1, List.mem_append_left _ h1, h2⟩
                · intro e he
                  rcases startedAt_cases e he with he' | rfl
                  · obtain ⟨t1, h1, h2⟩ := hS.g3 e he'
                    exact ⟨t1, List.mem_append_left _ h1, h2⟩
                  · refine ⟨s.now, List.mem_append_right _ (by simp), ?_⟩
                    show s.now + delayOf s t ≤ s.now
                    omega
                · intro e he
                  rcases List.mem_append.1 he with h1 | h1
                  · exact hS.g5 e h1
                  · simp at h1; subst h1; exact ⟨t0, ht0, hnow⟩
                · intro hn; have hn' : s.firstPoll = none := hn; rw [ht0] at hn'; cases hn'
            · -- the `Delay` has fired: the dial is started now
              subst he
              refine full_pass_tail fuel ih _ t q ?_ ?_ hq hnone hfp
              · exact inv_coreEq s _ ⟨rfl, rfl, rfl, rfl, rfl, rfl, rfl, rfl, rfl, rfl, rfl⟩ hI
              · refine ⟨hS.sub, hS.errSt, hS.winSt, startedAt_map, hS.g1, ?_, ?_, hS.g5, hS.g7, hS.g8⟩
                · intro a ha
                  exact hS.g2 a (List.mem_of_mem_erase ha)
                · intro e he
                  rcases startedAt_cases e he with he' | rfl
                  · exact hS.g3 e he'
                  · exact hS.g2 t hrel
            · -- an already started dial was woken by its completion
              rw [he]
              refine full_pass_tail fuel ih s t q hI ?_ hq hnone hfp
              have : startedWith s t = s.started := by unfold startedWith; rw [if_pos hst]
              rw [this]; exact hS

theorem full_poll (s : St) (h : Full s) : Full (poll s) := by
  unfold poll
  simp only
  cases hf : s.firstPoll with
  | some t0 =>
    simp only [Option.isSome_some, ↓reduceIte]
    exact full_pollLoop _ s h (by rw [hf]; rfl)
  | none =>
    simp only [Option.isSome_none, Bool.false_eq_true, ↓reduceIte]
    obtain ⟨hI, hS⟩ := h
    have hpa := hS.g8 hf
    refine full_pollLoop _ _ ⟨inv_coreEq s _ ⟨rfl, rfl, rfl, rfl, rfl, rfl, rfl, rfl, rfl, rfl, rfl⟩ hI, ?_⟩ rfl
    refine ⟨hS.sub, hS.errSt, hS.winSt, hS.g0, hS.g1, hS.g2, hS.g3, ?_, ?_, ?_⟩
    · intro e he
      have : e ∈ s.polledAt := he
      rw [hpa] at this; cases this
    · intro t0 h0
      have : s.now = t0 := by simpa using h0
      show t0 ≤ s.now
      omega
    · intro hn; cases hn

theorem full_complete (s : St) (i : Nat) (b : Bool) (h : Full s) : Full (complete s i b) := by
  refine ⟨inv_complete s i b h.inv, ?_⟩
  have hS := h.sinv
  unfold complete
  split
  · exact hS
  · split <;> exact ⟨hS.sub, hS.errSt, hS.winSt, hS.g0, hS.g1, hS.g2, hS.g3, hS.g5, hS.g7, hS.g8⟩

/-- one released wrapper, given a witness that its delay has elapsed -/
theorem full_release (s : St) (a : Nat) (h : Full s)
    (hw : ∃ t1, (a, t1) ∈ s.polledAt ∧ t1 + delayOf s a ≤ s.now) : Full (release s a) := by
  obtain ⟨hI, hS⟩ := h
  have hS1 : SInv { s with released := s.released ++ [a] } := by
    refine ⟨hS.sub, hS.errSt, hS.winSt, hS.g0, hS.g1, ?_, hS.g3, hS.g5, hS.g7, hS.g8⟩
    intro x hx
    rcases List.mem_append.1 hx with h1 | h1
    · exact hS.g2 x h1
    · simp at h1; subst h1; exact hw
  unfold release
  simp only
  split
  · rename_i hc
    simp only [Bool.and_eq_true, List.contains_eq_mem, decide_eq_true_eq, Bool.not_eq_eq_eq_not,
      Bool.not_true, decide_eq_false_iff_not] at hc
    refine ⟨?_, ⟨hS1.sub, hS1.errSt, hS1.winSt, hS1.g0, hS1.g1, hS1.g2, hS1.g3, hS1.g5, hS1.g7, hS1.g8⟩⟩
    exact { hI with
      qsub := by
        intro j hj
        rcases List.mem_append.1 hj with hj | hj
        · exact hI.qsub j hj
        · simp at hj; subst hj; exact hc.1
      qnodup := by
        show (s.queue ++ [a]).Nodup
        rw [List.nodup_append]
        refine ⟨hI.qnodup, by simp, ?_⟩
        intro x hx y hy
        simp at hy; subst hy
        intro hxy; subst hxy; exact hc.2 hx }
  · exact ⟨inv_coreEq s _ ⟨rfl, rfl, rfl, rfl, rfl, rfl, rfl, rfl, rfl, rfl, rfl⟩ hI, hS1⟩

theorem release_fields (s : St) (a : Nat) :
    (release s a).polledAt = s.polledAt ∧ (release s a).now = s.now ∧ (release s a).delays = s.delays := by
  unfold release; simp only; split <;> exact ⟨rfl, rfl, rfl⟩

theorem full_releaseAll (l : List Nat) (s : St) (h : Full s)
    (hw : ∀ a ∈ l, ∃ t1, (a, t1) ∈ s.polledAt ∧ t1 + delayOf s a ≤ s.now) : Full (l.foldl release s) := by
  induction l generalizing s with
  | nil => exact h
  | cons a r ih =>
    simp only [List.foldl_cons]
    apply ih _ (full_release s a h (hw a (by simp)))
    intro x hx
    obtain ⟨t1, h1, h2⟩ := hw x (by simp [hx])
    obtain ⟨e1, e2, e3⟩ := release_fields s a
    refine ⟨t1, by rw [e1]; exact h1, ?_⟩
    have : delayOf (release s a) x = delayOf s x := by unfold delayOf; rw [e3]
    rw [this, e2]; exact h2

theorem full_advance (s : St) (d : Nat) (h : Full s) : Full (advance s d) := by
  obtain ⟨hI, hS⟩ := h
  unfold advance
  split
  · refine ⟨inv_coreEq s _ ⟨rfl, rfl, rfl, rfl, rfl, rfl, rfl, rfl, rfl, rfl, rfl⟩ hI, ?_⟩
    refine ⟨hS.sub, hS.errSt, hS.winSt, hS.g0, hS.g1, ?_, hS.g3, hS.g5, ?_, hS.g8⟩
    · intro a ha
      obtain ⟨t1, h1, h2⟩ := hS.g2 a ha
      exact ⟨t1, h1, by show t1 + delayOf s a ≤ s.now + d; omega⟩
    · intro t0 h0; have := hS.g7 t0 h0; show t0 ≤ s.now + d; omega
  · apply full_releaseAll
    · refine ⟨inv_coreEq s _ ⟨rfl, rfl, rfl, rfl, rfl, rfl, rfl, rfl, rfl, rfl, rfl⟩ hI, ?_⟩
      refine ⟨hS.sub, hS.errSt, hS.winSt, hS.g0, ?_, ?_, hS.g3, hS.g5, ?_, hS.g8⟩
      · intro e he
        exact hS.g1 e (List.mem_filter.1 he).1
      · intro a ha
        obtain ⟨t1, h1, h2⟩ := hS.g2 a ha
        exact ⟨t1, h1, by show t1 + delayOf s a ≤ s.now + d; omega⟩
      · intro t0 h0; have := hS.g7 t0 h0; show t0 ≤ s.now + d; omega
    · intro a ha
      simp only [List.mem_map, List.mem_filter, decide_eq_true_eq] at ha
      obtain ⟨e, ⟨he, hdue⟩, rfl⟩ := ha
      obtain ⟨t1, h1, h2⟩ := hS.g1 e he
      exact ⟨t1, h1, by show t1 + delayOf s e.1 ≤ s.now + d; omega⟩

theorem full_step (s : St) (o : Op) (h : Full s) : Full (step s o).1 := by
  cases o with
  | complete i b => exact full_complete s i b h
  | poll => exact full_poll s h
  | adv d => exact full_advance s d h

theorem inv_step (s : St) (o : Op) (h : Full s) : Inv (step s o).1 := (full_step s o h).inv

theorem sinv_init (s : St) (h1 : s.started = []) (h2 : s.errors = []) (h3 : s.winner = none)
    (h4 : s.startedAt = []) (h5 : s.armed = []) (h6 : s.released = []) (h7 : s.polledAt = [])
    (h8 : s.firstPoll = none) : SInv s := by
  refine ⟨by rw [h1]; simp, by rw [h2]; simp, by rw [h3]; simp, by rw [h4, h1]; rfl, by rw [h5]; simp,
    by rw [h6]; simp, by rw [h4]; simp, by rw [h7]; simp, by rw [h8]; simp, fun _ => h7⟩

theorem full_new (n k : Nat) (hk : 0 < k) : Full (new n k) :=
  ⟨inv_new n k hk, sinv_init _ rfl rfl rfl rfl rfl rfl rfl rfl⟩

theorem full_newSmart (order : List Nat) (delays : List (Nat × Nat))
    (hp : order.Perm (allDials order.length)) : Full (newSmart order delays) := by
  refine ⟨?_, sinv_init _ rfl rfl rfl rfl rfl rfl rfl rfl⟩
  exact {
    kpos := by show 0 < max order.length 1; omega
    perm := by simpa [newSmart] using hp
    window := by show order.length ≤ max order.length 1; omega
    qsub := fun i hi => hi
    qnodup := hp.nodup_iff.2 (allDials_nodup _)
    refill := fun _ h => by simp [newSmart] at h ⊢
    startedNodup := by simp [newSmart]
    errOutcome := by simp [newSmart]
    winOutcome := by simp [newSmart]
    maxIn := by simp [newSmart]
    res := by simp [newSmart] }

/-- every state reachable from `ConcurrentDial::new(n dials, k)` by any interleaving of transport
outcomes (succeed / fail / stay pending, before or after the dial was started), clock advances and polls -/
def reach (n k : Nat) (ops : List Op) : St := Machine.exec step (new n k) ops

/-- … from `SmartDial::new` over dials pushed in `order` with the given ranked delays -/
def reachS (order : List Nat) (delays : List (Nat × Nat)) (ops : List Op) : St :=
  Machine.exec step (newSmart order delays) ops

theorem full_exec (s0 : St) (h : Full s0) (ops : List Op) : Full (Machine.exec step s0 ops) :=
  Machine.invariant_of_step step Full full_step ops _ h

theorem inv_reach (n k : Nat) (hk : 0 < k) (ops : List Op) : Inv (reach n k ops) :=
  (full_exec _ (full_new n k hk) ops).inv

/-! ## fields that never change -/
theorem startNext_nk (s : St) : (startNext s).n = s.n ∧ (startNext s).k = s.k ∧ (startNext s).delays = s.delays := by
  unfold startNext; split <;> exact ⟨rfl, rfl, rfl⟩

theorem pollLoop_nk (fuel : Nat) (s : St) :
    (pollLoop fuel s).n = s.n ∧ (pollLoop fuel s).k = s.k ∧ (pollLoop fuel s).delays = s.delays := by
  induction fuel generalizing s with
  | zero => exact ⟨rfl, rfl, rfl⟩
  | succ f ih =>
    unfold pollLoop
    split
    · exact ⟨rfl, rfl, rfl⟩
    split
    · exact ⟨rfl, rfl, rfl⟩
    split
    · exact ⟨rfl, rfl, rfl⟩
    rename_i t q _
    have tail : ∀ s' : St, s'.n = s.n → s'.k = s.k → s'.delays = s.delays →
        ((match outcomeOf s' t with
          | none => pollLoop f (deq s' t q)
          | some true => succeed (deq s' t q) t
          | some false => pollLoop f (startNext (fail (deq s' t q) t))).n = s.n ∧
         (match outcomeOf s' t with
          | none => pollLoop f (deq s' t q)
          | some true => succeed (deq s' t q) t
          | some false => pollLoop f (startNext (fail (deq s' t q) t))).k = s.k ∧
         (match outcomeOf s' t with
          | none => pollLoop f (deq s' t q)
          | some true => succeed (deq s' t q) t
          | some false => pollLoop f (startNext (fail (deq s' t q) t))).delays = s.delays) := by
      intro s' e1 e2 e3
      split
      · have := ih (deq s' t q); exact ⟨this.1.trans e1, this.2.1.trans e2, this.2.2.trans e3⟩
      · exact ⟨e1, e2, e3⟩
      · have := ih (startNext (fail (deq s' t q) t))
        have h2 := startNext_nk (fail (deq s' t q) t)
        exact ⟨(this.1.trans h2.1).trans e1, (this.2.1.trans h2.2.1).trans e2, (this.2.2.trans h2.2.2).trans e3⟩
    cases hg : gate s t q with
    | wait s' =>
      simp only
      rcases gate_wait_cases s t q s' hg with ⟨_, he⟩ | he <;> subst he <;> exact ih _
    | pass s' =>
      simp only
      rcases gate_pass_cases s t q s' hg with ⟨_, he⟩ | ⟨_, he⟩ | ⟨_, he⟩ <;> rw [he] <;> exact tail _ rfl rfl rfl

theorem step_nk (s : St) (o : Op) :
    (step s o).1.n = s.n ∧ (step s o).1.k = s.k ∧ (step s o).1.delays = s.delays := by
  cases o with
  | complete i b =>
    simp only [step, complete]
    split
    · exact ⟨rfl, rfl, rfl⟩
    · split <;> exact ⟨rfl, rfl, rfl⟩
  | poll =>
    simp only [step, poll]
    split <;> exact pollLoop_nk _ _
  | adv d =>
    simp only [step, advance]
    split
    · exact ⟨rfl, rfl, rfl⟩
    · generalize (List.map (fun x => x.1) (List.filter (fun e => decide (e.2 ≤ s.now + d)) s.armed)) = l
      have : ∀ (l : List Nat) (s' : St), (l.foldl release s').n = s'.n ∧ (l.foldl release s').k = s'.k ∧
          (l.foldl release s').delays = s'.delays := by
        intro l
        induction l with
        | nil => intro s'; exact ⟨rfl, rfl, rfl⟩
        | cons a r ih =>
          intro s'
          have h1 : (release s' a).n = s'.n ∧ (release s' a).k = s'.k ∧ (release s' a).delays = s'.delays := by
            unfold release; simp only; split <;> exact ⟨rfl, rfl, rfl⟩
          have := ih (release s' a)
          simp only [List.foldl_cons]
          exact ⟨this.1.trans h1.1, this.2.1.trans h1.2.1, this.2.2.trans h1.2.2⟩
      exact this l _

theorem exec_nk (s0 : St) (ops : List Op) :
    (Machine.exec step s0 ops).n = s0.n ∧ (Machine.exec step s0 ops).k = s0.k ∧
    (Machine.exec step s0 ops).delays = s0.delays := by
  induction ops generalizing s0 with
  | nil => exact ⟨rfl, rfl, rfl⟩
  | cons o r ih =>
    have h1 := step_nk s0 o
    have := ih (step s0 o).1
    simp only [Machine.exec, List.foldl_cons] at this ⊢
    exact ⟨this.1.trans h1.1, this.2.1.trans h1.2.1, this.2.2.trans h1.2.2⟩

theorem reach_nk (n k : Nat) (ops : List Op) : (reach n k ops).n = n ∧ (reach n k ops).k = k := by
  have := exec_nk (new n k) ops
  exact ⟨this.1, this.2.1⟩

/-! ## consequences of the invariant, for any reachable state -/

theorem nodupB_iff (l : List Nat) : nodupB l = true ↔ l.Nodup := by
  induction l with
  | nil => simp [nodupB]
  | cons a r ih => simp [nodupB, ih, List.nodup_cons]

theorem started_mem_all (s : St) (h : Full s) : ∀ i ∈ s.started, i ∈ allDials s.n := by
  intro i hi
  apply h.inv.perm.mem_iff.1
  rcases h.sinv.sub i hi with h1 | h1 | h1
  · simp [h1]
  · simp [h1]
  · simp [h1]

theorem window_of_full (s : St) (h : Full s) :
    s.inflight.length ≤ s.k ∧ (live s).length ≤ s.k ∧ s.maxIn ≤ s.k := by
  have := h.inv.window; have := h.inv.maxIn
  have : (live s).length ≤ s.inflight.length := List.length_filter_le _ _
  omega

theorem success_of_full (s : St) (h : Full s) (w : Nat) (es : List Nat) (hr : s.result = some (.ok w es)) :
    outcomeOf s w = some true ∧ w ∈ s.started ∧ es = s.errors ∧ es.Nodup ∧ w ∉ es ∧
    (∀ i ∈ es, outcomeOf s i = some false ∧ i ∈ s.started) := by
  have hres := h.inv.res
  rw [hr] at hres
  obtain ⟨hw, rfl⟩ := hres
  have hnd := h.inv.nodup
  rw [hw] at hnd
  simp only [Option.toList_some, List.append_assoc] at hnd
  have h3 : (s.errors ++ [w]).Nodup := by
    have := (List.nodup_append.1 hnd).2.1
    exact (List.nodup_append.1 this).2.1
  refine ⟨h.inv.winOutcome w hw, h.sinv.winSt w hw, rfl, (List.nodup_append.1 h3).1, ?_,
    fun i hi => ⟨h.inv.errOutcome i hi, h.sinv.errSt i hi⟩⟩
  intro hmem
  exact (List.nodup_append.1 h3).2.2 w hmem w (by simp) rfl

theorem failure_of_full (s : St) (h : Full s) (es : List Nat) (hr : s.result = some (.err es)) :
    es.Perm (allDials s.n) ∧ es = s.errors ∧ (∀ i ∈ es, outcomeOf s i = some false ∧ i ∈ s.started) ∧
    (∀ i ∈ s.started, i ∈ es) := by
  have hres := h.inv.res
  rw [hr] at hres
  obtain ⟨rfl, hin, hpe, hw⟩ := hres
  have hp := h.inv.perm
  rw [hin, hpe, hw] at hp
  refine ⟨by simpa using hp, rfl, fun i hi => ⟨h.inv.errOutcome i hi, h.sinv.errSt i hi⟩, ?_⟩
  intro i hi
  rcases h.sinv.sub i hi with h1 | h1 | h1
  · rw [hin] at h1; cases h1
  · exact h1
  · rw [hw] at h1; cases h1

/-- `never_before_delay`, state form: every recorded start happened at a time `t` with
`first poll + ranked delay ≤ t` -/
theorem never_before_delay_of_full (s : St) (h : Full s) :
    ∀ e ∈ s.startedAt, ∃ t0, s.firstPoll = some t0 ∧ t0 + delayOf s e.1 ≤ e.2 := by
  intro e he
  obtain ⟨t1, h1, h2⟩ := h.sinv.g3 e he
  obtain ⟨t0, h3, h4⟩ := h.sinv.g5 _ h1
  exact ⟨t0, h3, by simp only at h4; omega⟩

theorem gate_of_full (s : St) (h : Full s) : gateOk (delayOf s) s.firstPoll s.startedAt = true := by
  unfold gateOk
  rw [List.all_eq_true]
  intro e he
  obtain ⟨t0, h1, h2⟩ := never_before_delay_of_full s h e he
  rw [h1]; simpa using h2

theorem spec_of_full (s : St) (h : Full s) : specKey s.n s.k s.outcomes (obsOf s) = "" := by
  have hout : ∀ i, (s.outcomes.find? (fun x => x.1 == i)).map (fun x => x.2) = outcomeOf s i := fun _ => rfl
  obtain ⟨w1, w2, w3⟩ := window_of_full s h
  have hnd : nodupB s.started = true := (nodupB_iff _).2 h.inv.startedNodup
  have hrange : s.started.all (fun i => decide (1 ≤ i) && decide (i ≤ s.n)) = true := by
    rw [List.all_eq_true]
    intro i hi
    have := started_mem_all s h i hi
    simp only [allDials, List.mem_range'_1] at this
    simp only [Bool.and_eq_true, decide_eq_true_eq]; omega
  unfold specKey
  simp only [obsOf, hout]
  split
  · rename_i hc
    exfalso
    rw [Bool.or_eq_true] at hc
    rcases hc with h1 | h1
    · have := of_decide_eq_true h1; omega
    · have := of_decide_eq_true h1; omega
  split
  · rename_i hc
    exfalso
    rw [Bool.or_eq_true] at hc
    rcases hc with h1 | h1
    · rw [hnd] at h1; cases h1
    · rw [hrange] at h1; cases h1
  split
  · rfl
  · rename_i w es hr
    obtain ⟨a1, a2, a3, a4, _, a6⟩ := success_of_full s h w es hr
    have e1 : s.started.contains w = true := by simpa using a2
    have e2 : (es.all fun i => s.started.contains i && outcomeOf s i == some false) = true := by
      rw [List.all_eq_true]
      intro i hi
      have := a6 i hi
      simp [this.1, this.2]
    simp [e1, a1, e2, (nodupB_iff es).2 a4]
    rw [if_pos a2, if_neg]
    rintro ⟨x, hx, hx'⟩
    exact hx' (a6 x hx).2 (a6 x hx).1
  · rename_i es hr
    obtain ⟨b1, b2, b3, b4⟩ := failure_of_full s h es hr
    have hndE : es.Nodup := b1.nodup_iff.2 (allDials_nodup _)
    have e1 : (s.started.any fun i => outcomeOf s i == some true && !es.contains i) = false := by
      rw [List.any_eq_false]
      intro i hi
      have := b4 i hi
      simp [this]
    have e2 : (es.all fun i => outcomeOf s i == some false) = true := by
      rw [List.all_eq_true]; intro i hi; simp [(b3 i hi).1]
    have e3 : es.all s.started.contains = true := by
      rw [List.all_eq_true]; intro i hi; simpa using (b3 i hi).2
    have e4 : s.started.all es.contains = true := by
      rw [List.all_eq_true]; intro i hi; simpa using b4 i hi
    simp [e1, e2, e3, e4, (nodupB_iff es).2 hndE]
    intro x hx _
    exact b4 x hx

theorem pollLoop_resolved (fuel : Nat) (s : St) (h : s.result.isSome = true) : pollLoop fuel s = s := by
  cases fuel <;> simp [pollLoop, h]

/-- `none_after_finish`, step form: once the dial has resolved no op starts anything -/
theorem none_after_finish_step (s : St) (o : Op) (h : s.result.isSome = true) :
    (step s o).1.started = s.started ∧ (step s o).1.startedAt = s.startedAt ∧ (step s o).1.result = s.result := by
  cases o with
  | complete i b => simp [step, complete, h]
  | poll =>
    simp only [step, poll]
    split
    · rw [pollLoop_resolved _ _ h]; exact ⟨rfl, rfl, rfl⟩
    · rw [pollLoop_resolved _ _ (by exact h)]; exact ⟨rfl, rfl, rfl⟩
  | adv d => simp [step, advance, h]

/-! ## THE theorems: `ConcurrentDial` -/

/-- **C08.inflight_le_k** — at most `k` dials are in the `FuturesUnordered`, hence at most `k`
started-and-unfinished transport dials, in every reachable state; also the running maximum. -/
theorem inflight_le_k (n k : Nat) (hk : 0 < k) (ops : List Op) :
    (reach n k ops).inflight.length ≤ k ∧ (live (reach n k ops)).length ≤ k ∧ (reach n k ops).maxIn ≤ k := by
  have h := window_of_full _ (full_exec _ (full_new n k hk) ops)
  rw [show (Machine.exec step (new n k) ops).k = k from (reach_nk n k ops).2] at h
  exact h

/-- **C08.started_once** (= `at_most_once`) — every address is attempted at most once: the list of
started dials has no duplicates, and not-yet-started / in-flight / failed / winning dials partition the input. -/
theorem started_once (n k : Nat) (hk : 0 < k) (ops : List Op) :
    (reach n k ops).started.Nodup ∧
    ((reach n k ops).pending ++ (reach n k ops).inflight ++ (reach n k ops).errors
      ++ (reach n k ops).winner.toList).Perm (allDials n) := by
  have h := inv_reach n k hk ops
  have hp := h.perm
  rw [(reach_nk n k ops).1] at hp
  exact ⟨h.startedNodup, hp⟩

/-- **C08.success_sound** — `Ok(w, es)`: `w` was attempted and its transport dial succeeded; `es` are
exactly the dials that failed before, each attempted, each failed, no duplicates. -/
theorem success_sound (n k : Nat) (hk : 0 < k) (ops : List Op) (w : Nat) (es : List Nat)
    (hr : (reach n k ops).result = some (.ok w es)) :
    outcomeOf (reach n k ops) w = some true ∧ es = (reach n k ops).errors ∧ es.Nodup ∧ w ∉ es ∧
    ∀ i ∈ es, outcomeOf (reach n k ops) i = some false := by
  obtain ⟨a1, _, a3, a4, a5, a6⟩ := success_of_full _ (full_exec _ (full_new n k hk) ops) w es hr
  exact ⟨a1, a3, a4, a5, fun i hi => (a6 i hi).1⟩

/-- **C08.failure_reports_all** — `Err(es)`: every one of the `n` addresses was attempted and failed,
`es` lists each exactly once. -/
theorem failure_reports_all (n k : Nat) (hk : 0 < k) (ops : List Op) (es : List Nat)
    (hr : (reach n k ops).result = some (.err es)) :
    es.Perm (allDials n) ∧ ∀ i ∈ es, outcomeOf (reach n k ops) i = some false := by
  obtain ⟨b1, _, b3, _⟩ := failure_of_full _ (full_exec _ (full_new n k hk) ops) es hr
  rw [show (Machine.exec step (new n k) ops).n = n from (reach_nk n k ops).1] at b1
  exact ⟨b1, fun i hi => (b3 i hi).1⟩

theorem no_failure_after_success (n k : Nat) (hk : 0 < k) (ops : List Op) (es : List Nat) (i : Nat)
    (hi : i ∈ allDials n) (hr : (reach n k ops).result = some (.err es)) :
    outcomeOf (reach n k ops) i ≠ some true := by
  obtain ⟨hp, ho⟩ := failure_reports_all n k hk ops es hr
  have := ho i (hp.mem_iff.2 hi)
  rw [this]; simp

theorem resolves_when_empty (s : St) (fuel : Nat) (h1 : s.result = none) (h2 : s.inflight = []) :
    (pollLoop (fuel + 1) s).result = some (.err s.errors) := by
  simp [pollLoop, h1, h2]

/-! ## THE theorems: `SmartDial` (and, a fortiori, `ConcurrentDial` with all delays 0) -/

/-- **C08.never_before_delay** — for every history of outcomes, clock advances and polls of a
`SmartDial` over dials pushed in `order` with ranked delays `delays`: a dial recorded as started at
time `t` satisfies `t ≥ (time of the first poll) + (its ranked delay)`. -/
theorem never_before_delay (order : List Nat) (delays : List (Nat × Nat))
    (hp : order.Perm (allDials order.length)) (ops : List Op) :
    ∀ e ∈ (reachS order delays ops).startedAt,
      ∃ t0, (reachS order delays ops).firstPoll = some t0 ∧
        t0 + ((delays.find? (·.1 == e.1)).map (·.2)).getD 0 ≤ e.2 := by
  intro e he
  have h := full_exec _ (full_newSmart order delays hp) ops
  obtain ⟨t0, h1, h2⟩ := never_before_delay_of_full _ h e he
  refine ⟨t0, h1, ?_⟩
  have hd : (Machine.exec step (newSmart order delays) ops).delays = delays := (exec_nk _ ops).2.2
  unfold delayOf at h2
  rw [hd] at h2
  exact h2

/-- **C08.at_most_once** — the started list is duplicate-free and is exactly the list of recorded
starts: no dial is started twice, none without passing its gate. -/
theorem at_most_once (order : List Nat) (delays : List (Nat × Nat))
    (hp : order.Perm (allDials order.length)) (ops : List Op) :
    (reachS order delays ops).started.Nodup ∧
    (reachS order delays ops).startedAt.map (·.1) = (reachS order delays ops).started := by
  have h := full_exec _ (full_newSmart order delays hp) ops
  exact ⟨h.inv.startedNodup, h.sinv.g0⟩

/-- **C08.none_after_finish** — once the dial has resolved (success while delayed addresses are
still waiting included) no further op starts any dial, for any continuation of the history. -/
theorem none_after_finish (s0 : St) (ops more : List Op)
    (hres : (Machine.exec step s0 ops).result.isSome = true) :
    (Machine.exec step s0 (ops ++ more)).started = (Machine.exec step s0 ops).started ∧
    (Machine.exec step s0 (ops ++ more)).startedAt = (Machine.exec step s0 ops).startedAt := by
  have key : ∀ (more : List Op) (s : St), s.result.isSome = true →
      (Machine.exec step s more).started = s.started ∧ (Machine.exec step s more).startedAt = s.startedAt := by
    intro more
    induction more with
    | nil => intro s _; exact ⟨rfl, rfl⟩
    | cons o r ih =>
      intro s hs
      obtain ⟨e1, e2, e3⟩ := none_after_finish_step s o hs
      have := ih (step s o).1 (by rw [e3]; exact hs)
      simp only [Machine.exec, List.foldl_cons] at this ⊢
      exact ⟨this.1.trans e1, this.2.trans e2⟩
  have := key more (Machine.exec step s0 ops) hres
  simpa [Machine.exec, List.foldl_append] using this

/-- **C08.smart_once** — the success / failure clauses for `SmartDial`. -/
theorem smart_once (order : List Nat) (delays : List (Nat × Nat))
    (hp : order.Perm (allDials order.length)) (ops : List Op) :
    (reachS order delays ops).started.Nodup ∧
    (∀ es, (reachS order delays ops).result = some (.err es) → es.Perm (allDials order.length)) ∧
    (∀ w es, (reachS order delays ops).result = some (.ok w es) →
      outcomeOf (reachS order delays ops) w = some true ∧ w ∈ (reachS order delays ops).started) := by
  have h := full_exec _ (full_newSmart order delays hp) ops
  refine ⟨h.inv.startedNodup, ?_, ?_⟩
  · intro es hr
    have := (failure_of_full _ h es hr).1
    rw [show (Machine.exec step (newSmart order delays) ops).n = order.length from (exec_nk _ ops).1] at this
    exact this
  · intro w es hr
    obtain ⟨a1, a2, _⟩ := success_of_full _ h w es hr
    exact ⟨a1, a2⟩

/-- **C08.spec_accepts_model** — in every state reachable from `ConcurrentDial::new` or
`SmartDial::new` by any op history, the executable Spec (all static clauses and the delay-gate clause)
accepts the model's own observation: a Spec failure on the implementation can never be a false alarm
of the Spec relative to the model. -/
theorem spec_accepts_model (s0 : St) (h0 : Full s0) (ops : List Op) :
    specKey (Machine.exec step s0 ops).n (Machine.exec step s0 ops).k (Machine.exec step s0 ops).outcomes
      (obsOf (Machine.exec step s0 ops)) = "" ∧
    gateOk (delayOf (Machine.exec step s0 ops)) (Machine.exec step s0 ops).firstPoll
      (Machine.exec step s0 ops).startedAt = true :=
  ⟨spec_of_full _ (full_exec s0 h0 ops), gate_of_full _ (full_exec s0 h0 ops)⟩

theorem spec_accepts_model_concurrent (n k : Nat) (hk : 0 < k) (ops : List Op) :
    specKey n k (reach n k ops).outcomes (obsOf (reach n k ops)) = "" := by
  have := (spec_accepts_model (new n k) (full_new n k hk) ops).1
  rw [(exec_nk (new n k) ops).1, (exec_nk (new n k) ops).2.1] at this
  exact this

theorem spec_accepts_model_smart (order : List Nat) (delays : List (Nat × Nat))
    (hp : order.Perm (allDials order.length)) (ops : List Op) :
    specKey order.length (max order.length 1) (reachS order delays ops).outcomes (obsOf (reachS order delays ops)) = "" ∧
    gateOk (fun a => ((delays.find? (·.1 == a)).map (·.2)).getD 0) (reachS order delays ops).firstPoll
      (reachS order delays ops).startedAt = true := by
  have h := spec_accepts_model (newSmart order delays) (full_newSmart order delays hp) ops
  have e := exec_nk (newSmart order delays) ops
  refine ⟨?_, ?_⟩
  · have := h.1; rw [e.1, e.2.1] at this; exact this
  · have := h.2
    have hd : delayOf (Machine.exec step (newSmart order delays) ops)
        = fun a => ((delays.find? (·.1 == a)).map (·.2)).getD 0 := by
      funext a; unfold delayOf; rw [e.2.2]; rfl
    rw [hd] at this; exact this

/-! non-vacuity / examples -/
example : (poll (complete (complete (poll (new 3 2)) 1 false) 2 false)).started = [1, 2, 3] := by decide
example : (poll (complete (poll (complete (complete (poll (new 3 2)) 1 false) 2 false)) 3 false)).result
    = some (.err [1, 2, 3]) := by decide
example : (poll (complete (complete (poll (new 3 1)) 1 false) 2 true)).result = some (.ok 2 [1]) := by decide
/-- SmartDial: dial 2 (delay 250) is not started at 249 ms, is started at 250 ms; after dial 1 succeeds
dial 3 (delay 1000) never starts -/
example : (poll (advance (poll (newSmart [1, 2, 3] [(1, 0), (2, 250), (3, 1000)])) 249)).started = [1] := by decide
example : (poll (advance (poll (advance (poll (newSmart [1, 2, 3] [(1, 0), (2, 250), (3, 1000)])) 249)) 1)).started
    = [1, 2] := by decide
example : (poll (advance (poll (complete (poll (newSmart [1, 2, 3] [(1, 0), (2, 250), (3, 1000)])) 1 true)) 5000)).started
    = [1] := by decide

end C08

#print axioms C08.inflight_le_k
#print axioms C08.started_once
#print axioms C08.success_sound
#print axioms C08.failure_reports_all
#print axioms C08.no_failure_after_success
#print axioms C08.smart_once
#print axioms C08.resolves_when_empty
#print axioms C08.inv_reach
#print axioms C08.never_before_delay
#print axioms C08.at_most_once
#print axioms C08.none_after_finish
#print axioms C08.spec_accepts_model
#print axioms C08.spec_accepts_model_concurrent
#print axioms C08.spec_accepts_model_smart
