import Libp2pModel.Model.C08
/-!
# C08 — property theorems: concurrency window, attempted at most once, success/failure reporting
-/
namespace C08

/-- invariant of the dial state machine -/
structure Inv (s : St) : Prop where
  kpos : 0 < s.k
  perm : (s.pending ++ s.inflight ++ s.errors ++ s.winner.toList).Perm (allDials s.n)
  window : s.inflight.length ≤ s.k
  qsub : ∀ i ∈ s.queue, i ∈ s.inflight
  qnodup : s.queue.Nodup
  refill : s.winner = none → s.inflight = [] → s.pending = []
  startedNodup : s.started.Nodup
  errOutcome : ∀ i ∈ s.errors, outcomeOf s i = some false
  winOutcome : ∀ w, s.winner = some w → outcomeOf s w = some true
  maxIn : s.maxIn ≤ s.k
  res : match s.result with
    | none => s.winner = none
    | some (.ok w es) => s.winner = some w ∧ es = s.errors
    | some (.err es) => es = s.errors ∧ s.inflight = [] ∧ s.pending = [] ∧ s.winner = none

theorem allDials_nodup (n : Nat) : (allDials n).Nodup := by
  unfold allDials; exact List.nodup_range'

theorem Inv.nodup {s : St} (h : Inv s) : (s.pending ++ s.inflight ++ s.errors ++ s.winner.toList).Nodup :=
  h.perm.nodup_iff.2 (allDials_nodup s.n)

theorem inv_new (n k : Nat) (hk : 0 < k) : Inv (new n k) where
  kpos := hk
  perm := by
    simp only [new, Option.toList_none, List.append_nil]
    have h := (List.perm_append_comm : (List.drop k (allDials n) ++ List.take k (allDials n)).Perm _)
    rwa [List.take_append_drop] at h
  window := by simp [new]; omega
  qsub := by simp [new]
  qnodup := by
    simp only [new]
    exact (allDials_nodup n).sublist (List.take_sublist _ _)
  refill := by
    intro _ h
    simp only [new] at h ⊢
    have : (allDials n) = [] := by
      cases hl : allDials n with
      | nil => rfl
      | cons a r =>
        rw [hl] at h
        cases k with
        | zero => omega
        | succ k => simp at h
    simp [this]
  startedNodup := by simp [new]
  errOutcome := by simp [new]
  winOutcome := by simp [new]
  maxIn := by simp [new]
  res := by simp [new]

/-! ## `complete` -/
theorem outcomeOf_append (s : St) (i j : Nat) (b : Bool) (o : Bool) (h : outcomeOf s j = some o) :
    outcomeOf { s with outcomes := s.outcomes ++ [(i, b)] } j = some o := by
  unfold outcomeOf at *
  simp only [List.find?_append]
  cases hf : List.find? (fun x => x.1 == j) s.outcomes with
  | none => simp [hf] at h
  | some x => simpa [hf] using h

theorem inv_complete (s : St) (i : Nat) (b : Bool) (h : Inv s) : Inv (complete s i b) := by
  unfold complete
  split
  · exact h
  · have base : Inv { s with outcomes := s.outcomes ++ [(i, b)] } :=
      { h with
        errOutcome := fun j hj => outcomeOf_append s i j b false (h.errOutcome j hj)
        winOutcome := fun w hw => outcomeOf_append s i w b true (h.winOutcome w hw) }
    split
    · rename_i hc
      simp only [Bool.and_eq_true, List.contains_eq_mem, decide_eq_true_eq, Bool.not_eq_eq_eq_not,
        Bool.not_true, decide_eq_false_iff_not] at hc
      exact { base with
        qsub := by
          intro j hj
          rcases List.mem_append.1 hj with hj | hj
          · exact h.qsub j hj
          · simp at hj; subst hj; exact hc.1.2
        qnodup := by
          show (s.queue ++ [i]).Nodup
          rw [List.nodup_append]
          refine ⟨h.qnodup, by simp, ?_⟩
          intro a ha b' hb'
          simp at hb'; subst hb'
          intro hab; subst hab; exact hc.2 ha }
    · exact base

/-! ## `poll` -/
theorem inv_deq (s : St) (t : Nat) (q : List Nat) (h : Inv s) (hq : s.queue = t :: q) : Inv (deq s t q) := by
  have hqn : (t :: q).Nodup := hq ▸ h.qnodup
  have hlive : ∀ s' : St, s'.inflight = s.inflight → (live s').length ≤ s.k := by
    intro s' he
    have : (live s').length ≤ s'.inflight.length := List.length_filter_le _ _
    have := h.window; rw [he] at *; omega
  exact { h with
    qsub := fun i hi => h.qsub i (by rw [hq]; exact List.mem_cons_of_mem t (show i ∈ q from hi))
    qnodup := (List.nodup_cons.1 hqn).2
    startedNodup := by
      show (if s.started.contains t then s.started else s.started ++ [t]).Nodup
      split
      · exact h.startedNodup
      · rename_i hc
        rw [List.nodup_append]
        refine ⟨h.startedNodup, by simp, ?_⟩
        intro a ha b hb
        simp at hb; subst hb
        intro hab; subst hab
        exact hc (by simpa using ha)
    maxIn := by
      show max s.maxIn _ ≤ s.k
      have := hlive { s with queue := q, started := if s.started.contains t then s.started else s.started ++ [t] } rfl
      have := h.maxIn
      omega }

theorem erase_facts (s : St) (t : Nat) (h : Inv s) (ht : t ∈ s.inflight) :
    (s.inflight.erase t).length + 1 = s.inflight.length ∧
    (∀ (x : List Nat), (s.pending ++ s.inflight.erase t ++ (s.errors ++ [t]) ++ x).Perm
        (s.pending ++ s.inflight ++ s.errors ++ x)) := by
  constructor
  · rw [List.length_erase_of_mem ht]
    have : 0 < s.inflight.length := List.length_pos_of_mem ht
    omega
  · intro x
    have hp := List.perm_cons_erase ht
    refine List.Perm.append_right x ?_
    have h2 : (s.pending ++ s.inflight.erase t ++ (s.errors ++ [t])).Perm
        (s.pending ++ (t :: s.inflight.erase t) ++ s.errors) := by
      simp only [List.append_assoc]
      refine List.Perm.append_left _ ?_
      rw [← List.append_assoc]
      exact (List.perm_append_singleton t _).trans (by simp)
    exact h2.trans ((List.Perm.append_left _ hp.symm).append_right _)

theorem inv_succeed (s : St) (t : Nat) (h : Inv s) (ht : t ∈ s.inflight) (htq : t ∉ s.queue)
    (hw : s.winner = none) (ho : outcomeOf s t = some true) : Inv (succeed s t) := by
  obtain ⟨hlen, hperm⟩ := erase_facts s t h ht
  exact { h with
    perm := by
      show (s.pending ++ s.inflight.erase t ++ s.errors ++ [t]).Perm _
      have := h.perm
      rw [hw] at this
      simp only [Option.toList_none, List.append_nil] at this
      refine List.Perm.trans ?_ this
      have h2 := hperm []
      simp only [List.append_nil] at h2
      refine List.Perm.trans ?_ h2
      simp only [List.append_assoc]
      exact .refl _
    window := by have := h.window; show (s.inflight.erase t).length ≤ s.k; omega
    qsub := by
      intro i hi
      have hne : i ≠ t := fun he => htq (he ▸ hi)
      exact (List.mem_erase_of_ne hne).2 (h.qsub i hi)
    refill := by intro hc; simp [succeed] at hc
    winOutcome := by intro w hw'; simp [succeed] at hw'; subst hw'; exact ho
    res := ⟨rfl, rfl⟩ }

theorem inv_fail (s : St) (t : Nat) (h : Inv s) (ht : t ∈ s.inflight) (htq : t ∉ s.queue)
    (hres : s.result = none) (ho : outcomeOf s t = some false) : Inv (startNext (fail s t)) := by
  obtain ⟨hlen, hperm⟩ := erase_facts s t h ht
  have hw : s.winner = none := by have := h.res; rw [hres] at this; exact this
  have hq_erase : ∀ i ∈ s.queue, i ∈ s.inflight.erase t := by
    intro i hi
    have hne : i ≠ t := fun he => htq (he ▸ hi)
    exact (List.mem_erase_of_ne hne).2 (h.qsub i hi)
  have herr : ∀ i ∈ s.errors ++ [t], outcomeOf s i = some false := by
    intro i hi
    rcases List.mem_append.1 hi with hi | hi
    · exact h.errOutcome i hi
    · simp at hi; subst hi; exact ho
  unfold startNext
  split
  · rename_i hpend
    have hpend' : s.pending = [] := hpend
    exact { h with
      perm := (hperm _).trans h.perm
      window := by have := h.window; show (s.inflight.erase t).length ≤ s.k; omega
      qsub := hq_erase
      refill := fun _ _ => hpend'
      errOutcome := herr
      res := by have := h.res; rw [hres] at this; simp only [fail, hres]; exact this }
  · rename_i j r hpend
    have hpend' : s.pending = j :: r := hpend
    have hjp : j ∈ s.pending := by rw [hpend']; simp
    have hj_notin : j ∉ s.inflight := by
      intro hj
      have := h.nodup
      simp only [List.append_assoc] at this
      rw [List.nodup_append] at this
      exact this.2.2 j hjp j (by simp [hj]) rfl
    exact { h with
      perm := by
        show (r ++ (s.inflight.erase t ++ [j]) ++ (s.errors ++ [t]) ++ s.winner.toList).Perm _
        refine List.Perm.trans ?_ ((hperm _).trans h.perm)
        rw [hpend']
        refine List.Perm.append_right _ (List.Perm.append_right _ ?_)
        have : (r ++ (s.inflight.erase t ++ [j])).Perm (j :: (r ++ s.inflight.erase t)) := by
          rw [← List.append_assoc]; exact List.perm_append_singleton j _
        simpa using this
      window := by
        have := h.window
        show (s.inflight.erase t ++ [j]).length ≤ s.k
        simp; omega
      qsub := by
        intro i hi
        rcases List.mem_append.1 hi with hi | hi
        · exact List.mem_append_left _ (hq_erase i hi)
        · exact List.mem_append_right _ hi
      qnodup := by
        show (s.queue ++ [j]).Nodup
        rw [List.nodup_append]
        refine ⟨h.qnodup, by simp, ?_⟩
        intro a ha b hb
        simp at hb; subst hb
        intro hab; subst hab
        exact hj_notin (h.qsub a ha)
      refill := by intro _ hc; simp at hc
      errOutcome := herr
      res := by have := h.res; rw [hres] at this; simp only [fail, hres]; exact this }

/-! ## the delay gate and the start bookkeeping -/

/-- `s'` differs from `s` only in the gate bookkeeping (`fresh`, `armed`, `released`, ghosts) -/
def CoreEq (s s' : St) : Prop :=
  s'.k = s.k ∧ s'.n = s.n ∧ s'.pending = s.pending ∧ s'.inflight = s.inflight ∧ s'.queue = s.queue ∧
  s'.outcomes = s.outcomes ∧ s'.started = s.started ∧ s'.errors = s.errors ∧ s'.winner = s.winner ∧
  s'.result = s.result ∧ s'.maxIn = s.maxIn

theorem outcomeOf_congr (s s' : St) (h : s'.outcomes = s.outcomes) (i : Nat) : outcomeOf s' i = outcomeOf s i := by
  unfold outcomeOf; rw [h]

theorem inv_coreEq (s s' : St) (e : CoreEq s s') (h : Inv s) : Inv s' := by
  obtain ⟨e1, e2, e3, e4, e5, e6, e7, e8, e9, e10, e11⟩ := e
  refine ⟨by rw [e1]; exact h.kpos, by rw [e3, e4, e8, e9, e2]; exact h.perm, by rw [e4, e1]; exact h.window,
    by rw [e5, e4]; exact h.qsub, by rw [e5]; exact h.qnodup, by rw [e9, e4, e3]; exact h.refill,
    by rw [e7]; exact h.startedNodup, ?_, ?_, by rw [e11, e1]; exact h.maxIn, ?_⟩
  · intro i hi; rw [outcomeOf_congr s s' e6]; exact h.errOutcome i (e8 ▸ hi)
  · intro w hw; rw [outcomeOf_congr s s' e6]; exact h.winOutcome w (e9 ▸ hw)
  · rw [e10]
    have := h.res
    cases hr : s.result with
    | none => rw [hr] at this; simp only; rw [e9]; exact this
    | some r =>
      rw [hr] at this
      cases r with
      | ok w es => simp only at this ⊢; rw [e9, e8]; exact this
      | err es => simp only at this ⊢; rw [e8, e4, e3, e9]; exact this

/-- start bookkeeping; `st` is the started list the ghost `startedAt` must describe -/
structure SInvP (s : St) (st : List Nat) : Prop where
  sub : ∀ i ∈ s.started, i ∈ s.inflight ∨ i ∈ s.errors ∨ s.winner = some i
  errSt : ∀ i ∈ s.errors, i ∈ s.started
  winSt : ∀ w, s.winner = some w → w ∈ s.started
  g0 : s.startedAt.map (·.1) = st
  g1 : ∀ e ∈ s.armed, ∃ t1, (e.1, t1) ∈ s.polledAt ∧ t1 + delayOf s e.1 ≤ e.2
  g2 : ∀ a ∈ s.released, ∃ t1, (a, t1) ∈ s.polledAt ∧ t1 + delayOf s a ≤ s.now
  g3 : ∀ e ∈ s.startedAt, ∃ t1, (e.1, t1) ∈ s.polledAt ∧ t1 + delayOf s e.1 ≤ e.2
  g5 : ∀ e ∈ s.polledAt, ∃ t0, s.firstPoll = some t0 ∧ t0 ≤ e.2
  g7 : ∀ t0, s.firstPoll = some t0 → t0 ≤ s.now
  g8 : s.firstPoll = none → s.polledAt = []

abbrev SInv (s : St) : Prop := SInvP s s.started

/-- the started list after polling dial `t` -/
def startedWith (s : St) (t : Nat) : List Nat := if s.started.contains t then s.started else s.started ++ [t]

theorem sinv_deq (s : St) (t : Nat) (q : List Nat) (h : SInvP s (startedWith s t)) (ht : t ∈ s.inflight) :
    SInv (deq s t q) ∧ t ∈ (deq s t q).started := by
  have hst : (deq s t q).started = startedWith s t := rfl
  have hmem : ∀ i, i ∈ startedWith s t ↔ i ∈ s.started ∨ i = t := by
    intro i; unfold startedWith
    split
    · rename_i hc
      have : t ∈ s.started := by simpa using hc
      constructor
      · exact Or.inl
      · rintro (h | rfl) <;> assumption
    · simp
  refine ⟨⟨?_, ?_, ?_, ?_, h.g1, h.g2, h.g3, h.g5, h.g7, h.g8⟩, ?_⟩
  · intro i hi
    rw [hst, hmem] at hi
    rcases hi with hi | rfl
    · exact h.sub i hi
    · exact Or.inl ht
  · intro i hi; rw [hst, hmem]; exact Or.inl (h.errSt i hi)
  · intro w hw; rw [hst, hmem]; exact Or.inl (h.winSt w hw)
  · rw [hst]; exact h.g0
  · rw [hst, hmem]; exact Or.inr rfl

theorem sinv_succeed (s : St) (t : Nat) (h : SInv s) (hw : s.winner = none) (ht : t ∈ s.started) :
    SInv (succeed s t) := by
  refine ⟨?_, h.errSt, ?_, h.g0, h.g1, h.g2, h.g3, h.g5, h.g7, h.g8⟩
  · intro i hi
    by_cases hit : i = t
    · exact Or.inr (Or.inr (by rw [hit]; rfl))
    · rcases h.sub i hi with h1 | h1 | h1
      · exact Or.inl ((List.mem_erase_of_ne hit).2 h1)
      · exact Or.inr (Or.inl h1)
      · rw [hw] at h1; cases h1
  · intro w hw'
    have : w = t := by simpa [succeed] using hw'.symm
    rw [this]; exact ht

theorem sinv_fail (s : St) (t : Nat) (h : SInv s) (ht : t ∈ s.started) : SInv (fail s t) := by
  refine ⟨?_, ?_, h.winSt, h.g0, h.g1, h.g2, h.g3, h.g5, h.g7, h.g8⟩
  · intro i hi
    by_cases hit : i = t
    · exact Or.inr (Or.inl (by rw [hit]; show t ∈ s.errors ++ [t]; simp))
    · rcases h.sub i hi with h1 | h1 | h1
      · exact Or.inl ((List.mem_erase_of_ne hit).2 h1)
      · exact Or.inr (Or.inl (List.mem_append_left _ h1))
      · exact Or.inr (Or.inr h1)
  · intro i hi
    rcases List.mem_append.1 hi with h1 | h1
    · exact h.errSt i h1
    · simp at h1; rw [h1]; exact ht

theorem sinv_startNext (s : St) (h : SInv s) : SInv (startNext s) := by
  unfold startNext
  split
  · exact h
  · refine ⟨?_, h.errSt, h.winSt, h.g0, h.g1, h.g2, h.g3, h.g5, h.g7, h.g8⟩
    intro i hi
    rcases h.sub i hi with h1 | h1 | h1
    · exact Or.inl (List.mem_append_left _ h1)
    · exact Or.inr (Or.inl h1)
    · exact Or.inr (Or.inr h1)

theorem startNext_started (s : St) : (startNext s).started = s.started := by
  unfold startNext; split <;> rfl

/-- invariant of the whole machine -/
structure Full (s : St) : Prop where
  inv : Inv s
  sinv : SInv s

/-- the tail of one loop iteration once the dial future of `t` is reached -/
theorem full_pass_tail (fuel : Nat) (ih : ∀ s : St, Full s → s.firstPoll.isSome = true → Full (pollLoop fuel s))
    (s : St) (t : Nat) (q : List Nat) (hI : Inv s) (hS : SInvP s (startedWith s t)) (hq : s.queue = t :: q)
    (hres : s.result = none) (hfp : s.firstPoll.isSome = true) :
    Full (match outcomeOf s t with
      | none => pollLoop fuel (deq s t q)
      | some true => succeed (deq s t q) t
      | some false => pollLoop fuel (startNext (fail (deq s t q) t))) := by
  have hw : s.winner = none := by have := hI.res; rw [hres] at this; exact this
  have hd := inv_deq s t q hI hq
  have hqn : (t :: q).Nodup := hq ▸ hI.qnodup
  have htin : t ∈ (deq s t q).inflight := hI.qsub t (by rw [hq]; simp)
  have htq : t ∉ (deq s t q).queue := (List.nodup_cons.1 hqn).1
  obtain ⟨hsd, hts⟩ := sinv_deq s t q hS htin
  split
  · exact ih _ ⟨hd, hsd⟩ hfp
  · rename_i ho
    exact ⟨inv_succeed _ t hd htin htq hw ho, sinv_succeed _ t hsd hw hts⟩
  · rename_i ho
    refine ih _ ⟨inv_fail _ t hd htin htq hres ho, sinv_startNext _ (sinv_fail _ t hsd hts)⟩ ?_
    have : (startNext (fail (deq s t q) t)).firstPoll = s.firstPoll := by
      unfold startNext; split <;> rfl
    rw [this]; exact hfp

/-- the states `gate` can produce -/
def armSt (s : St) (t : Nat) (q : List Nat) : St :=
  { s with queue := q, fresh := s.fresh.erase t, polledAt := s.polledAt ++ [(t, s.now)], armed := s.armed ++ [(t, s.now + delayOf s t)] }
def markStarted (s : St) (t : Nat) : List (Nat × Nat) :=
  if s.started.contains t then s.startedAt else s.startedAt ++ [(t, s.now)]
def passFreshSt (s : St) (t : Nat) : St :=
  { s with fresh := s.fresh.erase t, polledAt := s.polledAt ++ [(t, s.now)], startedAt := markStarted s t }
def passRelSt (s : St) (t : Nat) : St :=
  { s with released := s.released.erase t, startedAt := markStarted s t }

theorem gate_wait_cases (s : St) (t : Nat) (q : List Nat) (s' : St) (hg : gate s t q = .wait s') :
    (delayOf s t ≠ 0 ∧ s' = armSt s t q) ∨ (s' = { s with queue := q }) := by
  unfold gate at hg
  split at hg
  · split at hg
    · cases hg
    · rename_i hd
      injection hg with e
      exact Or.inl ⟨by simpa using hd, e.symm⟩
  · split at hg
    · cases hg
    · split at hg
      · cases hg
      · injection hg with e
        exact Or.inr e.symm

theorem gate_pass_cases (s : St) (t : Nat) (q : List Nat) (s' : St) (hg : gate s t q = .pass s') :
    (delayOf s t = 0 ∧ s' = passFreshSt s t) ∨ (t ∈ s.released ∧ s' = passRelSt s t) ∨
    (s.started.contains t = true ∧ s' = s) := by
  unfold gate at hg
  split at hg
  · split at hg
    · rename_i hd
      injection hg with e
      exact Or.inl ⟨by simpa using hd, e.symm⟩
    · cases hg
  · split at hg
    · rename_i hr
      injection hg with e
      exact Or.inr (Or.inl ⟨by simpa using hr, e.symm⟩)
    · split at hg
      · rename_i hst
        injection hg with e
        exact Or.inr (Or.inr ⟨hst, e.symm⟩)
      · cases hg

theorem full_pollLoop (fuel : Nat) (s : St) (h : Full s) (hfp : s.firstPoll.isSome = true) :
    Full (pollLoop fuel s) := by
  induction fuel generalizing s with
  | zero => exact h
  | succ fuel ih =>
    obtain ⟨hI, hS⟩ := h
    unfold pollLoop
    split
    · exact ⟨hI, hS⟩
    · rename_i hres
      have hnone : s.result = none := by simpa using hres
      have hw : s.winner = none := by have := hI.res; rw [hnone] at this; exact this
      split
      · rename_i hemp
        have hemp' : s.inflight = [] := by simpa using hemp
        exact ⟨{ hI with res := by simp [hemp', hI.refill hw hemp', hw] },
          ⟨hS.sub, hS.errSt, hS.winSt, hS.g0, hS.g1, hS.g2, hS.g3, hS.g5, hS.g7, hS.g8⟩⟩
      · split
        · exact ⟨hI, hS⟩
        · rename_i t q hq
          obtain ⟨t0, ht0⟩ := Option.isSome_iff_exists.1 hfp
          have hnow := hS.g7 t0 ht0
          have hqn : (t :: q).Nodup := hq ▸ hI.qnodup
          -- the wrapper stays pending: only the queue (and gate bookkeeping) changes
          have waitInv : ∀ s' : St, CoreEq { s with queue := q } s' → Inv s' := by
            intro s' e
            refine inv_coreEq _ s' e ?_
            exact { hI with
              qsub := fun i hi => hI.qsub i (by rw [hq]; exact List.mem_cons_of_mem t (show i ∈ q from hi))
              qnodup := (List.nodup_cons.1 hqn).2 }
          have startedAt_cases : ∀ e, e ∈ markStarted s t → e ∈ s.startedAt ∨ e = (t, s.now) := by
            intro e he
            unfold markStarted at he
            split at he
            · exact Or.inl he
            · simpa using he
          have startedAt_map : (markStarted s t).map (·.1) = startedWith s t := by
            unfold startedWith markStarted
            split
            · exact hS.g0
            · simp [hS.g0]
          cases hg : gate s t q with
          | wait s' =>
            simp only
            rcases gate_wait_cases s t q s' hg with ⟨_, he⟩ | he <;> subst he
            · -- fresh wrapper with a delay: the `Delay` is armed, the wrapper stays pending
              refine ih _ ⟨waitInv _ ⟨rfl, rfl, rfl, rfl, rfl, rfl, rfl, rfl, rfl, rfl, rfl⟩, ?_⟩ hfp
              refine ⟨hS.sub, hS.errSt, hS.winSt, hS.g0, ?_, ?_, ?_, ?_, hS.g7, ?_⟩
              · intro e he
                rcases List.mem_append.1 he with h1 | h1
                · obtain ⟨t1, h1', h2⟩ := hS.g1 e h1
                  exact ⟨t1, List.mem_append_left _ h1', h2⟩
                · simp at h1; subst h1
                  exact ⟨s.now, List.mem_append_right _ (by simp), Nat.le_refl _⟩
              · intro a ha
                obtain ⟨t1, h1, h2⟩ := hS.g2 a ha
                exact ⟨t1, List.mem_append_left _ h1, h2⟩
              · intro e he
                obtain ⟨t1, h1, h2⟩ := hS.g3 e he
                exact ⟨t1, List.mem_append_left _ h1, h2⟩
              · intro e he
                rcases List.mem_append.1 he with h1 | h1
                · exact hS.g5 e h1
                · simp at h1; subst h1; exact ⟨t0, ht0, hnow⟩
              · intro hn; have hn' : s.firstPoll = none := hn; rw [ht0] at hn'; cases hn'
            · -- spurious wake-up of a wrapper still behind its `Delay`
              exact ih _ ⟨waitInv _ ⟨rfl, rfl, rfl, rfl, rfl, rfl, rfl, rfl, rfl, rfl, rfl⟩,
                ⟨hS.sub, hS.errSt, hS.winSt, hS.g0, hS.g1, hS.g2, hS.g3, hS.g5, hS.g7, hS.g8⟩⟩ hfp
          | pass s' =>
            simp only
            rcases gate_pass_cases s t q s' hg with ⟨hd0, he⟩ | ⟨hrel, he⟩ | ⟨hst, he⟩
            · -- fresh wrapper without delay: the dial is started now
              subst he
              refine full_pass_tail fuel ih _ t q ?_ ?_ hq hnone hfp
              · exact inv_coreEq s _ ⟨rfl, rfl, rfl, rfl, rfl, rfl, rfl, rfl, rfl, rfl, rfl⟩ hI
              · refine ⟨hS.sub, hS.errSt, hS.winSt, startedAt_map, ?_, ?_, ?_, ?_, hS.g7, ?_⟩
                · intro e he
                  obtain ⟨t1, h1, h2⟩ := hS.g1 e he
                  exact ⟨t1, List.mem_append_left _ h1, h2⟩
                · intro a ha
                  obtain ⟨t1, h1, h2⟩ := hS.g2 a ha
                  exact ⟨t1, List.mem_append_left _ h1, h2⟩
                · intro e he
                  rcases startedAt_cases e he with he' | rfl
                  · obtain ⟨t1, h1, h2⟩ := hS.g3 e he'
                    exact ⟨t1, List.mem_append_left _ h1, h2⟩
                  · refine ⟨s.now, List.mem_append_right _ (by simp), ?_⟩
                    show s.now + delayOf s t ≤ s.now
                    omega
                · intro e he
                  rcases List.mem_append.1 he with h1 | h1
                  · exact hS.g5 e h1
                  · simp at h1; subst h1; exact ⟨t0, ht0, hnow⟩
                · intro hn; have hn' : s.firstPoll = none := hn; rw [ht0] at hn'; cases hn'
            · -- the `Delay` has fired: the dial is started now
              subst he
              refine full_pass_tail fuel ih _ t q ?_ ?_ hq hnone hfp
              · exact inv_coreEq s _ ⟨rfl, rfl, rfl, rfl, rfl, rfl, rfl, rfl, rfl, rfl, rfl⟩ hI
              · refine ⟨hS.sub, hS.errSt, hS.winSt, startedAt_map, hS.g1, ?_, ?_, hS.g5, hS.g7, hS.g8⟩
                · intro a ha
                  exact hS.g2 a (List.mem_of_mem_erase ha)
                · intro e he
                  rcases startedAt_cases e he with he' | rfl
                  · exact hS.g3 e he'
                  · exact hS.g2 t hrel
            · -- an already started dial was woken by its completion
              rw [he]
              refine full_pass_tail fuel ih s t q hI ?_ hq hnone hfp
              have : startedWith s t = s.started := by unfold startedWith; rw [if_pos hst]
              rw [this]; exact hS

theorem full_poll (s : St) (h : Full s) : Full (poll s) := by
  unfold poll
  simp only
  cases hf : s.firstPoll with
  | some t0 =>
    simp only [Option.isSome_some, ↓reduceIte]
    exact full_pollLoop _ s h (by rw [hf]; rfl)
  | none =>
    simp only [Option.isSome_none, Bool.false_eq_true, ↓reduceIte]
    obtain ⟨hI, hS⟩ := h
    have hpa := hS.g8 hf
    refine full_pollLoop _ _ ⟨inv_coreEq s _ ⟨rfl, rfl, rfl, rfl, rfl, rfl, rfl, rfl, rfl, rfl, rfl⟩ hI, ?_⟩ rfl
    refine ⟨hS.sub, hS.errSt, hS.winSt, hS.g0, hS.g1, hS.g2, hS.g3, ?_, ?_, ?_⟩
    · intro e he
      have : e ∈ s.polledAt := he
      rw [hpa] at this; cases this
    · intro t0 h0
      have : s.now = t0 := by simpa using h0
      show t0 ≤ s.now
      omega
    · intro hn; cases hn

theorem full_complete (s : St) (i : Nat) (b : Bool) (h : Full s) : Full (complete s i b) := by
  refine ⟨inv_complete s i b h.inv, ?_⟩
  have hS := h.sinv
  unfold complete
  split
  · exact hS
  · split <;> exact ⟨hS.sub, hS.errSt, hS.winSt, hS.g0, hS.g1, hS.g2, hS.g3, hS.g5, hS.g7, hS.g8⟩

/-- one released wrapper, given a witness that its delay has elapsed -/
theorem full_release (s : St) (a : Nat) (h : Full s)
    (hw : ∃ t1, (a, t1) ∈ s.polledAt ∧ t1 + delayOf s a ≤ s.now) : Full (release s a) := by
  obtain ⟨hI, hS⟩ := h
  have hS1 : SInv { s with released := s.released ++ [a] } := by
    refine ⟨hS.sub, hS.errSt, hS.winSt, hS.g0, hS.g1, ?_, hS.g3, hS.g5, hS.g7, hS.g8⟩
    intro x hx
    rcases List.mem_append.1 hx with h1 | h1
    · exact hS.g2 x h1
    · simp at h1; subst h1; exact hw
  unfold release
  simp only
  split
  · rename_i hc
    simp only [Bool.and_eq_true, List.contains_eq_mem, decide_eq_true_eq, Bool.not_eq_eq_eq_not,
      Bool.not_true, decide_eq_false_iff_not] at hc
    refine ⟨?_, ⟨hS1.sub, hS1.errSt, hS1.winSt, hS1.g0, hS1.g1, hS1.g2, hS1.g3, hS1.g5, hS1.g7, hS1.g8⟩⟩
    exact { hI with
      qsub := by
        intro j hj
        rcases List.mem_append.1 hj with hj | hj
        · exact hI.qsub j hj
        · simp at hj; subst hj; exact hc.1
      qnodup := by
        show (s.queue ++ [a]).Nodup
        rw [List.nodup_append]
        refine ⟨hI.qnodup, by simp, ?_⟩
        intro x hx y hy
        simp at hy; subst hy
        intro hxy; subst hxy; exact hc.2 hx }
  · exact ⟨inv_coreEq s _ ⟨rfl, rfl, rfl, rfl, rfl, rfl, rfl, rfl, rfl, rfl, rfl⟩ hI, hS1⟩

theorem release_fields (s : St) (a : Nat) :
    (release s a).polledAt = s.polledAt ∧ (release s a).now = s.now ∧ (release s a).delays = s.delays := by
  unfold release; simp only; split <;> exact ⟨rfl, rfl, rfl⟩

theorem full_releaseAll (l : List Nat) (s : St) (h : Full s)
    (hw : ∀ a ∈ l, ∃ t1, (a, t1) ∈ s.polledAt ∧ t1 + delayOf s a ≤ s.now) : Full (l.foldl release s) := by
  induction l generalizing s with
  | nil => exact h
  | cons a r ih =>
    simp only [List.foldl_cons]
    apply ih _ (full_release s a h (hw a (by simp)))
    intro x hx
    obtain ⟨t1, h1, h2⟩ := hw x (by simp [hx])
    obtain ⟨e1, e2, e3⟩ := release_fields s a
    refine ⟨t1, by rw [e1]; exact h1, ?_⟩
    have : delayOf (release s a) x = delayOf s x := by unfold delayOf; rw [e3]
    rw [this, e2]; exact h2

theorem full_advance (s : St) (d : Nat) (h : Full s) : Full (advance s d) := by
  obtain ⟨hI, hS⟩ := h
  unfold advance
  split
  · refine ⟨inv_coreEq s _ ⟨rfl, rfl, rfl, rfl, rfl, rfl, rfl, rfl, rfl, rfl, rfl⟩ hI, ?_⟩
    refine ⟨hS.sub, hS.errSt, hS.winSt, hS.g0, hS.g1, ?_, hS.g3, hS.g5, ?_, hS.g8⟩
    · intro a ha
      obtain ⟨t1, h1, h2⟩ := hS.g2 a ha
      exact ⟨t1, h1, by show t1 + delayOf s a ≤ s.now + d; omega⟩
    · intro t0 h0; have := hS.g7 t0 h0; show t0 ≤ s.now + d; omega
  · apply full_releaseAll
    · refine ⟨inv_coreEq s _ ⟨rfl, rfl, rfl, rfl, rfl, rfl, rfl, rfl, rfl, rfl, rfl⟩ hI, ?_⟩
      refine ⟨hS.sub, hS.errSt, hS.winSt, hS.g0, ?_, ?_, hS.g3, hS.g5, ?_, hS.g8⟩
      · intro e he
        exact hS.g1 e (List.mem_filter.1 he).1
      · intro a ha
        obtain ⟨t1, h1, h2⟩ := hS.g2 a ha
        exact ⟨t1, h1, by show t1 + delayOf s a ≤ s.now + d; omega⟩
      · intro t0 h0; have := hS.g7 t0 h0; show t0 ≤ s.now + d; omega
    · intro a ha
      simp only [List.mem_map, List.mem_filter, decide_eq_true_eq] at ha
      obtain ⟨e, ⟨he, hdue⟩, rfl⟩ := ha
      obtain ⟨t1, h1, h2⟩ := hS.g1 e he
      exact ⟨t1, h1, by show t1 + delayOf s e.1 ≤ s.now + d; omega⟩

theorem full_step (s : St) (o : Op) (h : Full s) : Full (step s o).1 := by
  cases o with
  | complete i b => exact full_complete s i b h
  | poll => exact full_poll s h
  | adv d => exact full_advance s d h

theorem inv_step (s : St) (o : Op) (h : Full s) : Inv (step s o).1 := (full_step s o h).inv

theorem sinv_init (s : St) (h1 : s.started = []) (h2 : s.errors = []) (h3 : s.winner = none)
    (h4 : s.startedAt = []) (h5 : s.armed = []) (h6 : s.released = []) (h7 : s.polledAt = [])
    (h8 : s.firstPoll = none) : SInv s := by
  refine ⟨by rw [h1]; simp, by rw [h2]; simp, by rw [h3]; simp, by rw [h4, h1]; rfl, by rw [h5]; simp,
    by rw [h6]; simp, by rw [h4]; simp, by rw [h7]; simp, by rw [h8]; simp, fun _ => h7⟩

theorem full_new (n k : Nat) (hk : 0 < k) : Full (new n k) :=
  ⟨inv_new n k hk, sinv_init _ rfl rfl rfl rfl rfl rfl rfl rfl⟩

theorem full_newSmart (order : List Nat) (delays : List (Nat × Nat))
    (hp : order.Perm (allDials order.length)) : Full (newSmart order delays) := by
  refine ⟨?_, sinv_init _ rfl rfl rfl rfl rfl rfl rfl rfl⟩
  exact {
    kpos := by show 0 < max order.length 1; omega
    perm := by simpa [newSmart] using hp
    window := by show order.length ≤ max order.length 1; omega
    qsub := fun i hi => hi
    qnodup := hp.nodup_iff.2 (allDials_nodup _)
    refill := fun _ h => by simp [newSmart] at h ⊢
    startedNodup := by simp [newSmart]
    errOutcome := by simp [newSmart]
    winOutcome := by simp [newSmart]
    maxIn := by simp [newSmart]
    res := by simp [newSmart] }

/-- every state reachable from `ConcurrentDial::new(n dials, k)` by any interleaving of transport
outcomes (succeed / fail / stay pending, before or after the dial was started), clock advances and polls -/
def reach (n k : Nat) (ops : List Op) : St := Machine.exec step (new n k) ops

/-- … from `SmartDial::new` over dials pushed in `order` with the given ranked delays -/
def reachS (order : List Nat) (delays : List (Nat × Nat)) (ops : List Op) : St :=
  Machine.exec step (newSmart order delays) ops

theorem full_exec (s0 : St) (h : Full s0) (ops : List Op) : Full (Machine.exec step s0 ops) :=
  Machine.invariant_of_step step Full full_step ops _ h

theorem inv_reach (n k : Nat) (hk : 0 < k) (ops : List Op) : Inv (reach n k ops) :=
  (full_exec _ (full_new n k hk) ops).inv

/-! ## fields that never change -/
theorem startNext_nk (s : St) : (startNext s).n = s.n ∧ (startNext s).k = s.k ∧ (startNext s).delays = s.delays := by
  unfold startNext; split <;> exact ⟨rfl, rfl, rfl⟩

theorem pollLoop_nk (fuel : Nat) (s : St) :
    (pollLoop fuel s).n = s.n ∧ (pollLoop fuel s).k = s.k ∧ (pollLoop fuel s).delays = s.delays := by
  induction fuel generalizing s with
  | zero => exact ⟨rfl, rfl, rfl⟩
  | succ f ih =>
    unfold pollLoop
    split
    · exact ⟨rfl, rfl, rfl⟩
    split
    · exact ⟨rfl, rfl, rfl⟩
    split
    · exact ⟨rfl, rfl, rfl⟩
    rename_i t q _
    have tail : ∀ s' : St, s'.n = s.n → s'.k = s.k → s'.delays = s.delays →
        ((match outcomeOf s' t with
          | none => pollLoop f (deq s' t q)
          | some true => succeed (deq s' t q) t
          | some false => pollLoop f (startNext (fail (deq s' t q) t))).n = s.n ∧
         (match outcomeOf s' t with
          | none => pollLoop f (deq s' t q)
          | some true => succeed (deq s' t q) t
          | some false => pollLoop f (startNext (fail (deq s' t q) t))).k = s.k ∧
         (match outcomeOf s' t with
          | none => pollLoop f (deq s' t q)
          | some true => succeed (deq s' t q) t
          | some false => pollLoop f (startNext (fail (deq s' t q) t))).delays = s.delays) := by
      intro s' e1 e2 e3
      split
      · have := ih (deq s' t q); exact ⟨this.1.trans e1, this.2.1.trans e2, this.2.2.trans e3⟩
      · exact ⟨e1, e2, e3⟩
      · have := ih (startNext (fail (deq s' t q) t))
        have h2 := startNext_nk (fail (deq s' t q) t)
        exact ⟨(this.1.trans h2.1).trans e1, (this.2.1.trans h2.2.1).trans e2, (this.2.2.trans h2.2.2).trans e3⟩
    cases hg : gate s t q with
    | wait s' =>
      simp only
      rcases gate_wait_cases s t q s' hg with ⟨_, he⟩ | he <;> subst he <;> exact ih _
    | pass s' =>
      simp only
      rcases gate_pass_cases s t q s' hg with ⟨_, he⟩ | ⟨_, he⟩ | ⟨_, he⟩ <;> rw [he] <;> exact tail _ rfl rfl rfl

theorem step_nk (s : St) (o : Op) :
    (step s o).1.n = s.n ∧ (step s o).1.k = s.k ∧ (step s o).1.delays = s.delays := by
  cases o with
  | complete i b =>
    simp only [step, complete]
    split
    · exact ⟨rfl, rfl, rfl⟩
    · split <;> exact ⟨rfl, rfl, rfl⟩
  | poll =>
    simp only [step, poll]
    split <;> exact pollLoop_nk _ _
  | adv d =>
    simp only [step, advance]
    split
    · exact ⟨rfl, rfl, rfl⟩
    · generalize (List.map (fun x => x.1) (List.filter (fun e => decide (e.2 ≤ s.now + d)) s.armed)) = l
      have : ∀ (l : List Nat) (s' : St), (l.foldl release s').n = s'.n ∧ (l.foldl release s').k = s'.k ∧
          (l.foldl release s').delays = s'.delays := by
        intro l
        induction l with
        | nil => intro s'; exact ⟨rfl, rfl, rfl⟩
        | cons a r ih =>
          intro s'
          have h1 : (release s' a).n = s'.n ∧ (release s' a).k = s'.k ∧ (release s' a).delays = s'.delays := by
            unfold release; simp only; split <;> exact ⟨rfl, rfl, rfl⟩
          have := ih (release s' a)
          simp only [List.foldl_cons]
          exact ⟨this.1.trans h1.1, this.2.1.trans h1.2.1, this.2.2.trans h1.2.2⟩
      exact this l _

theorem exec_nk (s0 : St) (ops : List Op) :
    (Machine.exec step s0 ops).n = s0.n ∧ (Machine.exec step s0 ops).k = s0.k ∧
    (Machine.exec step s0 ops).delays = s0.delays := by
  induction ops generalizing s0 with
  | nil => exact ⟨rfl, rfl, rfl⟩
  | cons o r ih =>
    have h1 := step_nk s0 o
    have := ih (step s0 o).1
    simp only [Machine.exec, List.foldl_cons] at this ⊢
    exact ⟨this.1.trans h1.1, this.2.1.trans h1.2.1, this.2.2.trans h1.2.2⟩

theorem reach_nk (n k : Nat) (ops : List Op) : (reach n k ops).n = n ∧ (reach n k ops).k = k := by
  have := exec_nk (new n k) ops
  exact ⟨this.1, this.2.1⟩

