import Libp2pModel.Model.C10
/-!
# C10 — property theorems: idle connections close only when truly idle
("as observed at polls": wake-ups and the timer thread are runtime)
-/
namespace C10

/-- **C10.table** — `compute_new_shutdown` equals its decision table. -/
theorem table (cur : Sh) (timeout now : Nat) :
    computeNew true cur timeout now = some .none ∧
    (timeout = 0 → computeNew false cur timeout now = some .asap) ∧
    (timeout ≠ 0 → (∀ d, cur = .later d → computeNew false cur timeout now = none) ∧
      ((∀ d, cur ≠ .later d) → computeNew false cur timeout now = some (.later (now + timeout)))) := by
  refine ⟨by cases cur <;> rfl, ?_, ?_⟩
  · intro h; subst h; cases cur <;> rfl
  · intro h
    have hb : (timeout == 0) = false := by simpa using h
    constructor
    · intro d hd; subst hd; simp [computeNew, hb]
    · intro hn
      cases cur with
      | none => simp [computeNew, hb]
      | asap => simp [computeNew, hb]
      | later d => exact absurd rfl (hn d)

/-- **C10.no_close_unless_idle** — a poll returns `KeepAliveTimeout` only if at that poll there is
no negotiating stream (in or out), no outstanding outbound stream request, no counted active
stream, and the handler does not ask to keep the connection alive. -/
theorem no_close_unless_idle (timeout : Nat) (sh : Sh) (o : Obs)
    (h : (pollShutdown timeout sh o).2 = true) :
    o.negIn = 0 ∧ o.negOut = 0 ∧ o.requested = 0 ∧ o.counted = 0 ∧ o.keepAlive = false := by
  unfold pollShutdown at h
  by_cases hi : idle o = true
  · have hi' := hi
    simp only [idle, hasNoActiveStreams, Bool.and_eq_true, beq_iff_eq] at hi'
    refine ⟨hi'.1.1.1, hi'.1.1.2, hi'.1.2, by omega, ?_⟩
    cases hk : o.keepAlive with
    | false => rfl
    | true =>
      simp only [hi, ↓reduceIte, hk] at h
      cases sh <;> simp [computeNew] at h
  · simp [hi] at h

/-- **C10.asap_iff_zero** — with `idle_timeout = 0` the connection closes at exactly the polls that
are idle and not kept alive; with a non-zero timeout a poll never produces `Asap` from a
non-`Asap` state. -/
theorem asap_iff_zero (sh : Sh) (o : Obs) :
    (pollShutdown 0 sh o).2 = true ↔ (idle o = true ∧ o.keepAlive = false) := by
  unfold pollShutdown
  by_cases hi : idle o = true
  · cases hk : o.keepAlive <;> cases sh <;> simp [hi, computeNew]
  · simp [hi]

/-- invariant tying the shutdown timer to the ghost streak (non-zero timeout) -/
def Inv (timeout : Nat) (s : St) : Prop :=
  match s.since with
  | none => s.sh = .none
  | some t => s.sh = .later (t + timeout)

theorem inv_step (timeout : Nat) (ht : timeout ≠ 0) (s : St) (o : Obs) (h : Inv timeout s) :
    Inv timeout (step timeout s o).1 := by
  have hb : (timeout == 0) = false := by simpa using ht
  unfold Inv at *
  simp only [step, streak, pollShutdown]
  by_cases hi : idle o = true
  · cases hk : o.keepAlive with
    | true =>
      simp only [hi, hk, Bool.not_true, Bool.and_false, Bool.false_eq_true, ↓reduceIte]
      cases hs : s.sh <;> simp [computeNew]
    | false =>
      simp only [hi, hk, Bool.not_false, Bool.and_self, ↓reduceIte]
      cases hsince : s.since with
      | none =>
        rw [hsince] at h
        simp only at h
        simp [h, computeNew, hb]
      | some t =>
        rw [hsince] at h
        simp only at h
        simp [h, computeNew, hb]
  · simp [hi]

/-- **C10.not_before_timeout** — for every sequence of polls (any interleaving of stream opens /
drops, negotiation, requests and keep-alive flips, as observed at the polls), with a non-zero idle
timeout: if a poll at time `now` returns `KeepAliveTimeout`, then the current uninterrupted streak
of idle-and-not-keep-alive polls started at some `t₀` with `t₀ + timeout ≤ now`. -/
theorem not_before_timeout (timeout : Nat) (ht : timeout ≠ 0) (obs : List Obs) (o : Obs)
    (h : (step timeout (Machine.exec (step timeout) {} obs) o).2 = true) :
    ∃ t0, streak (Machine.exec (step timeout) {} obs).since o = some t0 ∧ t0 + timeout ≤ o.now := by
  have hb : (timeout == 0) = false := by simpa using ht
  have hinv : Inv timeout (Machine.exec (step timeout) {} obs) :=
    Machine.invariant_of_step (step timeout) (Inv timeout) (inv_step timeout ht) obs {} (by simp [Inv])
  generalize Machine.exec (step timeout) {} obs = s at h hinv
  have hidle := no_close_unless_idle timeout s.sh o h
  have hi : idle o = true := by
    simp [idle, hasNoActiveStreams, hidle.1, hidle.2.1, hidle.2.2.1, hidle.2.2.2.1]
  have hk := hidle.2.2.2.2
  simp only [step, pollShutdown, hi, ↓reduceIte, hk] at h
  unfold Inv at hinv
  simp only [streak, hi, hk, Bool.not_false, Bool.and_self, ↓reduceIte]
  cases hs : s.since with
  | none =>
    rw [hs] at hinv
    simp only at hinv
    simp [hinv, computeNew, hb] at h
    exact ⟨o.now, by simp, by omega⟩
  | some t =>
    rw [hs] at hinv
    simp only at hinv
    simp [hinv, computeNew, hb] at h
    exact ⟨t, by simp, h.2⟩

/-- the ghost streak really is a streak: it is `some t` only if this poll is idle and not kept
alive, and it restarts (`none`) at every poll that is not. -/
theorem streak_some (since : Option Nat) (o : Obs) (t : Nat) (h : streak since o = some t) :
    idle o = true ∧ o.keepAlive = false ∧ (since = none → t = o.now) ∧ (∀ t', since = some t' → t = t') := by
  unfold streak at h
  split at h
  · rename_i hc
    simp only [Bool.and_eq_true, Bool.not_eq_eq_eq_not, Bool.not_true] at hc
    cases since <;> simp_all
  · cases h

/-- **Spec accepts the model** on every poll of every run. -/
theorem spec_ok (timeout : Nat) (obs : List Obs) (o : Obs) :
    specPoll timeout (Machine.exec (step timeout) {} obs).since o
      (step timeout (Machine.exec (step timeout) {} obs) o).2 = true := by
  unfold specPoll
  cases hc : (step timeout (Machine.exec (step timeout) {} obs) o).2 with
  | false => simp
  | true =>
    have hidle := no_close_unless_idle timeout _ o hc
    have hi : idle o = true := by
      simp [idle, hasNoActiveStreams, hidle.1, hidle.2.1, hidle.2.2.1, hidle.2.2.2.1]
    simp only [Bool.not_true, Bool.false_or, hi, hidle.2.2.2.2, Bool.not_false, Bool.and_self, Bool.true_and,
      Bool.or_eq_true, beq_iff_eq]
    by_cases ht : timeout = 0
    · exact Or.inl ht
    · obtain ⟨t0, h1, h2⟩ := not_before_timeout timeout ht obs o hc
      right; rw [h1]; simpa using h2

/-! non-vacuity: a connection that does close after exactly the timeout, and one kept open by a stream -/
example : (Machine.run (step 10) {} [⟨0,0,0,0,false,5,false⟩, ⟨0,0,0,0,false,14,true⟩, ⟨0,0,0,0,false,15,true⟩]).2
    = [false, false, true] := by decide
example : (Machine.run (step 10) {} [⟨0,0,0,0,false,5,false⟩, ⟨0,0,0,1,false,14,true⟩, ⟨0,0,0,0,false,15,true⟩,
    ⟨0,0,0,0,false,24,true⟩]).2 = [false, false, false, false] := by decide

end C10

#print axioms C10.table
#print axioms C10.no_close_unless_idle
#print axioms C10.asap_iff_zero
#print axioms C10.not_before_timeout
#print axioms C10.streak_some
#print axioms C10.spec_ok
