import Libp2pModel.Model.C10
/-!
# C10 — property theorems: idle connections close only when truly idle
("as observed at polls": wake-ups and the timer thread are runtime)
-/
namespace C10

/-- **C10.table** — `compute_new_shutdown` equals its decision table. -/
theorem table (cur : Sh) (timeout now : Nat) :
    computeNew true cur timeout now = some .none ∧
    (timeout = 0 → computeNew false cur timeout now = some .asap) ∧
    (timeout ≠ 0 → (∀ d, cur = .later d → computeNew false cur timeout now = none) ∧
      ((∀ d, cur ≠ .later d) → computeNew false cur timeout now = some (.later (now + timeout)))) := by
  refine ⟨by cases cur <;> rfl, ?_, ?_⟩
  · intro h; subst h; cases cur <;> rfl
  · intro h
    have hb : (timeout == 0) = false := by simpa using h
    constructor
    · intro d hd; subst hd; simp [computeNew, hb]
    · intro hn
      cases cur with
      | none => simp [computeNew, hb]
      | asap => simp [computeNew, hb]
      | later d => exact absurd rfl (hn d)

/-- **C10.no_close_unless_idle** — a poll returns `KeepAliveTimeout` only if at that poll there is
no negotiating stream (in or out), no outstanding outbound stream request, no counted active
stream, and the handler does not ask to keep the connection alive. -/
theorem no_close_unless_idle (timeout : Nat) (sh : Sh) (o : Obs)
    (h : (pollShutdown timeout sh o).2 = true) :
    o.negIn = 0 ∧ o.negOut = 0 ∧ o.requested = 0 ∧ o.counted = 0 ∧ o.keepAlive = false := by
  unfold pollShutdown at h
  by_cases hi : idle o = true
  · have hi' := hi
    simp only [idle, hasNoActiveStreams, Bool.and_eq_true, beq_iff_eq] at hi'
    refine ⟨hi'.1.1.1, hi'.1.1.2, hi'.1.2, by omega, ?_⟩
    cases hk : o.keepAlive with
    | false => rfl
    | true =>
      simp only [hi, ↓reduceIte, hk] at h
      cases sh <;> simp [computeNew] at h
  · simp [hi] at h

/-- **C10.asap_iff_zero** — with `idle_timeout = 0` the connection closes at exactly the polls that
are idle and not kept alive; with a non-zero timeout a poll never produces `Asap` from a
non-`Asap` state. -/
theorem asap_iff_zero (sh : Sh) (o : Obs) :
    (pollShutdown 0 sh o).2 = true ↔ (idle o = true ∧ o.keepAlive = false) := by
  unfold pollShutdown
  by_cases hi : idle o = true
  · cases hk : o.keepAlive <;> cases sh <;> simp [hi, computeNew]
  · simp [hi]

/-- invariant tying the shutdown timer to the ghost streak (non-zero timeout) -/
def Inv (timeout : Nat) (s : St) : Prop :=
  match s.since with
  | none => s.sh = .none
  | some t => s.sh = .later (t + timeout)

theorem inv_step (timeout : Nat) (ht : timeout ≠ 0) (s : St) (o : Obs) (h : Inv timeout s) :
    Inv timeout (step timeout s o).1 := by
  have hb : (timeout == 0) = false := by simpa using ht
  unfold Inv at *
  simp only [step, streak, pollShutdown]
  by_cases hi : idle o = true
  · cases hk : o.keepAlive with
    | true =>
      simp only [hi, hk, Bool.not_true, Bool.and_false, Bool.false_eq_true, ↓reduceIte]
      cases hs : s.sh <;> simp [computeNew]
    | false =>
      simp only [hi, hk, Bool.not_false, Bool.and_self, ↓reduceIte]
      cases hsince : s.since with
      | none =>
        rw [hsince] at h
        simp only at h
        simp [h, computeNew, hb]
      | some t =>
        rw [hsince] at h
        simp only at h
        simp [h, computeNew, hb]
  · simp [hi]

/-- **C10.not_before_timeout** — for every sequence of polls (any interleaving of stream opens /
drops, negotiation, requests and keep-alive flips, as observed at the polls), with a non-zero idle
timeout: if a poll at time `now` returns `KeepAliveTimeout`, then the current uninterrupted streak
of idle-and-not-keep-alive polls started at some `t₀` with `t₀ + timeout ≤ now`. -/
theorem not_before_timeout (timeout : Nat) (ht : timeout ≠ 0) (obs : List Obs) (o : Obs)
    (h : (step timeout (Machine.exec (step timeout) {} obs) o).2 = true) :
    ∃ t0, streak (Machine.exec (step timeout) {} obs).since o = some t0 ∧ t0 + timeout ≤ o.now := by
  have hb : (timeout == 0) = false := by simpa using ht
  have hinv : Inv timeout (Machine.exec (step timeout) {} obs) :=
    Machine.invariant_of_step (step timeout) (Inv timeout) (inv_step timeout ht) obs {} (by simp [Inv])
  generalize Machine.exec (step timeout) {} obs = s at h hinv
  have hidle := no_close_unless_idle timeout s.sh o h
  have hi : idle o = true := by
    simp [idle, hasNoActiveStreams, hidle.1, hidle.2.1, hidle.2.2.1, hidle.2.2.2.1]
  have hk := hidle.2.2.2.2
  simp only [step, pollShutdown, hi, ↓reduceIte, hk] at h
  unfold Inv at hinv
  simp only [streak, hi, hk, Bool.not_false, Bool.and_self, ↓reduceIte]
  cases hs : s.since with
  | none =>
    rw [hs] at hinv
    simp only at hinv
    simp [hinv, computeNew, hb] at h
    exact ⟨o.now, by simp, by omega⟩
  | some t =>
    rw [hs] at hinv
    simp only at hinv
    simp [hinv, computeNew, hb] at h
    exact ⟨t, by simp, h.2⟩

/-- the ghost streak really is a streak: it is `some t` only if this poll is idle and not kept
alive, and it restarts (`none`) at every poll that is not. -/
theorem streak_some (since : Option Nat) (o : Obs) (t : Nat) (h : streak since o = some t) :
    idle o = true ∧ o.keepAlive = false ∧ (since = none → t = o.now) ∧ (∀ t', since = some t' → t = t') := by
  unfold streak at h
  split at h
  · rename_i hc
    simp only [Bool.and_eq_true, Bool.not_eq_eq_eq_not, Bool.not_true] at hc
    cases since <;> simp_all
  · cases h

/-- **Spec accepts the model** on every poll of every run. -/
theorem spec_ok (timeout : Nat) (obs : List Obs) (o : Obs) :
    specPoll timeout (Machine.exec (step timeout) {} obs).since o
      (step timeout (Machine.exec (step timeout) {} obs) o).2 = true := by
  unfold specPoll
  cases hc : (step timeout (Machine.exec (step timeout) {} obs) o).2 with
  | false => simp
  | true =>
    have hidle := no_close_unless_idle timeout _ o hc
    have hi : idle o = true := by
      simp [idle, hasNoActiveStreams, hidle.1, hidle.2.1, hidle.2.2.1, hidle.2.2.2.1]
    simp only [Bool.not_true, Bool.false_or, hi, hidle.2.2.2.2, Bool.not_false, Bool.and_self, Bool.true_and,
      Bool.or_eq_true, beq_iff_eq]
    by_cases ht : timeout = 0
    · exact Or.inl ht
    · obtain ⟨t0, h1, h2⟩ := not_before_timeout timeout ht obs o hc
      right; rw [h1]; simpa using h2

/-! ## The whole connection: every op history (end-to-end model, compared op by op with the real
`Connection::poll`) -/

theorem busyS_false_iff (c : CS) :
    busyS c = false ↔ c.hq + c.req + c.negOutW + c.negOutR + c.negInW + c.negInR + c.held = 0 := by
  simp [busyS]

theorem busyS_true_iff (c : CS) :
    busyS c = true ↔ 0 < c.hq + c.req + c.negOutW + c.negOutR + c.negInW + c.negInR + c.held := by
  simp [busyS]

theorem busyS_absorb (c : CS) : busyS (absorb c) = busyS c := by
  simp only [busyS, absorb]
  congr 1
  apply propext
  constructor <;> intro h <;> omega

theorem idle_obsOf_absorb (c : CS) : idle (obsOf (absorb c)) = !busyS c := by
  rw [← busyS_absorb]
  simp only [idle, obsOf, absorb, hasNoActiveStreams, busyS]
  by_cases h : 0 < 0 + (c.req + c.hq) + c.negOutW + 0 + c.negInW + 0 + (c.held + c.negOutR + c.negInR)
  · simp only [h, decide_true, Bool.not_true]
    simp only [Bool.and_eq_false_iff, beq_eq_false_iff_ne, ne_eq]
    omega
  · simp only [h, decide_false, Bool.not_false]
    simp only [Bool.and_eq_true, beq_iff_eq]
    omega

/-- a connection with a keep-alive stream condition is never closed by a poll, however many loop
iterations it takes -/
theorem busy_no_close (fuel : Nat) (c : CS) (h : busyS c = true) : (pollLoop fuel c).2 = .pending := by
  induction fuel generalizing c with
  | zero => rfl
  | succ fuel ih =>
    have hidle : idle (obsOf (absorb c)) = false := by rw [idle_obsOf_absorb, h]; rfl
    simp only [pollLoop, pollShutdown, hidle, Bool.false_eq_true, ↓reduceIte]
    split
    · exact ih _ (by rw [busyS_true_iff]; simp only [grantOut]; omega)
    · split
      · exact ih _ (by rw [busyS_true_iff]; simp only [acceptIn]; omega)
      · rfl

/-- invariant of the connection machine: an armed timer is never stale — while no stream condition
holds its deadline is at least `lastBusy + timeout`; and no stream is held while a shutdown is planned -/
structure CInv (c : CS) : Prop where
  fresh : busyS c = false → ∀ d, c.sh = .later d → c.lastBusy + c.timeout ≤ d
  past : c.lastBusy ≤ c.now
  noHeld : c.sh ≠ .none → c.held = 0

theorem cinv_init (t m : Nat) : CInv (cinit t m) :=
  ⟨by intro _ d h; simp [cinit] at h, by simp [cinit], by intro h; simp [cinit] at h⟩

theorem cinv_touch (c : CS) (h : CInv c) : CInv (touch c) := by
  unfold touch
  split
  · rename_i hb
    exact ⟨by intro hb'; simp [busyS] at hb hb'; omega, by simp, h.noHeld⟩
  · exact h

/-- the shutdown value the block stores when the connection is idle -/
def nextSh (timeout : Nat) (sh : Sh) (ka : Bool) (now : Nat) : Sh :=
  match computeNew ka sh timeout now with
  | some n => n
  | none => sh

theorem pollShutdown_busy (t : Nat) (sh : Sh) (o : Obs) (h : idle o = false) :
    pollShutdown t sh o = (.none, false) := by
  simp [pollShutdown, h]

theorem pollShutdown_idle (t : Nat) (sh : Sh) (o : Obs) (h : idle o = true) :
    (pollShutdown t sh o).1 = nextSh t sh o.keepAlive o.now := by
  unfold pollShutdown nextSh
  simp only [h, ↓reduceIte]
  split <;> rfl

theorem nextSh_later (t : Nat) (sh : Sh) (ka : Bool) (now d : Nat) (h : nextSh t sh ka now = .later d) :
    ka = false ∧ t ≠ 0 ∧ (sh = .later d ∨ d = now + t) := by
  unfold nextSh at h
  by_cases ht : t = 0
  · subst ht; cases ka <;> cases sh <;> simp [computeNew] at h
  · have hb0 : (t == 0) = false := by simpa using ht
    cases ka <;> cases sh <;> simp [computeNew, hb0] at h
    · exact ⟨rfl, ht, Or.inr h.symm⟩
    · exact ⟨rfl, ht, Or.inr h.symm⟩
    · exact ⟨rfl, ht, Or.inl (by rw [h])⟩

theorem close_idle (t : Nat) (sh : Sh) (o : Obs) (h : idle o = true)
    (hc : (pollShutdown t sh o).2 = true) :
    o.keepAlive = false ∧ (t = 0 ∨ ∃ d, nextSh t sh o.keepAlive o.now = .later d ∧ d ≤ o.now) := by
  have hka : o.keepAlive = false := (no_close_unless_idle t sh o hc).2.2.2.2
  refine ⟨hka, ?_⟩
  by_cases ht : t = 0
  · exact Or.inl ht
  · right
    have hb0 : (t == 0) = false := by simpa using ht
    unfold pollShutdown at hc
    simp only [h, ↓reduceIte, hka] at hc
    unfold nextSh
    rw [hka]
    cases sh with
    | none =>
      simp only [computeNew, hb0, Bool.false_eq_true, ↓reduceIte, Bool.and_eq_true, decide_eq_true_eq] at hc ⊢
      exact ⟨_, rfl, hc.2⟩
    | asap =>
      simp only [computeNew, hb0, Bool.false_eq_true, ↓reduceIte, Bool.and_eq_true, decide_eq_true_eq] at hc ⊢
      exact ⟨_, rfl, hc.2⟩
    | later d0 =>
      simp only [computeNew, hb0, Bool.false_eq_true, ↓reduceIte, Bool.and_eq_true, decide_eq_true_eq] at hc ⊢
      exact ⟨_, rfl, hc.2⟩

theorem cinv_afterBlock (c : CS) (h : CInv c) : CInv (afterBlock c) := by
  have hidle := idle_obsOf_absorb c
  have hbA := busyS_absorb c
  cases hbusy : busyS c with
  | true =>
    have hi : idle (obsOf (absorb c)) = false := by rw [hidle, hbusy]; rfl
    have hsh : (afterBlock c).sh = .none := by
      show (pollShutdown _ _ _).1 = _
      rw [pollShutdown_busy _ _ _ hi]
    have hlb : (afterBlock c).lastBusy = c.now := by
      show (if busyS (absorb c) || c.keepAlive then c.now else c.lastBusy) = _
      rw [hbA, hbusy]; rfl
    refine ⟨?_, ?_, ?_⟩
    · intro _ d hd; rw [hsh] at hd; cases hd
    · rw [hlb]; exact Nat.le_refl _
    · intro hne; exact absurd hsh hne
  | false =>
    have hi : idle (obsOf (absorb c)) = true := by rw [hidle, hbusy]; rfl
    have hz := (busyS_false_iff c).1 hbusy
    have hsh : (afterBlock c).sh = nextSh c.timeout c.sh c.keepAlive c.now := by
      show (pollShutdown _ _ _).1 = _
      rw [pollShutdown_idle _ _ _ hi]; rfl
    have hlb : (afterBlock c).lastBusy = if c.keepAlive then c.now else c.lastBusy := by
      show (if busyS (absorb c) || c.keepAlive then c.now else c.lastBusy) = _
      rw [hbA, hbusy]; simp
    refine ⟨?_, ?_, ?_⟩
    · intro _ d hd
      rw [hsh] at hd
      obtain ⟨hka, ht, hor⟩ := nextSh_later _ _ _ _ _ hd
      rw [hlb, hka]
      simp only [Bool.false_eq_true, ↓reduceIte]
      show c.lastBusy + c.timeout ≤ d
      rcases hor with h1 | h1
      · exact h.fresh hbusy d h1
      · have := h.past; omega
    · rw [hlb]
      show _ ≤ c.now
      split
      · exact Nat.le_refl _
      · exact h.past
    · intro _
      show c.held + c.negOutR + c.negInR = 0
      omega

theorem pollLoop_succ (fuel : Nat) (c : CS) :
    pollLoop (fuel + 1) c =
      (if (pollShutdown (absorb c).timeout (absorb c).sh (obsOf (absorb c))).2 then
        ({ afterBlock c with closed := true }, .closed)
      else if 0 < (afterBlock c).req && 0 < (afterBlock c).outTokens then
        pollLoop fuel (grantOut (afterBlock c))
      else if (afterBlock c).negInW + (afterBlock c).negInR < (afterBlock c).maxNegIn
          && 0 < (afterBlock c).inbWaiting then
        pollLoop fuel (acceptIn (afterBlock c))
      else (afterBlock c, .pending)) := rfl

theorem busyS_grantOut (c : CS) : busyS (grantOut c) = true := by
  rw [busyS_true_iff]; simp only [grantOut]; omega

theorem busyS_acceptIn (c : CS) : busyS (acceptIn c) = true := by
  rw [busyS_true_iff]; simp only [acceptIn]; omega

theorem cinv_pollLoop (fuel : Nat) (c : CS) (h : CInv c) : CInv (pollLoop fuel c).1 := by
  induction fuel generalizing c with
  | zero => exact h
  | succ fuel ih =>
    have ha := cinv_afterBlock c h
    rw [pollLoop_succ]
    split
    · exact ⟨ha.fresh, ha.past, ha.noHeld⟩
    · split
      · apply ih
        refine ⟨?_, ha.past, ha.noHeld⟩
        intro hb; rw [busyS_grantOut] at hb; cases hb
      · split
        · apply ih
          refine ⟨?_, ha.past, ha.noHeld⟩
          intro hb; rw [busyS_acceptIn] at hb; cases hb
        · exact ha

theorem cinv_applyOp (c : CS) (o : COp) (h : CInv c) : CInv (applyOp c o) := by
  have hf := h.fresh; have hp := h.past; have hn := h.noHeld
  cases o with
  | ka b => exact ⟨hf, hp, hn⟩
  | req => exact ⟨by intro hb; have := (busyS_false_iff _).1 hb; simp only [applyOp] at this; exfalso; omega, hp, hn⟩
  | allow => exact ⟨hf, hp, hn⟩
  | inb => exact ⟨hf, hp, hn⟩
  | poll => exact h
  | closeW => exact h
  | closeWI => exact h
  | write => exact h
  | adv d => exact ⟨fun hb d' hd => hf hb d' hd, by show c.lastBusy ≤ c.now + d; omega, hn⟩
  | respOut =>
    simp only [applyOp]; split
    · rename_i hw
      refine ⟨?_, hp, hn⟩
      intro hb; have := (busyS_false_iff _).1 hb; simp only at this; exfalso; omega
    · exact h
  | respIn =>
    simp only [applyOp]; split
    · rename_i hw
      refine ⟨?_, hp, hn⟩
      intro hb; have := (busyS_false_iff _).1 hb; simp only at this; exfalso; omega
    · exact h
  | dropIgn =>
    simp only [applyOp]; split
    · exact ⟨hf, hp, hn⟩
    · exact h
  | drop =>
    simp only [applyOp]; split
    · rename_i hh
      have hsh : c.sh = .none := by
        cases hs : c.sh with
        | none => rfl
        | asap => have := hn (by rw [hs]; simp); omega
        | later d => have := hn (by rw [hs]; simp); omega
      exact ⟨by intro _ d hd; simp [hsh] at hd, hp, by intro hne; exact absurd hsh hne⟩
    · exact h
  | ignore =>
    simp only [applyOp]; split
    · rename_i hh
      have hsh : c.sh = .none := by
        cases hs : c.sh with
        | none => rfl
        | asap => have := hn (by rw [hs]; simp); omega
        | later d => have := hn (by rw [hs]; simp); omega
      exact ⟨by intro _ d hd; simp [hsh] at hd, hp, by intro hne; exact absurd hsh hne⟩
    · exact h

theorem cinv_cstep (c : CS) (o : COp) (h : CInv c) : CInv (cstep c o).1 := by
  unfold cstep
  split
  · exact h
  · cases o with
    | poll => exact cinv_touch _ (cinv_pollLoop _ c h)
    | ka b => exact cinv_touch _ (cinv_applyOp c _ h)
    | req => exact cinv_touch _ (cinv_applyOp c _ h)
    | allow => exact cinv_touch _ (cinv_applyOp c _ h)
    | respOut => exact cinv_touch _ (cinv_applyOp c _ h)
    | inb => exact cinv_touch _ (cinv_applyOp c _ h)
    | respIn => exact cinv_touch _ (cinv_applyOp c _ h)
    | drop => exact cinv_touch _ (cinv_applyOp c _ h)
    | ignore => exact cinv_touch _ (cinv_applyOp c _ h)
    | dropIgn => exact cinv_touch _ (cinv_applyOp c _ h)
    | adv d => exact cinv_touch _ (cinv_applyOp c _ h)
    | closeW => exact cinv_touch _ (cinv_applyOp c _ h)
    | closeWI => exact cinv_touch _ (cinv_applyOp c _ h)
    | write => exact cinv_touch _ (cinv_applyOp c _ h)

/-- the state after an op history, from `Connection::new` -/
def creach (timeout maxNegIn : Nat) (ops : List COp) : CS :=
  Machine.exec cstep (cinit timeout maxNegIn) ops

theorem cinv_reach (t m : Nat) (ops : List COp) : CInv (creach t m ops) :=
  Machine.invariant_of_step cstep CInv cinv_cstep ops _ (cinv_init t m)

/-- one poll from an invariant state: a close needs no stream condition, no keep-alive, and a full
timeout since `lastBusy` -/
theorem close_sound (c : CS) (h : CInv c) (fuel : Nat)
    (hc : (pollLoop (fuel + 1) c).2 = .closed) :
    busyS c = false ∧ c.keepAlive = false ∧ c.lastBusy + c.timeout ≤ c.now := by
  have hbusy : busyS c = false := by
    cases hb : busyS c with
    | false => rfl
    | true => rw [busy_no_close _ c hb] at hc; cases hc
  have hi : idle (obsOf (absorb c)) = true := by rw [idle_obsOf_absorb, hbusy]; rfl
  have hz := (busyS_false_iff c).1 hbusy
  -- after the first block the state is busy (or the poll ended), so the close happened in the first block
  rw [pollLoop_succ] at hc
  have hfirst : (pollShutdown (absorb c).timeout (absorb c).sh (obsOf (absorb c))).2 = true := by
    cases hps : (pollShutdown (absorb c).timeout (absorb c).sh (obsOf (absorb c))).2 with
    | true => rfl
    | false =>
      rw [hps] at hc
      simp only [Bool.false_eq_true, ↓reduceIte] at hc
      split at hc
      · rw [busy_no_close _ _ (busyS_grantOut _)] at hc; cases hc
      · split at hc
        · rw [busy_no_close _ _ (busyS_acceptIn _)] at hc; cases hc
        · cases hc
  obtain ⟨hka, hor⟩ := close_idle _ _ _ hi hfirst
  have hka' : c.keepAlive = false := hka
  refine ⟨hbusy, hka', ?_⟩
  have hp := h.past
  rcases hor with ht | ⟨d, hn, hd⟩
  · have ht' : c.timeout = 0 := ht
    omega
  · have hn' : nextSh c.timeout c.sh c.keepAlive c.now = .later d := hn
    have hd' : d ≤ c.now := hd
    obtain ⟨_, ht, hor⟩ := nextSh_later _ _ _ _ _ hn'
    rcases hor with h1 | h1
    · have := h.fresh hbusy d h1; omega
    · omega

/-- **C10.close_after_last_busy** — for EVERY history of ops (keep-alive flips, outbound requests,
muxer grants, remote answers, inbound streams, stream drops / `ignore_for_keep_alive`, clock
advances, polls, in any order): if the next `Connection::poll` returns `KeepAliveTimeout`, then at that
poll no stream is active-and-counted, negotiating or requested, the handler does not ask for
keep-alive, and `now ≥ lastBusy + idle_timeout`, where `lastBusy` is the last moment any of these
conditions held. -/
theorem close_after_last_busy (timeout maxNegIn : Nat) (ops : List COp)
    (hc : (cstep (creach timeout maxNegIn ops) .poll).2 = some .closed) :
    busyS (creach timeout maxNegIn ops) = false ∧
    (creach timeout maxNegIn ops).keepAlive = false ∧
    (creach timeout maxNegIn ops).lastBusy + timeout ≤ (creach timeout maxNegIn ops).now := by
  have hinv := cinv_reach timeout maxNegIn ops
  have hto : (creach timeout maxNegIn ops).timeout = timeout := by
    unfold creach
    have : ∀ (c : CS) (ops : List COp), (Machine.exec cstep c ops).timeout = c.timeout := by
      intro c ops
      induction ops generalizing c with
      | nil => rfl
      | cons o r ih =>
        simp only [Machine.exec, List.foldl_cons] at ih ⊢
        rw [ih]
        have htouch : ∀ c : CS, (touch c).timeout = c.timeout := by intro c; unfold touch; split <;> rfl
        have hloop : ∀ (f : Nat) (c : CS), (pollLoop f c).1.timeout = c.timeout := by
          intro f
          induction f with
          | zero => intro c; rfl
          | succ f ihf =>
            intro c
            rw [pollLoop_succ]
            repeat' split
            · rfl
            · rw [ihf]; rfl
            · rw [ihf]; rfl
            · rfl
        unfold cstep
        split
        · rfl
        · cases o <;> simp only [htouch, hloop, applyOp] <;> (try split) <;> rfl
    exact this _ ops
  generalize creach timeout maxNegIn ops = c at hc hinv hto
  unfold cstep at hc
  split at hc
  · cases hc
  · simp only [Option.some.injEq] at hc
    have := close_sound c hinv (c.hq + c.req + c.inbWaiting + 1) hc
    rw [hto] at this
    exact this

/-- **Spec accepts the model (end-to-end)** -/
theorem spec_close_ok (timeout maxNegIn : Nat) (ops : List COp) :
    specClose timeout (busyS (creach timeout maxNegIn ops)) (creach timeout maxNegIn ops).keepAlive
      (creach timeout maxNegIn ops).lastBusy (creach timeout maxNegIn ops).now
      ((cstep (creach timeout maxNegIn ops) .poll).2 == some .closed) = true := by
  unfold specClose
  cases hc : ((cstep (creach timeout maxNegIn ops) .poll).2 == some .closed) with
  | false => rfl
  | true =>
    have hc' : (cstep (creach timeout maxNegIn ops) .poll).2 = some .closed := by simpa using hc
    obtain ⟨h1, h2, h3⟩ := close_after_last_busy timeout maxNegIn ops hc'
    simp [h1, h2, h3]

/-- a held stream whose write half was closed still keeps the connection open past the timeout; it
closes only a full timeout after the stream is dropped -/
example : ((Machine.run cstep (cinit 5 2)
    [.inb, .poll, .respIn, .poll, .closeW, .adv 50, .poll, .drop, .poll, .adv 4, .poll, .adv 1, .poll]).2.filterMap id)
    = [.pending, .pending, .pending, .pending, .pending, .closed] := by decide

/-- the scenario of the seeded defect: idle (timer armed at 0) → busy past the deadline → idle again.
The model re-arms the timer; the connection is NOT closed at the first idle poll after the busy period. -/
example : ((Machine.run cstep (cinit 5 2)
    [.poll, .req, .poll, .adv 6, .allow, .poll, .respOut, .poll, .drop, .poll, .adv 4, .poll, .adv 1, .poll]).2.filterMap id)
    = [.pending, .pending, .pending, .pending, .pending, .pending, .closed] := by decide

/-! non-vacuity: a connection that does close after exactly the timeout, and one kept open by a stream -/
example : (Machine.run (step 10) {} [⟨0,0,0,0,false,5,false⟩, ⟨0,0,0,0,false,14,true⟩, ⟨0,0,0,0,false,15,true⟩]).2
    = [false, false, true] := by decide
example : (Machine.run (step 10) {} [⟨0,0,0,0,false,5,false⟩, ⟨0,0,0,1,false,14,true⟩, ⟨0,0,0,0,false,15,true⟩,
    ⟨0,0,0,0,false,24,true⟩]).2 = [false, false, false, false] := by decide

end C10

#print axioms C10.table
#print axioms C10.no_close_unless_idle
#print axioms C10.asap_iff_zero
#print axioms C10.not_before_timeout
#print axioms C10.streak_some
#print axioms C10.spec_ok
#print axioms C10.close_after_last_busy
#print axioms C10.spec_close_ok
#print axioms C10.busy_no_close
#print axioms C10.cinv_reach
