import Libp2pModel.Props.C01
import Libp2pModel.Props.C02
import Libp2pModel.Props.C05
import Libp2pModel.Props.C06
/-!
# The Swarm theorems extended to histories that contain `race` transitions

`race` = the task of a pending dial has already queued its `ConnectionEstablished` report when
`disconnect_peer_id` is called; the Swarm is polled only afterwards (`Model/Swarm.lean`).  Every
per-step guarantee proved for `step` is proved here for `race`, and the whole-history theorems of
C01, C02, C05, C06 are re-proved for histories over `XOp = Op + race`.
-/
namespace Swarm.X
open Swarm Swarm.Life

theorem race_eq (s : State) (k p : Nat) (d : Bool) (dp : Nat) (o a : List Nat) (r : State × List Ev)
    (h : race s k p d dp o a = some r) :
    r = ((abortMany (closeMany (resolveDial s k p d).1 o).1 a).1,
         (resolveDial s k p d).2 ++ (closeMany (resolveDial s k p d).1 o).2 ++
           (abortMany (closeMany (resolveDial s k p d).1 o).1 a).2) := by
  unfold race at h
  simp only at h
  split at h
  · simp only [Option.some.injEq] at h; rw [← h]
  · cases h

/-! ### `closeHold` only sets the `closing` flag of one entry -/

def markClosing (c : Nat) (e : Est) : Est := if e.id = c then { e with closing := true } else e

theorem markClosing_id (c : Nat) (e : Est) : (markClosing c e).id = e.id := by unfold markClosing; split <;> rfl
theorem markClosing_peer (c : Nat) (e : Est) : (markClosing c e).peer = e.peer := by unfold markClosing; split <;> rfl
theorem markClosing_out (c : Nat) (e : Est) : (markClosing c e).out = e.out := by unfold markClosing; split <;> rfl

theorem closeHold_est (s : State) (c : Nat) : (closeHold s c).est = s.est.map (markClosing c) := rfl

theorem map_mark_ids (c : Nat) (l : List Est) : (l.map (markClosing c)).map (·.id) = l.map (·.id) := by
  induction l with
  | nil => rfl
  | cons a t ih => simp [markClosing_id, ih]

theorem filter_mark_len (c : Nat) (q : Est → Bool) (hq : ∀ e, q (markClosing c e) = q e) (l : List Est) :
    ((l.map (markClosing c)).filter q).length = (l.filter q).length := by
  induction l with
  | nil => rfl
  | cons a t ih =>
    simp only [List.map_cons, List.filter_cons, hq]
    split <;> simp [ih]

theorem closeHold_idsE (s : State) (c : Nat) : idsE (closeHold s c) = idsE s := by
  unfold idsE; rw [closeHold_est]; exact map_mark_ids c s.est

theorem closeHold_numEst (s : State) (c : Nat) : (closeHold s c).numEst = s.numEst := by
  funext p
  unfold State.numEst
  rw [closeHold_est]
  exact filter_mark_len c (fun e => e.peer == p) (fun e => by simp [markClosing_peer]) s.est

theorem closeHold_inv (s : State) (c : Nat) (h : Inv s) : Inv (closeHold s c) := by
  have eE := closeHold_idsE s c
  refine ⟨h.cPO, h.cPI, ?_, ?_, h.ndO, h.ndI, eE ▸ h.ndE, h.dOI, ?_, ?_, h.frO, h.frI, ?_⟩
  · show s.cEO = _
    rw [h.cEO, closeHold_est]
    exact (filter_mark_len c (fun e => e.out) (fun e => by simp [markClosing_out]) s.est).symm
  · show s.cEI = _
    rw [h.cEI, closeHold_est]
    exact (filter_mark_len c (fun e => !e.out) (fun e => by simp [markClosing_out]) s.est).symm
  · rw [eE]; exact h.dOE
  · rw [eE]; exact h.dIE
  · rw [eE]; exact h.frE

theorem closeHold_stOf (s : State) (c : Nat) : C01.stOf (closeHold s c) = C01.stOf s := by
  funext x
  unfold C01.stOf
  rw [closeHold_idsE]
  rfl

theorem xstep_inv (s : State) (op : XOp) (h : Inv s) : Inv (xstep s op).1 := by
  cases op with
  | base o => exact step_inv s o h
  | race k p d dp o a =>
    simp only [xstep]
    cases hr : race s k p d dp o a with
    | none => exact h
    | some r =>
      rw [race_eq s k p d dp o a r hr]
      exact abortMany_inv a _ (closeMany_inv o _ (resolveDial_inv s k p d h))
  | closeHold c => exact closeHold_inv s c h
  | release c =>
    simp only [xstep, release]
    split
    · exact closeConn_inv s c true h
    · exact h

theorem xstep_lifecycle (s : State) (op : XOp) (h : Inv s) : C01.StepOK s (xstep s op).1 (xstep s op).2.2 := by
  cases op with
  | base o => exact C01.step_lifecycle s o h
  | race k p d dp o a =>
    simp only [xstep]
    cases hr : race s k p d dp o a with
    | none => exact C01.stepOK_of_lives _ _ _ (C01.lives_quiet _ _ _ rfl rfl)
    | some r =>
      rw [race_eq s k p d dp o a r hr]
      apply C01.stepOK_of_lives
      have h1 := C01.resolveDial_lives s k p d h
      have i1 := resolveDial_inv s k p d h
      have h2 := C01.closeMany_lives o _ i1
      have i2 := closeMany_inv o _ i1
      have h3 := C01.abortMany_lives a _ i2
      exact C01.lives_trans _ _ _ _ _ (C01.lives_trans _ _ _ _ _ h1 h2) h3
  | closeHold c => exact C01.stepOK_of_lives _ _ _ (C01.lives_quiet _ _ _ (closeHold_stOf s c) rfl)
  | release c =>
    simp only [xstep, release]
    split
    · exact C01.stepOK_of_lives _ _ _ (C01.closeConn_lives s c true h)
    · exact C01.stepOK_of_lives _ _ _ (C01.lives_quiet _ _ _ rfl rfl)

theorem xstep_tracks (s : State) (op : XOp) (h : Inv s) : C02.Tracks s (xstep s op).1 (xstep s op).2.2 := by
  cases op with
  | base o => exact C02.step_tracks s o h
  | race k p d dp o a =>
    simp only [xstep]
    cases hr : race s k p d dp o a with
    | none => exact C02.tracks_neutral _ _ _ rfl (by simp)
    | some r =>
      rw [race_eq s k p d dp o a r hr]
      have i1 := resolveDial_inv s k p d h
      exact C02.tracks_trans _ _ _ _ _
        (C02.tracks_trans _ _ _ _ _ (C02.resolveDial_tracks s k p d) (C02.closeMany_tracks o _ i1))
        (C02.abortMany_tracks a _)
  | closeHold c =>
    show C02.checkNums s.numEst [] = (true, (closeHold s c).numEst)
    rw [closeHold_numEst]; rfl
  | release c =>
    simp only [xstep, release]
    split
    · exact C02.closeConn_tracks s c true h
    · exact C02.tracks_neutral _ _ _ rfl (by simp)

theorem xstep_noLocal (s : State) (op : XOp) (h : C05.NoLocal s) : C05.NoLocal (xstep s op).1 := by
  cases op with
  | base o => exact C05.step_noLocal s o h
  | race k p d dp o a =>
    simp only [xstep]
    cases hr : race s k p d dp o a with
    | none => exact h
    | some r =>
      rw [race_eq s k p d dp o a r hr]
      have h1 : C05.NoLocal (resolveDial s k p d).1 := C05.step_noLocal s (.resolve k p d) h
      intro e he
      simp only at he ⊢
      rw [(abortMany_frame a _).1, (closeMany_frame o _).1] at he
      rw [(abortMany_frame a _).2.1, (closeMany_frame o _).2.1]
      exact h1 e (List.mem_filter.1 he).1
  | closeHold c =>
    intro e he
    show e.peer ≠ s.localPeer
    have he' : e ∈ s.est.map (markClosing c) := he
    obtain ⟨e0, he0, rfl⟩ := List.mem_map.1 he'
    rw [markClosing_peer]; exact h e0 he0
  | release c =>
    simp only [xstep, release]
    split
    · exact C05.step_noLocal s (.close c) h
    · exact h

def xexec (s : State) (ops : List XOp) : State := ops.foldl (fun s o => (xstep s o).1) s

def xtrace : State → List XOp → List Ev
  | _, [] => []
  | s, o :: os => (xstep s o).2.2 ++ xtrace (xstep s o).1 os

def xrunLife : LM → State → List XOp → Option LM
  | m, _, [] => some m
  | m, s, o :: os => ((feedAll m (xstep s o).2.2).bind endStep).bind (fun m' => xrunLife m' (xstep s o).1 os)

theorem inv_reachable (peerIds : List (List Nat)) (ops : List XOp) : Inv (xexec (State.init peerIds) ops) := by
  have : ∀ (ops : List XOp) (s : State), Inv s → Inv (xexec s ops) := by
    intro ops
    induction ops with
    | nil => intro s h; exact h
    | cons o os ih => intro s h; exact ih _ (xstep_inv s o h)
  exact this ops _ (inv_init peerIds)

/-- C01 for histories with races -/
theorem lifecycle_accepts_every_history (peerIds : List (List Nat)) (ops : List XOp) :
    xrunLife ⟨fun _ => .fresh, none⟩ (State.init peerIds) ops =
      some ⟨C01.stOf (xexec (State.init peerIds) ops), none⟩ := by
  have gen : ∀ (ops : List XOp) (s : State), Inv s →
      xrunLife ⟨C01.stOf s, none⟩ s ops = some ⟨C01.stOf (xexec s ops), none⟩ := by
    intro ops
    induction ops with
    | nil => intro s _; rfl
    | cons o os ih =>
      intro s h
      simp only [xrunLife, xexec, List.foldl_cons]
      have := xstep_lifecycle s o h
      unfold C01.StepOK at this
      rw [this]
      exact ih _ (xstep_inv s o h)
  have h0 : C01.stOf (State.init peerIds) = fun _ => .fresh := by
    funext c; simp [C01.stOf, State.init, idsO, idsI, idsE]
  rw [← h0]
  exact gen ops _ (inv_init peerIds)

/-- C02 for histories with races -/
theorem event_values_agree_with_history (peerIds : List (List Nat)) (ops : List XOp) :
    C02.checkNums (fun _ => 0) (xtrace (State.init peerIds) ops) = (true, (xexec (State.init peerIds) ops).numEst) := by
  have gen : ∀ (ops : List XOp) (s : State), Inv s →
      C02.checkNums s.numEst (xtrace s ops) = (true, (xexec s ops).numEst) := by
    intro ops
    induction ops with
    | nil => intro s _; rfl
    | cons o os ih =>
      intro s h
      simp only [xtrace, xexec, List.foldl_cons]
      rw [C02.checkNums_append, xstep_tracks s o h]
      simp [ih _ (xstep_inv s o h), xexec]
  have h0 : (State.init peerIds).numEst = fun _ => 0 := by funext p; simp [State.init, State.numEst]
  rw [← h0]
  exact gen ops _ (inv_init peerIds)

theorem counters_agree (peerIds : List (List Nat)) (ops : List XOp) :
    let s := xexec (State.init peerIds) ops
    s.cPO = s.pendOut.length ∧ s.cPI = s.pendIn.length ∧
    s.cEO = (s.est.filter (·.out)).length ∧ s.cEI = (s.est.filter (fun e => !e.out)).length := by
  intro s
  have h := inv_reachable peerIds ops
  exact ⟨h.cPO, h.cPI, h.cEO, h.cEI⟩

/-- C05 for histories with races -/
theorem never_established_to_local (peerIds : List (List Nat)) (ops : List XOp) :
    C05.NoLocal (xexec (State.init peerIds) ops) := by
  have : ∀ (ops : List XOp) (s : State), C05.NoLocal s → C05.NoLocal (xexec s ops) := by
    intro ops
    induction ops with
    | nil => intro s h; exact h
    | cons o os ih => intro s h; exact ih _ (xstep_noLocal s o h)
  exact this ops _ (by intro e he; simp [State.init] at he)

/-- C06 for histories with races: a finished id stays finished and is never established/closed again -/
theorem finished_stays_finished (c : Nat) : ∀ (ops : List XOp) (s : State), Inv s → C01.stOf s c = .done →
    C01.stOf (xexec s ops) c = .done ∧ (xtrace s ops).all (C06.okFor c) = true := by
  intro ops
  induction ops with
  | nil => intro s _ hd; exact ⟨hd, rfl⟩
  | cons o os ih =>
    intro s h hd
    have hs := xstep_lifecycle s o h
    unfold C01.StepOK at hs
    cases hfa : feedAll ⟨C01.stOf s, none⟩ (xstep s o).2.2 with
    | none => simp [hfa] at hs
    | some m1 =>
      simp only [hfa, Option.bind_some] at hs
      obtain ⟨hd1, hno⟩ := C06.done_absorbing c _ ⟨C01.stOf s, none⟩ m1 hd hfa
      have hd2 : C01.stOf (xstep s o).1 c = .done := C06.endStep_done c m1 _ hd1 hs
      obtain ⟨h3, h4⟩ := ih (xstep s o).1 (xstep_inv s o h) hd2
      exact ⟨h3, by simp [xtrace, List.all_append, hno, h4]⟩

/-- non-vacuity: a second connection established while the first is still closing is counted as 2 -/
example :
    let s0 := State.init [[0], [1], [2]]
    let ops : List XOp := [.base (.incoming false), .base (.incoming false), .base (.resolveIn 0 2 false),
      .closeHold 0, .base (.resolveIn 1 2 false), .release 0]
    (xtrace s0 ops).filterMap (fun e => match e with
      | .sEstablished _ _ _ n _ => some n | .sClosed _ _ n _ => some n | _ => none) = [1, 2, 1] := by decide

/-- non-vacuity: a race in which the late abort does not prevent the establishment -/
example :
    let s0 := State.init [[0], [1], [2]]
    let s1 := (step s0 (.dial false .always (some 2) [[.tcp 1]] false [] false [])).1
    ((xstep s1 (.race 0 2 false 2 [] [])).2.2.any C05.isEstablished) = true := by decide

end Swarm.X

#print axioms Swarm.X.inv_reachable
#print axioms Swarm.X.lifecycle_accepts_every_history
#print axioms Swarm.X.event_values_agree_with_history
#print axioms Swarm.X.counters_agree
#print axioms Swarm.X.never_established_to_local
#print axioms Swarm.X.finished_stays_finished
