import Libp2pModel.Model.C03
import Std.Data.String.ToNat
/-!
# C03 — property theorems (partial: atomicity of `fetch_add` is trusted)
-/
namespace C03

theorem run_rmw_aux (sched : List Nat) : ∀ s : St,
    (run .rmw s sched).ctr = s.ctr + sched.length ∧
    ids (run .rmw s sched) = ids s ++ List.range' s.ctr sched.length := by
  induction sched with
  | nil => intro s; simp [run, ids]
  | cons t ts ih =>
    intro s
    have h := ih (step .rmw s t)
    simp only [run, List.foldl_cons] at h ⊢
    refine ⟨by rw [h.1]; simp [step]; omega, ?_⟩
    rw [h.2]
    simp [step, ids, List.range'_succ]

/-- **Uniqueness for every interleaving**: whatever the number of threads, Swarms and
allocations, and whatever the schedule, with an atomic read-modify-write the ids handed out are
exactly `c₀, c₀+1, …, c₀+n-1` in allocation order — pairwise distinct, none reused, and the
counter ends at `c₀+n`. -/
theorem unique_rmw (c0 : Nat) (sched : List Nat) :
    let s := run .rmw { ctr := c0 } sched
    ids s = List.range' c0 sched.length ∧ (ids s).Nodup ∧ s.ctr = c0 + sched.length := by
  have h := run_rmw_aux sched { ctr := c0 }
  simp only [ids, List.map_nil, List.reverse_nil, List.nil_append] at h
  refine ⟨by simpa [ids] using h.2, ?_, h.1⟩
  have : ids (run .rmw { ctr := c0 } sched) = List.range' c0 sched.length := by simpa [ids] using h.2
  rw [this]; exact List.nodup_range'

/-- ids handed out later never collide with ids handed out earlier (process lifetime): extending
a history keeps all ids distinct. -/
theorem unique_rmw_extend (c0 : Nat) (sched more : List Nat) :
    (ids (run .rmw { ctr := c0 } (sched ++ more))).Nodup ∧
    ∀ x ∈ ids (run .rmw { ctr := c0 } sched), x ∈ ids (run .rmw { ctr := c0 } (sched ++ more)) := by
  have h1 := (unique_rmw c0 (sched ++ more))
  have h2 := (unique_rmw c0 sched)
  refine ⟨h1.2.1, ?_⟩
  intro x hx
  rw [h2.1] at hx
  rw [h1.1]
  simp only [List.mem_range'_1, List.length_append] at hx ⊢
  omega

/-- every pair of allocations (by the same or different threads) gets different ids -/
theorem unique_rmw_pairwise (c0 : Nat) (sched : List Nat) (i j : Nat)
    (hi : i < (ids (run .rmw { ctr := c0 } sched)).length)
    (hj : j < (ids (run .rmw { ctr := c0 } sched)).length) (hij : i ≠ j) :
    (ids (run .rmw { ctr := c0 } sched))[i] ≠ (ids (run .rmw { ctr := c0 } sched))[j] := by
  have hnd := (unique_rmw c0 sched).2.1
  have hp := List.pairwise_iff_getElem.1 hnd
  rcases Nat.lt_or_gt_of_ne hij with h | h
  · exact hp i j hi hj h
  · exact fun e => hp j i hj hi h e.symm

/-- what the proof rules out: with a separate load and store, two threads can interleave
`load₀ load₁ store₀ store₁` and both receive `c₀`. -/
theorem loadStore_counterexample (c0 : Nat) :
    ids (run .loadStore { ctr := c0 } [0, 1, 0, 1]) = [c0, c0] ∧
    ¬ (ids (run .loadStore { ctr := c0 } [0, 1, 0, 1])).Nodup := by
  have h : ids (run .loadStore { ctr := c0 } [0, 1, 0, 1]) = [c0, c0] := by
    simp [run, step, ids, List.lookup, List.filter_cons]
  exact ⟨h, by rw [h]; simp⟩

theorem distinctSorted_range' (n c : Nat) : distinctSorted (List.range' c n) = n := by
  induction n generalizing c with
  | zero => rfl
  | succ n ih =>
    cases n with
    | zero => rfl
    | succ m =>
      have := ih (c + 1)
      simp only [List.range'_succ] at this ⊢
      simp only [distinctSorted]
      rw [this]
      have : ¬ c = c + 1 := by omega
      simp [this]; omega

/-- the Spec accepts the model: the summary of the ids of any rmw run has `distinct = n` -/
theorem spec_accepts_model (c0 : Nat) (sched : List Nat) :
    let r := summary (ids (run .rmw { ctr := c0 } sched))
    specStress r.1 r.2.1 = true := by
  have h := (unique_rmw c0 sched).1
  simp only [summary, specStress, h]
  have hs : (List.range' c0 sched.length).mergeSort (fun a b => decide (a ≤ b)) = List.range' c0 sched.length := by
    apply List.mergeSort_of_pairwise
    simp only [List.pairwise_iff_getElem, List.getElem_range', decide_eq_true_eq]
    intro i j _ _ hij; omega
  rw [hs, distinctSorted_range']
  simp

/-- non-vacuity -/
example : ids (run .rmw { ctr := 1 } [3, 3, 7, 0, 7]) = [1, 2, 3, 4, 5] := by decide
example : distinctSorted [3, 5, 5] = 2 := by decide

/-! ## the counter as the code has it: a wrapping `usize` -/

theorem runW_aux (w : Nat) (sched : List Nat) : ∀ (s : St) (k c0 : Nat),
    s.ctr = (c0 + k) % 2 ^ w →
    (runW w s sched).ctr = (c0 + k + sched.length) % 2 ^ w ∧
    ids (runW w s sched) = ids s ++ (List.range' (c0 + k) sched.length).map (· % 2 ^ w) := by
  induction sched with
  | nil => intro s k c0 h; simp [runW, h]
  | cons t ts ih =>
    intro s k c0 h
    have hs : (stepW w s t).ctr = (c0 + (k + 1)) % 2 ^ w := by
      simp only [stepW, h]; rw [Nat.mod_add_mod]; rfl
    have := ih (stepW w s t) (k + 1) c0 hs
    simp only [runW, List.foldl_cons] at this ⊢
    refine ⟨by rw [this.1]; congr 1; simp; omega, ?_⟩
    rw [this.2]
    simp [stepW, ids, List.range'_succ, h]
    congr 2

/-- closed form on the wrapping counter: for every width, start value and interleaving the ids
are `c₀, c₀+1, …` reduced modulo `2^w`, in allocation order -/
theorem ids_runW (w c0 : Nat) (hc : c0 < 2 ^ w) (sched : List Nat) :
    ids (runW w { ctr := c0 } sched) = (List.range' c0 sched.length).map (· % 2 ^ w) := by
  have h := (runW_aux w sched { ctr := c0 } 0 c0 (by simp [Nat.mod_eq_of_lt hc])).2
  simpa [ids] using h

/-- **Uniqueness on the real (wrapping) counter**: on a `w`-bit `usize`, for every start value
and every interleaving of at most `2^w` allocations (any number of threads and Swarms) no id is
handed out twice. -/
theorem unique_wrapping (w c0 : Nat) (hc : c0 < 2 ^ w) (sched : List Nat)
    (hn : sched.length ≤ 2 ^ w) : (ids (runW w { ctr := c0 } sched)).Nodup := by
  rw [ids_runW w c0 hc]
  rw [List.nodup_iff_pairwise_ne, List.pairwise_iff_getElem]
  intro i j hi hj hij
  simp only [List.length_map, List.length_range'] at hi hj
  simp only [List.getElem_map, List.getElem_range', Nat.one_mul]
  intro e
  have h0 := Nat.sub_mod_eq_zero_of_mod_eq e.symm
  have : c0 + j - (c0 + i) = j - i := by omega
  rw [this, Nat.mod_eq_of_lt (by omega)] at h0
  omega

/-- … and that bound is tight: allocation number `2^w + 1` receives the id of allocation number 1
again, for every interleaving.  (With `w = 64` and one allocation per nanosecond that is 584
years of process lifetime — the sense in which the property "holds".) -/
theorem wrapping_reuse (w c0 : Nat) (hc : c0 < 2 ^ w) (sched : List Nat)
    (hn : sched.length = 2 ^ w + 1) :
    (ids (runW w { ctr := c0 } sched))[0]? = some c0 ∧
    (ids (runW w { ctr := c0 } sched))[2 ^ w]? = some c0 ∧
    ¬ (ids (runW w { ctr := c0 } sched)).Nodup := by
  have h0 : (ids (runW w { ctr := c0 } sched))[0]? = some c0 := by
    rw [ids_runW w c0 hc]; simp [hn, Nat.mod_eq_of_lt hc]
  have h1 : (ids (runW w { ctr := c0 } sched))[2 ^ w]? = some c0 := by
    rw [ids_runW w c0 hc]; simp [hn, Nat.mod_eq_of_lt hc]
  refine ⟨h0, h1, ?_⟩
  intro hnd
  have hp := List.pairwise_iff_getElem.1 (List.nodup_iff_pairwise_ne.1 hnd)
  have hl : (ids (runW w { ctr := c0 } sched)).length = 2 ^ w + 1 := by
    rw [ids_runW w c0 hc]; simp [hn]
  have hpos : 0 < 2 ^ w := Nat.pos_of_ne_zero (by simp)
  have := hp 0 (2 ^ w) (by omega) (by omega) hpos
  rw [List.getElem?_eq_getElem (by omega)] at h0 h1
  simp only [Option.some.injEq] at h0 h1
  exact this (h0.trans h1.symm)

/-- the wrapping machine and the unbounded one hand out the same ids as long as the counter has
not wrapped (`c₀ + n ≤ 2^w`): the `Nat` model used for the correspondence runs is exact there -/
theorem wrapping_agrees_until_wrap (w c0 : Nat) (sched : List Nat)
    (hn : c0 + sched.length ≤ 2 ^ w) (hc : c0 < 2 ^ w) :
    ids (runW w { ctr := c0 } sched) = ids (run .rmw { ctr := c0 } sched) := by
  rw [ids_runW w c0 hc, (unique_rmw c0 sched).1]
  apply List.ext_getElem (by simp)
  intro i h1 h2
  simp only [List.length_map, List.length_range'] at h1
  simp only [List.getElem_map, List.getElem_range', Nat.one_mul]
  exact Nat.mod_eq_of_lt (by omega)

/-- the Spec accepts the wrapping model: the printed ids of any run of at most `2^w` allocations
pass `specWrap` (decimal printing is injective) -/
theorem spec_accepts_wrap (w c0 : Nat) (hc : c0 < 2 ^ w) (sched : List Nat)
    (hn : sched.length ≤ 2 ^ w) :
    specWrap ((ids (runW w { ctr := c0 } sched)).map toString) = true := by
  have hnd := List.nodup_iff_pairwise_ne.1 (unique_wrapping w c0 hc sched hn)
  simp only [specWrap, decide_eq_true_eq, List.pairwise_map]
  exact hnd.imp fun {a b} hab e => hab (Nat.repr_injective e)

example : ids (runW 2 { ctr := 1 } [5, 5, 9, 0, 9]) = [1, 2, 3, 0, 1] := by decide
example : ids (runW 3 { ctr := 7 } [0, 1, 2]) = [7, 0, 1] := by decide

end C03

#print axioms C03.unique_rmw
#print axioms C03.unique_rmw_extend
#print axioms C03.unique_rmw_pairwise
#print axioms C03.loadStore_counterexample
#print axioms C03.spec_accepts_model
#print axioms C03.unique_wrapping
#print axioms C03.wrapping_reuse
#print axioms C03.wrapping_agrees_until_wrap
#print axioms C03.spec_accepts_wrap
