import Libp2pModel.Model.C03
/-!
# C03 — property theorems (partial: atomicity of `fetch_add` is trusted)
-/
namespace C03

theorem run_rmw_aux (sched : List Nat) : ∀ s : St,
    (run .rmw s sched).ctr = s.ctr + sched.length ∧
    ids (run .rmw s sched) = ids s ++ List.range' s.ctr sched.length := by
  induction sched with
  | nil => intro s; simp [run, ids]
  | cons t ts ih =>
    intro s
    have h := ih (step .rmw s t)
    simp only [run, List.foldl_cons] at h ⊢
    refine ⟨by rw [h.1]; simp [step]; omega, ?_⟩
    rw [h.2]
    simp [step, ids, List.range'_succ]

/-- **Uniqueness for every interleaving**: whatever the number of threads, Swarms and
allocations, and whatever the schedule, with an atomic read-modify-write the ids handed out are
exactly `c₀, c₀+1, …, c₀+n-1` in allocation order — pairwise distinct, none reused, and the
counter ends at `c₀+n`. -/
theorem unique_rmw (c0 : Nat) (sched : List Nat) :
    let s := run .rmw { ctr := c0 } sched
    ids s = List.range' c0 sched.length ∧ (ids s).Nodup ∧ s.ctr = c0 + sched.length := by
  have h := run_rmw_aux sched { ctr := c0 }
  simp only [ids, List.map_nil, List.reverse_nil, List.nil_append] at h
  refine ⟨by simpa [ids] using h.2, ?_, h.1⟩
  have : ids (run .rmw { ctr := c0 } sched) = List.range' c0 sched.length := by simpa [ids] using h.2
  rw [this]; exact List.nodup_range'

/-- ids handed out later never collide with ids handed out earlier (process lifetime): extending
a history keeps all ids distinct. -/
theorem unique_rmw_extend (c0 : Nat) (sched more : List Nat) :
    (ids (run .rmw { ctr := c0 } (sched ++ more))).Nodup ∧
    ∀ x ∈ ids (run .rmw { ctr := c0 } sched), x ∈ ids (run .rmw { ctr := c0 } (sched ++ more)) := by
  have h1 := (unique_rmw c0 (sched ++ more))
  have h2 := (unique_rmw c0 sched)
  refine ⟨h1.2.1, ?_⟩
  intro x hx
  rw [h2.1] at hx
  rw [h1.1]
  simp only [List.mem_range'_1, List.length_append] at hx ⊢
  omega

/-- every pair of allocations (by the same or different threads) gets different ids -/
theorem unique_rmw_pairwise (c0 : Nat) (sched : List Nat) (i j : Nat)
    (hi : i < (ids (run .rmw { ctr := c0 } sched)).length)
    (hj : j < (ids (run .rmw { ctr := c0 } sched)).length) (hij : i ≠ j) :
    (ids (run .rmw { ctr := c0 } sched))[i] ≠ (ids (run .rmw { ctr := c0 } sched))[j] := by
  have hnd := (unique_rmw c0 sched).2.1
  have hp := List.pairwise_iff_getElem.1 hnd
  rcases Nat.lt_or_gt_of_ne hij with h | h
  · exact hp i j hi hj h
  · exact fun e => hp j i hj hi h e.symm

/-- what the proof rules out: with a separate load and store, two threads can interleave
`load₀ load₁ store₀ store₁` and both receive `c₀`. -/
theorem loadStore_counterexample (c0 : Nat) :
    ids (run .loadStore { ctr := c0 } [0, 1, 0, 1]) = [c0, c0] ∧
    ¬ (ids (run .loadStore { ctr := c0 } [0, 1, 0, 1])).Nodup := by
  have h : ids (run .loadStore { ctr := c0 } [0, 1, 0, 1]) = [c0, c0] := by
    simp [run, step, ids, List.lookup, List.filter_cons]
  exact ⟨h, by rw [h]; simp⟩

theorem distinctSorted_range' (n c : Nat) : distinctSorted (List.range' c n) = n := by
  induction n generalizing c with
  | zero => rfl
  | succ n ih =>
    cases n with
    | zero => rfl
    | succ m =>
      have := ih (c + 1)
      simp only [List.range'_succ] at this ⊢
      simp only [distinctSorted]
      rw [this]
      have : ¬ c = c + 1 := by omega
      simp [this]; omega

/-- the Spec accepts the model: the summary of the ids of any rmw run has `distinct = n` -/
theorem spec_accepts_model (c0 : Nat) (sched : List Nat) :
    let r := summary (ids (run .rmw { ctr := c0 } sched))
    specStress r.1 r.2.1 = true := by
  have h := (unique_rmw c0 sched).1
  simp only [summary, specStress, h]
  have hs : (List.range' c0 sched.length).mergeSort (fun a b => decide (a ≤ b)) = List.range' c0 sched.length := by
    apply List.mergeSort_of_pairwise
    simp only [List.pairwise_iff_getElem, List.getElem_range', decide_eq_true_eq]
    intro i j _ _ hij; omega
  rw [hs, distinctSorted_range']
  simp

/-- non-vacuity -/
example : ids (run .rmw { ctr := 1 } [3, 3, 7, 0, 7]) = [1, 2, 3, 4, 5] := by decide
example : distinctSorted [3, 5, 5] = 2 := by decide

end C03

#print axioms C03.unique_rmw
#print axioms C03.unique_rmw_extend
#print axioms C03.unique_rmw_pairwise
#print axioms C03.loadStore_counterexample
#print axioms C03.spec_accepts_model
