import Libp2pModel.Model.C30
/-!
# C30 — theorems

Property (properties.jsonl): a message surfaced as valid satisfies its validation mode: in Strict
mode it carries a source and a signature by that source's key over exactly its
from/data/seqno/topic fields; in Anonymous mode it carries no source, sequence number or
signature; in Permissive mode any present signature, sequence number and source are valid.  Any
mutation of a signed message's fields is reported as invalid in Strict mode.

Signatures and encodings are symbolic: the theorems hold for EVERY instance of the primitives
(`Prims`); the mutation theorem additionally assumes the laws collected in `Laws` — as hypotheses.
-/
namespace C30

variable {P K : Type} [DecidableEq P]

/-- "a signature by the source's key over exactly the from/data/seqno/topic fields": `from` parses to
a peer id, a signature is present, and some key `k` — taken from the key field or inlined in the
source — has `peerIdOf k = source` and verifies the signature over
`prefix ++ encode(message without signature and key)` -/
def SignedBySource (C : Prims P K) (m : Msg) : Prop :=
  ∃ from_ source sig k, m.src = some from_ ∧ C.parsePeerId from_ = some source ∧ m.signature = some sig ∧
    keyFor C m source = some k ∧ C.peerIdOf k = source ∧ C.verify k (signedBytes C m) sig = true

/-- `verify_signature` returns true exactly when the message is signed by its source -/
theorem verifySignature_iff (C : Prims P K) (m : Msg) : verifySignature C m = true ↔ SignedBySource C m := by
  unfold verifySignature SignedBySource
  constructor
  · intro h
    cases hs : m.src with
    | none => rw [hs] at h; cases h
    | some from_ =>
      rw [hs] at h
      simp only at h
      cases hp : C.parsePeerId from_ with
      | none => rw [hp] at h; cases h
      | some source =>
        rw [hp] at h
        simp only at h
        cases hsig : m.signature with
        | none => rw [hsig] at h; cases h
        | some sig =>
          rw [hsig] at h
          simp only at h
          cases hk : keyFor C m source with
          | none => rw [hk] at h; cases h
          | some k =>
            rw [hk] at h
            simp only at h
            split at h
            · cases h
            · rename_i hne
              exact ⟨from_, source, sig, k, rfl, hp, rfl, hk, by
                have : ¬ source ≠ C.peerIdOf k := hne
                exact (Classical.not_not.1 this).symm, h⟩
  · rintro ⟨from_, source, sig, k, hs, hp, hsig, hk, hid, hv⟩
    rw [hs]
    simp only
    rw [hp]
    simp only
    rw [hsig]
    simp only
    rw [hk]
    simp only
    rw [if_neg (by simp [hid])]
    exact hv

/-- a sequence number that `decode` accepts: empty, or exactly 8 bytes -/
def SeqOk (s : Bytes) : Prop := s = [] ∨ s.length = 8

theorem isEmpty_iff (s : Bytes) : s.isEmpty = true ↔ s = [] := by cases s <;> simp

/-- **C30.strict** — a message surfaced as valid under `ValidationMode::Strict` is signed by its
source over exactly its from/data/seqno/topic fields, carries a sequence number (empty or 8
bytes), and the surfaced source is that peer id (or nothing, if `from` is the empty string). -/
theorem strict (C : Prims P K) (m : Msg) (r : Raw P) (h : validateMsg C .strict m = .valid r) :
    SignedBySource C m ∧ (∃ s, m.seqno = some s ∧ SeqOk s) ∧
    (∀ b, m.src = some b → b ≠ [] → r.source = C.parsePeerId b ∧ r.source.isSome) := by
  unfold validateMsg at h
  split at h
  · cases h
  · simp only at h
    by_cases hv : verifySignature C m = true
    · simp only [hv, Bool.not_true, Bool.and_false, Bool.false_eq_true, ↓reduceIte] at h
      refine ⟨(verifySignature_iff C m).1 hv, ?_, ?_⟩
      · cases hs : m.seqno with
        | none => rw [hs] at h; simp at h
        | some s =>
          refine ⟨s, rfl, ?_⟩
          rw [hs] at h
          simp only at h
          by_cases he : s.isEmpty = true
          · exact Or.inl ((isEmpty_iff s).1 he)
          · by_cases hl : s.length ≠ 8
            · simp [he, hl] at h
            · exact Or.inr (by omega)
      · intro b hb hne
        cases hs : m.seqno with
        | none => rw [hs] at h; simp at h
        | some s =>
          rw [hs, hb] at h
          have hbe : b.isEmpty = false := by cases b with | nil => exact absurd rfl hne | cons _ _ => rfl
          cases hp : C.parsePeerId b with
          | none =>
            by_cases he : s.isEmpty = true <;> by_cases hl : s.length ≠ 8 <;> simp [he, hl, hbe, hp] at h
          | some p =>
            by_cases he : s.isEmpty = true <;> by_cases hl : s.length ≠ 8 <;> simp [he, hl, hbe, hp] at h <;>
              (subst h; simp)
    · have hv' : verifySignature C m = false := by simpa using hv
      simp [hv'] at h

/-- **C30.anonymous** — a message surfaced as valid under `ValidationMode::Anonymous` carries no
source, no sequence number and no signature (and none is surfaced). -/
theorem anonymous (C : Prims P K) (m : Msg) (r : Raw P) (h : validateMsg C .anonymous m = .valid r) :
    m.src = none ∧ m.seqno = none ∧ m.signature = none ∧ r.source = none ∧ r.seqno = none ∧ r.signature = none := by
  unfold validateMsg at h
  split at h
  · cases h
  · simp only at h
    cases hsig : m.signature with
    | some s => simp [hsig] at h
    | none =>
      cases hseq : m.seqno with
      | some s => simp [hsig, hseq] at h
      | none =>
        cases hsrc : m.src with
        | some s => simp [hsig, hseq, hsrc] at h
        | none =>
          simp [hsig, hseq, hsrc] at h
          subst h
          simp [hsig]

/-- **C30.permissive** — a message surfaced as valid under `ValidationMode::Permissive`: a present
signature is a signature by the source over the message's fields, a present sequence number is
empty or 8 bytes, a present non-empty source parses. -/
theorem permissive (C : Prims P K) (m : Msg) (r : Raw P) (h : validateMsg C .permissive m = .valid r) :
    (m.signature.isSome → SignedBySource C m) ∧ (∀ s, m.seqno = some s → SeqOk s) ∧
    (∀ b, m.src = some b → b ≠ [] → (C.parsePeerId b).isSome ∧ r.source = C.parsePeerId b) := by
  unfold validateMsg at h
  split at h
  · cases h
  · simp only at h
    refine ⟨?_, ?_, ?_⟩
    · intro hsome
      by_cases hv : verifySignature C m = true
      · exact (verifySignature_iff C m).1 hv
      · have hv' : verifySignature C m = false := by simpa using hv
        simp [hsome, hv'] at h
    · intro s hs
      by_cases hv : (m.signature.isSome && !verifySignature C m) = true
      · simp [hv] at h
      · rw [if_neg hv] at h
        rw [hs] at h
        simp only [Option.isSome_some, ↓reduceIte] at h
        by_cases he : s.isEmpty = true
        · exact Or.inl ((isEmpty_iff s).1 he)
        · by_cases hl : s.length ≠ 8
          · simp [he, hl] at h
          · exact Or.inr (by omega)
    · intro b hb hne
      by_cases hv : (m.signature.isSome && !verifySignature C m) = true
      · simp [hv] at h
      · rw [if_neg hv] at h
        have hbe : b.isEmpty = false := by cases b with | nil => exact absurd rfl hne | cons _ _ => rfl
        rw [hb] at h
        cases hp : C.parsePeerId b with
        | none =>
          cases hs : m.seqno with
          | none => simp [hs, hbe, hp] at h
          | some s =>
            by_cases he : s.isEmpty = true <;> by_cases hl : s.length ≠ 8 <;> simp [hs, he, hl, hbe, hp] at h
        | some p =>
          refine ⟨by simp, ?_⟩
          cases hs : m.seqno with
          | none => simp [hs, hbe, hp] at h; subst h; rfl
          | some s =>
            by_cases he : s.isEmpty = true <;> by_cases hl : s.length ≠ 8 <;> simp [hs, he, hl, hbe, hp] at h <;>
              (subst h; rfl)

/-- **C30.none** — under `ValidationMode::None` every message within its topic's size limit is
surfaced as valid, with nothing checked and no source / sequence number surfaced -/
theorem none_accepts (C : Prims P K) (m : Msg)
    (hsize : (C.maxFor m.topic).any (fun max => C.encodedLen m > max) = false) :
    validateMsg C .none m = .valid { source := none, data := m.data.getD [], seqno := none, topic := m.topic,
                                     signature := m.signature, key := m.key } := by
  unfold validateMsg
  simp [hsize]

/-- **C30.classification** — every rejection carries the documented `ValidationError`:
the size error only for an oversized message; the three `…Present` errors only in Anonymous mode
and only when that field is present; `InvalidSignature` only when the signature was to be checked
and `verify_signature` failed; the sequence-number errors only for a missing / wrongly sized
sequence number; `InvalidPeerId` only for a non-empty source that does not parse. -/
theorem classification (C : Prims P K) (mode : Mode) (m : Msg) (k : Kind) (r : Raw P)
    (h : validateMsg C mode m = .invalid k r) :
    match k with
    | .MessageSizeTooLargeForTopic => ∃ max, C.maxFor m.topic = some max ∧ C.encodedLen m > max
    | .SignaturePresent => mode = .anonymous ∧ m.signature.isSome
    | .SequenceNumberPresent => mode = .anonymous ∧ m.seqno.isSome ∧ m.signature = none
    | .MessageSourcePresent => mode = .anonymous ∧ m.src.isSome ∧ m.seqno = none ∧ m.signature = none
    | .InvalidSignature => ¬ SignedBySource C m ∧ (mode = .strict ∨ (mode = .permissive ∧ m.signature.isSome))
    | .EmptySequenceNumber => m.seqno = none ∧ mode = .strict
    | .InvalidSequenceNumber => ∃ s, m.seqno = some s ∧ s ≠ [] ∧ s.length ≠ 8
    | .InvalidPeerId => ∃ b, m.src = some b ∧ b ≠ [] ∧ C.parsePeerId b = none := by
  unfold validateMsg at h
  split at h
  · rename_i hbig
    injection h with hk _
    subst hk
    simp only
    cases hm : C.maxFor m.topic with
    | none => simp [hm] at hbig
    | some max => exact ⟨max, rfl, by simpa [hm] using hbig⟩
  · simp only at h
    cases mode with
    | anonymous =>
      cases hsig : m.signature with
      | some s => simp [hsig] at h; obtain ⟨rfl, _⟩ := h; simp
      | none =>
        cases hseq : m.seqno with
        | some s => simp [hsig, hseq] at h; obtain ⟨rfl, _⟩ := h; simp
        | none =>
          cases hsrc : m.src with
          | some s => simp [hsig, hseq, hsrc] at h; obtain ⟨rfl, _⟩ := h; simp
          | none => simp [hsig, hseq, hsrc] at h
    | none => simp at h
    | strict =>
      simp only at h
      by_cases hv : verifySignature C m = true
      · simp only [hv, Bool.not_true, Bool.and_false, Bool.false_eq_true, ↓reduceIte] at h
        cases hs : m.seqno with
        | none => simp [hs] at h; obtain ⟨rfl, _⟩ := h; simp
        | some s =>
          rw [hs] at h
          by_cases he : s.isEmpty = true
          · have hnil := (isEmpty_iff s).1 he
            cases hsrc : m.src with
            | none => simp [he, hsrc] at h
            | some b =>
              cases hb : b with
              | nil => simp [he, hsrc, hb] at h
              | cons x xs =>
                cases hp : C.parsePeerId (x :: xs) with
                | none => simp [he, hsrc, hb, hp] at h; obtain ⟨rfl, _⟩ := h; exact ⟨x :: xs, by simp [hb], by simp, hp⟩
                | some p => simp [he, hsrc, hb, hp] at h
          · by_cases hl : s.length ≠ 8
            · simp [he, hl] at h
              obtain ⟨rfl, _⟩ := h
              exact ⟨s, rfl, fun hn => he ((isEmpty_iff s).2 hn), hl⟩
            · cases hsrc : m.src with
              | none => simp [he, hl, hsrc] at h
              | some b =>
                cases hb : b with
                | nil => simp [he, hl, hsrc, hb] at h
                | cons x xs =>
                  cases hp : C.parsePeerId (x :: xs) with
                  | none => simp [he, hl, hsrc, hb, hp] at h; obtain ⟨rfl, _⟩ := h; exact ⟨x :: xs, by simp [hb], by simp, hp⟩
                  | some p => simp [he, hl, hsrc, hb, hp] at h
      · have hv' : verifySignature C m = false := by simpa using hv
        simp [hv'] at h
        obtain ⟨rfl, _⟩ := h
        exact ⟨fun hs => hv ((verifySignature_iff C m).2 hs), Or.inl rfl⟩
    | permissive =>
      simp only at h
      by_cases hv : (m.signature.isSome && !verifySignature C m) = true
      · simp [hv] at h
        obtain ⟨rfl, _⟩ := h
        simp only [Bool.and_eq_true, Bool.not_eq_true'] at hv
        exact ⟨fun hs => by
          have := (verifySignature_iff C m).2 hs
          rw [this] at hv
          exact absurd hv.2 (by simp), Or.inr ⟨rfl, hv.1⟩⟩
      · rw [if_neg hv] at h
        cases hs : m.seqno with
        | none =>
          rw [hs] at h
          cases hsrc : m.src with
          | none => simp [hsrc] at h
          | some b =>
            cases hb : b with
            | nil => simp [hsrc, hb] at h
            | cons x xs =>
              cases hp : C.parsePeerId (x :: xs) with
              | none => simp [hsrc, hb, hp] at h; obtain ⟨rfl, _⟩ := h; exact ⟨x :: xs, by simp [hb], by simp, hp⟩
              | some p => simp [hsrc, hb, hp] at h
        | some s =>
          rw [hs] at h
          by_cases he : s.isEmpty = true
          · cases hsrc : m.src with
            | none => simp [he, hsrc] at h
            | some b =>
              cases hb : b with
              | nil => simp [he, hsrc, hb] at h
              | cons x xs =>
                cases hp : C.parsePeerId (x :: xs) with
                | none => simp [he, hsrc, hb, hp] at h; obtain ⟨rfl, _⟩ := h; exact ⟨x :: xs, by simp [hb], by simp, hp⟩
                | some p => simp [he, hsrc, hb, hp] at h
          · by_cases hl : s.length ≠ 8
            · simp [he, hl] at h
              obtain ⟨rfl, _⟩ := h
              exact ⟨s, rfl, fun hn => he ((isEmpty_iff s).2 hn), hl⟩
            · cases hsrc : m.src with
              | none => simp [he, hl, hsrc] at h
              | some b =>
                cases hb : b with
                | nil => simp [he, hl, hsrc, hb] at h
                | cons x xs =>
                  cases hp : C.parsePeerId (x :: xs) with
                  | none => simp [he, hl, hsrc, hb, hp] at h; obtain ⟨rfl, _⟩ := h; exact ⟨x :: xs, by simp [hb], by simp, hp⟩
                  | some p => simp [he, hl, hsrc, hb, hp] at h

/-! ## mutation of a signed message -/

/-- the four signed fields -/
def signedFields (m : Msg) : Option Bytes × Option Bytes × Option Bytes × Bytes := (m.src, m.data, m.seqno, m.topic)

/-- The laws the mutation theorem assumes about the symbolic primitives — HYPOTHESES, bundled:
* `encode_inj`: the protobuf encoding of (from, data, seqno, topic) determines these four fields;
* `unforgeable`: the given signature `sig` was produced by the owner of key `k₀` for the bytes
  `bytes₀` only — no key whose peer id is the same source verifies `sig` over other bytes (the
  ideal-signature reading of EUF-CMA for this one signature). -/
structure Laws (C : Prims P K) (source : P) (sig bytes₀ : Bytes) : Prop where
  encode_inj : ∀ m m' : Msg, C.encode { m with signature := none, key := none } =
      C.encode { m' with signature := none, key := none } → signedFields m = signedFields m'
  unforgeable : ∀ (k : K) (b : Bytes), C.peerIdOf k = source → C.verify k b sig = true → b = bytes₀

/-- **C30.mutation** — let `m₀` be a message and `sig` a signature that (ideally) is valid only over
`m₀`'s signed bytes for keys of `source`.  Then every message `m` that carries `sig`, names the same
source, and is surfaced as valid in Strict mode has exactly `m₀`'s from/data/seqno/topic: any
change of a signed field is reported as invalid. -/
theorem mutation (C : Prims P K) (m₀ m : Msg) (source : P) (sig : Bytes) (r : Raw P)
    (hlaws : Laws C source sig (signedBytes C m₀))
    (hsig : m.signature = some sig)
    (hsrc : ∀ b, m.src = some b → C.parsePeerId b = some source)
    (h : validateMsg C .strict m = .valid r) : signedFields m = signedFields m₀ := by
  obtain ⟨⟨from_, src', sig', k, hfrom, hparse, hs', _, hid, hver⟩, _, _⟩ := strict C m r h
  have hsrc' : src' = source := by
    have := hsrc from_ hfrom
    rw [hparse] at this
    exact Option.some.inj this
  have hsigeq : sig' = sig := by rw [hs'] at hsig; exact Option.some.inj hsig
  subst hsrc' hsigeq
  have hb := hlaws.unforgeable k (signedBytes C m) hid hver
  unfold signedBytes at hb
  exact hlaws.encode_inj m m₀ (List.append_cancel_left hb)

/-- contrapositive, as the property words it -/
theorem mutation_rejected (C : Prims P K) (m₀ m : Msg) (source : P) (sig : Bytes)
    (hlaws : Laws C source sig (signedBytes C m₀))
    (hsig : m.signature = some sig)
    (hsrc : ∀ b, m.src = some b → C.parsePeerId b = some source)
    (hmut : signedFields m ≠ signedFields m₀) : ∃ k r, validateMsg C .strict m = .invalid k r := by
  cases hv : validateMsg C .strict m with
  | valid r => exact absurd (mutation C m₀ m source sig r hlaws hsig hsrc hv) hmut
  | invalid k r => exact ⟨k, r, rfl⟩

/-! ## the Spec accepts the model -/

/-- the facts about a message as the primitives `C` establish them -/
def factsFrom (C : Prims P K) (m : Msg) : Facts :=
  { fromParses := (m.src.bind C.parsePeerId).isSome, sigValid := verifySignature C m }

omit [DecidableEq P] in
theorem signed_fromParses (C : Prims P K) (m : Msg) (h : SignedBySource C m) :
    m.src.isSome = true ∧ (m.src.bind C.parsePeerId).isSome = true ∧ m.signature.isSome = true := by
  obtain ⟨f, s, sig, k, h1, h2, h3, _⟩ := h
  simp [h1, h2, h3]

/-- **C30.spec_accepts_model** — whenever the model surfaces a message as valid, the executable Spec
(the property evaluated on the harness' independent facts) accepts it; so `impl = model` on an
executed message implies that the Spec holds on the implementation's verdict. -/
theorem spec_accepts_model (C : Prims P K) (mode : Mode) (m : Msg) (r : Raw P)
    (h : validateMsg C mode m = .valid r) : specValid mode m (factsFrom C m) = "ok" := by
  cases mode with
  | none => rfl
  | strict =>
    obtain ⟨hs, ⟨s, hseq, hok⟩, _⟩ := strict C m r h
    obtain ⟨h1, h2, h3⟩ := signed_fromParses C m hs
    have hv := (verifySignature_iff C m).2 hs
    have hseq' : (m.seqno.any fun s => s.isEmpty || s.length == 8) = true := by
      rw [hseq]
      rcases hok with rfl | h8
      · simp
      · simp [h8]
    simp [specValid, factsFrom, h1, h2, h3, hv, hseq']
  | anonymous =>
    obtain ⟨h1, h2, h3, _⟩ := anonymous C m r h
    simp [specValid, h1, h2, h3]
  | permissive =>
    obtain ⟨hsig, hseq, hsrc⟩ := permissive C m r h
    have c1 : (m.signature.isSome && !(factsFrom C m).sigValid) = false := by
      cases hs : m.signature.isSome with
      | false => rfl
      | true =>
        have := (verifySignature_iff C m).2 (hsig hs)
        simp [factsFrom, this]
    have c2 : (m.seqno.any fun s => !(s.isEmpty || s.length == 8)) = false := by
      cases hq : m.seqno with
      | none => rfl
      | some s =>
        rcases hseq s hq with rfl | h8
        · simp
        · simp [h8]
    have c3 : (m.src.any fun b => !b.isEmpty && !(factsFrom C m).fromParses) = false := by
      cases hb : m.src with
      | none => rfl
      | some b =>
        cases b with
        | nil => simp
        | cons x xs =>
          have := (hsrc (x :: xs) hb (by simp)).1
          simp [factsFrom, hb, this]
    simp only [specValid, c1, c2, c3]
    rfl

/-! non-vacuity -/


/-- a toy instance of the primitives: peer id = key = the bytes themselves, the only valid
signature over `b` is `b` itself, `encode` lists the four fields -/
def toy : Prims Bytes Bytes where
  parsePeerId := fun b => if b.length = 3 then some b else none
  peerIdBytes := fun p => [0, 0] ++ p
  decodeKey := fun b => if b.length = 3 then some b else none
  peerIdOf := fun k => k
  verify := fun _ b sig => b == sig
  encode := fun m => (m.src.getD []) ++ [999] ++ (m.data.getD []) ++ [999] ++ (m.seqno.getD []) ++ [999] ++ m.topic
  encodedLen := fun m => (m.data.getD []).length
  maxFor := fun _ => none

def toyMsg : Msg :=
  { src := some [1, 2, 3], data := some [7], seqno := some [0, 0, 0, 0, 0, 0, 1, 0], topic := [116],
    signature := some (signingPrefix ++ [1, 2, 3, 999, 7, 999, 0, 0, 0, 0, 0, 0, 1, 0, 999, 116]), key := none }

def Outcome.kind? {P : Type} : Outcome P → Option Kind
  | .valid _ => none
  | .invalid k _ => some k
def Outcome.seq? {P : Type} : Outcome P → Option Nat
  | .valid r => r.seqno
  | .invalid _ r => r.seqno

/-- the hypotheses of `strict` are satisfiable: a signed message IS accepted in Strict mode … -/
example : (validateMsg toy .strict toyMsg).kind? = none ∧ (validateMsg toy .strict toyMsg).seq? = some 256 := by
  constructor <;> decide
/-- … its mutation is not … -/
example : (validateMsg toy .strict { toyMsg with data := some [8] }).kind? = some .InvalidSignature := by decide
/-- … and Anonymous mode rejects it while accepting the bare message -/
example : (validateMsg toy .anonymous toyMsg).kind? = some .SignaturePresent := by decide
example : (validateMsg toy .anonymous { toyMsg with src := none, seqno := none, signature := none }).kind? = none := by
  decide

end C30

#print axioms C30.verifySignature_iff
#print axioms C30.strict
#print axioms C30.anonymous
#print axioms C30.permissive
#print axioms C30.none_accepts
#print axioms C30.classification
#print axioms C30.mutation
#print axioms C30.mutation_rejected
#print axioms C30.spec_accepts_model
