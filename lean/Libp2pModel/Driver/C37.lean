import Libp2pModel.Model.C37_Mon
import Libp2pModel.Model.C40
namespace Driver.C37
open Drv _root_.C37

def pKey (s : String) : Option Nat :=
  match unhex s with
  | some bs => if C40.validKey bs then some (C40.fromBE bs) else none
  | none => none

def cfgVal (cfg : List String) (name : String) : Option String :=
  cfg.findSome? fun t => if t.startsWith (name ++ "=") then some ((t.drop (name.length + 1)).toString) else none

structure Cfg where
  localKey : Nat
  bsize : Nat
  timeout : Nat
  keys : List Nat

def parseCfg (cfg : List String) : Cfg :=
  { localKey := ((cfgVal cfg "local").bind pKey).getD 0
    bsize := ((cfgVal cfg "bsize").bind String.toNat?).getD 20
    timeout := ((cfgVal cfg "timeout").bind String.toNat?).getD 60
    keys := ((cfgVal cfg "keys").map fun s => (s.splitOn ",").filterMap pKey).getD [] }

/-- key token: index into the case's key list, or `L` for the local key -/
def keyOf (c : Cfg) (s : String) : Option Nat :=
  if s = "L" then some c.localKey else s.toNat?.bind fun i => c.keys[i]?

def idxOf (c : Cfg) (k : Nat) : String :=
  if k = c.localKey then "L" else
  match c.keys.findIdx? (· == k) with
  | some i => toString i
  | none => "?"

def pSt (s : String) : Option Status :=
  if s = "c" then some .connected else if s = "d" then some .disconnected else none

def showSt : Status → String
  | .connected => "c"
  | .disconnected => "d"

def showNode (c : Cfg) (k v : Nat) (st : Status) : String := s!"{idxOf c k}.{v}{showSt st}"

def showBucket (c : Cfg) (i : Nat) (b : Bucket) : String :=
  let ns := (List.range b.nodes.length).zipWith (fun pos n => showNode c n.key n.value (b.status pos)) b.nodes
  let p := match b.pending with
    | some p => showNode c p.node.key p.node.value p.status
    | none => "-"
  s!"B{i}={if ns.isEmpty then "-" else ",".intercalate ns};{p}" ++ (if b.poisoned then ";POISONED" else "")

def showTable (c : Cfg) (t : Table) : List String :=
  (List.range NUM_BUCKETS).filterMap fun i =>
    let b := t.bucket i
    if b.nodes.length > 0 ∨ b.pending.isSome ∨ b.poisoned then some (showBucket c i b) else none

def showApplied (c : Cfg) (l : List Applied) : String :=
  if l.isEmpty then "ap=-" else
  "ap=" ++ ",".intercalate (l.map fun a =>
    s!"{idxOf c a.inserted.key}.{a.inserted.value}/" ++
      (match a.evicted with
       | some e => s!"{idxOf c e.key}.{e.value}"
       | none => "none"))

def showInfo (l : List (Nat × Nat × Bool)) : String :=
  if l.isEmpty then "info:-" else
  "info:" ++ ",".intercalate (l.map fun (i, n, hp) => s!"{i}.{n}.{if hp then 1 else 0}")

def showRes (c : Cfg) : OpResult → String
  | .isLocal => "local"
  | .entry .isLocal => "local"
  | .entry .absent => "absent"
  | .entry (.present st v) => s!"present:{showSt st}:{v}"
  | .entry (.pending st v) => s!"pendingentry:{showSt st}:{v}"
  | .insert .inserted => "inserted"
  | .insert .full => "full"
  | .insert (.pending d) => s!"pending:{idxOf c d}"
  | .removed v st false => s!"removed:{v}:{showSt st}"
  | .removed v st true => s!"removedpending:{v}:{showSt st}"
  | .unit => "ok"
  | .info l => showInfo l

def parseOp (c : Cfg) : List String → Option Op
  | ["ins", k, v, st] => do some (.insert (← keyOf c k) (← v.toNat?) (← pSt st))
  | ["upd", k, st] => do some (.update (← keyOf c k) (← pSt st))
  | ["rem", k] => do some (.remove (← keyOf c k))
  | ["look", k] => do some (.lookup (← keyOf c k))
  | ["bkt", k] => do some (.bucketInfo (← keyOf c k))
  | ["iter"] => some .iter
  | ["adv", n] => do some (.advance (← n.toNat?))
  | _ => none

/-! ## Spec monitor over the implementation's outputs: parsing into `C37.MObs`, judged by `C37.monStep` -/

/-- `<ki>.<val><c|d>` → (key, connected?) -/
def pDNode (c : Cfg) (s : String) : Option (Nat × Bool) :=
  match s.splitOn "." with
  | [k, rest] =>
    let cs := rest.toList
    match cs.getLast?, (String.ofList cs.dropLast).toNat?, keyOf c k with
    | some 'c', some _, some key => some (key, true)
    | some 'd', some _, some key => some (key, false)
    | _, _, _ => none
  | _ => none

/-- `B<i>=<nodes>;<pending>` -/
def pDBucket (c : Cfg) (s : String) : Option MBucket :=
  if !s.startsWith "B" then none else
  match ((s.drop 1).toString).splitOn "=" with
  | [i, rest] =>
    match rest.splitOn ";" with
    | [ns, p] => do
      let i ← i.toNat?
      let nodes ← if ns = "-" then some [] else (ns.splitOn ",").mapM (pDNode c)
      let pending ← if p = "-" then some none else (pDNode c p).map some
      some ⟨i, nodes, pending⟩
    | _ => none
  | _ => none

/-- `ap=` token → list of (inserted key, evicted key option) -/
def pApplied (c : Cfg) (s : String) : Option (List (Nat × Option Nat)) :=
  if !s.startsWith "ap=" then none else
  let body := (s.drop 3).toString
  if body = "-" then some [] else
  (body.splitOn ",").mapM fun item =>
    match item.splitOn "/" with
    | [a, e] =>
      match a.splitOn ".", e.splitOn "." with
      | [ak, _], [ek, _] => do some (← keyOf c ak, some (← keyOf c ek))
      | [ak, _], ["none"] => do some (← keyOf c ak, none)
      | _, _ => none
    | _ => none

def pMOp (c : Cfg) : List String → MOp
  | ["ins", k, _, st] => match keyOf c k with | some k => .ins k (st == "c") | none => .other
  | ["upd", k, st] => match keyOf c k with | some k => .upd k (st == "c") | none => .other
  | ["rem", k] => match keyOf c k with | some k => .rem k | none => .other
  | ["adv", n] => match n.toNat? with | some n => .adv n | none => .other
  | _ => .other

def pMRes (args : List String) (res : String) : MRes :=
  match args with
  | "ins" :: _ => if res = "inserted" then .inserted else if res.startsWith "pending:" then .becamePending else .other
  | "upd" :: _ => if res.startsWith "present:" then .present else .other
  | "rem" :: _ => if res.startsWith "removed:" then .removed else .other
  | _ => .other

def monLine (c : Cfg) (m : Mon) (args outs : List String) : Mon × String :=
  match outs with
  | res :: ap :: "#" :: dumpToks =>
    match pApplied c ap, dumpToks.mapM (pDBucket c) with
    | some aps, some dump =>
      let (m', v) := monStep m ⟨pMOp c args, pMRes args res, aps, dump⟩
      (m', match v with | none => "ok" | some k => "FAIL:" ++ k)
    | _, _ => (m, "FAIL:unparsable")
  | _ => (m, "FAIL:unparsable")

structure MSt where
  cfg : Cfg
  table : Table

def machine : Machine MSt (Cfg × Mon) where
  init cfg :=
    let c := parseCfg cfg
    ⟨c, Table.new c.localKey c.bsize c.timeout⟩
  specInit cfg :=
    let c := parseCfg cfg
    (c, Mon.init c.localKey c.bsize c.timeout)
  op s args :=
    match parseOp s.cfg args with
    | none => (s, "bad-op")
    | some op =>
      let (t1, r) := s.table.step op
      let (t2, aps) := t1.drain
      ({ s with table := t2 }, unwords ([showRes s.cfg r, showApplied s.cfg aps, "#"] ++ showTable s.cfg t2))
  spec cm args outs :=
    let (m', v) := monLine cm.1 cm.2 args outs
    ((cm.1, m'), v)

end Driver.C37

def main : IO Unit := Driver.C37.machine.run
