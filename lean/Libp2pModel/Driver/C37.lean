import Libp2pModel.Model.C37
import Libp2pModel.Model.C40
namespace Driver.C37
open Drv _root_.C37

def pKey (s : String) : Option Nat :=
  match unhex s with
  | some bs => if C40.validKey bs then some (C40.fromBE bs) else none
  | none => none

def cfgVal (cfg : List String) (name : String) : Option String :=
  cfg.findSome? fun t => if t.startsWith (name ++ "=") then some ((t.drop (name.length + 1)).toString) else none

structure Cfg where
  localKey : Nat
  bsize : Nat
  timeout : Nat
  keys : List Nat

def parseCfg (cfg : List String) : Cfg :=
  { localKey := ((cfgVal cfg "local").bind pKey).getD 0
    bsize := ((cfgVal cfg "bsize").bind String.toNat?).getD 20
    timeout := ((cfgVal cfg "timeout").bind String.toNat?).getD 60
    keys := ((cfgVal cfg "keys").map fun s => (s.splitOn ",").filterMap pKey).getD [] }

/-- key token: index into the case's key list, or `L` for the local key -/
def keyOf (c : Cfg) (s : String) : Option Nat :=
  if s = "L" then some c.localKey else s.toNat?.bind fun i => c.keys[i]?

def idxOf (c : Cfg) (k : Nat) : String :=
  if k = c.localKey then "L" else
  match c.keys.findIdx? (· == k) with
  | some i => toString i
  | none => "?"

def pSt (s : String) : Option Status :=
  if s = "c" then some .connected else if s = "d" then some .disconnected else none

def showSt : Status → String
  | .connected => "c"
  | .disconnected => "d"

def showNode (c : Cfg) (k v : Nat) (st : Status) : String := s!"{idxOf c k}.{v}{showSt st}"

def showBucket (c : Cfg) (i : Nat) (b : Bucket) : String :=
  let ns := (List.range b.nodes.length).zipWith (fun pos n => showNode c n.key n.value (b.status pos)) b.nodes
  let p := match b.pending with
    | some p => showNode c p.node.key p.node.value p.status
    | none => "-"
  s!"B{i}={if ns.isEmpty then "-" else ",".intercalate ns};{p}" ++ (if b.poisoned then ";POISONED" else "")

def showTable (c : Cfg) (t : Table) : List String :=
  (List.range NUM_BUCKETS).filterMap fun i =>
    let b := t.bucket i
    if b.nodes.length > 0 ∨ b.pending.isSome ∨ b.poisoned then some (showBucket c i b) else none

def showApplied (c : Cfg) (l : List Applied) : String :=
  if l.isEmpty then "ap=-" else
  "ap=" ++ ",".intercalate (l.map fun a =>
    s!"{idxOf c a.inserted.key}.{a.inserted.value}/" ++
      (match a.evicted with
       | some e => s!"{idxOf c e.key}.{e.value}"
       | none => "none"))

def showInfo (l : List (Nat × Nat × Bool)) : String :=
  if l.isEmpty then "info:-" else
  "info:" ++ ",".intercalate (l.map fun (i, n, hp) => s!"{i}.{n}.{if hp then 1 else 0}")

def showRes (c : Cfg) : OpResult → String
  | .isLocal => "local"
  | .entry .isLocal => "local"
  | .entry .absent => "absent"
  | .entry (.present st v) => s!"present:{showSt st}:{v}"
  | .entry (.pending st v) => s!"pendingentry:{showSt st}:{v}"
  | .insert .inserted => "inserted"
  | .insert .full => "full"
  | .insert (.pending d) => s!"pending:{idxOf c d}"
  | .removed v st false => s!"removed:{v}:{showSt st}"
  | .removed v st true => s!"removedpending:{v}:{showSt st}"
  | .unit => "ok"
  | .info l => showInfo l

def parseOp (c : Cfg) : List String → Option Op
  | ["ins", k, v, st] => do some (.insert (← keyOf c k) (← v.toNat?) (← pSt st))
  | ["upd", k, st] => do some (.update (← keyOf c k) (← pSt st))
  | ["rem", k] => do some (.remove (← keyOf c k))
  | ["look", k] => do some (.lookup (← keyOf c k))
  | ["bkt", k] => do some (.bucketInfo (← keyOf c k))
  | ["iter"] => some .iter
  | ["adv", n] => do some (.advance (← n.toNat?))
  | _ => none

/-! ## Spec monitor over the implementation's outputs -/

structure DNode where
  key : String          -- key token as printed (index)
  value : Nat
  conn : Bool
  deriving Repr, BEq

structure DBucket where
  index : Nat
  nodes : List DNode
  pending : Option DNode
  deriving Repr

def pDNode (s : String) : Option DNode :=
  -- `<ki>.<val><c|d>`
  match s.splitOn "." with
  | [k, rest] =>
    let cs := rest.toList
    match cs.getLast? with
    | some 'c' => (String.ofList cs.dropLast).toNat?.map fun v => ⟨k, v, true⟩
    | some 'd' => (String.ofList cs.dropLast).toNat?.map fun v => ⟨k, v, false⟩
    | _ => none
  | _ => none

def pDBucket (s : String) : Option DBucket :=
  -- `B<i>=<nodes>;<pending>`
  if !s.startsWith "B" then none else
  match ((s.drop 1).toString).splitOn "=" with
  | [i, rest] =>
    match rest.splitOn ";" with
    | [ns, p] => do
      let i ← i.toNat?
      let nodes ← if ns = "-" then some [] else (ns.splitOn ",").mapM pDNode
      let pending ← if p = "-" then some none else (pDNode p).map some
      some ⟨i, nodes, pending⟩
    | _ => none
  | _ => none

/-- `ap=` token → list of (inserted key token, evicted key token option) -/
def pApplied (s : String) : Option (List (String × Option String)) :=
  if !s.startsWith "ap=" then none else
  let body := (s.drop 3).toString
  if body = "-" then some [] else
  (body.splitOn ",").mapM fun item =>
    match item.splitOn "/" with
    | [a, e] =>
      match a.splitOn ".", e.splitOn "." with
      | [ak, _], [ek, _] => some (ak, some ek)
      | [ak, _], ["none"] => some (ak, none)
      | _, _ => none
    | _ => none

structure Mon where
  cfg : Cfg
  now : Nat
  step : Nat
  prev : List DBucket
  /-- pending key token ↦ time it became pending -/
  created : List (String × Nat)
  /-- key token ↦ (status last assigned, stamp) -/
  assigned : List (String × Bool × Nat)

def lookupA {β} (l : List (String × β)) (k : String) : Option β := (l.find? (·.1 == k)).map (·.2)
def eraseA {β} (l : List (String × β)) (k : String) : List (String × β) := l.filter (·.1 != k)
def setA {β} (l : List (String × β)) (k : String) (v : β) : List (String × β) := (k, v) :: eraseA l k

/-- structural clauses; returns the key of the first violated one -/
def structural (c : Cfg) (d : List DBucket) : Option String :=
  let conv : List BucketDump := d.map fun b =>
    ⟨b.index, b.nodes.map (fun n => ((keyOf c n.key).getD 0, n.conn)), b.pending.map fun p => (keyOf c p.key).getD 0⟩
  if d.any (fun b => b.nodes.any (fun n => (keyOf c n.key).isNone)) then some "unknown_key"
  else if conv.any (fun b => decide (b.nodes.length > c.bsize)) then some "bucket_over_capacity"
  else if conv.any (fun b => b.nodes.any fun n => bucketIndex (c.localKey ^^^ n.1) != some b.index) then
    (if (allKeys conv).contains c.localKey then some "local_key_stored" else some "key_in_wrong_bucket")
  else if !nodupB (allKeys conv) then some "duplicate_key"
  else if conv.any (fun b => !statusOrdered (b.nodes.map (·.2))) then some "connected_before_disconnected"
  else if conv.any (fun b => match b.pending with
      | some p => (b.nodes.map (·.1)).contains p || bucketIndex (c.localKey ^^^ p) != some b.index
      | none => false) then some "pending_key_invalid"
  else if specDump c.localKey c.bsize conv then none else some "structure"

/-- the pending rule, judged on one applied record against the previous dump -/
def pendingRule (m : Mon) (a : String × Option String) : Option String :=
  match m.prev.find? (fun b => match b.pending with | some p => p.key == a.1 | none => false) with
  | none => some "applied_entry_was_not_pending"
  | some b =>
    match lookupA m.created a.1 with
    | none => some "applied_entry_was_not_pending"
    | some t0 =>
      if m.now < t0 + m.cfg.timeout then some "pending_applied_before_timeout"
      else
        match a.2 with
        | some ev =>
          match b.nodes with
          | h :: _ =>
            if h.key != ev then some "evicted_not_least_recently_disconnected"
            else if h.conn then some "evicted_connected_entry"
            else if b.nodes.length < m.cfg.bsize then some "evicted_from_non_full_bucket"
            else none
          | [] => some "evicted_not_least_recently_disconnected"
        | none => if b.nodes.length < m.cfg.bsize then none else some "full_bucket_no_eviction"

def firstSome {α} (l : List α) (f : α → Option String) : Option String := l.findSome? f

/-- least-recently-updated order and statuses, w.r.t. the monitor's own bookkeeping -/
def lruCheck (assigned : List (String × Bool × Nat)) (d : List DBucket) : Option String :=
  firstSome d fun b =>
    let info := b.nodes.map fun n => (n.conn, lookupA assigned n.key)
    if info.any (fun x => match x.2 with | some (st, _) => st != x.1 | none => true) then
      some "status_not_last_assigned"
    else
      let stamps (c : Bool) := (info.filter (·.1 == c)).filterMap fun x => x.2.map (·.2)
      let rec incr : List Nat → Bool
        | a :: b :: r => decide (a < b) && incr (b :: r)
        | _ => true
      if incr (stamps false) && incr (stamps true) then none else some "not_least_recently_updated_order"

def monStep (m : Mon) (args outs : List String) : Mon × String :=
  match outs with
  | res :: ap :: "#" :: dumpToks =>
    match pApplied ap, dumpToks.mapM pDBucket with
    | some aps, some dump =>
      -- 1. pending rule on the applied records (they happen before the op's own effect)
      let ruleFail := firstSome aps (pendingRule m)
      let assigned1 := aps.foldl (fun asg a =>
        let st := match m.prev.findSome? (fun b => match b.pending with
            | some p => if p.key == a.1 then some p.conn else none
            | none => none) with
          | some s => s
          | none => true
        let asg := match a.2 with | some e => eraseA asg e | none => asg
        setA asg a.1 (st, 2 * m.step)) m.assigned
      let created1 := aps.foldl (fun cr a => eraseA cr a.1) m.created
      -- 2. the op's own effect
      let (assigned2, created2, now2) :=
        match args with
        | ["ins", k, _, st] =>
          if res = "inserted" then (setA assigned1 k (st == "c", 2 * m.step + 1), created1, m.now)
          else if res.startsWith "pending:" then (assigned1, setA created1 k m.now, m.now)
          else (assigned1, created1, m.now)
        | ["upd", k, st] =>
          if res.startsWith "present:" then (setA assigned1 k (st == "c", 2 * m.step + 1), created1, m.now)
          else (assigned1, created1, m.now)
        | ["rem", k] =>
          if res.startsWith "removed:" then (eraseA assigned1 k, created1, m.now)
          else if res.startsWith "removedpending:" then (assigned1, eraseA created1 k, m.now)
          else (assigned1, created1, m.now)
        | ["adv", n] => (assigned1, created1, m.now + n.toNat!)
        | _ => (assigned1, created1, m.now)
      -- a pending entry that disappeared without being applied or removed was dropped
      let created3 := created2.filter fun x => dump.any fun b => match b.pending with
        | some p => p.key == x.1
        | none => false
      let m' : Mon := { m with now := now2, step := m.step + 1, prev := dump, created := created3, assigned := assigned2 }
      match structural m.cfg dump with
      | some k => (m', "FAIL:" ++ k)
      | none =>
        match ruleFail with
        | some k => (m', "FAIL:" ++ k)
        | none =>
          match lruCheck assigned2 dump with
          | some k => (m', "FAIL:" ++ k)
          | none => (m', "ok")
    | _, _ => (m, "FAIL:unparsable")
  | _ => (m, "FAIL:unparsable")

structure MSt where
  cfg : Cfg
  table : Table

def machine : Machine MSt Mon where
  init cfg :=
    let c := parseCfg cfg
    ⟨c, Table.new c.localKey c.bsize c.timeout⟩
  specInit cfg := ⟨parseCfg cfg, 0, 0, [], [], []⟩
  op s args :=
    match parseOp s.cfg args with
    | none => (s, "bad-op")
    | some op =>
      let (t1, r) := s.table.step op
      let (t2, aps) := t1.drain
      ({ s with table := t2 }, unwords ([showRes s.cfg r, showApplied s.cfg aps, "#"] ++ showTable s.cfg t2))
  spec := monStep

end Driver.C37

def main : IO Unit := Driver.C37.machine.run
