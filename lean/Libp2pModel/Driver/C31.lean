import Libp2pModel.Model.C31
namespace Driver.C31
open Drv
open _root_.C31

structure St where
  C : Codec
  buf : List Nat
  dead : Bool

def findTok (pre : String) (cfg : List String) : Option String :=
  (cfg.find? (·.startsWith pre)).map (fun t => (t.drop pre.length).toString)

def parseLimits (cfg : List String) : Limits :=
  match (findTok "L=" cfg).bind natList with
  | some [a, b, c] => ⟨a, b, c⟩
  | _ => ⟨100, 5, 50⟩

/-- `T=<topic hex>:<max>,…` or `T=-` -/
def parsePerTopic (cfg : List String) : List (List Nat × Nat) :=
  match findTok "T=" cfg with
  | none => []
  | some s =>
    if s = "-" then [] else
    (s.splitOn ",").filterMap fun e =>
      match e.splitOn ":" with
      | [t, m] => match unhex t, m.toNat? with
        | some t, some m => some (t, m)
        | _, _ => none
      | _ => none

/-- `GossipsubCodec::new(global, mode, per_topic, max_publish, max_control)` -/
def codecOf (cfg : List String) : Codec :=
  let l := parseLimits cfg
  Codec.new l.max (parsePerTopic cfg) l.maxPublish l.maxControl

def parseFrames (cfg : List String) : List FrameInfo :=
  match findTok "F=" cfg with
  | none => []
  | some s =>
    if s = "-" then [] else
    (s.splitOn ";").filterMap fun t =>
      match (t.splitOn "/").mapM String.toNat? with
      | some [w, e, g] => some (w, e, g == 1)
      | _ => none

def countTag (t : Nat) (fs : List Tok) : Nat := (fs.filter (·.1 = t)).length

/-- decode from the buffer like `drainE`, rendering each delivered RPC as
`ok:<subscriptions>,<publish entries>,<entries rejected by the per-topic size check>` -/
def render (C : Codec) : Nat → List Nat → List String × Bool × List Nat
  | 0, buf => ([], false, buf)
  | fuel + 1, buf =>
    match C.decodeStep buf with
    | .needMore => ([], false, buf)
    | .err e => (["err:" ++ e.name], true, buf)
    | .ok fs rest =>
      let body := frameBody buf
      let (more, dead, r) := render C fuel rest
      (s!"ok:{countTag 1 fs},{countTag 2 fs},{C.invalidCount body}" :: more, dead, r)

def machine : Machine St SpecSt where
  init cfg := ⟨codecOf cfg, [], false⟩
  specInit cfg := ⟨(parseLimits cfg).max, parseFrames cfg, 0, 0, false⟩
  op st args :=
    match args with
    | ["chunk", h] =>
      match unhex h with
      | some bytes =>
        if st.dead then (st, "-") else
        let buf := st.buf ++ bytes
        let (toks, dead, r) := render st.C buf.length buf
        ({ st with buf := r, dead := dead }, if toks.isEmpty then "-" else unwords toks)
      | none => (st, "bad-op")
    | _ => (st, "bad-op")
  spec s args outs :=
    match args with
    | ["chunk", h] =>
      match unhex h with
      | some bytes =>
        if outs.head? == some "panic" then (s, "FAIL:panic") else
        let oks := (outs.filter (·.startsWith "ok:")).length
        let err := outs.any (·.startsWith "err:")
        specStep s bytes.length oks err
      | none => (s, "FAIL:unparsable")
    | _ => (s, "FAIL:unparsable")

end Driver.C31

def main : IO Unit := Driver.C31.machine.run
