import Libp2pModel.Model.C31
namespace Driver.C31
open Drv
open _root_.C31

structure St where
  L : Limits
  buf : List Nat
  dead : Bool

def findTok (pre : String) (cfg : List String) : Option String :=
  (cfg.find? (·.startsWith pre)).map (fun t => (t.drop pre.length).toString)

def parseLimits (cfg : List String) : Limits :=
  match (findTok "L=" cfg).bind natList with
  | some [a, b, c] => ⟨a, b, c⟩
  | _ => ⟨100, 5, 50⟩

def parseFrames (cfg : List String) : List FrameInfo :=
  match findTok "F=" cfg with
  | none => []
  | some s =>
    if s = "-" then [] else
    (s.splitOn ";").filterMap fun t =>
      match (t.splitOn "/").mapM String.toNat? with
      | some [w, e, g] => some (w, e, g == 1)
      | _ => none

def countTag (t : Nat) (fs : List Tok) : Nat := (fs.filter (·.1 = t)).length

def showRun (r : List (List Tok) × Option Err × List Nat) : String :=
  let oks := r.1.map fun fs => s!"ok:{countTag 1 fs},{countTag 2 fs}"
  let all := oks ++ (match r.2.1 with | some e => ["err:" ++ e.name] | none => [])
  if all.isEmpty then "-" else unwords all

def machine : Machine St SpecSt where
  init cfg := ⟨parseLimits cfg, [], false⟩
  specInit cfg := ⟨(parseLimits cfg).max, parseFrames cfg, 0, 0, false⟩
  op st args :=
    match args with
    | ["chunk", h] =>
      match unhex h with
      | some bytes =>
        if st.dead then (st, "-") else
        let r := feedE (decodeStep st.L) st.buf bytes
        ({ st with buf := r.2.2, dead := r.2.1.isSome }, showRun r)
      | none => (st, "bad-op")
    | _ => (st, "bad-op")
  spec s args outs :=
    match args with
    | ["chunk", h] =>
      match unhex h with
      | some bytes =>
        if outs.head? == some "panic" then (s, "FAIL:panic") else
        let oks := (outs.filter (·.startsWith "ok:")).length
        let err := outs.any (·.startsWith "err:")
        specStep s bytes.length oks err
      | none => (s, "FAIL:unparsable")
    | _ => (s, "FAIL:unparsable")

end Driver.C31

def main : IO Unit := Driver.C31.machine.run
